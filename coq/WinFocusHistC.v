(* WinFocusHistC.v -- C15 over histories, part C (C15_requested, first half): take_focus, the
   control setters, expose and the restack request preserve FInv. *)
From Coq Require Import ZArith List Bool Lia ZifyBool Permutation.
From Tickit Require Import RectDefs RectProofs WinRectSet WinDefs WinSpec WinHist WinScreenInv
  WinLogDisjoint WinLocTree WinLocality WinPreserve
  WinFocusProofs WinFocusHistA WinFocusHistB.
Import ListNotations.
Local Open Scope Z_scope.
Local Strategy 1000 [rsfuel].

(* the two copies of "ids are unique" are the same proposition *)
Lemma ids_unique_conv : forall t, WinFocusProofs.ids_unique t <-> WinLogDisjoint.ids_unique t.
Proof. intro t. split; intro H; exact H. Qed.

(* ------------------------------------------------------------------------------------ *)
(* take_focus that stops at an invisible window leaves the focus target alone            *)

Lemma uplinked_sub : forall rest a v, uplinked (a :: rest) -> In v rest -> subtree a v.
Proof.
  induction rest as [|b r IH]; intros a v Hup Hin; [inversion Hin|].
  cbn [uplinked] in Hup. destruct Hup as [Hab Hup'].
  destruct Hin as [Hv|Hin].
  - subst v. eapply sub_kid; [exact Hab|constructor].
  - eapply subtree_trans; [|apply (IH b v Hup' Hin)]. eapply sub_kid; [exact Hab|constructor].
Qed.

Lemma fg_stop : forall T, NoDup (t_ids T) -> wf_links T ->
  forall up prev T' T'' evs,
  Forall (fun a => subtree a T) up -> uplinked up -> up <> [] ->
  match up with a :: _ => prev_in prev (t_kids a) | [] => True end ->
  agree (dirty prev) T T' ->
  focus_gained no_defects (map t_id up) (option_map t_id prev) T' = (T'', evs, false) ->
  exists v, In v up /\ w_vis (t_info v) = false /\ agree (dirty (Some v)) T T''.
Proof.
  intros T Hnd Hwl. induction up as [|a rest IH]; intros prev T' T'' evs Hall Hup Hne Hprev Hag Hfg;
    [congruence|].
  destruct a as [i ch]. cbn [t_kids] in Hprev.
  inversion Hall as [|x0 l0 Hsub Hall']; subst.
  destruct (fg_step_find T T' i ch prev Hnd Hsub Hprev Hag) as [ch' Hfind].
  cbn [map focus_gained] in Hfg. change (t_id (Node i ch)) with (w_id i) in Hfg.
  rewrite Hfind in Hfg. cbn [t_info] in Hfg.
  set (child := option_map t_id prev) in *.
  match type of Hfg with (match ?X with _ => _ end) = _ => destruct X as [tree1 ev1] eqn:E1 end.
  assert (Hag1 : agree (dirty (Some (Node i ch))) T tree1).
  { destruct (w_fchild i) as [fc|] eqn:Efc.
    - match type of E1 with (if ?c then _ else _) = _ => destruct c eqn:Econd end.
      + destruct (fg_step_lost T T' i ch prev fc Hnd Hwl Hsub Hprev Hag Efc Econd) as [x [_ [_ Hag1]]].
        destruct (t_at focus_lost fc T') as [tr e]. cbn [fst] in Hag1. inversion E1; subst. exact Hag1.
      + inversion E1; subst. eapply agree_mono; [|exact Hag]. apply dirty_grow. exact Hprev.
    - inversion E1; subst. eapply agree_mono; [|exact Hag]. apply dirty_grow. exact Hprev. }
  match type of Hfg with (match ?X with _ => _ end) = _ => destruct X as [tree1b ev1b] eqn:E1b end.
  assert (Hself : dirty (Some (Node i ch)) (w_id i)) by (cbn [dirty t_ids]; left; reflexivity).
  assert (Hag1b : agree (dirty (Some (Node i ch))) T tree1b).
  { destruct child as [c|].
    - match type of E1b with (if ?c then _ else _) = _ => destruct c end.
      + inversion E1b; subst. eapply agree_trans; [exact Hag1|].
        apply t_update_agree; [reflexivity|exact Hself].
      + inversion E1b; subst. exact Hag1.
    - inversion E1b; subst. exact Hag1. }
  match type of Hfg with (match ?X with _ => _ end) = _ => destruct X as [[tree2 ev2] rs2] eqn:E2 end.
  inversion Hfg; subst T'' evs rs2. clear Hfg.
  match goal with |- exists v, _ /\ _ /\ agree _ T (t_update ?F _ _) => set (Fn := F) end.
  assert (HFid : forall j, w_id (Fn j) = w_id j) by (intro j; unfold Fn; destruct child; reflexivity).
  destruct rest as [|b r].
  - cbn [map] in E2. inversion E2.
  - cbn [map] in E2. destruct (w_vis i) eqn:Ev.
    + cbn [uplinked] in Hup. destruct Hup as [Hin Hup'].
      destruct (IH (Some (Node i ch)) tree1b tree2 ev2 Hall' Hup') as [v [Hv [Hvis Hagv]]];
        [discriminate|exact Hin|exact Hag1b|exact E2|].
      exists v. split; [right; exact Hv|]. split; [exact Hvis|].
      eapply agree_trans; [exact Hagv|]. apply t_update_agree; [exact HFid|].
      cbn [dirty].
      assert (Hsv : subtree (Node i ch) v).
      { apply (uplinked_sub (b :: r) (Node i ch) v); [cbn [uplinked]; split; assumption|exact Hv]. }
      apply (subtree_ids _ _ Hsv). left. reflexivity.
    + inversion E2; subst tree2 ev2. exists (Node i ch).
      split; [left; reflexivity|]. split; [exact Ev|].
      eapply agree_trans; [exact Hag1b|]. apply t_update_agree; [exact HFid|exact Hself].
Qed.

(* two trees that agree outside D have the same focus target if the focus chain avoids D *)
Lemma agree_kids_find : forall D k ch ch', Forall2 (agree D) ch ch' ->
  match kids_find k ch with
  | Some c => exists c', kids_find k ch' = Some c' /\ agree D c c'
  | None => kids_find k ch' = None
  end.
Proof.
  intros D k ch ch' H. unfold kids_find. induction H as [|c c' r r' Hc Hr IH]; [reflexivity|].
  cbn [find].
  assert (Hid : t_id c' = t_id c).
  { inversion Hc; subst. unfold t_id. cbn [t_info]. congruence. }
  rewrite Hid. destruct (t_id c =? k); [|exact IH].
  exists c'. split; [reflexivity|exact Hc].
Qed.

Lemma agree_ftarget : forall (D : Z -> Prop) T T', agree D T T' ->
  (forall x, In x (focus_chain T) -> ~ D (t_id x)) -> ftarget T' = ftarget T.
Proof.
  intros D. induction T as [i ch IH] using wtree_ind'. intros T' Hag Hav.
  inversion Hag as [i0 i' ch0 ch' Hid Hinfo Hkids]; subst.
  assert (Hi : i = i').
  { apply Hinfo. apply (Hav (Node i ch)). destruct (focus_chain_hd (Node i ch)) as [tl H].
    rewrite H. left. reflexivity. }
  subst i'. rewrite !ftarget_unf. rewrite focus_chain_unf in Hav.
  destruct (w_fchild i) as [k|]; [|reflexivity].
  pose proof (agree_kids_find D k ch ch' Hkids) as Hf.
  destruct (kids_find k ch) as [c|] eqn:Ef.
  - destruct Hf as [c' [Hf' Hc]]. rewrite Hf'.
    apply kids_find_some in Ef. destruct Ef as [Hin _]. rewrite Forall_forall in IH.
    apply (IH c Hin c' Hc). intros x Hx. apply Hav. right. exact Hx.
  - rewrite Hf. reflexivity.
Qed.

(* the focus chain of a well-formed tree never enters an invisible window *)
Lemma chain_avoids : forall T, NoDup (t_ids T) -> wf_focus T -> w_vis (t_info T) = true ->
  forall v, subtree v T -> w_vis (t_info v) = false ->
  forall x, In x (focus_chain T) -> ~ In (t_id x) (t_ids v).
Proof.
  induction T as [i ch IH] using wtree_ind'. intros Hnd Hwf Hv v Hsv Hvv x Hx Hin.
  pose proof Hnd as Hnd0. apply node_nodup in Hnd. destruct Hnd as [Hni Hndch].
  apply subtree_inv in Hsv. destruct Hsv as [Hsv|[kv [Hkv Hsv]]].
  { subst v. cbn [t_info] in *. congruence. }
  assert (Hvsub : forall z, In z (t_ids v) -> In z (flat_map t_ids ch)).
  { intros z Hz. apply in_flat_map. exists kv. split; [exact Hkv|apply (subtree_ids _ _ Hsv); exact Hz]. }
  rewrite focus_chain_unf in Hx.
  assert (Hroot : x = Node i ch -> False).
  { intro Hxr. subst x. apply Hni. apply Hvsub. exact Hin. }
  destruct (w_fchild i) as [k|] eqn:Ek; [|destruct Hx as [Hx|[]]; apply Hroot; symmetry; exact Hx].
  destruct (wf_link i ch k Hwf Hndch Ek) as [c [Hf [Hcin [Hcid [Hcv Hcwf]]]]].
  rewrite Hf in Hx. destruct Hx as [Hx|Hx]; [apply Hroot; symmetry; exact Hx|].
  assert (Hxc : In (t_id x) (t_ids c)) by (apply focus_chain_ids; exact Hx).
  assert (Hkc : kv = c).
  { eapply kids_disjoint; [exact Hndch|exact Hkv|exact Hcin| |exact Hxc].
    apply (subtree_ids _ _ Hsv). exact Hin. }
  subst kv. rewrite Forall_forall in IH.
  exact (IH c Hcin (kids_nodup_in _ _ Hndch Hcin) Hcwf Hcv v Hsv Hvv x Hx Hin).
Qed.

Lemma take_focus_ftarget : forall T id chain tr ev,
  NoDup (t_ids T) -> wf_focus T -> w_vis (t_info T) = true ->
  t_chain id T = Some chain ->
  focus_gained no_defects (map t_id chain) None T = (tr, ev, false) ->
  ftarget tr = ftarget T.
Proof.
  intros T id chain tr ev Hnd Hwf Hv Hchain Hfg.
  destruct (t_chain_facts _ _ _ Hchain) as [Hup [Hall [[x [rest [Hx _]]] _]]].
  destruct (fg_stop T Hnd (wf_focus_links _ Hwf) chain None T tr ev Hall Hup) as [v [Hvin [Hvv Hag]]].
  - rewrite Hx. discriminate.
  - destruct chain; exact I.
  - apply agree_refl.
  - exact Hfg.
  - apply (agree_ftarget _ _ _ Hag). intros y Hy. cbn [dirty].
    rewrite Forall_forall in Hall.
    apply (chain_avoids T Hnd Hwf Hv v (Hall v Hvin) Hvv y Hy).
Qed.

(* ------------------------------------------------------------------------------------ *)
(* C15_requested: take_focus                                                             *)

Theorem take_focus_FInv : forall st tm id,
  FInv st tm -> FInv (fst (win_take_focus no_defects st id)) tm.
Proof.
  intros st tm id HF. pose proof HF as [HT Hok Hcur]. destruct HT as [Hu Hwf Hv Ht Hl].
  apply (finv_step st _ tm HF).
  - intro app.
    destruct (take_focus_preserves no_defects app st (canon app st) id (screen_of_state app st Hok) Hu)
      as [SI _]. exact SI.
  - apply ids_unique_win_take_focus; assumption.
  - apply wf_focus_win_take_focus; assumption.
  - unfold win_take_focus. destruct (t_chain id (r_tree st)) as [chain|] eqn:Echain; [|left; reflexivity].
    destruct (focus_gained no_defects (map t_id chain) None (r_tree st)) as [[tr ev] rs] eqn:Efg.
    cbn [fst]. destruct rs.
    + right. split; reflexivity.
    + left. cbn [set_tree r_tree]. f_equal.
      apply (take_focus_ftarget (r_tree st) id chain tr ev Hu Hwf Hv Echain Efg).
  - unfold win_take_focus. destruct (t_chain id (r_tree st)) as [chain|]; [|apply fm_refl].
    destruct (focus_gained no_defects (map t_id chain) None (r_tree st)) as [[tr ev] rs].
    cbn [fst]. eapply fm_trans; [|apply fm_cond_restore].
    apply fm_same. unfold same_flags. cbn. tauto.
Qed.

(* ------------------------------------------------------------------------------------ *)
(* C15_requested: the control setters (cursor position / visible / shape / blink, notify,   *)
(* steal)                                                                                *)

Lemma setctl_tree : forall st id f restore,
  r_tree (win_setctl st id f restore) =
  match t_find id (r_tree st) with Some _ => t_update f id (r_tree st) | None => r_tree st end.
Proof.
  intros st id f restore. unfold win_setctl. destruct (t_find id (r_tree st)) as [w|]; [|reflexivity].
  destruct (restore && w_focused (t_info w)); reflexivity.
Qed.

Theorem setctl_FInv : forall st tm id f restore,
  (forall i, w_id (f i) = w_id i /\ w_rect (f i) = w_rect i /\ w_vis (f i) = w_vis i /\
             w_fchild (f i) = w_fchild i /\ w_focused (f i) = w_focused i) ->
  (restore = false -> forall i, ckey (f i) = ckey i) ->
  FInv st tm -> FInv (win_setctl st id f restore) tm.
Proof.
  intros st tm id f restore Hf Hck HF. pose proof HF as [HT Hok Hcur]. destruct HT as [Hu Hwf Hv Ht Hl].
  assert (Hgeo : keeps_geo f).
  { split; [|split]; intro i; destruct (Hf i) as (A & B & C & _); assumption. }
  apply (finv_step st _ tm HF).
  - intro app.
    destruct (setctl_preserves app st (canon app st) id f restore Hgeo (screen_of_state app st Hok) Hu)
      as [SI _]. exact SI.
  - destruct (setctl_preserves (fun _ _ _ => 0) st (canon (fun _ _ _ => 0) st) id f restore Hgeo
                (screen_of_state _ st Hok) Hu) as [_ [Hu' _]]. exact Hu'.
  - rewrite setctl_tree. destruct (t_find id (r_tree st)); [|exact Hwf].
    apply wf_focus_update_keep; [|exact Hwf]. intro i. destruct (Hf i) as (A & _ & C & D & _). tauto.
  - unfold win_setctl. destruct (t_find id (r_tree st)) as [w|] eqn:Ew; [|left; reflexivity].
    destruct (restore && w_focused (t_info w)) eqn:Eb; [right; split; reflexivity|].
    left. cbn [set_tree r_tree]. rewrite ftarget_update.
    + destruct (w_id (ftarget (r_tree st)) =? id) eqn:Eid; [|reflexivity].
      destruct restore.
      * cbn [andb] in Eb.
        rewrite (ftarget_found (r_tree st) id w Hu Ew) by lia.
        unfold ckey. destruct (Hf (t_info w)) as (_ & _ & _ & _ & E). rewrite E, Eb. reflexivity.
      * apply Hck. reflexivity.
    + intro i. destruct (Hf i) as (A & _). exact A.
    + intros s _ _. destruct (Hf (t_info s)) as (_ & _ & _ & D & _). exact D.
  - unfold win_setctl. destruct (t_find id (r_tree st)) as [w|]; [|apply fm_refl].
    eapply fm_trans; [|apply fm_cond_restore]. apply fm_same. unfold same_flags. cbn. tauto.
Qed.

(* ------------------------------------------------------------------------------------ *)
(* C15_requested: expose and the restack request                                         *)

Theorem expose_FInv : forall st tm id ex,
  (ex = None -> id = t_id (r_tree st) -> nonempty (w_rect (t_info (r_tree st)))) ->
  r_fault (win_expose st id ex) = false ->
  FInv st tm -> FInv (win_expose st id ex) tm.
Proof.
  intros st tm id ex Hside Hfault HF. pose proof HF as [HT Hok Hcur]. destruct HT as [Hu Hwf Hv Ht Hl].
  apply (finv_step st _ tm HF).
  - intro app.
    destruct (expose_preserves app st (canon app st) id ex (screen_of_state app st Hok) Hu Hside Hfault)
      as [SI _]. exact SI.
  - rewrite win_expose_tree. exact Hu.
  - rewrite win_expose_tree. exact Hwf.
  - left. rewrite win_expose_tree. reflexivity.
  - apply fm_expose.
Qed.

Lemma win_restack_tree : forall st k id, r_tree (win_restack st k id) = r_tree st.
Proof.
  intros st k id. unfold win_restack. destruct (t_parent_id id (r_tree st)); [|reflexivity].
  destruct (r_queue st); reflexivity.
Qed.

Theorem restack_FInv : forall st tm k id, FInv st tm -> FInv (win_restack st k id) tm.
Proof.
  intros st tm k id HF. pose proof HF as [HT Hok Hcur]. destruct HT as [Hu Hwf Hv Ht Hl].
  apply (finv_step st _ tm HF).
  - intro app.
    destruct (restack_queued_preserves app st (canon app st) k id (screen_of_state app st Hok) Hu)
      as [SI _]. exact SI.
  - rewrite win_restack_tree. exact Hu.
  - rewrite win_restack_tree. exact Hwf.
  - left. rewrite win_restack_tree. reflexivity.
  - unfold win_restack. destruct (t_parent_id id (r_tree st)); [|apply fm_refl].
    destruct (r_queue st); unfold flags_mono; cbn; tauto.
Qed.
