(* Property C03: render-buffer cells follow last-writer-wins under clip, mask and translation;
   save/restore; clip monotonicity; cursor-relative operations.

   Vocabulary (definitions in RBDefs.v = model of src/renderbuffer.c, RBSpec.v = per-cell
   specification):
     step / run      the model of the C, one operation / a program; Ok, Fault or NoFuel
     Inv s           every row is a well-formed tiling by spans (WF: a start cell of length n
                     is followed by n-1 continuation cells naming it, LINE/CHAR spans have
                     length 1, ...), rows have the buffer's width, masks are >= -1, the clip
                     and every saved clip lie inside the buffer, depth = height of the stack
     abs_rb s        the grid of cells (content + mask depth) a state shows, plus the
                     auxiliary state unchanged
     astep / arun    the specification: every operation defined cell by cell -- a cell takes
                     the new content iff it lies in the operation's range shifted by the
                     translation in force, inside the clip, and is unmasked (a_paint); line
                     segments merge into a line cell (a_linecell); untouched cells keep what
                     they had, and a new buffer is all Skip (a_new)
   This file contains nothing but the property theorems, each closed by [exact <lemma>]. *)
From Coq Require Import ZArith List Bool.
From Tickit Require Import RectDefs RBDefs RBSpec RBLemmas RBAbsLemmas RBInv RBProofs RBProps RBRestore RBTheorems RBWidth RBUtf8Bridge RBPenBridge.
From Tickit Require Utf8Defs PenDefs PenProofs.
Import ListNotations.
Local Open Scope Z_scope.

(* Every operation, on any well-formed state, with any arguments: no fault, the invariant is
   kept, and the cells afterwards are exactly what the per-cell specification says. *)
Theorem C03_refines : forall s o,
  Inv s -> exists s' v, step s o = Ok (s', v) /\ Inv s' /\
    abs_rb s' = fst (astep (abs_rb s) o) /\ v = snd (astep (abs_rb s) o).
Proof. exact step_refines. Qed.
Print Assumptions C03_refines.

(* Hence every program (any length, any coordinates, any nesting of save / savepen / restore)
   on a new buffer of any size: the grid is the fold of the per-cell definitions, i.e. each
   cell holds the content and pen of the last operation that covered it while clipped-in and
   unmasked, and cells never covered are Skip. *)
Theorem C03_program : forall L C ops,
  0 <= L -> 0 <= C ->
  exists s' v, run (rb_new L C) ops = Ok (s', v) /\ Inv s' /\
    abs_rb s' = fst (arun (a_new L C) ops) /\ v = snd (arun (a_new L C) ops).
Proof. exact program_refines. Qed.
Print Assumptions C03_program.

(* The row invariant, spelled out. *)
Theorem C03_rows_wellformed : forall s y, Inv s -> 0 <= y < rb_lines s ->
  len (zn (cells s) y []) = rb_cols s /\ WF (zn (cells s) y []).
Proof. exact inv_rows_wf. Qed.
Print Assumptions C03_rows_wellformed.

(* The heart of it: make_span on a well-formed row changes the abstraction exactly on
   [col, col+n) and keeps the row well formed. *)
Theorem C03_make_span : forall r col n X,
  WF r -> 0 <= col -> 1 <= n -> col + n <= len r -> (single_cell X = true -> n = 1) ->
  exists r', make_span r col n X = Ok r' /\ len r' = len r /\ WF r' /\
    (forall i, 0 <= i < len r ->
       abs_cell r' i = if (col <=? i) && (i <? col + n) then content_at X (i - col) else abs_cell r i) /\
    (forall i, 0 <= i < len r ->
       cmask (get r' i) = if (col <=? i) && (i <? col + n) then -1 else cmask (get r i)).
Proof. exact RBSpanProofs.make_span_ok. Qed.
Print Assumptions C03_make_span.

(* No operation except reset changes the content of a cell outside the clip or under a mask. *)
Theorem C03_confined : forall s o s' v y x,
  Inv s -> step s o = Ok (s', v) -> is_reset o = false ->
  0 <= y < rb_lines s -> 0 <= x < rb_cols s ->
  cell_inb (clip (aux s)) (y, x) = false \/ am (gcell (ag (abs_rb s)) y x) <> -1 ->
  ac (gcell (ag (abs_rb s')) y x) = ac (gcell (ag (abs_rb s)) y x).
Proof. exact confined. Qed.
Print Assumptions C03_confined.

(* save; any balanced program; restore: translation, clip, pen, cursor (including whether it
   is set), depth and stack are those of the save; every cell's mask is what it was at the
   save; cell contents are as the inner program left them.  (balanced: pops only what it
   pushed, no reset.)  For every state a program can reach. *)
Theorem C03_restore : forall L C pre ops s0 v0 s2 v2 s3 v3,
  0 <= L -> 0 <= C -> balanced 0 ops = true ->
  run (rb_new L C) pre = Ok (s0, v0) ->
  run s0 (OSave :: ops) = Ok (s2, v2) ->
  step s2 ORestore = Ok (s3, v3) ->
  aux s3 = aux s0 /\
  forall y x, 0 <= y < L -> 0 <= x < C ->
    ac (gcell (ag (abs_rb s3)) y x) = ac (gcell (ag (abs_rb s2)) y x) /\
    am (gcell (ag (abs_rb s3)) y x) = am (gcell (ag (abs_rb s0)) y x).
Proof. exact restore_after_save. Qed.
Print Assumptions C03_restore.

(* Clipping can only shrink: nothing but restore / reset makes the clip cover a new cell. *)
Theorem C03_clip_shrinks : forall s ops s' v p,
  Inv s -> run s ops = Ok (s', v) -> forallb (fun o => negb (widens o)) ops = true ->
  cell_inb (clip (aux s')) p = true -> cell_inb (clip (aux s)) p = true.
Proof. exact run_clip_shrinks. Qed.
Print Assumptions C03_clip_shrinks.

(* Cursor-relative operations advance the cursor by the columns requested whatever is visible
   (this theorem has no hypothesis on clip, mask or position); an invalid text or a missing
   cursor changes nothing and returns -1. *)
Theorem C03_cursor_advances : forall s o s' v,
  Inv s -> step s o = Ok (s', v) ->
  let a := aux s in
  let a' := aux s' in
  match o with
  | OSkip n | OErase n => vc_set a = true -> vc_set a' = true /\ vc_line a' = vc_line a /\ vc_col a' = vc_col a + n
  | OSkipTo c | OEraseTo c => vc_set a = true -> vc_set a' = true /\ vc_line a' = vc_line a /\ vc_col a' = c
  | OText t =>
      (vc_set a = true -> text_valid t = true ->
         v = [text_width t] /\ vc_set a' = true /\ vc_line a' = vc_line a /\ vc_col a' = vc_col a + text_width t) /\
      (vc_set a = false \/ text_valid t = false -> v = [-1] /\ abs_rb s' = abs_rb s)
  | OChar cp =>
      (vc_set a = true -> text_valid [cp] = true -> vc_set a' = true /\ vc_line a' = vc_line a /\ vc_col a' = vc_col a + cpw cp)
  | OTextAt _ _ t => (text_valid t = true -> v = [text_width t] /\ a' = a) /\ (text_valid t = false -> v = [-1] /\ abs_rb s' = abs_rb s)
  | _ => True
  end.
Proof. exact cursor_moves. Qed.
Print Assumptions C03_cursor_advances.

(* COMPOSITION WITH PROPERTY C07.  The model measures and slices texts as lists of code points
   with the library's own width function (cpw = Utf8Spec.spec_width, which
   C07_wcwidth_is_membership proves equal to the model of tickit_utf8_wcwidth over the tables
   re-translated from the sources).  On the UTF-8 encoding of such a list (enc = the bytes
   tickit_utf8_put stores), the C07 model of tickit_utf8_ncountmore -- proved against its
   specification in C07 -- returns what the render-buffer model computes:
   (1) tickit_utf8_ncount(str, len, &pos, NULL), as put_text calls it first: the error value
       exactly for the strings the model calls invalid, otherwise all bytes, and the column count
       is text_width; *)
Theorem C03_text_valid_is_utf8 : forall s junk, cps_ok s ->
  let len := Z.of_nat (length (enc s)) in
  if text_valid s
  then exists g, Utf8Defs.u8_ncount (enc s ++ junk) len None =
                 Utf8Defs.CRet len (Utf8Defs.mkPos len (Z.of_nat (length s)) g (text_width s))
  else exists p, Utf8Defs.u8_ncount (enc s ++ junk) len None = Utf8Defs.CRet (-1) p.
Proof. exact rb_valid_is_utf8. Qed.
Print Assumptions C03_text_valid_is_utf8.

(* (2) tickit_utf8_count / countmore with a column (or grapheme) limit from a code-point
       boundary, as put_text, get_cell_text, the flush and the mock terminal slice strings: no
       error, and the code-point, grapheme and column counters are those of count_on /
       count_from0 (a = [] gives the latter). *)
Theorem C03_text_count_is_utf8 : forall a b junk g col lg lc,
  valid b -> cps_ok a ->
  let pos := Utf8Defs.mkPos (Z.of_nat (length (enc a))) (Z.of_nat (length a)) g col in
  exists r p, Utf8Defs.u8_ncountmore (enc a ++ enc b ++ 0 :: junk) None pos (rb_limit lg lc) = Utf8Defs.CRet r p /\ r <> -1 /\
              forget p = count_on (a ++ b) (forget pos) lg lc.
Proof. exact rb_count_on_is_utf8. Qed.
Print Assumptions C03_text_count_is_utf8.

(* COMPOSITION WITH PROPERTY C19.  The pens of the model are the attribute maps (all ten
   attributes, colours with their RGB8 secondaries) that C19 assigns to TickitPens
   (denote p = PenSpec.lookup p); the model's merge and equivalence are what C19's model of
   tickit_pen_copy / tickit_pen_equiv does to those maps (by C19_copy, C19_equiv_iff, C19_clear,
   C19_clone_equiv): *)
Theorem C03_pen_copy_is_C19 : forall dst src ow, PenProofs.wf src ->
  denote (PenDefs.copy dst src ow) = pen_copy (denote dst) (denote src) ow.
Proof. exact rb_pen_copy_is_C19. Qed.
Print Assumptions C03_pen_copy_is_C19.

Theorem C03_pen_equiv_is_C19 : forall x y, PenDefs.equiv x y = pen_equiv (denote x) (denote y).
Proof. exact rb_pen_equiv_is_C19. Qed.
Print Assumptions C03_pen_equiv_is_C19.

Theorem C03_pen_new_is_C19 : forall g p, denote (PenDefs.pen_new g) = pen_empty /\ denote (PenDefs.clear p) = pen_empty.
Proof. exact rb_pen_new_is_C19. Qed.
Print Assumptions C03_pen_new_is_C19.

Theorem C03_pen_clone_is_C19 : forall orig g, PenProofs.wf orig -> denote (PenDefs.clone orig g) = denote orig.
Proof. exact rb_pen_clone_is_C19. Qed.
Print Assumptions C03_pen_clone_is_C19.

(* non-vacuity: a reachable state with a text span cut by a character next to a masked cell,
   inside a save bracket, meets the hypotheses *)
Example C03_nonvacuous :
  exists s v, run (rb_new 2 6) nonvac_prog = Ok (s, v) /\ Inv s /\ wf_rbb s = true /\
    depth (aux s) = 1 /\ v = [4] /\
    ac (gcell (ag (abs_rb s)) 0 3) = AText pen_empty [65; 66; 67; 68] 3 /\
    balanced 0 [OSavePen; OSetPen None; OEraseAt 0 0 3; ORestore] = true.
Proof. exact nonvacuous. Qed.
