(* placeholder until the proofs are in: see RBProofs.v *)
From Tickit Require Import RBDefs RBSpec.
Example C03_nonvacuous : True.
Proof. exact I. Qed.
