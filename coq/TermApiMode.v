(* TermApiMode.v -- C12 at the level of the public API of term.c: the control, pen and
   life-cycle calls are exactly the operations of XtermModeSpec.v, so the history theorems
   hold of histories of calls. *)
From Coq Require Import ZArith List Bool Lia.
From Tickit Require Import Csi VT TermPenDefs TermPenSpec TermPenProofs XtermDefs XtermModeSpec
  XtermModeProofs XtermModeFinal TermApiDefs.
Import ListNotations.
Local Open Scope Z_scope.

Definition mop_of_api (a : api) : option mop :=
  match a with
  | ASetctl c v => Some (OSet c v)
  | AGetctl c => Some (OGet c)
  | ASetpen p => Some (OSetpen p)
  | AChpen p => Some (OChpen p)
  | APause => Some OPause
  | AResume => Some OResume
  | ATeardown => Some OTeardown
  | ADestroy => Some ODestroy
  | _ => None
  end.

Lemma api_step_mop : forall t a o, mop_of_api a = Some o -> api_step t a = mode_step t o.
Proof.
  intros t a o H. destruct a; cbn [mop_of_api] in H; inversion H; subst; cbn [api_step mode_step];
    reflexivity.
Qed.

Fixpoint mops_of (l : list api) : option (list mop) :=
  match l with
  | [] => Some []
  | a :: r => match mop_of_api a, mops_of r with
              | Some o, Some os => Some (o :: os)
              | _, _ => None
              end
  end.

Lemma api_run_mops : forall l ops t, mops_of l = Some ops -> api_run t l = mode_run t ops.
Proof.
  induction l as [|a l IH]; intros ops t H.
  - inversion H. reflexivity.
  - cbn [mops_of] in H. destruct (mop_of_api a) as [o|] eqn:Eo; [|discriminate].
    destruct (mops_of l) as [os|] eqn:Eos; [|discriminate]. inversion H; subst.
    cbn [api_run mode_run]. rewrite (api_step_mop t a o Eo).
    destruct (mode_step t o) as [[[t' ts] v]|]; [|reflexivity].
    rewrite (IH os t' eq_refl). reflexivity.
Qed.

(* the checker walking a history of CALLS: as [hist_check], the model step being the call *)
Fixpoint api_hist_check (kp : bool) (colon rgb8 cshape : bool) (init : mstate) (i : nat) (t : term) (s : ostate)
         (l : list api) : mverdict :=
  match l with
  | [] => MOk i
  | a :: rest =>
      match mop_of_api a with
      | None => MOutOfRange i
      | Some o =>
          if os_stopped s && negb (match o with ODestroy | OGet _ => true | _ => false end) then MOutOfRange i
          else if negb (op_in_rangeb o) then MOutOfRange i
          else
            match api_step t a with
            | None => MBadAt i 99
            | Some (t', ts, value) =>
                match check_op_v kp colon rgb8 cshape init s o (vt_run ts (os_vt s)) (is_nil ts) value with
                | (Some s', _) => api_hist_check kp colon rgb8 cshape init (S i) t' s' rest
                | (None, O) => MOutOfRange i
                | (None, why) => MBadAt i why
                end
            end
      end
  end.

Lemma api_hist_check_mops : forall l ops kp colon rgb8 cshape init i t s, mops_of l = Some ops ->
  api_hist_check kp colon rgb8 cshape init i t s l = hist_check kp colon rgb8 cshape init i t s ops.
Proof.
  induction l as [|a l IH]; intros ops kp colon rgb8 cshape init i t s H.
  - inversion H. reflexivity.
  - cbn [mops_of] in H. destruct (mop_of_api a) as [o|] eqn:Eo; [|discriminate].
    destruct (mops_of l) as [os|] eqn:Eos; [|discriminate]. inversion H; subst.
    cbn [api_hist_check hist_check]. rewrite Eo, (api_step_mop t a o Eo).
    destruct (os_stopped s && negb (match o with ODestroy | OGet _ => true | _ => false end)); [reflexivity|].
    destruct (negb (op_in_rangeb o)); [reflexivity|].
    destruct (mode_step t o) as [[[t' ts] v]|]; [|reflexivity].
    destruct (check_op_v kp colon rgb8 cshape init s o (vt_run ts (os_vt s)) (is_nil ts) v) as [[s'|] n];
      [apply IH; reflexivity | reflexivity].
Qed.

Lemma api_hist_prefix_mops : forall l kp colon rgb8 cshape init i t s j w,
  api_hist_check kp colon rgb8 cshape init i t s l = MBadAt j w ->
  exists l1 ops1, mops_of l1 = Some ops1 /\
    hist_check kp colon rgb8 cshape init i t s ops1 = MBadAt j w.
Proof.
  induction l as [|a l IH]; intros kp colon rgb8 cshape init i t s j w H.
  - discriminate H.
  - cbn [api_hist_check] in H. destruct (mop_of_api a) as [o|] eqn:Eo; [|discriminate H].
    destruct (os_stopped s && negb (match o with ODestroy | OGet _ => true | _ => false end)) eqn:E1;
      [discriminate H|].
    destruct (negb (op_in_rangeb o)) eqn:E2; [discriminate H|].
    destruct (api_step t a) as [[[t' ts] v]|] eqn:Es.
    + destruct (check_op_v kp colon rgb8 cshape init s o (vt_run ts (os_vt s)) (is_nil ts) v) as [[s'|] n] eqn:Ec.
      * destruct (IH _ _ _ _ _ _ _ _ _ _ H) as (l1 & ops1 & Hm & Hh).
        exists (a :: l1), (o :: ops1). split.
        -- cbn [mops_of]. rewrite Eo, Hm. reflexivity.
        -- cbn [hist_check]. rewrite E1, E2, <- (api_step_mop t a o Eo), Es, Ec. exact Hh.
      * exists [a], [o]. split; [cbn [mops_of]; rewrite Eo; reflexivity|].
        cbn [hist_check]. rewrite E1, E2, <- (api_step_mop t a o Eo), Es, Ec.
        destruct n; [discriminate H|exact H].
    + exists [a], [o]. split; [cbn [mops_of]; rewrite Eo; reflexivity|].
      cbn [hist_check]. rewrite E1, E2, <- (api_step_mop t a o Eo), Es. exact H.
Qed.

(* C12 for every history of calls of the public API *)
Lemma api_history_nokp : forall colon rgb8 cshape l t s,
  start_ok colon rgb8 cshape t s ->
  forall i w, api_hist_check false colon rgb8 cshape init_ms 0 t s l <> MBadAt i w.
Proof.
  intros colon rgb8 cshape l t s Hst i w H.
  destruct (api_hist_prefix_mops _ _ _ _ _ _ _ _ _ _ _ H) as (l1 & ops1 & _ & Hh).
  exact (history_nokp_c colon rgb8 cshape ops1 t s Hst i w Hh).
Qed.

Definition api_sets_keypad_on (l : list api) : bool :=
  existsb (fun a => match a with ASetctl CtlKeypadApp v => negb (v =? 0) | _ => false end) l.

Lemma mops_keypad : forall l ops, mops_of l = Some ops -> sets_keypad_on ops = api_sets_keypad_on l.
Proof.
  induction l as [|a l IH]; intros ops H.
  - inversion H. reflexivity.
  - cbn [mops_of] in H. destruct (mop_of_api a) as [o|] eqn:Eo; [|discriminate].
    destruct (mops_of l) as [os|] eqn:Eos; [|discriminate]. inversion H; subst.
    unfold sets_keypad_on, api_sets_keypad_on in *. cbn [existsb]. rewrite (IH os eq_refl).
    destruct a; cbn [mop_of_api] in Eo; inversion Eo; subst; reflexivity.
Qed.

Lemma api_history_full_partial : forall colon rgb8 cshape l ops t s,
  start_ok colon rgb8 cshape t s -> mops_of l = Some ops -> api_sets_keypad_on l = false ->
  forall i w, api_hist_check true colon rgb8 cshape init_ms 0 t s l <> MBadAt i w.
Proof.
  intros colon rgb8 cshape l ops t s Hst Hm Hk i w.
  rewrite (api_hist_check_mops l ops _ _ _ _ _ _ _ _ Hm).
  apply history_full_partial_c; [exact Hst|]. rewrite (mops_keypad l ops Hm). exact Hk.
Qed.
