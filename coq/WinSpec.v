(* WinSpec.v -- the specifications of the window-layer properties, as small recursive
   functions over the window tree, and the boolean checkers the oracle runs on the
   implementation's own observations.

   compose / owner   (C01, C02): the painter's model.  The owner of a cell is found by
     descending from the root into the FIRST visible child whose rectangle contains the
     cell (children over their parent, earlier siblings over later ones, hidden subtrees
     ignored; since the descent requires containment at every level, everything is clipped
     to every ancestor).  The cell shows what the owner paints at the cell's position
     relative to the owner's own top-left corner.
   cursor_spec       (C15)
   key_order, mouse_order (C14) are in WinInputSpec.v. *)
From Coq Require Import ZArith List Bool.
From Tickit Require Import RectDefs WinRectSet WinDefs.
Import ListNotations.
Local Open Scope Z_scope.

(* owner of the cell p (relative to t's origin, assumed inside t): window id and the
   position relative to that window *)
Fixpoint owner_rel (t : wtree) (p : cell) : Z * cell :=
  match t with
  | Node i ch =>
    match (fix first (l : list wtree) : option (Z * cell) :=
             match l with
             | [] => None
             | c :: r =>
               let ci := t_info c in
               if w_vis ci && cell_inb (w_rect ci) p
               then Some (owner_rel c (fst p - top (w_rect ci), snd p - left (w_rect ci)))
               else first r
             end) ch with
    | Some x => x
    | None => (w_id i, p)
    end
  end.

(* [t] is the root window; p is a screen position *)
Definition owner (t : wtree) (p : cell) : option (Z * cell) :=
  let i := t_info t in
  if w_vis i && cell_inb (selfrect i) p then Some (owner_rel t p) else None.

Definition compose (app : Z -> Z -> Z -> Z) (t : wtree) (p : cell) : option Z :=
  match owner t p with
  | Some (id, q) => Some (app id (fst q) (snd q))
  | None => None
  end.

(* ------------------------------------------------------------------------------------ *)
(* enumeration of a grid                                                                 *)

Definition zrange (lo n : Z) : list Z := map (fun k => lo + Z.of_nat k) (seq 0 (Z.to_nat n)).
Definition grid_cells (nl nc : Z) : list cell :=
  flat_map (fun y => map (fun x => (y, x)) (zrange 0 nc)) (zrange 0 nl).

(* C01: every cell of the screen shows the composition *)
Definition c01_checkb (app : Z -> Z -> Z -> Z) (t : wtree) (nl nc : Z) (grid : cell -> Z) : bool :=
  forallb (fun p => match compose app t p with
                    | Some c => grid p =? c
                    | None => true
                    end) (grid_cells nl nc).

(* ------------------------------------------------------------------------------------ *)
(* C02                                                                                   *)

Definition in_any (rs : list rect) (p : cell) : bool := existsb (fun r => cell_inb r p) rs.

(* every changed cell lies in the damage handed to the root, belongs to a window, and
   shows something that window's program can draw THERE: its own character for the cell's
   position relative to it, a blank or a line glyph (which glyph is compared
   exactly by the correspondence check: the model merges segment bits under the mask rule) *)
Definition c02_cells_checkb (app : Z -> Z -> Z -> Z) (t : wtree) (nl nc : Z)
  (before after : cell -> Z) (damage : list rect) : bool :=
  forallb (fun p =>
             if before p =? after p then true else
             in_any damage p &&
             match owner t p with
             | Some (id, q) =>
               (after p =? app id (fst q) (snd q)) || (after p =? BLANK) || is_line (after p)
             | None => false
             end) (grid_cells nl nc).

Fixpoint pairwise_okb {A} (ok : A -> A -> bool) (l : list A) : bool :=
  match l with
  | [] => true
  | x :: r => forallb (ok x) r && pairwise_okb ok r
  end.

(* the rectangles handed to handlers: inside the window, and never overlapping for one
   window within one flush *)
Definition c02_rects_checkb (t : wtree) (log : list (Z * rect)) : bool :=
  forallb (fun e => match t_find (fst e) t with
                    | Some w => nonemptyb (snd e) && r_contains (selfrect (t_info w)) (snd e)
                    | None => false
                    end) log &&
  pairwise_okb (fun a b => negb ((fst a =? fst b) && r_intersects (snd a) (snd b))) log.

(* ------------------------------------------------------------------------------------ *)
(* C15: where the terminal cursor must be after a flush                                  *)

(* the focus chain: follow the focused-child links from the root to the end *)
Fixpoint focus_chain (t : wtree) : list wtree :=
  match t with
  | Node i ch =>
    match w_fchild i with
    | None => [t]
    | Some k =>
      match (fix go (l : list wtree) : option (list wtree) :=
               match l with
               | [] => None
               | c :: r => if t_id c =? k then Some (focus_chain c) else go r
               end) ch with
      | Some p => t :: p
      | None => [t]
      end
    end
  end.

Definition chain_origin (chain : list wtree) : Z * Z :=
  fold_left (fun acc w => (fst acc + top (w_rect (t_info w)), snd acc + left (w_rect (t_info w)))) chain (0, 0).

(* Some (line, col, shape) = visible there; None = hidden *)
Definition cursor_spec (t : wtree) : option (Z * Z * Z) :=
  let chain := focus_chain t in
  let w := last chain t in
  let i := t_info w in
  let o := chain_origin chain in
  let p := (fst o + w_cline i, snd o + w_ccol i) in
  if w_focused i && forallb (fun x => w_vis (t_info x)) chain && w_cvis i &&
     match owner t p with
     | Some (id, q) => (id =? w_id i) && (fst q =? w_cline i) && (snd q =? w_ccol i)
     | None => false
     end
  then Some (fst p, snd p, w_cshape i) else None.

Definition c15_cursor_checkb (t : wtree) (vis : bool) (line col shape : Z) : bool :=
  match cursor_spec t with
  | Some (l, c, s) => vis && (line =? l) && (col =? c) && (shape =? s)
  | None => negb vis
  end.

(* the focus events of one take_focus: every OUT before every IN *)
Fixpoint outs_before_ins (evs : list fev) (seen_in : bool) : bool :=
  match evs with
  | [] => true
  | (_, true, _) :: r => outs_before_ins r true
  | (_, false, _) :: r => negb seen_in && outs_before_ins r seen_in
  end.

(* ------------------------------------------------------------------------------------ *)
(* C15: which focus events one take_focus must produce                                   *)

(* everything along the focus chain of the subtree [t] loses the focus: each focused window
   on it is told OUT about itself, each notifying parent on it OUT about its child *)
Fixpoint lost_events (t : wtree) : list fev :=
  match t with
  | Node i ch =>
    (match w_fchild i with
     | Some k =>
       (fix go (l : list wtree) : list fev :=
          match l with
          | [] => []
          | c :: r => if t_id c =? k then lost_events c else go r
          end) ch ++ (if w_notify i then [(w_id i, false, k)] else [])
     | None => []
     end) ++ (if w_focused i then [(w_id i, false, w_id i)] else [])
  end.

(* [up] = [w; parent; ...; root]; [child] = the window the focus arrives from (None at w
   itself).  Result: the OUT events and the IN events that must occur. *)
Fixpoint focus_walk_spec (up : list wtree) (child : option Z) : list fev * list fev :=
  match up with
  | [] => ([], [])
  | a :: rest =>
    let i := t_info a in
    let outs :=
      (match w_fchild i with
       | Some x =>
         if (match child with Some c => c =? x | None => false end) then []
         else (match kids_find x (t_kids a) with Some c => lost_events c | None => [] end)
              ++ (if w_notify i then [(w_id i, false, x)] else [])
       | None => []
       end) ++
      (match child with
       | Some _ => if w_focused i then [(w_id i, false, w_id i)] else []
       | None => []
       end) in
    let ins :=
      match child with
      | None => [(w_id i, true, w_id i)]
      | Some c => if w_notify i then [(w_id i, true, c)] else []
      end in
    let '(o, n) :=
      match rest with
      | [] => ([], [])
      | _ :: _ => if w_vis i then focus_walk_spec rest (Some (w_id i)) else ([], [])
      end in
    (outs ++ o, ins ++ n)
  end.

Definition focus_spec (t : wtree) (w : Z) : list fev * list fev :=
  match t_chain w t with
  | Some up => focus_walk_spec up None
  | None => ([], [])
  end.

Definition fev_eqb (a b : fev) : bool :=
  match a, b with
  | (r1, d1, w1), (r2, d2, w2) => (r1 =? r2) && Bool.eqb d1 d2 && (w1 =? w2)
  end.
Definition fev_count (e : fev) (l : list fev) : nat := length (filter (fev_eqb e) l).
Definition fev_same (l1 l2 : list fev) : bool :=
  forallb (fun e => Nat.eqb (fev_count e l1) (fev_count e l2)) (l1 ++ l2).

Definition is_in (e : fev) : bool := match e with (_, d, _) => d end.

(* the observed events: every OUT before every IN, and exactly the demanded ones *)
Definition c15_focus_checkb (t : wtree) (w : Z) (evs : list fev) : bool :=
  let '(outs, ins) := focus_spec t w in
  outs_before_ins evs false &&
  fev_same (filter (fun e => negb (is_in e)) evs) outs &&
  fev_same (filter is_in evs) ins.

(* ------------------------------------------------------------------------------------ *)
(* C01 with pending damage (handlers that re-enter the window layer during the flush add
   damage that only the next flush renders): every cell OUTSIDE the pending damage shows the
   composition, and whenever damage is pending the flags that make the next flush render it
   are set *)
Definition c01_pending_checkb (app : Z -> Z -> Z -> Z) (t : wtree) (nl nc : Z) (grid : cell -> Z)
  (damage : list rect) (nexp later : bool) : bool :=
  forallb (fun p => in_any damage p ||
                    match compose app t p with
                    | Some c => grid p =? c
                    | None => true
                    end) (grid_cells nl nc) &&
  (match damage with [] => true | _ :: _ => nexp && later end).

(* ------------------------------------------------------------------------------------ *)
(* C02, exact form: what one flush does to the screen when the handlers run arbitrary
   drawing programs.  A cell inside the damage that belongs to window w ends up with what
   w's OWN program, run on an empty cell at the cell's position relative to w, leaves there
   (nothing, if the program does not touch it or skips it last); every other cell keeps
   its content.  Line segments accumulate within the owner's program only. *)
Definition cell_after (app : Z -> Z -> Z -> Z) (prog : list dop) (id : Z) (handed : rect) (nl nc : Z)
  (q : cell) : option Z :=
  fold_left (fun v o =>
               match dop_cells app id handed nl nc o q with
               | Some (PSet c) => Some c
               | Some PSkip => None
               | Some (PLine b) =>
                 Some (LINEBASE + Z.lor (match v with Some c => if is_line c then c - LINEBASE else 0 | None => 0 end) b)
               | None => v
               end) prog None.

Definition c02_exact_checkb (app : Z -> Z -> Z -> Z) (progs : Z -> list dop) (t : wtree) (nl nc : Z)
  (before after : cell -> Z) (log : list (Z * rect)) : bool :=
  let damage := map snd (filter (fun e => fst e =? t_id t) log) in
  forallb (fun p =>
             match (if in_any damage p then owner t p else None) with
             | Some (w, q) =>
               match find (fun e => (fst e =? w) && cell_inb (snd e) q) log with
               | Some (_, handed) =>
                 match cell_after app (progs w) w handed nl nc q with
                 | Some c => after p =? c
                 | None => after p =? before p
                 end
               | None => after p =? before p
               end
             | None => after p =? before p
             end) (grid_cells nl nc).

(* ------------------------------------------------------------------------------------ *)
(* What a flush may and may not do to the tree and with the damage (oracle clauses that
   compare the state right before a flush with the state after it)                       *)

(* C01: queued restack requests take effect at the flush IN THE ORDER they were made *)
Definition restack_spec (reqs : list (hchange * Z)) (t : wtree) : wtree :=
  fold_left (fun t e => match t_parent_id (snd e) t with
                        | Some pid => t_upd_kids (apply_hchange (fst e) (snd e)) pid t
                        | None => t
                        end) reqs t.

Fixpoint zlist_eqb (a b : list Z) : bool :=
  match a, b with
  | [], [] => true
  | x :: r, y :: r' => (x =? y) && zlist_eqb r r'
  | _, _ => false
  end.

Definition c01_restack_checkb (reqs : list (hchange * Z)) (before after : wtree) : bool :=
  zlist_eqb (sub_ids (restack_spec reqs before)) (sub_ids after).

(* C02: the rectangles handed to the root window are damage: each lies inside the region
   that was pending when the flush began (checked when no restack is applied by the flush) *)
Definition rect_cells (r : rect) : list cell :=
  flat_map (fun y => map (fun x => (y, x)) (zrange (left r) (cols r))) (zrange (top r) (lines r)).

Definition c02_within_pending_checkb (rootid : Z) (pending : list rect) (log : list (Z * rect)) : bool :=
  forallb (fun e => negb (fst e =? rootid) || forallb (in_any pending) (rect_cells (snd e))) log.

(* C14 / C15: what tickit_window_show does to the focus links: the shown window becomes its
   parent's focused child exactly when the parent has none and the window is flagged focused
   or has a focused child of its own (hide had unlinked it); a parent that has a focused child
   keeps it (another window may have taken the focus meanwhile); every other link, every
   focused flag and the shape of the tree are untouched, the window is visible afterwards *)
Definition fchild_eqb (a b : option Z) : bool :=
  match a, b with Some x, Some y => x =? y | None, None => true | _, _ => false end.

Definition show_fchild_spec (id : Z) (before : wtree) (x : Z) (i : winfo) : option Z :=
  match t_parent_id id before, t_find id before with
  | Some p, Some w =>
    if (x =? p) && match w_fchild i with None => true | Some _ => false end &&
       ((match w_fchild (t_info w) with Some _ => true | None => false end) || w_focused (t_info w))
    then Some id else w_fchild i
  | _, _ => w_fchild i
  end.

Definition c15_show_checkb (id : Z) (before after : wtree) : bool :=
  zlist_eqb (sub_ids before) (sub_ids after) &&
  forallb (fun x => match t_find x before, t_find x after with
                    | Some a, Some b =>
                      Bool.eqb (w_focused (t_info a)) (w_focused (t_info b)) &&
                      fchild_eqb (show_fchild_spec id before x (t_info a)) (w_fchild (t_info b)) &&
                      Bool.eqb (w_vis (t_info b)) (if x =? id then true else w_vis (t_info a))
                    | _, _ => false
                    end) (sub_ids before).

(* tickit_window_hide and the focus links: the parent's link is dropped exactly when it names the
   hidden window -- whatever that window holds --; nothing else changes, the window is invisible *)
Definition c15_hide_checkb (id : Z) (before after : wtree) : bool :=
  zlist_eqb (sub_ids before) (sub_ids after) &&
  forallb (fun x => match t_find x before, t_find x after with
                    | Some a, Some b =>
                      Bool.eqb (w_focused (t_info a)) (w_focused (t_info b)) &&
                      fchild_eqb (if fchild_eqb (t_parent_id id before) (Some x) && fchild_eqb (w_fchild (t_info a)) (Some id)
                                  then None else w_fchild (t_info a))
                                 (w_fchild (t_info b)) &&
                      Bool.eqb (w_vis (t_info b)) (if x =? id then false else w_vis (t_info a))
                    | _, _ => false
                    end) (sub_ids before).

(* C15: a flush (which applies the queued restacks) moves no focus: every window keeps its
   focused-child link and its focused flag *)
Definition c15_links_kept_checkb (before after : wtree) : bool :=
  forallb (fun id => match t_find id before, t_find id after with
                     | Some a, Some b =>
                       Bool.eqb (w_focused (t_info a)) (w_focused (t_info b)) &&
                       match w_fchild (t_info a), w_fchild (t_info b) with
                       | Some x, Some y => x =? y
                       | None, None => true
                       | _, _ => false
                       end
                     | _, _ => false
                     end) (sub_ids after).
