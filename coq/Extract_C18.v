From Coq Require Extraction.
From Coq Require Import ExtrOcamlBasic.
From Tickit Require Import LoopDefs LoopSpec LoopSigDefs LoopSigSpec LoopPipeDefs LoopPipeSpec LoopPipeSnap.
Extraction "mC18.ml" srun fixed_cfg pinned_cfg stop_early_cfg xspec_run xspec_checkb f_run fb_checkb yspec_run yspec_checkb.
