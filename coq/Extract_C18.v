From Coq Require Extraction.
From Coq Require Import ExtrOcamlBasic.
From Tickit Require Import LoopDefs LoopSpec LoopSigDefs LoopSigSpec.
Extraction "mC18.ml" srun fixed_cfg pinned_cfg xspec_run xspec_checkb.
