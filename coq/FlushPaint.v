(* FlushPaint.v -- the render-buffer side of the C04 / C09 composition, stated with [paint] (RBTermSim.v):
   for every buffer a drawing program reaches, the flush's operations are executable by the gridless
   [paint] on any terminal size at least the buffer's, from any cursor and pen; the abstract terminal of
   C04 run on them shows what [paint] wrote last (t_run_paint) and meets the buffer's expectation
   (C04_flush_full_reachable).  Only facts of the RB development are used here. *)
From Coq Require Import ZArith List Bool Lia.
From Tickit Require Import RectDefs RBDefs RBSpec RBLemmas RBSpanProofs RBAbsLemmas RBInv RBOpProofs RBProofs RBProps RBTheorems RBGlyphs
  Gen_Linechars RBFlushDefs RBFlushSpec RBFlushProofs RBWidth RBFlushCols RBFlushReach RBTermSim RBFlushShown RBFlushFull.
Import ListNotations.
Local Open Scope Z_scope.

Theorem flush_paint_reachable : forall L C prog s r t0,
  0 <= L -> 0 <= C -> Forall op_ok prog -> run (rb_new L C) prog = Ok (s, r) ->
  term_ok t0 -> L <= t_lines t0 -> C <= t_cols t0 ->
  exists ops w cur' pn' t1,
    flush s = Ok (ops, reset s) /\
    paint (t_lines t0) (t_cols t0) None (t_cur t0) ops = Some (w, cur', pn') /\
    t_run t0 ops = Ok t1 /\
    (forall y x, 0 <= y < t_lines t0 -> 0 <= x < t_cols t0 -> tcellat t1 y x = look w (y, x) (tcellat t0 y x)) /\
    grid_meets (ag (fst (arun (a_new L C) prog))) (tg t0) (tg t1) = true.
Proof.
  intros L C prog s r t0 HL HC Ho E T TL TC.
  destruct (program_refines L C prog HL HC) as (t & w0 & F & I & Ab & _). rewrite E in F. inversion F; subst t w0.
  assert (Hc : acells_ok (abs_rb s)).
  { rewrite Ab. apply arun_aok; [exact Ho|apply ashape_new; assumption|apply aok_new; assumption]. }
  assert (SL : rb_lines s = L /\ rb_cols s = C).
  { destruct (arun_dims prog (a_new L C) (ashape_new L C HL HC)) as (D1 & D2).
    rewrite <- Ab in D1, D2. cbn [abs_rb a_lines a_cols a_new] in D1, D2. split; assumption. }
  destruct SL as (SL1 & SL2).
  destruct (flush_total_and_resets s I) as (ops & Ef & _).
  pose proof Ef as Ef'. unfold flush in Ef'.
  destruct (flush_rows (cells s) 0) as [o| |] eqn:Er; cbn [bind] in Ef'; try discriminate.
  inversion Ef'; subst o. clear Ef'.
  destruct (flush_rows_paint (cells s) 0 None (t_cur t0) ops (t_lines t0) (t_cols t0)) as (w & cur' & pn' & P & Lk); try lia.
  { intros r0 Hr. apply In_nth with (d := []) in Hr. destruct Hr as (k & Hk & <-).
    assert (Hy : 0 <= Z.of_nat k < rb_lines s) by (rewrite <- (inv_lines s I); unfold zlen; lia).
    destruct (inv_rows s I (Z.of_nat k) Hy) as (Hl & W & _).
    assert (RC := rows_content_ok s (Z.of_nat k) I Hc Hy).
    unfold zn in W, RC, Hl. rewrite Nat2Z.id in W, RC, Hl. repeat split; try assumption. lia. }
  { rewrite (inv_lines s I). lia. }
  { exact Er. }
  destruct (t_run_paint ops t0 None w cur' pn' T Logic.I P) as (t1 & Et & T1 & F1 & _ & _ & G).
  destruct (flush_full s t0 ops (reset s) I Hc T) as (t1' & Et' & Gm); try lia; [exact Ef|].
  rewrite Et in Et'. inversion Et'; subst t1'.
  exists ops, w, cur', pn', t1. split; [exact Ef|]. split; [exact P|]. split; [exact Et|]. split; [exact G|].
  rewrite <- Ab. exact Gm.
Qed.
