(* WinFocusHistory.v -- property C15 over histories.

   FInv st tm (WinFocusHistB.v): the tree is well formed (unique ids, focused-child links name
   visible children, the root visible at the origin), the damage/flag hygiene of the C01 screen
   invariant holds, and the terminal cursor is where cursor_spec puts it OR a flush that will
   put it there is pending (later, and needs_restore or needs_expose).

   C15_requested   every operation of C15's alphabet preserves FInv (the per-operation theorems
                   X_FInv of WinFocusHistC.v / WinFocusHistD.v, collected in step_FInv);
   flush_FInv      a flush ends with the cursor exactly at cursor_spec, and FInv;
   C15_history, C15_history_flushed, C15_init: by induction over any history. *)
From Coq Require Import ZArith List Bool Lia ZifyBool Permutation.
From Tickit Require Import RectDefs RectProofs WinRectSet WinDefs WinSpec WinHist WinScreenInv
  WinFlushProofs WinLogDisjoint WinLocA WinLocTree WinLocality WinPreserve WinHistory
  WinFocusProofs WinFocusHistA WinFocusHistB WinFocusHistC WinFocusHistD.
Import ListNotations.
Local Open Scope Z_scope.
Local Strategy 1000 [rsfuel].

(* ------------------------------------------------------------------------------------ *)
(* the restack queue, as the flush applies it                                            *)

Lemma flush_pre_after_queue : forall st, flush_pre st = after_queue st.
Proof. reflexivity. Qed.

Lemma do_hchange_ftarget : forall st k pid wid, ids_unique (r_tree st) ->
  ftarget (r_tree (do_hchange st k pid wid)) = ftarget (r_tree st).
Proof.
  intros st k pid wid Hu. unfold ids_unique in Hu. rewrite do_hchange_tree.
  destruct (t_find wid (r_tree st)); [|reflexivity].
  apply (ftarget_upd_kids _ pid (fun _ => True)).
  - apply kids_perm_ok. exact (apply_hchange_perm k wid).
  - intros l k' Hnd _. apply kids_find_perm; [exact Hnd|]. apply apply_hchange_perm. exact Hnd.
  - exact Hu.
  - intros; exact I.
Qed.

Lemma fm_do_hchange : forall st k pid wid, flags_mono st (do_hchange st k pid wid).
Proof.
  intros st k pid wid. unfold do_hchange. destruct (t_find wid (r_tree st)) as [w|]; [|apply fm_refl].
  eapply fm_trans; [|apply fm_cond_expose]. apply fm_same. unfold same_flags. cbn. tauto.
Qed.

Lemma hchange_fold_more : forall q s, ids_unique (r_tree s) ->
  let s' := fold_left (fun s e => match e with (k, p, w) => do_hchange s k p w end) q s in
  ftarget (r_tree s') = ftarget (r_tree s) /\ flags_mono s s'.
Proof.
  induction q as [|[[k p] w] q IH]; intros s Hu; cbn zeta; cbn [fold_left].
  - split; [reflexivity|apply fm_refl].
  - destruct (IH (do_hchange s k p w) (ids_unique_do_hchange _ _ _ _ Hu)) as [Hft Hfm].
    split.
    + rewrite Hft. apply do_hchange_ftarget. exact Hu.
    + eapply fm_trans; [apply fm_do_hchange|exact Hfm].
Qed.

Lemma after_queue_more : forall st, ids_unique (r_tree st) ->
  ftarget (r_tree (after_queue st)) = ftarget (r_tree st) /\
  (r_nexp st = true -> r_nexp (after_queue st) = true) /\
  (r_nrest st = true -> r_nrest (after_queue st) = true).
Proof.
  intros st Hu. unfold after_queue. cbn zeta.
  destruct (hchange_fold_more (r_queue (set_flags st (r_nexp st) (r_nrest st) false))
              (set_queue (set_flags st (r_nexp st) (r_nrest st) false) []) Hu) as [Hft (_ & FE & FR)].
  split; [exact Hft|]. split; [exact FE|exact FR].
Qed.

(* ------------------------------------------------------------------------------------ *)
(* 3. the flush                                                                          *)

Theorem flush_FInv : forall hnd st tm st' tm' lg,
  FInv st tm -> win_flush no_defects hnd st tm = (st', tm', lg) -> r_fault st' = false ->
  cursor_of tm' = cursor_spec (r_tree st') /\ FInv st' tm'.
Proof.
  intros hnd st tm st' tm' lg HF Hfl Hfault. pose proof HF as [HT Hok Hcur].
  pose proof HT as [Hu Hwf Hv Ht Hl0].
  destruct (r_later st) eqn:Hl.
  2:{ unfold win_flush in Hfl. rewrite Hl in Hfl. cbn [negb] in Hfl. inversion Hfl; subst st' tm' lg.
      destruct Hcur as [Hc|[Hc _]]; [|congruence]. split; [exact Hc|exact HF]. }
  set (st2 := after_queue st) in *.
  assert (Hfa : r_fault st2 = false).
  { pose proof Hfl as H. rewrite (win_flush_unfold _ _ st tm Hl) in H. cbn zeta in H. fold st2 in H.
    destruct (r_nexp st2); [|destruct (r_nrest st2)]; inversion H; subst st'; exact Hfault. }
  (* the queue, through the C01 machinery: hygiene and locality of the state after it *)
  assert (HQ : forall app, ScreenInv app (queue_applied st) (canon app st)).
  { intro app. destruct (queue_preserves app st (canon app st) (screen_of_state app st Hok) Hu Hl Hfa)
      as (_ & SI & _). exact SI. }
  destruct (queue_preserves (fun _ _ _ => 0) st (canon (fun _ _ _ => 0) st) (screen_of_state _ st Hok) Hu Hl Hfa)
    as (Hleq & _ & _ & _ & _ & Hq2).
  fold st2 in Hleq, Hq2. destruct Hleq as (LT & LD & _ & LE & LR & _).
  pose proof (state_of_screen _ _ _ (HQ (fun _ _ _ => 0))) as Hokq.
  pose proof (owner_locality st (queue_applied st) Hok HQ) as Hloc.
  rewrite <- LT, <- LD in Hloc.
  (* the tree after the queue is well formed and has the same focus target *)
  destruct (flush_pre_inv st Hu Hwf) as [Hu2 [Hwf2 Hi2]].
  rewrite flush_pre_after_queue in Hu2, Hwf2, Hi2. fold st2 in Hu2, Hwf2, Hi2.
  assert (HT2 : WFT (r_tree st2)) by (constructor; [exact Hu2|exact Hwf2|rewrite Hi2..]; assumption).
  destruct (after_queue_more st Hu) as [Hft2 [FE FR]]. fold st2 in Hft2, FE, FR.
  (* no needs_expose after the queue: no damage *)
  assert (Hnodmg : r_nexp st2 = false -> r_damage st2 = []).
  { intro Hn. destruct (so_flags _ Hokq) as [Hf1 _]. rewrite <- LD, <- LE in Hf1.
    destruct (r_damage st2) as [|x rest]; [reflexivity|].
    destruct Hf1 as [H1 _]; [discriminate|congruence]. }
  assert (Hne2 : all_nonempty (r_damage st2)) by (rewrite LD; apply (so_nonempty _ Hokq)).
  assert (Hor2 : top (w_rect (t_info (r_tree st2))) = 0 /\ left (w_rect (t_info (r_tree st2))) = 0)
    by (rewrite Hi2; split; assumption).
  assert (Hv2 : w_vis (t_info (r_tree st2)) = true) by (rewrite Hi2; exact Hv).
  rewrite (win_flush_unfold _ _ st tm Hl) in Hfl. cbn zeta in Hfl. fold st2 in Hfl.
  destruct (r_nexp st2) eqn:En.
  - inversion Hfl; subst st' tm' lg. cbn [set_flags set_damage r_tree].
    assert (Hc : cursor_of (do_restore (r_tree st2)
                   (term_flush_rb (term_set_cvis tm false) (flush_buffer no_defects hnd st2)))
                 = cursor_spec (r_tree st2)).
    { destruct HT2 as [A B C D E]. apply C15_restore; assumption. }
    split; [exact Hc|]. constructor; [exact HT2| |left; exact Hc].
    constructor; cbn [set_flags set_damage r_tree r_damage r_queue r_nexp r_later]; try assumption.
    + constructor.
    + split; [intro H; exfalso; apply H; reflexivity|rewrite Hq2; intro H; exfalso; apply H; reflexivity].
  - destruct (r_nrest st2) eqn:Er.
    + inversion Hfl; subst st' tm' lg. cbn [set_flags r_tree].
      assert (Hc : cursor_of (do_restore (r_tree st2) tm) = cursor_spec (r_tree st2)).
      { destruct HT2 as [A B C D E]. apply C15_restore; assumption. }
      split; [exact Hc|]. constructor; [exact HT2| |left; exact Hc].
      constructor; cbn [set_flags r_tree r_damage r_queue r_nexp r_later]; try assumption.
      rewrite (Hnodmg eq_refl), Hq2.
      split; intro H; exfalso; apply H; reflexivity.
    + inversion Hfl; subst st' tm' lg.
      assert (Hc0 : cursor_of tm = cursor_spec (r_tree st)).
      { destruct Hcur as [Hc|[_ [Hr|He]]]; [exact Hc| |].
        - apply FR in Hr. congruence.
        - apply FE in He. congruence. }
      assert (Hc : cursor_of tm = cursor_spec (r_tree st2)).
      { destruct (cursor_spec_stable (r_tree st) (r_tree st2) (r_damage st2) HT HT2) as [He|Hd].
        - rewrite Hft2. reflexivity.
        - exact Hloc.
        - rewrite He. exact Hc0.
        - exfalso. apply Hd. apply Hnodmg. reflexivity. }
      split; [exact Hc|]. constructor; [exact HT2| |left; exact Hc].
      constructor; try assumption.
      rewrite (Hnodmg eq_refl), Hq2. split; intro H; exfalso; apply H; reflexivity.
Qed.

(* ------------------------------------------------------------------------------------ *)
(* 2. C15_requested, collected over the steps of WinHist.step                            *)

Definition FInvM (m : mstate) : Prop := FInv (m_root m) (m_term m).

(* every operation of C15's alphabet (everything of WinHist.op but the flush, the three scrolls
   and the terminal resize, for which op_side is False), under WinPreserve.op_side: fresh ids for
   new windows; no show / hide / geometry change of the root; geometry changes followed by the
   exposes of the old and the new area; an expose of the whole root only if it is not empty *)
Theorem C15_requested : forall progs o m,
  FInvM m -> op_side (m_root m) o -> r_fault (m_root (step no_defects progs o m)) = false ->
  FInvM (step no_defects progs o m) /\ m_term (step no_defects progs o m) = m_term m.
Proof.
  intros progs o m HF Hside Hfault. unfold FInvM in *.
  destruct o; cbn [step op_side] in *; unfold m_set_root in *; cbn [m_root m_term] in *;
    try contradiction.
  - split; [apply new_FInv; assumption|reflexivity].
  - split; [apply close_FInv; assumption|reflexivity].
  - split; [apply show_FInv; assumption|reflexivity].
  - split; [apply hide_FInv; assumption|reflexivity].
  - split; [apply restack_FInv; assumption|reflexivity].
  - destruct Hside as [-> Hr]. split; [apply geometry_FInv; assumption|reflexivity].
  - destruct Hside as [-> Hr]. split; [apply reposition_FInv; assumption|reflexivity].
  - destruct Hside as [-> Hr]. split; [apply resize_FInv; assumption|reflexivity].
  - split; [apply expose_FInv; assumption|reflexivity].
  - pose proof (take_focus_FInv (m_root m) (m_term m) id HF) as H.
    destruct (win_take_focus no_defects (m_root m) id) as [st' ev]. cbn [fst m_root m_term] in *.
    split; [exact H|reflexivity].
  - split; [|reflexivity]. apply setctl_FInv; [intro i; repeat split|discriminate|exact HF].
  - split; [|reflexivity]. apply setctl_FInv; [intro i; repeat split|discriminate|exact HF].
  - split; [|reflexivity]. apply setctl_FInv; [intro i; repeat split|discriminate|exact HF].
  - split; [|reflexivity]. apply setctl_FInv; [intro i; repeat split|discriminate|exact HF].
  - split; [|reflexivity]. apply setctl_FInv; [intro i; repeat split|intros _ i; reflexivity|exact HF].
  - split; [|reflexivity]. apply setctl_FInv; [intro i; repeat split|intros _ i; reflexivity|exact HF].
Qed.

Theorem flush_step_FInv : forall progs m,
  FInvM m -> r_fault (m_root (step no_defects progs OFlush m)) = false ->
  FInvM (step no_defects progs OFlush m) /\
  cursor_of (m_term (step no_defects progs OFlush m)) =
  cursor_spec (r_tree (m_root (step no_defects progs OFlush m))).
Proof.
  intros progs m HF Hfault. unfold FInvM in *. cbn [step] in *.
  destruct (win_flush no_defects (prog_handler (m_app m) progs) (m_root m) (m_term m)) as [[st' tm'] lg] eqn:E.
  cbn [m_root m_term] in *.
  destruct (flush_FInv _ _ _ _ _ _ HF E Hfault) as [Hc HF']. split; assumption.
Qed.

(* ------------------------------------------------------------------------------------ *)
(* 4. histories                                                                          *)

Fixpoint focus_run_ok (progs : Z -> list dop) (ops : list op) (m : mstate) : Prop :=
  match ops with
  | [] => True
  | o :: rest =>
    let m' := step no_defects progs o m in
    (match o with OFlush => True | _ => op_side (m_root m) o end) /\
    r_fault (m_root m') = false /\ focus_run_ok progs rest m'
  end.

Theorem C15_history : forall progs ops m,
  FInvM m -> focus_run_ok progs ops m -> FInvM (run no_defects progs ops m).
Proof.
  intros progs. induction ops as [|o rest IH]; intros m Hm Hok; [exact Hm|].
  cbn [run fold_left]. fold (run no_defects progs rest (step no_defects progs o m)).
  destruct Hok as (Hside & Hf & Hrest). apply IH; [|exact Hrest].
  destruct o; try (apply (C15_requested progs _ m Hm Hside Hf)).
  apply (flush_step_FInv progs m Hm Hf).
Qed.

(* after a history that ends with a flush the terminal cursor is exactly where the
   specification puts it for the window tree of that moment *)
Theorem C15_history_flushed : forall progs ops m,
  FInvM m -> focus_run_ok progs (ops ++ [OFlush]) m ->
  let m' := run no_defects progs (ops ++ [OFlush]) m in
  cursor_of (m_term m') = cursor_spec (r_tree (m_root m')).
Proof.
  intros progs ops m Hm Hok. cbn zeta.
  assert (Hsplit : forall ops m, focus_run_ok progs (ops ++ [OFlush]) m ->
            focus_run_ok progs ops m /\
            r_fault (m_root (step no_defects progs OFlush (run no_defects progs ops m))) = false).
  { induction ops0 as [|o rest IH]; intros m0 H.
    - cbn [app focus_run_ok] in H. cbn [run fold_left focus_run_ok]. tauto.
    - cbn [app focus_run_ok] in H. destruct H as (H1 & H2 & H3). destruct (IH _ H3) as [H4 H5].
      cbn [focus_run_ok]. split; [tauto|]. exact H5. }
  destruct (Hsplit ops m Hok) as [Hok' Hf].
  unfold run. rewrite fold_left_app. cbn [fold_left]. fold (run no_defects progs ops m).
  apply flush_step_FInv; [|exact Hf]. apply C15_history; assumption.
Qed.

(* the cursor is right at EVERY flush of the history, not only the last *)
Corollary C15_history_every_flush : forall progs ops1 ops2 m,
  FInvM m -> focus_run_ok progs (ops1 ++ OFlush :: ops2) m ->
  let m' := run no_defects progs (ops1 ++ [OFlush]) m in
  cursor_of (m_term m') = cursor_spec (r_tree (m_root m')).
Proof.
  intros progs ops1 ops2 m Hm Hok. apply C15_history_flushed; [exact Hm|].
  revert m Hm Hok. induction ops1 as [|o rest IH]; intros m Hm Hok.
  - cbn [app focus_run_ok] in *. tauto.
  - cbn [app focus_run_ok] in *. destruct Hok as (H1 & H2 & H3). split; [exact H1|]. split; [exact H2|].
    apply IH; [|exact H3].
    destruct o; try (apply (C15_requested progs _ m Hm H1 H2)). apply (flush_step_FInv progs m Hm H2).
Qed.

(* ------------------------------------------------------------------------------------ *)
(* 5. the initial state                                                                  *)

Theorem C15_init_f : forall fuel nl nc orc, 0 < nl -> 0 < nc -> r_fault (m_root (m_init_f fuel nl nc orc)) = false ->
  FInvM (m_init_f fuel nl nc orc).
Proof.
  intros fuel nl nc orc Hl Hc Hf. destruct (init_inv_f fuel nl nc orc Hl Hc Hf) as [SI _].
  pose proof (state_of_screen _ _ _ SI) as Hok.
  unfold FInvM, m_init_f in *. cbn [m_root m_term] in *.
  assert (Htree : r_tree (win_expose (root_new_f fuel nl nc) 0 None) = r_tree (root_new_f fuel nl nc))
    by apply win_expose_tree.
  constructor; [|exact Hok|].
  - rewrite Htree. cbn [root_new_f r_tree].
    constructor; try reflexivity.
    + unfold ids_unique. cbn. constructor; [intros []|constructor].
    + constructor; [intros k Hk; cbn in Hk; discriminate|constructor].
  - left. rewrite Htree. reflexivity.
Qed.

Theorem C15_init : forall nl nc orc, 0 < nl -> 0 < nc -> r_fault (m_root (m_init nl nc orc)) = false ->
  FInvM (m_init nl nc orc).
Proof. exact (C15_init_f rsfuel). Qed.

(* ------------------------------------------------------------------------------------ *)
(* non-vacuity: a concrete history inside the alphabet; the theorem applies and the cursor *)
(* ends up visible                                                                       *)

Definition demo_ops : list op :=
  [ ONew 1 0 (mkRect 2 3 5 10) false false false false;
    ONew 2 1 (mkRect 1 1 3 6) false false false false;
    OFocus 2; OCurPos 2 1 2; OFlush;
    ONew 3 0 (mkRect 0 0 4 6) false false false false; OFlush;
    OMove 1 1 1 true; OHide 3; ORestack HRaiseFront 1 ].

Example C15_history_nonvacuous :
  let m0 := m_init 12 30 pol_accept in
  FInvM m0 /\ focus_run_ok (fun _ => [DPaint]) (demo_ops ++ [OFlush]) m0 /\
  cursor_spec (r_tree (m_root (run no_defects (fun _ => [DPaint]) (demo_ops ++ [OFlush]) m0))) = Some (3, 4, 1) /\
  cursor_of (m_term (run no_defects (fun _ => [DPaint]) (demo_ops ++ [OFlush]) m0)) = Some (3, 4, 1).
Proof.
  cbn zeta.
  assert (H0 : FInvM (m_init 12 30 pol_accept)).
  { apply C15_init; [lia|lia|vm_compute; reflexivity]. }
  assert (Hok : focus_run_ok (fun _ => [DPaint]) (demo_ops ++ [OFlush]) (m_init 12 30 pol_accept)).
  { vm_compute. repeat split; try discriminate; intuition discriminate. }
  split; [exact H0|]. split; [exact Hok|].
  assert (Hs : cursor_spec (r_tree (m_root (run no_defects (fun _ => [DPaint]) (demo_ops ++ [OFlush])
                 (m_init 12 30 pol_accept)))) = Some (3, 4, 1)) by (vm_compute; reflexivity).
  split; [exact Hs|]. rewrite <- Hs.
  apply (C15_history_flushed (fun _ => [DPaint]) demo_ops (m_init 12 30 pol_accept) H0 Hok).
Qed.
