(* WinFuelMono.v -- more fuel for the rectangle-set loops never changes a fault-free result:
   monotonicity of the wrappers of WinRectSet.v and of the helpers of WinDefs.v in the fuel, the
   state [with_fuel f st] (st with r_fuel replaced by f), and for every model operation that
   does not fault on st: op (with_fuel f' st) = with_fuel f' (op st) whenever r_fuel st <= f'. *)
From Coq Require Import ZArith List Bool Lia ZifyBool.
From Tickit Require Import RectDefs RectProofs WinRectSet WinRectSetProofs WinDefs WinSpec WinHist
  WinFlushProofs WinPreserve.
From Tickit Require RectSetDefs RectSetTerm RectSetTermSub.
Import ListNotations.
Local Open Scope Z_scope.

(* ------------------------------------------------------------------------------------ *)
(* STEP 1: the wrappers                                                                  *)

Lemma rs_add_mono f f' s q s' : rs_add f s q = Some s' -> (f <= f')%nat -> rs_add f' s q = Some s'.
Proof. unfold rs_add. apply RectSetTermSub.rs_add_mono. Qed.

Lemma rs_add_list_mono f f' s l s' :
  rs_add_list f s l = Some s' -> (f <= f')%nat -> rs_add_list f' s l = Some s'.
Proof. unfold rs_add_list. apply RectSetTermSub.rs_add_list_mono. Qed.

Lemma rs_subtract_mono f f' s q s' :
  rs_subtract f s q = Some s' -> (f <= f')%nat -> rs_subtract f' s q = Some s'.
Proof.
  unfold rs_subtract. intros H Hle.
  exact (RectSetTermSub.rs_step_mono f f' s (RectSetDefs.OSub q) s' H Hle).
Qed.

Lemma scan_mono (rec rec' : rect -> option bool) :
  (forall q b, rec q = Some b -> rec' q = Some b) ->
  forall s q b, RectSetDefs.rs_contains_scan rec s q = Some b ->
                RectSetDefs.rs_contains_scan rec' s q = Some b.
Proof.
  intros H. induction s as [|x rest IH]; intros q b; cbn [RectSetDefs.rs_contains_scan]; [tauto|].
  cbv zeta.
  destruct (negb (RectDefs.r_intersects x q)); [apply IH|].
  destruct ((top q <? top x) || (left q <? left x)); [tauto|].
  destruct ((top q <? bottom x) && (bottom x <? bottom q)); [|tauto].
  destruct (rec (init_bounded (bottom x) (left q) (bottom q) (right q))) as [[|]|] eqn:E;
    try discriminate; rewrite (H _ _ E); tauto.
Qed.

Lemma rs_contains_mono : forall f f' s q b,
  rs_contains f s q = Some b -> (f <= f')%nat -> rs_contains f' s q = Some b.
Proof.
  unfold rs_contains. induction f as [|f IH]; intros f' s q b H Hle; [discriminate|].
  destruct f' as [|f']; [lia|]. cbn [RectSetDefs.rs_contains] in *.
  revert H. apply scan_mono. intros q0 b0 H0. apply (IH f' s q0 b0 H0). lia.
Qed.

(* the helpers of WinDefs.v *)
Lemma rs_sub_vis_mono f f' : (f <= f')%nat -> forall l s s',
  rs_sub_vis f s l = Some s' -> rs_sub_vis f' s l = Some s'.
Proof.
  intros Hle. unfold rs_sub_vis. induction l as [|c l IH]; intros s s' H; [exact H|].
  cbn [fold_left] in *. destruct s as [s0|].
  - destruct (w_vis (t_info c)); [|apply IH; exact H].
    destruct (rs_subtract f s0 (w_rect (t_info c))) as [s1|] eqn:E.
    + rewrite (rs_subtract_mono _ _ _ _ _ E Hle). apply IH. exact H.
    + exfalso. revert H. clear. induction l as [|c' l IH]; cbn [fold_left]; [discriminate|exact IH].
  - exfalso. revert H. clear. induction l as [|c' l IH]; cbn [fold_left]; [discriminate|exact IH].
Qed.

Lemma fold_none {A B} (g : option A -> B -> option A) :
  (forall x, g None x = None) -> forall l, fold_left g l None = None.
Proof. intros H. induction l as [|x l IH]; cbn [fold_left]; [reflexivity|]. rewrite H. exact IH. Qed.

Lemma rs_clip_mono f f' s bounds s' : (f <= f')%nat ->
  rs_clip f s bounds = Some s' -> rs_clip f' s bounds = Some s'.
Proof.
  intros Hle. unfold rs_clip. generalize (Some (@nil rect)) as acc. revert s'.
  induction s as [|x s IH]; intros s' acc H; [exact H|]. cbn [fold_left] in *.
  destruct acc as [a|].
  - destruct (r_intersect x bounds) as [y|]; [|apply IH; exact H].
    destruct (rs_add f a y) as [a1|] eqn:E.
    + rewrite (rs_add_mono _ _ _ _ _ E Hle). apply IH. exact H.
    + rewrite fold_none in H; [discriminate|reflexivity].
  - rewrite fold_none in H; [discriminate|reflexivity].
Qed.

Lemma shift_damage_mono f f' dmg rc d r s' : (f <= f')%nat ->
  shift_damage f dmg rc d r = Some s' -> shift_damage f' dmg rc d r = Some s'.
Proof.
  intros Hle. unfold shift_damage. generalize (Some (@nil rect)) as acc. revert s'.
  induction dmg as [|x s IH]; intros s' acc H; [exact H|]. cbn [fold_left] in *.
  destruct acc as [a|]; [|rewrite fold_none in H; [discriminate|reflexivity]].
  destruct ((bottom x <? top rc) || (top x >? bottom rc) || (right x <? left rc) || (left x >? right rc)).
  - destruct (rs_add f a x) as [a1|] eqn:E;
      [|rewrite fold_none in H; [discriminate|reflexivity]].
    rewrite (rs_add_mono _ _ _ _ _ E Hle). apply IH. exact H.
  - destruct (rs_add_list f a (r_subtract x rc)) as [a1|] eqn:E;
      [|rewrite fold_none in H; [discriminate|reflexivity]].
    rewrite (rs_add_list_mono _ _ _ _ _ E Hle).
    destruct (r_intersect x rc) as [ins|]; [|apply IH; exact H].
    destruct (r_intersect (r_translate ins (- d) (- r)) rc) as [y|]; [|apply IH; exact H].
    destruct (rs_add f a1 y) as [a2|] eqn:E2;
      [|rewrite fold_none in H; [discriminate|reflexivity]].
    rewrite (rs_add_mono _ _ _ _ _ E2 Hle). apply IH. exact H.
Qed.

Lemma scroll_region_mono cfg f f' : (f <= f')%nat -> forall chain v a b,
  scroll_region cfg f chain v a b <> SFault ->
  scroll_region cfg f' chain v a b = scroll_region cfg f chain v a b.
Proof.
  intros Hle. induction chain as [|w rest IH]; intros v a b H; [reflexivity|].
  cbn [scroll_region] in *. destruct (negb (w_vis (t_info w))); [reflexivity|].
  destruct rest as [|p rest']; [reflexivity|].
  destruct (rs_sub_vis f (Some (rs_translate v (top (w_rect (t_info w))) (left (w_rect (t_info w)))))
              (kids_before (w_id (t_info w)) (t_kids p))) as [v2|] eqn:E2; [|congruence].
  rewrite (rs_sub_vis_mono f f' Hle _ _ _ E2).
  destruct (d_scroll_noclip cfg).
  - apply IH. exact H.
  - destruct (rs_clip f v2 (selfrect (t_info p))) as [v3|] eqn:E3; [|congruence].
    rewrite (rs_clip_mono _ _ _ _ _ Hle E3). apply IH. exact H.
Qed.

(* ------------------------------------------------------------------------------------ *)
(* STEP 2: the state with more fuel                                                      *)

Definition with_fuel (f : nat) (st : root) : root :=
  mkRoot (r_tree st) (r_orphans st) (r_damage st) (r_queue st) (r_nexp st) (r_nrest st) (r_later st)
         (r_fault st) (r_dragging st) (r_lbtn st) (r_lline st) (r_lcol st) (r_dsrc st) f.

Lemma with_fuel_id st : with_fuel (r_fuel st) st = st.
Proof. destruct st; reflexivity. Qed.

Lemma with_fuel_twice f f' st : with_fuel f' (with_fuel f st) = with_fuel f' st.
Proof. reflexivity. Qed.

Lemma root_damage_fuel st d : r_fuel (root_damage st d) = r_fuel st.
Proof.
  unfold root_damage. destruct (rs_contains (r_fuel st) (r_damage st) d) as [[|]|]; try reflexivity.
  destruct (rs_add (r_fuel st) (r_damage st) d); reflexivity.
Qed.

Lemma win_expose_fuel st y ex : r_fuel (win_expose st y ex) = r_fuel st.
Proof.
  unfold win_expose. destruct (t_chain y (r_tree st)) as [chain|]; [|reflexivity].
  destruct (expose_up chain ex); [apply root_damage_fuel|reflexivity].
Qed.

Lemma root_damage_wf st d f' :
  r_fault (root_damage st d) = false -> (r_fuel st <= f')%nat ->
  root_damage (with_fuel f' st) d = with_fuel f' (root_damage st d).
Proof.
  intros Hf Hle. unfold root_damage in *. cbn [r_fuel r_damage with_fuel].
  destruct (rs_contains (r_fuel st) (r_damage st) d) as [[|]|] eqn:Ec.
  - rewrite (rs_contains_mono _ _ _ _ _ Ec Hle). reflexivity.
  - rewrite (rs_contains_mono _ _ _ _ _ Ec Hle).
    destruct (rs_add (r_fuel st) (r_damage st) d) as [s|] eqn:Ea.
    + rewrite (rs_add_mono _ _ _ _ _ Ea Hle). reflexivity.
    + cbn [r_fault set_fault] in Hf. discriminate.
  - cbn [r_fault set_fault] in Hf. discriminate.
Qed.

Lemma win_expose_wf st y ex f' :
  r_fault (win_expose st y ex) = false -> (r_fuel st <= f')%nat ->
  win_expose (with_fuel f' st) y ex = with_fuel f' (win_expose st y ex).
Proof.
  intros Hf Hle. unfold win_expose in *. cbn [r_tree with_fuel].
  destruct (t_chain y (r_tree st)) as [chain|]; [|reflexivity].
  destruct (expose_up chain ex) as [d|]; [|reflexivity].
  apply root_damage_wf; assumption.
Qed.

(* the same for a state that is [with_fuel f' s] up to conversion *)
Ltac expose_wf s Hf Hle := exact (win_expose_wf s _ _ _ Hf Hle).

Lemma do_hchange_wf st k p w f' :
  r_fault (do_hchange st k p w) = false -> (r_fuel st <= f')%nat ->
  do_hchange (with_fuel f' st) k p w = with_fuel f' (do_hchange st k p w).
Proof.
  intros Hf Hle. unfold do_hchange in *. cbn [r_tree with_fuel].
  destruct (t_find w (r_tree st)) as [wn|]; [|reflexivity].
  destruct (w_vis (t_info wn)); [|reflexivity].
  expose_wf (set_tree st (t_upd_kids (apply_hchange k w) p (r_tree st))) Hf Hle.
Qed.

Lemma do_hchange_fuel st k p w : r_fuel (do_hchange st k p w) = r_fuel st.
Proof.
  unfold do_hchange. destruct (t_find w (r_tree st)) as [wn|]; [|reflexivity].
  destruct (w_vis (t_info wn)); [|reflexivity]. rewrite win_expose_fuel. reflexivity.
Qed.

Lemma qfold_wf f' : forall q s,
  r_fault (fold_left qstep q s) = false -> (r_fuel s <= f')%nat ->
  fold_left qstep q (with_fuel f' s) = with_fuel f' (fold_left qstep q s).
Proof.
  induction q as [|e q IH]; intros s Hf Hle; [reflexivity|]. cbn [fold_left] in *.
  pose proof (fold_fault _ _ Hf) as Hf1. destruct e as [[k p] w]. unfold qstep at 2.
  rewrite (do_hchange_wf _ _ _ _ _ Hf1 Hle). apply IH; [exact Hf|].
  unfold qstep. rewrite do_hchange_fuel. exact Hle.
Qed.

Lemma after_queue_wf st f' :
  r_fault (after_queue st) = false -> (r_fuel st <= f')%nat ->
  after_queue (with_fuel f' st) = with_fuel f' (after_queue st).
Proof.
  intros Hf Hle. rewrite !after_queue_eq in *. cbn [r_queue r_nexp r_nrest with_fuel].
  exact (qfold_wf f' (r_queue st) (set_queue (set_flags st (r_nexp st) (r_nrest st) false) []) Hf Hle).
Qed.

Lemma win_flush_fault_aq cfg hnd st tm :
  r_later st = true ->
  r_fault (fst (fst (win_flush cfg hnd st tm))) = r_fault (after_queue st).
Proof.
  intros Hl. rewrite (win_flush_unfold cfg hnd st tm Hl). cbv zeta.
  destruct (r_nexp (after_queue st)); [reflexivity|].
  destruct (r_nrest (after_queue st)); reflexivity.
Qed.

Lemma win_flush_wf cfg hnd st tm f' :
  r_fault (fst (fst (win_flush cfg hnd st tm))) = false -> (r_fuel st <= f')%nat ->
  win_flush cfg hnd (with_fuel f' st) tm =
  (with_fuel f' (fst (fst (win_flush cfg hnd st tm))), snd (fst (win_flush cfg hnd st tm)),
   snd (win_flush cfg hnd st tm)).
Proof.
  intros Hf Hle. destruct (r_later st) eqn:Hl.
  2:{ unfold win_flush. cbn [r_later with_fuel]. rewrite Hl. reflexivity. }
  rewrite (win_flush_fault_aq cfg hnd st tm Hl) in Hf.
  assert (Hl' : r_later (with_fuel f' st) = true) by exact Hl.
  rewrite (win_flush_unfold cfg hnd (with_fuel f' st) tm Hl').
  rewrite (win_flush_unfold cfg hnd st tm Hl). cbv zeta.
  rewrite (after_queue_wf st f' Hf Hle). cbn [r_nexp r_nrest r_tree r_later with_fuel].
  unfold flush_buffer, flush_rects, root_selfrect. cbn [r_tree r_damage with_fuel].
  destruct (r_nexp (after_queue st)); [reflexivity|].
  destruct (r_nrest (after_queue st)); reflexivity.
Qed.
