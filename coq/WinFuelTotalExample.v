(* WinFuelTotalExample.v -- non-vacuity of history_total_flushed_all: a concrete history with
   a window creation, a scroll of that window and a final flush meets [sides_along] (for every
   amount of fuel), hence the theorem applies to it. *)
From Coq Require Import ZArith List Bool Lia ZifyBool.
From Tickit Require Import RectDefs RectProofs WinRectSet WinRectSetProofs WinDefs WinSpec WinHist
  WinExposeProofs WinLogDisjoint WinFlushProofs WinScreenInv WinLocA WinLocTree WinPreserve WinTermResize
  WinHistory WinScrollRegion WinScrollInv WinHistoryFull WinFuelMono WinFuelTotal WinFuelScroll WinFuelTotalScroll.
Import ListNotations.
Local Open Scope Z_scope.

Definition ex_progs : Z -> list dop := fun _ => [DPaint].
Definition ex_orc : nat -> Z -> Z -> rect -> Z -> Z -> bool := fun _ _ _ _ _ _ => true.
Definition ex_new : op := ONew 1 0 (mkRect 1 1 2 3) false false false false.
Definition ex_scroll : op := OScroll 1 1 0.
Definition ex_ops : list op := [ex_new; ex_scroll].

(* the window tree does not depend on the fuel *)
Lemma ex_root_damage_tree st d : r_tree (root_damage st d) = r_tree st.
Proof.
  unfold root_damage. destruct (rs_contains (r_fuel st) (r_damage st) d) as [[|]|]; try reflexivity.
  destruct (rs_add (r_fuel st) (r_damage st) d); reflexivity.
Qed.

Lemma ex_expose_tree st id ex : r_tree (win_expose st id ex) = r_tree st.
Proof.
  unfold win_expose. destruct (t_chain id (r_tree st)) as [chain|]; [|reflexivity].
  destruct (expose_up chain ex); [apply ex_root_damage_tree|reflexivity].
Qed.

Lemma ex_new_tree st st' id pid r hidden lowest rootparent steal :
  r_tree st = r_tree st' ->
  r_tree (win_new st id pid r hidden lowest rootparent steal) =
  r_tree (win_new st' id pid r hidden lowest rootparent steal).
Proof.
  intros E. unfold win_new. rewrite E. destruct (t_chain pid (r_tree st')) as [chain|]; [|exact E].
  destruct rootparent; cbv beta iota zeta; destruct (negb hidden);
    rewrite ?ex_expose_tree; cbn [r_tree set_tree]; rewrite ?E; reflexivity.
Qed.

Lemma ex_init_tree fuel :
  r_tree (m_root (m_init_f fuel 4 6 ex_orc)) = r_tree (root_new_f 0 4 6).
Proof. unfold m_init_f. cbn [m_root]. rewrite ex_expose_tree. reflexivity. Qed.

Lemma vis_nonempty_node i ch :
  (w_vis i = true -> nonempty (w_rect i)) -> Forall vis_nonempty ch -> vis_nonempty (Node i ch).
Proof.
  intros H1 H2 n Hs. inversion Hs as [|i0 ch0 c Hin Hsc]; subst.
  - exact H1.
  - rewrite Forall_forall in H2. exact (H2 c Hin n Hsc).
Qed.

Theorem ex_sides : sides_along ex_progs (ex_ops ++ [OFlush]) 4 6 ex_orc.
Proof.
  intros fuel pre o post E _. unfold ex_ops in E. cbn [app] in E.
  destruct pre as [|o1 [|o2 [|o3 pre]]]; cbn [app] in E.
  - injection E as <- _. cbn [run fold_left]. unfold ex_new. cbn [step_side3 op_side3 op_side2 op_side].
    rewrite ex_init_tree. vm_compute. intros [H|[]]. discriminate H.
  - injection E as <- <- _. cbn [run fold_left]. unfold ex_scroll. cbn [step_side3 op_side3].
    unfold ex_new. cbn [step m_root m_set_root].
    rewrite (ex_new_tree _ (root_new_f 0 4 6)) by apply ex_init_tree.
    vm_compute.
    apply vis_nonempty_node; [intros _; unfold nonempty; cbn; lia|].
    constructor; [|constructor].
    apply vis_nonempty_node; [intros _; unfold nonempty; cbn; lia|constructor].
  - injection E as _ _ <- _. exact I.
  - injection E as _ _ _ E. destruct pre; discriminate E.
Qed.

(* the corollary: the history  new window 1; scroll window 1 down by 1; flush  on a 4x6
   terminal does not fault with enough fuel, and every cell then shows the composition *)
Corollary ex_flushed :
  exists fuel, forall f, (fuel <= f)%nat ->
    r_fault (m_root (run no_defects ex_progs (ex_ops ++ [OFlush]) (m_init_f f 4 6 ex_orc))) = false /\
    all_shown (run no_defects ex_progs (ex_ops ++ [OFlush]) (m_init_f f 4 6 ex_orc)).
Proof.
  apply history_total_flushed_all; [reflexivity|lia|lia|exact ex_sides].
Qed.

Print Assumptions ex_sides.
Print Assumptions ex_flushed.
