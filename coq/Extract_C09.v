From Coq Require Extraction.
From Coq Require Import ExtrOcamlBasic.
From Tickit Require Import Csi VT TermPenDefs XtermDefs XtermSpec TermApiDefs TermApiSpec.
Extraction "mC09.ml" render lex vt_init vt_run_bytes vt_freeze with_pattern xt_start xdrv_new
  drv_req api_step req_of_api quiet_api oracle_walk oracle_walk_excl empty_pen pset has_attr set_md md_set_lrmm.
