From Coq Require Extraction.
From Coq Require Import ExtrOcamlBasic.
From Tickit Require Import Csi VT TermPenDefs XtermDefs XtermSpec.
Extraction "mC09.ml" render lex vt_init vt_run_bytes vt_freeze with_pattern xt_start xdrv_new
  drv_req oracle_walk oracle_walk_excl empty_pen pset has_attr.
