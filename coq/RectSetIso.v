(* RectSetIso.v -- C05, part 3: adding a rectangle that is separated ([sep]) from every
   member.  Then tickit_rectset_add can only stretch vertically (absorb members stacked
   directly above/below with the same column range) and finally insert; it never returns
   early and never splits.  This is the situation of every remainder that
   tickit_rectset_subtract re-adds.  [iso_add] is a Hoare-style rule for that situation:
   an invariant P over (remaining set, current rectangle) that survives each vertical
   stretch and yields Q at the final insert holds of the result. *)
From Coq Require Import ZArith List Bool Lia ZifyBool.
From Tickit Require Import RectDefs RectProofs RectSetDefs RectSetSpec RectSetProofs.
Import ListNotations.
Local Open Scope Z_scope.

Definition scan_iso_post (cur : rect) (s : rectset) (i0 : nat) (res : scan_result) : Prop :=
  match res with
  | ScInsert => Forall (sepx cur) s
  | ScReturn => False
  | ScSplit _ _ => False
  | ScMerge i t' b' l' r' =>
      exists pre y post, s = pre ++ y :: post /\ i = (i0 + length pre)%nat /\
        left y = left cur /\ right y = right cur /\ l' = left cur /\ r' = right cur /\
        ((bottom y = top cur /\ t' = top y /\ b' = bottom cur) \/
         (top y = bottom cur /\ t' = top cur /\ b' = bottom y))
  end.

Lemma scan_iso_post_shift cur x rest i0 res :
  scan_iso_post cur rest (S i0) res -> sepx cur x -> scan_iso_post cur (x :: rest) i0 res.
Proof.
  destruct res as [| |i t' b' l' r'|i y]; cbn [scan_iso_post]; try tauto.
  - intros H Hx. constructor; auto.
  - intros [pre [y [post [E [Ei H]]]]] _. exists (x :: pre), y, post.
    cbn [app length]. rewrite E. split; [reflexivity|]. split; [lia|exact H].
Qed.

Lemma rs_scan_iso cur t b l r :
  top cur = t -> left cur = l -> bottom cur = b -> right cur = r -> t < b -> l < r ->
  forall s i0, Forall nonempty s -> sorted s -> Forall (sep cur) s ->
  scan_iso_post cur s i0 (rs_scan cur t b l r s i0).
Proof.
  intros Ect Ecl Ecb Ecr Ht Hl. unfold sorted.
  induction s as [|x rest IH]; intros i0 Hne Hso Hiso; cbn [rs_scan].
  - constructor.
  - apply Forall_cons_iff in Hne. destruct Hne as [Hx Hrest]. destruct Hso as [Hxle Hso].
    apply Forall_cons_iff in Hiso. destruct Hiso as [Hsx Hiso].
    assert (Hx' := Hx). unfold nonempty in Hx'.
    destruct (b <? top x) eqn:Ebreak.
    { cbn [scan_iso_post]. constructor.
      - unfold sepx, sep, novm, bottom, right in *. lia.
      - rewrite Forall_forall in Hxle, Hrest. apply Forall_forall. intros y Hy.
        pose proof (Hxle y Hy) as Hk. pose proof (Hrest y Hy) as Hyn.
        unfold key_le, nonempty in *. unfold sepx, sep, novm, bottom, right in *. lia. }
    destruct ((t >? bottom x) || (l >? right x) || (r <? left x)) eqn:Eskip.
    { apply scan_iso_post_shift; [apply IH; assumption|].
      unfold sepx, sep, novm, bottom, right in *. lia. }
    destruct (r_contains x cur) eqn:Econt.
    { cbn [scan_iso_post]. unfold r_contains, sep, bottom, right in *. lia. }
    destruct (((t =? top x) && (b =? bottom x)) || ((l =? left x) && (r =? right x))) eqn:Emerge.
    { cbn [scan_iso_post]. exists [], x, rest. cbn [app length].
      split; [reflexivity|]. split; [lia|].
      unfold sep, bottom, right in *.
      destruct (top x <? t) eqn:E1; destruct (top x + lines x >? b) eqn:E2;
        destruct (left x <? l) eqn:E3; destruct (left x + cols x >? r) eqn:E4; lia. }
    destruct ((t =? bottom x) || (b =? top x)) eqn:Etouch.
    { apply scan_iso_post_shift; [apply IH; assumption|].
      unfold sepx, sep, novm, bottom, right in *. lia. }
    cbn [scan_iso_post]. unfold sep, bottom, right in *. lia.
Qed.

Lemma init_bounded_eta c : init_bounded (top c) (left c) (bottom c) (right c) = c.
Proof.
  destruct c as [t l h w]. unfold init_bounded, bottom, right; cbn [top left lines cols].
  f_equal; lia.
Qed.

(* the rectangle obtained by stacking y and cur (same columns) *)
Definition vstack (y cur : rect) : rect :=
  init_bounded (Z.min (top y) (top cur)) (left cur) (Z.max (bottom y) (bottom cur)) (right cur).

Section IsoAdd.
  Variable P : rectset -> rect -> Prop.
  Variable Q : rectset -> Prop.
  Hypothesis P_basic : forall s cur, P s cur -> Inv s /\ nonempty cur /\ Forall (sep cur) s.
  Hypothesis P_merge : forall pre y post cur, P (pre ++ y :: post) cur ->
    left y = left cur -> right y = right cur ->
    (bottom y = top cur \/ top y = bottom cur) ->
    P (pre ++ post) (vstack y cur).
  Hypothesis P_insert : forall s cur, P s cur -> Forall (sepx cur) s -> Q (rs_insert s cur).

  Lemma iso_add : forall fuel s rect cur s',
    P s cur ->
    rs_add_at fuel false s rect (top cur) (bottom cur) (left cur) (right cur) = Some s' ->
    Q s'.
  Proof.
    induction fuel as [|f IH]; intros s rect cur s' HP; cbn [rs_add_at]; [discriminate|].
    destruct (P_basic _ _ HP) as [Hinv [Hcur Hiso]].
    rewrite (init_bounded_eta cur).
    assert (Hcur' := Hcur). unfold nonempty in Hcur'.
    destruct Hinv as [Hne [Hsep Hso]].
    pose proof (rs_scan_iso cur (top cur) (bottom cur) (left cur) (right cur)
                  eq_refl eq_refl eq_refl eq_refl ltac:(unfold bottom; lia) ltac:(unfold right; lia)
                  s 0%nat Hne Hso Hiso) as Hscan.
    destruct (rs_scan cur (top cur) (bottom cur) (left cur) (right cur) s 0)
      as [| |i t' b' l' r'|i x] eqn:Escan; cbn [scan_iso_post] in Hscan; try contradiction.
    - intros [= <-]. apply P_insert; assumption.
    - destruct Hscan as [pre [y [post [E [Ei [Hl [Hr [El' [Er' Hv]]]]]]]]].
      cbn [Nat.add] in Ei. subst i. rewrite E, rs_delete_mid. intros Hrec.
      rewrite E in HP.
      assert (Hy : nonempty y).
      { rewrite Forall_forall in Hne. apply Hne. rewrite E. apply in_or_app. right. left. reflexivity. }
      unfold nonempty in Hy.
      pose proof (P_merge pre y post cur HP Hl Hr) as HP'.
      assert (Hedges : top (vstack y cur) = t' /\ bottom (vstack y cur) = b' /\
                       left (vstack y cur) = l' /\ right (vstack y cur) = r').
      { unfold vstack, init_bounded, bottom, right in *; cbn [top left lines cols]. lia. }
      destruct Hedges as [E1 [E2 [E3 E4]]].
      apply (IH (pre ++ post) rect (vstack y cur) s').
      + apply HP'. lia.
      + rewrite E1, E2, E3, E4. exact Hrec.
  Qed.
End IsoAdd.
