(* Property C02: a window's drawing is confined to the cells it owns, in its own coordinates.
   This file contains nothing but the property theorems, each closed by [exact <lemma>] and
   followed by Print Assumptions.

   Vocabulary (WinDefs.v / WinSpec.v / WinExposeProofs.v / WinFlushProofs.v):
     hnd_ok hnd        the handler environment only DRAWS: each call keeps the render buffer's
                       clip / translation / mask stack and changes cells only through drawing
                       primitives (every primitive goes through the clip and skips masked cells);
                       C02_programs: every drawing program (text, erase, characters, lines,
                       erase-rectangle, skip, clear, at any coordinates) is such a handler.
     flush_buffer      the render buffer a flush hands to the terminal; a cell holds
                       Some (content, window that drew it, relative position the window used).
     owner_rel t q     the window that owns screen cell q in the painter's-model composition
                       of tree t, and q's position relative to that window.
     entry_ok t (id,r) r is non-empty, id names a window of t, and r lies within that window. *)
From Coq Require Import ZArith List Bool.
From Tickit Require Import RectDefs WinRectSet WinDefs WinSpec WinHist WinExposeProofs WinFlushProofs WinLogDisjoint WinRectSetProofs WinC02Extra WinC02Exact WinC02Disjoint.
From Tickit Require RBDefs RBSpec RBAbsLemmas RBFlushDefs RBTermSim.
From Tickit Require Import WinRBView WinRBExpose WinEndToEnd WinEndToEndFinal.
From Tickit Require Import WinBrackets.
Import ListNotations.
Local Open Scope Z_scope.

(* Whatever the handlers draw: a terminal cell that a flush changes lies inside a rectangle
   of the damage (the rectangles handed to the root window), inside the screen, and what it
   now shows was drawn by the window [w] that owns the cell in the composition of the tree,
   at the cell's position [pw] relative to w's own top-left corner. *)
Theorem C02_confined : forall cfg hnd st tm st' tm' lg,
  hnd_ok hnd ->
  win_flush cfg hnd st tm = (st', tm', lg) ->
  forall q, t_grid tm' q <> t_grid tm q ->
    exists R c w pw,
      In (t_id (r_tree st'), R) lg /\ cell_in R q /\
      cell_inb (root_selfrect st') q = true /\
      rb_cells (flush_buffer cfg hnd (after_queue st)) q = Some (c, w, pw) /\
      t_grid tm' q = c /\
      owner_rel (r_tree st') q = (w, pw).
Proof. exact flush_confined. Qed.
Print Assumptions C02_confined.

(* every drawing program is a handler in the sense of C02_confined *)
Theorem C02_programs : forall app progs, hnd_ok (prog_handler app progs).
Proof. exact prog_handler_ok. Qed.
Print Assumptions C02_programs.

(* the rectangle handed to a handler always lies within the window's bounds (repaired code;
   see C02_refuted_27 for the pinned one) *)
Theorem C02_rect_in_bounds : forall cfg hnd st tm st' tm' lg,
  d_flush_noclip cfg = false ->
  win_flush cfg hnd st tm = (st', tm', lg) ->
  Forall (entry_ok (r_tree st')) lg.
Proof. exact flush_rects_in_bounds. Qed.
Print Assumptions C02_rect_in_bounds.

(* the pinned code (damage not clipped to the root at flush) hands the root a rectangle
   beyond its bounds after a terminal shrink: defect #27, repaired *)
Theorem C02_refuted_27 : exists cfg hnd st tm,
  d_flush_noclip cfg = true /\
  let '(st', _, lg) := win_flush cfg hnd st tm in
  exists r, In (0, r) lg /\ r_contains (root_selfrect st') r = false.
Proof. exact refuted_27. Qed.
Print Assumptions C02_refuted_27.

(* The rectangles handed to one window during one flush never overlap.  [Inv] is the
   rectangle-set invariant of property C05 (members non-empty, pairwise separated, sorted);
   the window layer's damage set IS the C05 model (WinRectSet.v wraps RectSetDefs.v) and every
   operation keeps the invariant (C01_damage_inv in Properties_C01.v). *)
Theorem C02_rects_disjoint : forall cfg hnd st tm st' tm' lg,
  ids_unique (r_tree st') -> Inv (r_damage st) ->
  win_flush cfg hnd st tm = (st', tm', lg) ->
  forall i j id r1 r2, i <> j ->
    nth_error lg i = Some (id, r1) -> nth_error lg j = Some (id, r2) -> disjoint2 r1 r2.
Proof. exact (@WinC02Disjoint.flush_log_rects_disjoint). Qed.
Print Assumptions C02_rects_disjoint.

(* the damage rectangles a flush works through are pairwise disjoint (discharges the
   hypothesis of C02_exact / C02_lines) *)
Theorem C02_damage_disjoint : forall cfg st,
  Inv (r_damage st) -> pairwise_disjoint (flush_rects cfg (after_queue st)).
Proof. exact (@WinC02Disjoint.flush_damage_disjoint). Qed.
Print Assumptions C02_damage_disjoint.

(* the purely structural form: for any pairwise disjoint list of rectangles *)
Theorem C02_rects_disjoint_lists : forall tree rects,
  ids_unique tree -> pairwise_disjoint rects ->
  forall i j id r1 r2, i <> j ->
    nth_error (flush_log tree rects) i = Some (id, r1) ->
    nth_error (flush_log tree rects) j = Some (id, r2) ->
    disjoint2 r1 r2.
Proof. exact flush_log_disjoint. Qed.
Print Assumptions C02_rects_disjoint_lists.

(* EXACT FORM.  What a flush does to the screen, for arbitrary drawing programs (text, erase,
   characters, LINES, erase-rectangle, skip, clear) and pairwise disjoint damage rectangles
   (the rectangle-set invariant of C05): a cell inside (damage /\ screen) ends up with what its
   OWNER's own program, run on an empty cell at the cell's position relative to the owner
   (prog_cell_in), leaves there -- nothing if the program does not touch it or skips it
   last; every other cell keeps its content.  In particular line segments accumulate within
   the owner's program only (C02_lines: the line bits of a cell are those of the owner's own
   line ops after its last non-line op there): a masked cell's line mask is never changed by
   another window. *)
Theorem C02_exact : forall app progs, forall cfg st tm st' tm' lg,
    win_flush cfg (prog_handler app progs) st tm = (st', tm', lg) ->
    pairwise_disjoint (flush_rects cfg (after_queue st)) ->
    forall q,
      t_grid tm' q =
      if r_later st && r_nexp (after_queue st) &&
         cell_inb (root_selfrect st') q && in_any (flush_rects cfg (after_queue st)) q
      then match content (let '(w, pw) := owner_rel (r_tree st') q in
                          prog_cell_in app (progs w) w (lines (root_selfrect st')) (cols (root_selfrect st')) pw None) with
           | Some c => c
           | None => t_grid tm q
           end
      else t_grid tm q.
Proof. exact (@WinC02Exact.win_flush_exact). Qed.
Print Assumptions C02_exact.

Theorem C02_lines : forall app progs, app_no_lines app -> forall cfg st tm st' tm' lg,
    win_flush cfg (prog_handler app progs) st tm = (st', tm', lg) ->
    pairwise_disjoint (flush_rects cfg (after_queue st)) ->
    forall q,
      r_later st && r_nexp (after_queue st) &&
      cell_inb (root_selfrect st') q && in_any (flush_rects cfg (after_queue st)) q = true ->
      let '(w, pw) := owner_rel (r_tree st') q in
      let L := lines (root_selfrect st') in
      let C := cols (root_selfrect st') in
      match cell_after app (progs w) w (unit_rect pw) L C pw with
      | Some c =>
        t_grid tm' q = c /\
        (is_line c = true ->
         c = LINEBASE + tail_bits app (progs w) w (unit_rect pw) L C pw 0 /\
         Z.land (c - LINEBASE) (Z.lnot (own_bits app (progs w) w (unit_rect pw) L C pw)) = 0)
      | None => t_grid tm' q = t_grid tm q
      end.
Proof. exact (@WinC02Exact.win_flush_lines). Qed.
Print Assumptions C02_lines.


(* ---- END TO END: window layer + concrete render buffer + its flush + terminal ----
   (vocabulary and remaining hypotheses: see the section of the same name in Properties_C01.v.
   [cwin_flush] = tickit_window_flush with the render-buffer calls run on the span grid of
   RBDefs.v, flushed by RBFlushDefs.flush onto C04's terminal; [TR tm t0]: the terminal's texts
   are the encoding [enc] of an abstract screen tm; [app_ok]: the application paints
   characters of one column.)  ARBITRARY drawing programs -- text, erase, characters, LINES,
   erase-rectangle, skip, clear at any coordinates --, every defect configuration. *)

(* EXACT FORM: what every terminal cell holds after the concrete flush *)
Theorem C02_end_to_end : forall app progs cfg st tm (t0 : RBFlushDefs.term) st' t1 lg,
  app_ok app -> TR tm t0 ->
  0 <= lines (root_selfrect (after_queue st)) <= t_lines tm ->
  0 <= cols (root_selfrect (after_queue st)) <= t_cols tm ->
  cwin_flush cfg (c_hp app progs) st t0 = RBDefs.Ok (st', t1, lg) ->
  pairwise_disjoint (flush_rects cfg (after_queue st)) ->
  forall y x, 0 <= y < RBFlushDefs.t_lines t1 -> 0 <= x < RBFlushDefs.t_cols t1 ->
    RBFlushDefs.t_text (RBTermSim.tcellat t1 y x) =
      if r_later st && r_nexp (after_queue st) &&
         cell_inb (root_selfrect st') (y, x) && in_any (flush_rects cfg (after_queue st)) (y, x)
      then match content (let '(w, pw) := owner_rel (r_tree st') (y, x) in
                          prog_cell_in app (progs w) w (lines (root_selfrect st')) (cols (root_selfrect st')) pw None) with
           | Some c => enc c
           | None => RBFlushDefs.t_text (RBTermSim.tcellat t0 y x)
           end
      else RBFlushDefs.t_text (RBTermSim.tcellat t0 y x).
Proof. exact end_to_end_c02_f. Qed.
Print Assumptions C02_end_to_end.

(* CONFINEMENT: a terminal cell whose text the concrete flush changed lies inside the screen
   and inside a rectangle handed to the root; what it shows was drawn by the window that owns
   the cell in the composition, at the cell's position relative to that window; and the
   concrete buffer run did not fault and held that content in that cell *)
Theorem C02_end_to_end_confined : forall app progs cfg st tm (t0 : RBFlushDefs.term) st' t1 lg,
  app_ok app -> TR tm t0 ->
  0 <= lines (root_selfrect (after_queue st)) <= t_lines tm ->
  0 <= cols (root_selfrect (after_queue st)) <= t_cols tm ->
  cwin_flush cfg (c_hp app progs) st t0 = RBDefs.Ok (st', t1, lg) ->
  forall y x, 0 <= y < RBFlushDefs.t_lines t1 -> 0 <= x < RBFlushDefs.t_cols t1 ->
    RBFlushDefs.t_text (RBTermSim.tcellat t1 y x) <> RBFlushDefs.t_text (RBTermSim.tcellat t0 y x) ->
    exists R c w pw,
      In (t_id (r_tree st'), R) lg /\ cell_in R (y, x) /\
      cell_inb (root_selfrect st') (y, x) = true /\
      rb_cells (flush_buffer cfg (prog_handler app progs) (after_queue st)) (y, x) = Some (c, w, pw) /\
      RBFlushDefs.t_text (RBTermSim.tcellat t1 y x) = enc c /\
      owner_rel (r_tree st') (y, x) = (w, pw) /\
      exists s v,
        RBDefs.run (RBDefs.rb_new (lines (root_selfrect (after_queue st))) (cols (root_selfrect (after_queue st))))
            (flush_ops (c_hp app progs) (r_tree (after_queue st)) (flush_rects cfg (after_queue st))) = RBDefs.Ok (s, v) /\
        crep (RBSpec.ac (RBAbsLemmas.gcell (RBSpec.ag (RBSpec.abs_rb s)) y x)) (Some c).
Proof. exact end_to_end_c02_confined_f. Qed.
Print Assumptions C02_end_to_end_confined.

(* every operation the window layer performs on its abstract buffer is the step of the
   render-buffer SPECIFICATION (RBSpec.astep) on a state in the simulation relation [Rrb]:
   whole expose traversals and the render loop *)
Theorem C02_buffer_is_spec : forall hnd hp, hsim hnd hp -> forall tree rects b A, Rrb b A ->
  Rrb (flush_rb hnd tree rects b) (fst (RBSpec.arun A (flush_ops hp tree rects))).
Proof. exact Rrb_flush_rb_f. Qed.
Print Assumptions C02_buffer_is_spec.

Theorem C02_programs_are_spec : forall app progs, app_ok app -> hsim (prog_handler app progs) (c_hp app progs).
Proof. exact hsim_prog_f. Qed.
Print Assumptions C02_programs_are_spec.

(* handlers that bracket their drawing in tickit_renderbuffer_savepen / save ... restore (harness:
   BR id k): balanced brackets around drawing-only programs -- around the whole program, around
   every call, nested in any way -- change nothing (the model therefore ignores them).  [rb_eq]:
   all fields equal, cells and masks pointwise; [masks_le_depth b] (part of [pre]): no mask of b is
   deeper than b's depth; [run_bops]: a program with arbitrarily nested brackets *)
Theorem C02_brackets_neutral : forall app prog id handed b,
  masks_le_depth b ->
  rb_eq (rb_restore (run_prog app prog id handed (rb_save b))) (run_prog app prog id handed b).
Proof. exact brackets_neutral. Qed.
Print Assumptions C02_brackets_neutral.

Theorem C02_brackets_nested_neutral : forall app id handed l b,
  masks_le_depth b ->
  rb_eq (run_bops app id handed l b) (run_prog app (flat_map bop_draws l) id handed b).
Proof. exact brackets_nested_neutral. Qed.
Print Assumptions C02_brackets_nested_neutral.

Example C02_nonvacuous :
  exists st tm, let '(_, tm', lg) := win_flush no_defects (prog_handler app_base (fun _ => [DText (-1) (-2) 9; DPaint])) st tm in
  length lg = 2%nat /\ t_grid tm' (1, 1) <> t_grid tm (1, 1).
Proof. exact nonvacuous_c02. Qed.
