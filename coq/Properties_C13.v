(* placeholder until the proofs are in *)
From Tickit Require Import RBDefs RBSpec RBCopyDefs RBCopySpec.
Example C13_nonvacuous : True.
Proof. exact I. Qed.
