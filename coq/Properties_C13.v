(* Property C13: copyrect / moverect / blit preserve content cell for cell and do not disturb
   the saved-state stack, cursor, clip or translation.

   Vocabulary: copyrect_op / moverect_op / blit = the model of the (repaired) C in RBCopyDefs.v;
   a_copyrect / a_moverect / a_blit = the cell-wise specification in RBCopySpec.v; Inv as for
   C03; rect_in s r = rectangle r lies inside buffer s (and has cols >= 0);
   keeps s s' = Inv s' /\ aux s' = aux s /\ same size   (aux = cursor, translation, clip, pen,
   depth and the whole saved-state stack).
   This file contains nothing but the property theorems, each closed by [exact <lemma>]. *)
From Coq Require Import ZArith List Bool.
From Tickit Require Import RectDefs RBDefs RBSpec RBLemmas RBAbsLemmas RBInv RBProofs RBRestore RBCopyDefs RBCopySpec RBCopyProofs
                           RBCopyRefine RBCopyLoop RBMoveProofs.
Import ListNotations.
Local Open Scope Z_scope.

(* copyrect, any source rectangle inside the buffer, any destination, any overlap: it never
   faults or runs out of fuel, keeps every row well formed, and leaves the auxiliary state --
   in particular the caller's saved-state stack -- exactly as it was. *)
Theorem C13_copy_aux_unchanged : forall s dr sr,
  Inv s -> rect_in s sr -> exists s', copyrect_op s dr sr = Ok s' /\ keeps s s'.
Proof. exact copyrect_op_ok. Qed.
Print Assumptions C13_copy_aux_unchanged.

Theorem C13_blit_aux_unchanged : forall dst src,
  Inv dst -> Inv src -> exists dst', blit dst src = Ok dst' /\ keeps dst dst'.
Proof. exact blit_ok. Qed.
Print Assumptions C13_blit_aux_unchanged.

(* moverect with a possibly empty rectangle: the same, for every call that returns (for non-empty
   rectangles C13_move_full below shows that it does return). *)
Theorem C13_move_aux_unchanged : forall s dr sr s',
  Inv s -> rect_in s sr -> moverect_op s dr sr = Ok s' -> keeps s s'.
Proof. exact moverect_op_keeps. Qed.
Print Assumptions C13_move_aux_unchanged.

(* One step of the column loop, for any position inside the rectangle: it succeeds, is
   balanced, and moves on (termination of the loop, in both directions). *)
Theorem C13_copy_span : forall (samerb : bool) (src dst : rb) line col sr lineoffs coloffs (leftwards copy_skip : bool),
  Inv dst -> Inv src ->
  let srcb := if samerb then dst else src in
  0 <= line < rb_lines srcb -> 0 <= left sr -> left sr <= col < right sr -> right sr <= rb_cols srcb ->
  exists dst' col', copy_span samerb src dst line col sr lineoffs coloffs leftwards copy_skip = Ok (dst', col') /\
    keeps dst dst' /\
    (if leftwards then left sr - 1 <= col' < col else col < col').
Proof. exact copy_span_ok. Qed.
Print Assumptions C13_copy_span.

(* Copying a rectangle within a buffer, no translation in force: EVERY destination cell that
   clip and mask allow takes the content the source cell at the same offset had before the
   call (a_copyrect is that cell-wise definition, evaluated on the OLD grid) -- whether or not
   the rectangles overlap, in any direction, wherever the edges fall relative to runs -- with
   the pen completed from the current pen and line segments merging; all other cells unchanged.
   Hypotheses on the state: the span invariant; masks <= depth (ainv); Char cells hold
   width-one code points (achar_ok).  C13_copy_reachable discharges them for every content a
   drawing program can produce. *)
Theorem C13_copy_full : forall s dr sr,
  Inv s -> ainv (abs_rb s) -> achar_ok (abs_rb s) -> xl (aux s) = 0 -> xc (aux s) = 0 -> rect_in s sr ->
  exists s', copyrect_op s dr sr = Ok s' /\ Inv s' /\ abs_rb s' = a_copyrect (abs_rb s) dr sr.
Proof. exact copyrect_refines. Qed.
Print Assumptions C13_copy_full.

Theorem C13_copy_reachable : forall L C pre s v dr sr,
  0 <= L -> 0 <= C -> run (rb_new L C) pre = Ok (s, v) ->
  xl (aux s) = 0 -> xc (aux s) = 0 -> rect_in s sr ->
  exists s', copyrect_op s dr sr = Ok s' /\ Inv s' /\ aux s' = aux s /\ abs_rb s' = a_copyrect (abs_rb s) dr sr.
Proof. exact copyrect_reachable. Qed.
Print Assumptions C13_copy_reachable.

(* Blitting one buffer onto another overlays exactly the source's non-skipped cells. *)
Theorem C13_blit_full : forall dst src,
  Inv dst -> Inv src -> ainv (abs_rb dst) -> achar_ok (abs_rb src) -> xl (aux dst) = 0 -> xc (aux dst) = 0 ->
  exists dst', blit dst src = Ok dst' /\ Inv dst' /\ abs_rb dst' = a_blit (abs_rb dst) (abs_rb src).
Proof. exact blit_refines. Qed.
Print Assumptions C13_blit_full.

Theorem C13_blit_reachable : forall L C pre dst v L' C' pre' src v',
  0 <= L -> 0 <= C -> run (rb_new L C) pre = Ok (dst, v) ->
  0 <= L' -> 0 <= C' -> run (rb_new L' C') pre' = Ok (src, v') ->
  xl (aux dst) = 0 -> xc (aux dst) = 0 ->
  exists dst', blit dst src = Ok dst' /\ Inv dst' /\ aux dst' = aux dst /\ abs_rb dst' = a_blit (abs_rb dst) (abs_rb src).
Proof. exact blit_reachable. Qed.
Print Assumptions C13_blit_reachable.

(* Moving: the copy, and additionally the vacated cells -- source minus destination -- are left
   skipped (a_moverect); nothing else changes; no fault, in particular the rectangle-set
   computation (the model of the part of rectset.c used here) returns.  For non-empty
   rectangles. *)
Theorem C13_move_full : forall s dr sr,
  Inv s -> ainv (abs_rb s) -> achar_ok (abs_rb s) -> xl (aux s) = 0 -> xc (aux s) = 0 -> rect_in s sr ->
  0 < lines sr -> 0 < cols sr ->
  exists s', moverect_op s dr sr = Ok s' /\ Inv s' /\ aux s' = aux s /\ abs_rb s' = a_moverect (abs_rb s) dr sr.
Proof. exact moverect_refines. Qed.
Print Assumptions C13_move_full.

Theorem C13_move_reachable : forall L C pre s v dr sr,
  0 <= L -> 0 <= C -> run (rb_new L C) pre = Ok (s, v) ->
  xl (aux s) = 0 -> xc (aux s) = 0 -> rect_in s sr -> 0 < lines sr -> 0 < cols sr ->
  exists s', moverect_op s dr sr = Ok s' /\ Inv s' /\ aux s' = aux s /\ abs_rb s' = a_moverect (abs_rb s) dr sr.
Proof. exact moverect_reachable. Qed.
Print Assumptions C13_move_reachable.

Example C13_nonvacuous :
  exists s v, run (rb_new 2 6) [OTextAt 0 0 [65; 66; 67; 68; 69; 70]; OCharAt 0 2 120; OSave] = Ok (s, v) /\
    Inv s /\ rect_in s (mkRect 0 1 1 4) /\ depth (aux s) = 1.
Proof. exact RBCopyProofs.nonvacuous. Qed.
