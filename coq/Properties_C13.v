(* Property C13: copyrect / moverect / blit preserve content cell for cell and do not disturb
   the saved-state stack, cursor, clip or translation.

   Vocabulary: copyrect_op / moverect_op / blit = the model of the (repaired) C in RBCopyDefs.v;
   a_copyrect / a_moverect / a_blit = the cell-wise specification in RBCopySpec.v; Inv as for
   C03; rect_in s r = rectangle r lies inside buffer s (and has cols >= 0);
   keeps s s' = Inv s' /\ aux s' = aux s /\ same size   (aux = cursor, translation, clip, pen,
   depth and the whole saved-state stack).
   This file contains nothing but the property theorems, each closed by [exact <lemma>]. *)
From Coq Require Import ZArith List Bool.
From Tickit Require Import RectDefs RBDefs RBSpec RBLemmas RBAbsLemmas RBInv RBProofs RBCopyDefs RBCopySpec RBCopyProofs.
Import ListNotations.
Local Open Scope Z_scope.

(* copyrect, any source rectangle inside the buffer, any destination, any overlap: it never
   faults or runs out of fuel, keeps every row well formed, and leaves the auxiliary state --
   in particular the caller's saved-state stack -- exactly as it was. *)
Theorem C13_copy_aux_unchanged : forall s dr sr,
  Inv s -> rect_in s sr -> exists s', copyrect_op s dr sr = Ok s' /\ keeps s s'.
Proof. exact copyrect_op_ok. Qed.
Print Assumptions C13_copy_aux_unchanged.

Theorem C13_blit_aux_unchanged : forall dst src,
  Inv dst -> Inv src -> exists dst', blit dst src = Ok dst' /\ keeps dst dst'.
Proof. exact blit_ok. Qed.
Print Assumptions C13_blit_aux_unchanged.

(* moverect: the same, for every call that returns.  (The vacated-area computation goes through
   the model of rectset.c, which is fuelled; that it returns is the subject of C05 and is
   covered here by the correspondence check only.) *)
Theorem C13_move_aux_unchanged_partial : forall s dr sr s',
  Inv s -> rect_in s sr -> moverect_op s dr sr = Ok s' -> keeps s s'.
Proof. exact moverect_op_keeps. Qed.
Print Assumptions C13_move_aux_unchanged_partial.

(* One step of the column loop, for any position inside the rectangle: it succeeds, is
   balanced, and moves on (termination of the loop, in both directions). *)
Theorem C13_copy_span : forall (samerb : bool) (src dst : rb) line col sr lineoffs coloffs (leftwards copy_skip : bool),
  Inv dst -> Inv src ->
  let srcb := if samerb then dst else src in
  0 <= line < rb_lines srcb -> 0 <= left sr -> left sr <= col < right sr -> right sr <= rb_cols srcb ->
  exists dst' col', copy_span samerb src dst line col sr lineoffs coloffs leftwards copy_skip = Ok (dst', col') /\
    keeps dst dst' /\
    (if leftwards then left sr - 1 <= col' < col else col < col').
Proof. exact copy_span_ok. Qed.
Print Assumptions C13_copy_span.

(* NOT PROVED (full statements; the correspondence check carries them as testing, exhaustively
   over every rectangle pair inside a 2x6 buffer for 9 prepared contents, plus random programs):

   C13_copy_full : forall s dr sr s',
     Inv s -> ainv (abs_rb s) -> rect_in s sr -> xl (aux s) = 0 -> xc (aux s) = 0 ->
     copyrect_op s dr sr = Ok s' -> abs_rb s' = a_copyrect (abs_rb s) dr sr.
   C13_move_full : ... moverect_op s dr sr = Ok s' -> abs_rb s' = a_moverect (abs_rb s) dr sr.
   C13_blit_full : forall dst src dst',
     Inv dst -> Inv src -> ainv (abs_rb dst) -> xl (aux dst) = 0 -> xc (aux dst) = 0 ->
     blit dst src = Ok dst' -> abs_rb dst' = a_blit (abs_rb dst) (abs_rb src).

   What is missing: the loop-level composition.  Each span step is an instance of the C03
   refinement lemmas (put_substr_ok, erase_ok, skip_ok, linecell_ok, put_char_ok inside a
   balanced pen bracket), so its effect on the abstraction is known; what is not yet proved is
   the bookkeeping that, at every iteration, the not-yet-visited source cells still hold their
   original content (for copies within one line of one buffer), and hence that the composition
   of the steps is the cell-wise copy. *)

Example C13_nonvacuous :
  exists s v, run (rb_new 2 6) [OTextAt 0 0 [65; 66; 67; 68; 69; 70]; OCharAt 0 2 120; OSave] = Ok (s, v) /\
    Inv s /\ rect_in s (mkRect 0 1 1 4) /\ depth (aux s) = 1.
Proof. exact RBCopyProofs.nonvacuous. Qed.
