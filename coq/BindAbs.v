(* BindAbs.v -- the specification-level machine of DESIGN's C16_refines: the same API over
   a TOMBSTONE-FREE list.  A binding is removed from the list at the moment it is unbound,
   consumed as a one-shot or destroyed; there is no iteration guard and no sweep.  The
   iteration cursor of an occurrence is not a node but a name ("everything up to and
   including [lo] has had its turn"), so it survives the removal of the node it stands on.
   Big-step and relational (no fuel); handlers are the same environment as in BindDefs.v.
   Definitions only. *)
From Coq Require Import ZArith List Bool.
From Tickit Require Import BindDefs.
Import ListNotations.
Local Open Scope Z_scope.

(* nodes are BindDefs.binding records (all live); the list, the next name, the trace *)
Record aworld := mkAW { al : list binding; an : Z; atr : list tev }.
Definition ainit : aworld := mkAW [] 1 [].
Definition alog (e : tev) (w : aworld) : aworld := mkAW (al w) (an w) (e :: atr w).
Definition aset (l : list binding) (w : aworld) : aworld := mkAW l (an w) (atr w).

Definition aremove (d : Z) (l : list binding) : list binding :=
  filter (fun b => negb (b_data b =? d)) l.

(* whose turn is next: the first binding behind the cursor *)
Definition anext (lo : option Z) (l : list binding) : option binding :=
  find (fun b => match lo with None => true | Some x => x <? b_data b end) l.

Inductive atask :=
| ACall (fn : option Z) (name flags : Z)
| AActs (acts : list action)
| AAct (a : action)
| ALoop (wf : bool) (ev : Z) (lo : option Z)
| ADestroyLoop.

Section Abs.
Variable env : env_t.

Inductive aeval : atask -> aworld -> aworld -> Z -> Prop :=
| ae_call : forall hid name flags w acts ret w1 r1,
    env (atr w) hid name flags = (acts, ret) ->
    aeval (AActs acts) w w1 r1 ->
    aeval (ACall (Some hid) name flags) w (alog (TCallE ret) w1) ret
| ae_nil : forall w, aeval (AActs []) w w 0
| ae_cons : forall a rest w w1 r1 w2 r2,
    aeval (AAct a) w w1 r1 -> aeval (AActs rest) w1 w2 r2 ->
    aeval (AActs (a :: rest)) w w2 r2
| ae_bind : forall ev flags hid w,
    let name := if has flags BIND_FIRST then - an w else an w in
    let id := max_id (al w) + 1 in
    let nb := mkB id ev (Z.land flags (BIND_UNBIND + BIND_DESTROY + BIND_ONESHOT)) (Some hid) name in
    aeval (AAct (ABind ev flags hid)) w
          (mkAW (if has flags BIND_FIRST then nb :: al w else al w ++ [nb]) (an w + 1)
                (TBind name ev flags hid id :: atr w)) id
| ae_unbind_none : forall id w,
    find (fun b => b_id b =? id) (al w) = None ->
    aeval (AAct (AUnbind id)) w (alog TUnbindE (alog (TUnbindB id) w)) 0
| ae_unbind_quiet : forall id w b,
    find (fun b => b_id b =? id) (al w) = Some b ->
    has (b_flags b) BIND_UNBIND = false ->
    aeval (AAct (AUnbind id)) w
          (alog TUnbindE (aset (aremove (b_data b) (al w)) (alog (TUnbindB id) w))) 0
| ae_unbind_notify : forall id w b w1 r1,
    find (fun b => b_id b =? id) (al w) = Some b ->
    has (b_flags b) BIND_UNBIND = true ->
    aeval (ACall (b_fn b) (b_data b) EV_UNBIND)
          (alog (TCallB (b_data b) EV_UNBIND) (aset (aremove (b_data b) (al w)) (alog (TUnbindB id) w)))
          w1 r1 ->
    aeval (AAct (AUnbind id)) w (alog TUnbindE w1) 0
| ae_emit : forall ev w w1 r1,
    aeval (ALoop false ev None) (alog (TEmitB false ev) w) w1 r1 ->
    aeval (AAct (AEmit ev)) w (alog (TEmitE 0) w1) 0
| ae_emitwf : forall ev w w1 r1,
    aeval (ALoop true ev None) (alog (TEmitB true ev) w) w1 r1 ->
    aeval (AAct (AEmitWF ev)) w (alog (TEmitE r1) w1) r1
| ae_destroy : forall w w1 r1,
    aeval ADestroyLoop (alog TDestroyB w) w1 r1 ->
    aeval (AAct ADestroy) w (alog TDestroyE w1) 0
| ae_loop_end : forall wf ev lo w,
    anext lo (al w) = None ->
    aeval (ALoop wf ev lo) w w 0
| ae_loop_skip : forall wf ev lo w b w1 r1,
    anext lo (al w) = Some b -> (b_ev b =? ev) = false ->
    aeval (ALoop wf ev (Some (b_data b))) w w1 r1 ->
    aeval (ALoop wf ev lo) w w1 r1
| ae_loop_claim : forall wf ev lo w b w1 r1,
    anext lo (al w) = Some b -> (b_ev b =? ev) = true ->
    let oneshot := has (b_flags b) BIND_ONESHOT in
    let flags := if oneshot then EV_FIRE + EV_UNBIND else EV_FIRE in
    aeval (ACall (b_fn b) (b_data b) flags)
          (alog (TCallB (b_data b) flags) (aset (if oneshot then aremove (b_data b) (al w) else al w) w))
          w1 r1 ->
    wf && negb (r1 =? 0) = true ->
    aeval (ALoop wf ev lo) w w1 r1
| ae_loop_fire : forall wf ev lo w b w1 r1 w2 r2,
    anext lo (al w) = Some b -> (b_ev b =? ev) = true ->
    let oneshot := has (b_flags b) BIND_ONESHOT in
    let flags := if oneshot then EV_FIRE + EV_UNBIND else EV_FIRE in
    aeval (ACall (b_fn b) (b_data b) flags)
          (alog (TCallB (b_data b) flags) (aset (if oneshot then aremove (b_data b) (al w) else al w) w))
          w1 r1 ->
    wf && negb (r1 =? 0) = false ->
    aeval (ALoop wf ev (Some (b_data b))) w1 w2 r2 ->
    aeval (ALoop wf ev lo) w w2 r2
| ae_dloop_end : forall w, al w = [] -> aeval ADestroyLoop w w 0
| ae_dloop_quiet : forall w w2 r2,
    al w <> [] ->
    let b := last (al w) (mkB 0 0 0 None 0) in
    (b_ev b =? 0) || has (b_flags b) (BIND_UNBIND + BIND_DESTROY) = false ->
    aeval ADestroyLoop (aset (removelast (al w)) w) w2 r2 ->
    aeval ADestroyLoop w w2 r2
| ae_dloop_notify : forall w w1 r1 w2 r2,
    al w <> [] ->
    let b := last (al w) (mkB 0 0 0 None 0) in
    (b_ev b =? 0) || has (b_flags b) (BIND_UNBIND + BIND_DESTROY) = true ->
    aeval (ACall (b_fn b) (b_data b) (EV_UNBIND + EV_DESTROY))
          (alog (TCallB (b_data b) (EV_UNBIND + EV_DESTROY)) (aset (removelast (al w)) w)) w1 r1 ->
    aeval ADestroyLoop w1 w2 r2 ->
    aeval ADestroyLoop w w2 r2.

End Abs.
