(* WinFocusHistA.v -- C15 over histories, part A: the cursor specification seen through the
   painter's model only.

   ftarget T      the info of the window at the end of the focus chain;
   ckey i         what the cursor specification reads of it: Some (id, line, col, shape) when
                  it is focused and its cursor enabled, None otherwise;
   cursor_spec_some / cursor_spec_from_owner: on a well-formed tree
        cursor_spec T = Some (L, C, s)  <->  ckey (ftarget T) = Some (id, cl, cc, s) and
                                             owner T (L, C) = Some (id, (cl, cc));
   cursor_spec_stable: if an operation keeps ckey (ftarget _) and changes [owner] only inside
        a set of rectangles D, then it keeps cursor_spec or D is not empty;
   owner_locality: the per-operation theorems of WinPreserve.v (stated for the screen invariant
        of C01) say exactly that -- instantiate the terminal with the composition of the tree
        before the operation and the application with an indicator function. *)
From Coq Require Import ZArith List Bool Lia ZifyBool.
From Tickit Require Import RectDefs RectProofs WinRectSet WinDefs WinSpec WinScreenInv WinFocusProofs.
Import ListNotations.
Local Open Scope Z_scope.

(* ------------------------------------------------------------------------------------ *)
(* the focus target                                                                      *)

Definition ftarget (t : wtree) : winfo := t_info (last (focus_chain t) t).

Definition ckey (i : winfo) : option (Z * Z * Z * Z) :=
  if w_focused i && w_cvis i then Some (w_id i, w_cline i, w_ccol i, w_cshape i) else None.

Lemma focus_chain_hd : forall t, exists tl, focus_chain t = t :: tl.
Proof.
  intros [i ch]. rewrite focus_chain_unf.
  destruct (w_fchild i) as [k|]; [|eexists; reflexivity].
  destruct (kids_find k ch); eexists; reflexivity.
Qed.

Lemma last_cons_chain : forall t n, last (t :: focus_chain n) t = last (focus_chain n) n.
Proof.
  intros t n. destruct (focus_chain_hd n) as [tl Hn]. rewrite Hn.
  change (last (t :: n :: tl) t) with (last (n :: tl) t). apply last_default. discriminate.
Qed.

Lemma ftarget_unf : forall i ch,
  ftarget (Node i ch) =
  match w_fchild i with
  | None => i
  | Some k => match kids_find k ch with Some c => ftarget c | None => i end
  end.
Proof.
  intros i ch. unfold ftarget. rewrite focus_chain_unf.
  destruct (w_fchild i) as [k|]; [|reflexivity].
  destruct (kids_find k ch) as [c|]; [|reflexivity].
  rewrite last_cons_chain. reflexivity.
Qed.

Lemma focus_chain_ids : forall t x, In x (focus_chain t) -> In (t_id x) (t_ids t).
Proof.
  induction t as [i ch IH] using wtree_ind'. intros x Hin.
  rewrite focus_chain_unf in Hin.
  assert (Hself : In x [Node i ch] -> In (t_id x) (t_ids (Node i ch))).
  { intros [Hx|[]]. subst x. apply t_ids_head. }
  destruct (w_fchild i) as [k|]; [|auto].
  destruct (kids_find k ch) as [c|] eqn:Ef; [|auto].
  destruct Hin as [Hx|Hin]; [apply Hself; left; exact Hx|].
  apply kids_find_some in Ef. destruct Ef as [Hc _].
  cbn [t_ids]. right. apply in_flat_map. exists c. split; [exact Hc|].
  rewrite Forall_forall in IH. apply IH; assumption.
Qed.

Lemma focus_chain_sub : forall t x, In x (focus_chain t) -> subtree x t.
Proof.
  induction t as [i ch IH] using wtree_ind'. intros x Hin.
  rewrite focus_chain_unf in Hin.
  assert (Hself : In x [Node i ch] -> subtree x (Node i ch)).
  { intros [Hx|[]]. subst x. constructor. }
  destruct (w_fchild i) as [k|]; [|auto].
  destruct (kids_find k ch) as [c|] eqn:Ef; [|auto].
  destruct Hin as [Hx|Hin]; [apply Hself; left; exact Hx|].
  apply kids_find_some in Ef. destruct Ef as [Hc _].
  eapply sub_kid; [exact Hc|]. rewrite Forall_forall in IH. apply IH; assumption.
Qed.

Lemma chain_last_in : forall t, In (last (focus_chain t) t) (focus_chain t).
Proof.
  intro t. apply last_in. destruct (focus_chain_hd t) as [tl H]. rewrite H. discriminate.
Qed.

(* the focus target is the info of a window of the tree *)
Lemma ftarget_sub : forall t, exists s, subtree s t /\ t_info s = ftarget t.
Proof.
  intro t. exists (last (focus_chain t) t). split; [|reflexivity].
  apply focus_chain_sub. apply chain_last_in.
Qed.

(* ------------------------------------------------------------------------------------ *)
(* where the descent of the painter's model ends up                                      *)

Lemma owner_rel_pos : forall t, NoDup (t_ids t) -> forall q p,
  owner_rel t q = (t_id (last (focus_chain t) t), p) ->
  q = (fst p + otop (tl (focus_chain t)), snd p + oleft (tl (focus_chain t))).
Proof.
  induction t as [i ch IH] using wtree_ind'. intros Hnd q p Hown.
  pose proof Hnd as Hnd0. apply node_nodup in Hnd. destruct Hnd as [Hni Hndch].
  assert (Hsingle : owner_rel (Node i ch) q = (w_id i, p) -> q = (fst p + 0, snd p + 0)).
  { intro H. rewrite owner_rel_unf in H. destruct (first_hit ch q) as [c'|] eqn:Eh.
    - exfalso. apply Hni. apply first_hit_some in Eh. destruct Eh as [Hin' _].
      apply in_flat_map. exists c'. split; [exact Hin'|].
      pose proof (owner_rel_id c' (fst q - top (w_rect (t_info c')), snd q - left (w_rect (t_info c')))) as Hid'.
      rewrite H in Hid'. exact Hid'.
    - inversion H; subst p. destruct q as [a b]. cbn [fst snd]. f_equal; lia. }
  rewrite focus_chain_unf in *.
  destruct (w_fchild i) as [k|]; [|cbn [last tl otop oleft] in *; apply Hsingle; exact Hown].
  destruct (kids_find k ch) as [n|] eqn:Ef; [|cbn [last tl otop oleft] in *; apply Hsingle; exact Hown].
  apply kids_find_some in Ef. destruct Ef as [Hin _].
  rewrite last_cons_chain in Hown. cbn [tl].
  set (w := last (focus_chain n) n) in *.
  assert (Hwin : In (t_id w) (t_ids n)) by (apply focus_chain_ids; apply chain_last_in).
  rewrite owner_rel_unf in Hown. destruct (first_hit ch q) as [c'|] eqn:Eh.
  - pose proof (first_hit_some _ _ _ Eh) as [Hin' _].
    assert (Hc' : c' = n).
    { eapply kids_disjoint; [exact Hndch|exact Hin'|exact Hin| |exact Hwin].
      pose proof (owner_rel_id c' (fst q - top (w_rect (t_info c')), snd q - left (w_rect (t_info c')))) as Hid'.
      rewrite Hown in Hid'. exact Hid'. }
    subst c'. rewrite Forall_forall in IH.
    pose proof (IH n Hin (kids_nodup_in _ _ Hndch Hin) _ _ Hown) as Hq.
    destruct (focus_chain_hd n) as [tl1 Hn]. rewrite Hn in *. cbn [tl otop oleft] in *.
    destruct q as [a b]. cbn [fst snd] in Hq. inversion Hq. f_equal; lia.
  - exfalso. apply Hni. inversion Hown as [[Hidw Hp]].
    apply in_flat_map. exists n. split; [exact Hin|]. rewrite Hidw. exact Hwin.
Qed.

(* ------------------------------------------------------------------------------------ *)
(* cursor_spec through ckey, ftarget and owner                                           *)

Record WFT (T : wtree) : Prop := mkWFT {
  wft_ids : ids_unique T;
  wft_focus : wf_focus T;
  wft_vis : w_vis (t_info T) = true;
  wft_top : top (w_rect (t_info T)) = 0;
  wft_left : left (w_rect (t_info T)) = 0 }.

Lemma wft_chain_vis : forall T, WFT T -> forallb (fun x => w_vis (t_info x)) (focus_chain T) = true.
Proof.
  intros T [Hu Hwf Hv _ _]. destruct (walk_is_chain T Hwf Hu Hv) as [He Hall].
  rewrite <- He. exact Hall.
Qed.

Lemma cursor_spec_some : forall T L C s, WFT T -> cursor_spec T = Some (L, C, s) ->
  exists id cl cc, ckey (ftarget T) = Some (id, cl, cc, s) /\ owner T (L, C) = Some (id, (cl, cc)).
Proof.
  intros T L C s HT Hc. unfold cursor_spec in Hc. cbn zeta in Hc.
  fold (ftarget T) in Hc. set (i := ftarget T) in *.
  set (p := (fst (chain_origin (focus_chain T)) + w_cline i, snd (chain_origin (focus_chain T)) + w_ccol i)) in *.
  destruct (w_focused i) eqn:Ef; [|discriminate]. cbn [andb] in Hc.
  destruct (forallb (fun x => w_vis (t_info x)) (focus_chain T)); [|discriminate]. cbn [andb] in Hc.
  destruct (w_cvis i) eqn:Ecv; [|discriminate]. cbn [andb] in Hc.
  destruct (owner T p) as [[id [q1 q2]]|] eqn:Eo; [|discriminate]. cbn [fst snd] in Hc.
  destruct ((id =? w_id i) && (q1 =? w_cline i) && (q2 =? w_ccol i)) eqn:Eq; [|discriminate].
  inversion Hc; subst L C s.
  exists (w_id i), (w_cline i), (w_ccol i). split.
  - unfold ckey. rewrite Ef, Ecv. reflexivity.
  - subst p. cbn [fst snd] in *. rewrite Eo. f_equal. f_equal; [lia|f_equal; lia].
Qed.

Lemma cursor_spec_from_owner : forall T L C s id cl cc, WFT T ->
  ckey (ftarget T) = Some (id, cl, cc, s) -> owner T (L, C) = Some (id, (cl, cc)) ->
  cursor_spec T = Some (L, C, s).
Proof.
  intros T L C s id cl cc HT Hk Ho.
  pose proof (wft_chain_vis T HT) as Hall. destruct HT as [Hu Hwf Hv Ht Hl].
  unfold ckey in Hk. set (i := ftarget T) in *.
  destruct (w_focused i) eqn:Ef; [|discriminate]. destruct (w_cvis i) eqn:Ecv; [|discriminate].
  cbn [andb] in Hk. inversion Hk as [[Hid Hcl Hcc Hs]].
  assert (Hrel : owner_rel T (L, C) = (id, (cl, cc))).
  { unfold owner in Ho. destruct (w_vis (t_info T) && cell_inb (selfrect (t_info T)) (L, C)); [|discriminate].
    inversion Ho. reflexivity. }
  assert (Hpos : (L, C) = (cl + otop (tl (focus_chain T)), cc + oleft (tl (focus_chain T)))).
  { apply (owner_rel_pos T Hu (L, C) (cl, cc)). rewrite Hrel. f_equal. rewrite <- Hid. reflexivity. }
  assert (Hot : otop (focus_chain T) = otop (tl (focus_chain T))).
  { destruct (focus_chain_hd T) as [tl1 H]. rewrite H. cbn [otop tl]. lia. }
  assert (Hol : oleft (focus_chain T) = oleft (tl (focus_chain T))).
  { destruct (focus_chain_hd T) as [tl1 H]. rewrite H. cbn [oleft tl]. lia. }
  assert (HL : otop (focus_chain T) + w_cline i = L) by (inversion Hpos; lia).
  assert (HC : oleft (focus_chain T) + w_ccol i = C) by (inversion Hpos; lia).
  unfold cursor_spec. cbn zeta. fold (ftarget T). fold i.
  rewrite chain_origin_eq. cbn [fst snd]. rewrite HL, HC, Ef, Hall, Ecv, Ho. cbn [andb fst snd].
  replace (id =? w_id i) with true by lia. replace (cl =? w_cline i) with true by lia.
  replace (cc =? w_ccol i) with true by lia. cbn [andb]. rewrite Hs. reflexivity.
Qed.

(* an operation that keeps the focus target's key and changes the owner of cells only inside
   the rectangles D keeps the cursor specification, or D is not empty *)
Theorem cursor_spec_stable : forall T T' (D : list rect), WFT T -> WFT T' ->
  ckey (ftarget T') = ckey (ftarget T) ->
  (forall q, owner T' q = owner T q \/ covered D q) ->
  cursor_spec T' = cursor_spec T \/ D <> [].
Proof.
  intros T T' D HT HT' Hk Hown.
  assert (Hne : forall q, covered D q -> D <> []).
  { intros q Hq E. rewrite E in Hq. apply covered_nil in Hq. exact Hq. }
  destruct (cursor_spec T) as [[[L C] s]|] eqn:E1.
  - destruct (cursor_spec_some T L C s HT E1) as [id [cl [cc [Hk1 Ho1]]]].
    destruct (Hown (L, C)) as [Ho|Hc]; [|right; exact (Hne _ Hc)].
    left. apply (cursor_spec_from_owner T' L C s id cl cc HT'); congruence.
  - destruct (cursor_spec T') as [[[L C] s]|] eqn:E2; [|left; reflexivity].
    destruct (cursor_spec_some T' L C s HT' E2) as [id [cl [cc [Hk2 Ho2]]]].
    destruct (Hown (L, C)) as [Ho|Hc]; [|right; exact (Hne _ Hc)].
    exfalso. assert (H : cursor_spec T = Some (L, C, s)).
    { apply (cursor_spec_from_owner T L C s id cl cc HT); congruence. }
    congruence.
Qed.

(* ------------------------------------------------------------------------------------ *)
(* the part of the C01 screen invariant that does not look at the terminal               *)

Record StOK (st : root) : Prop := mkStOK {
  so_origin : top (w_rect (t_info (r_tree st))) = 0 /\ left (w_rect (t_info (r_tree st))) = 0;
  so_rootvis : w_vis (t_info (r_tree st)) = true;
  so_nonempty : all_nonempty (r_damage st);
  so_flags : (r_damage st <> [] -> r_nexp st = true /\ r_later st = true) /\
             (r_queue st <> [] -> r_later st = true) }.

(* a terminal showing exactly the composition of st's tree *)
Definition canon (app : Z -> Z -> Z -> Z) (st : root) : term :=
  mkTerm (lines (w_rect (t_info (r_tree st)))) (cols (w_rect (t_info (r_tree st))))
         (fun q => shows app (r_tree st) q) false 0 0 0 0 O pol_accept.

Lemma screen_of_state : forall app st, StOK st -> ScreenInv app st (canon app st).
Proof.
  intros app st [Ho Hv Hne Hf]. constructor; try assumption.
  - split; reflexivity.
  - intros q _. left. reflexivity.
Qed.

Lemma state_of_screen : forall app st tm, ScreenInv app st tm -> StOK st.
Proof. intros app st tm [Ho Hv _ Hne _ Hf]. constructor; assumption. Qed.

Definition indicator (id0 l0 c0 : Z) : Z -> Z -> Z -> Z :=
  fun id l c => if (id =? id0) && (l =? l0) && (c =? c0) then 1 else 0.

(* what the preservation theorems of WinPreserve.v say about [owner] *)
Theorem owner_locality : forall st st', StOK st ->
  (forall app, ScreenInv app st' (canon app st)) ->
  forall q, owner (r_tree st') q = owner (r_tree st) q \/ covered (r_damage st') q.
Proof.
  intros st st' Hok HSI q.
  pose proof (HSI (fun _ _ _ => 0)) as SI0.
  destruct (si_size _ _ _ SI0) as [Hl Hc]. cbn [canon t_lines t_cols] in Hl, Hc.
  pose proof (si_rootvis _ _ _ SI0) as Hv'. pose proof (so_rootvis _ Hok) as Hv.
  assert (Hself : selfrect (t_info (r_tree st')) = selfrect (t_info (r_tree st))).
  { unfold selfrect. rewrite <- Hl, <- Hc. reflexivity. }
  unfold owner. rewrite Hv, Hv', Hself. cbn [andb].
  destruct (cell_inb (selfrect (t_info (r_tree st))) q) eqn:Ein; [|left; reflexivity].
  destruct (coveredb (r_damage st') q) eqn:Ecov; [right; apply coveredb_iff; exact Ecov|].
  left. f_equal.
  destruct (owner_rel (r_tree st) q) as [id0 [l0 c0]] eqn:E0.
  pose proof (HSI (indicator id0 l0 c0)) as SI.
  assert (Hq' : cell_inb (root_selfrect st') q = true).
  { unfold root_selfrect. rewrite Hself. exact Ein. }
  destruct (si_cells _ _ _ SI q Hq') as [Hs|Hcv].
  - cbn [canon t_grid] in Hs. unfold shows in Hs. rewrite E0 in Hs. cbn [fst snd] in Hs.
    destruct (owner_rel (r_tree st') q) as [id1 [l1 c1]]. cbn [fst snd] in Hs.
    unfold indicator in Hs. rewrite !Z.eqb_refl in Hs. cbn [andb] in Hs.
    destruct ((id1 =? id0) && (l1 =? l0) && (c1 =? c0)) eqn:Eq; [|discriminate].
    f_equal; [lia|f_equal; lia].
  - apply coveredb_iff in Hcv. congruence.
Qed.
