(* WinReForest.v -- the hypothesis of WinReEstablish.flush_re_establishes that the ids of the
   whole FOREST (the tree and the detached subtrees r_orphans of closed windows) are unique,
   WinInputProofs.ids_unique, is an invariant of the history model: it holds initially
   (forest_unique_init), every step of WinHist.step keeps it provided the id of a NEW window is
   fresh with respect to the forest (forest_unique_step; no condition on any other operation),
   so does every step with re-entering handlers, whatever they call (forest_unique_step_re),
   hence every history (forest_unique_run, forest_unique_run_re).

   Why: only win_new adds an id; win_close moves a subtree from the tree to the orphans
   (WinInputProofs.close_props); the restacks permute a child list; everything else changes
   window infos but no id (same_ids). *)
From Coq Require Import ZArith List Bool Lia ZifyBool Permutation.
From Tickit Require Import RectDefs RectProofs WinRectSet WinRectSetProofs WinDefs WinHist WinSpec
  WinExposeProofs WinFlushProofs WinLogDisjoint WinScreenInv WinLocality WinLocFocus WinPreserve
  WinInput WinReDefs WinReProofs WinReFlags WinReStatic WinReLive WinReTrav WinReLocal WinReEstablish.
From Tickit Require WinInputProofs.
Import ListNotations.
Local Open Scope Z_scope.
Local Strategy 1000 [rsfuel].

Definition new_fresh (o : op) (st : root) : Prop :=
  match o with ONew id _ _ _ _ _ _ => f_find st id = None | _ => True end.

(* ------------------------------------------------------------------------------------ *)
(* states with the same ids in the tree and the same orphans                             *)

Definition same_ids (st st' : root) : Prop :=
  t_ids (r_tree st') = t_ids (r_tree st) /\ r_orphans st' = r_orphans st.

Lemma same_ids_refl st : same_ids st st.
Proof. split; reflexivity. Qed.

Lemma same_ids_trans a b c : same_ids a b -> same_ids b c -> same_ids a c.
Proof. intros [A1 A2] [B1 B2]. split; congruence. Qed.

Lemma same_ids_unique st st' : same_ids st st' -> IP.ids_unique st -> IP.ids_unique st'.
Proof.
  intros [Hi Ho] Hfu. unfold IP.ids_unique, IP.forest_ids, forest in *. cbn [flat_map] in *.
  change (IP.t_ids (r_tree st')) with (t_ids (r_tree st')). rewrite Hi, Ho. exact Hfu.
Qed.

Lemma same_ids_forest st st' : r_tree st' = r_tree st -> r_orphans st' = r_orphans st -> same_ids st st'.
Proof. intros E1 E2. split; [rewrite E1; reflexivity|exact E2]. Qed.

Lemma same_ids_expose st X id ex : same_ids st X -> same_ids st (win_expose X id ex).
Proof.
  intros H. apply (same_ids_trans st X); [exact H|].
  apply same_ids_forest; [apply win_expose_tree|apply win_expose_orphans].
Qed.

Lemma same_ids_cond (b : bool) st X : same_ids st X -> same_ids st (if b then request_restore X else X).
Proof. intros H. destruct b; exact H. Qed.

Lemma same_ids_set_tree st t : t_ids t = t_ids (r_tree st) -> same_ids st (set_tree st t).
Proof. intros H. split; [exact H|reflexivity]. Qed.

Lemma same_ids_update st f id : keeps_id f -> same_ids st (set_tree st (t_update f id (r_tree st))).
Proof. intros Hf. apply same_ids_set_tree. apply update_ids. exact Hf. Qed.

(* ------------------------------------------------------------------------------------ *)
(* the operations that keep the ids                                                      *)

Lemma keeps_id_vis' b : keeps_id (fun j => set_vis j b).
Proof. intros i; reflexivity. Qed.

Lemma win_show_ids cfg st id : same_ids st (win_show cfg st id).
Proof.
  destruct (t_chain id (r_tree st)) as [[|w [|p rest]]|] eqn:E.
  - unfold win_show. rewrite E. cbn [andb]. apply same_ids_expose. apply same_ids_update. apply keeps_id_vis'.
  - unfold win_show. rewrite E. cbn [andb]. apply same_ids_expose. apply same_ids_update. apply keeps_id_vis'.
  - rewrite (win_show_unfold cfg st id w p rest E). apply same_ids_expose.
    unfold show_pre. apply same_ids_cond. apply same_ids_set_tree.
    apply skel_eq_ids. apply show_tree_skel.
  - unfold win_show. rewrite E. apply same_ids_refl.
Qed.

Lemma win_hide_ids cfg st id : same_ids st (win_hide cfg st id).
Proof.
  destruct (t_chain id (r_tree st)) as [[|w [|p rest]]|] eqn:E.
  - unfold win_hide. rewrite E. apply same_ids_update. apply keeps_id_vis'.
  - unfold win_hide. rewrite E. apply same_ids_update. apply keeps_id_vis'.
  - rewrite (win_hide_unfold cfg st id w p rest E). apply same_ids_expose.
    unfold hide_pre. apply same_ids_cond. apply same_ids_set_tree.
    apply skel_eq_ids. apply hide_tree_skel.
  - unfold win_hide. rewrite E. apply same_ids_refl.
Qed.

Lemma win_restack_ids st k id : same_ids st (win_restack st k id).
Proof.
  apply same_ids_forest; [apply win_restack_tree|].
  unfold win_restack. destruct (t_parent_id id (r_tree st)); [|reflexivity]. destruct (r_queue st); reflexivity.
Qed.

Lemma geom_exposes_ids st0 st id ex : same_ids st (geom_exposes st0 st id ex).
Proof.
  unfold geom_exposes. destruct (negb ex); [apply same_ids_refl|].
  destruct (t_parent_id id (r_tree st0)); [|apply same_ids_refl].
  destruct (win_rect st0 id); [|apply same_ids_refl].
  destruct (win_rect st id); [|apply same_ids_refl].
  apply same_ids_expose. apply same_ids_expose. apply same_ids_refl.
Qed.

Lemma keeps_id_rect r : keeps_id (fun j => set_rect j r).
Proof. intros i; reflexivity. Qed.

Lemma win_set_geometry_ids st id r : same_ids st (win_set_geometry st id r).
Proof. unfold win_set_geometry. apply same_ids_update. apply keeps_id_rect. Qed.

Lemma win_reposition_ids st id t l : same_ids st (win_reposition st id t l).
Proof.
  unfold win_reposition. destruct (t_find id (r_tree st)) as [w|]; [|apply same_ids_refl].
  apply same_ids_cond. apply win_set_geometry_ids.
Qed.

Lemma win_resize_ids st id nl nc : same_ids st (win_resize st id nl nc).
Proof.
  unfold win_resize. destruct (t_find id (r_tree st)) as [w|]; [|apply same_ids_refl].
  apply win_set_geometry_ids.
Qed.

Lemma win_setctl_ids st id f restore : keeps_id f -> same_ids st (win_setctl st id f restore).
Proof.
  intros Hf. unfold win_setctl. destruct (t_find id (r_tree st)) as [w|]; [|apply same_ids_refl].
  apply same_ids_cond. apply same_ids_update. exact Hf.
Qed.

Lemma win_take_focus_ids cfg st id : same_ids st (fst (win_take_focus cfg st id)).
Proof.
  unfold win_take_focus. destruct (t_chain id (r_tree st)) as [chain|]; [|apply same_ids_refl].
  pose proof (strip_focus_gained cfg (map t_id chain) None (r_tree st)) as Hs.
  destruct (focus_gained cfg (map t_id chain) None (r_tree st)) as [[tr ev] rs].
  cbn [fst] in *. apply strip_eq_geq in Hs.
  apply same_ids_cond. apply same_ids_set_tree. apply (gq_ids _ _ Hs).
Qed.

Lemma win_term_resize_ids st tm nl nc : same_ids st (fst (win_term_resize st tm nl nc)).
Proof.
  unfold win_term_resize. destruct ((t_lines tm =? nl) && (t_cols tm =? nc)); [apply same_ids_refl|].
  cbn [fst].
  assert (H1 : same_ids st (win_resize st (t_id (r_tree st)) nl nc)) by apply win_resize_ids.
  set (st1 := win_resize st (t_id (r_tree st)) nl nc) in *.
  assert (H2 : same_ids st (if nl >? lines (root_selfrect st)
                            then win_expose st1 (t_id (r_tree st)) (Some (mkRect (lines (root_selfrect st)) 0 (nl - lines (root_selfrect st)) nc))
                            else st1)).
  { destruct (nl >? lines (root_selfrect st)); [apply same_ids_expose|]; exact H1. }
  destruct (nc >? cols (root_selfrect st)); [apply same_ids_expose|]; exact H2.
Qed.

(* scrolling *)
Definition acc_root (acc : root * term * bool * bool) : root := fst (fst (fst acc)).

Lemma scroll_one_ids id a b d r acc rc :
  same_ids (acc_root acc) (acc_root (scroll_one id a b d r acc rc)).
Proof.
  destruct acc as [[[st tm] ret] dp]. unfold scroll_one, acc_root. cbn [fst].
  destruct ((Z.abs d >=? lines rc) || (Z.abs r >=? cols rc)).
  { cbn [fst]. apply same_ids_expose. apply same_ids_refl. }
  destruct (shift_damage (r_fuel st) (r_damage st) rc d r) as [dmg|]; [|cbn [fst]; apply same_ids_forest; reflexivity].
  destruct (term_scroll (if dp then tm else term_set_cvis tm false) rc d r) as [tm2 acc'].
  assert (H1 : same_ids st (set_damage st dmg)) by (apply same_ids_forest; reflexivity).
  destruct acc'; cbn [fst].
  - set (orig := r_translate rc (- a) (- b)).
    assert (H2 : same_ids st
                   (if d >? 0 then win_expose (set_damage st dmg) id (Some (mkRect (bottom orig - d) (left orig) d (cols rc)))
                    else if d <? 0 then win_expose (set_damage st dmg) id (Some (mkRect (top orig) (left orig) (- d) (cols rc)))
                    else set_damage st dmg)).
    { destruct (d >? 0); [apply same_ids_expose; exact H1|].
      destruct (d <? 0); [apply same_ids_expose|]; exact H1. }
    destruct (r >? 0); [apply same_ids_expose; exact H2|].
    destruct (r <? 0); [apply same_ids_expose|]; exact H2.
  - apply same_ids_expose. exact H1.
Qed.

Lemma scroll_fold_ids id a b d r : forall V acc,
  same_ids (acc_root acc) (acc_root (fold_left (scroll_one id a b d r) V acc)).
Proof.
  induction V as [|rc V IH]; intros acc; [apply same_ids_refl|]. cbn [fold_left].
  eapply same_ids_trans; [apply scroll_one_ids|apply IH].
Qed.

Lemma win_scroll_ids cfg st tm id orig d r mask :
  same_ids st (fst (fst (win_scroll cfg st tm id orig d r mask))).
Proof.
  unfold win_scroll.
  destruct (t_chain id (r_tree st)) as [[|w rest]|]; try apply same_ids_refl.
  destruct (match orig with
            | Some o => r_intersect (selfrect (t_info w)) o
            | None => r_intersect (selfrect (t_info w)) (selfrect (t_info w))
            end) as [rc|]; [|apply same_ids_refl].
  destruct (rs_add (r_fuel st) [] rc) as [v0|]; [|apply same_ids_forest; reflexivity].
  destruct (if mask then rs_sub_vis (r_fuel st) (Some v0) (t_kids w) else Some v0) as [v1|];
    [|apply same_ids_forest; reflexivity].
  destruct (scroll_region cfg (r_fuel st) (w :: rest) v1 0 0) as [| |V a b];
    [apply same_ids_forest; reflexivity|apply same_ids_refl|].
  pose proof (scroll_fold_ids id a b d r V (st, tm, true, false)) as H. unfold acc_root in H. cbn [fst] in H.
  destruct (fold_left (scroll_one id a b d r) V (st, tm, true, false)) as [[[st1 tm1] ret] dp].
  cbn [fst] in *. apply same_ids_cond. exact H.
Qed.

Lemma move_kids_ids d r : forall (l : list wtree) s,
  same_ids s (fold_left (fun s c => let cr := w_rect (t_info c) in
                                     win_set_geometry s (t_id c) (mkRect (top cr - d) (left cr - r) (lines cr) (cols cr)))
                        l s).
Proof.
  induction l as [|c l IH]; intros s; [apply same_ids_refl|]. cbn [fold_left].
  eapply same_ids_trans; [apply win_set_geometry_ids|apply IH].
Qed.

(* ------------------------------------------------------------------------------------ *)
(* new                                                                                   *)

Lemma fresh_not_in st id : IP.ids_unique st -> f_find st id = None -> ~ In id (IP.forest_ids st).
Proof.
  intros Hfu Hf Hin. unfold IP.forest_ids in Hin. apply in_flat_map in Hin. destruct Hin as (t & Ht & Hid).
  pose proof (IP.NoDup_flat_in _ _ Hfu Ht) as Hnd.
  destruct (t_find_some id t Hnd Hid) as [n Hn].
  destruct (IP.t_find_sub _ _ _ Hn) as [Hs Hidn].
  assert (Hsl : IP.subl n (forest st)) by (exists t; split; assumption).
  pose proof (IP.f_find_unique st n Hfu Hsl) as H. rewrite Hidn, Hf in H. discriminate.
Qed.

Lemma upd_kids_new_ids id r' hidden steal (lowest : bool) pid' t :
  NoDup (t_ids t) -> ~ In id (t_ids t) ->
  let F := fun ch => if lowest then ch ++ [Node (new_info id r' hidden steal) []]
                     else Node (new_info id r' hidden steal) [] :: ch in
  NoDup (t_ids (t_upd_kids F pid' t)) /\
  forall x, In x (t_ids (t_upd_kids F pid' t)) -> In x (t_ids t) \/ x = id.
Proof.
  intros Hu Hfresh F.
  destruct (in_dec Z.eq_dec pid' (t_ids t)) as [Hin|Hnin].
  2:{ rewrite (upd_kids_notin _ _ _ Hnin). split; [exact Hu|]. intros x Hx. left. exact Hx. }
  set (node := Node (new_info id r' hidden steal) []) in *.
  destruct (t_find_some pid' _ Hu Hin) as [n Hn].
  destruct (upd_kids_kc F pid' _ n Hu Hn) as [D Hkc].
  destruct (kc_kids_nodup _ _ _ _ _ _ Hkc Hu) as [Hndk Hsub].
  apply (kc_ids (fun x => x = id) _ _ _ _ _ _ Hkc Hu).
  - intros x ->. exact Hfresh.
  - unfold F. destruct lowest.
    + rewrite flat_map_app. apply nodup_app_intro; [exact Hndk| |].
      * unfold node; cbn [flat_map t_ids List.app]. constructor; [intros []|constructor].
      * intros x Hx1 Hx2. unfold node in Hx2; cbn [flat_map t_ids List.app In] in Hx2.
        destruct Hx2 as [<-|[]]. apply Hfresh. apply Hsub. exact Hx1.
    + unfold node; cbn [flat_map t_ids List.app]. constructor; [|exact Hndk].
      intros Hx. apply Hfresh. apply Hsub. exact Hx.
  - intros x Hx. unfold F in Hx. destruct lowest.
    + rewrite flat_map_app in Hx. apply in_app_or in Hx. destruct Hx as [Hx|Hx]; [left; exact Hx|].
      unfold node in Hx; cbn [flat_map t_ids List.app In] in Hx. destruct Hx as [<-|[]]. right. reflexivity.
    + unfold node in Hx; cbn [flat_map t_ids List.app In] in Hx.
      destruct Hx as [<-|Hx]; [right; reflexivity|left; exact Hx].
Qed.

Lemma win_new_unique st id pid r hidden lowest rootparent steal :
  IP.ids_unique st -> f_find st id = None ->
  IP.ids_unique (win_new st id pid r hidden lowest rootparent steal).
Proof.
  intros Hfu Hfresh. pose proof (fresh_not_in st id Hfu Hfresh) as Hnin.
  pose proof (forest_tree_nodup st Hfu) as Hu.
  unfold win_new. destruct (t_chain pid (r_tree st)) as [chain|]; [|exact Hfu].
  (* whatever parent and rectangle are chosen *)
  assert (H : forall pid' r',
            IP.ids_unique
              (let st' := set_tree st (t_upd_kids (fun ch => if lowest then ch ++ [Node (new_info id r' hidden steal) []]
                                                             else Node (new_info id r' hidden steal) [] :: ch) pid' (r_tree st)) in
               if negb hidden then win_expose st' pid' (Some r') else st')).
  { intros pid' r'. cbv zeta.
    set (st' := set_tree st (t_upd_kids (fun ch => if lowest then ch ++ [Node (new_info id r' hidden steal) []]
                                                  else Node (new_info id r' hidden steal) [] :: ch) pid' (r_tree st))).
    assert (Hst' : IP.ids_unique st').
    { unfold IP.ids_unique, IP.forest_ids, forest in *. cbn [flat_map] in *.
      change (IP.t_ids (r_tree st')) with (t_ids (r_tree st')).
      change (IP.t_ids (r_tree st)) with (t_ids (r_tree st)) in Hfu, Hnin.
      destruct (upd_kids_new_ids id r' hidden steal lowest pid' (r_tree st) Hu) as [N I].
      { intros Hx. apply Hnin. apply in_or_app. left. exact Hx. }
      apply nodup_app_inv in Hfu. destruct Hfu as (_ & H2 & H3).
      unfold st'; cbn [r_tree r_orphans set_tree].
      apply nodup_app_intro; [exact N|exact H2|].
      intros x Hx1 Hx2. destruct (I x Hx1) as [Hx| ->].
      - exact (H3 x Hx Hx2).
      - apply Hnin. apply in_or_app. right. exact Hx2. }
    destruct (negb hidden); [|exact Hst'].
    apply (same_ids_unique st'); [|exact Hst']. apply same_ids_expose. apply same_ids_refl. }
  destruct rootparent; cbv beta iota zeta; apply H.
Qed.

(* ------------------------------------------------------------------------------------ *)
(* close, flush                                                                          *)

Lemma win_close_unique cfg st id : IP.ids_unique st -> IP.ids_unique (win_close cfg st id).
Proof.
  intros Hfu. pose proof (forest_tree_nodup st Hfu) as Hu.
  destruct (t_find id (r_tree st)) as [n0|] eqn:Ef.
  - destruct (Z.eq_dec id (t_id (r_tree st))) as [->|Hne].
    + rewrite win_close_noop; [exact Hfu|exact Hu|right; reflexivity].
    + apply (IP.close_props cfg st id n0 Hfu Ef Hne).
  - rewrite win_close_noop; [exact Hfu|exact Hu|left; exact Ef].
Qed.

Lemma win_flush_unique cfg hnd st tm : IP.ids_unique st -> IP.ids_unique (fst (fst (win_flush cfg hnd st tm))).
Proof.
  intros Hfu. destruct (r_later st) eqn:Hl.
  2:{ unfold win_flush. rewrite Hl. exact Hfu. }
  rewrite (win_flush_unfold cfg hnd st tm Hl). cbn zeta.
  pose proof (after_queue_forest st Hfu) as H2.
  destruct (r_nexp (after_queue st)); [|destruct (r_nrest (after_queue st))]; exact H2.
Qed.

Theorem run_act_unique cfg st a : IP.ids_unique st -> IP.ids_unique (run_act cfg st a).
Proof.
  intros Hfu. destruct a as [id r|id|id|k id|id|id]; cbn [run_act].
  - apply (same_ids_unique st); [apply same_ids_expose; apply same_ids_refl|exact Hfu].
  - apply (same_ids_unique st); [apply win_show_ids|exact Hfu].
  - apply (same_ids_unique st); [apply win_hide_ids|exact Hfu].
  - apply (same_ids_unique st); [apply win_restack_ids|exact Hfu].
  - apply win_close_unique. exact Hfu.
  - apply win_close_unique. exact Hfu.
Qed.

Lemma win_flush_re_unique cfg hnd racts st tm :
  IP.ids_unique st -> IP.ids_unique (fst (fst (win_flush_re cfg (re_handler cfg hnd racts) st tm))).
Proof.
  intros Hfu. destruct (r_later st) eqn:Hl.
  2:{ unfold win_flush_re. rewrite Hl. exact Hfu. }
  rewrite (win_flush_re_unfold cfg _ st tm Hl). cbn zeta.
  pose proof (after_queue_forest st Hfu) as H2.
  destruct (r_nexp (after_queue st)); [|destruct (r_nrest (after_queue st)); exact H2].
  cbn [fst].
  assert (H : IP.ids_unique (fst (loop_result cfg (re_handler cfg hnd racts) (after_queue st)))).
  { unfold loop_result. apply (flush_rb_re_fst_inv IP.ids_unique).
    - apply re_handler_keeps. intros s id. apply (run_acts_keeps IP.ids_unique).
      intros s' a _. apply run_act_unique.
    - exact H2. }
  exact H.
Qed.

(* ------------------------------------------------------------------------------------ *)
(* the history model                                                                     *)

Theorem forest_unique_init nl nc orc : IP.ids_unique (m_root (m_init nl nc orc)).
Proof.
  unfold m_init. cbn [m_root].
  apply (same_ids_unique (root_new nl nc)); [apply same_ids_expose; apply same_ids_refl|].
  unfold IP.ids_unique, IP.forest_ids, forest, root_new. cbn [r_tree r_orphans flat_map IP.t_ids new_info w_id List.app].
  constructor; [intros []|constructor].
Qed.

Lemma keeps_id_ctl :
  (forall l c, keeps_id (fun j => set_cpos j l c)) /\ (forall b, keeps_id (fun j => set_cvis j b)) /\
  (forall s, keeps_id (fun j => set_cshape j s)) /\ (forall b, keeps_id (fun j => set_cblink j b)) /\
  (forall b, keeps_id (fun j => set_notify j b)) /\ (forall b, keeps_id (fun j => set_steal j b)).
Proof. repeat split; intros; reflexivity. Qed.

Theorem forest_unique_step cfg progs o m :
  IP.ids_unique (m_root m) -> new_fresh o (m_root m) ->
  IP.ids_unique (m_root (step cfg progs o m)).
Proof.
  intros Hfu Hnew. destruct keeps_id_ctl as (K1 & K2 & K3 & K4 & K5 & K6).
  assert (Hs : forall st', same_ids (m_root m) st' -> IP.ids_unique st').
  { intros st' H. apply (same_ids_unique _ _ H Hfu). }
  destruct o; cbn [step new_fresh] in *; unfold m_set_root; cbn [m_root].
  - apply win_new_unique; assumption.
  - apply win_close_unique. exact Hfu.
  - apply Hs. apply win_show_ids.
  - apply Hs. apply win_hide_ids.
  - apply Hs. apply win_restack_ids.
  - apply Hs. eapply same_ids_trans; [apply win_set_geometry_ids|apply geom_exposes_ids].
  - apply Hs. eapply same_ids_trans; [apply win_reposition_ids|apply geom_exposes_ids].
  - apply Hs. eapply same_ids_trans; [apply win_resize_ids|apply geom_exposes_ids].
  - apply Hs. apply same_ids_expose. apply same_ids_refl.
  - pose proof (win_flush_unique cfg (prog_handler (m_app m) progs) (m_root m) (m_term m) Hfu) as H.
    destruct (win_flush cfg (prog_handler (m_app m) progs) (m_root m) (m_term m)) as [[st' tm'] lg].
    cbn [fst m_root] in *. exact H.
  - pose proof (win_scroll_ids cfg (m_root m) (m_term m) id None down rightw true) as H.
    destruct (win_scroll cfg (m_root m) (m_term m) id None down rightw true) as [[st' tm'] ret].
    cbn [fst] in H. unfold m_scrolled. destruct (win_rect (m_root m) id); cbn [m_root]; apply Hs; exact H.
  - pose proof (win_scroll_ids cfg (m_root m) (m_term m) id (Some r) down rightw true) as H.
    destruct (win_scroll cfg (m_root m) (m_term m) id (Some r) down rightw true) as [[st' tm'] ret].
    cbn [fst] in H. unfold m_scrolled.
    destruct (match win_rect (m_root m) id with
              | Some wr => r_intersect (mkRect 0 0 (lines wr) (cols wr)) r
              | None => None
              end); cbn [m_root]; apply Hs; exact H.
  - pose proof (win_scroll_ids cfg (m_root m) (m_term m) id None down rightw false) as H.
    destruct (win_scroll cfg (m_root m) (m_term m) id None down rightw false) as [[st' tm'] ret].
    cbn [fst] in H.
    assert (H2 : same_ids (m_root m)
                   (match t_find id (r_tree st') with
                    | Some w =>
                      fold_left (fun s c => let cr := w_rect (t_info c) in
                                            win_set_geometry s (t_id c) (mkRect (top cr - down) (left cr - rightw) (lines cr) (cols cr)))
                                (t_kids w) st'
                    | None => st'
                    end)).
    { destruct (t_find id (r_tree st')) as [w|]; [|exact H].
      eapply same_ids_trans; [exact H|apply move_kids_ids]. }
    unfold m_scrolled. destruct (win_rect (m_root m) id); cbn [m_root]; apply Hs; exact H2.
  - pose proof (win_term_resize_ids (m_root m) (m_term m) nl nc) as H.
    destruct (win_term_resize (m_root m) (m_term m) nl nc) as [st' tm']. cbn [fst m_root] in *.
    apply Hs. exact H.
  - pose proof (win_take_focus_ids cfg (m_root m) id) as H.
    destruct (win_take_focus cfg (m_root m) id) as [st' ev]. cbn [fst m_root] in *. apply Hs. exact H.
  - apply Hs. apply win_setctl_ids. apply K1.
  - apply Hs. apply win_setctl_ids. apply K2.
  - apply Hs. apply win_setctl_ids. apply K3.
  - apply Hs. apply win_setctl_ids. apply K4.
  - apply Hs. apply win_setctl_ids. apply K5.
  - apply Hs. apply win_setctl_ids. apply K6.
Qed.

Theorem forest_unique_step_re cfg progs racts o m :
  IP.ids_unique (m_root m) -> new_fresh o (m_root m) ->
  IP.ids_unique (m_root (step_re cfg progs racts o m)).
Proof.
  intros Hfu Hnew.
  destruct o; try (apply (forest_unique_step cfg progs _ m Hfu Hnew)).
  cbn [step_re].
  pose proof (win_flush_re_unique cfg (prog_handler (m_app m) progs) racts (m_root m) (m_term m) Hfu) as H.
  destruct (win_flush_re cfg (re_handler cfg (prog_handler (m_app m) progs) racts) (m_root m) (m_term m))
    as [[st' tm'] lg].
  cbn [fst m_root] in *. exact H.
Qed.

(* along a history: the id of every new window is fresh at its point *)
Fixpoint run_fresh (cfg : defects) (progs : Z -> list dop) (ops : list op) (m : mstate) : Prop :=
  match ops with
  | [] => True
  | o :: rest => new_fresh o (m_root m) /\ run_fresh cfg progs rest (step cfg progs o m)
  end.

Theorem forest_unique_run cfg progs : forall ops m,
  IP.ids_unique (m_root m) -> run_fresh cfg progs ops m -> IP.ids_unique (m_root (run cfg progs ops m)).
Proof.
  induction ops as [|o rest IH]; intros m Hfu Hok; [exact Hfu|].
  cbn [run fold_left]. fold (run cfg progs rest (step cfg progs o m)).
  destruct Hok as [Hnew Hrest]. apply IH; [|exact Hrest]. apply forest_unique_step; assumption.
Qed.

Corollary forest_unique_history cfg progs ops nl nc orc :
  run_fresh cfg progs ops (m_init nl nc orc) ->
  IP.ids_unique (m_root (run cfg progs ops (m_init nl nc orc))).
Proof. apply forest_unique_run. apply forest_unique_init. Qed.

(* the same with re-entering handlers; the scripted calls may differ from flush to flush *)
Fixpoint run_re (cfg : defects) (progs : Z -> list dop) (ops : list (op * (Z -> list ract))) (m : mstate) : mstate :=
  match ops with
  | [] => m
  | (o, racts) :: rest => run_re cfg progs rest (step_re cfg progs racts o m)
  end.

Fixpoint run_fresh_re (cfg : defects) (progs : Z -> list dop) (ops : list (op * (Z -> list ract))) (m : mstate) : Prop :=
  match ops with
  | [] => True
  | (o, racts) :: rest => new_fresh o (m_root m) /\ run_fresh_re cfg progs rest (step_re cfg progs racts o m)
  end.

Theorem forest_unique_run_re cfg progs : forall ops m,
  IP.ids_unique (m_root m) -> run_fresh_re cfg progs ops m -> IP.ids_unique (m_root (run_re cfg progs ops m)).
Proof.
  induction ops as [|[o racts] rest IH]; intros m Hfu Hok; [exact Hfu|].
  cbn [run_re]. destruct Hok as [Hnew Hrest]. apply IH; [|exact Hrest].
  apply forest_unique_step_re; assumption.
Qed.
