(* Property C09: xterm driver output has exactly the requested effect on a VT-conformant
   screen.  Nothing but the property theorems, each closed by [exact <lemma>]. *)
From Coq Require Import ZArith List Bool.
From Tickit Require Import Csi VT TermPenDefs XtermDefs XtermSpec XtermProofs.
Import ListNotations.
Local Open Scope Z_scope.

Theorem C09_scroll_fail_silent : forall slrm term_cols r d rt ts,
  xt_scrollrect slrm term_cols r d rt = (false, ts) -> ts = [].
Proof. exact scrollrect_fail_silent. Qed.
Print Assumptions C09_scroll_fail_silent.
