(* Property C09: xterm driver output has exactly the requested effect on a VT-conformant
   screen.  Nothing but the property theorems, each closed by [exact <lemma>].

   [effect_ok q ret silent v v'] (XtermSpec.v) is the direct, grid-level meaning of request
   [q] between the screens before and after; [vt_run ts v] (VT.v) is the VT-conformant
   screen interpreting the driver's tokens; [in_range q v] the property's "in-range
   arguments" in the state the request is issued in; [vt_ok v] says the screen has no
   margins set, autowrap on and the cursor on it.

   Recorded finding C09-erasech-rv-right-edge: under reverse video an erase with the cursor
   to stay that ends exactly at the right edge (and does not start in column 0) leaves the
   cursor one column short.  The erase and sequence theorems therefore come as _partial
   (everything outside that trigger class, [erase_trigger] / [rv_edge_excl]) and _refuted. *)
From Coq Require Import ZArith List Bool.
From Tickit Require Import Csi CsiProofs VT TermPenDefs TermPenSpec XtermDefs XtermSpec XtermProofs XtermBytes TermApiDefs TermApiSpec TermApiProofs VTProofs VTUtf8 FlushOnVT ScrollOnVT.
Import ListNotations.
Local Open Scope Z_scope.

Theorem C09_goto : forall v l c, vt_ok v -> in_range (RGoto l c) v ->
  effect_ok (RGoto l c) true (match xt_goto_abs l c with [] => true | _ => false end) v
            (vt_run (xt_goto_abs l c) v) /\
  vt_ok (vt_run (xt_goto_abs l c) v).
Proof. exact goto_ok. Qed.
Print Assumptions C09_goto.

Theorem C09_move : forall v d r, vt_ok v -> in_range (RMove d r) v ->
  effect_ok (RMove d r) true (match xt_move_rel d r with [] => true | _ => false end) v
            (vt_run (xt_move_rel d r) v) /\
  vt_ok (vt_run (xt_move_rel d r) v).
Proof. exact move_ok. Qed.
Print Assumptions C09_move.

Theorem C09_print : forall v bs, vt_ok v -> in_range (RPrint bs) v ->
  effect_ok (RPrint bs) true (match xt_print bs with [] => true | _ => false end) v
            (vt_run (xt_print bs) v) /\
  vt_ok (vt_run (xt_print bs) v).
Proof. exact print_ok. Qed.
Print Assumptions C09_print.

(* erase blanks exactly [n] cells from the cursor in the current (visible) background and
   honours the requested final position -- ECH when not in reverse video, spaces otherwise *)
Theorem C09_erase_partial : forall v rv n me, vt_ok v -> in_range (RErase n me) v ->
  rv = a_reverse (v_sgr v) -> erase_trigger rv n me v = false ->
  effect_ok (RErase n me) true (match xt_erasech rv n me with [] => true | _ => false end) v
            (vt_run (xt_erasech rv n me) v) /\
  vt_ok (vt_run (xt_erasech rv n me) v).
Proof. exact erase_ok. Qed.
Print Assumptions C09_erase_partial.

(* FULL statement (false): the same without the hypothesis [erase_trigger rv n me v = false] *)
Theorem C09_erase_refuted :
  vt_ok rv_edge_witness /\ in_range (RErase 3 MNo) rv_edge_witness /\
  a_reverse (v_sgr rv_edge_witness) = true /\
  erase_trigger true 3 MNo rv_edge_witness = true /\
  ~ effect_ok (RErase 3 MNo) true false rv_edge_witness (vt_run (xt_erasech true 3 MNo) rv_edge_witness).
Proof. exact erase_rv_edge_refuted. Qed.
Print Assumptions C09_erase_refuted.

Theorem C09_clear : forall v, vt_ok v ->
  effect_ok RClear true false v (vt_run xt_clear v) /\ vt_ok (vt_run xt_clear v).
Proof. exact clear_ok. Qed.
Print Assumptions C09_clear.

(* every strategy of scrollrect (ICH/DCH per line, with a DECSLRM right margin when needed;
   DECSTBM + DECSLRM with IL/DL and DECIC/DECDC; "cannot"), for every screen size, every
   rectangle on the screen, every offset pair with |downward| < lines and |rightward| < cols,
   with and without the DECSLRM capability: a success moves exactly the rectangle's cells,
   blanks the vacated ones, touches nothing else and leaves no margins; a failure is silent *)
Theorem C09_scroll : forall v slrm r d rt, vt_ok v -> in_range (RScroll r d rt) v ->
  (slrm = true -> md_lrmm (v_md v) = true) ->
  effect_ok (RScroll r d rt) (fst (xt_scrollrect slrm (v_cols v) r d rt))
            (match snd (xt_scrollrect slrm (v_cols v) r d rt) with [] => true | _ => false end) v
            (vt_run (snd (xt_scrollrect slrm (v_cols v) r d rt)) v) /\
  vt_ok (vt_run (snd (xt_scrollrect slrm (v_cols v) r d rt)) v).
Proof. exact scroll_ok. Qed.
Print Assumptions C09_scroll.

Theorem C09_scroll_fail_silent : forall slrm term_cols r d rt ts,
  xt_scrollrect slrm term_cols r d rt = (false, ts) -> ts = [].
Proof. exact scrollrect_fail_silent. Qed.
Print Assumptions C09_scroll_fail_silent.

(* sequences, by induction: every request that is in range in the state it is issued in
   (and outside the recorded trigger class) has its direct effect and leaves the screen in a
   state in which the next request can be judged; pen changes (which switch the erase
   strategy) are part of the sequences, the tie between the cached pen and the screen's
   rendition is the C10 invariant *)
Theorem C09_sequence_partial : forall qs t v, vt_ok v -> SInv t v -> Forall req_pen_ok qs ->
  seq_ok_excl rv_edge_excl t v qs.
Proof. exact sequence_partial. Qed.
Print Assumptions C09_sequence_partial.

(* FULL statement (false): forall qs t v, vt_ok v -> SInv t v -> Forall req_pen_ok qs -> seq_ok t v qs *)
Theorem C09_sequence_refuted :
  vt_ok rv_edge_witness /\ SInv rv_edge_term rv_edge_witness /\
  ~ seq_ok rv_edge_term rv_edge_witness [RErase 3 MNo].
Proof. exact sequence_refuted. Qed.
Print Assumptions C09_sequence_refuted.

(* the hypotheses hold of the state start() leaves a power-on terminal in *)
Theorem C09_start_state : forall lines cols d, 0 < lines -> 0 < cols ->
  vt_ok (vt_run xt_start (vt_init lines cols)) /\
  SInv (mkTerm d true empty_pen lines cols) (vt_run xt_start (vt_init lines cols)).
Proof. exact start_state_ok. Qed.
Print Assumptions C09_start_state.

(* the oracle's boolean checker decides exactly the proposition the theorems are about *)
Theorem C09_checker : forall q ret silent v v',
  effect_okb q ret silent v v' = true <-> effect_ok q ret silent v v'.
Proof. exact effect_okb_spec. Qed.
Print Assumptions C09_checker.

(* bytes: what the lexer reads back from the rendering of well-formed tokens is those tokens *)
Theorem C09_lex_render : forall ts, Forall wf_token ts -> lex (render ts) = ts.
Proof. exact lex_render. Qed.
Print Assumptions C09_lex_render.

(* ... and the tokens of every in-range request (pen changes included) are well-formed, so the
   VT fed with the rendered BYTES, through the lexer, is in the state the token-level theorems
   describe *)
Theorem C09_bytes : forall t q v t' ret ts, in_range q v -> req_pen_ok q -> pen_in_range (t_pen t) ->
  drv_req t q = Some (t', ret, ts) ->
  Forall wf_token ts /\ vt_run_bytes (render ts) v = vt_run ts v.
Proof. exact req_bytes_wf. Qed.
Print Assumptions C09_bytes.

(* ---- soundness of the ORACLE the correspondence check runs on the implementation's bytes.  For speed the
   extracted walk re-tabulates the grid after every request ([vt_freeze]); stepping commutes with that
   up to agreement on the screen ([vt_equiv]; needs a well-formed screen [vt_wf] and the non-negative
   parameters the lexer always produces), the checkers cannot tell the difference, so the oracle's verdict
   is the verdict of the same walk on the VT specification itself ([spec_walk], no freeze) ... *)
Theorem C09_step_equiv : forall v w t, vt_wf v -> vt_equiv v w -> tok_nonneg t ->
  vt_equiv (vt_step v t) (vt_step w t).
Proof. exact step_equiv. Qed.
Print Assumptions C09_step_equiv.

Theorem C09_freeze_equiv : forall v, vt_equiv v (vt_freeze v).
Proof. exact freeze_equiv_strong. Qed.
Print Assumptions C09_freeze_equiv.

Theorem C09_oracle_sound : forall obs i v w, vt_wf v -> vt_equiv v w ->
  oracle_walk i w obs = spec_walk i v obs.
Proof. exact oracle_walk_sound. Qed.
Print Assumptions C09_oracle_sound.

(* ... and an OK verdict of the driver's actual call (start bytes, test pattern, frozen) says: every
   observation was judged in the state reached by running all earlier bytes through the pure VT, was in
   range there and had the direct effect of its request *)
Theorem C09_oracle_ok : forall L C start obs n, 0 < L -> 0 < C ->
  let v0 := with_pattern (vt_run_bytes start (vt_init L C)) in
  oracle_walk O (vt_freeze v0) obs = VOk n -> walk_ok v0 obs /\ n = length obs.
Proof. exact oracle_start_ok. Qed.
Print Assumptions C09_oracle_ok.

(* ---- the same at the level of the PUBLIC API of term.c (TermApiDefs.v: tickit_term_goto / move /
   print / printn / erasech / clear / scrollrect / setpen / chpen / flush / set_output_buffer as written
   there, with the fix C09-printn-zero-length).  A call is the driver request it stands for *)
Theorem C09_api_step_req : forall t a q, req_of_api a = Some q -> api_args_okb a = true ->
  api_step t a = match drv_req t q with
                 | Some (t', ret, ts) => Some (t', ts, result_of a ret)
                 | None => None
                 end.
Proof. exact api_step_req. Qed.
Print Assumptions C09_api_step_req.

(* sequences of calls, by induction: every drawing / pen call whose request is in range (and outside
   the recorded reverse-video right-edge class, [api_excl]) has the request's direct effect; flush,
   set_output_buffer and getctl write nothing *)
Theorem C09_api_sequence_partial : forall l t v, vt_ok v -> SInv t v -> Forall api_pen_ok l ->
  api_seq_ok t v l.
Proof. exact api_sequence_partial. Qed.
Print Assumptions C09_api_sequence_partial.

(* about the PINNED tree (repaired since): tickit_term_printn forwarded its length unchanged, and
   write_str reads 0 as "use strlen": printn("AB", 0) wrote AB although nothing was requested ... *)
Theorem C09_printn_zero_refuted :
  let v := vt_run xt_start (vt_init 2 5) in
  vt_ok v /\ in_range (RPrint []) v /\ printn_trigger (APrintn [65; 66] 0) = true /\
  exists ts, printn_pinned [65; 66] 0 = Some ts /\
             ~ effect_ok (RPrint []) true (match ts with [] => true | _ => false end) v (vt_run ts v).
Proof. exact printn_zero_refuted. Qed.
Print Assumptions C09_printn_zero_refuted.

(* ... the repaired function writes nothing for length 0 *)
Theorem C09_printn_zero_fixed : forall t str, api_step t (APrintn str 0) = Some (t, [], None).
Proof. exact printn_zero_fixed. Qed.
Print Assumptions C09_printn_zero_fixed.

(* ---- END TO END with C04 (render-buffer flush).  C04_flush_full_reachable says: the terminal operations a
   flush emits (goto / setpen / print / erasech), run on the ABSTRACT grid terminal T0 (RBFlushDefs.t_run),
   leave what the buffer expects (grid_meets).  Here the same operations go through the public API of term.c
   and the xterm driver (api_of_termop, api_run) onto the VT screen, and the result REFINES the abstract run
   cell by cell: every cell the flush wrote ([written w], w = what RBTermSim.paint records) holds on the VT
   screen the glyph of the abstract terminal's cell, rendered with that cell's pen ([wrel]: attributes =
   [rend] of the pen, i.e. C10's rendition [enc] of each of the ten attributes' defaulted reads; for a blank
   erased by ECH: a space on the pen's visible background, which is all ECH leaves; under a reverse-video pen
   the driver prints spaces instead and the blank carries the full rendition); every other cell of the screen
   is untouched on both sides.
   Hypotheses (all explicit): the program's line styles are 1..3 (C04's op_ok); the screen is at least as large as
   the buffer; it has no margins, autowrap on, cursor on it (vt_ok, inside SimInv); the driver's cached pen is the
   converted logical pen and the screen's rendition is the abstract terminal's pen (SimInv; true of the state
   after start(), C04_C09_start); and [termop_okb] of every emitted operation:
   PENS: C19's attribute maps with all ten attributes, each value in the range the SGR model covers
   (TermPenSpec.pen_in_rangeb: colour index -1..255, RGB secondary components 0..255 -- shown as direct colour
   when the driver has the RGB capability [rgb8], by index otherwise --, underline style 0..3 with either
   sub-parameter separator [colon], alternate font -1..9, sizepos 0/2/3: SIZEPOS_SMALL has no SGR; booleans incl.
   REVERSE VIDEO).  TEXT: every printed code point of WIDTH 1 ([uprintable]: cpw c = 1, C07's width --
   printable ASCII, Latin-1, box-drawing line glyphs, any other narrow character up to U+1FFFFF).  The text
   goes to tickit_term_printn as its UTF-8 bytes (RBUtf8Bridge.enc = tickit_utf8_put's bytes) and the screen is
   VT.v behind a UTF-8 print decoder ([vt_run_utf8], VTUtf8.v: runs of graphic bytes are decoded with C07's
   specification decoder Utf8Spec.decode; VT.v then gives every code point one cell).  Outside: wide (cpw = 2)
   and combining (cpw = 0) characters -- VT.v has no width model -- and invalid code points.
   The recorded right-edge finding (reverse video, moveend = NO, ending at the right edge) is excluded
   explicitly and vacuously: C04_C09_flush_not_rv_edge -- no operation of a flush is in the class [api_excl],
   because the flush asks for moveend = YES / MAYBE only. *)
Theorem C04_C09_flush_on_vt : forall L C prog s r colon rgb8 v0 t0 l0 pn0 T0,
  0 <= L -> 0 <= C -> Forall Tickit.RBFlushReach.op_ok prog ->
  Tickit.RBDefs.run (Tickit.RBDefs.rb_new L C) prog = Tickit.RBDefs.Ok (s, r) ->
  SimInv colon rgb8 v0 t0 l0 pn0 -> abs_of v0 pn0 T0 -> L <= v_lines v0 -> C <= v_cols v0 ->
  exists ops T1 w,
    Tickit.RBFlushDefs.flush s = Tickit.RBDefs.Ok (ops, Tickit.RBDefs.reset s) /\
    Tickit.RBFlushDefs.t_run T0 ops = Tickit.RBDefs.Ok T1 /\
    Tickit.RBFlushSpec.grid_meets (Tickit.RBSpec.ag (fst (Tickit.RBSpec.arun (Tickit.RBSpec.a_new L C) prog)))
                                  (Tickit.RBFlushDefs.tg T0) (Tickit.RBFlushDefs.tg T1) = true /\
    (Forall (fun o => termop_okb o = true) ops ->
     exists t1 toks l1 pn1,
       api_run t0 (map api_of_termop ops) = Some (t1, toks) /\
       SimInv colon rgb8 (vt_run_utf8 toks v0) t1 l1 pn1 /\
       forall y x, 0 <= y < v_lines v0 -> 0 <= x < v_cols v0 ->
         if written w (y, x)
         then wrel colon rgb8 (v_grid (vt_run_utf8 toks v0) y x) (Tickit.RBTermSim.tcellat T1 y x)
         else v_grid (vt_run_utf8 toks v0) y x = v_grid v0 y x /\
              Tickit.RBTermSim.tcellat T1 y x = Tickit.RBTermSim.tcellat T0 y x).
Proof. exact flush_on_vt. Qed.
Print Assumptions C04_C09_flush_on_vt.

(* the simulation behind it, for ANY operation list the gridless executor [paint] accepts; [dtoks] is what
   the UTF-8 front end makes of the driver's tokens [toks] (rest = []: utf8_toks toks = dtoks), stated with a
   continuation so that it composes with what is written next *)
Theorem C04_C09_paint_on_vt : forall ops colon rgb8 v t l pn cur w cur' pen',
  SimInv colon rgb8 v t l pn -> cur_rel v cur ->
  Forall (fun o => termop_okb o = true) ops ->
  Tickit.RBTermSim.paint (v_lines v) (v_cols v) cur pn ops = Some (w, cur', pen') ->
  exists t' toks dtoks l',
    api_run t (map api_of_termop ops) = Some (t', toks) /\
    (forall rest, utf8_toks (toks ++ rest) = dtoks ++ utf8_toks rest) /\
    SimInv colon rgb8 (vt_run dtoks v) t' l' pen' /\ cur_rel (vt_run dtoks v) cur' /\
    v_lines (vt_run dtoks v) = v_lines v /\ v_cols (vt_run dtoks v) = v_cols v /\
    cells_rel colon rgb8 w v (vt_run dtoks v).
Proof. exact paint_on_vt. Qed.
Print Assumptions C04_C09_paint_on_vt.

(* the UTF-8 front end: the encoding of code points the decoder accepts is shown as those code points; tokens
   without graphic bytes pass; on ASCII-only output (everything C09's other theorems are about) the encoding is
   the identity *)
Theorem C09_utf8_print : forall u rest, Forall cpok u ->
  utf8_toks (chars (Tickit.RBUtf8Bridge.enc u) ++ rest) = chars u ++ utf8_toks rest.
Proof. exact utf8_print. Qed.
Print Assumptions C09_utf8_print.

Theorem C09_utf8_nochar : forall ts rest, nocharb ts = true -> utf8_toks (ts ++ rest) = ts ++ utf8_toks rest.
Proof. exact utf8_nochar. Qed.
Print Assumptions C09_utf8_nochar.

Theorem C09_utf8_ascii : forall u, Forall (fun c => 0 <= c < 0x80) u -> Tickit.RBUtf8Bridge.enc u = u.
Proof. exact enc_ascii. Qed.
Print Assumptions C09_utf8_ascii.

(* the text class contains printable ASCII, and (by computation over the translated width tables) Latin-1
   and the box-drawing glyphs the render buffer's line cells print *)
Theorem C09_text_class : (forall c, printable c = true -> uprintable c = true) /\
  forallb uprintable [0xA0; 0xE9; 0xFF; 0x2500; 0x2502; 0x250C; 0x253C; 0x256C; 0x2592] = true /\
  forallb (fun c => negb (uprintable c)) [0x1F; 0x7F; 0x9F; 0x301; 0x4E2D; 0xFF21] = true.
Proof. exact text_class. Qed.
Print Assumptions C09_text_class.

Theorem C04_C09_flush_not_rv_edge : forall t v o, api_excl t v (api_of_termop o) = false.
Proof. exact flush_op_not_rv_edge. Qed.
Print Assumptions C04_C09_flush_not_rv_edge.

(* the hypothesis SimInv holds of a fresh driver on the screen start() leaves, with the empty pen *)
Theorem C04_C09_start : forall lines cols d, 0 < lines -> 0 < cols ->
  SimInv (cap_colon (x_caps d)) (cap_rgb8 (x_caps d)) (vt_run xt_start (vt_init lines cols))
         (mkTerm d true empty_pen lines cols) empty_pen Tickit.RBDefs.pen_empty.
Proof. exact sim_start. Qed.
Print Assumptions C04_C09_start.

(* ---- the scroll path end to end (for the window layer).
   C09_scroll_exact: the exact cell-wise effect of every strategy of scrollrect: when the driver accepts,
   each cell of the rectangle holds the cell (d, rt) further on, or -- where that lies outside the rectangle --
   a blank (space, all attributes off, background = the current rendition's a_bg: VT erase semantics, which
   is also what ICH/DCH/IL/DL/SU/SD insert); every other cell, the rendition, the modes and the (reset) margins
   are as before and the cursor is on the screen; when it refuses, nothing is written.
   C09_api_scroll_on_vt: the same for tickit_term_scrollrect through term.c, with the invariant SInv kept.
   C09_win_scroll_on_vt: the window layer's terminal model (WinDefs.term_scroll: grid of glyphs, acceptance
   oracle) with the xterm driver's own acceptance (xt_oracle) as its oracle is simulated by the VT run of the
   driver's tokens: the result code is the oracle's answer, glyph_rel (window-layer grid = glyphs of the VT
   screen, cell by cell on the screen) is preserved, together with vt_ok / SInv / rendition / modes, so the
   lemma can be iterated and interleaved with C04_C09_paint_on_vt.
   Hypotheses: vt_ok (margins reset, cursor on screen, DECAWM on), SInv (sizes agree, DECLRMM set when the
   driver believes so -- true after start() by C09_start_state), and scroll_req_ok: a non-empty rectangle
   inside the screen moved by less than its size in each direction (what window.c asks after clipping;
   larger moves never reach the terminal).  No pen hypothesis is needed. *)
Theorem C09_scroll_exact : forall v slrm r d rt, vt_ok v -> in_range (RScroll r d rt) v ->
  (slrm = true -> md_lrmm (v_md v) = true) ->
  scroll_res (fst (xt_scrollrect slrm (v_cols v) r d rt)) (snd (xt_scrollrect slrm (v_cols v) r d rt)) v r d rt.
Proof. exact scroll_exact. Qed.
Print Assumptions C09_scroll_exact.

Theorem C09_api_scroll_on_vt : forall t v r d rt, vt_ok v -> SInv t v -> in_range (RScroll r d rt) v ->
  exists ok ts,
    xt_scrollrect (cap_slrm (x_caps (t_drv t))) (t_cols t) r d rt = (ok, ts) /\
    api_step t (AScrollrect r d rt) = Some (t, ts, Some (if ok then 1 else 0)) /\
    (if ok
     then let v' := vt_run ts v in
          vt_ok v' /\ SInv t v' /\ v_sgr v' = v_sgr v /\ v_md v' = v_md v /\
          (forall y x, v_grid v' y x = shifted_grid v r d rt y x)
     else ts = []).
Proof. exact api_scroll_on_vt. Qed.
Print Assumptions C09_api_scroll_on_vt.

Theorem C09_win_scroll_on_vt : forall t v tm r d rt,
  vt_ok v -> SInv t v -> glyph_rel tm v ->
  Tickit.WinDefs.t_oracle tm = xt_oracle (cap_slrm (x_caps (t_drv t))) ->
  scroll_req_ok tm r d rt ->
  exists ts,
    api_step t (AScrollrect (conv r) d rt) =
      Some (t, ts, Some (if snd (Tickit.WinDefs.term_scroll tm r d rt) then 1 else 0)) /\
    (snd (Tickit.WinDefs.term_scroll tm r d rt) = false -> ts = []) /\
    vt_ok (vt_run ts v) /\ SInv t (vt_run ts v) /\
    v_sgr (vt_run ts v) = v_sgr v /\ v_md (vt_run ts v) = v_md v /\
    glyph_rel (fst (Tickit.WinDefs.term_scroll tm r d rt)) (vt_run ts v) /\
    Tickit.WinDefs.t_oracle (fst (Tickit.WinDefs.term_scroll tm r d rt)) = Tickit.WinDefs.t_oracle tm /\
    (snd (Tickit.WinDefs.term_scroll tm r d rt) = true ->
     forall y x, v_grid (vt_run ts v) y x = shifted_grid v (conv r) d rt y x).
Proof. exact win_scroll_on_vt. Qed.
Print Assumptions C09_win_scroll_on_vt.

(* non-vacuity: a 4x5 patterned screen, a DECSLRM-capable driver; scrolling the 2x3 rectangle
   at (1,1) by (1,-1) is in range, succeeds with a non-empty token list, and the cell at (1,2)
   afterwards is the one that was at (2,1) *)
Example C09_nonvacuous :
  let v := with_pattern (vt_run xt_start (vt_init 4 5)) in
  let r := mkRect 1 1 2 3 in
  vt_ok v /\ in_range (RScroll r 1 (-1)) v /\
  fst (xt_scrollrect true 5 r 1 (-1)) = true /\
  length (snd (xt_scrollrect true 5 r 1 (-1))) = 7%nat /\
  c_glyph (v_grid (vt_run (snd (xt_scrollrect true 5 r 1 (-1))) v) 1 2) = c_glyph (v_grid v 2 1).
Proof. vm_compute. repeat split; reflexivity. Qed.

(* non-vacuity of C09_win_scroll_on_vt: its hypotheses hold for a DECSLRM-capable driver after start(),
   the request is accepted, a vacated cell becomes a blank and a kept one the shifted cell *)
Example C09_win_scroll_nonvacuous :
  let v := vt_run xt_start (vt_init 4 5) in
  let t := mkTerm slrm_drv true empty_pen 4 5 in
  let tm := Tickit.WinDefs.term_set_grid (Tickit.WinDefs.term_new 4 5 (xt_oracle (cap_slrm (x_caps slrm_drv))))
                             (fun q => c_glyph (v_grid v (fst q) (snd q))) in
  let r := Tickit.RectDefs.mkRect 1 1 2 3 in
  vt_ok v /\ SInv t v /\ glyph_rel tm v /\ scroll_req_ok tm r 1 (-1) /\
  snd (Tickit.WinDefs.term_scroll tm r 1 (-1)) = true /\
  shifted_grid v (conv r) 1 (-1) 2 1 = blank_cell (v_sgr v) /\
  shifted_grid v (conv r) 1 (-1) 1 2 = v_grid v 2 1.
Proof. exact win_scroll_example. Qed.

(* non-vacuity of the pen class of C04_C09_flush_on_vt: reverse video, RGB secondary, curly underline *)
Example C04_C09_pen_class_nonvacuous :
  rbpen_okb rv_rgb_pen = true /\ a_reverse (rend true true rv_rgb_pen) = true /\
  a_fg (rend true true rv_rgb_pen) = CRgb 10 20 30 /\ a_fg (rend true false rv_rgb_pen) = CIdx 3 /\
  a_under (rend true true rv_rgb_pen) = 3 /\ a_under (rend false true rv_rgb_pen) = 1.
Proof. exact rv_pen_example. Qed.

(* non-vacuity of the UTF-8 front end *)
Example C09_utf8_nonvacuous :
  Tickit.RBUtf8Bridge.enc [0xE9; 0x2500] = [0xC3; 0xA9; 0xE2; 0x94; 0x80] /\
  utf8_toks (csi_0 72 :: chars [0xC3; 0xA9; 0xE2; 0x94; 0x80] ++ [csi_0 75]) = csi_0 72 :: chars [0xE9; 0x2500] ++ [csi_0 75] /\
  utf8_toks (chars [0x41; 0xA9]) = chars [0x41; 0xFFFD].
Proof. exact utf8_example. Qed.
