(* RBLemmas.v -- basic lemmas about rows (mapi / get / upd), the well-formedness invariant of
   a row of spans, and the core of the make_span proof at the level of cell functions. *)
From Coq Require Import ZArith List Bool Lia.
From Tickit Require Import RectDefs RBDefs RBSpec.
Import ListNotations.
Local Open Scope Z_scope.

(* ---------------------------------------------------------------------------------- *)
(* mapi *)

Lemma mapi_from_length : forall {A B} (f : Z -> A -> B) r i, length (mapi_from i f r) = length r.
Proof. induction r as [|c t IH]; intros i; cbn [mapi_from length]; [reflexivity | now rewrite IH]. Qed.

Lemma mapi_length : forall {A B} (f : Z -> A -> B) r, length (mapi f r) = length r.
Proof. intros. apply mapi_from_length. Qed.

Lemma nth_mapi_from : forall {A B} (f : Z -> A -> B) r i k d d',
  (k < length r)%nat -> nth k (mapi_from i f r) d' = f (i + Z.of_nat k) (nth k r d).
Proof.
  induction r as [|c t IH]; intros i k d d' Hk; cbn [length] in Hk; [lia|].
  destruct k as [|k]; cbn [mapi_from nth].
  - f_equal. lia.
  - rewrite (IH (i + 1) k d d') by lia. f_equal. lia.
Qed.

Lemma nth_mapi : forall {A B} (f : Z -> A -> B) r k d d',
  (k < length r)%nat -> nth k (mapi f r) d' = f (Z.of_nat k) (nth k r d).
Proof. intros. unfold mapi. rewrite (nth_mapi_from f r 0 k d d') by assumption. reflexivity. Qed.

Lemma len_mapi : forall (f : Z -> rbcell -> rbcell) r, len (mapi f r) = len r.
Proof. intros. unfold len. now rewrite mapi_length. Qed.

Lemma len_nonneg : forall r, 0 <= len r.
Proof. intros. unfold len. lia. Qed.

Lemma get_mapi : forall (f : Z -> rbcell -> rbcell) r i,
  0 <= i < len r -> get (mapi f r) i = f i (get r i).
Proof.
  intros f r i Hi. unfold get, len in *.
  rewrite (nth_mapi f r (Z.to_nat i) dcell dcell) by lia.
  now rewrite Z2Nat.id by lia.
Qed.

Lemma len_upd : forall r k c, len (upd r k c) = len r.
Proof. intros. unfold upd. apply len_mapi. Qed.

Lemma get_upd : forall r k c i, 0 <= i < len r -> get (upd r k c) i = if i =? k then c else get r i.
Proof. intros. unfold upd. now rewrite get_mapi. Qed.

Lemma getr_ok : forall r i, 0 <= i < len r -> getr r i = Ok (get r i).
Proof.
  intros r i Hi. unfold getr, inb.
  destruct (0 <=? i) eqn:E1; destruct (i <? len r) eqn:E2; cbn [andb]; try reflexivity; lia.
Qed.

(* ---------------------------------------------------------------------------------- *)
(* well-formed rows, stated for a cell function [g] and a length [L] so that the core lemma
   needs no lists *)

Definition wf_cellf (g : Z -> rbcell) (L i : Z) : Prop :=
  match ck (g i) with
  | Start c n =>
      1 <= n /\ i + n <= L /\ (single_cell c = true -> n = 1) /\
      forall j, i < j < i + n -> ck (g j) = Cont i
  | Cont sc =>
      0 <= sc < i /\ exists c n, ck (g sc) = Start c n /\ i < sc + n
  end.

Definition WFf (g : Z -> rbcell) (L : Z) : Prop := forall i, 0 <= i < L -> wf_cellf g L i.

Definition WF (r : row) : Prop := WFf (get r) (len r).

Definition abs_cellf (g : Z -> rbcell) (i : Z) : cellc :=
  match ck (g i) with
  | Start c _ => content_at c 0
  | Cont sc =>
      match ck (g sc) with
      | Start c _ => content_at c (i - sc)
      | Cont _ => ASkip
      end
  end.

Lemma abs_cell_f : forall r i, abs_cell r i = abs_cellf (get r) i.
Proof. reflexivity. Qed.

(* spans do not overlap: a start strictly inside another start's span is impossible *)
Lemma start_not_inside : forall g L i c n j c' n',
  WFf g L -> 0 <= i < L -> ck (g i) = Start c n -> i < j < i + n -> ck (g j) = Start c' n' -> False.
Proof.
  intros g L i c n j c' n' W Hi Ei Hj Ej.
  specialize (W i Hi). unfold wf_cellf in W. rewrite Ei in W.
  destruct W as (_ & _ & _ & Hc). rewrite (Hc j Hj) in Ej. discriminate.
Qed.

Lemma split_content_not_single : forall c k c', split_content c k = Some c' -> single_cell c = false /\ single_cell c' = false.
Proof. intros c k c' H. destruct c; cbn in H; inversion H; subst; cbn; auto. Qed.

Lemma split_content_some : forall c k, single_cell c = false -> exists c', split_content c k = Some c'.
Proof. intros c k H. destruct c; cbn in *; try discriminate; eauto. Qed.

Lemma content_at_split : forall c k c' j, split_content c k = Some c' -> content_at c' j = content_at c (k + j).
Proof.
  intros c k c' j H. destruct c; cbn in H; inversion H; subst; cbn; try reflexivity.
  f_equal. lia.
Qed.

(* ---------------------------------------------------------------------------------- *)
(* the cell function after make_span, given what its two halves found:
   A = Some (ss, sl, c')  the cell at e = col + n was a continuation of the span (ss, sl) whose
                          content from e on is c'
   B = Some (bs, cb)      the cell at col was a continuation of the span starting at bs with
                          content cb *)

Definition ms_tail (g : Z -> rbcell) (e : Z) (A : option (Z * Z * content)) (i : Z) : rbcell :=
  match A with
  | Some (ss, sl, c') =>
      if i =? e then mkCell (Start c' (ss + sl - e)) (cmask (g i))
      else if (e <? i) && (i <? ss + sl) then mkCell (Cont e) (cmask (g i))
      else g i
  | None => g i
  end.

Definition ms_fun (g : Z -> rbcell) (col n : Z) (X : content)
           (A : option (Z * Z * content)) (B : option (Z * content)) (i : Z) : rbcell :=
  let e := col + n in
  if i =? col then mkCell (Start X n) (-1)
  else if (col <? i) && (i <? e) then mkCell (Cont col) (-1)
  else match B with
       | Some (bs, cb) => if i =? bs then mkCell (Start cb (col - bs)) (cmask (g i)) else ms_tail g e A i
       | None => ms_tail g e A i
       end.

Definition A_ok (g : Z -> rbcell) (L e : Z) (A : option (Z * Z * content)) : Prop :=
  match A with
  | Some (ss, sl, c') => e < L /\ ck (g e) = Cont ss /\ exists c, ck (g ss) = Start c sl /\ split_content c (e - ss) = Some c'
  | None => e >= L \/ exists c k, ck (g e) = Start c k
  end.

Definition B_ok (g : Z -> rbcell) (col : Z) (B : option (Z * content)) : Prop :=
  match B with
  | Some (bs, cb) => ck (g col) = Cont bs /\ exists nb, ck (g bs) = Start cb nb
  | None => exists c k, ck (g col) = Start c k
  end.

Section MakeSpanCore.
  Variables (g : Z -> rbcell) (L col n : Z) (X : content)
            (A : option (Z * Z * content)) (B : option (Z * content)).
  Hypothesis W : WFf g L.
  Hypothesis Hcol : 0 <= col.
  Hypothesis Hn : 1 <= n.
  Hypothesis Hend : col + n <= L.
  Hypothesis HX : single_cell X = true -> n = 1.
  Hypothesis HA : A_ok g L (col + n) A.
  Hypothesis HB : B_ok g col B.

  Let e := col + n.
  Let g' := ms_fun g col n X A B.

  (* facts about the span found at e *)
  Lemma A_facts : forall ss sl c', A = Some (ss, sl, c') ->
    0 <= ss /\ ss < e /\ e < ss + sl /\ ss + sl <= L /\
    (forall j, ss < j < ss + sl -> ck (g j) = Cont ss) /\
    exists c, ck (g ss) = Start c sl /\ split_content c (e - ss) = Some c'.
  Proof.
    intros ss sl c' EA. unfold A_ok in HA. rewrite EA in HA.
    destruct HA as (HeL & He & c & Hss & Hsp).
    assert (We := W e ltac:(unfold e; lia)). unfold wf_cellf in We. fold e in He. rewrite He in We.
    destruct We as (Hss0 & c0 & n0 & Hss' & Hlt). rewrite Hss in Hss'. inversion Hss'; subst c0 n0.
    assert (Ws := W ss ltac:(lia)). unfold wf_cellf in Ws. rewrite Hss in Ws.
    destruct Ws as (H1 & H2 & _ & H4).
    repeat split; try lia; auto. exists c. auto.
  Qed.

  Lemma A_cont : forall ss sl c', A = Some (ss, sl, c') -> ck (g e) = Cont ss.
  Proof.
    intros ss sl c' EA. unfold A_ok in HA. rewrite EA in HA. destruct HA as (_ & He & _). exact He.
  Qed.

  Lemma B_facts : forall bs cb, B = Some (bs, cb) ->
    0 <= bs /\ bs < col /\ exists nb, ck (g bs) = Start cb nb /\ col < bs + nb /\ bs + nb <= L /\
      single_cell cb = false /\ (forall j, bs < j < bs + nb -> ck (g j) = Cont bs).
  Proof.
    intros bs cb EB. unfold B_ok in HB. rewrite EB in HB. destruct HB as (Hc & nb & Hbs).
    assert (Wc := W col ltac:(lia)). unfold wf_cellf in Wc. rewrite Hc in Wc.
    destruct Wc as (Hb0 & c0 & n0 & Hbs' & Hlt). rewrite Hbs in Hbs'. inversion Hbs'; subst c0 n0.
    assert (Wb := W bs ltac:(lia)). unfold wf_cellf in Wb. rewrite Hbs in Wb.
    destruct Wb as (H1 & H2 & H3 & H4).
    repeat split; try lia. exists nb. repeat split; auto; try lia.
    destruct (single_cell cb) eqn:Es; [|reflexivity]. specialize (H3 eq_refl). lia.
  Qed.

  (* with both: either the same span, or the B span ends before the A span begins *)
  Lemma AB_order : forall ss sl c' bs cb, A = Some (ss, sl, c') -> B = Some (bs, cb) ->
    bs = ss \/ (exists nb, ck (g bs) = Start cb nb /\ bs + nb <= ss).
  Proof.
    intros ss sl c' bs cb EA EB.
    destruct (A_facts _ _ _ EA) as (Hs0 & Hs1 & Hs2 & Hs3 & HsC & c & Hss & Hsp).
    destruct (B_facts _ _ EB) as (Hb0 & Hb1 & nb & Hbs & Hb2 & Hb3 & Hb4 & HbC).
    destruct (Z.eq_dec bs ss) as [|Hne]; [left; assumption|right].
    exists nb. split; [assumption|].
    destruct (Z_lt_le_dec ss bs) as [Hlt|Hle].
    - (* bs is strictly inside the A span: it would be a continuation *)
      exfalso. assert (Hc : ck (g bs) = Cont ss) by (apply HsC; unfold e in *; lia).
      rewrite Hbs in Hc. discriminate.
    - destruct (Z_lt_le_dec ss (bs + nb)) as [Hin|]; [|lia].
      exfalso. assert (Hc : ck (g ss) = Cont bs) by (apply HbC; lia).
      rewrite Hss in Hc. discriminate.
  Qed.

  (* a start left of col whose span reaches beyond col is the B span *)
  Lemma start_left_of_col : forall i c k, 0 <= i < col -> ck (g i) = Start c k -> col < i + k ->
    exists cb, B = Some (i, cb).
  Proof.
    intros i c k Hi Ei Hk.
    assert (Wi := W i ltac:(lia)). unfold wf_cellf in Wi. rewrite Ei in Wi. destruct Wi as (_ & _ & _ & HC).
    assert (Ec : ck (g col) = Cont i) by (apply HC; lia).
    unfold B_ok in HB. destruct B as [[bs cb]|].
    - destruct HB as (Hc & _). rewrite Ec in Hc. inversion Hc; subst. eauto.
    - destruct HB as (c0 & k0 & Hc). rewrite Ec in Hc. discriminate.
  Qed.

  (* a start left of e whose span reaches beyond e is the A span *)
  Lemma start_left_of_e : forall i c k, 0 <= i < e -> ck (g i) = Start c k -> e < i + k ->
    exists c', A = Some (i, k, c').
  Proof.
    intros i c k Hi Ei Hk.
    assert (Wi := W i ltac:(unfold e in *; lia)). unfold wf_cellf in Wi. rewrite Ei in Wi.
    destruct Wi as (_ & HL & _ & HC).
    assert (Ec : ck (g e) = Cont i) by (apply HC; lia).
    unfold A_ok in HA. fold e in HA. destruct A as [[[ss sl] c']|].
    - destruct HA as (_ & He & c0 & Hss & _). rewrite Ec in He. inversion He; subst ss.
      rewrite Ei in Hss. inversion Hss; subst. eauto.
    - destruct HA as [HeL | (c0 & k0 & He)]; [lia|]. rewrite Ec in He. discriminate.
  Qed.

  Ltac dz := repeat match goal with
    | |- context [?a =? ?b] => destruct (Z.eqb_spec a b)
    | |- context [?a <? ?b] => destruct (Z.ltb_spec a b)
    end; cbn [andb].

  (* the value of g' outside the rewritten ranges *)
  Lemma g'_new_start : g' col = mkCell (Start X n) (-1).
  Proof. unfold g', ms_fun. now rewrite Z.eqb_refl. Qed.

  Lemma g'_new_cont : forall i, col < i < e -> g' i = mkCell (Cont col) (-1).
  Proof.
    intros i Hi. unfold g', ms_fun. fold e.
    destruct (Z.eqb_spec i col); [lia|].
    destruct (Z.ltb_spec col i); destruct (Z.ltb_spec i e); cbn [andb]; try lia. reflexivity.
  Qed.

  Lemma g'_left : forall i, 0 <= i < col -> (forall cb, B <> Some (i, cb)) -> g' i = g i.
  Proof.
    intros i Hi HnB. unfold g', ms_fun. fold e.
    destruct (Z.eqb_spec i col); [lia|].
    destruct (Z.ltb_spec col i); cbn [andb]; [lia|].
    assert (T : ms_tail g e A i = g i).
    { unfold ms_tail. remember A as A0 eqn:EA in |- *; symmetry in EA; destruct A0 as [[[ss sl] c']|]; [|reflexivity].
      destruct (Z.eqb_spec i e); [unfold e in *; lia|].
      destruct (Z.ltb_spec e i); cbn [andb]; [unfold e in *; lia|reflexivity]. }
    destruct B as [[bs cb]|]; [|exact T].
    destruct (Z.eqb_spec i bs); [subst; exfalso; eapply HnB; reflexivity|exact T].
  Qed.

  Lemma g'_B : forall bs cb, B = Some (bs, cb) -> g' bs = mkCell (Start cb (col - bs)) (cmask (g bs)).
  Proof.
    intros bs cb EB. destruct (B_facts _ _ EB) as (Hb0 & Hb1 & _).
    unfold g', ms_fun. fold e. rewrite EB.
    destruct (Z.eqb_spec bs col); [lia|].
    destruct (Z.ltb_spec col bs); cbn [andb]; [lia|].
    now rewrite Z.eqb_refl.
  Qed.

  Lemma g'_right : forall i, e <= i -> g' i = ms_tail g e A i.
  Proof.
    intros i Hi. unfold g', ms_fun. fold e.
    destruct (Z.eqb_spec i col); [unfold e in *; lia|].
    destruct (Z.ltb_spec col i); destruct (Z.ltb_spec i e); cbn [andb]; try (unfold e in *; lia).
    remember B as B0 eqn:EB in |- *; symmetry in EB; destruct B0 as [[bs cb]|]; [|reflexivity].
    destruct (B_facts _ _ EB) as (Hb0 & Hb1 & _).
    destruct (Z.eqb_spec i bs); [unfold e in *; lia|reflexivity].
  Qed.

  Lemma tail_outside : forall i, e <= i ->
    (forall ss sl c', A = Some (ss, sl, c') -> ss + sl <= i) -> ms_tail g e A i = g i.
  Proof.
    intros i Hi HA'. unfold ms_tail. remember A as A0 eqn:EA in |- *; symmetry in EA; destruct A0 as [[[ss sl] c']|]; [|reflexivity].
    specialize (HA' _ _ _ EA). destruct (A_facts _ _ _ EA) as (? & ? & ? & _).
    destruct (Z.eqb_spec i e); [lia|].
    destruct (Z.ltb_spec e i); destruct (Z.ltb_spec i (ss + sl)); cbn [andb]; try lia; reflexivity.
  Qed.

  (* ------------------------------------------------------------------------------ *)
  Theorem ms_wf : WFf g' L.
  Proof.
    intros i Hi.
    destruct (Z_lt_le_dec i col) as [Hl|Hge].
    - (* left of the new span *)
      destruct (ck (g i)) as [c k|sc] eqn:Ei.
      + (* a start *)
        assert (Wi := W i Hi). unfold wf_cellf in Wi. rewrite Ei in Wi. destruct Wi as (K1 & K2 & K3 & K4).
        destruct (Z_lt_le_dec col (i + k)) as [Hover|Hfit].
        * (* it is the B span: shortened *)
          destruct (start_left_of_col i c k ltac:(lia) Ei Hover) as (cb & EB).
          destruct (B_facts _ _ EB) as (Hb0 & Hb1 & nb & Hbs & Hb2 & Hb3 & Hb4 & HbC).
          unfold wf_cellf. rewrite (g'_B _ _ EB). cbn [ck].
          repeat split; try lia.
          -- intros Hs. rewrite Hs in Hb4. discriminate.
          -- intros j Hj. rewrite g'_left; [apply HbC; lia|lia|].
             intros cb' EB'. rewrite EB in EB'. inversion EB'; lia.
        * (* entirely left: untouched *)
          assert (NB : forall cb, B <> Some (i, cb)).
          { intros cb EB. destruct (B_facts _ _ EB) as (_ & _ & nb & Hbs & Hb2 & _).
            rewrite Ei in Hbs. inversion Hbs; subst. lia. }
          unfold wf_cellf. rewrite (g'_left i ltac:(lia) NB). rewrite Ei.
          repeat split; auto.
          intros j Hj. rewrite g'_left; [apply K4; lia|lia|].
          intros cb EB. destruct (B_facts _ _ EB) as (_ & _ & nb & Hbs & _).
          rewrite (K4 j Hj) in Hbs. discriminate.
      + (* a continuation *)
        assert (Wi := W i Hi). unfold wf_cellf in Wi. rewrite Ei in Wi.
        destruct Wi as (K1 & c & k & Hsc & K2).
        assert (NB : forall cb, B <> Some (i, cb)).
        { intros cb EB. destruct (B_facts _ _ EB) as (_ & _ & nb & Hbs & _). rewrite Ei in Hbs. discriminate. }
        unfold wf_cellf. rewrite (g'_left i ltac:(lia) NB). rewrite Ei.
        split; [lia|].
        destruct (Z_lt_le_dec col (sc + k)) as [Hover|Hfit].
        * destruct (start_left_of_col sc c k ltac:(lia) Hsc Hover) as (cb & EB).
          rewrite (g'_B _ _ EB). cbn [ck]. exists cb, (col - sc). split; [reflexivity|lia].
        * assert (NBs : forall cb, B <> Some (sc, cb)).
          { intros cb EB. destruct (B_facts _ _ EB) as (_ & _ & nb & Hbs & Hb2 & _).
            rewrite Hsc in Hbs. inversion Hbs; subst. lia. }
          rewrite (g'_left sc ltac:(lia) NBs). exists c, k. split; [assumption|lia].
    - destruct (Z_lt_le_dec i e) as [Hin|Hr].
      + (* inside the new span *)
        destruct (Z.eq_dec i col) as [->|Hne].
        * unfold wf_cellf. rewrite g'_new_start. cbn [ck].
          repeat split; try (unfold e in *; lia); auto.
          intros j Hj. rewrite g'_new_cont by (unfold e; lia). reflexivity.
        * unfold wf_cellf. rewrite g'_new_cont by lia. cbn [ck].
          split; [lia|]. exists X, n. rewrite g'_new_start. split; [reflexivity|unfold e in *; lia].
      + (* right of the new span *)
        unfold wf_cellf. rewrite (g'_right i Hr).
        remember A as A0 eqn:EA in |- *; symmetry in EA; destruct A0 as [[[ss sl] c']|].
        * destruct (A_facts _ _ _ EA) as (Hs0 & Hs1 & Hs2 & Hs3 & HsC & c & Hss & Hsp).
          destruct (split_content_not_single _ _ _ Hsp) as (Hns & Hns').
          unfold ms_tail.
          destruct (Z.eqb_spec i e) as [->|Hne].
          -- (* the promoted cell *)
             cbn [ck]. repeat split; try lia.
             ++ intros Hs. rewrite Hs in Hns'. discriminate.
             ++ intros j Hj. rewrite g'_right by lia. rewrite ?EA. cbn [ms_tail].
                destruct (Z.eqb_spec j e); [lia|].
                destruct (Z.ltb_spec e j); destruct (Z.ltb_spec j (ss + sl)); cbn [andb]; try lia. reflexivity.
          -- destruct (Z.ltb_spec e i); destruct (Z.ltb_spec i (ss + sl)); cbn [andb]; try lia.
             ++ (* re-pointed continuation *)
                cbn [ck]. split; [lia|]. exists c', (ss + sl - e).
                rewrite g'_right by lia. rewrite ?EA. cbn [ms_tail]. rewrite Z.eqb_refl. cbn [ck]. split; [reflexivity|lia].
             ++ (* beyond the A span: untouched *)
                assert (Wi := W i Hi). unfold wf_cellf in Wi.
                destruct (ck (g i)) as [c0 k|sc] eqn:Ei.
                ** destruct Wi as (K1 & K2 & K3 & K4). repeat split; auto.
                   intros j Hj. rewrite g'_right by lia. rewrite ?EA. cbn [ms_tail].
                   destruct (Z.eqb_spec j e); [lia|].
                   destruct (Z.ltb_spec e j); destruct (Z.ltb_spec j (ss + sl)); cbn [andb]; try lia; apply K4; lia.
                ** destruct Wi as (K1 & c0 & k & Hsc & K2). split; [lia|].
                   (* where is sc?  not left of ss+sl, or i would be inside the A span *)
                   destruct (Z_lt_le_dec sc (ss + sl)) as [Hlt|Hge'].
                   --- exfalso.
                       destruct (Z.eq_dec sc ss) as [->|Hn2].
                       +++ rewrite Hss in Hsc. inversion Hsc; subst. lia.
                       +++ destruct (Z_lt_le_dec ss sc).
                           *** assert (Hc : ck (g sc) = Cont ss) by (apply HsC; lia). rewrite Hsc in Hc. discriminate.
                           *** assert (Wsc := W sc ltac:(lia)). unfold wf_cellf in Wsc. rewrite Hsc in Wsc.
                               destruct Wsc as (_ & _ & _ & HC). assert (Hc : ck (g ss) = Cont sc) by (apply HC; lia).
                               rewrite Hss in Hc. discriminate.
                   --- rewrite g'_right by lia. rewrite ?EA. cbn [ms_tail].
                       destruct (Z.eqb_spec sc e); [lia|].
                       destruct (Z.ltb_spec e sc); destruct (Z.ltb_spec sc (ss + sl)); cbn [andb]; try lia;
                         exists c0, k; split; auto.
        * (* nothing was split at e *)
          cbn [ms_tail].
          assert (Wi := W i Hi). unfold wf_cellf in Wi.
          destruct (ck (g i)) as [c0 k|sc] eqn:Ei.
          -- destruct Wi as (K1 & K2 & K3 & K4). repeat split; auto.
             intros j Hj. rewrite g'_right by lia. rewrite ?EA. cbn [ms_tail]. apply K4; lia.
          -- destruct Wi as (K1 & c0 & k & Hsc & K2). split; [lia|].
             destruct (Z_lt_le_dec sc e) as [Hlt|Hge'].
             ++ exfalso. destruct (start_left_of_e sc c0 k ltac:(lia) Hsc ltac:(lia)) as (c' & EA'). congruence.
             ++ rewrite g'_right by lia. rewrite ?EA. cbn [ms_tail]. exists c0, k. split; auto.
  Qed.

  (* ------------------------------------------------------------------------------ *)
  Theorem ms_abs : forall i, 0 <= i < L ->
    abs_cellf g' i = if (col <=? i) && (i <? col + n) then content_at X (i - col) else abs_cellf g i.
  Proof.
    intros i Hi. fold e.
    destruct (Z.leb_spec col i) as [Hge|Hl]; cbn [andb].
    - destruct (Z.ltb_spec i e) as [Hin|Hr]; cbn [andb].
      + (* inside *)
        unfold abs_cellf.
        destruct (Z.eq_dec i col) as [->|Hne].
        * rewrite g'_new_start. cbn [ck]. now rewrite Z.sub_diag.
        * rewrite g'_new_cont by lia. cbn [ck]. rewrite g'_new_start. cbn [ck]. reflexivity.
      + (* right *)
        unfold abs_cellf. rewrite (g'_right i Hr).
        remember A as A0 eqn:EA in |- *; symmetry in EA; destruct A0 as [[[ss sl] c']|].
        * destruct (A_facts _ _ _ EA) as (Hs0 & Hs1 & Hs2 & Hs3 & HsC & c & Hss & Hsp).
          unfold ms_tail.
          destruct (Z.eqb_spec i e) as [->|Hne].
          -- cbn [ck]. rewrite (A_cont _ _ _ EA), Hss.
             rewrite (content_at_split _ _ _ 0 Hsp). f_equal. lia.
          -- destruct (Z.ltb_spec e i); destruct (Z.ltb_spec i (ss + sl)); cbn [andb]; try lia.
             ++ cbn [ck]. rewrite g'_right by lia. rewrite ?EA. cbn [ms_tail]. rewrite Z.eqb_refl. cbn [ck].
                rewrite (HsC i ltac:(lia)), Hss.
                rewrite (content_at_split _ _ _ (i - e) Hsp). f_equal. lia.
             ++ destruct (ck (g i)) as [c0 k|sc] eqn:Ei; [reflexivity|].
                assert (Wi := W i Hi). unfold wf_cellf in Wi. rewrite Ei in Wi.
                destruct Wi as (K1 & c0 & k & Hsc & K2).
                destruct (Z_lt_le_dec sc (ss + sl)) as [Hlt|Hge'].
                ** exfalso.
                   destruct (Z.eq_dec sc ss) as [->|Hn2].
                   --- rewrite Hss in Hsc. inversion Hsc; subst. lia.
                   --- destruct (Z_lt_le_dec ss sc).
                       +++ assert (Hc : ck (g sc) = Cont ss) by (apply HsC; lia). rewrite Hsc in Hc. discriminate.
                       +++ assert (Wsc := W sc ltac:(lia)). unfold wf_cellf in Wsc. rewrite Hsc in Wsc.
                           destruct Wsc as (_ & _ & _ & HC). assert (Hc : ck (g ss) = Cont sc) by (apply HC; lia).
                           rewrite Hss in Hc. discriminate.
                ** rewrite g'_right by lia. rewrite ?EA. cbn [ms_tail].
                   destruct (Z.eqb_spec sc e); [lia|].
                   destruct (Z.ltb_spec e sc); destruct (Z.ltb_spec sc (ss + sl)); cbn [andb]; try lia; reflexivity.
        * cbn [ms_tail].
          destruct (ck (g i)) as [c0 k|sc] eqn:Ei; [reflexivity|].
          assert (Wi := W i Hi). unfold wf_cellf in Wi. rewrite Ei in Wi.
          destruct Wi as (K1 & c0 & k & Hsc & K2).
          destruct (Z_lt_le_dec sc e) as [Hlt|Hge'].
          -- exfalso. destruct (start_left_of_e sc c0 k ltac:(lia) Hsc ltac:(lia)) as (c' & EA'). congruence.
          -- rewrite g'_right by lia. rewrite ?EA. cbn [ms_tail]. reflexivity.
    - (* left *)
      unfold abs_cellf.
      destruct (ck (g i)) as [c k|sc] eqn:Ei.
      + destruct (Z_lt_le_dec col (i + k)) as [Hover|Hfit].
        * destruct (start_left_of_col i c k ltac:(lia) Ei Hover) as (cb & EB).
          rewrite (g'_B _ _ EB). cbn [ck].
          destruct (B_facts _ _ EB) as (_ & _ & nb & Hbs & _). rewrite Ei in Hbs. inversion Hbs; subst. reflexivity.
        * assert (NB : forall cb, B <> Some (i, cb)).
          { intros cb EB. destruct (B_facts _ _ EB) as (_ & _ & nb & Hbs & Hb2 & _).
            rewrite Ei in Hbs. inversion Hbs; subst. lia. }
          rewrite (g'_left i ltac:(lia) NB). now rewrite Ei.
      + assert (Wi := W i Hi). unfold wf_cellf in Wi. rewrite Ei in Wi.
        destruct Wi as (K1 & c & k & Hsc & K2).
        assert (NB : forall cb, B <> Some (i, cb)).
        { intros cb EB. destruct (B_facts _ _ EB) as (_ & _ & nb & Hbs & _). rewrite Ei in Hbs. discriminate. }
        rewrite (g'_left i ltac:(lia) NB). rewrite Ei.
        destruct (Z_lt_le_dec col (sc + k)) as [Hover|Hfit].
        * destruct (start_left_of_col sc c k ltac:(lia) Hsc Hover) as (cb & EB).
          rewrite (g'_B _ _ EB). cbn [ck].
          destruct (B_facts _ _ EB) as (_ & _ & nb & Hbs & _). rewrite Hsc in Hbs. inversion Hbs; subst.
          now rewrite Hsc.
        * assert (NBs : forall cb, B <> Some (sc, cb)).
          { intros cb EB. destruct (B_facts _ _ EB) as (_ & _ & nb & Hbs & Hb2 & _).
            rewrite Hsc in Hbs. inversion Hbs; subst. lia. }
          rewrite (g'_left sc ltac:(lia) NBs). reflexivity.
  Qed.

  Theorem ms_mask : forall i, 0 <= i < L ->
    cmask (g' i) = if (col <=? i) && (i <? col + n) then -1 else cmask (g i).
  Proof.
    intros i Hi. unfold g', ms_fun. fold e.
    destruct (Z.eqb_spec i col) as [->|Hne].
    - destruct (Z.leb_spec col col); destruct (Z.ltb_spec col e); cbn [andb]; try (unfold e in *; lia). reflexivity.
    - destruct (Z.ltb_spec col i); destruct (Z.ltb_spec i e); cbn [andb].
      + destruct (Z.leb_spec col i); [reflexivity|lia].
      + destruct (Z.leb_spec col i); [|lia]. cbn [andb].
        destruct B as [[bs cb]|]; [destruct (Z.eqb_spec i bs); [reflexivity|]|];
          unfold ms_tail; destruct A as [[[ss sl] c']|]; try reflexivity;
          destruct (i =? e); try reflexivity; destruct ((e <? i) && (i <? ss + sl)); reflexivity.
      + destruct (Z.leb_spec col i); [lia|]. cbn [andb].
        destruct B as [[bs cb]|]; [destruct (Z.eqb_spec i bs); [reflexivity|]|];
          unfold ms_tail; destruct A as [[[ss sl] c']|]; try reflexivity;
          destruct (i =? e); try reflexivity; destruct ((e <? i) && (i <? ss + sl)); reflexivity.
      + destruct (Z.leb_spec col i); [lia|]. cbn [andb].
        destruct B as [[bs cb]|]; [destruct (Z.eqb_spec i bs); [reflexivity|]|];
          unfold ms_tail; destruct A as [[[ss sl] c']|]; try reflexivity;
          destruct (i =? e); try reflexivity; destruct ((e <? i) && (i <? ss + sl)); reflexivity.
  Qed.
End MakeSpanCore.
