(* LifeAttach.v -- a new window cell; a detached window becomes the first or the last child;
   the children of one window are re-ordered. *)
From Coq Require Import ZArith List Bool PArith FMapPositive Lia.
From Tickit Require Import LifeDefs LifeLemmas LifeChains LifeInv LifePure LifeWalks LifeRelink LifeRemove LifeClose LifeQueue.
Import ListNotations.
Local Open Scope Z_scope.

(* ---- allocation of a cell that is nobody's child ------------------------------------------------------ *)
Definition alloc_heap (h : heap) (c : wcell) : heap :=
  mkHeap (PM.add (nextw h) c (wins h)) (reqs h) (rx h) (Pos.succ (nextw h)) (nextq h) (dlog h) (uninit_seen h) (tr h).

Lemma findw_alloc_same : forall h c, findw (alloc_heap h c) (nextw h) = Some c.
Proof. intros. unfold findw, alloc_heap. cbn. apply PM.gss. Qed.
Lemma findw_alloc_other : forall h c a, a <> nextw h -> findw (alloc_heap h c) a = findw h a.
Proof. intros. unfold findw, alloc_heap. cbn. apply PM.gso. exact H. Qed.

Lemma hinv_alloc : forall D h c,
  hinv D h -> w_parent c = None -> w_first c = None -> w_next c = None -> w_focus c = None ->
  1 <= w_ref c -> w_closed c = false -> w_isroot c = false ->
  hinv D (alloc_heap h c).
Proof.
  intros D h c HI Hp Hfi Hn Hfo Hr Hcl Hir.
  set (w := nextw h). set (h' := alloc_heap h c).
  assert (Hfresh : findw h w = None).
  { destruct (findw h w) eqn:E; auto. exfalso. assert (Hl : findw h w <> None) by congruence.
    pose proof (hi_nextw D h HI w Hl). unfold w in *. lia. }
  assert (Fw : forall a, a <> w -> findw h' a = findw h a) by (intros; apply findw_alloc_other; auto).
  assert (Fww : findw h' w = Some c) by apply findw_alloc_same.
  assert (Fold : forall a ca, findw h a = Some ca -> findw h' a = Some ca).
  { intros a ca Hf. rewrite Fw; auto. intro E. subst a. congruence. }
  assert (Fnew : forall a ca, findw h' a = Some ca -> (a = w /\ ca = c) \/ (a <> w /\ findw h a = Some ca)).
  { intros a ca Hf. destruct (Pos.eq_dec a w) as [E|E].
    - subst a. rewrite Fww in Hf. inversion Hf. auto.
    - right. rewrite Fw in Hf; auto. }
  assert (Hch : forall v l, chain h v l -> chain h' v l).
  { intros v l Hc. eapply chain_ext; eauto. intros a Ha.
    pose proof (chain_live h v l Hc a Ha) as Hl. destruct (findw h a) as [ca|] eqn:Hf; [|congruence].
    exists ca, ca. rewrite (Fold a ca Hf). auto. }
  assert (Hanc : forall x b, anc h x b -> anc h' x b).
  { intros x b Ha. induction Ha; [eapply anc_refl|eapply anc_step]; eauto. }
  assert (Hwr : w <> root).
  { pose proof (hi_nextw_root D h HI). unfold w. intro E. rewrite E in H. lia. }
  constructor.
  - intros a ca Hf. destruct (Fnew a ca Hf) as [[Ea Ec]|[Ea Hf0]].
    + subst a ca. exists []. rewrite Hfi. split; [constructor|]. intro k. split; [intros []|].
      intros [ck [H1 H2]]. destruct (Fnew k ck H1) as [[Ek Eck]|[Ek H0]].
      * subst ck. congruence.
      * pose proof (hi_parent D h HI k ck w H0 H2). congruence.
    + destruct (hi_kids D h HI a ca Hf0) as [l [Hc Hl]]. exists l. split; [auto|].
      intro k. rewrite (Hl k). split; intros [ck [H1 H2]].
      * exists ck. split; auto.
      * destruct (Fnew k ck H1) as [[Ek Eck]|[Ek H0]]; [subst ck; congruence|eauto].
  - intros k ck p Hf Hpk. destruct (Fnew k ck Hf) as [[Ek Eck]|[Ek H0]]; [subst ck; congruence|].
    pose proof (hi_parent D h HI k ck p H0 Hpk) as Hl. destruct (findw h p) as [cp|] eqn:Hfp; [|congruence].
    rewrite (Fold p cp Hfp). congruence.
  - intros k ck p Hf Hpk. destruct (Fnew k ck Hf) as [[Ek Eck]|[Ek H0]]; [subst ck; congruence|].
    exact (hi_parent_lt D h HI k ck p H0 Hpk).
  - intros a ca Hf Hpa. destruct (Fnew a ca Hf) as [[Ea Ec]|[Ea H0]]; [subst ca; auto|].
    exact (hi_orphan_next D h HI a ca H0 Hpa).
  - intros a ca f Hf Hd Hfoc. destruct (Fnew a ca Hf) as [[Ea Ec]|[Ea H0]]; [subst ca; congruence|].
    destruct (hi_focus D h HI a ca f H0 Hd Hfoc) as [cf [H1 H2]]. exists cf. split; auto.
  - intros a ca Hf Hd. destruct (Fnew a ca Hf) as [[Ea Ec]|[Ea H0]]; [subst ca; auto|].
    exact (hi_ref D h HI a ca H0 Hd).
  - intros a ca Hf Hc. destruct (Fnew a ca Hf) as [[Ea Ec]|[Ea H0]]; [subst ca; congruence|].
    exact (hi_closed D h HI a ca H0 Hc).
  - intros a ca Hf. destruct (Fnew a ca Hf) as [[Ea Ec]|[Ea H0]].
    + subst a ca. rewrite Hir. symmetry. apply Pos.eqb_neq. exact Hwr.
    + exact (hi_isroot D h HI a ca H0).
  - intros cr Hf. destruct (Fnew root cr Hf) as [[Ea Ec]|[Ea H0]]; [congruence|].
    exact (hi_root_parent D h HI cr H0).
  - destruct (hi_queue D h HI) as [ql [Hq1 [Hq2 Hq3]]]. exists ql. split; [|split].
    + change (qchain h' (r_queue (rx h)) ql). eapply qchain_same; [exact Hq1|]. intros; reflexivity.
    + exact Hq2.
    + intros q cq Hfq. change (findq h q = Some cq) in Hfq.
      destruct (Hq3 q cq Hfq) as [x [p [cx [G1 [G2 [G3 [G4 G5]]]]]]].
      exists x, p, cx. repeat split; auto.
  - exact (hi_qkind D h HI).
  - destruct (hi_drag D h HI) as [od [E Hd]]. exists od. split; [exact E|]. intros d Ed Hnr Hl. apply Hanc. apply Hd; auto.
    rewrite <- (Fw root); auto.
  - intros a Ha. change (a < Pos.succ (nextw h))%positive.
    destruct (Pos.eq_dec a w) as [E|E]; [subst a; unfold w; lia|].
    rewrite Fw in Ha; auto. pose proof (hi_nextw D h HI a Ha). lia.
  - change (root < Pos.succ (nextw h))%positive. pose proof (hi_nextw_root D h HI). lia.
  - exact (hi_nextq D h HI).
Qed.

(* ---- a chain whose prefix is kept and whose tail is given in the new heap ---------------------------------- *)
Lemma cells_by_chain_prefix : forall h h' F l0 v z l2 l3 nxt,
  cells_by h h' F -> chain h v (l0 ++ z :: l2) ->
  (forall cz, findw h z = Some cz -> w_next (F z cz) = nxt) ->
  chain h' nxt l3 ->
  (forall a c, In a l0 -> findw h a = Some c -> w_next (F a c) = w_next c) ->
  chain h' v (l0 ++ z :: l3).
Proof.
  intros h h' F l0; induction l0 as [|x l0 IH]; intros v z l2 l3 nxt CB Hc Hz Hc3 Hkeep; cbn in *.
  - inversion Hc as [|z' cz l' Hfz Hcz]; subst. econstructor.
    + eapply cells_by_some; eauto.
    + rewrite (Hz cz Hfz). exact Hc3.
  - inversion Hc as [|x' cx l' Hfx Hcx]; subst. econstructor.
    + eapply cells_by_some; eauto.
    + rewrite (Hkeep x cx (or_introl eq_refl) Hfx). eapply IH; eauto.
Qed.

(* ---- the children of [p] are re-chained; every other link is kept ------------------------------------------ *)
Lemma hinv_rechain : forall D h h' F p cp l l',
  hinv D h -> cells_by h h' F -> findw h p = Some cp -> chain h (w_first cp) l ->
  (forall a c, findw h a = Some c ->
     w_parent (F a c) = w_parent c /\ w_focus (F a c) = w_focus c /\ w_closed (F a c) = w_closed c /\
     w_isroot (F a c) = w_isroot c /\ w_ref (F a c) = w_ref c /\
     (a <> p -> w_first (F a c) = w_first c) /\ (~ In a l -> w_next (F a c) = w_next c)) ->
  chain h' (w_first (F p cp)) l' -> (forall k, In k l' <-> In k l) ->
  hinv D h'.
Proof.
  intros D h h' F p cp l l' HI CB Hp Hc HF Hc' Hperm.
  destruct (hi_kids D h HI p cp Hp) as [l0 [Hc0 Hl0]].
  assert (l0 = l) by (eapply chain_fun; eauto). subst l0.
  apply (hinv_cells_by D h h' F HI CB).
  - intros a c Hf. destruct (HF a c Hf) as [H1 [H2 [H3 [H4 [H5 _]]]]]. rewrite H1, H3, H4, H5.
    repeat split; auto.
    + exact (hi_closed D h HI a c Hf).
    + intro Hd. exact (hi_ref D h HI a c Hf Hd).
  - intros a c Hf. destruct (Pos.eq_dec a p) as [E|E].
    + subst a. rewrite Hp in Hf. inversion Hf; subst c. exists l'. split; auto.
      intro k. rewrite (Hperm k). rewrite (Hl0 k). split; intros [ck [G1 G2]]; exists ck; split; auto.
      * destruct (HF k ck G1) as [H1 _]. congruence.
      * destruct (HF k ck G1) as [H1 _]. congruence.
    + apply (kids_preserved D h h' F a c HI CB Hf).
      * destruct (HF a c Hf) as [_ [_ [_ [_ [_ [H6 _]]]]]]. auto.
      * intros k ck Hfk Hpk. destruct (HF k ck Hfk) as [H1 [_ [_ [_ [_ [_ H7]]]]]]. split; [|congruence].
        apply H7. intro Hin. apply Hl0 in Hin. destruct Hin as [ck' [G1 G2]]. rewrite Hfk in G1. inversion G1; subst. congruence.
      * intros k ck Hfk Hpk. destruct (HF k ck Hfk) as [H1 _]. congruence.
  - intros a c Hf Hpa. destruct (HF a c Hf) as [H1 [_ [_ [_ [_ [_ H7]]]]]]. rewrite H1 in Hpa. rewrite H7.
    + exact (hi_orphan_next D h HI a c Hf Hpa).
    + intro Hin. apply Hl0 in Hin. destruct Hin as [ck' [G1 G2]]. rewrite Hf in G1. inversion G1; subst. congruence.
  - intros a c f Hf Hd Hfo. destruct (HF a c Hf) as [_ [H2 _]]. rewrite H2 in Hfo.
    destruct (hi_focus D h HI a c f Hf Hd Hfo) as [cf [G1 G2]]. exists cf. split; auto.
    destruct (HF f cf G1) as [H1 _]. congruence.
  - intros q cq Hfq. destruct (hi_queue D h HI) as [ql [_ [_ Hq3]]].
    destruct (Hq3 q cq Hfq) as [x [px [cx [G1 [G2 [G3 [G4 G5]]]]]]].
    exists x, px, cx. repeat split; auto.
    + destruct (HF x cx G3) as [H1 _]. congruence.
    + eapply cells_by_anc; eauto. intros a c Ha Hfa _. destruct (HF a c Hfa) as [H1 _]. exact H1.
  - apply (drag_kept D h h' F HI CB). intros a c Hfa. destruct (HF a c Hfa) as [H1 _]. exact H1.
Qed.

(* ---- a detached window becomes a child of [p] ------------------------------------------------------------ *)
Lemma hinv_attach : forall D h h' F p cp w cw l l',
  hinv D h -> cells_by h h' F -> findw h p = Some cp -> chain h (w_first cp) l ->
  findw h w = Some cw -> w_parent cw = None -> w <> root -> (p < w)%positive ->
  (forall a c, findw h a = Some c ->
     w_focus (F a c) = w_focus c /\ w_isroot (F a c) = w_isroot c /\ w_ref (F a c) = w_ref c /\
     (a <> w -> w_parent (F a c) = w_parent c /\ w_closed (F a c) = w_closed c) /\
     (a <> p -> w_first (F a c) = w_first c) /\
     (~ In a l -> a <> w -> w_next (F a c) = w_next c)) ->
  w_parent (F w cw) = Some p -> w_closed (F w cw) = false ->
  chain h' (w_first (F p cp)) l' -> (forall k, In k l' <-> k = w \/ In k l) ->
  hinv D h'.
Proof.
  intros D h h' F p cp w cw l l' HI CB Hp Hc Hw Hwp Hwr Hlt HF HFw HFc Hc' Hperm.
  destruct (hi_kids D h HI p cp Hp) as [l0 [Hc0 Hl0]].
  assert (l0 = l) by (eapply chain_fun; eauto). subst l0.
  assert (Hpw : p <> w) by lia.
  assert (Hnotkid : forall k ck q, findw h k = Some ck -> w_parent ck = Some q -> k <> w).
  { intros k ck q Hfk Hpk E. subst k. rewrite Hw in Hfk. inversion Hfk; subst. congruence. }
  apply (hinv_cells_by_gen D h h' F HI CB).
  - intros a c Hf. destruct (HF a c Hf) as [H1 [H2 [H3 [H4 _]]]]. rewrite H2, H3.
    destruct (Pos.eq_dec a w) as [E|E].
    + subst a. rewrite Hw in Hf. inversion Hf; subst c. repeat split; auto.
      * rewrite HFc. discriminate.
      * intro Hd. exact (hi_ref D h HI w cw Hw Hd).
      * rewrite HFw in H. inversion H; subst p0. congruence.
      * rewrite HFw in H. inversion H; subst p0. exact Hlt.
    + destruct (H4 E) as [H5 H6]. rewrite H5, H6. repeat split; auto.
      * exact (hi_closed D h HI a c Hf).
      * intro Hd. exact (hi_ref D h HI a c Hf Hd).
      * exact (hi_parent D h HI a c p0 Hf H).
      * exact (hi_parent_lt D h HI a c p0 Hf H).
      * intro Ea. subst a. rewrite (hi_root_parent D h HI c Hf) in H. discriminate.
  - intros a c Hf. destruct (Pos.eq_dec a p) as [E|E].
    + subst a. rewrite Hp in Hf. inversion Hf; subst c. exists l'. split; auto.
      intro k. rewrite (Hperm k). split.
      * intros [Ek|Hin].
        -- subst k. exists cw. auto.
        -- apply Hl0 in Hin. destruct Hin as [ck [G1 G2]]. exists ck. split; auto.
           destruct (HF k ck G1) as [_ [_ [_ [H4 _]]]]. destruct (H4 (Hnotkid k ck p G1 G2)) as [H5 _]. congruence.
      * intros [ck [G1 G2]]. destruct (Pos.eq_dec k w) as [Ek|Ek]; [left; exact Ek|right].
        destruct (HF k ck G1) as [_ [_ [_ [H4 _]]]]. destruct (H4 Ek) as [H5 _]. rewrite H5 in G2. apply Hl0. eauto.
    + apply (kids_preserved D h h' F a c HI CB Hf).
      * destruct (HF a c Hf) as [_ [_ [_ [_ [H5 _]]]]]. auto.
      * intros k ck Hfk Hpk. pose proof (Hnotkid k ck a Hfk Hpk) as Hkw.
        destruct (HF k ck Hfk) as [_ [_ [_ [H4 [_ H6]]]]]. destruct (H4 Hkw) as [H5 _]. split; [|congruence].
        apply H6; auto. intro Hin. apply Hl0 in Hin. destruct Hin as [ck' [G1 G2]]. rewrite Hfk in G1. inversion G1; subst. congruence.
      * intros k ck Hfk Hpk. destruct (Pos.eq_dec k w) as [Ek|Ek].
        -- subst k. rewrite Hw in Hfk. inversion Hfk; subst ck. rewrite HFw in Hpk. congruence.
        -- destruct (HF k ck Hfk) as [_ [_ [_ [H4 _]]]]. destruct (H4 Ek) as [H5 _]. congruence.
  - intros a c Hf Hpa. destruct (Pos.eq_dec a w) as [E|E].
    + subst a. rewrite Hw in Hf. inversion Hf; subst c. congruence.
    + destruct (HF a c Hf) as [_ [_ [_ [H4 [_ H6]]]]]. destruct (H4 E) as [H5 _]. rewrite H5 in Hpa.
      rewrite H6; auto.
      * exact (hi_orphan_next D h HI a c Hf Hpa).
      * intro Hin. apply Hl0 in Hin. destruct Hin as [ck' [G1 G2]]. rewrite Hf in G1. inversion G1; subst. congruence.
  - intros a c f Hf Hd Hfo. destruct (HF a c Hf) as [H1 _]. rewrite H1 in Hfo.
    destruct (hi_focus D h HI a c f Hf Hd Hfo) as [cf [G1 G2]]. exists cf. split; auto.
    destruct (HF f cf G1) as [_ [_ [_ [H4 _]]]]. destruct (H4 (Hnotkid f cf a G1 G2)) as [H5 _]. congruence.
  - intros q cq Hfq. destruct (hi_queue D h HI) as [ql [_ [_ Hq3]]].
    destruct (Hq3 q cq Hfq) as [x [px [cx [G1 [G2 [G3 [G4 G5]]]]]]].
    assert (Hpath : forall a, anc h x a -> a <> w).
    { intros a Ha E. subst a. destruct (anc_linear h x w Ha root G5) as [H|H].
      - apply Hwr. symmetry. exact (anc_top h w root cw H Hw Hwp).
      - pose proof (anc_live_l h root w H) as Hl. destruct (findw h root) as [cr|] eqn:Hfr; [|congruence].
        apply Hwr. exact (anc_top h root w cr H Hfr (hi_root_parent D h HI cr Hfr)). }
    exists x, px, cx. repeat split; auto.
    + destruct (HF x cx G3) as [_ [_ [_ [H4 _]]]]. destruct (H4 (Hnotkid x cx px G3 G4)) as [H5 _]. congruence.
    + eapply cells_by_anc; eauto. intros a c Ha Hfa _.
      destruct (HF a c Hfa) as [_ [_ [_ [H4 _]]]]. destruct (H4 (Hpath a Ha)) as [H5 _]. exact H5.
  - (* the drag source: the detached window [w] is not on its way to the root *)
    intros d Hd Hnr Hl. destruct (hi_drag D h HI) as [od [E Hda]]. rewrite E in Hd. inversion Hd; subst od.
    pose proof (Hda d eq_refl Hnr Hl) as G5.
    assert (Hpath : forall a, anc h d a -> a <> w).
    { intros a Ha E'. subst a. destruct (anc_linear h d w Ha root G5) as [H|H].
      - apply Hwr. symmetry. exact (anc_top h w root cw H Hw Hwp).
      - pose proof (anc_live_l h root w H) as Hl'. destruct (findw h root) as [cr|] eqn:Hfr; [|congruence].
        apply Hwr. exact (anc_top h root w cr H Hfr (hi_root_parent D h HI cr Hfr)). }
    eapply cells_by_anc; eauto. intros a c Ha Hfa _.
    destruct (HF a c Hfa) as [_ [_ [_ [H4 _]]]]. destruct (H4 (Hpath a Ha)) as [H5 _]. exact H5.
Qed.
