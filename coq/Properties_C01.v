(* Property C01: the flushed screen equals the painter's-model composition of the window
   tree.  This file contains nothing but the property theorems, each closed by
   [exact <lemma>] and followed by Print Assumptions.

   Vocabulary: WinDefs.v (the model of src/window.c: win_flush, do_expose, the abstract
   render buffer [rbuf], the terminal [term] with its scroll oracle), WinHist.v (the history
   alphabet [op] and its interpreter [step]/[run]; [appfn] = what each window paints),
   WinSpec.v ([owner_rel]/[owner]/[compose]: the painter's model), WinScreenInv.v ([shows app
   tree q] = the content [compose] puts at screen cell q; [ScreenInv app st tm] = every
   screen cell shows the composition OR lies in the pending damage, the flags that make the
   flush work are set whenever there is damage or a queued restack, the terminal has the
   root's size), WinExposeProofs.v ([pre b r]: the buffer's masks are at most at its depth,
   its clip lies inside the buffer and inside the handed rectangle r). *)
From Coq Require Import ZArith List Bool.
From Tickit Require Import RectDefs WinRectSet WinDefs WinSpec WinHist
  WinExposeProofs WinLogDisjoint WinFlushProofs WinScreenInv WinPreserve WinTermResize WinHistory WinC01Extra.
Import ListNotations.
Local Open Scope Z_scope.

(* Key lemma (any tree, any rectangle, any buffer state a caller can set up): when every
   handler repaints what it is asked, _do_expose leaves in every cell it may draw (inside
   the clip, not masked) exactly the composition of the window's subtree -- content, owning
   window and position relative to the owner -- changes no other cell, returns clip,
   translation, depth and stack unchanged and extends the masks only at its own depth. *)
Theorem C01_do_expose_paints : forall app t r b, pre b r ->
  let b' := do_expose (paint_handler app) t r b in
  same_frame b b' /\ mask_grows b b' /\
  forall q, rb_cells b' q =
            if rb_drawable b q then paint_val app (owner_rel t (rel b q)) else rb_cells b q.
Proof. exact do_expose_paints_at. Qed.
Print Assumptions C01_do_expose_paints.

(* The terminal after a flush that has something to expose: the cells inside (damage /\
   screen) show the composition, every other cell is unchanged. *)
Theorem C01_flush_paints : forall cfg app progs st tm st' tm' lg,
  (forall id, progs id = [DPaint]) ->
  win_flush cfg (prog_handler app progs) st tm = (st', tm', lg) ->
  r_later st = true -> r_nexp (after_queue st) = true ->
  forall q,
    t_grid tm' q =
    if cell_inb (root_selfrect st') q && in_any (flush_rects cfg (after_queue st)) q
    then (let '(w, pw) := owner_rel (r_tree st') q in app w (fst pw) (snd pw))
    else t_grid tm q.
Proof. exact flush_paints. Qed.
Print Assumptions C01_flush_paints.

(* "No stale or misplaced cell survives a flush": from the screen invariant, a flush (here:
   with no restack queued; C01_flush below lifts that) ends with empty damage and EVERY
   screen cell showing the composition, and the invariant holds again. *)
Theorem C01_flush_no_queue : forall app progs st tm st' tm' lg,
  ScreenInv app st tm ->
  r_queue st = [] ->
  (forall id, progs id = [DPaint]) ->
  win_flush no_defects (prog_handler app progs) st tm = (st', tm', lg) ->
  r_damage st' = [] /\ r_tree st' = r_tree st /\
  (forall q, cell_inb (root_selfrect st') q = true -> t_grid tm' q = shows app (r_tree st') q) /\
  ScreenInv app st' tm'.
Proof. exact flush_establishes. Qed.
Print Assumptions C01_flush_no_queue.

(* ... and with any queue of restacks (each applied restack exposes the sibling's rect) *)
Theorem C01_flush : forall app progs st tm st' tm' lg,
  ScreenInv app st tm -> ids_unique (r_tree st) ->
  (forall id, progs id = [DPaint]) ->
  win_flush no_defects (prog_handler app progs) st tm = (st', tm', lg) ->
  r_fault st' = false ->
  r_damage st' = [] /\
  (forall q, cell_inb (root_selfrect st') q = true -> t_grid tm' q = shows app (r_tree st') q) /\
  ScreenInv app st' tm' /\ ids_unique (r_tree st').
Proof. exact flush_establishes_any_queue. Qed.
Print Assumptions C01_flush.

(* Every operation of the history alphabet other than flush, the three scrolls and the
   terminal resize (for which see C01_term_resize) preserves the screen invariant: new (first / lowest / root-parent / hidden),
   close, show, hide, queued restacks, set_geometry / reposition / resize followed by the
   exposes of old and new area (the property's proviso), expose, take_focus, cursor and
   control setters -- because the only cells whose composition changes lie in the rectangle
   the operation exposes.  [op_side]: new ids are fresh; show / hide / geometry not on the
   root; geometry ops come with their exposes; exposing the whole root needs a non-empty
   root.  [r_fault] = a rectangle-set loop ran out of fuel (then nothing is claimed). *)
Theorem C01_preserved : forall cfg progs o m,
  ScreenInv (m_app m) (m_root m) (m_term m) -> ids_unique (r_tree (m_root m)) ->
  op_side (m_root m) o -> r_fault (m_root (step cfg progs o m)) = false ->
  ScreenInv (m_app (step cfg progs o m)) (m_root (step cfg progs o m)) (m_term (step cfg progs o m)) /\
  ids_unique (r_tree (m_root (step cfg progs o m))).
Proof. exact step_preserves. Qed.
Print Assumptions C01_preserved.

(* the terminal resize preserves it too: the surviving cells keep content and composition,
   the grown strips are exposed *)
Theorem C01_term_resize : forall app st tm nl nc,
  ScreenInv app st tm -> ids_unique (r_tree st) -> 0 < nl -> 0 < nc ->
  r_fault (fst (win_term_resize st tm nl nc)) = false ->
  ScreenInv app (fst (win_term_resize st tm nl nc)) (snd (win_term_resize st tm nl nc)) /\
  ids_unique (r_tree (fst (win_term_resize st tm nl nc))).
Proof. exact term_resize_preserves. Qed.
Print Assumptions C01_term_resize.

(* the state right after tickit_window_new_root satisfies the invariant *)
Theorem C01_init : forall nl nc orc, 0 < nl -> 0 < nc ->
  r_fault (m_root (m_init nl nc orc)) = false -> MInv (m_init nl nc orc).
Proof. exact init_inv. Qed.
Print Assumptions C01_init.

(* FULL STATEMENT (C01_history): for every finite history of window-tree operations
   (interleaved with flushes at arbitrary points) on every tree, and every scroll oracle,
   after each flush every terminal cell shows the composition.
   PROVED (C01_history_partial / C01_history_flushed_partial): for every history over the
   alphabet WITHOUT the three scroll operations ([run_ok]: each step is a flush or an
   operation meeting op_side2 -- op_side, or a terminal resize to a positive size -- and no
   fuel fault), starting from any
   state with the invariant (e.g. C01_init), with handlers that repaint what they are asked:
   the invariant holds throughout, and after a history that ends with a flush the damage is
   empty and every screen cell shows the composition.  No bound on the length of the
   history, the number of windows or the coordinates.
   MISSING: preservation of ScreenInv by OScroll / OScrollRect / OScrollKids.
   The scroll case needs (i) the case analysis of _scrollrectset per stored rectangle
   (accepted: the terminal content and the application content shift alike, pending damage
   is shifted, the vacated strips are exposed; refused or too large: everything exposed) and
   (ii) that the visible region contains NO cell of a child / higher sibling and that its
   rectangles are pairwise disjoint, i.e. the exactness of rectset subtract
   (WinRectSetProofs.rs_subtract_covered_partial proves only that nothing outside the holes
   is lost) and the rectset invariant, which are property C05's theorems.  These operations are covered by the correspondence check
   (model = C after every flush, compose oracle) only. *)
Theorem C01_history_partial : forall progs,
  (forall id, progs id = [DPaint]) ->
  forall ops m, MInv m -> run_ok progs ops m -> MInv (run no_defects progs ops m).
Proof. exact history_preserves. Qed.
Print Assumptions C01_history_partial.

Theorem C01_history_flushed_partial : forall progs,
  (forall id, progs id = [DPaint]) ->
  forall ops m, MInv m -> run_ok progs (ops ++ [OFlush]) m ->
    all_shown (run no_defects progs (ops ++ [OFlush]) m).
Proof. exact history_flushed. Qed.
Print Assumptions C01_history_flushed_partial.

(* [shows] is [compose] on the screen of a visible root *)
Theorem C01_shows_is_compose : forall app tree q,
  w_vis (t_info tree) = true -> cell_inb (selfrect (t_info tree)) q = true ->
  compose app tree q = Some (shows app tree q).
Proof. exact compose_shows. Qed.
Print Assumptions C01_shows_is_compose.

(* the pinned _scrollrectset (defect #18, repaired) leaves a stale cell after a flush; the
   repaired model does not *)
Theorem C01_refuted_18 :
  screen_ok (run cfg18 paint_progs hist18 (m_init 4 6 pol_accept)) = false /\
  screen_ok (run no_defects paint_progs hist18 (m_init 4 6 pol_accept)) = true.
Proof. exact refuted_18. Qed.
Print Assumptions C01_refuted_18.

Example C01_nonvacuous :
  screens_ok no_defects hist_nv (m_init 4 6 (pol_script [true; false; true; false])) = true /\
  length (t_kids (r_tree (m_root (run no_defects paint_progs hist_nv (m_init 4 6 pol_accept))))) = 2%nat.
Proof. exact nonvacuous_c01. Qed.
