(* Property C01: the flushed screen equals the painter's-model composition of the window
   tree.  This file contains nothing but the property theorems, each closed by
   [exact <lemma>] and followed by Print Assumptions.

   Vocabulary: WinDefs.v (the model of src/window.c: win_flush, do_expose, the abstract
   render buffer [rbuf], the terminal [term] with its scroll oracle), WinHist.v (the history
   alphabet [op] and its interpreter [step]/[run]; [appfn] = what each window paints),
   WinSpec.v ([owner_rel]/[owner]/[compose]: the painter's model), WinScreenInv.v ([shows app
   tree q] = the content [compose] puts at screen cell q; [ScreenInv app st tm] = every
   screen cell shows the composition OR lies in the pending damage, the flags that make the
   flush work are set whenever there is damage or a queued restack, the terminal has the
   root's size), WinExposeProofs.v ([pre b r]: the buffer's masks are at most at its depth,
   its clip lies inside the buffer and inside the handed rectangle r). *)
From Coq Require Import ZArith List Bool.
From Tickit Require Import RectDefs WinRectSet WinDefs WinSpec WinHist
  WinExposeProofs WinFlushProofs WinScreenInv WinC01Extra.
Import ListNotations.
Local Open Scope Z_scope.

(* Key lemma (any tree, any rectangle, any buffer state a caller can set up): when every
   handler repaints what it is asked, _do_expose leaves in every cell it may draw (inside
   the clip, not masked) exactly the composition of the window's subtree -- content, owning
   window and position relative to the owner -- changes no other cell, returns clip,
   translation, depth and stack unchanged and extends the masks only at its own depth. *)
Theorem C01_do_expose_paints : forall app t r b, pre b r ->
  let b' := do_expose (paint_handler app) t r b in
  same_frame b b' /\ mask_grows b b' /\
  forall q, rb_cells b' q =
            if rb_drawable b q then paint_val app (owner_rel t (rel b q)) else rb_cells b q.
Proof. exact do_expose_paints_at. Qed.
Print Assumptions C01_do_expose_paints.

(* The terminal after a flush that has something to expose: the cells inside (damage /\
   screen) show the composition, every other cell is unchanged. *)
Theorem C01_flush_paints : forall cfg app progs st tm st' tm' lg,
  (forall id, progs id = [DPaint]) ->
  win_flush cfg (prog_handler app progs) st tm = (st', tm', lg) ->
  r_later st = true -> r_nexp (after_queue st) = true ->
  forall q,
    t_grid tm' q =
    if cell_inb (root_selfrect st') q && in_any (flush_rects cfg (after_queue st)) q
    then (let '(w, pw) := owner_rel (r_tree st') q in app w (fst pw) (snd pw))
    else t_grid tm q.
Proof. exact flush_paints. Qed.
Print Assumptions C01_flush_paints.

(* "No stale or misplaced cell survives a flush": from the screen invariant, a flush (here:
   with no restack queued; C01_flush below lifts that) ends with empty damage and EVERY
   screen cell showing the composition, and the invariant holds again. *)
Theorem C01_flush_no_queue : forall app progs st tm st' tm' lg,
  ScreenInv app st tm ->
  r_queue st = [] ->
  (forall id, progs id = [DPaint]) ->
  win_flush no_defects (prog_handler app progs) st tm = (st', tm', lg) ->
  r_damage st' = [] /\ r_tree st' = r_tree st /\
  (forall q, cell_inb (root_selfrect st') q = true -> t_grid tm' q = shows app (r_tree st') q) /\
  ScreenInv app st' tm'.
Proof. exact flush_establishes. Qed.
Print Assumptions C01_flush_no_queue.

(* [shows] is [compose] on the screen of a visible root *)
Theorem C01_shows_is_compose : forall app tree q,
  w_vis (t_info tree) = true -> cell_inb (selfrect (t_info tree)) q = true ->
  compose app tree q = Some (shows app tree q).
Proof. exact compose_shows. Qed.
Print Assumptions C01_shows_is_compose.

(* the pinned _scrollrectset (defect #18, repaired) leaves a stale cell after a flush; the
   repaired model does not *)
Theorem C01_refuted_18 :
  screen_ok (run cfg18 paint_progs hist18 (m_init 4 6 pol_accept)) = false /\
  screen_ok (run no_defects paint_progs hist18 (m_init 4 6 pol_accept)) = true.
Proof. exact refuted_18. Qed.
Print Assumptions C01_refuted_18.

Example C01_nonvacuous :
  screens_ok no_defects hist_nv (m_init 4 6 (pol_script [true; false; true; false])) = true /\
  length (t_kids (r_tree (m_root (run no_defects paint_progs hist_nv (m_init 4 6 pol_accept))))) = 2%nat.
Proof. exact nonvacuous_c01. Qed.
