(* Property C01: the flushed screen equals the painter's-model composition of the window
   tree.  This file contains nothing but the property theorems, each closed by
   [exact <lemma>] and followed by Print Assumptions.

   Vocabulary: WinDefs.v (the model of src/window.c: win_flush, do_expose, the abstract
   render buffer [rbuf], the terminal [term] with its scroll oracle), WinHist.v (the history
   alphabet [op] and its interpreter [step]/[run]; [appfn] = what each window paints),
   WinSpec.v ([owner_rel]/[owner]/[compose]: the painter's model), WinScreenInv.v ([shows app
   tree q] = the content [compose] puts at screen cell q; [ScreenInv app st tm] = every
   screen cell shows the composition OR lies in the pending damage, the flags that make the
   flush work are set whenever there is damage or a queued restack, the terminal has the
   root's size), WinExposeProofs.v ([pre b r]: the buffer's masks are at most at its depth,
   its clip lies inside the buffer and inside the handed rectangle r). *)
From Coq Require Import ZArith List Bool.
(* (the xterm driver's files first: where a name exists on both sides -- rect, term, t_lines ... --
   the unqualified one is the window layer's) *)
From Tickit Require Import Csi VT XtermDefs XtermSpec XtermProofs.
From Tickit Require Import RectDefs WinRectSet WinDefs WinSpec WinHist
  WinExposeProofs WinLogDisjoint WinFlushProofs WinScreenInv WinPreserve WinTermResize WinHistory WinC01Extra
  WinRectSetProofs WinScrollDesc WinScrollRegion WinScrollFold WinScrollSpec WinScrollOps WinScrollInv WinHistoryFull WinReDefs WinReProofs WinReFlags WinReEstablish WinReExample WinReForest WinScrollXterm WinScrollXtermHist WinReFlush WinReFlushProofs WinReFlushSim WinFuelMono WinFuelTotal WinFuelScroll WinFuelTotalScroll WinFuelTotalExample WinFuelBound.
From Tickit Require RBDefs RBSpec RBFlushDefs RBTermSim.
From Tickit Require Import WinRBView WinEndToEnd WinEndToEndFinal.
From Tickit Require WinInput WinInputProofs.
Import ListNotations.
Local Open Scope Z_scope.

(* Key lemma (any tree, any rectangle, any buffer state a caller can set up): when every
   handler repaints what it is asked, _do_expose leaves in every cell it may draw (inside
   the clip, not masked) exactly the composition of the window's subtree -- content, owning
   window and position relative to the owner -- changes no other cell, returns clip,
   translation, depth and stack unchanged and extends the masks only at its own depth. *)
Theorem C01_do_expose_paints : forall app t r b, pre b r ->
  let b' := do_expose (paint_handler app) t r b in
  same_frame b b' /\ mask_grows b b' /\
  forall q, rb_cells b' q =
            if rb_drawable b q then paint_val app (owner_rel t (rel b q)) else rb_cells b q.
Proof. exact do_expose_paints_at. Qed.
Print Assumptions C01_do_expose_paints.

(* The terminal after a flush that has something to expose: the cells inside (damage /\
   screen) show the composition, every other cell is unchanged. *)
Theorem C01_flush_paints : forall cfg app progs st tm st' tm' lg,
  (forall id, progs id = [DPaint]) ->
  win_flush cfg (prog_handler app progs) st tm = (st', tm', lg) ->
  r_later st = true -> r_nexp (after_queue st) = true ->
  forall q,
    t_grid tm' q =
    if cell_inb (root_selfrect st') q && in_any (flush_rects cfg (after_queue st)) q
    then (let '(w, pw) := owner_rel (r_tree st') q in app w (fst pw) (snd pw))
    else t_grid tm q.
Proof. exact flush_paints. Qed.
Print Assumptions C01_flush_paints.

(* "No stale or misplaced cell survives a flush": from the screen invariant, a flush (here:
   with no restack queued; C01_flush below lifts that) ends with empty damage and EVERY
   screen cell showing the composition, and the invariant holds again. *)
Theorem C01_flush_no_queue : forall app progs st tm st' tm' lg,
  ScreenInv app st tm ->
  r_queue st = [] ->
  (forall id, progs id = [DPaint]) ->
  win_flush no_defects (prog_handler app progs) st tm = (st', tm', lg) ->
  r_damage st' = [] /\ r_tree st' = r_tree st /\
  (forall q, cell_inb (root_selfrect st') q = true -> t_grid tm' q = shows app (r_tree st') q) /\
  ScreenInv app st' tm'.
Proof. exact flush_establishes. Qed.
Print Assumptions C01_flush_no_queue.

(* ... and with any queue of restacks (each applied restack exposes the sibling's rect) *)
Theorem C01_flush : forall app progs st tm st' tm' lg,
  ScreenInv app st tm -> ids_unique (r_tree st) ->
  (forall id, progs id = [DPaint]) ->
  win_flush no_defects (prog_handler app progs) st tm = (st', tm', lg) ->
  r_fault st' = false ->
  r_damage st' = [] /\
  (forall q, cell_inb (root_selfrect st') q = true -> t_grid tm' q = shows app (r_tree st') q) /\
  ScreenInv app st' tm' /\ ids_unique (r_tree st').
Proof. exact flush_establishes_any_queue. Qed.
Print Assumptions C01_flush.

(* Every operation of the history alphabet other than flush, the three scrolls and the
   terminal resize (for which see C01_term_resize) preserves the screen invariant: new (first / lowest / root-parent / hidden),
   close, show, hide, queued restacks, set_geometry / reposition / resize followed by the
   exposes of old and new area (the property's proviso), expose, take_focus, cursor and
   control setters -- because the only cells whose composition changes lie in the rectangle
   the operation exposes.  [op_side]: new ids are fresh; show / hide / geometry not on the
   root; geometry ops come with their exposes; exposing the whole root needs a non-empty
   root.  [r_fault] = a rectangle-set loop ran out of fuel (then nothing is claimed). *)
Theorem C01_preserved : forall cfg progs o m,
  ScreenInv (m_app m) (m_root m) (m_term m) -> ids_unique (r_tree (m_root m)) ->
  op_side (m_root m) o -> r_fault (m_root (step cfg progs o m)) = false ->
  ScreenInv (m_app (step cfg progs o m)) (m_root (step cfg progs o m)) (m_term (step cfg progs o m)) /\
  ids_unique (r_tree (m_root (step cfg progs o m))).
Proof. exact step_preserves. Qed.
Print Assumptions C01_preserved.

(* the terminal resize preserves it too: the surviving cells keep content and composition,
   the grown strips are exposed *)
Theorem C01_term_resize : forall app st tm nl nc,
  ScreenInv app st tm -> ids_unique (r_tree st) -> 0 < nl -> 0 < nc ->
  r_fault (fst (win_term_resize st tm nl nc)) = false ->
  ScreenInv app (fst (win_term_resize st tm nl nc)) (snd (win_term_resize st tm nl nc)) /\
  ids_unique (r_tree (fst (win_term_resize st tm nl nc))).
Proof. exact term_resize_preserves. Qed.
Print Assumptions C01_term_resize.

(* the state right after tickit_window_new_root satisfies the invariant *)
Theorem C01_init : forall nl nc orc, 0 < nl -> 0 < nc ->
  r_fault (m_root (m_init nl nc orc)) = false -> MInv (m_init nl nc orc).
Proof. exact init_inv. Qed.
Print Assumptions C01_init.

(* ---- the three scroll operations, for EVERY scroll oracle of the terminal ---- *)

(* MInv3 = ScreenInv + unique ids + the rectangle-set invariant Inv of the damage (the
   window layer's sets are the C05 model; its theorems give exact regions and disjoint
   pieces).  What _scroll does (WinScrollSpec.win_scroll_spec): every screen cell afterwards
   is covered by damage, or lies outside the scrolled visible region V and is unchanged, or
   lies in V together with its source cell and shows what the source cell showed -- whether
   the terminal accepted, refused or partially accepted the requests.  With the
   application's half of the contract (its content shifts alike; scroll_with_children:
   the children are moved along) the invariant is preserved.  Only side condition:
   [vis_nonempty]: visible windows have non-empty rectangles. *)
Theorem C01_scroll_spec : forall app st tm id orig d r mask st' tm' ret,
  ScreenInv app st tm -> NoDup (t_ids (r_tree st)) -> vis_nonempty (r_tree st) ->
  win_scroll no_defects st tm id orig d r mask = (st', tm', ret) -> r_fault st' = false ->
  r_tree st' = r_tree st /\ all_nonempty (r_damage st') /\
  t_lines tm' = t_lines tm /\ t_cols tm' = t_cols tm /\
  (r_damage st' <> [] -> r_nexp st' = true /\ r_later st' = true) /\
  (r_queue st' <> [] -> r_later st' = true) /\
  forall q, cell_inb (root_selfrect st) q = true ->
    covered (r_damage st') q \/
    (~ scrollV (r_tree st) id orig mask q /\ t_grid tm' q = shows app (r_tree st) q) \/
    (scrollV (r_tree st) id orig mask q /\
     scrollV (r_tree st) id orig mask (fst q + d, snd q + r) /\
     t_grid tm' q = shows app (r_tree st) (fst q + d, snd q + r)).
Proof. exact (@WinScrollSpec.win_scroll_spec). Qed.
Print Assumptions C01_scroll_spec.

Theorem C01_scroll : forall progs m id d r,
  MInv3 m -> vis_nonempty (r_tree (m_root m)) ->
  r_fault (m_root (step no_defects progs (OScroll id d r) m)) = false ->
  MInv3 (step no_defects progs (OScroll id d r) m).
Proof. exact (@WinScrollInv.scroll_preserves). Qed.
Print Assumptions C01_scroll.

Theorem C01_scrollrect : forall progs m id rc d r,
  MInv3 m -> vis_nonempty (r_tree (m_root m)) ->
  r_fault (m_root (step no_defects progs (OScrollRect id rc d r) m)) = false ->
  MInv3 (step no_defects progs (OScrollRect id rc d r) m).
Proof. exact (@WinScrollInv.scrollrect_preserves). Qed.
Print Assumptions C01_scrollrect.

Theorem C01_scroll_with_children : forall progs m id d r,
  MInv3 m -> vis_nonempty (r_tree (m_root m)) ->
  r_fault (m_root (step no_defects progs (OScrollKids id d r) m)) = false ->
  MInv3 (step no_defects progs (OScrollKids id d r) m).
Proof. exact (@WinScrollInv.scrollkids_preserves). Qed.
Print Assumptions C01_scroll_with_children.

(* ---- scrolls on the REAL terminal driver (property C09) ----
   The scroll theorems above hold for every terminal oracle.  Here the oracle is the xterm
   driver itself ([xterm_oracle slrm] = the return value of xt_scrollrect, XtermDefs.v, with or
   without the DECSLRM capability), and the abstract terminal's grid is tied to the glyphs of a
   VT-conformant screen: [VR tm v] = same size, and every cell of tm is the glyph of v's cell.
   [vt_ok], [in_range], [RScroll], [vt_run]: as in Properties_C09.v; [xr] converts a rectangle. *)

(* one request: what the window layer's terminal does on an accepted / refused request is what
   the driver's tokens do on the VT screen (C09_scroll) -- the accepting behaviour the C01
   theorems assume of the terminal is the proved behaviour of the driver; iterable *)
Theorem C01_scroll_request_xterm : forall slrm tm v r d rt,
  VR tm v -> vt_ok v -> in_range (RScroll (xr r) d rt) v ->
  (slrm = true -> md_lrmm (v_md v) = true) ->
  t_oracle tm = xterm_oracle slrm ->
  let ts := snd (xt_scrollrect slrm (v_cols v) (xr r) d rt) in
  let v' := vt_run ts v in
  snd (term_scroll tm r d rt) = fst (xt_scrollrect slrm (v_cols v) (xr r) d rt) /\
  VR (fst (term_scroll tm r d rt)) v' /\ vt_ok v' /\
  t_oracle (fst (term_scroll tm r d rt)) = xterm_oracle slrm /\
  v_md v' = v_md v /\ (slrm = true -> md_lrmm (v_md v') = true).
Proof. exact term_scroll_xterm. Qed.
Print Assumptions C01_scroll_request_xterm.

(* the whole of _scroll: EVERY request it makes is in the driver's range (on the screen, of
   positive size, offsets smaller than the rectangle), and after the driver's tokens
   ([win_scroll_tokens]) the VT screen still shows the window layer's terminal *)
Theorem C01_scroll_xterm : forall slrm app st tm v id orig d r mask st' tm' ret,
  ScreenInv app st tm -> NoDup (t_ids (r_tree st)) -> vis_nonempty (r_tree st) ->
  VR tm v -> vt_ok v -> (slrm = true -> md_lrmm (v_md v) = true) -> t_oracle tm = xterm_oracle slrm ->
  win_scroll no_defects st tm id orig d r mask = (st', tm', ret) ->
  let v' := vt_run (win_scroll_tokens slrm no_defects st tm id orig d r mask) v in
  VR tm' v' /\ vt_ok v' /\ t_oracle tm' = xterm_oracle slrm /\
  v_md v' = v_md v /\ (slrm = true -> md_lrmm (v_md v') = true).
Proof. exact win_scroll_xterm. Qed.
Print Assumptions C01_scroll_xterm.

(* C01_scroll_spec, about the glyphs of the VT screen behind the real driver *)
Theorem C01_scroll_spec_xterm : forall slrm app st tm v id orig d r mask st' tm' ret,
  ScreenInv app st tm -> NoDup (t_ids (r_tree st)) -> vis_nonempty (r_tree st) ->
  VR tm v -> vt_ok v -> (slrm = true -> md_lrmm (v_md v) = true) -> t_oracle tm = xterm_oracle slrm ->
  win_scroll no_defects st tm id orig d r mask = (st', tm', ret) -> r_fault st' = false ->
  let v' := vt_run (win_scroll_tokens slrm no_defects st tm id orig d r mask) v in
  forall q, cell_inb (root_selfrect st) q = true ->
    covered (r_damage st') q \/
    (~ scrollV (r_tree st) id orig mask q /\
     c_glyph (v_grid v' (fst q) (snd q)) = shows app (r_tree st) q) \/
    (scrollV (r_tree st) id orig mask q /\
     scrollV (r_tree st) id orig mask (fst q + d, snd q + r) /\
     c_glyph (v_grid v' (fst q) (snd q)) = shows app (r_tree st) (fst q + d, snd q + r)).
Proof. exact win_scroll_spec_xterm. Qed.
Print Assumptions C01_scroll_spec_xterm.

(* histories of any length of non-drawing operations (everything but flush and terminal
   resize, which go through the render buffer: see C01_end_to_end), the three scroll
   operations included: the C01 invariant AND the tie to the VT screen are kept.
   [XT slrm tm v] = VR tm v, vt_ok v, the oracle is the driver, the DECSLRM capability is there
   if the driver uses it; [run_tokens] = the driver's tokens of the history *)
Theorem C01_history_xterm : forall slrm progs ops m v,
  forallb (fun o => negb (draws o)) ops = true ->
  MInv3 m -> run_ok3 progs ops m -> XT slrm (m_term m) v ->
  MInv3 (run no_defects progs ops m) /\
  XT slrm (m_term (run no_defects progs ops m)) (vt_run (run_tokens slrm progs ops m) v).
Proof. exact history_xterm. Qed.
Print Assumptions C01_history_xterm.

Example C01_scroll_xterm_nonvacuous :
  (* the hypotheses of C01_scroll_spec_xterm, for a 4x6 root with a 2x3 child at (1,1), on a
     started xterm with DECSLRM, scrolling the child by one line *)
  ScreenInv ex_app ex_st ex_tm /\ NoDup (t_ids (r_tree ex_st)) /\ vis_nonempty (r_tree ex_st) /\
  VR ex_tm ex_v /\ vt_ok ex_v /\ md_lrmm (v_md ex_v) = true /\ t_oracle ex_tm = xterm_oracle true /\
  r_fault (fst (fst (win_scroll no_defects ex_st ex_tm 1 None 1 0 true))) = false /\
  (* the driver accepted, and wrote something *)
  snd (win_scroll no_defects ex_st ex_tm 1 None 1 0 true) = true /\
  length ex_tokens = 6%nat /\
  (* the moved cell *)
  c_glyph (v_grid ex_v' 1 1) = c_glyph (v_grid ex_v 2 1) /\
  c_glyph (v_grid ex_v' 1 1) = ex_app 1 1 0 /\
  c_glyph (v_grid ex_v 1 1) = ex_app 1 0 0 /\
  (* outside the child nothing moved; the vacated line is blank and pending damage *)
  c_glyph (v_grid ex_v' 1 0) = ex_app 0 1 0 /\
  c_glyph (v_grid ex_v' 2 1) = 32 /\
  r_damage (fst (fst (win_scroll no_defects ex_st ex_tm 1 None 1 0 true))) = [mkRect 2 1 1 3].
Proof. exact win_scroll_xterm_nonvacuous. Qed.

(* every operation keeps the damage set a rectangle set in the sense of property C05 *)
Theorem C01_damage_inv : forall progs o m,
  ids_unique (r_tree (m_root m)) -> Inv (r_damage (m_root m)) -> step_side3 (m_root m) o ->
  Inv (r_damage (m_root (step no_defects progs o m))).
Proof. exact (@WinScrollInv.dinv_step). Qed.
Print Assumptions C01_damage_inv.

(* every operation of the alphabet other than the flush *)
Theorem C01_preserved_all : forall progs o m,
  MInv3 m -> op_side3 (m_root m) o -> r_fault (m_root (step no_defects progs o m)) = false ->
  MInv3 (step no_defects progs o m).
Proof. exact (@WinScrollInv.step_preserves3). Qed.
Print Assumptions C01_preserved_all.

(* ---- C01 over histories, at full strength ----
   For every finite history of window-tree operations -- new, close, show, hide, the four
   restacks, move / resize / set_geometry (with the exposes of old and new area), expose,
   scroll / scrollrect / scroll_with_children, terminal resize, focus and cursor operations
   -- interleaved with flushes at arbitrary points, on every tree, for every scroll oracle
   of the terminal: the invariant holds throughout, and after every flush the damage is
   empty and every screen cell shows the composition.  [run_ok3]: each step is a flush or
   meets op_side3 (fresh ids for new windows; show / hide / geometry not on the root;
   geometry with its exposes; positive terminal sizes; visible windows non-empty when
   scrolling) and no rectangle-set loop runs out of fuel.  No bound on the length of the
   history, the number of windows or the coordinates. *)
Theorem C01_history : forall progs,
  (forall id, progs id = [DPaint]) ->
  forall ops m, MInv3 m -> run_ok3 progs ops m -> MInv3 (run no_defects progs ops m).
Proof. exact (@WinHistoryFull.history_preserves3). Qed.
Print Assumptions C01_history.

Theorem C01_history_flushed : forall progs,
  (forall id, progs id = [DPaint]) ->
  forall ops m, MInv3 m -> run_ok3 progs (ops ++ [OFlush]) m ->
    all_shown (run no_defects progs (ops ++ [OFlush]) m).
Proof. exact (@WinHistoryFull.history_flushed3). Qed.
Print Assumptions C01_history_flushed.

(* ... for EVERY amount of fuel of the rectangle-set loops: the fuel is a field of the window state
   ([r_fuel]; [m_init_f fuel] starts with that amount, [m_init] = [m_init_f rsfuel] with rsfuel = 300,
   the amount the extracted model runs with).  All theorems of this file that quantify over a state
   [st] / a model state [m] hold for every amount; [r_fault] = "some rectangle-set loop ran out of
   the state's fuel" *)
Theorem C01_init_full_any_fuel : forall fuel nl nc orc, 0 < nl -> 0 < nc ->
  r_fault (m_root (m_init_f fuel nl nc orc)) = false -> MInv3 (m_init_f fuel nl nc orc).
Proof. exact (@WinHistoryFull.init_inv3_f). Qed.
Print Assumptions C01_init_full_any_fuel.

Theorem C01_init_full : forall nl nc orc, 0 < nl -> 0 < nc -> r_fault (m_root (m_init nl nc orc)) = false ->
  MInv3 (m_init nl nc orc).
Proof. exact (@WinHistoryFull.init_inv3). Qed.
Print Assumptions C01_init_full.

(* TOTAL CORRECTNESS (no fuel qualifier): for every history over the alphabet WITHOUT the three
   scroll operations ([fuel_alpha]: new, close, show, hide, restack, geometry, expose, FLUSH,
   terminal resize, focus, cursor and control setters) there EXISTS an amount of fuel -- and then
   every larger amount does -- with which no rectangle-set loop runs out: the run does not fault,
   the invariant holds, and after a final flush every cell shows the composition.  From the C05
   termination theorems (C05_add_terminates, C05_contains_terminates) and monotonicity in the
   fuel (WinFuelMono.v; [scroll_region_mono], [shift_damage_mono] ... are proved for the scroll
   helpers too, the state-level commutation and progress of _scroll are not: for histories WITH
   scrolls the theorems above remain conditional on r_fault = false, for whatever fuel).
   [sides_along]: each operation meets its side condition step_side3 in the state reached by the
   prefix before it, for any fuel with which that prefix runs fault-free (the side conditions
   read only the window tree, which is the same for every such fuel). *)
Theorem C01_history_total : forall progs ops nl nc orc,
  (forall id, progs id = [DPaint]) -> 0 < nl -> 0 < nc ->
  forallb fuel_alpha ops = true -> sides_along progs ops nl nc orc ->
  exists fuel, forall f, (fuel <= f)%nat ->
    r_fault (m_root (run no_defects progs ops (m_init_f f nl nc orc))) = false /\
    MInv3 (run no_defects progs ops (m_init_f f nl nc orc)).
Proof. exact history_total_c01. Qed.
Print Assumptions C01_history_total.

Theorem C01_history_total_flushed : forall progs ops nl nc orc,
  (forall id, progs id = [DPaint]) -> 0 < nl -> 0 < nc ->
  forallb fuel_alpha ops = true -> sides_along progs (ops ++ [OFlush]) nl nc orc ->
  exists fuel, forall f, (fuel <= f)%nat ->
    r_fault (m_root (run no_defects progs (ops ++ [OFlush]) (m_init_f f nl nc orc))) = false /\
    all_shown (run no_defects progs (ops ++ [OFlush]) (m_init_f f nl nc orc)).
Proof. exact history_total_flushed. Qed.
Print Assumptions C01_history_total_flushed.

(* more fuel never changes a fault-free step: the run with more fuel is the same run *)
Theorem C01_fuel_monotone : forall cfg progs o m f',
  fuel_alpha o = true -> r_fault (m_root (step cfg progs o m)) = false ->
  (r_fuel (m_root m) <= f')%nat ->
  step cfg progs o (m_with_fuel f' m) = m_with_fuel f' (step cfg progs o m).
Proof. exact step_wf. Qed.
Print Assumptions C01_fuel_monotone.

(* ... for ALL operations, the three scrolls included, and every defect configuration: a run that
   faults at no step ([run_nf]; implied by run_ok3) is the same run with more fuel.  (The progress
   half for the scrolls -- some fuel suffices for rs_sub_vis / rs_clip / scroll_region /
   shift_damage and the scroll_one loop -- is WinFuelTotalScroll.v, used below.) *)
Theorem C01_run_fuel_monotone : forall cfg progs ops m f',
  run_nf cfg progs ops m -> (r_fuel (m_root m) <= f')%nat ->
  run cfg progs ops (m_with_fuel f' m) = m_with_fuel f' (run cfg progs ops m).
Proof. exact run_fuel_mono_nf. Qed.
Print Assumptions C01_run_fuel_monotone.

(* TOTAL CORRECTNESS OVER THE WHOLE ALPHABET, the three scroll operations included (no
   [fuel_alpha] hypothesis any more): progress of _scroll -- with enough fuel none of its loops
   (the visible region minus children and siblings in front [rs_sub_vis], the clip to each
   ancestor [rs_clip], the upward walk [scroll_region], the shift of the pending damage
   [shift_damage], the per-rectangle loop [scroll_one] with its exposes) runs out, from the C05
   termination theorems for add AND subtract -- under the scroll operations' own side condition
   (visible windows have non-empty rectangles, part of step_side3). *)
Theorem C01_scroll_progress : forall st tm id orig down rightw mask,
  Inv (r_damage st) -> r_fault st = false -> vis_nonempty (r_tree st) ->
  exists f0, r_fault (fst (fst (win_scroll no_defects (with_fuel f0 st) tm id orig down rightw mask))) = false.
Proof. exact win_scroll_ex. Qed.
Print Assumptions C01_scroll_progress.

Theorem C01_step_progress_all : forall progs o m,
  Inv (r_damage (m_root m)) -> r_fault (m_root m) = false -> step_side3 (m_root m) o ->
  exists f0, r_fault (m_root (step no_defects progs o (m_with_fuel f0 m))) = false.
Proof. exact step_ex_all. Qed.
Print Assumptions C01_step_progress_all.

(* for EVERY history (any operations, scrolls with any scroll oracle included) there exists an
   amount of fuel -- and then every larger amount does -- with which the run faults nowhere and the
   invariant of C01 holds at the end *)
Theorem C01_history_total_all : forall progs ops nl nc orc,
  (forall id, progs id = [DPaint]) -> 0 < nl -> 0 < nc ->
  sides_along progs ops nl nc orc ->
  exists fuel, forall f, (fuel <= f)%nat ->
    r_fault (m_root (run no_defects progs ops (m_init_f f nl nc orc))) = false /\
    MInv3 (run no_defects progs ops (m_init_f f nl nc orc)).
Proof. exact history_total_c01_all. Qed.
Print Assumptions C01_history_total_all.

(* ... and when it ends with a flush every screen cell shows the composition *)
Theorem C01_history_total_flushed_all : forall progs ops nl nc orc,
  (forall id, progs id = [DPaint]) -> 0 < nl -> 0 < nc ->
  sides_along progs (ops ++ [OFlush]) nl nc orc ->
  exists fuel, forall f, (fuel <= f)%nat ->
    r_fault (m_root (run no_defects progs (ops ++ [OFlush]) (m_init_f f nl nc orc))) = false /\
    all_shown (run no_defects progs (ops ++ [OFlush]) (m_init_f f nl nc orc)).
Proof. exact history_total_flushed_all. Qed.
Print Assumptions C01_history_total_flushed_all.

(* NON-VACUITY of [sides_along] for a history WITH a scroll: on a 4x6 terminal, create a visible
   child, scroll it down by one line, flush -- the side conditions hold for every fuel, so the
   total theorem applies to it (WinFuelTotalExample.v) *)
Theorem C01_history_total_example_sides :
  sides_along ex_progs ([ONew 1 0 (mkRect 1 1 2 3) false false false false; OScroll 1 1 0] ++ [OFlush]) 4 6 ex_orc.
Proof. exact ex_sides. Qed.
Print Assumptions C01_history_total_example_sides.

Theorem C01_history_total_example :
  exists fuel, forall f, (fuel <= f)%nat ->
    r_fault (m_root (run no_defects ex_progs (ex_ops ++ [OFlush]) (m_init_f f 4 6 ex_orc))) = false /\
    all_shown (run no_defects ex_progs (ex_ops ++ [OFlush]) (m_init_f f 4 6 ex_orc)).
Proof. exact ex_flushed. Qed.
Print Assumptions C01_history_total_example.

(* an EXPLICIT bound where it is easy: on an empty damage set one unit of fuel suffices for an
   expose, hence the initial state is fault-free and invariant for every fuel >= 1 (the general
   existence theorems above give no bound; WinFuelBound.v) *)
Theorem C01_init_fuel_bound : forall nl nc orc, 0 < nl -> 0 < nc -> forall f, (1 <= f)%nat ->
  r_fault (m_root (m_init_f f nl nc orc)) = false /\ MInv3 (m_init_f f nl nc orc).
Proof. exact init_bound_inv3. Qed.
Print Assumptions C01_init_fuel_bound.

(* ---- expose handlers that re-enter the window layer during the flush ----
   (tickit_window_expose / show / hide / raise / lower / raise_to_front / lower_to_back called
   from inside an expose handler; WinReDefs.v).  What they add during the render loop stays
   in the damage set with needs_expose set, for the next flush. *)

(* with no such calls the re-entrant flush is the plain one *)
Theorem C01_reentrant_pure : forall cfg hnd st tm,
  ids_unique (r_tree st) ->
  win_flush_re cfg (re_handler cfg hnd (fun _ => [])) st tm = win_flush cfg hnd st tm.
Proof. exact (@WinReProofs.flush_re_pure). Qed.
Print Assumptions C01_reentrant_pure.

(* the flag invariant -- damage pending implies needs_expose and needs_later_processing,
   queued restacks imply needs_later_processing -- survives a flush whose handlers re-enter,
   whatever they call and whatever the defect configuration *)
Theorem C01_reentrant_flags : forall cfg hnd racts st tm st' tm' lg,
  FlagInv st ->
  win_flush_re cfg (re_handler cfg hnd racts) st tm = (st', tm', lg) ->
  FlagInv st'.
Proof. exact (@WinReFlags.flush_re_flaginv). Qed.
Print Assumptions C01_reentrant_flags.

(* and so does the screen invariant: after such a flush every screen cell shows the
   composition of the FINAL tree or lies in the damage the handlers registered (which the
   next flush renders, by C01_flush) -- arbitrary calls: show and hide of windows the
   traversal has yet to visit, and CLOSE or DESTRUCTION (dropping the last references) of any
   window: the handler's own, one above it whose child list is being walked, a sibling the
   traversal has yet to visit or has visited.  [WinInputProofs.ids_unique st]: window ids
   are unique over the tree AND the detached (closed) subtrees; it is returned, so the
   theorem iterates, and it is an invariant of the history model when new windows get fresh
   ids (C01_forest_unique_init, _step, _step_re, _run) *)
Theorem C01_reentrant_flush : forall app progs racts st tm st' tm' lg,
  ScreenInv app st tm -> ids_unique (r_tree st) -> WinInputProofs.ids_unique st ->
  (forall id, progs id = [DPaint]) ->
  (forall id a, In a (racts id) ->
     match a with RShow w | RHide w => w <> t_id (r_tree st) | _ => True end) ->
  win_flush_re no_defects (re_handler no_defects (prog_handler app progs) racts) st tm = (st', tm', lg) ->
  r_fault st' = false ->
  ScreenInv app st' tm' /\ ids_unique (r_tree st') /\ WinInputProofs.ids_unique st'.
Proof. exact (@WinReEstablish.flush_re_establishes). Qed.
Print Assumptions C01_reentrant_flush.

(* ---- handlers that FLUSH THE ROOT or CHANGE A GEOMETRY while the flush runs (WinReFlush.v) ----
   [RFlush]: a nested tickit_window_flush(root) -- a complete flush with a render buffer of its
   own, sent to the terminal at once; [RGeom id r ex]: tickit_window_set_geometry (and the
   application's exposes of old and new area).  Because a nested flush applies queued restacks
   under the running traversal, [do_expose2] looks everything up in the CURRENT state (child
   list copied when the loop over a window starts, a child's rectangle read when it is reached
   and again for the mask), on fuel [efuel] = 64.  [old_only racts2]: every call is one of the
   earlier kinds; [proj_acts]: those calls. *)

(* with no calls the new flush is the plain one (log included) *)
Theorem C01_nested_pure : forall cfg hnd st tm,
  WinInputProofs.ids_unique st -> (WinInputProofs.height (r_tree st) <= efuel)%nat ->
  win_flush2 cfg (re_handler2 cfg hnd (fun _ => [])) st tm = win_flush cfg hnd st tm.
Proof. exact flush2_pure. Qed.
Print Assumptions C01_nested_pure.

(* conservative extension: with calls of the earlier kinds only (expose, show, hide, restack, close,
   destroy) it is win_flush_re -- so C01_reentrant_flags / C01_reentrant_flush are about it too *)
Theorem C01_nested_conservative : forall cfg hnd racts2 st tm,
  old_only racts2 -> WinInputProofs.ids_unique st -> (WinInputProofs.height (r_tree st) <= efuel)%nat ->
  win_flush2 cfg (re_handler2 cfg hnd racts2) st tm =
  win_flush_re cfg (re_handler cfg hnd (fun id => proj_acts (racts2 id))) st tm.
Proof. exact flush2_conservative. Qed.
Print Assumptions C01_nested_conservative.

(* the flag invariant survives ARBITRARY calls, nested flushes and geometry changes included *)
Theorem C01_nested_flags : forall cfg hnd racts st tm st' tm' lg,
  FlagInv st ->
  win_flush2 cfg (re_handler2 cfg hnd racts) st tm = (st', tm', lg) ->
  FlagInv st'.
Proof. exact flush2_flaginv. Qed.
Print Assumptions C01_nested_flags.

(* and so does the uniqueness of ids over the tree and the detached subtrees *)
Theorem C01_nested_unique : forall cfg hnd racts st tm,
  WinInputProofs.ids_unique st ->
  WinInputProofs.ids_unique (fst (fst (win_flush2 cfg (re_handler2 cfg hnd racts) st tm))).
Proof. exact flush2_unique. Qed.
Print Assumptions C01_nested_unique.

(* uniqueness of window ids over the tree and the detached subtrees is an invariant of the
   history model -- every operation of the alphabet, every defect configuration, handlers
   re-entering with any calls -- as long as a new window's id is fresh for the whole forest
   ([new_fresh]: for ONew, f_find st id = None; no condition on any other operation) *)
Theorem C01_forest_unique_init : forall nl nc orc,
  WinInputProofs.ids_unique (m_root (m_init nl nc orc)).
Proof. exact forest_unique_init. Qed.
Print Assumptions C01_forest_unique_init.

Theorem C01_forest_unique_step : forall cfg progs o m,
  WinInputProofs.ids_unique (m_root m) -> new_fresh o (m_root m) ->
  WinInputProofs.ids_unique (m_root (step cfg progs o m)).
Proof. exact forest_unique_step. Qed.
Print Assumptions C01_forest_unique_step.

Theorem C01_forest_unique_step_re : forall cfg progs racts o m,
  WinInputProofs.ids_unique (m_root m) -> new_fresh o (m_root m) ->
  WinInputProofs.ids_unique (m_root (step_re cfg progs racts o m)).
Proof. exact forest_unique_step_re. Qed.
Print Assumptions C01_forest_unique_step_re.

Theorem C01_forest_unique_run : forall cfg progs ops nl nc orc,
  run_fresh cfg progs ops (m_init nl nc orc) ->
  WinInputProofs.ids_unique (m_root (run cfg progs ops (m_init nl nc orc))).
Proof. exact forest_unique_history. Qed.
Print Assumptions C01_forest_unique_run.

(* a window closes itself in its own expose handler while its parent's child list is being
   walked: the sibling behind it is still exposed in the same flush (log 1, 2, 0), the closed
   window is gone from the tree, its area is pending damage, and the next flush settles it *)
Example C01_reentrant_close_nonvacuous :
  map t_id (t_kids (r_tree (m_root cl_m0))) = [1; 2] /\
  map fst (m_xlog cl_m1) = [1; 2; 0] /\
  map t_id (t_kids (r_tree (m_root cl_m1))) = [2] /\
  map t_id (r_orphans (m_root cl_m1)) = [1] /\
  r_damage (m_root cl_m1) = [mkRect 1 1 2 2] /\
  r_nexp (m_root cl_m1) = true /\ r_later (m_root cl_m1) = true /\ r_fault (m_root cl_m1) = false /\
  pending_ok cl_m1 = true /\
  t_grid (m_term cl_m1) (1, 1) = m_app cl_m1 2 1 1 /\
  t_grid (m_term cl_m1) (2, 2) = m_app cl_m1 0 2 2 /\
  map fst (m_xlog cl_m2) = [2; 0] /\
  r_damage (m_root cl_m2) = [] /\ r_nexp (m_root cl_m2) = false /\ r_fault (m_root cl_m2) = false /\
  pending_ok cl_m2 = true /\ screen_ok cl_m2 = true.
Proof. exact (@WinReExample.re_close_nonvacuous). Qed.

Example C01_reentrant_nonvacuous :
  (* after the first flush: damage pending (exactly window 2's area), the flags raised, every
     cell outside the damage shows the composition -- but the screen as a whole does not: window
     2's cells show what the ROOT painted there *)
  r_damage (m_root nv_m1) = [mkRect 2 3 2 3] /\
  r_nexp (m_root nv_m1) = true /\ r_later (m_root nv_m1) = true /\ r_fault (m_root nv_m1) = false /\
  pending_ok nv_m1 = true /\ screen_ok nv_m1 = false /\
  t_grid (m_term nv_m1) (2, 3) = m_app nv_m1 0 2 3 /\
  (* window 1 was exposed, window 2 was not *)
  map fst (m_xlog nv_m1) = [1; 0] /\
  (* after the second flush: no damage, the screen is the composition, and window 2's cells show
     window 2's content *)
  r_damage (m_root nv_m2) = [] /\ r_nexp (m_root nv_m2) = false /\ r_fault (m_root nv_m2) = false /\
  screen_ok nv_m2 = true /\ pending_ok nv_m2 = true /\
  t_grid (m_term nv_m2) (2, 3) = m_app nv_m2 2 0 0 /\
  t_grid (m_term nv_m2) (3, 5) = m_app nv_m2 2 1 2 /\
  t_grid (m_term nv_m2) (2, 3) <> t_grid (m_term nv_m1) (2, 3) /\
  map fst (m_xlog nv_m2) = [2; 0].
Proof. exact (@WinReExample.re_nonvacuous). Qed.

(* ---- END TO END: window layer + concrete render buffer + its flush + terminal ----
   Everything above is about the window layer drawing on an abstract per-cell buffer that an
   abstract terminal copies.  Here the drawing is done CONCRETELY:
     [flush_ops hp tree rects] (WinRBView.v) is the sequence of render-buffer API calls the
       render loop of tickit_window_flush and _do_expose make -- save, clip, per visible child
       save / clip / translate / the child / restore / mask, then the window's handler; the
       handler of a drawing program makes the calls [c_prog] (as harness/win_harness.h does:
       odd lines character by character, even lines as one text; text_at, erase_at, char_at,
       hline_at / vline_at (single, no caps), eraserect, skip_at, clear);
     [cscreen] runs that program on the span grid of RBDefs.v (the model of renderbuffer.c,
       property C03), flushes the buffer with RBFlushDefs.flush (tickit_renderbuffer_flush_to_term,
       property C04) and lets C04's terminal execute the emitted goto / setpen / print / erasech;
     [cwin_flush] is win_flush with [cscreen] in place of the abstract buffer and terminal.
   [TR tm t]: terminal t (RBFlushDefs.term: a grid of cells with text and pen) is well formed,
   has tm's size and every cell's text is [enc] of tm's content (the character itself; the
   table's box-drawing glyph for a line cell).  [CScreenInv app st t] := exists tm, ScreenInv
   app st tm /\ TR tm t.  The proof composes the window-layer theorems with C03_program and
   C04_flush_grid_all_reachable through a simulation relation between the abstract buffer and
   the cell-wise specification RBSpec.v ([Rrb], WinRBSim.v: every operation the window layer
   performs -- save, clip, translate, mask, restore, every drawing call -- is the astep of the
   specification).

   REMAINING HYPOTHESES: [app_ok app]: what the application paints are characters of ONE column
   (cpw = 1 in the render-buffer group's width function) outside the codes 201..215 the window
   model reserves for line cells -- the window model is per cell, a double-width character
   straddling a window edge is not expressible in it; windows have no pen of their own (the
   model has one pen; [TR] compares texts, not pens); the terminal has the root's size
   (ScreenInv); the cursor calls around the drawing are not part of the grid (C15). *)

(* the flush, concretely, never faults, and afterwards EVERY cell of the terminal shows the
   character the painter's-model composition puts there; the invariant is re-established *)
Theorem C01_end_to_end : forall app progs st (t0 : RBFlushDefs.term) st' t1 lg,
  app_ok app -> CScreenInv app st t0 -> ids_unique (r_tree st) -> (forall id, progs id = [DPaint]) ->
  cwin_flush no_defects (c_hp app progs) st t0 = RBDefs.Ok (st', t1, lg) -> r_fault st' = false ->
  r_damage st' = [] /\
  (forall y x, 0 <= y < RBFlushDefs.t_lines t1 -> 0 <= x < RBFlushDefs.t_cols t1 ->
     RBFlushDefs.t_text (RBTermSim.tcellat t1 y x) = [shows app (r_tree st') (y, x)]) /\
  CScreenInv app st' t1 /\ ids_unique (r_tree st').
Proof. exact end_to_end_c01_f. Qed.
Print Assumptions C01_end_to_end.

Theorem C01_end_to_end_total : forall app progs st (t0 : RBFlushDefs.term),
  app_ok app -> CScreenInv app st t0 -> ids_unique (r_tree st) -> (forall id, progs id = [DPaint]) ->
  exists st' t1 lg, cwin_flush no_defects (c_hp app progs) st t0 = RBDefs.Ok (st', t1, lg).
Proof. exact end_to_end_c01_total_f. Qed.
Print Assumptions C01_end_to_end_total.

(* the simulation itself, for ARBITRARY drawing programs and every defect configuration: the
   concrete flush computes the same window state and log as the model's, and a terminal in
   relation with the model's *)
Theorem C01_end_to_end_sim : forall app progs cfg st tm (t0 : RBFlushDefs.term) st' tm' lg,
  app_ok app -> TR tm t0 ->
  0 <= lines (root_selfrect (after_queue st)) <= t_lines tm ->
  0 <= cols (root_selfrect (after_queue st)) <= t_cols tm ->
  win_flush cfg (prog_handler app progs) st tm = (st', tm', lg) ->
  exists t1, cwin_flush cfg (c_hp app progs) st t0 = RBDefs.Ok (st', t1, lg) /\ TR tm' t1.
Proof. exact cwin_flush_sim_f. Qed.
Print Assumptions C01_end_to_end_sim.

(* the harness's application content meets the content hypothesis *)
Theorem C01_end_to_end_app_base : app_ok app_base.
Proof. exact app_base_ok. Qed.
Print Assumptions C01_end_to_end_app_base.

(* computed: a 4x6 root with a 2x3 child at (1,1) on a blank terminal *)
Example C01_end_to_end_nonvacuous :
  match cwin_flush no_defects (c_hp app_base (fun _ => [DPaint])) e2e_st (blank_term 4 6) with
  | RBDefs.Ok (st', t1, lg) =>
    e2e_cells_ok st' t1 = true /\ r_damage st' = [] /\ map fst lg = [1; 0] /\
    RBFlushDefs.t_text (RBTermSim.tcellat t1 1 1) = [app_base 1 0 0] /\
    RBFlushDefs.t_text (RBTermSim.tcellat t1 0 0) = [app_base 0 0 0] /\
    app_base 1 0 0 <> app_base 0 1 1
  | _ => False
  end.
Proof. exact e2e_nonvacuous. Qed.

(* [shows] is [compose] on the screen of a visible root *)
Theorem C01_shows_is_compose : forall app tree q,
  w_vis (t_info tree) = true -> cell_inb (selfrect (t_info tree)) q = true ->
  compose app tree q = Some (shows app tree q).
Proof. exact compose_shows. Qed.
Print Assumptions C01_shows_is_compose.

(* the pinned _scrollrectset (defect #18, repaired) leaves a stale cell after a flush; the
   repaired model does not *)
Theorem C01_refuted_18 :
  screen_ok (run cfg18 paint_progs hist18 (m_init 4 6 pol_accept)) = false /\
  screen_ok (run no_defects paint_progs hist18 (m_init 4 6 pol_accept)) = true.
Proof. exact refuted_18. Qed.
Print Assumptions C01_refuted_18.

Example C01_nonvacuous :
  screens_ok no_defects hist_nv (m_init 4 6 (pol_script [true; false; true; false])) = true /\
  length (t_kids (r_tree (m_root (run no_defects paint_progs hist_nv (m_init 4 6 pol_accept))))) = 2%nat.
Proof. exact nonvacuous_c01. Qed.
