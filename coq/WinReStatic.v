(* WinReStatic.v -- re-entering expose handlers, part 3(a): the screen invariant after a flush
   whose handlers call tickit_window_expose and the restacking functions only
   (racts_static: no show, hide, close or destroy).  None of these calls changes the tree while the flush runs, so the render
   loop paints exactly what the plain flush paints; the calls only add damage, raise flags and
   queue restacks, and each of them keeps ScreenInv (expose_preserves,
   restack_queued_preserves): flush_re_establishes_static. *)
From Coq Require Import ZArith List Bool Lia ZifyBool.
From Tickit Require Import RectDefs RectProofs WinRectSet WinRectSetProofs WinDefs WinHist WinSpec
  WinExposeProofs WinFlushProofs WinLogDisjoint WinScreenInv WinLocality WinPreserve WinReDefs
  WinReProofs WinReFlags.
Import ListNotations.
Local Open Scope Z_scope.
Local Strategy 1000 [rsfuel].

(* ------------------------------------------------------------------------------------ *)
(* a fault never goes away                                                               *)

Lemma run_act_fault cfg st a : r_fault (run_act cfg st a) = false -> r_fault st = false.
Proof.
  assert (Hclose : forall id, r_fault (win_close cfg st id) = false -> r_fault st = false).
  { intros id. destruct (win_close_shape cfg st id) as [E|(X & (_ & HX & _) & [E|(y & r & E)])]; rewrite E.
    - tauto.
    - congruence.
    - intros H. apply win_expose_fault in H. congruence. }
  destruct a as [id r|id|id|k id|id|id]; cbn [run_act]; try apply Hclose.
  - apply win_expose_fault.
  - destruct (win_show_shape cfg st id) as [E|(X & y & ex & (_ & HX & _) & E & _)]; rewrite E; [tauto|].
    intros H. apply win_expose_fault in H. congruence.
  - destruct (win_hide_shape cfg st id) as [E|[(X & (_ & HX & _) & E)|(X & y & r & (_ & HX & _) & E)]]; rewrite E.
    + tauto.
    + congruence.
    + intros H. apply win_expose_fault in H. congruence.
  - unfold win_restack. destruct (t_parent_id id (r_tree st)); [|tauto].
    destruct (r_queue st); cbn [r_fault set_flags set_queue]; tauto.
Qed.

Lemma run_acts_fault cfg acts : forall st, r_fault (run_acts cfg acts st) = false -> r_fault st = false.
Proof.
  unfold run_acts. induction acts as [|a rest IH]; intros st H; [exact H|].
  cbn [fold_left] in H. apply (run_act_fault cfg st a). apply IH. exact H.
Qed.

Lemma acts_along_fault cfg racts : forall lg st,
  r_fault (acts_along cfg racts lg st) = false -> r_fault st = false.
Proof.
  unfold acts_along. induction lg as [|e lg IH]; intros st H; [exact H|].
  cbn [fold_left] in H. apply (run_acts_fault cfg (racts (fst e)) st). apply IH. exact H.
Qed.

(* an invariant that every non-faulty step keeps is kept by a non-faulty run *)
Lemma run_acts_preserve (I : root -> Prop) cfg acts :
  (forall s a, In a acts -> I s -> r_fault (run_act cfg s a) = false -> I (run_act cfg s a)) ->
  forall st, I st -> r_fault (run_acts cfg acts st) = false -> I (run_acts cfg acts st).
Proof.
  unfold run_acts. induction acts as [|a rest IH]; intros Hstep st HI Hf; [exact HI|].
  cbn [fold_left] in *. apply IH.
  - intros s a' Hin. apply Hstep. right; exact Hin.
  - apply Hstep; [left; reflexivity|exact HI|]. apply (run_acts_fault cfg rest). exact Hf.
  - exact Hf.
Qed.

Lemma acts_along_preserve (I : root -> Prop) cfg racts :
  (forall s id, I s -> r_fault (run_acts cfg (racts id) s) = false -> I (run_acts cfg (racts id) s)) ->
  forall lg st, I st -> r_fault (acts_along cfg racts lg st) = false -> I (acts_along cfg racts lg st).
Proof.
  intros Hstep. unfold acts_along. induction lg as [|e lg IH]; intros st HI Hf; [exact HI|].
  cbn [fold_left] in *. apply IH; [|exact Hf].
  apply Hstep; [exact HI|]. apply (acts_along_fault cfg racts lg). exact Hf.
Qed.

(* ------------------------------------------------------------------------------------ *)
(* the static class                                                                      *)

Definition act_static (a : ract) : Prop :=
  match a with RExpose _ _ | RRestack _ _ => True | RShow _ | RHide _ | RClose _ | RDestroy _ => False end.

Definition racts_static (racts : Z -> list ract) : Prop :=
  forall id a, In a (racts id) -> act_static a.

Lemma run_act_static_tree cfg st a : act_static a -> r_tree (run_act cfg st a) = r_tree st.
Proof.
  destruct a as [id r|id|id|k id|id|id]; cbn [act_static run_act]; intros H; try contradiction.
  - apply win_expose_tree.
  - apply win_restack_tree.
Qed.

Lemma run_acts_static_tree cfg racts id st :
  racts_static racts -> r_tree (run_acts cfg (racts id) st) = r_tree st.
Proof.
  intros Hs.
  apply (run_acts_keeps (fun s => r_tree s = r_tree st) cfg (racts id)); [|reflexivity].
  intros s a Hin E. rewrite run_act_static_tree; [exact E|]. apply (Hs id a Hin).
Qed.

(* what one static call keeps *)
Definition SInv (app : Z -> Z -> Z -> Z) (tm : term) (T0 : wtree) (s : root) : Prop :=
  ScreenInv app s tm /\ ids_unique (r_tree s) /\ r_tree s = T0.

Lemma run_act_static_sinv cfg app tm T0 s a :
  nonempty (w_rect (t_info T0)) -> act_static a ->
  SInv app tm T0 s -> r_fault (run_act cfg s a) = false -> SInv app tm T0 (run_act cfg s a).
Proof.
  intros Hr Ha (SI & Hu & Ht) Hf. destruct a as [id r|id|id|k id|id|id]; cbn [act_static run_act] in *; try contradiction.
  - destruct (expose_preserves app s tm id r SI Hu) as [A B].
    + intros _ _. rewrite Ht. exact Hr.
    + exact Hf.
    + split; [exact A|]. split; [exact B|]. rewrite win_expose_tree. exact Ht.
  - destruct (restack_queued_preserves app s tm k id SI Hu) as (A & B & _).
    split; [exact A|]. split; [exact B|]. rewrite win_restack_tree. exact Ht.
Qed.

Lemma screeninv_flags app s tm a :
  ScreenInv app s tm -> ScreenInv app (set_flags s (r_nexp s) a (r_later s)) tm.
Proof.
  intros [Ho Hrv Hs Hne Hc Hf].
  constructor; cbn [r_tree r_damage r_queue r_nexp r_later set_flags]; assumption.
Qed.

(* ------------------------------------------------------------------------------------ *)
(* Target 3(a)                                                                           *)

Theorem flush_re_establishes_static app progs racts st tm st' tm' lg :
  ScreenInv app st tm -> ids_unique (r_tree st) ->
  (forall id, progs id = [DPaint]) ->
  racts_static racts ->
  win_flush_re no_defects (re_handler no_defects (prog_handler app progs) racts) st tm = (st', tm', lg) ->
  r_fault st' = false ->
  ScreenInv app st' tm' /\ ids_unique (r_tree st').
Proof.
  intros SI Hu Hprogs Hstat Hfl Hf.
  set (hnd := prog_handler app progs) in *.
  destruct (r_later st) eqn:Hl.
  2:{ unfold win_flush_re in Hfl. rewrite Hl in Hfl. cbn [negb] in Hfl. injection Hfl as <- <- _.
      split; assumption. }
  (* the plain flush from the same state *)
  destruct (win_flush no_defects hnd st tm) as [[stF tmF] lgF] eqn:HflF.
  pose proof HflF as HflF'.
  rewrite (win_flush_re_unfold no_defects _ st tm Hl) in Hfl.
  rewrite (win_flush_unfold no_defects hnd st tm Hl) in HflF. cbn zeta in Hfl, HflF.
  set (st2 := after_queue st) in *.
  destruct (r_nexp st2) eqn:En.
  2:{ (* nothing to render: the two flushes coincide *)
      assert (E : (st', tm') = (stF, tmF)).
      { destruct (r_nrest st2); injection Hfl as <- <- _; injection HflF as <- <- _; reflexivity. }
      injection E as -> ->.
      destruct (flush_establishes_any_queue app progs st tm stF tmF lgF SI Hu Hprogs HflF' Hf) as (_ & _ & A & B).
      split; assumption. }
  injection HflF as EstF EtmF _.
  set (T0 := r_tree st2) in *.
  set (rects := flush_rects no_defects st2) in *.
  set (b0 := rb_new (lines (root_selfrect st2)) (cols (root_selfrect st2))) in *.
  assert (Hu2 : NoDup (t_ids T0)) by (apply after_queue_ids; exact Hu).
  destruct (flush_rb_re_static no_defects hnd racts T0 Hu2) with (rects := rects) (s := loop_start st2) (b := b0)
    as [E1 _].
  { intros s id Hs. rewrite run_acts_static_tree by exact Hstat. exact Hs. }
  { reflexivity. }
  unfold loop_result in Hfl. fold rects b0 in Hfl. rewrite E1 in Hfl. cbn [fst snd] in Hfl.
  set (sL := acts_along no_defects racts (flush_log T0 rects) (loop_start st2)) in *.
  injection Hfl as Est' Etm' _.
  assert (HfL : r_fault sL = false) by (rewrite <- Est' in Hf; exact Hf).
  assert (Hf0 : r_fault (loop_start st2) = false) by (apply (acts_along_fault no_defects racts _ _ HfL)).
  assert (HfF : r_fault stF = false) by (rewrite <- EstF; exact Hf0).
  destruct (flush_establishes_any_queue app progs st tm stF tmF lgF SI Hu Hprogs HflF' HfF) as (_ & _ & SIF & HuF).
  (* the state the render loop starts from satisfies the invariant on the flushed screen *)
  assert (SI0 : ScreenInv app (loop_start st2) tmF).
  { rewrite <- EstF in SIF. destruct SIF as [Ho Hrv Hs Hne Hc Hfg].
    constructor; assumption. }
  assert (Hu0 : ids_unique (r_tree (loop_start st2))) by exact Hu2.
  assert (HL : SInv app tmF T0 sL).
  { destruct (Z_lt_dec 0 (lines (w_rect (t_info T0)))) as [H1|H1];
      [destruct (Z_lt_dec 0 (cols (w_rect (t_info T0)))) as [H2|H2]|].
    - apply (acts_along_preserve (SInv app tmF T0) no_defects racts).
      + intros s id HI Hfs. apply (run_acts_preserve (SInv app tmF T0)); [|exact HI|exact Hfs].
        intros s' a Hin HI' Hfa. apply run_act_static_sinv; try assumption.
        * split; assumption.
        * apply (Hstat id a Hin).
      + split; [exact SI0|]. split; [exact Hu0|reflexivity].
      + exact HfL.
    - assert (Er : rects = []).
      { apply flush_rects_empty_root; [reflexivity|]. fold T0. unfold nonempty. lia. }
      subst sL. rewrite Er. unfold flush_log, acts_along. cbn [flat_map fold_left]. split; [exact SI0|]. split; [exact Hu0|reflexivity].
    - assert (Er : rects = []).
      { apply flush_rects_empty_root; [reflexivity|]. fold T0. unfold nonempty. lia. }
      subst sL. rewrite Er. unfold flush_log, acts_along. cbn [flat_map fold_left]. split; [exact SI0|]. split; [exact Hu0|reflexivity]. }
  destruct HL as (SIL & HuL & HtL).
  assert (Etm : tm' = tmF).
  { rewrite <- Etm', <- EtmF, HtL. reflexivity. }
  rewrite Etm. rewrite <- Est'. split.
  - exact (screeninv_flags app (set_flags sL (r_nexp sL) true (r_later sL)) tmF false
             (screeninv_flags app sL tmF true SIL)).
  - cbn [r_tree set_flags]. exact HuL.
Qed.
