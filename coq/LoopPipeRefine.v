(* LoopPipeRefine.v -- the model of the self-pipe fallback (LoopPipeDefs.v: running batch, cursor
   walk, fuel) refines the snapshot specification LoopPipeSnap.v: for every callback environment
   and every fallback script -- raises before iterations, from deferred callbacks, from signal
   callbacks of the running dispatch, right after the wakeup read; cancellations and
   registrations from anywhere, a watch of the signal being dispatched included -- the two
   produce the same log, and the model never takes a "cannot happen" branch. *)
From Coq Require Import ZArith List Bool Lia.
From Tickit Require Import LoopDefs LoopSigDefs LoopSigProofs LoopSigIO LoopSigSpec LoopSigRefine LoopPipeDefs LoopPipeSnap.
Import ListNotations.
Local Open Scope Z_scope.

Definition yabs (s : fst) : yst :=
  mkY (f_sgws s) (f_dr s ++ f_dl s) (f_pend s) (f_pipe s) (f_between s) (f_next s) (f_iter s) (f_log s).

Record K (s : fst) : Prop := mkK {
  K_sgnd : NoDup (map g_id (f_sgws s));
  K_ltnd : NoDup (map l_id (f_dr s ++ f_dl s));
  K_sglt : forall w, In w (f_sgws s) -> g_id w < f_next s;
  K_ltlt : forall w, In w (f_dr s ++ f_dl s) -> l_id w < f_next s }.

Lemma K_same : forall s s', K s -> f_sgws s' = f_sgws s -> f_dr s' = f_dr s -> f_dl s' = f_dl s -> f_next s <= f_next s' -> K s'.
Proof.
  intros s s' [a b c d] Hg Hr Hd Hn. apply mkK.
  - rewrite Hg. exact a.
  - rewrite Hr, Hd. exact b.
  - rewrite Hg. intros w Hw. specialize (c w Hw). lia.
  - rewrite Hr, Hd. intros w Hw. specialize (d w Hw). lia.
Qed.

(* ------------------------------------------------------------------ cancel *)

Inductive fcancel_case (s : fst) (id : Z) (s' : fst) : Prop :=
| fc_sig : forall w, find_sgw id (f_sgws s) = Some w ->
    f_sgws s' = remove_sgw id (f_sgws s) -> f_dl s' = f_dl s -> f_dr s' = f_dr s ->
    f_cursor s' = (match f_cursor s with Some cu => if cu =? id then sgw_after id (f_sgws s) else f_cursor s | None => None end) ->
    f_log s' = (if g_unbind w then [OEv (mkE id KSig EV_UNBIND (f_iter s) 0 (g_sig w))] else []) ++ f_log s ->
    fcancel_case s id s'
| fc_dl : forall w, find_sgw id (f_sgws s) = None -> find_ltr id (f_dl s) = Some w ->
    f_sgws s' = f_sgws s -> f_dl s' = remove_ltr id (f_dl s) -> f_dr s' = f_dr s -> f_cursor s' = f_cursor s ->
    f_log s' = (if l_unbind w then [OEv (mkE id KLater EV_UNBIND (f_iter s) 0 0)] else []) ++ f_log s ->
    fcancel_case s id s'
| fc_dr : forall w, find_sgw id (f_sgws s) = None -> find_ltr id (f_dl s) = None -> find_ltr id (f_dr s) = Some w ->
    f_sgws s' = f_sgws s -> f_dl s' = f_dl s -> f_dr s' = remove_ltr id (f_dr s) -> f_cursor s' = f_cursor s ->
    f_log s' = (if l_unbind w then [OEv (mkE id KLater EV_UNBIND (f_iter s) 0 0)] else []) ++ f_log s ->
    fcancel_case s id s'
| fc_none : s' = s -> find_sgw id (f_sgws s) = None -> find_ltr id (f_dl s) = None -> find_ltr id (f_dr s) = None ->
    fcancel_case s id s'.

Definition fsame (s s' : fst) : Prop :=
  f_pend s' = f_pend s /\ f_pipe s' = f_pipe s /\ f_between s' = f_between s /\ f_next s' = f_next s /\ f_iter s' = f_iter s.

Lemma f_cancel_cases : forall s id, fsame s (f_cancel s id) /\ fcancel_case s id (f_cancel s id).
Proof.
  intros s id. unfold f_cancel.
  destruct (find_sgw id (f_sgws s)) as [w|] eqn:Esg.
  - cbn [f_cursor fu_sgws]. destruct (f_cursor s) as [cu|] eqn:Ec.
    + destruct (cu =? id) eqn:Ecu; destruct (g_unbind w) eqn:Eu; (split; [repeat split|]);
        eapply fc_sig; try eassumption; try reflexivity; cbn; rewrite ?Ec, ?Ecu, ?Eu; reflexivity.
    + destruct (g_unbind w) eqn:Eu; (split; [repeat split|]);
        eapply fc_sig; try eassumption; try reflexivity; cbn; rewrite ?Ec, ?Eu; reflexivity.
  - destruct (find_ltr id (f_dl s)) as [w|] eqn:Edl.
    + destruct (l_unbind w) eqn:Eu; (split; [repeat split|]);
        eapply fc_dl; try eassumption; try reflexivity; cbn; rewrite ?Eu; reflexivity.
    + destruct (find_ltr id (f_dr s)) as [w|] eqn:Edr.
      * destruct (l_unbind w) eqn:Eu; (split; [repeat split|]);
          eapply fc_dr; try eassumption; try reflexivity; cbn; rewrite ?Eu; reflexivity.
      * split; [repeat split|]. apply fc_none; [reflexivity|assumption..].
Qed.

Lemma sim_f_cancel : forall s id, K s -> yabs (f_cancel s id) = y_cancel (yabs s) id /\ K (f_cancel s id).
Proof.
  intros s id HK. destruct (f_cancel_cases s id) as [[K1 [K2 [K3 [K4 K5]]]] C].
  set (s' := f_cancel s id) in *. clearbody s'.
  destruct C as [w Esg Hg Hd Hr Hc Hl | w Esg Edl Hg Hd Hr Hc Hl | w Esg Edl Edr Hg Hd Hr Hc Hl | E Esg Edl Edr].
  - split.
    + unfold yabs, y_cancel. cbn [y_sgs]. rewrite Esg, Hg, Hd, Hr, K1, K2, K3, K4, K5, Hl. destruct (g_unbind w); reflexivity.
    + apply mkK.
      * rewrite Hg. eapply subl_nodup; [apply subl_remove_sgw|apply (K_sgnd s HK)].
      * rewrite Hr, Hd. apply (K_ltnd s HK).
      * rewrite Hg, K4. intros v Hv. apply (K_sglt s HK). eapply in_remove_sgw_elem. exact Hv.
      * rewrite Hr, Hd, K4. apply (K_ltlt s HK).
  - pose proof (find_ltr_disjoint id (f_dr s) (f_dl s) w (K_ltnd s HK) Edl) as Edr.
    split.
    + unfold yabs, y_cancel. cbn [y_sgs y_def]. rewrite Esg, find_ltr_app, Edr, Edl, remove_ltr_app, Edr.
      rewrite Hg, Hd, Hr, K1, K2, K3, K4, K5, Hl. destruct (l_unbind w); reflexivity.
    + assert (Hsub : subl (map l_id (f_dr s ++ remove_ltr id (f_dl s))) (map l_id (f_dr s ++ f_dl s))).
      { rewrite !map_app. apply subl_app; [apply subl_refl|apply subl_remove_ltr]. }
      apply mkK.
      * rewrite Hg. apply (K_sgnd s HK).
      * rewrite Hr, Hd. eapply subl_nodup; [exact Hsub|apply (K_ltnd s HK)].
      * rewrite Hg, K4. apply (K_sglt s HK).
      * rewrite Hr, Hd, K4. intros v Hv. apply (K_ltlt s HK). apply in_app_or in Hv. apply in_or_app.
        destruct Hv as [Hv|Hv]; [left; exact Hv|right; eapply in_remove_ltr_elem; exact Hv].
  - split.
    + unfold yabs, y_cancel. cbn [y_sgs y_def]. rewrite Esg, find_ltr_app, Edr, remove_ltr_app, Edr.
      rewrite Hg, Hd, Hr, K1, K2, K3, K4, K5, Hl. destruct (l_unbind w); reflexivity.
    + assert (Hsub : subl (map l_id (remove_ltr id (f_dr s) ++ f_dl s)) (map l_id (f_dr s ++ f_dl s))).
      { rewrite !map_app. apply subl_app; [apply subl_remove_ltr|apply subl_refl]. }
      apply mkK.
      * rewrite Hg. apply (K_sgnd s HK).
      * rewrite Hr, Hd. eapply subl_nodup; [exact Hsub|apply (K_ltnd s HK)].
      * rewrite Hg, K4. apply (K_sglt s HK).
      * rewrite Hr, Hd, K4. intros v Hv. apply (K_ltlt s HK). apply in_app_or in Hv. apply in_or_app.
        destruct Hv as [Hv|Hv]; [left; eapply in_remove_ltr_elem; exact Hv|right; exact Hv].
  - subst s'. split; [|exact HK]. unfold y_cancel. cbn [y_sgs y_def yabs]. rewrite Esg, find_ltr_app, Edr, Edl. reflexivity.
Qed.

Lemma sim_f_arrive : forall s sig, K s -> yabs (f_arrive s sig) = y_arrive (yabs s) sig /\ K (f_arrive s sig).
Proof.
  intros s sig HK. unfold f_arrive, y_arrive. change (y_watched (yabs s) sig) with (f_watched s sig).
  destruct (f_watched s sig); [|split; [reflexivity|exact HK]].
  split; [reflexivity|]. eapply K_same; [exact HK|reflexivity..|cbn; lia].
Qed.

Lemma sim_f_action : forall s a, K s -> yabs (f_action s a) = y_action (yabs s) a /\ K (f_action s a).
Proof.
  intros s a HK. destruct a as [ub cb|fd cond ub cb|sig ub cb|id|e|sig| |]; try (split; [reflexivity|exact HK]).
  - split; [unfold yabs; cbn; rewrite app_assoc; reflexivity|]. apply mkK; cbn.
    + apply (K_sgnd s HK).
    + rewrite app_assoc, map_app. cbn [map l_id]. apply NoDup_app_intro_single; [apply (K_ltnd s HK)|].
      intros Hin. apply in_map_iff in Hin. destruct Hin as [w [E Hw]]. pose proof (K_ltlt s HK w Hw). lia.
    + intros w Hw. pose proof (K_sglt s HK w Hw). lia.
    + intros w Hw. rewrite app_assoc in Hw. apply in_app_or in Hw. destruct Hw as [Hw|[Hw|[]]].
      * pose proof (K_ltlt s HK w Hw). lia.
      * subst w. cbn. lia.
  - split; [reflexivity|]. apply mkK; cbn.
    + rewrite map_app. cbn [map g_id]. apply NoDup_app_intro_single; [apply (K_sgnd s HK)|].
      intros Hin. apply in_map_iff in Hin. destruct Hin as [w [E Hw]]. pose proof (K_sglt s HK w Hw). lia.
    + apply (K_ltnd s HK).
    + intros w Hw. apply in_app_or in Hw. destruct Hw as [Hw|[Hw|[]]].
      * pose proof (K_sglt s HK w Hw). lia.
      * subst w. cbn. lia.
    + intros w Hw. pose proof (K_ltlt s HK w Hw). lia.
  - apply sim_f_cancel. exact HK.
  - apply sim_f_arrive. exact HK.
Qed.

Lemma sim_f_actions : forall l s, K s -> yabs (f_actions s l) = y_actions (yabs s) l /\ K (f_actions s l).
Proof.
  induction l as [|a r IH]; intros s HK; [split; [reflexivity|exact HK]|].
  cbn [f_actions y_actions fold_left]. destruct (sim_f_action s a HK) as [E HK2]. rewrite <- E. apply IH. exact HK2.
Qed.

(* ------------------------------------------------------------------ frames *)

Lemma fact_next : forall s a, f_next s <= f_next (f_action s a).
Proof.
  intros s a. destruct a as [ub cb|fd cond ub cb|sig ub cb|id|e|sig| |]; cbn; try lia.
  - destruct (f_cancel_cases s id) as [[_ [_ [_ [K4 _]]]] _]. rewrite K4. lia.
  - unfold f_arrive. destruct (f_watched s sig); cbn; lia.
Qed.

Lemma fact_dr : forall s a, subl (map l_id (f_dr (f_action s a))) (map l_id (f_dr s)).
Proof.
  intros s a. destruct a as [ub cb|fd cond ub cb|sig ub cb|id|e|sig| |]; try apply subl_refl.
  - cbn [f_action]. destruct (f_cancel_cases s id) as [_ C].
    destruct C as [w _ _ _ Hr _ _ | w _ _ _ _ Hr _ _ | w _ _ _ _ _ Hr _ _ | E _ _ _]; try (rewrite Hr; apply subl_refl).
    + rewrite Hr. apply subl_remove_ltr.
    + rewrite E. apply subl_refl.
  - cbn [f_action]. unfold f_arrive. destruct (f_watched s sig); apply subl_refl.
Qed.

Lemma fact_dl_fresh : forall s a j, j < f_next s -> ~ In j (map l_id (f_dl s)) ->
  j < f_next (f_action s a) /\ ~ In j (map l_id (f_dl (f_action s a))).
Proof.
  intros s a j Hlt Hn. split; [pose proof (fact_next s a); lia|].
  destruct a as [ub cb|fd cond ub cb|sig ub cb|id|e|sig| |]; try exact Hn.
  - cbn. rewrite map_app. intros Hin. apply in_app_or in Hin. destruct Hin as [Hin|[Hin|[]]]; [contradiction|]. cbn in Hin. lia.
  - cbn [f_action]. destruct (f_cancel_cases s id) as [_ C].
    destruct C as [w _ _ Hd _ _ _ | w _ _ _ Hd _ _ _ | w _ _ _ _ Hd _ _ _ | E _ _ _]; try (rewrite Hd; exact Hn).
    + rewrite Hd. intros Hin. apply Hn. eapply subl_in; [apply subl_remove_ltr|exact Hin].
    + rewrite E. exact Hn.
  - cbn [f_action]. unfold f_arrive. destruct (f_watched s sig); exact Hn.
Qed.

Lemma facts_dr : forall l s, subl (map l_id (f_dr (f_actions s l))) (map l_id (f_dr s)).
Proof.
  induction l as [|a r IH]; intros s; [apply subl_refl|]. cbn [f_actions fold_left].
  eapply subl_trans; [apply IH|apply fact_dr].
Qed.

Lemma facts_dl_fresh : forall l s j, j < f_next s -> ~ In j (map l_id (f_dl s)) ->
  j < f_next (f_actions s l) /\ ~ In j (map l_id (f_dl (f_actions s l))).
Proof.
  induction l as [|a r IH]; intros s j Hlt Hn; [split; assumption|]. cbn [f_actions fold_left].
  destruct (fact_dl_fresh s a j Hlt Hn) as [A B]. apply IH; assumption.
Qed.

Section FRefine.
Variable env : Z -> list saction.

(* ------------------------------------------------------------------ the deferred callbacks *)

Lemma sim_f_drun_loop : forall L n s, K s -> NoDup L -> subl (map l_id (f_dr s)) L ->
  (forall i, In i L -> i < f_next s /\ ~ In i (map l_id (f_dl s))) -> (length (f_dr s) <= n)%nat ->
  yabs (f_drun_loop env n s) = y_run_def env L (yabs s) /\ K (f_drun_loop env n s) /\ f_dr (f_drun_loop env n s) = [].
Proof.
  induction L as [|i r IH]; intros n s HK Hnd Hsub Hfr Hn.
  - apply subl_nil_inv in Hsub. destruct (f_dr s) as [|w dr] eqn:Ed; [|discriminate].
    assert (E : f_drun_loop env n s = s) by (destruct n; cbn [f_drun_loop]; [|rewrite Ed]; reflexivity).
    rewrite E. split; [reflexivity|split; [exact HK|exact Ed]].
  - destruct (subl_cons_inv _ _ _ Hsub Hnd) as [[a' [Ea Hs']]|[Hni Hs']].
    + destruct (f_dr s) as [|w dr] eqn:Ed; [discriminate|]. cbn [map] in Ea. inversion Ea as [[Ew Ea']].
      destruct n as [|n]; [cbn [length] in Hn; lia|]. cbn [f_drun_loop]. rewrite Ed.
      set (s1 := femit (fu_dr s dr) (l_id w) KLater (EV_FIRE + EV_UNBIND) 0).
      inversion Hnd as [|? ? Hir Hndr]; subst.
      assert (HK1 : K s1).
      { destruct HK as [a b c d]. apply mkK; cbn.
        - exact a.
        - rewrite Ed in b. cbn [app map] in b. inversion b; assumption.
        - exact c.
        - intros v Hv. apply d. rewrite Ed. right. exact Hv. }
      destruct (sim_f_actions (env (l_cb w)) s1 HK1) as [E2 HK2].
      set (s2 := f_actions s1 (env (l_cb w))) in *.
      assert (Hx : y_run_def env (l_id w :: r) (yabs s) = y_run_def env r (yabs s2)).
      { cbn [y_run_def].
        assert (Hdef : y_def (yabs s) = w :: dr ++ f_dl s) by (unfold yabs; cbn [y_def]; rewrite Ed; reflexivity).
        rewrite Hdef. cbn [find_ltr remove_ltr]. rewrite Z.eqb_refl. rewrite E2. reflexivity. }
      rewrite Hx. apply IH.
      * exact HK2.
      * exact Hndr.
      * eapply subl_trans; [apply facts_dr|]. exact Hs'.
      * intros j Hj. destruct (Hfr j (or_intror Hj)) as [A B]. apply facts_dl_fresh; assumption.
      * pose proof (subl_length _ _ (facts_dr (env (l_cb w)) s1)) as Hl. rewrite !map_length in Hl.
        fold s2 in Hl. cbn [f_dr s1 femit fu_log fu_dr] in Hl. cbn [length] in Hn. lia.
    + assert (Hx : y_run_def env (i :: r) (yabs s) = y_run_def env r (yabs s)).
      { cbn [y_run_def]. assert (Hdef : y_def (yabs s) = f_dr s ++ f_dl s) by reflexivity.
        rewrite Hdef. rewrite find_ltr_none; [reflexivity|].
        rewrite map_app. intros Hin. apply in_app_or in Hin. destruct Hin as [Hin|Hin]; [contradiction|].
        destruct (Hfr i (or_introl eq_refl)) as [_ B]. contradiction. }
      rewrite Hx. inversion Hnd; subst. apply IH; try assumption. intros j Hj. apply Hfr. right. exact Hj.
Qed.

Lemma sim_f_invoke_laters : forall s, K s ->
  yabs (f_invoke_laters env s) = y_run_def env (map l_id (f_dr s ++ f_dl s)) (yabs s) /\
  K (f_invoke_laters env s) /\ f_dr (f_invoke_laters env s) = [].
Proof.
  intros s HK. unfold f_invoke_laters.
  set (s1 := fu_dl (fu_dr s (f_dr s ++ f_dl s)) []).
  assert (Ex : yabs s1 = yabs s) by (unfold yabs; cbn; rewrite app_nil_r; reflexivity).
  assert (HK1 : K s1).
  { destruct HK as [a b c d]. apply mkK; cbn; try assumption; rewrite app_nil_r; assumption. }
  rewrite <- Ex. apply sim_f_drun_loop.
  - exact HK1.
  - apply (K_ltnd s HK).
  - apply subl_refl.
  - intros i Hi. split; [|intros []]. apply in_map_iff in Hi. destruct Hi as [w [E Hw]]. subst i. apply (K_ltlt s HK). exact Hw.
  - apply Nat.le_refl.
Qed.

(* ------------------------------------------------------------------ the walk *)

Section FWalk.
Variable snap : list Z.
Variable N : Z.

Record FWr (r : list Z) (s : fst) (this : option Z) (pre ro nw : list sgw) : Prop := mkFW {
  fw_dec : f_sgws s = pre ++ ro ++ nw;
  fw_this : this = hd_id (ro ++ nw);
  fw_sub : subl (map g_id ro) r;
  fw_out : forall i, In i r -> ~ In i (map g_id pre) /\ ~ In i (map g_id nw) /\ i < f_next s;
  fw_news : forall w, In w nw -> N <= g_id w;
  fw_N : N <= f_next s;
  fw_orig : forall w, In w ro -> g_id w < N }.
Definition FW (r : list Z) (s : fst) (this : option Z) : Prop := exists pre ro nw, FWr r s this pre ro nw.

Lemma FW_mono : forall r s s', f_sgws s' = f_sgws s -> f_cursor s' = f_cursor s -> f_next s <= f_next s' ->
  FW r s (f_cursor s) -> FW r s' (f_cursor s').
Proof.
  intros r s s' Hg Hc Hn [pre [ro [nw [A B C D E EN F]]]]. exists pre, ro, nw. apply mkFW; try assumption.
  - rewrite Hg. exact A.
  - rewrite Hc. exact B.
  - intros i Hi. destruct (D i Hi) as [D1 [D2 D3]]. repeat split; try assumption. lia.
  - lia.
Qed.

Lemma FW_action : forall r s a, K s -> FW r s (f_cursor s) -> FW r (f_action s a) (f_cursor (f_action s a)).
Proof.
  intros r s a HK HW. destruct a as [ub cb|fd cond ub cb|sg ub cb|id|e|sg| |]; try exact HW.
  - eapply FW_mono; [| | |exact HW]; try reflexivity. cbn. lia.
  - destruct HW as [pre [ro [nw [A B C D E EN F]]]].
    set (n := mkSg (f_next s) sg ub cb).
    destruct (ro ++ nw) as [|x rm] eqn:Erem.
    + apply app_eq_nil in Erem. destruct Erem; subst ro nw.
      exists (pre ++ [n]), [], []. apply mkFW; cbn.
      * rewrite A. rewrite !app_nil_r. reflexivity.
      * exact B.
      * exact C.
      * intros i Hi. destruct (D i Hi) as [D1 [D2 D3]]. split; [|split; [intros []|lia]].
        rewrite map_app. intros Hin. apply in_app_or in Hin. destruct Hin as [Hin|[Hin|[]]]; [contradiction|]. cbn in Hin. lia.
      * intros w [].
      * lia.
      * intros w [].
    + rewrite <- Erem in A, B. exists pre, ro, (nw ++ [n]). apply mkFW; cbn.
      * rewrite A. rewrite <- !app_assoc. reflexivity.
      * rewrite B. rewrite app_assoc, Erem. reflexivity.
      * exact C.
      * intros i Hi. destruct (D i Hi) as [D1 [D2 D3]]. split; [exact D1|split; [|lia]].
        rewrite map_app. intros Hin. apply in_app_or in Hin. destruct Hin as [Hin|[Hin|[]]]; [contradiction|]. cbn in Hin. lia.
      * intros w Hw. apply in_app_or in Hw. destruct Hw as [Hw|[Hw|[]]]; [exact (E w Hw)|]. subst w. cbn. exact EN.
      * lia.
      * exact F.
  - cbn [f_action]. destruct (f_cancel_cases s id) as [[_ [_ [_ [K4 _]]]] Cc].
    destruct Cc as [w Esg Hg _ _ Hc _ | w _ _ Hg _ _ Hc _ | w _ _ _ Hg _ _ Hc _ | E _ _ _];
      try (eapply FW_mono; [exact Hg|exact Hc|lia|exact HW]).
    + destruct HW as [pre [ro [nw [A B C D E EN F]]]].
      pose proof (K_sgnd s HK) as Hnd. rewrite A in Hnd, Esg.
      pose proof (cursor_remove id pre (ro ++ nw) w Hnd Esg) as Hcr. cbv zeta in Hcr.
      assert (Hc2 : f_cursor (f_cancel s id) =
                    match hd_id (ro ++ nw) with
                    | Some cu => if cu =? id then sgw_after id (pre ++ ro ++ nw) else hd_id (ro ++ nw)
                    | None => None end) by (rewrite Hc, B, A; reflexivity).
      rewrite <- Hc2 in Hcr. clear Hc2.
      rewrite A in Hg. rewrite remove_sgw_app in Hg.
      destruct Hcr as [[Hp Hcu]|[Hp Hcu]].
      * destruct (find_sgw id pre) as [v|] eqn:Ep; [|contradiction].
        exists (remove_sgw id pre), ro, nw. apply mkFW; [exact Hg|exact Hcu|exact C| |exact E|lia|exact F].
        intros i Hi. destruct (D i Hi) as [D1 [D2 D3]]. split; [|split; [exact D2|lia]].
        intros Hin. apply D1. eapply subl_in; [apply subl_remove_sgw|exact Hin].
      * rewrite Hp in Hg. rewrite remove_sgw_app in Hg, Hcu. destruct (find_sgw id ro) as [v|] eqn:Er.
        -- exists pre, (remove_sgw id ro), nw. apply mkFW; [exact Hg|exact Hcu| | |exact E|lia|].
           ++ eapply subl_trans; [apply subl_remove_sgw|exact C].
           ++ intros i Hi. destruct (D i Hi) as [D1 [D2 D3]]. repeat split; try assumption. lia.
           ++ intros v' Hv'. apply F. eapply in_remove_sgw_elem. exact Hv'.
        -- exists pre, ro, (remove_sgw id nw). apply mkFW; [exact Hg|exact Hcu|exact C| | |lia|exact F].
           ++ intros i Hi. destruct (D i Hi) as [D1 [D2 D3]]. split; [exact D1|split; [|lia]].
              intros Hin. apply D2. eapply subl_in; [apply subl_remove_sgw|exact Hin].
           ++ intros v' Hv'. apply E. eapply in_remove_sgw_elem. exact Hv'.
    + rewrite E. exact HW.
  - cbn [f_action]. unfold f_arrive. destruct (f_watched s sg); [|exact HW]. eapply FW_mono; [| | |exact HW]; reflexivity.
Qed.

Lemma FW_actions : forall l r s, K s -> FW r s (f_cursor s) -> FW r (f_actions s l) (f_cursor (f_actions s l)).
Proof.
  induction l as [|a t IH]; intros r s HK HW; [exact HW|]. cbn [f_actions fold_left].
  apply IH; [apply sim_f_action; exact HK|apply FW_action; assumption].
Qed.

Lemma f_walk_news : forall nw pre s, K s -> f_sgws s = pre ++ nw -> (forall w, In w nw -> N <= g_id w) ->
  exists s', (yabs s' = yabs s /\ K s' /\ f_dr s' = f_dr s) /\
  forall fuel, (length nw < fuel)%nat -> f_walk env fuel N (hd_id nw) snap s = Some s'.
Proof.
  induction nw as [|x rm IH]; intros pre s HK Hd Hn.
  - exists s. split; [split; [reflexivity|split; [exact HK|reflexivity]]|]. intros fuel Hf. destruct fuel; [cbn in Hf; lia|reflexivity].
  - pose proof (K_sgnd s HK) as Hnd. rewrite Hd in Hnd. destruct (nodup_mid pre x rm Hnd) as [Hnp _].
    assert (Ex : (memz (g_sig x) snap && (g_id x <? N)) = false).
    { apply andb_false_iff. right. apply Z.ltb_ge. apply Hn. left. reflexivity. }
    set (s1 := fu_cursor s (hd_id rm)).
    assert (HK1 : K s1) by (eapply K_same; [exact HK|reflexivity..|cbn; lia]).
    destruct (IH (pre ++ [x]) s1 HK1) as [s' [[X [Y Z0]] W]].
    + cbn [f_sgws s1 fu_cursor]. rewrite Hd, <- app_assoc. reflexivity.
    + intros w Hw. apply Hn. right. exact Hw.
    + exists s'. split; [split; [rewrite X; reflexivity|split; [exact Y|rewrite Z0; reflexivity]]|].
      intros fuel Hf. destruct fuel as [|f]; [cbn [length] in Hf; lia|].
      cbn [hd_id f_walk]. rewrite Hd, (find_sgw_mid pre x rm Hnp), (sgw_after_mid pre x rm Hnp), Ex.
      apply W. cbn [length] in Hf. lia.
Qed.

Lemma f_walk_sim : forall r s this, K s -> FW r s this -> NoDup r ->
  exists s', (yabs s' = y_run_sig env r snap (yabs s) /\ K s' /\ subl (map l_id (f_dr s')) (map l_id (f_dr s))) /\
  exists f0, forall fuel, (f0 <= fuel)%nat -> f_walk env fuel N this snap s = Some s'.
Proof.
  induction r as [|i r IH]; intros s this HK HW Hnd.
  - destruct HW as [pre [ro [nw [A B C D E EN F]]]].
    apply subl_nil_inv in C. apply map_eq_nil in C. subst ro. cbn [app] in A, B. subst this.
    destruct (f_walk_news nw pre s HK A E) as [s' [[X [Y Z0]] W]].
    exists s'. split; [split; [exact X|split; [exact Y|rewrite Z0; apply subl_refl]]|].
    exists (S (length nw)). intros fuel Hf. apply W. lia.
  - destruct HW as [pre [ro [nw [A B C D E EN F]]]]. inversion Hnd as [|? ? Hir Hndr]; subst.
    destruct (subl_cons_inv _ _ _ C Hnd) as [[a' [Ea Hs']]|[Hni Hs']].
    + destruct ro as [|w ro]; [discriminate|]. cbn [map] in Ea. inversion Ea as [[Ew Ea']]. clear Ea. subst i.
      destruct (D (g_id w) (or_introl eq_refl)) as [Dp [Dn Dl]].
      assert (Hfw : find_sgw (g_id w) (f_sgws s) = Some w) by (rewrite A; apply find_sgw_mid; exact Dp).
      assert (Haf : sgw_after (g_id w) (f_sgws s) = hd_id (ro ++ nw)).
      { rewrite A. cbn [app]. rewrite sgw_after_mid by exact Dp. reflexivity. }
      assert (Hbw : (g_id w <? N) = true) by (apply Z.ltb_lt; apply F; left; reflexivity).
      set (s1 := fu_cursor s (hd_id (ro ++ nw))).
      assert (HK1 : K s1) by (eapply K_same; [exact HK|reflexivity..|cbn; lia]).
      assert (HW1 : FW r s1 (f_cursor s1)).
      { exists (pre ++ [w]), ro, nw. apply mkFW.
        - cbn [f_sgws s1 fu_cursor]. rewrite A. cbn [app]. rewrite <- app_assoc. reflexivity.
        - reflexivity.
        - rewrite Ea'. exact Hs'.
        - intros j Hj. destruct (D j (or_intror Hj)) as [D1 [D2 D3]]. split; [|split; [exact D2|exact D3]].
          rewrite map_app. intros Hin. apply in_app_or in Hin. destruct Hin as [Hin|[Hin|[]]]; [contradiction|].
          cbn in Hin. subst j. contradiction.
        - exact E.
        - exact EN.
        - intros v Hv. apply F. right. exact Hv. }
      assert (Hy : find_sgw (g_id w) (y_sgs (yabs s)) = Some w) by exact Hfw.
      cbn [y_run_sig]. rewrite Hy.
      destruct (memz (g_sig w) snap) eqn:Em.
      * set (s1e := femit s1 (g_id w) KSig EV_FIRE (g_sig w)).
        assert (HK1e : K s1e) by (eapply K_same; [exact HK1|reflexivity..|cbn; lia]).
        assert (HW1e : FW r s1e (f_cursor s1e)) by (eapply FW_mono; [| | |exact HW1]; try reflexivity; cbn; lia).
        destruct (sim_f_actions (env (g_cb w)) s1e HK1e) as [E2 HK2].
        pose proof (FW_actions (env (g_cb w)) r s1e HK1e HW1e) as HW2.
        set (s2 := f_actions s1e (env (g_cb w))) in *.
        destruct (IH s2 (f_cursor s2) HK2 HW2 Hndr) as [s' [[R2 [R3 R4]] [f0 Hf0]]].
        exists s'. split; [split; [|split; [exact R3|]]|].
        -- rewrite R2, E2. reflexivity.
        -- eapply subl_trans; [exact R4|]. exact (facts_dr (env (g_cb w)) s1e).
        -- exists (S f0). intros fuel Hf. destruct fuel as [|f]; [lia|].
           cbn [app hd_id f_walk]. rewrite Hfw, Haf, Em, Hbw. apply Hf0. lia.
      * destruct (IH s1 (f_cursor s1) HK1 HW1 Hndr) as [s' [[R2 [R3 R4]] [f0 Hf0]]].
        exists s'. split; [split; [|split; [exact R3|exact R4]]|].
        -- rewrite R2. reflexivity.
        -- exists (S f0). intros fuel Hf. destruct fuel as [|f]; [lia|].
           cbn [app hd_id f_walk]. rewrite Hfw, Haf, Em. apply Hf0. lia.
    + assert (Hdead : find_sgw i (f_sgws s) = None).
      { apply find_sgw_none. rewrite A, !map_app. destruct (D i (or_introl eq_refl)) as [D1 [D2 _]].
        intros Hin. apply in_app_or in Hin. destruct Hin as [Hin|Hin]; [contradiction|].
        apply in_app_or in Hin. destruct Hin as [Hin|Hin]; contradiction. }
      assert (HW' : FW r s (hd_id (ro ++ nw))).
      { exists pre, ro, nw. apply mkFW; [exact A|reflexivity|exact Hs'| |exact E|exact EN|exact F]. intros j Hj. apply D. right. exact Hj. }
      destruct (IH s _ HK HW' Hndr) as [s' [[R2 [R3 R4]] Hf0]].
      exists s'. split; [split; [|split; assumption]|exact Hf0].
      rewrite R2. cbn [y_run_sig]. assert (Hy : find_sgw i (y_sgs (yabs s)) = None) by exact Hdead. rewrite Hy. reflexivity.
Qed.

End FWalk.

(* ------------------------------------------------------------------ one iteration *)

Definition Kb (s : fst) : Prop := K s /\ f_dr s = [].

Lemma sim_f_arrivals : forall s, K s -> yabs (f_arrivals s) = y_arrivals (yabs s) /\ K (f_arrivals s) /\ f_dr (f_arrivals s) = f_dr s.
Proof.
  intros s HK. unfold f_arrivals, y_arrivals.
  assert (G : forall l s0, K s0 -> yabs (fold_left f_arrive l s0) = fold_left y_arrive l (yabs s0) /\ K (fold_left f_arrive l s0) /\
                           f_dr (fold_left f_arrive l s0) = f_dr s0).
  { induction l as [|a l IH]; intros s0 H0; [split; [reflexivity|split; [exact H0|reflexivity]]|]. cbn [fold_left].
    destruct (sim_f_arrive s0 a H0) as [E1 K1]. rewrite <- E1. destruct (IH (f_arrive s0 a) K1) as [A [B C]].
    split; [exact A|split; [exact B|]]. rewrite C. unfold f_arrive. destruct (f_watched s0 a); reflexivity. }
  destruct (G (f_between s) s HK) as [A [B C]]. change (y_between (yabs s)) with (f_between s). rewrite <- A.
  split; [reflexivity|split; [|exact C]]. eapply K_same; [exact B|reflexivity..|cbn; lia].
Qed.

Theorem sim_f_tick : forall s, Kb s ->
  exists s', (yabs s' = y_tick env (yabs s) /\ Kb s') /\
  exists f0, forall fuel, (f0 <= fuel)%nat -> f_tick false env fuel s = Some s'.
Proof.
  intros s [HK Hdr]. unfold f_tick, y_tick.
  set (s1 := fu_log (fu_iter s (f_iter s + 1)) (OPoll 0 :: f_log (fu_iter s (f_iter s + 1)))).
  assert (HK1 : K s1) by (eapply K_same; [exact HK|reflexivity..|cbn; lia]).
  assert (Ex1 : yabs s1 = mkY (y_sgs (yabs s)) (y_def (yabs s)) (y_pend (yabs s)) (y_wake (yabs s)) (y_between (yabs s))
                             (y_next (yabs s)) (y_iter (yabs s) + 1) (OPoll 0 :: y_log (yabs s))) by reflexivity.
  rewrite <- Ex1. change (y_wake (yabs s1)) with (f_pipe s1).
  destruct (sim_f_invoke_laters s1 HK1) as [E2 [HK2 Hd2]].
  change (map l_id (y_def (yabs s1))) with (map l_id (f_dr s1 ++ f_dl s1)). rewrite <- E2.
  set (s2 := f_invoke_laters env s1) in *.
  destruct (Nat.ltb 0 (f_pipe s1)).
  - unfold f_sigpipe.
    set (s2a := fu_pipe s2 (f_pipe s2 - 1)%nat).
    assert (HK2a : K s2a) by (eapply K_same; [exact HK2|reflexivity..|cbn; lia]).
    destruct (sim_f_arrivals s2a HK2a) as [E3 [HK3 Hd3]].
    set (s3 := f_arrivals s2a) in *.
    set (s4 := fu_pend s3 []).
    assert (HK4 : K s4) by (eapply K_same; [exact HK3|reflexivity..|cbn; lia]).
    assert (HW : FW (f_next s4) (map g_id (f_sgws s4)) s4 (hd_id (f_sgws s4))).
    { exists [], (f_sgws s4), []. apply mkFW.
      - cbn [app]. rewrite app_nil_r. reflexivity.
      - rewrite app_nil_r. reflexivity.
      - apply subl_refl.
      - intros i Hi. split; [intros []|split; [intros []|]]. apply in_map_iff in Hi. destruct Hi as [w [E Hw]]. subst i.
        apply (K_sglt s4 HK4). exact Hw.
      - intros w [].
      - lia.
      - intros w Hw. apply (K_sglt s4 HK4). exact Hw. }
    destruct (f_walk_sim (f_pend s3) (f_next s4) (map g_id (f_sgws s4)) s4 (hd_id (f_sgws s4)) HK4 HW (K_sgnd s4 HK4))
      as [s' [[R2 [R3 R4]] Hf]].
    exists s'. split; [split; [|split; [exact R3|]]|exact Hf].
    + rewrite R2. unfold s4. change (yabs (fu_pend s3 [])) with
        (mkY (y_sgs (yabs s3)) (y_def (yabs s3)) [] (y_wake (yabs s3)) (y_between (yabs s3)) (y_next (yabs s3)) (y_iter (yabs s3)) (y_log (yabs s3))).
      change (f_sgws (fu_pend s3 [])) with (y_sgs (yabs s3)). change (f_pend s3) with (y_pend (yabs s3)).
      rewrite E3. reflexivity.
    + apply subl_nil_map. cbn [f_dr s4 fu_pend] in R4. rewrite Hd3 in R4. cbn [f_dr s2a fu_pipe] in R4. rewrite Hd2 in R4. exact R4.
  - exists s2. split; [split; [reflexivity|split; [exact HK2|exact Hd2]]|]. exists O. intros fuel _. reflexivity.
Qed.

(* ------------------------------------------------------------------ scripts *)

Lemma Kb0 : Kb fst0.
Proof. split; [|reflexivity]. apply mkK; cbn; try constructor; intros w []. Qed.

Lemma f_op_none : forall fuel ops, fold_left (f_op false env fuel) ops None = None.
Proof. induction ops as [|o r IH]; [reflexivity|exact IH]. Qed.

Lemma sim_f_ops : forall ops s, Kb s ->
  exists s', (yabs s' = fold_left (y_op env) ops (yabs s) /\ Kb s') /\
  exists f0, forall fuel, (f0 <= fuel)%nat -> fold_left (f_op false env fuel) ops (Some s) = Some s'.
Proof.
  induction ops as [|o r IH]; intros s HB.
  - exists s. split; [split; [reflexivity|exact HB]|]. exists O. intros fuel _. reflexivity.
  - destruct HB as [HK Hdr]. cbn [fold_left]. destruct o as [a| |sg].
    + destruct (sim_f_action s a HK) as [E HK2].
      assert (HB2 : Kb (f_action s a)).
      { split; [exact HK2|]. apply subl_nil_map. pose proof (fact_dr s a) as Hs. rewrite Hdr in Hs. exact Hs. }
      destruct (IH _ HB2) as [s' [[X Y] [f0 Hf0]]]. exists s'. split; [split; [|exact Y]|].
      * rewrite X. cbn [y_op]. rewrite E. reflexivity.
      * exists f0. intros fuel Hf. cbn [f_op]. apply Hf0. exact Hf.
    + destruct (sim_f_tick s (conj HK Hdr)) as [s1 [[E HB1] [f1 Hf1]]].
      destruct (IH s1 HB1) as [s' [[X Y] [f2 Hf2]]]. exists s'. split; [split; [|exact Y]|].
      * rewrite X. cbn [y_op]. rewrite E. reflexivity.
      * exists (Nat.max f1 f2). intros fuel Hf. cbn [f_op]. rewrite (Hf1 fuel ltac:(lia)). apply Hf2. lia.
    + assert (HB2 : Kb (fu_between s (f_between s ++ [sg]))).
      { split; [eapply K_same; [exact HK|reflexivity..|cbn; lia]|exact Hdr]. }
      destruct (IH _ HB2) as [s' [[X Y] [f0 Hf0]]]. exists s'. split; [split; [|exact Y]|].
      * rewrite X. reflexivity.
      * exists f0. intros fuel Hf. cbn [f_op]. apply Hf0. exact Hf.
Qed.

Definition Ylog (s : fst) (y : yst) : Prop := f_log s = y_log y /\ f_iter s = y_iter y.

Lemma fdestroy_lt : forall l s y, Ylog s y ->
  Ylog (fold_left (fun s w => if l_unbind w then femit s (l_id w) KLater (EV_UNBIND + EV_DESTROY) 0 else s) l s)
       (fold_left (fun s w => if l_unbind w then yemit s (l_id w) KLater (EV_UNBIND + EV_DESTROY) 0 else s) l y).
Proof.
  induction l as [|w t IH]; intros s y HR; [exact HR|]. cbn [fold_left]. apply IH.
  destruct (l_unbind w); [|exact HR]. destruct HR as [A B]. split; cbn; [|exact B]. rewrite A, B. reflexivity.
Qed.
Lemma fdestroy_sg : forall l s y, Ylog s y ->
  Ylog (fold_left (fun s w => if g_unbind w then femit s (g_id w) KSig (EV_UNBIND + EV_DESTROY) (g_sig w) else s) l s)
       (fold_left (fun s w => if g_unbind w then yemit s (g_id w) KSig (EV_UNBIND + EV_DESTROY) (g_sig w) else s) l y).
Proof.
  induction l as [|w t IH]; intros s y HR; [exact HR|]. cbn [fold_left]. apply IH.
  destruct (g_unbind w); [|exact HR]. destruct HR as [A B]. split; cbn; [|exact B]. rewrite A, B. reflexivity.
Qed.

Lemma sim_f_destroy : forall s, f_dr s = [] -> f_log (f_destroy s) = y_log (y_destroy (yabs s)).
Proof.
  intros s Hdr. unfold f_destroy, y_destroy. cbn [y_def y_sgs yabs f_dl f_sgws fu_iter]. rewrite Hdr. cbn [app].
  apply fdestroy_sg. apply fdestroy_lt. split; reflexivity.
Qed.

(* C18_fallback_refines *)
Theorem fallback_refines : forall ops,
  exists f0, forall fuel, (f0 <= fuel)%nat -> f_run false env fuel ops = Some (yspec_run env ops).
Proof.
  intros ops. destruct (sim_f_ops ops fst0 Kb0) as [s' [[X [HK Hdr]] [f0 Hf0]]].
  exists f0. intros fuel Hf. unfold f_run, f_run_ops. rewrite (Hf0 fuel Hf). unfold yspec_run.
  change yst0 with (yabs fst0). rewrite <- X, sim_f_destroy by exact Hdr. reflexivity.
Qed.

End FRefine.

(* a witness: the first of two watchers of signal 10 registers a further watch of it and raises it
   again from inside the dispatch; a signal arrives right after the wakeup read *)
Definition wy_env (cb : Z) : list saction := if cb =? 1 then [SSig 10 false 2; SRaise 10] else [].
Definition wy_ops : list fop :=
  [FAct (SSig 10 false 1); FAct (SSig 12 false 2); FAct (SRaise 10); FBetween 12; FTick; FTick; FTick].

Lemma fallback_refines_witness :
  f_run false wy_env 100 wy_ops = Some (yspec_run wy_env wy_ops) /\
  yspec_run wy_env wy_ops =
    [OPoll 0; OEv (mkE 0 KSig 1 1 0 10); OEv (mkE 1 KSig 1 1 0 12);
     OPoll 0; OEv (mkE 0 KSig 1 2 0 10); OEv (mkE 2 KSig 1 2 0 10);
     OPoll 0; OEv (mkE 0 KSig 1 3 0 10); OEv (mkE 2 KSig 1 3 0 10); OEv (mkE 3 KSig 1 3 0 10)].
Proof. split; vm_compute; reflexivity. Qed.
