(* WinDefs.v -- executable model of the window layer, src/window.c, written function by
   function after the C (properties C01, C02, C14, C15).

   * windows: a rose tree, children in z-order (frontmost first), found by id;
   * the root's damage set: the rectangle list of WinRectSet.v (rectset.c transliterated);
   * the render buffer: ABSTRACT, per cell -- content, mask depth, clip, translation, depth
     and the save stack, with the per-cell meaning of clip/translate/mask/save/restore of
     src/renderbuffer.c (every drawing primitive goes through xlate_and_clip and skips
     masked cells); exact for single-width content, which is all the harnesses draw;
   * the terminal: a grid, the cursor controls, and a scroll ORACLE deciding per request;
   * the application: [app id line col], the character window [id] paints at its own
     (line, col); a scroll shifts it (the application's half of the scrolling contract).

   Defect switches ([defects]): true = behave as the pinned code did before the fix. *)
From Coq Require Import ZArith List Bool.
From Tickit Require Import RectDefs WinRectSet.
Import ListNotations.
Local Open Scope Z_scope.

Record defects := mkDefects {
  d_scroll_noclip : bool;   (* #18 _scrollrectset does not clip to the ancestors' bounds *)
  d_focus_nolost  : bool;   (* #19 take_focus does not unfocus a descendant *)
  d_key_twice     : bool;   (* #20 a stealing first child is offered a key again *)
  d_flush_noclip  : bool;   (* #27 flush hands damage beyond the root's bounds to the root *)
  d_notify_noout  : bool;   (* #28 a notifying parent is not told OUT when the focus moves between its children *)
  d_chain_norestore : bool; (* #29 show/hide/close change the focus chain without requesting a cursor restore *)
  d_route_unsafe  : bool;   (* #30 input routing follows a `next` pointer saved before calling handlers *)
  d_drag_stale    : bool    (* #21 the drag source is kept without a reference and never cleared *)
}.
Definition no_defects := mkDefects false false false false false false false false.

(* ------------------------------------------------------------------------------------ *)
(* Windows                                                                               *)

Record winfo := mkW {
  w_id : Z; w_rect : rect; w_vis : bool; w_steal : bool; w_notify : bool;
  w_focused : bool; w_fchild : option Z;
  w_cline : Z; w_ccol : Z; w_cshape : Z; w_cvis : bool; w_cblink : Z }.

Inductive wtree := Node (i : winfo) (ch : list wtree).
Definition t_info (t : wtree) : winfo := match t with Node i _ => i end.
Definition t_kids (t : wtree) : list wtree := match t with Node _ ch => ch end.
Definition t_id (t : wtree) : Z := w_id (t_info t).

Definition set_rect (i : winfo) (r : rect) :=
  mkW (w_id i) r (w_vis i) (w_steal i) (w_notify i) (w_focused i) (w_fchild i)
      (w_cline i) (w_ccol i) (w_cshape i) (w_cvis i) (w_cblink i).
Definition set_vis (i : winfo) (b : bool) :=
  mkW (w_id i) (w_rect i) b (w_steal i) (w_notify i) (w_focused i) (w_fchild i)
      (w_cline i) (w_ccol i) (w_cshape i) (w_cvis i) (w_cblink i).
Definition set_steal (i : winfo) (b : bool) :=
  mkW (w_id i) (w_rect i) (w_vis i) b (w_notify i) (w_focused i) (w_fchild i)
      (w_cline i) (w_ccol i) (w_cshape i) (w_cvis i) (w_cblink i).
Definition set_notify (i : winfo) (b : bool) :=
  mkW (w_id i) (w_rect i) (w_vis i) (w_steal i) b (w_focused i) (w_fchild i)
      (w_cline i) (w_ccol i) (w_cshape i) (w_cvis i) (w_cblink i).
Definition set_focused (i : winfo) (b : bool) :=
  mkW (w_id i) (w_rect i) (w_vis i) (w_steal i) (w_notify i) b (w_fchild i)
      (w_cline i) (w_ccol i) (w_cshape i) (w_cvis i) (w_cblink i).
Definition set_fchild (i : winfo) (c : option Z) :=
  mkW (w_id i) (w_rect i) (w_vis i) (w_steal i) (w_notify i) (w_focused i) c
      (w_cline i) (w_ccol i) (w_cshape i) (w_cvis i) (w_cblink i).
Definition set_cpos (i : winfo) (l c : Z) :=
  mkW (w_id i) (w_rect i) (w_vis i) (w_steal i) (w_notify i) (w_focused i) (w_fchild i)
      l c (w_cshape i) (w_cvis i) (w_cblink i).
Definition set_cshape (i : winfo) (s : Z) :=
  mkW (w_id i) (w_rect i) (w_vis i) (w_steal i) (w_notify i) (w_focused i) (w_fchild i)
      (w_cline i) (w_ccol i) s (w_cvis i) (w_cblink i).
Definition set_cvis (i : winfo) (b : bool) :=
  mkW (w_id i) (w_rect i) (w_vis i) (w_steal i) (w_notify i) (w_focused i) (w_fchild i)
      (w_cline i) (w_ccol i) (w_cshape i) b (w_cblink i).
Definition set_cblink (i : winfo) (b : Z) :=
  mkW (w_id i) (w_rect i) (w_vis i) (w_steal i) (w_notify i) (w_focused i) (w_fchild i)
      (w_cline i) (w_ccol i) (w_cshape i) (w_cvis i) b.

(* init_window *)
Definition new_info (id : Z) (r : rect) (hidden steal : bool) : winfo :=
  mkW id r (negb hidden) steal false false None 0 0 1 true (-1).

Definition selfrect (i : winfo) : rect := mkRect 0 0 (lines (w_rect i)) (cols (w_rect i)).

Definition opt_eqb (a : option Z) (id : Z) : bool :=
  match a with Some k => k =? id | None => false end.

(* the subtree with the given id *)
Fixpoint t_find (id : Z) (t : wtree) : option wtree :=
  match t with
  | Node i ch =>
    if w_id i =? id then Some t else
    (fix go (l : list wtree) : option wtree :=
       match l with
       | [] => None
       | c :: r => match t_find id c with Some x => Some x | None => go r end
       end) ch
  end.

(* the nodes from the root down to the window with the given id *)
Fixpoint t_path (id : Z) (t : wtree) : option (list wtree) :=
  match t with
  | Node i ch =>
    if w_id i =? id then Some [t] else
    match (fix go (l : list wtree) : option (list wtree) :=
             match l with
             | [] => None
             | c :: r => match t_path id c with Some p => Some p | None => go r end
             end) ch with
    | Some p => Some (t :: p)
    | None => None
    end
  end.

(* [win; parent; ...; root] -- the order in which the C follows ->parent *)
Definition t_chain (id : Z) (t : wtree) : option (list wtree) :=
  match t_path id t with Some p => Some (rev p) | None => None end.

Definition t_parent_id (id : Z) (t : wtree) : option Z :=
  match t_chain id t with
  | Some (_ :: p :: _) => Some (t_id p)
  | _ => None
  end.

Fixpoint t_update (f : winfo -> winfo) (id : Z) (t : wtree) : wtree :=
  match t with
  | Node i ch => Node (if w_id i =? id then f i else i) (map (t_update f id) ch)
  end.

Fixpoint t_upd_kids (f : list wtree -> list wtree) (id : Z) (t : wtree) : wtree :=
  match t with
  | Node i ch =>
    let ch' := map (t_upd_kids f id) ch in
    Node i (if w_id i =? id then f ch' else ch')
  end.

(* the ids of a window and of everything below it (preorder) *)
Fixpoint sub_ids (t : wtree) : list Z :=
  match t with Node i ch => w_id i :: flat_map sub_ids ch end.

Definition id_in (x : Z) (l : list Z) : bool := existsb (fun y => y =? x) l.

(* the z-order edits of _do_hierarchy_* on a child list *)
Definition kids_remove (id : Z) (l : list wtree) : list wtree :=
  filter (fun c => negb (t_id c =? id)) l.

Fixpoint kids_raise_go (id : Z) (prev : wtree) (l : list wtree) : list wtree :=
  match l with
  | [] => [prev]
  | x :: r => if t_id x =? id then x :: prev :: r else prev :: kids_raise_go id x r
  end.
Definition kids_raise (id : Z) (l : list wtree) : list wtree :=
  match l with
  | [] => []
  | a :: rest => if t_id a =? id then l else kids_raise_go id a rest
  end.

Fixpoint kids_lower (id : Z) (l : list wtree) : list wtree :=
  match l with
  | [] => []
  | a :: rest =>
    if t_id a =? id then match rest with [] => l | b :: r => b :: a :: r end
    else a :: kids_lower id rest
  end.

Definition kids_find (id : Z) (l : list wtree) : option wtree :=
  find (fun c => t_id c =? id) l.

(* ------------------------------------------------------------------------------------ *)
(* Abstract render buffer (cells are ABSOLUTE positions in the buffer)                   *)

Record rbuf := mkRB {
  rb_lines : Z; rb_cols : Z;
  rb_cells : cell -> option (Z * Z * cell); (* content; and, as a record of who drew it: the window whose
                                              handler drew it and the RELATIVE position it used *)
  rb_mask : cell -> option Z;              (* maskdepth; None = -1 *)
  rb_clip : option rect;                   (* None = empty clip (clip.lines == 0) *)
  rb_xl : Z; rb_xc : Z;
  rb_depth : Z;
  rb_stack : list (Z * Z * option rect) }.

Definition rb_new (nl nc : Z) : rbuf :=
  mkRB nl nc (fun _ => None) (fun _ => None)
       (if (0 <? nl) && (0 <? nc) then Some (mkRect 0 0 nl nc) else None) 0 0 0 [].

Definition rb_inb (b : rbuf) (q : cell) : bool :=
  (0 <=? fst q) && (fst q <? rb_lines b) && (0 <=? snd q) && (snd q <? rb_cols b).

Definition rb_save (b : rbuf) : rbuf :=
  mkRB (rb_lines b) (rb_cols b) (rb_cells b) (rb_mask b) (rb_clip b) (rb_xl b) (rb_xc b)
       (rb_depth b + 1) ((rb_xl b, rb_xc b, rb_clip b) :: rb_stack b).

Definition rb_restore (b : rbuf) : rbuf :=
  match rb_stack b with
  | [] => b
  | (xl, xc, cl) :: st =>
    let d := rb_depth b - 1 in
    mkRB (rb_lines b) (rb_cols b) (rb_cells b)
         (fun q => match rb_mask b q with
                   | Some k => if k >? d then None else Some k
                   | None => None
                   end)
         cl xl xc d st
  end.

Definition rb_translate (b : rbuf) (down rightw : Z) : rbuf :=
  mkRB (rb_lines b) (rb_cols b) (rb_cells b) (rb_mask b) (rb_clip b)
       (rb_xl b + down) (rb_xc b + rightw) (rb_depth b) (rb_stack b).

Definition rb_clip_to (b : rbuf) (r : rect) : rbuf :=
  mkRB (rb_lines b) (rb_cols b) (rb_cells b) (rb_mask b)
       (match rb_clip b with
        | None => None
        | Some k => r_intersect k (r_translate r (rb_xl b) (rb_xc b))
        end)
       (rb_xl b) (rb_xc b) (rb_depth b) (rb_stack b).

Definition rb_mask_rect (b : rbuf) (r : rect) : rbuf :=
  let hole := r_translate r (rb_xl b) (rb_xc b) in
  mkRB (rb_lines b) (rb_cols b) (rb_cells b)
       (fun q => match rb_mask b q with
                 | Some k => Some k
                 | None => if cell_inb hole q && rb_inb b q then Some (rb_depth b) else None
                 end)
       (rb_clip b) (rb_xl b) (rb_xc b) (rb_depth b) (rb_stack b).

(* may the current handler draw at absolute cell q? *)
Definition rb_drawable (b : rbuf) (q : cell) : bool :=
  match rb_clip b with
  | None => false
  | Some k => cell_inb k q && match rb_mask b q with None => true | Some _ => false end
  end.

(* what a drawing primitive wants at one cell *)
Inductive paint :=
| PSet (c : Z)            (* content c *)
| PSkip                   (* skip: the cell becomes empty *)
| PLine (bits : Z).       (* a line segment: bits 1 north, 2 east, 4 south, 8 west *)

(* line cells: content LINEBASE + the accumulated segment bits (1..15) *)
Definition LINEBASE : Z := 200.
Definition is_line (c : Z) : bool := (LINEBASE <? c) && (c <=? LINEBASE + 15).
Definition line_bits (v : option (Z * Z * cell)) : Z :=
  match v with
  | Some (c, _, _) => if is_line c then c - LINEBASE else 0
  | None => 0
  end.

(* A drawing primitive, per cell: [f p] for the RELATIVE cell p says what the primitive
   wants there (None = does not touch it).  A line segment drawn on a cell that already
   holds a line (linecell(): same pen -- there is only one pen here) merges into it;
   anywhere else it replaces the content.  [wid] = the window on whose behalf it is drawn. *)
Definition rb_draw (b : rbuf) (wid : Z) (f : cell -> option paint) : rbuf :=
  mkRB (rb_lines b) (rb_cols b)
       (fun q => if rb_drawable b q
                 then match f (fst q - rb_xl b, snd q - rb_xc b) with
                      | Some (PSet c) => Some (c, wid, (fst q - rb_xl b, snd q - rb_xc b))
                      | Some PSkip => None
                      | Some (PLine bits) =>
                        Some (LINEBASE + Z.lor (line_bits (rb_cells b q)) bits, wid,
                              (fst q - rb_xl b, snd q - rb_xc b))
                      | None => rb_cells b q
                      end
                 else rb_cells b q)
       (rb_mask b) (rb_clip b) (rb_xl b) (rb_xc b) (rb_depth b) (rb_stack b).

(* ------------------------------------------------------------------------------------ *)
(* Drawing programs of expose handlers                                                   *)

Inductive dop :=
| DPaint                                 (* repaint exactly the rectangle handed over *)
| DText (l c n : Z)                      (* text_at, n characters *)
| DErase (l c n : Z)                     (* erase_at *)
| DChar (l c : Z)                        (* char_at *)
| DHline (l c1 c2 : Z)                   (* hline_at, single style *)
| DVline (l1 l2 c : Z)                   (* vline_at *)
| DEraseRect (r : rect)                  (* eraserect *)
| DSkip (l c n : Z)                      (* skip_at *)
| DClear.                                (* clear: erase every line of the buffer *)

Definition BLANK : Z := 32.

(* the segment bits hline_at / vline_at (single style, no caps) give the cell at position x
   of a line from a to b: the start cell points towards the end, the end cell back, the
   cells between both ways; a == b gets both; a > b touches only the two end cells *)
Definition seg_bits (x a b : Z) (fwd back : Z) : Z :=
  Z.lor (if x =? a then fwd else 0)
        (Z.lor (if x =? b then back else 0)
               (if (a <? x) && (x <? b) then Z.lor fwd back else 0)).

Definition dop_cells (app : Z -> Z -> Z -> Z) (id : Z) (handed : rect) (nl nc : Z) (o : dop)
  (p : cell) : option paint :=
  let (y, x) := p in
  match o with
  | DPaint => if cell_inb handed p then Some (PSet (app id y x)) else None
  | DText l c n => if (y =? l) && (c <=? x) && (x <? c + n) then Some (PSet (app id y x)) else None
  | DErase l c n => if (y =? l) && (c <=? x) && (x <? c + n) then Some (PSet BLANK) else None
  | DChar l c => if (y =? l) && (x =? c) then Some (PSet (app id y x)) else None
  | DHline l c1 c2 =>
    if (y =? l) && ((x =? c1) || (x =? c2) || ((c1 <? x) && (x <? c2)))
    then Some (PLine (seg_bits x c1 c2 2 8)) else None
  | DVline l1 l2 c =>
    if (x =? c) && ((y =? l1) || (y =? l2) || ((l1 <? y) && (y <? l2)))
    then Some (PLine (seg_bits y l1 l2 4 1)) else None
  | DEraseRect r => if cell_inb r p then Some (PSet BLANK) else None
  | DSkip l c n => if (y =? l) && (c <=? x) && (x <? c + n) then Some PSkip else None
  | DClear => if (0 <=? y) && (y <? nl) && (0 <=? x) && (x <? nc) then Some (PSet BLANK) else None
  end.

Definition run_prog (app : Z -> Z -> Z -> Z) (prog : list dop) (id : Z) (handed : rect) (b : rbuf) : rbuf :=
  fold_left (fun b o => rb_draw b id (dop_cells app id handed (rb_lines b) (rb_cols b) o)) prog b.

(* a handler environment: which program window [id] runs *)
Definition handler := Z -> rect -> rbuf -> rbuf.
Definition prog_handler (app : Z -> Z -> Z -> Z) (progs : Z -> list dop) : handler :=
  fun id handed b => run_prog app (progs id) id handed b.
Definition paint_handler (app : Z -> Z -> Z -> Z) : handler :=
  prog_handler app (fun _ => [DPaint]).

(* ------------------------------------------------------------------------------------ *)
(* _do_expose                                                                            *)

Fixpoint do_expose (hnd : handler) (t : wtree) (r : rect) (b : rbuf) : rbuf :=
  match t with
  | Node i ch =>
    let b1 :=
      (fix kids (l : list wtree) (b : rbuf) : rbuf :=
         match l with
         | [] => b
         | c :: rest =>
           let ci := t_info c in
           if negb (w_vis ci) then kids rest b else
           let b' :=
             match r_intersect r (w_rect ci) with
             | Some ex =>
               let b1 := rb_translate (rb_clip_to (rb_save b) ex) (top (w_rect ci)) (left (w_rect ci)) in
               rb_restore (do_expose hnd c (r_translate ex (- top (w_rect ci)) (- left (w_rect ci))) b1)
             | None => b
             end in
           kids rest (rb_mask_rect b' (w_rect ci))
         end) ch b in
    hnd (w_id i) r b1
  end.

(* the (window, rectangle) pairs of the expose events, in the order they fire *)
Fixpoint expose_log (t : wtree) (r : rect) : list (Z * rect) :=
  match t with
  | Node i ch =>
    (fix kids (l : list wtree) : list (Z * rect) :=
       match l with
       | [] => []
       | c :: rest =>
         let ci := t_info c in
         if negb (w_vis ci) then kids rest else
         match r_intersect r (w_rect ci) with
         | Some ex => expose_log c (r_translate ex (- top (w_rect ci)) (- left (w_rect ci))) ++ kids rest
         | None => kids rest
         end
       end) ch ++ [(w_id i, r)]
  end.

(* ------------------------------------------------------------------------------------ *)
(* Terminal                                                                              *)

Record term := mkTerm {
  t_lines : Z; t_cols : Z;
  t_grid : cell -> Z;
  t_cvis : bool; t_cline : Z; t_ccol : Z; t_cshape : Z; t_cblink : Z;
  t_nreq : nat;                                              (* scroll requests seen so far *)
  t_oracle : nat -> Z -> Z -> rect -> Z -> Z -> bool }.      (* n, lines, cols, rect, down, right *)

Definition term_new (nl nc : Z) (orc : nat -> Z -> Z -> rect -> Z -> Z -> bool) : term :=
  mkTerm nl nc (fun _ => BLANK) false (-1) (-1) 0 0 O orc.

Definition term_inb (tm : term) (q : cell) : bool :=
  (0 <=? fst q) && (fst q <? t_lines tm) && (0 <=? snd q) && (snd q <? t_cols tm).

Definition term_set_grid (tm : term) (g : cell -> Z) : term :=
  mkTerm (t_lines tm) (t_cols tm) g (t_cvis tm) (t_cline tm) (t_ccol tm) (t_cshape tm) (t_cblink tm)
         (t_nreq tm) (t_oracle tm).
Definition term_set_cvis (tm : term) (v : bool) : term :=
  mkTerm (t_lines tm) (t_cols tm) (t_grid tm) v (t_cline tm) (t_ccol tm) (t_cshape tm) (t_cblink tm)
         (t_nreq tm) (t_oracle tm).
Definition term_show_cursor (tm : term) (l c shape blink : Z) : term :=
  mkTerm (t_lines tm) (t_cols tm) (t_grid tm) true l c shape
         (if blink =? -1 then t_cblink tm else (if blink =? 0 then 0 else 1))
         (t_nreq tm) (t_oracle tm).

(* tickit_renderbuffer_flush_to_term, per cell *)
Definition term_flush_rb (tm : term) (b : rbuf) : term :=
  term_set_grid tm (fun q => match rb_cells b q with
                             | Some (c, _, _) => c
                             | None => t_grid tm q
                             end).

(* the rectangle a driver really scrolls: clamped to the screen (only matters for requests
   that stick out of it, which the fixed window code no longer makes) *)
Definition term_clamp (tm : term) (r : rect) : option rect :=
  r_intersect r (mkRect 0 0 (t_lines tm) (t_cols tm)).

(* tickit_term_scrollrect: ask the oracle; if accepted the content of the rectangle moves
   and the vacated cells become blank *)
Definition term_scroll (tm : term) (r : rect) (down rightw : Z) : term * bool :=
  let acc := t_oracle tm (t_nreq tm) (t_lines tm) (t_cols tm) r down rightw in
  let g :=
    if acc then
      match term_clamp tm r with
      | Some k => fun q => if cell_inb k q
                           then (if cell_inb k (fst q + down, snd q + rightw)
                                 then t_grid tm (fst q + down, snd q + rightw) else BLANK)
                           else t_grid tm q
      | None => t_grid tm
      end
    else t_grid tm in
  (mkTerm (t_lines tm) (t_cols tm) g (t_cvis tm) (t_cline tm) (t_ccol tm) (t_cshape tm) (t_cblink tm)
          (S (t_nreq tm)) (t_oracle tm), acc).

Definition term_resize (tm : term) (nl nc : Z) : term :=
  mkTerm nl nc
         (fun q => if term_inb tm q && (fst q <? nl) && (snd q <? nc) then t_grid tm q else BLANK)
         (t_cvis tm) (Z.max 0 (Z.min (t_cline tm) (nl - 1))) (Z.max 0 (Z.min (t_ccol tm) (nc - 1)))
         (t_cshape tm) (t_cblink tm) (t_nreq tm) (t_oracle tm).

(* some scroll oracles *)
Definition pol_accept : nat -> Z -> Z -> rect -> Z -> Z -> bool := fun _ _ _ _ _ _ => true.
Definition pol_refuse : nat -> Z -> Z -> rect -> Z -> Z -> bool := fun _ _ _ _ _ _ => false.
(* mockterm.c: full-width vertical scrolls, and horizontal scrolls of a region that touches
   the right edge *)
Definition pol_mock : nat -> Z -> Z -> rect -> Z -> Z -> bool :=
  fun _ nl nc r d rw =>
    if (d =? 0) && (rw =? 0) then true else
    match r_intersect r (mkRect 0 0 nl nc) with
    | None => false
    | Some k =>
      if (Z.abs d >=? lines k) || (Z.abs rw >=? cols k) then false
      else if (left k =? 0) && (right k =? nc) && (rw =? 0) then true
      else if (right k =? nc) && (d =? 0) then true
      else false
    end.
Definition pol_fullwidth : nat -> Z -> Z -> rect -> Z -> Z -> bool :=
  fun _ nl nc r d rw => (left r =? 0) && (right r =? nc) && (rw =? 0).
Definition pol_script (bits : list bool) : nat -> Z -> Z -> rect -> Z -> Z -> bool :=
  fun n _ _ _ _ _ => nth n bits true.

(* ------------------------------------------------------------------------------------ *)
(* Root window state                                                                     *)

Inductive hchange := HRaise | HRaiseFront | HLower | HLowerBack.

Record root := mkRoot {
  r_tree : wtree;
  r_orphans : list wtree;                  (* closed windows (detached subtrees) *)
  r_damage : rectset;
  r_queue : list (hchange * Z * Z);        (* change, parent id, window id *)
  r_nexp : bool; r_nrest : bool; r_later : bool;
  r_fault : bool;                          (* some rectangle-set loop ran out of fuel *)
  r_dragging : bool; r_lbtn : Z; r_lline : Z; r_lcol : Z; r_dsrc : option Z;
  r_fuel : nat }.                          (* fuel of the rectangle-set loops; never changes *)

Definition root_new (nl nc : Z) : root :=
  mkRoot (Node (new_info 0 (mkRect 0 0 nl nc) false false) []) [] [] [] false false false false
         false 0 (-1) (-1) None rsfuel.

(* the same with another amount of fuel for the rectangle-set loops (the theorems hold for every
   amount; rsfuel is what the extracted model runs with) *)
Definition root_new_f (fuel : nat) (nl nc : Z) : root :=
  mkRoot (Node (new_info 0 (mkRect 0 0 nl nc) false false) []) [] [] [] false false false false
         false 0 (-1) (-1) None fuel.

Definition set_tree (st : root) (t : wtree) : root :=
  mkRoot t (r_orphans st) (r_damage st) (r_queue st) (r_nexp st) (r_nrest st) (r_later st) (r_fault st)
         (r_dragging st) (r_lbtn st) (r_lline st) (r_lcol st) (r_dsrc st) (r_fuel st).
Definition set_orphans (st : root) (o : list wtree) : root :=
  mkRoot (r_tree st) o (r_damage st) (r_queue st) (r_nexp st) (r_nrest st) (r_later st) (r_fault st)
         (r_dragging st) (r_lbtn st) (r_lline st) (r_lcol st) (r_dsrc st) (r_fuel st).
Definition set_damage (st : root) (d : rectset) : root :=
  mkRoot (r_tree st) (r_orphans st) d (r_queue st) (r_nexp st) (r_nrest st) (r_later st) (r_fault st)
         (r_dragging st) (r_lbtn st) (r_lline st) (r_lcol st) (r_dsrc st) (r_fuel st).
Definition set_queue (st : root) (q : list (hchange * Z * Z)) : root :=
  mkRoot (r_tree st) (r_orphans st) (r_damage st) q (r_nexp st) (r_nrest st) (r_later st) (r_fault st)
         (r_dragging st) (r_lbtn st) (r_lline st) (r_lcol st) (r_dsrc st) (r_fuel st).
Definition set_flags (st : root) (nexp nrest later : bool) : root :=
  mkRoot (r_tree st) (r_orphans st) (r_damage st) (r_queue st) nexp nrest later (r_fault st)
         (r_dragging st) (r_lbtn st) (r_lline st) (r_lcol st) (r_dsrc st) (r_fuel st).
Definition set_fault (st : root) : root :=
  mkRoot (r_tree st) (r_orphans st) (r_damage st) (r_queue st) (r_nexp st) (r_nrest st) (r_later st) true
         (r_dragging st) (r_lbtn st) (r_lline st) (r_lcol st) (r_dsrc st) (r_fuel st).
Definition set_drag (st : root) (dragging : bool) (b l c : Z) (src : option Z) : root :=
  mkRoot (r_tree st) (r_orphans st) (r_damage st) (r_queue st) (r_nexp st) (r_nrest st) (r_later st) (r_fault st)
         dragging b l c src (r_fuel st).

(* _request_restore *)
Definition request_restore (st : root) : root := set_flags st (r_nexp st) true true.

(* ------------------------------------------------------------------------------------ *)
(* tickit_window_expose                                                                  *)

(* the walk towards the root; [chain] = [win; parent; ...; root]; the result is the
   rectangle that reaches the root, in root coordinates *)
Fixpoint expose_up (chain : list wtree) (ex : option rect) : option rect :=
  match chain with
  | [] => None
  | w :: rest =>
    let i := t_info w in
    match (match ex with Some e => r_intersect (selfrect i) e | None => Some (selfrect i) end) with
    | None => None
    | Some d =>
      if negb (w_vis i) then None else
      match rest with
      | [] => Some d
      | _ :: _ => expose_up rest (Some (r_translate d (top (w_rect i)) (left (w_rect i))))
      end
    end
  end.

(* the root's part: dedupe by containment, add, raise the flags *)
Definition root_damage (st : root) (d : rect) : root :=
  match rs_contains (r_fuel st) (r_damage st) d with
  | None => set_fault st
  | Some true => st
  | Some false =>
    match rs_add (r_fuel st) (r_damage st) d with
    | None => set_fault st
    | Some s => set_flags (set_damage st s) true (r_nrest st) true
    end
  end.

Definition win_expose (st : root) (id : Z) (ex : option rect) : root :=
  match t_chain id (r_tree st) with
  | None => st
  | Some chain =>
    match expose_up chain ex with
    | None => st
    | Some d => root_damage st d
    end
  end.

(* ------------------------------------------------------------------------------------ *)
(* Hierarchy changes                                                                     *)

Definition apply_hchange (k : hchange) (id : Z) (l : list wtree) : list wtree :=
  match k with
  | HRaise => kids_raise id l
  | HLower => kids_lower id l
  | HRaiseFront =>
    match kids_find id l with Some w => w :: kids_remove id l | None => l end
  | HLowerBack =>
    match kids_find id l with Some w => kids_remove id l ++ [w] | None => l end
  end.

(* _do_hierarchy_change for the four restacking kinds *)
Definition do_hchange (st : root) (k : hchange) (pid wid : Z) : root :=
  match t_find wid (r_tree st) with
  | None => st
  | Some w =>
    let st' := set_tree st (t_upd_kids (apply_hchange k wid) pid (r_tree st)) in
    if w_vis (t_info w) then win_expose st' pid (Some (w_rect (t_info w))) else st'
  end.

(* _request_hierarchy_change *)
Definition win_restack (st : root) (k : hchange) (id : Z) : root :=
  match t_parent_id id (r_tree st) with
  | None => st
  | Some pid =>
    match r_queue st with
    | [] => set_flags (set_queue st [(k, pid, id)]) (r_nexp st) (r_nrest st) true
    | q => set_queue st (q ++ [(k, pid, id)])
    end
  end.

(* tickit_window_new *)
Definition win_new (st : root) (id pid : Z) (r : rect) (hidden lowest rootparent steal : bool) : root :=
  match t_chain pid (r_tree st) with
  | None => st
  | Some chain =>
    (* TICKIT_WINDOW_ROOT_PARENT: translate through every non-root ancestor *)
    let '(pid', r') :=
      if rootparent then
        (t_id (last chain (r_tree st)),
         fold_left (fun acc w => r_translate acc (top (w_rect (t_info w))) (left (w_rect (t_info w))))
                   (removelast chain) r)
      else (pid, r) in
    let node := Node (new_info id r' hidden steal) [] in
    let st' := set_tree st (t_upd_kids (fun ch => if lowest then ch ++ [node] else node :: ch) pid' (r_tree st)) in
    if negb hidden then win_expose st' pid' (Some r') else st'
  end.

(* tickit_window_close.  With the repairs of #17 and #21: the root forgets the queued restacks
   about the window or anything below it, and the drag source if it lies there. *)
Definition win_close (cfg : defects) (st : root) (id : Z) : root :=
  match t_chain id (r_tree st) with
  | Some (w :: p :: _) =>
    let pid := t_id p in
    let tr1 := t_upd_kids (kids_remove id) pid (r_tree st) in
    let tr2 := t_update (fun j => if opt_eqb (w_fchild j) id then set_fchild j None else j) pid tr1 in
    let gone := sub_ids w in
    let st00 := set_queue (set_orphans (set_tree st tr2) (w :: r_orphans st))
                          (filter (fun e => match e with (_, _, w') => negb (id_in w' gone) end) (r_queue st)) in
    let st0 := match r_dsrc st00 with
               | Some src => if negb (d_drag_stale cfg) && id_in src gone
                             then set_drag st00 (r_dragging st00) (r_lbtn st00) (r_lline st00) (r_lcol st00) None
                             else st00
               | None => st00
               end in
    let st1 := if opt_eqb (w_fchild (t_info p)) id && negb (d_chain_norestore cfg)
               then request_restore st0 else st0 in
    if w_vis (t_info w) then win_expose st1 pid (Some (w_rect (t_info w))) else st1
  | _ => st
  end.

(* tickit_window_show *)
Definition win_show (cfg : defects) (st : root) (id : Z) : root :=
  match t_chain id (r_tree st) with
  | None => st
  | Some chain =>
    let tr1 := t_update (fun j => set_vis j true) id (r_tree st) in
    let '(tr2, linked) :=
      match chain with
      | w :: p :: _ =>
        let i := t_info w in
        let link := match w_fchild (t_info p) with
                    | None => (match w_fchild i with Some _ => true | None => false end) || w_focused i
                    | Some _ => false
                    end in
        (if link then t_update (fun j => set_fchild j (Some id)) (t_id p) tr1 else tr1, link)
      | _ => (tr1, false)
      end in
    let st1 := set_tree st tr2 in
    win_expose (if linked && negb (d_chain_norestore cfg) then request_restore st1 else st1) id None
  end.

(* tickit_window_hide *)
Definition win_hide (cfg : defects) (st : root) (id : Z) : root :=
  match t_chain id (r_tree st) with
  | None => st
  | Some chain =>
    let tr1 := t_update (fun j => set_vis j false) id (r_tree st) in
    match chain with
    | w :: p :: _ =>
      let tr2 := t_update (fun j => if opt_eqb (w_fchild j) id then set_fchild j None else j) (t_id p) tr1 in
      let st1 := set_tree st tr2 in
      win_expose (if opt_eqb (w_fchild (t_info p)) id && negb (d_chain_norestore cfg) then request_restore st1 else st1)
                 (t_id p) (Some (w_rect (t_info w)))
    | _ => set_tree st tr1
    end
  end.

(* tickit_window_set_geometry (the GEOMCHANGE event has no effect on this state) *)
Definition win_set_geometry (st : root) (id : Z) (r : rect) : root :=
  set_tree st (t_update (fun j => set_rect j r) id (r_tree st)).

Definition win_is_focused (st : root) (id : Z) : bool :=
  match t_find id (r_tree st) with Some w => w_focused (t_info w) | None => false end.

(* tickit_window_reposition *)
Definition win_reposition (st : root) (id : Z) (t l : Z) : root :=
  match t_find id (r_tree st) with
  | None => st
  | Some w =>
    let rc := w_rect (t_info w) in
    let st1 := win_set_geometry st id (mkRect t l (lines rc) (cols rc)) in
    if w_focused (t_info w) then request_restore st1 else st1
  end.

(* tickit_window_resize *)
Definition win_resize (st : root) (id : Z) (nl nc : Z) : root :=
  match t_find id (r_tree st) with
  | None => st
  | Some w =>
    let rc := w_rect (t_info w) in
    win_set_geometry st id (mkRect (top rc) (left rc) nl nc)
  end.

(* the cursor / control setters *)
Definition win_setctl (st : root) (id : Z) (f : winfo -> winfo) (restore : bool) : root :=
  match t_find id (r_tree st) with
  | None => st
  | Some w =>
    let st1 := set_tree st (t_update f id (r_tree st)) in
    if restore && w_focused (t_info w) then request_restore st1 else st1
  end.

(* ------------------------------------------------------------------------------------ *)
(* Focus                                                                                 *)

Definition fev := (Z * bool * Z)%type.     (* receiver, true = IN / false = OUT, info.win *)

(* _focus_lost on a subtree *)
Fixpoint focus_lost (t : wtree) : wtree * list fev :=
  match t with
  | Node i ch =>
    let '(ch', ev1) :=
      match w_fchild i with
      | None => (ch, [])
      | Some k =>
        let '(ch', e) :=
          (fix go (l : list wtree) : list wtree * list fev :=
             match l with
             | [] => ([], [])
             | c :: r =>
               if t_id c =? k then let '(c', e) := focus_lost c in (c' :: r, e)
               else let '(r', e) := go r in (c :: r', e)
             end) ch in
        (ch', e ++ (if w_notify i then [(w_id i, false, k)] else []))
      end in
    if w_focused i then (Node (set_focused i false) ch', ev1 ++ [(w_id i, false, w_id i)])
    else (Node i ch', ev1)
  end.

(* apply a subtree transformer at the node with the given id *)
Fixpoint t_at (f : wtree -> wtree * list fev) (id : Z) (t : wtree) : wtree * list fev :=
  match t with
  | Node i ch =>
    if w_id i =? id then f t else
    let '(ch', e) :=
      (fix go (l : list wtree) : list wtree * list fev :=
         match l with
         | [] => ([], [])
         | c :: r => let '(c', e1) := t_at f id c in let '(r', e2) := go r in (c' :: r', e1 ++ e2)
         end) ch in
    (Node i ch', e)
  end.

(* _focus_gained, following ->parent; [chain] = ids [win; parent; ...; root].
   Result: tree, events in the order they fire, whether a restore was requested. *)
Fixpoint focus_gained (cfg : defects) (chain : list Z) (child : option Z) (tree : wtree)
  : wtree * list fev * bool :=
  match chain with
  | [] => (tree, [], false)
  | w :: rest =>
    match t_find w tree with
    | None => (tree, [], false)
    | Some wn =>
      let i := t_info wn in
      let '(tree1, ev1) :=
        match w_fchild i with
        | Some fc =>
          if (match child with Some c => negb (fc =? c) | None => negb (d_focus_nolost cfg) end) then
            let '(tr, e) := t_at focus_lost fc tree in
            (tr, e ++ (if w_notify i && negb (d_notify_noout cfg) then [(w, false, fc)] else []))
          else (tree, [])
        | None => (tree, [])
        end in
      (* the focus moves on to a descendant: this window no longer holds it (repair of #19) *)
      let '(tree1, ev1b) :=
        match child with
        | Some _ =>
          if w_focused i && negb (d_focus_nolost cfg)
          then (t_update (fun j => set_focused j false) w tree1, [(w, false, w)])
          else (tree1, [])
        | None => (tree1, [])
        end in
      let '(tree2, ev2, rs) :=
        match rest with
        | [] => (tree1, [], true)
        | _ :: _ => if w_vis i then focus_gained cfg rest (Some w) tree1 else (tree1, [], false)
        end in
      let ev3 :=
        match child with
        | None => [(w, true, w)]
        | Some c => if w_notify i then [(w, true, c)] else []
        end in
      let tree3 :=
        t_update (fun j => set_fchild (match child with None => set_focused j true | Some _ => j end) child)
                 w tree2 in
      (tree3, ev1 ++ ev1b ++ ev2 ++ ev3, rs)
    end
  end.

(* tickit_window_take_focus *)
Definition win_take_focus (cfg : defects) (st : root) (id : Z) : root * list fev :=
  match t_chain id (r_tree st) with
  | None => (st, [])
  | Some chain =>
    let '(tr, ev, rs) := focus_gained cfg (map t_id chain) None (r_tree st) in
    let st1 := set_tree st tr in
    (if rs then request_restore st1 else st1, ev)
  end.

(* ------------------------------------------------------------------------------------ *)
(* _do_restore                                                                           *)

(* the nodes from the root along ->focused_child, as far as the C walks *)
Fixpoint focus_walk (t : wtree) : list wtree :=
  match t with
  | Node i ch =>
    if negb (w_vis i) then [t] else
    match w_fchild i with
    | None => [t]
    | Some k =>
      match (fix go (l : list wtree) : option (list wtree) :=
               match l with
               | [] => None
               | c :: r => if t_id c =? k then Some (focus_walk c) else go r
               end) ch with
      | Some p => t :: p
      | None => [t]
      end
    end
  end.

Fixpoint obscured (ch : list wtree) (prev : option Z) (line col : Z) : bool :=
  match ch with
  | [] => false
  | c :: r =>
    if opt_eqb prev (t_id c) then false
    else if negb (w_vis (t_info c)) then obscured r prev line col
    else if cell_inb (w_rect (t_info c)) (line, col) then true
    else obscured r prev line col
  end.

(* _cell_visible; [up] = [win; parent; ...; root] *)
Fixpoint cell_visible (up : list wtree) (prev : option Z) (line col : Z) : bool :=
  match up with
  | [] => true
  | w :: rest =>
    let i := t_info w in
    if (line <? 0) || (line >=? lines (w_rect i)) || (col <? 0) || (col >=? cols (w_rect i)) then false
    else if obscured (t_kids w) prev line col then false
    else cell_visible rest (Some (w_id i)) (line + top (w_rect i)) (col + left (w_rect i))
  end.

Definition abs_origin (up : list wtree) : Z * Z :=
  fold_left (fun acc w => (fst acc + top (w_rect (t_info w)), snd acc + left (w_rect (t_info w)))) up (0, 0).

Definition do_restore (tree : wtree) (tm : term) : term :=
  let up := rev (focus_walk tree) in
  match up with
  | [] => term_set_cvis tm false
  | w :: _ =>
    let i := t_info w in
    if w_focused i && w_cvis i && cell_visible up None (w_cline i) (w_ccol i) then
      let o := abs_origin up in
      term_show_cursor tm (w_cline i + fst o) (w_ccol i + snd o) (w_cshape i) (w_cblink i)
    else term_set_cvis tm false
  end.

(* ------------------------------------------------------------------------------------ *)
(* tickit_window_flush                                                                   *)

Definition root_selfrect (st : root) : rect := selfrect (t_info (r_tree st)).

(* the rectangles the flush works through, in order *)
Definition flush_rects (cfg : defects) (st : root) : list rect :=
  if d_flush_noclip cfg then r_damage st
  else flat_map (fun r => match r_intersect r (root_selfrect st) with Some k => [k] | None => [] end)
                (r_damage st).

Definition flush_rb (hnd : handler) (tree : wtree) (rects : list rect) (b : rbuf) : rbuf :=
  fold_left (fun b r => rb_restore (do_expose hnd tree r (rb_clip_to (rb_save b) r))) rects b.

Definition flush_log (tree : wtree) (rects : list rect) : list (Z * rect) :=
  flat_map (expose_log tree) rects.

Definition win_flush (cfg : defects) (hnd : handler) (st : root) (tm : term)
  : root * term * list (Z * rect) :=
  if negb (r_later st) then (st, tm, []) else
  let st1 := set_flags st (r_nexp st) (r_nrest st) false in
  let st2 := fold_left (fun s e => match e with (k, p, w) => do_hchange s k p w end)
                       (r_queue st1) (set_queue st1 []) in
  let '(st3, tm3, lg) :=
    if r_nexp st2 then
      let rects := flush_rects cfg st2 in
      let rs := root_selfrect st2 in
      let b := flush_rb hnd (r_tree st2) rects (rb_new (lines rs) (cols rs)) in
      (set_flags (set_damage st2 []) false true (r_later st2),
       term_flush_rb (term_set_cvis tm false) b,
       flush_log (r_tree st2) rects)
    else (st2, tm, []) in
  if r_nrest st3 then
    (set_flags st3 (r_nexp st3) false (r_later st3), do_restore (r_tree st3) tm3, lg)
  else (st3, tm3, lg).

(* ------------------------------------------------------------------------------------ *)
(* Scrolling                                                                             *)

Definition rs_sub_vis (fuel : nat) (s : option rectset) (l : list wtree) : option rectset :=
  fold_left (fun acc c => match acc with
                          | None => None
                          | Some s' => if w_vis (t_info c) then rs_subtract fuel s' (w_rect (t_info c)) else Some s'
                          end) l s.

(* the siblings in front of [id] *)
Fixpoint kids_before (id : Z) (l : list wtree) : list wtree :=
  match l with
  | [] => []
  | c :: r => if t_id c =? id then [] else c :: kids_before id r
  end.

(* repair of #18: keep only what lies inside the given bounds *)
Definition rs_clip (fuel : nat) (s : rectset) (bounds : rect) : option rectset :=
  fold_left (fun acc x => match acc with
                          | None => None
                          | Some s' => match r_intersect x bounds with
                                       | Some y => rs_add fuel s' y
                                       | None => Some s'
                                       end
                          end) s (Some []).

Inductive sregion := SFault | SInvisible | SRegion (v : rectset) (abs_t abs_l : Z).

(* the upward loop of _scrollrectset; [chain] = [win; parent; ...; root] *)
Fixpoint scroll_region (cfg : defects) (fuel : nat) (chain : list wtree) (v : rectset) (abs_t abs_l : Z) : sregion :=
  match chain with
  | [] => SRegion v abs_t abs_l
  | w :: rest =>
    let i := t_info w in
    if negb (w_vis i) then SInvisible else
    match rest with
    | [] => SRegion v abs_t abs_l
    | p :: _ =>
      let v1 := rs_translate v (top (w_rect i)) (left (w_rect i)) in
      match rs_sub_vis fuel (Some v1) (kids_before (w_id i) (t_kids p)) with
      | None => SFault
      | Some v2 =>
        match (if d_scroll_noclip cfg then Some v2 else rs_clip fuel v2 (selfrect (t_info p))) with
        | None => SFault
        | Some v3 => scroll_region cfg fuel rest v3 (abs_t + top (w_rect i)) (abs_l + left (w_rect i))
        end
      end
    end
  end.

(* moving the pending damage inside one scrolled rectangle *)
Definition shift_damage (fuel : nat) (dmg : rectset) (rc : rect) (down rightw : Z) : option rectset :=
  fold_left
    (fun acc x =>
       match acc with
       | None => None
       | Some s =>
         if (bottom x <? top rc) || (top x >? bottom rc) || (right x <? left rc) || (left x >? right rc)
         then rs_add fuel s x
         else
           match rs_add_list fuel s (r_subtract x rc) with
           | None => None
           | Some s1 =>
             match r_intersect x rc with
             | None => Some s1
             | Some ins =>
               match r_intersect (r_translate ins (- down) (- rightw)) rc with
               | None => Some s1
               | Some y => rs_add fuel s1 y
               end
             end
           end
       end) dmg (Some []).

Definition scroll_one (id : Z) (abs_t abs_l down rightw : Z)
  (acc : root * term * bool * bool) (rc : rect) : root * term * bool * bool :=
  let '(st, tm, ret, done_pen) := acc in
  let orig := r_translate rc (- abs_t) (- abs_l) in
  if (Z.abs down >=? lines rc) || (Z.abs rightw >=? cols rc) then
    (win_expose st id (Some orig), tm, ret, done_pen)
  else
    match shift_damage (r_fuel st) (r_damage st) rc down rightw with
    | None => (set_fault st, tm, ret, done_pen)
    | Some dmg =>
      let st1 := set_damage st dmg in
      let tm1 := if done_pen then tm else term_set_cvis tm false in
      let '(tm2, acc') := term_scroll tm1 rc down rightw in
      if acc' then
        let st2 :=
          if down >? 0 then win_expose st1 id (Some (mkRect (bottom orig - down) (left orig) down (cols rc)))
          else if down <? 0 then win_expose st1 id (Some (mkRect (top orig) (left orig) (- down) (cols rc)))
          else st1 in
        let st3 :=
          if rightw >? 0 then win_expose st2 id (Some (mkRect (top orig) (right orig - rightw) (lines rc) rightw))
          else if rightw <? 0 then win_expose st2 id (Some (mkRect (top orig) (left orig) (lines rc) (- rightw)))
          else st2 in
        (st3, tm2, ret, true)
      else (win_expose st1 id (Some orig), tm2, false, true)
    end.

(* _scroll; result: state, terminal, return value *)
Definition win_scroll (cfg : defects) (st : root) (tm : term) (id : Z) (orig : option rect)
  (down rightw : Z) (mask_children : bool) : root * term * bool :=
  match t_chain id (r_tree st) with
  | None => (st, tm, false)
  | Some chain =>
    match chain with
    | [] => (st, tm, false)
    | w :: _ =>
      let self := selfrect (t_info w) in
      match (match orig with Some o => r_intersect self o | None => r_intersect self self end) with
      | None => (st, tm, false)
      | Some rc =>
        match rs_add (r_fuel st) [] rc with
        | None => (set_fault st, tm, false)
        | Some v0 =>
          match (if mask_children then rs_sub_vis (r_fuel st) (Some v0) (t_kids w) else Some v0) with
          | None => (set_fault st, tm, false)
          | Some v1 =>
            match scroll_region cfg (r_fuel st) chain v1 0 0 with
            | SFault => (set_fault st, tm, false)
            | SInvisible => (st, tm, false)
            | SRegion v abs_t abs_l =>
              let '(st1, tm1, ret, done_pen) :=
                fold_left (scroll_one id abs_t abs_l down rightw) v (st, tm, true, false) in
              (if done_pen then request_restore st1 else st1, tm1, ret)
            end
          end
        end
      end
    end
  end.

(* ------------------------------------------------------------------------------------ *)
(* on_term_resize                                                                        *)

Definition win_term_resize (st : root) (tm : term) (nl nc : Z) : root * term :=
  if (t_lines tm =? nl) && (t_cols tm =? nc) then (st, tm) else
  let tm1 := term_resize tm nl nc in
  let rs := root_selfrect st in
  let oldl := lines rs in
  let oldc := cols rs in
  let st1 := win_resize st (t_id (r_tree st)) nl nc in
  let st2 := if nl >? oldl then win_expose st1 (t_id (r_tree st)) (Some (mkRect oldl 0 (nl - oldl) nc)) else st1 in
  let st3 := if nc >? oldc then win_expose st2 (t_id (r_tree st)) (Some (mkRect 0 oldc oldl (nc - oldc))) else st2 in
  (* the cursor's cell may have left the screen: restore requested (C15-d) *)
  (request_restore st3, tm1).
