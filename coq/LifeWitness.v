(* LifeWitness.v -- the histories on which the PINNED window.c violates property C08, evaluated on
   the pinned variant of the model, and the same histories on the repaired variant. *)
From Coq Require Import ZArith List Bool PArith FMapPositive.
From Tickit Require Import LifeDefs LifeSpec LifeProofs.
Import ListNotations.
Local Open Scope Z_scope.

Definition fuel40 : nat := 40.
Definition new0 (p : positive) : op := ONew p false false false false.

(* #16: the parent is destroyed while its child holds only the creation reference
   (script "W n0.0 u0") *)
Definition wit_destroy : list op := [new0 1; OUnref 1].
(* #17: raise, close, unref, flush ("W n0.0 R1 c1 u1 f0") *)
Definition wit_close : list op := [new0 1; ORestack ChRaise 2; OClose 2; OUnref 2; OFlush 1].
(* #17, window still referenced: the request names a window that is no longer a child ("W n0.0 R1 c1 f0") *)
Definition wit_close_null : list op := [new0 1; ORestack ChRaise 2; OClose 2; OFlush 1].
(* #17, the root goes with requests still queued ("W n0.0 r1 R1 u0 u1") *)
Definition wit_leak : list op := [new0 1; ORef 2; ORestack ChRaise 2; OUnref 1; OUnref 2].
(* a closed window with a child is destroyed: abort() in _get_root ("W n0.0 n1.0 c1 u1") *)
Definition wit_orphan_abort : list op := [new0 1; new0 2; OClose 2; OUnref 2].
(* #21: the drag source is destroyed, then the next drag event ("W n0.0 b1.m.10.1.- mp md c1 u1 md") *)
Definition wit_drag : list op :=
  [new0 1; OBind 2 0 HMouse 16 true []; OMouse MPress; OMouse MDrag; OClose 2; OUnref 2; OMouse MDrag].
(* a key handler destroys the sibling that is offered the event next ("W n0.0 n0.0 b2.k.0.0.c1,u1 k") *)
Definition wit_sibling : list op :=
  [new0 1; new0 1; OBind 3 0 HKey 0 false [OClose 2; OUnref 2]; OKey].
(* #21: a drag with no press before it reads the press position that was never stored ("W b0.m.ff.0.- md") *)
Definition wit_uninit : list op := [OBind 1 0 HMouse 255 false []; OMouse MDrag].

Definition outcome (v : verdict) : option (fault * nat) * bool * bool * bool :=
  match v with
  | VOk h => (None, heap_empty h, uninit_seen h, wf_client (rev (tr h)))
  | VFault f k h => (Some (f, k), false, uninit_seen h, wf_client (rev (tr h)))
  | VNoFuel _ => (None, false, false, false)
  end.

(* C08-7: an expose / focus / geomchange handler closes its own window and drops the last reference to it *)
Definition wit_expose_self : list op := [new0 1; OBind 2 0 HExpose 0 false [OClose 2; OUnref 2]; OExpose 2; OFlush 1; OUnref 1].
Definition wit_focus_self : list op := [new0 1; OBind 2 0 HFocus 0 false [OClose 2; OUnref 2]; OFocus 2; OUnref 1].
Definition wit_geom_self : list op :=
  [new0 1; OBind 2 0 HGeom 0 false [OClose 2; OUnref 2]; OBind 2 1 HGeom 0 false []; OGeom 2; OUnref 1].
(* C08-9: the root, told that a child takes the focus, closes and releases that child; then a flush places the cursor *)
Definition wit_focus_notify : list op :=
  [ONotify 1 true; OBind 1 0 HFocus 0 false [OUnbind 1 0; OClose 2; OUnref 2]; new0 1; OFocus 2; OFlush 1; OUnref 1].
(* C08-12: an expose handler drops the last reference to the root during the flush *)
Definition wit_flush_root : list op := [OBind 1 0 HExpose 0 false [OUnref 1]; OExpose 1; OFlush 1].
(* C08-14: reposition looks at the window after its geomchange handler has released it *)
Definition wit_move : list op := [new0 1; OBind 2 0 HGeom 0 false [OUnref 2]; OMove 2; OUnref 1].
(* C08-15: the terminal is resized; a geomchange handler of the root drops the last reference to it *)
Definition wit_resize : list op := [OBind 1 0 HGeom 0 false [OUnref 1]; OResize].
(* C08-16: the window that loses the focus closes the window that is taking it *)
Definition wit_focus_close : list op :=
  [new0 1; new0 2; OFocus 3; OBind 3 0 HFocus 0 false [OClose 2]; OFocus 2; OUnref 3; OUnref 2; OUnref 1].

(* pinned code: (fault, heap empty at the end, a never-written field was read, the calls made were well-formed) *)
Lemma pinned_destroy : outcome (run_script pinned fuel40 wit_destroy) = (Some (UAF, 1%nat), false, false, true).
Proof. vm_compute. reflexivity. Qed.
Lemma pinned_close : outcome (run_script pinned fuel40 wit_close) = (Some (UAF, 4%nat), false, false, true).
Proof. vm_compute. reflexivity. Qed.
Lemma pinned_close_null : outcome (run_script pinned fuel40 wit_close_null) = (Some (NullDeref, 3%nat), false, false, true).
Proof. vm_compute. reflexivity. Qed.
Lemma pinned_leak : outcome (run_script pinned fuel40 wit_leak) = (None, false, false, true) /\
  match gcheck g0 wit_leak with Some g => all_dropped g = true | None => False end.
Proof. split; vm_compute; reflexivity. Qed.
Lemma pinned_orphan_abort : outcome (run_script pinned fuel40 wit_orphan_abort) = (Some (Abort, 3%nat), false, false, true).
Proof. vm_compute. reflexivity. Qed.
Lemma pinned_drag : outcome (run_script pinned fuel40 wit_drag) = (Some (UAF, 6%nat), false, false, true).
Proof. vm_compute. reflexivity. Qed.
Lemma pinned_sibling : outcome (run_script pinned fuel40 wit_sibling) = (Some (UAF, 3%nat), false, false, true).
Proof. vm_compute. reflexivity. Qed.
Lemma pinned_uninit : outcome (run_script pinned fuel40 wit_uninit) = (None, false, true, true).
Proof. vm_compute. reflexivity. Qed.

Lemma pinned_expose_self : outcome (run_script pinned fuel40 wit_expose_self) = (Some (UAF, 3%nat), false, false, true).
Proof. vm_compute. reflexivity. Qed.
Lemma pinned_focus_self : outcome (run_script pinned fuel40 wit_focus_self) = (Some (UAF, 2%nat), false, false, true).
Proof. vm_compute. reflexivity. Qed.
Lemma pinned_geom_self : outcome (run_script pinned fuel40 wit_geom_self) = (Some (UAF, 3%nat), false, false, true).
Proof. vm_compute. reflexivity. Qed.
Lemma pinned_focus_notify : outcome (run_script pinned fuel40 wit_focus_notify) = (Some (UAF, 3%nat), false, false, true).
Proof. vm_compute. reflexivity. Qed.
Lemma pinned_flush_root : outcome (run_script pinned fuel40 wit_flush_root) = (Some (UAF, 2%nat), false, false, true).
Proof. vm_compute. reflexivity. Qed.
Lemma pinned_move : outcome (run_script pinned fuel40 wit_move) = (Some (UAF, 2%nat), false, false, true).
Proof. vm_compute. reflexivity. Qed.
Lemma pinned_resize : outcome (run_script pinned fuel40 wit_resize) = (Some (UAF, 1%nat), false, false, true).
Proof. vm_compute. reflexivity. Qed.
Lemma pinned_focus_close : outcome (run_script pinned fuel40 wit_focus_close) = (Some (Abort, 4%nat), false, false, true).
Proof. vm_compute. reflexivity. Qed.

(* repaired code, same histories: no fault; where every reference was dropped the heap is empty *)
Lemma fixed_destroy : outcome (run_script fixed fuel40 wit_destroy) = (None, true, false, true).
Proof. vm_compute. reflexivity. Qed.
Lemma fixed_close : outcome (run_script fixed fuel40 wit_close) = (None, false, false, true).
Proof. vm_compute. reflexivity. Qed.
Lemma fixed_close_null : outcome (run_script fixed fuel40 wit_close_null) = (None, false, false, true).
Proof. vm_compute. reflexivity. Qed.
Lemma fixed_leak : outcome (run_script fixed fuel40 wit_leak) = (None, true, false, true).
Proof. vm_compute. reflexivity. Qed.
Lemma fixed_orphan_abort : outcome (run_script fixed fuel40 wit_orphan_abort) = (None, false, false, true).
Proof. vm_compute. reflexivity. Qed.
Lemma fixed_drag : outcome (run_script fixed fuel40 wit_drag) = (None, false, false, true).
Proof. vm_compute. reflexivity. Qed.
Lemma fixed_sibling : outcome (run_script fixed fuel40 wit_sibling) = (None, false, false, true).
Proof. vm_compute. reflexivity. Qed.
Lemma fixed_uninit : outcome (run_script fixed fuel40 wit_uninit) = (None, false, false, true).
Proof. vm_compute. reflexivity. Qed.

Lemma fixed_handlers_efg :
  map (fun l => outcome (run_script fixed fuel40 l))
      [wit_expose_self; wit_focus_self; wit_geom_self; wit_focus_notify; wit_flush_root; wit_move; wit_resize; wit_focus_close]
  = repeat (None, true, false, true) 8.
Proof. vm_compute. reflexivity. Qed.

(* copy-out on the pinned code: an exactly fitting buffer is overrun by the terminating NUL *)
Lemma pinned_copy : get_span_text true (CText [97]) [170] = None.
Proof. vm_compute. reflexivity. Qed.
Lemma fixed_copy : get_span_text false (CText [97]) [170] = Some (1, [97]).
Proof. vm_compute. reflexivity. Qed.
(* the mock terminal's query (kept as pinned): "ab" into two bytes *)
Lemma mock_copy_witness : mock_display_text [[97]; [98]] [170; 170] = None /\ mock_trigger [[97]; [98]] 2 = true.
Proof. split; vm_compute; reflexivity. Qed.

(* a non-trivial history that meets the hypotheses of the theorems: windows at three depths, references
   taken and dropped, restack requests of all four kinds left pending, flushed, closed, released *)
Definition wit_nontrivial : list op :=
  [new0 1; new0 2; ONew 1 false true false false; ORef 3; ORestack ChRaise 4; ORestack ChLowerBack 2;
   ORestack ChLower 2; ORestack ChRaiseFront 4; OHide 2; OShow 2; ORestack ChRaise 3; OTouch 3 (Some 2%positive) true; OExpose 3;
   OClose 2; OUnref 2; OUnref 3; OUnref 4; OUnref 1].
Lemma nontrivial_ok :
  client_okb fuel40 wit_nontrivial (heap0 fixed) = true /\ wf_client wit_nontrivial = true /\
  outcome (run_script fixed fuel40 wit_nontrivial) = (None, true, false, true).
Proof. repeat split; vm_compute; reflexivity. Qed.
