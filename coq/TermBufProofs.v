(* TermBufProofs.v -- the output path of TermBufDefs.v loses and reorders nothing once an output is attached,
   and owes nothing after a flush, a teardown or a destruction.

   [ustep] is the same history WITHOUT buffering: the terminal object's steps (XtermModeSpec.mode_step), plus
   the driver's start() at the first attach.  Buffering never changes the terminal object, and as long as an
   output is attached and the buffer is not replaced,
       bytes delivered so far ++ bytes still in the buffer = the rendering of everything written so far.
   After tickit_term_flush / tickit_term_teardown / destruction the buffer is empty, so the bytes DELIVERED by
   then are exactly the rendering of the unbuffered history's tokens: the C12 theorems about the token stream
   (C12_history_*, C12_balanced_nokp) speak about what a buffered terminal has received by the end of such a
   history.  This is what the seeded change C12-8 (flush before stop() instead of after) breaks. *)
From Coq Require Import ZArith List Bool Lia.
From Tickit Require Import Csi TermPenDefs XtermDefs XtermModeSpec TermBufDefs.
Import ListNotations.
Local Open Scope Z_scope.

Lemma render_app : forall a b, render (a ++ b) = render a ++ render b.
Proof. intros a b. unfold render. apply flat_map_app. Qed.

(* the history without buffering *)
Definition ustep (t : term) (op : bop) : option (term * list token * option Z) :=
  match op with
  | BOp o => mode_step t o
  | BAttach => if t_started t then Some (t, [], None)
               else Some (mkTerm (t_drv t) true (t_pen t) (t_lines t) (t_cols t), xt_start, None)
  | BBuffer _ | BFlush => Some (t, [], None)
  end.

Fixpoint urun (t : term) (ops : list bop) : option (term * list token) :=
  match ops with
  | [] => Some (t, [])
  | op :: r =>
      match ustep t op with
      | None => None
      | Some (t', ts, _) =>
          match urun t' r with
          | None => None
          | Some (t'', ts') => Some (t'', ts ++ ts')
          end
      end
  end.

Fixpoint brun (b : bterm) (ops : list bop) : option (bterm * list Z) :=
  match ops with
  | [] => Some (b, [])
  | op :: r =>
      match bstep b op with
      | None => None
      | Some (b', d, _) =>
          match brun b' r with
          | None => None
          | Some (b'', d') => Some (b'', d ++ d')
          end
      end
  end.

(* without a buffer nothing is pending *)
Definition binv (b : bterm) : Prop := (0 <? b_cap b) = false -> b_pend b = [].

(* write_str and flush: nothing lost, nothing reordered, while an output is attached *)
Lemma bwrite_spec : forall b bs, b_out b = true -> binv b ->
  snd (bwrite b bs) ++ b_pend (fst (bwrite b bs)) = b_pend b ++ bs /\
  b_t (fst (bwrite b bs)) = b_t b /\ b_out (fst (bwrite b bs)) = true /\ b_cap (fst (bwrite b bs)) = b_cap b /\
  binv (fst (bwrite b bs)).
Proof.
  intros b bs Ho Hi. unfold bwrite. destruct (0 <? b_cap b) eqn:E.
  - cbn [fst snd b_pend b_t b_out b_cap]. rewrite Ho. rewrite firstn_skipn.
    refine (conj eq_refl (conj eq_refl (conj eq_refl (conj eq_refl _)))).
    unfold binv. cbn [b_cap]. rewrite E. discriminate.
  - cbn [fst snd]. rewrite Ho, (Hi E). cbn [app]. rewrite app_nil_r. auto.
Qed.

Lemma bwrite_unattached : forall b bs, b_out b = false -> snd (bwrite b bs) = [] /\ b_out (fst (bwrite b bs)) = false /\
  b_t (fst (bwrite b bs)) = b_t b.
Proof.
  intros b bs Ho. unfold bwrite. destruct (0 <? b_cap b); cbn [fst snd b_out b_t]; rewrite Ho; auto.
Qed.

Lemma bflush_spec : forall b, b_out b = true ->
  snd (bflush b) = b_pend b /\ b_pend (fst (bflush b)) = [] /\ b_t (fst (bflush b)) = b_t b /\
  b_out (fst (bflush b)) = true /\ b_cap (fst (bflush b)) = b_cap b /\ binv (fst (bflush b)).
Proof. intros b Ho. unfold bflush, binv. cbn. rewrite Ho. auto 10. Qed.

(* one call on a terminal with an output (or the call that attaches it), buffer not replaced: the terminal
   object steps as without buffering, and delivered ++ pending grows by exactly what was written *)
Definition keeps_buffer (op : bop) : bool := match op with BBuffer _ => false | _ => true end.
Definition attaches (op : bop) : bool := match op with BAttach => true | _ => false end.
Definition is_sync (op : bop) : bool :=
  match op with BFlush | BOp OTeardown | BOp ODestroy => true | _ => false end.

Lemma bstep_conserve : forall b op b' d v,
  bstep b op = Some (b', d, v) -> b_out b = true \/ attaches op = true -> binv b -> keeps_buffer op = true ->
  exists ts, ustep (b_t b) op = Some (b_t b', ts, v) /\
    d ++ b_pend b' = b_pend b ++ render ts /\ b_out b' = true /\ binv b' /\
    (is_sync op = true -> b_pend b' = []).
Proof.
  intros b op b' d v H Ho Hi Hk. destruct op as [o|len| |]; try discriminate Hk; cbn [bstep ustep] in *.
  - (* a call of XtermModeSpec *)
    destruct Ho as [Ho|Ho]; [|discriminate Ho].
    destruct (mode_step (b_t b) o) as [[[t' ts] v0]|] eqn:Em; [|discriminate H].
    pose proof (bwrite_spec (with_t b t') (render ts) Ho Hi) as (W1 & W2 & W3 & W4 & W5).
    destruct (bwrite (with_t b t') (render ts)) as [b1 d1]. cbn [fst snd] in *.
    assert (Hplain : (b', d, v) = (b1, d1, v0) -> exists ts0, Some (t', ts, v0) = Some (b_t b', ts0, v) /\
              d ++ b_pend b' = b_pend b ++ render ts0 /\ b_out b' = true /\ binv b').
    { intros E. inversion E; subst. exists ts. cbn [with_t b_t b_pend] in *. rewrite W2. auto. }
    assert (Hstop : (let '(b2, d2) := bflush b1 in Some (b2, d1 ++ d2, v0)) = Some (b', d, v) ->
              exists ts0, Some (t', ts, v0) = Some (b_t b', ts0, v) /\
              d ++ b_pend b' = b_pend b ++ render ts0 /\ b_out b' = true /\ binv b' /\ b_pend b' = []).
    { pose proof (bflush_spec b1 W3) as (F1 & F2 & F3 & F4 & F5 & F6).
      destruct (bflush b1) as [b2 d2]. cbn [fst snd] in *. intros E. inversion E; subst.
      exists ts. cbn [with_t b_t b_pend] in *. rewrite F3, W2, F2, app_nil_r, <- W1. auto. }
    destruct o; try (inversion H; subst; destruct (Hplain eq_refl) as (ts0 & A & B & C & D0);
                     exists ts0; repeat split; try assumption; intros Hs; discriminate Hs).
    + destruct (Hstop H) as (ts0 & A & B & C & D0 & E0). exists ts0. auto.
    + destruct (Hstop H) as (ts0 & A & B & C & D0 & E0). exists ts0. auto.
  - (* attach *)
    destruct (t_started (b_t b)) eqn:Es.
    + inversion H; subst. exists []. cbn [b_t b_pend b_out render flat_map]. rewrite app_nil_r.
      refine (conj eq_refl (conj eq_refl (conj eq_refl (conj _ _)))); [exact Hi|intros Hs; discriminate Hs].
    + set (b0 := mkB (mkTerm (t_drv (b_t b)) true (t_pen (b_t b)) (t_lines (b_t b)) (t_cols (b_t b))) true (b_cap b) (b_pend b)) in *.
      assert (Hi0 : binv b0) by exact Hi.
      pose proof (bwrite_spec b0 (render xt_start) eq_refl Hi0) as (W1 & W2 & W3 & W4 & W5).
      destruct (bwrite b0 (render xt_start)) as [b1 d1]. cbn [fst snd] in *.
      pose proof (bflush_spec b1 W3) as (F1 & F2 & F3 & F4 & F5 & F6).
      destruct (bflush b1) as [b2 d2]. cbn [fst snd] in *. inversion H; subst.
      exists xt_start. rewrite F3, W2, F2, app_nil_r.
      refine (conj eq_refl (conj W1 (conj F4 (conj F6 _)))). intros Hs; discriminate Hs.
  - (* flush *)
    destruct Ho as [Ho|Ho]; [|discriminate Ho].
    pose proof (bflush_spec b Ho) as (F1 & F2 & F3 & F4 & F5 & F6).
    destruct (bflush b) as [b1 d1]. cbn [fst snd] in *. inversion H; subst.
    exists []. cbn [render flat_map]. rewrite F2, F3, !app_nil_r.
    refine (conj eq_refl (conj eq_refl (conj F4 (conj F6 (fun _ => eq_refl))))).
Qed.

(* histories: attached from the first call on (possibly by it), the buffer set before anything is pending *)
Theorem brun_conserve : forall ops b b' D,
  brun b ops = Some (b', D) -> b_out b = true -> binv b -> forallb keeps_buffer ops = true ->
  exists ts, urun (b_t b) ops = Some (b_t b', ts) /\ D ++ b_pend b' = b_pend b ++ render ts /\
             b_out b' = true /\ binv b'.
Proof.
  induction ops as [|op ops IH]; intros b b' D H Ho Hi Hk.
  - cbn [brun urun] in *. inversion H; subst. exists []. cbn [render flat_map]. rewrite app_nil_r. auto.
  - cbn [forallb] in Hk. apply andb_true_iff in Hk as [Hk1 Hk2]. cbn [brun] in H.
    destruct (bstep b op) as [[[b1 d1] v1]|] eqn:Es; [|discriminate H].
    destruct (brun b1 ops) as [[b2 d2]|] eqn:Er; [|discriminate H]. inversion H; subst.
    destruct (bstep_conserve b op b1 d1 v1 Es (or_introl Ho) Hi Hk1) as (ts1 & U1 & C1 & O1 & I1 & _).
    destruct (IH b1 b' d2 Er O1 I1 Hk2) as (ts2 & U2 & C2 & O2 & I2).
    exists (ts1 ++ ts2). cbn [urun]. rewrite U1, U2. rewrite render_app.
    refine (conj eq_refl (conj _ (conj O2 I2))).
    rewrite <- app_assoc, C2, app_assoc, C1, <- app_assoc. reflexivity.
Qed.

Lemma urun_snoc : forall ops last t t1 t2 ts1 ts2 v,
  urun t ops = Some (t1, ts1) -> ustep t1 last = Some (t2, ts2, v) ->
  urun t (ops ++ [last]) = Some (t2, ts1 ++ ts2).
Proof.
  induction ops as [|o ops IH]; intros last t t1 t2 ts1 ts2 v U1 U2.
  - cbn [urun app] in *. inversion U1; subst. rewrite U2. cbn [app]. rewrite app_nil_r. reflexivity.
  - cbn [urun app] in *. destruct (ustep t o) as [[[tx tsx] vx]|]; [|discriminate U1].
    destruct (urun tx ops) as [[ty tsy]|] eqn:E; [|discriminate U1]. inversion U1; subst.
    rewrite (IH last tx t1 t2 tsy ts2 v E U2). rewrite app_assoc. reflexivity.
Qed.

(* ... and when the history ends with a flush, a teardown or a destruction, everything written has been
   delivered: the bytes the output has received are the rendering of the unbuffered history *)
Theorem brun_delivered : forall ops last b b' D,
  brun b (ops ++ [last]) = Some (b', D) -> b_out b = true -> binv b -> b_pend b = [] ->
  forallb keeps_buffer (ops ++ [last]) = true -> is_sync last = true ->
  exists ts, urun (b_t b) (ops ++ [last]) = Some (b_t b', ts) /\ D = render ts /\ b_pend b' = [].
Proof.
  intros ops last b b' D H Ho Hi Hp Hk Hs.
  assert (Hsplit : forall ops b D b', brun b (ops ++ [last]) = Some (b', D) ->
            exists b1 D1 d v, brun b ops = Some (b1, D1) /\ bstep b1 last = Some (b', d, v) /\ D = D1 ++ d).
  { induction ops0 as [|o ops0 IH0]; intros b0 D0 b0' H0.
    - cbn [app brun] in H0. destruct (bstep b0 last) as [[[bx dx] vx]|] eqn:E; [|discriminate H0].
      inversion H0; subst. exists b0, [], dx, vx. cbn [brun]. rewrite app_nil_r. auto.
    - cbn [app brun] in H0. destruct (bstep b0 o) as [[[bx dx] vx]|] eqn:E; [|discriminate H0].
      destruct (brun bx (ops0 ++ [last])) as [[by0 dy]|] eqn:E2; [|discriminate H0]. inversion H0; subst.
      destruct (IH0 bx dy b0' E2) as (b1 & D1 & d & v & R1 & S1 & ->).
      exists b1, (dx ++ D1), d, v. cbn [brun]. rewrite E, R1. rewrite app_assoc. auto. }
  destruct (Hsplit ops b D b' H) as (b1 & D1 & d & v & R1 & S1 & ->).
  rewrite forallb_app in Hk. apply andb_true_iff in Hk as [Hk1 Hk2]. cbn [forallb] in Hk2. rewrite andb_true_r in Hk2.
  destruct (brun_conserve ops b b1 D1 R1 Ho Hi Hk1) as (ts1 & U1 & C1 & O1 & I1).
  destruct (bstep_conserve b1 last b' d v S1 (or_introl O1) I1 Hk2) as (ts2 & U2 & C2 & O2 & I2 & Hsync).
  specialize (Hsync Hs).
  exists (ts1 ++ ts2). split.
  - exact (urun_snoc ops last (b_t b) (b_t b1) (b_t b') ts1 ts2 v U1 U2).
  - split; [|exact Hsync]. rewrite render_app. rewrite Hsync, app_nil_r in C2. rewrite Hp in C1. cbn [app] in C1.
    rewrite C2, app_assoc, C1. reflexivity.
Qed.
