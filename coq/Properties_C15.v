(* Property C15: after a flush the terminal cursor reflects the focused window, or is
   hidden; focus-out before focus-in; notifying parents told of both.  Nothing but the
   property theorems, each closed by [exact <lemma>] and followed by Print Assumptions.

   Vocabulary: WinDefs.v (model: do_restore, win_flush, focus_gained, win_take_focus, ...),
   WinSpec.v (cursor_spec: Some (line, col, shape) iff the window at the end of the focus
   chain is focused, the chain is visible, the cursor is enabled and the cursor cell is
   owned by that window in the composition; focus_spec / c15_focus_checkb: the OUT and IN
   events one take_focus must produce, every OUT before every IN), WinFocusProofs.v
   (cursor_of tm = the terminal's cursor as Some (line, col, shape) / None; ids_unique;
   wf_focus t = every focused-child link names a VISIBLE child of its window; wf_links =
   ... names a child; flush_pre st = the state after the queued restacks were applied). *)
From Coq Require Import ZArith List Bool.
From Tickit Require Import RectDefs WinRectSet WinDefs WinSpec WinHist WinFocusProofs WinPreserve WinFocusHistA WinFocusHistB WinFocusHistory.
From Tickit Require WinLogDisjoint WinShowSpec WinHideSpec.
Import ListNotations.
Local Open Scope Z_scope.

(* _do_restore drives the terminal's cursor controls to cursor_spec -- any tree *)
Theorem C15_restore : forall tree tm,
  ids_unique tree -> wf_focus tree -> w_vis (t_info tree) = true ->
  top (w_rect (t_info tree)) = 0 -> left (w_rect (t_info tree)) = 0 ->
  cursor_of (do_restore tree tm) = cursor_spec tree.
Proof. exact WinFocusProofs.C15_restore. Qed.
Print Assumptions C15_restore.

(* a flush that has anything to do (damage or a restore request, after the queued restacks
   were applied -- any queue) leaves the cursor where cursor_spec of the resulting tree
   puts it, or hidden; the well-formedness of the tree carries over *)
Theorem C15_after_flush : forall cfg hnd st tm st' tm' lg,
  win_flush cfg hnd st tm = (st', tm', lg) ->
  r_later st = true ->
  r_nexp (flush_pre st) || r_nrest (flush_pre st) = true ->
  ids_unique (r_tree st) -> wf_focus (r_tree st) -> w_vis (t_info (r_tree st)) = true ->
  top (w_rect (t_info (r_tree st))) = 0 -> left (w_rect (t_info (r_tree st))) = 0 ->
  cursor_of tm' = cursor_spec (r_tree st') /\
  ids_unique (r_tree st') /\ wf_focus (r_tree st') /\ t_info (r_tree st') = t_info (r_tree st).
Proof. exact C15_flush_pre. Qed.
Print Assumptions C15_after_flush.

(* ... and a flush that has nothing to do leaves the terminal alone *)
Theorem C15_flush_idle : forall cfg hnd st tm st' tm' lg,
  win_flush cfg hnd st tm = (st', tm', lg) ->
  (r_later st = false \/ r_nexp (flush_pre st) || r_nrest (flush_pre st) = false) ->
  tm' = tm.
Proof. exact WinFocusProofs.C15_flush_idle. Qed.
Print Assumptions C15_flush_idle.

(* The history clause.  FInvM m: the tree is well-formed (unique ids, focus links name visible
   children, visible root at the origin), the flags are consistent with the damage and the
   queue, and the cursor is where cursor_spec puts it OR a flush that will re-establish it is
   pending (needs_later with needs_restore or needs_expose).
   C15_requested: every operation of the alphabet -- take_focus, the cursor / control setters,
   show, hide, the restack requests, move / resize / set_geometry with the exposes of old and
   new area, close, expose, new -- keeps FInvM: whenever it changes cursor_spec it requests a
   restore or adds damage (op_side: fresh ids, not on the root, geometry with its exposes).
   C15_flush: every flush (any handlers, any restack queue) ends with the cursor exactly at
   cursor_spec.  C15_history / C15_history_flushed: by induction over any history of that
   alphabet with flushes at arbitrary points (the scrolls and the terminal resize are not in
   C15's alphabet). *)
Theorem C15_requested : forall progs o m,
  FInvM m -> op_side (m_root m) o -> r_fault (m_root (step no_defects progs o m)) = false ->
  FInvM (step no_defects progs o m) /\ m_term (step no_defects progs o m) = m_term m.
Proof. exact WinFocusHistory.C15_requested. Qed.
Print Assumptions C15_requested.

Theorem C15_flush : forall hnd st tm st' tm' lg,
  FInv st tm -> win_flush no_defects hnd st tm = (st', tm', lg) -> r_fault st' = false ->
  cursor_of tm' = cursor_spec (r_tree st') /\ FInv st' tm'.
Proof. exact flush_FInv. Qed.
Print Assumptions C15_flush.

Theorem C15_history : forall progs ops m,
  FInvM m -> focus_run_ok progs ops m -> FInvM (run no_defects progs ops m).
Proof. exact WinFocusHistory.C15_history. Qed.
Print Assumptions C15_history.

Theorem C15_history_flushed : forall progs ops m,
  FInvM m -> focus_run_ok progs (ops ++ [OFlush]) m ->
  let m' := run no_defects progs (ops ++ [OFlush]) m in
  cursor_of (m_term m') = cursor_spec (r_tree (m_root m')).
Proof. exact WinFocusHistory.C15_history_flushed. Qed.
Print Assumptions C15_history_flushed.

Theorem C15_init : forall nl nc orc, 0 < nl -> 0 < nc ->
  r_fault (m_root (m_init nl nc orc)) = false -> FInvM (m_init nl nc orc).
Proof. exact WinFocusHistory.C15_init. Qed.
Print Assumptions C15_init.

(* ... for every amount of fuel of the rectangle-set loops (the fuel is a field [r_fuel] of the window
   state; [m_init] = [m_init_f rsfuel]); C15_history / C15_flush quantify over the state *)
Theorem C15_init_any_fuel : forall fuel nl nc orc, 0 < nl -> 0 < nc ->
  r_fault (m_root (m_init_f fuel nl nc orc)) = false -> FInvM (m_init_f fuel nl nc orc).
Proof. exact WinFocusHistory.C15_init_f. Qed.
Print Assumptions C15_init_any_fuel.

(* when focus moves every OUT precedes every IN -- any defect configuration, any tree *)
Theorem C15_focus_order : forall cfg chain child tree tree' evs rs,
  focus_gained cfg chain child tree = (tree', evs, rs) -> outs_before_ins evs false = true.
Proof. exact WinFocusProofs.C15_focus_order. Qed.
Print Assumptions C15_focus_order.

(* the events of a take_focus are exactly the demanded ones: the holders and notifying parents
   along every displaced focus chain are told OUT, the new holder and its notifying ancestors
   IN (repaired code) *)
Theorem C15_focus_events : forall st w st' evs,
  ids_unique (r_tree st) -> wf_links (r_tree st) ->
  win_take_focus no_defects st w = (st', evs) ->
  c15_focus_checkb (r_tree st) w evs = true.
Proof. exact WinFocusProofs.C15_focus_events. Qed.
Print Assumptions C15_focus_events.

(* the pinned code (#19): take_focus on the parent of the focus holder sends it no OUT *)
Theorem C15_refuted_19 :
  c15_focus_checkb tree_19 1 (snd (win_take_focus cfg_19 (set_tree (root_new 10 20) tree_19) 1)) = false /\
  c15_focus_checkb tree_19 1 (snd (win_take_focus no_defects (set_tree (root_new 10 20) tree_19) 1)) = true.
Proof. exact C15_refuted_19_take_focus. Qed.
Print Assumptions C15_refuted_19.

(* the well-formedness C15_restore needs is kept by the operations that touch focus links *)
Theorem C15_wf_take_focus : forall cfg st w,
  ids_unique (r_tree st) -> wf_focus (r_tree st) -> wf_focus (r_tree (fst (win_take_focus cfg st w))).
Proof. exact wf_focus_win_take_focus. Qed.
Print Assumptions C15_wf_take_focus.
Theorem C15_wf_show : forall cfg st id,
  ids_unique (r_tree st) -> wf_focus (r_tree st) -> wf_focus (r_tree (win_show cfg st id)).
Proof. exact wf_focus_win_show. Qed.
Print Assumptions C15_wf_show.
Theorem C15_wf_hide : forall cfg st id,
  ids_unique (r_tree st) -> wf_focus (r_tree st) -> wf_focus (r_tree (win_hide cfg st id)).
Proof. exact wf_focus_win_hide. Qed.
Print Assumptions C15_wf_hide.
Theorem C15_wf_close : forall cfg st id,
  wf_focus (r_tree st) -> wf_focus (r_tree (win_close cfg st id)).
Proof. exact wf_focus_win_close. Qed.
Print Assumptions C15_wf_close.
Theorem C15_wf_restack : forall st k pid wid,
  ids_unique (r_tree st) -> wf_focus (r_tree st) -> wf_focus (r_tree (do_hchange st k pid wid)).
Proof. exact wf_focus_do_hchange. Qed.
Print Assumptions C15_wf_restack.

(* tickit_window_show and the focus links (oracle clause c15_show_checkb, evaluated on the trees the
   implementation reports before and after every show): the shown window becomes its parent's
   focused child exactly when the parent has none and the window is flagged focused or has a focused
   child of its own; every other link, every focused flag and the shape of the tree are untouched.
   The model's show meets it, for every defect configuration ... *)
Theorem C15_show_links : forall cfg st id,
  WinLogDisjoint.ids_unique (r_tree st) ->
  c15_show_checkb id (r_tree st) (r_tree (win_show cfg st id)) = true.
Proof. exact WinShowSpec.show_meets_spec. Qed.
Print Assumptions C15_show_links.

(* ... and the checker rejects both seeded behaviours: re-linking a window although another child
   holds the parent's link, and leaving a container off the chain whose focus holder is two levels
   below it *)
Example C15_show_refutes_relink :
  WinLogDisjoint.ids_unique WinShowSpec.relink_before /\
  c15_show_checkb 2 WinShowSpec.relink_before WinShowSpec.relink_seeded = false /\
  c15_show_checkb 2 WinShowSpec.relink_before (r_tree (win_show no_defects (WinShowSpec.st_of WinShowSpec.relink_before) 2)) = true /\
  w_fchild (t_info (r_tree (win_show no_defects (WinShowSpec.st_of WinShowSpec.relink_before) 2))) = Some 1.
Proof. exact WinShowSpec.show_refutes_relink. Qed.
Print Assumptions C15_show_refutes_relink.

Example C15_show_refutes_one_level :
  WinLogDisjoint.ids_unique WinShowSpec.one_level_before /\
  c15_show_checkb 1 WinShowSpec.one_level_before WinShowSpec.one_level_seeded = false /\
  c15_show_checkb 1 WinShowSpec.one_level_before (r_tree (win_show no_defects (WinShowSpec.st_of WinShowSpec.one_level_before) 1)) = true /\
  w_fchild (t_info (r_tree (win_show no_defects (WinShowSpec.st_of WinShowSpec.one_level_before) 1))) = Some 1.
Proof. exact WinShowSpec.show_refutes_one_level. Qed.
Print Assumptions C15_show_refutes_one_level.

(* tickit_window_hide and the focus links (oracle clause c15_hide_checkb on the trees reported before
   and after every hide): the parent's link is dropped exactly when it names the hidden window,
   whatever that window holds; nothing else changes.  The model's hide meets it (every defect
   configuration), and the checker rejects a hidden window that stays linked *)
Theorem C15_hide_links : forall cfg st id,
  WinLogDisjoint.ids_unique (r_tree st) ->
  c15_hide_checkb id (r_tree st) (r_tree (win_hide cfg st id)) = true.
Proof. exact WinHideSpec.hide_meets_spec. Qed.
Print Assumptions C15_hide_links.

Example C15_hide_refutes_stays_linked :
  WinLogDisjoint.ids_unique WinHideSpec.stays_before /\
  c15_hide_checkb 1 WinHideSpec.stays_before WinHideSpec.stays_seeded = false /\
  c15_hide_checkb 1 WinHideSpec.stays_before (r_tree (win_hide no_defects (WinShowSpec.st_of WinHideSpec.stays_before) 1)) = true /\
  w_fchild (t_info (r_tree (win_hide no_defects (WinShowSpec.st_of WinHideSpec.stays_before) 1))) = None.
Proof. exact WinHideSpec.hide_refutes_stays_linked. Qed.
Print Assumptions C15_hide_refutes_stays_linked.

Example C15_nonvacuous :
  ids_unique tree_nv /\ wf_focus tree_nv /\ w_vis (t_info tree_nv) = true /\
  top (w_rect (t_info tree_nv)) = 0 /\ left (w_rect (t_info tree_nv)) = 0 /\
  cursor_spec tree_nv = Some (3, 4, 5).
Proof. exact WinFocusProofs.C15_nonvacuous. Qed.
