(* WinRectSet.v -- the damage / visible-region set of the window layer.

   A line-by-line transliteration of src/rectset.c (add with the merge-and-restart scan and
   the split-and-recurse branch, subtract with its index loop, translate, contains), written
   for the WINDOW layer (properties C01, C02, C14, C15): the window code hands one expose
   call per STORED rectangle and scrolls the terminal once per STORED rectangle of the
   visible region, so the observations of those properties depend on the exact rectangle
   list and not only on the region.  (The faithful model for property C05 itself, with the
   defect flag and the invariant proofs, is RectSet*.v of another group; this file models
   the code WITH the fix of defect #1 applied -- the current rectangle is rebuilt from
   top/left/bottom/right before the containment test and the union split.)

   Loops that are not structurally recursive carry fuel and return None when it runs out. *)
From Coq Require Import ZArith List Bool.
From Tickit Require Import RectDefs.
Import ListNotations.
Local Open Scope Z_scope.

Definition rectset := list rect.

(* cmprect(a, r) > 0 *)
Definition cmprect_gt (a r : rect) : bool :=
  if negb (top a =? top r) then top a - top r >? 0 else left a - left r >? 0.

(* insert_rect: before the first element that compares greater *)
Fixpoint rs_insert (s : rectset) (r : rect) : rectset :=
  match s with
  | [] => [r]
  | x :: rest => if cmprect_gt x r then r :: s else x :: rs_insert rest r
  end.

(* delete_rect *)
Fixpoint rs_delete (s : rectset) (i : nat) : rectset :=
  match s, i with
  | [], _ => []
  | _ :: rest, O => rest
  | x :: rest, S j => x :: rs_delete rest j
  end.

(* outcome of one pass of the `for` loop of tickit_rectset_add *)
Inductive scan_res :=
| ScanInsert                                   (* fell out of the loop (break or end) *)
| ScanReturn                                   (* already entirely covered *)
| ScanStretch (i : nat) (t l b r : Z)          (* delete i, goto restart with new bounds *)
| ScanSplit (i : nat) (x : rect).              (* delete i, recurse on r_add x cur *)

Fixpoint rs_scan (s : rectset) (i : nat) (t l b r : Z) : scan_res :=
  match s with
  | [] => ScanInsert
  | x :: rest =>
    let xb := bottom x in
    let xr := right x in
    if b <? top x then ScanInsert
    else if (t >? xb) || (l >? xr) || (r <? left x) then rs_scan rest (S i) t l b r
    else
      let cur := init_bounded t l b r in
      if r_contains x cur then ScanReturn
      else
        let top_eq := t =? top x in
        let bottom_eq := b =? xb in
        let left_eq := l =? left x in
        let right_eq := r =? xr in
        if (top_eq && bottom_eq) || (left_eq && right_eq) then
          ScanStretch i (if top x <? t then top x else t)
                        (if left x <? l then left x else l)
                        (if xb >? b then xb else b)
                        (if xr >? r then xr else r)
        else if (t =? xb) || (b =? top x) then rs_scan rest (S i) t l b r
        else ScanSplit i x
  end.

(* tickit_rectset_add, on the four bounds *)
Fixpoint rs_add_b (fuel : nat) (s : rectset) (t l b r : Z) : option rectset :=
  match fuel with
  | O => None
  | S f =>
    match rs_scan s O t l b r with
    | ScanInsert => Some (rs_insert s (init_bounded t l b r))
    | ScanReturn => Some s
    | ScanStretch i t' l' b' r' => rs_add_b f (rs_delete s i) t' l' b' r'
    | ScanSplit i x =>
      fold_left (fun acc p => match acc with
                              | Some s' => rs_add_b f s' (top p) (left p) (bottom p) (right p)
                              | None => None
                              end)
                (r_add x (init_bounded t l b r)) (Some (rs_delete s i))
    end
  end.

Definition rs_add (fuel : nat) (s : rectset) (q : rect) : option rectset :=
  rs_add_b fuel s (top q) (left q) (bottom q) (right q).

Definition rs_add_list (fuel : nat) (s : rectset) (l : list rect) : option rectset :=
  fold_left (fun acc p => match acc with Some s' => rs_add fuel s' p | None => None end) l (Some s).

(* tickit_rectset_subtract: the index loop; [i] is the index about to be inspected *)
Fixpoint rs_sub_from (fuel : nat) (s : rectset) (i : nat) (hole : rect) : option rectset :=
  match fuel with
  | O => None
  | S f =>
    match nth_error s i with
    | None => Some s
    | Some x =>
      if negb (r_intersects x hole) then rs_sub_from f s (S i) hole
      else match rs_add_list f (rs_delete s i) (r_subtract x hole) with
           | Some s' => rs_sub_from f s' i hole
           | None => None
           end
    end
  end.

Definition rs_subtract (fuel : nat) (s : rectset) (hole : rect) : option rectset :=
  rs_sub_from fuel s O hole.

Definition rs_translate (s : rectset) (down rightw : Z) : rectset :=
  map (fun x => r_translate x down rightw) s.

(* tickit_rectset_contains *)
Fixpoint rs_contains (fuel : nat) (s : rectset) (q : rect) : option bool :=
  match fuel with
  | O => None
  | S f =>
    (fix scan (l : rectset) : option bool :=
       match l with
       | [] => Some false
       | x :: rest =>
         if negb (r_intersects x q) then scan rest
         else if (top q <? top x) || (left q <? left x) then Some false
         else if (top q <? bottom x) && (bottom x <? bottom q) then
           match rs_contains f s (init_bounded (bottom x) (left q) (bottom q) (right q)) with
           | None => None
           | Some false => Some false
           | Some true => Some (r_contains x (mkRect (top q) (left q) (bottom x - top q) (cols q)))
           end
         else Some (r_contains x q)
       end) s
  end.

(* fuel used by the window layer (far above what any explored history needs; a result of
   None makes the window state faulty, and every theorem is stated for non-faulty runs) *)
Definition rsfuel : nat := 300.
