(* WinRectSet.v -- the damage / visible-region set of the window layer IS the rectangle set
   of property C05: the functions below are the model of src/rectset.c in RectSetDefs.v
   (repaired code: stale = false), under the names the window model uses.  So every theorem
   of the C05 development (RectSetProofs / RectSetSubtract / RectSetQueries / RectSetTerm:
   the invariant Inv -- members non-empty, pairwise separated, sorted --, exact regions of
   add and subtract, exactness of contains, termination) applies to the window layer's sets.

   The window code hands one expose call per STORED rectangle and scrolls the terminal once
   per STORED rectangle of the visible region, so the exact rectangle lists matter, not only
   the regions.  Loops that are not structurally recursive carry fuel and return None when
   it runs out. *)
From Coq Require Import ZArith List Bool.
From Tickit Require Import RectDefs.
From Tickit Require RectSetDefs.
Import ListNotations.
Local Open Scope Z_scope.

Definition rectset := list rect.

Definition rs_insert : rectset -> rect -> rectset := RectSetDefs.rs_insert.
Definition rs_delete : rectset -> nat -> rectset := RectSetDefs.rs_delete.

(* tickit_rectset_add *)
Definition rs_add (fuel : nat) (s : rectset) (q : rect) : option rectset :=
  RectSetDefs.rs_add fuel false s q.

Definition rs_add_list (fuel : nat) (s : rectset) (l : list rect) : option rectset :=
  RectSetDefs.rs_add_list fuel false s l.

(* tickit_rectset_subtract *)
Definition rs_subtract (fuel : nat) (s : rectset) (hole : rect) : option rectset :=
  RectSetDefs.rs_subtract fuel false s hole.

(* tickit_rectset_translate *)
Definition rs_translate : rectset -> Z -> Z -> rectset := RectSetDefs.rs_translate.

(* tickit_rectset_contains *)
Definition rs_contains (fuel : nat) (s : rectset) (q : rect) : option bool :=
  RectSetDefs.rs_contains fuel s q.

(* fuel used by the window layer (far above what any explored history needs; a result of
   None makes the window state faulty, and every theorem is stated for non-faulty runs) *)
Definition rsfuel : nat := 300.
