(* LoopSpecEq.v -- the two formulations of the C17 specification in LoopSpec.v give the same
   log for every callback environment and every script:
     spec_run  (identity snapshot: nothing is ever detached; the iteration walks the snapshot's
                IDENTITIES and invokes each one that is still pending), and
     qspec_run (snapshot queue: the due timers and the deferred callbacks are taken out into
                q_snap and popped one by one).
   Part 1: list lemmas (key-sorted lists are determined by their elements, priority-queue
   insertion, removal by identity). *)
From Coq Require Import ZArith List Bool Lia.
From Tickit Require Import LoopDefs LoopSpec LoopProofs LoopRefine LoopOrder.
Import ListNotations.
Local Open Scope Z_scope.

Lemma key_le_true : forall a b, key_le a b = true <-> (w_x a < w_x b \/ (w_x a = w_x b /\ w_id a <= w_id b)).
Proof.
  intros a b. unfold key_le. rewrite orb_true_iff, andb_true_iff, Z.ltb_lt, Z.eqb_eq, Z.leb_le. tauto.
Qed.

Lemma key_lt_irrefl : forall a, ~ key_lt a a.
Proof. intros a [H|[_ H]]; lia. Qed.

Lemma key_lt_asym : forall a b, key_lt a b -> ~ key_lt b a.
Proof. intros a b [H|[H1 H2]] [H'|[H1' H2']]; lia. Qed.

Lemma key_lt_trans : forall a b c, key_lt a b -> key_lt b c -> key_lt a c.
Proof. intros a b c [H|[H1 H2]] [H'|[H1' H2']]; unfold key_lt; lia. Qed.

Lemma in_pq_insert : forall w l v, In v (pq_insert w l) <-> v = w \/ In v l.
Proof.
  induction l as [|h t IH]; intros v; cbn [pq_insert].
  - cbn. intuition.
  - destruct (key_le h w); cbn [In]; [rewrite IH|]; intuition.
Qed.

Lemma ksorted_pq_insert : forall w l, ksorted l -> (forall v, In v l -> w_id v <> w_id w) -> ksorted (pq_insert w l).
Proof.
  induction l as [|h t IH]; intros Hs Hid; cbn [pq_insert].
  - constructor; constructor.
  - inversion Hs as [|? ? Hf Ht]; subst.
    destruct (key_le h w) eqn:E.
    + apply key_le_true in E. constructor.
      * apply Forall_forall. intros v Hv. apply in_pq_insert in Hv. destruct Hv as [->|Hv].
        -- assert (w_id h <> w_id w) by (apply Hid; left; reflexivity). unfold key_lt. lia.
        -- rewrite Forall_forall in Hf. auto.
      * apply IH; [exact Ht|]. intros v Hv. apply Hid. right. exact Hv.
    + assert (Hlt : key_lt w h).
      { destruct (key_le_true h w) as [_ K]. unfold key_lt.
        destruct (Z.lt_trichotomy (w_x w) (w_x h)) as [L|[L|L]]; [left; exact L| |exfalso; rewrite K in E; [discriminate|left; lia]].
        right. split; [exact L|].
        destruct (Z.lt_trichotomy (w_id w) (w_id h)) as [M|[M|M]]; [exact M| |];
          exfalso; rewrite K in E; try discriminate; right; split; lia. }
      constructor; [|exact Hs].
      constructor; [exact Hlt|].
      eapply Forall_impl; [|exact Hf]. intros v Hv. eapply key_lt_trans; eassumption.
Qed.

Lemma ksorted_head_notin : forall h t, ksorted (h :: t) -> ~ In h t.
Proof.
  intros h t Hs Hin. inversion Hs as [|? ? Hf _]; subst. rewrite Forall_forall in Hf.
  exact (key_lt_irrefl h (Hf h Hin)).
Qed.

(* a strictly key-sorted list is determined by its elements *)
Lemma ksorted_unique : forall l1 l2, ksorted l1 -> ksorted l2 -> (forall w, In w l1 <-> In w l2) -> l1 = l2.
Proof.
  induction l1 as [|h1 t1 IH]; intros l2 H1 H2 Hiff.
  - destruct l2 as [|h2 t2]; [reflexivity|]. exfalso. apply (proj2 (Hiff h2)). left. reflexivity.
  - destruct l2 as [|h2 t2]; [exfalso; apply (proj1 (Hiff h1)); left; reflexivity|].
    inversion H1 as [|? ? Hf1 Ht1]; subst. inversion H2 as [|? ? Hf2 Ht2]; subst.
    rewrite Forall_forall in Hf1, Hf2.
    assert (E : h1 = h2).
    { destruct (proj1 (Hiff h1) (or_introl eq_refl)) as [E|Hin1]; [symmetry; exact E|].
      destruct (proj2 (Hiff h2) (or_introl eq_refl)) as [E|Hin2]; [exact E|].
      exfalso. exact (key_lt_asym _ _ (Hf2 h1 Hin1) (Hf1 h2 Hin2)). }
    subst h2. f_equal. apply IH; [exact Ht1|exact Ht2|].
    intros w. split; intros Hw.
    + destruct (proj1 (Hiff w) (or_intror Hw)) as [E|Hin]; [|exact Hin].
      subst w. exfalso. exact (ksorted_head_notin _ _ H1 Hw).
    + destruct (proj2 (Hiff w) (or_intror Hw)) as [E|Hin]; [|exact Hin].
      subst w. exfalso. exact (ksorted_head_notin _ _ H2 Hw).
Qed.

Lemma ksorted_filter : forall (f : watch -> bool) l, ksorted l -> ksorted (filter f l).
Proof. intros f l H. eapply ksorted_subseq; [apply filter_subseq|exact H]. Qed.

Lemma cnt_pq_insert : forall id w l, cnt id (pq_insert w l) = (hit w id + cnt id l)%nat.
Proof.
  induction l as [|h t IH]; cbn [pq_insert]; [apply cnt_cons|].
  destruct (key_le h w); [|apply cnt_cons]. rewrite !cnt_cons, IH. lia.
Qed.

Lemma cnt_in_pos : forall l w, In w l -> (1 <= cnt (w_id w) l)%nat.
Proof.
  induction l as [|h t IH]; intros w Hin; [destruct Hin|].
  rewrite cnt_cons. destruct Hin as [->|Hin]; [unfold hit; rewrite Z.eqb_refl; lia|].
  specialize (IH w Hin). lia.
Qed.

Lemma cnt_zero_notin : forall l id w, cnt id l = O -> In w l -> w_id w <> id.
Proof. intros l id w H Hin E. pose proof (cnt_in_pos l w Hin). rewrite E in H0. lia. Qed.

(* two occurrences with one identity inside one list count twice *)
Lemma cnt_two : forall l a b, In a l -> In b l -> a <> b -> w_id a = w_id b -> (2 <= cnt (w_id a) l)%nat.
Proof.
  induction l as [|h t IH]; intros a b Ha Hb Hne E; [destruct Ha|].
  rewrite cnt_cons. destruct Ha as [->|Ha]; destruct Hb as [->|Hb].
  - contradiction.
  - unfold hit. rewrite Z.eqb_refl. pose proof (cnt_in_pos t b Hb). rewrite <- E in H. lia.
  - unfold hit. rewrite E, Z.eqb_refl. pose proof (cnt_in_pos t a Ha). rewrite E in *. lia.
  - specialize (IH a b Ha Hb Hne E). lia.
Qed.

Lemma find_remove_in_iff : forall id l w l', find_remove id l = Some (w, l') -> (cnt id l <= 1)%nat ->
  forall v, In v l' <-> In v l /\ v <> w.
Proof.
  induction l as [|h t IH]; intros w l' H Hc v; [discriminate|].
  cbn [find_remove] in H. rewrite cnt_cons in Hc. destruct (w_id h =? id) eqn:E.
  - inversion H; subst. apply Z.eqb_eq in E. unfold hit in Hc. rewrite E, Z.eqb_refl in Hc.
    split.
    + intros Hv. split; [right; exact Hv|]. intros ->. pose proof (cnt_in_pos _ _ Hv). rewrite E in H0. lia.
    + intros [[->|Hv] Hne]; [contradiction|exact Hv].
  - destruct (find_remove id t) as [[w0 t']|] eqn:Ef; [|discriminate]. inversion H; subst.
    assert (Hc' : (cnt id t <= 1)%nat) by lia.
    specialize (IH w t' eq_refl Hc' v). cbn [In]. rewrite IH.
    destruct (find_remove_some _ _ _ _ Ef) as [Hid _]. apply Z.eqb_neq in E.
    split.
    + intros [->|[Hv Hne]]; [split; [left; reflexivity|intros ->; congruence]|split; [right; exact Hv|exact Hne]].
    + intros [[->|Hv] Hne]; [left; reflexivity|right; split; assumption].
Qed.

Lemma find_remove_found : forall id l w, In w l -> w_id w = id -> exists w' l', find_remove id l = Some (w', l').
Proof.
  intros id l w Hin E. destruct (find_remove id l) as [[w' l']|] eqn:Ef; [eauto|].
  apply find_remove_none_cnt in Ef. pose proof (cnt_in_pos _ _ Hin). rewrite E in H. lia.
Qed.

Lemma ksorted_find_remove : forall id l w l', find_remove id l = Some (w, l') -> ksorted l -> ksorted l'.
Proof. intros id l w l' H Hs. eapply ksorted_subseq; [eapply find_remove_subseq; exact H|exact Hs]. Qed.

(* the alive members of a list of identities *)
Definition memb (i : Z) (l : list Z) : bool := existsb (Z.eqb i) l.
Definition ids_of (l : list watch) : list Z := map w_id l.

Lemma memb_in : forall i l, memb i l = true <-> In i l.
Proof.
  intros i l. unfold memb. rewrite existsb_exists. split.
  - intros [x [Hx E]]. apply Z.eqb_eq in E. subst. exact Hx.
  - intros H. exists i. split; [exact H|apply Z.eqb_refl].
Qed.

Lemma memb_cnt : forall i l, memb i (ids_of l) = negb (Nat.eqb (cnt i l) 0).
Proof.
  induction l as [|h t IH]; [reflexivity|]. cbn [ids_of map memb existsb]. fold (ids_of t). fold (memb i (ids_of t)).
  rewrite IH, cnt_cons. unfold hit. rewrite (Z.eqb_sym i (w_id h)). destruct (w_id h =? i); cbn; [reflexivity|].
  reflexivity.
Qed.

Lemma filter_ext_in' : forall (f g : Z -> bool) l, (forall x, In x l -> f x = g x) -> filter f l = filter g l.
Proof.
  induction l as [|h t IH]; intros H; [reflexivity|]. cbn [filter]. rewrite (H h (in_eq _ _)).
  rewrite IH; [reflexivity|]. intros x Hx. apply H. right. exact Hx.
Qed.

(* ------------------------------------------------------------------ Part 2: the relation *)

Definition conv (q : qst) : sst :=
  mkS (q_pq q) (q_def q) (q_ios q) (q_sigs q) (q_procs q) (q_next q) (q_now q) (q_iter q) (q_log q).

Definition tcnt (st sd pre post : list watch) (q : qst) (id : Z) : nat :=
  (cnt id st + cnt id sd + cnt id (q_pq q) + cnt id pre + cnt id post +
   cnt id (q_ios q) + cnt id (q_sigs q) + cnt id (q_procs q))%nat.

Definition BelowQ (st sd pre post : list watch) (q : qst) : Prop :=
  Forall (fun w => w_id w < q_next q) st /\ Forall (fun w => w_id w < q_next q) sd /\
  Forall (fun w => w_id w < q_next q) (q_pq q) /\ Forall (fun w => w_id w < q_next q) pre /\
  Forall (fun w => w_id w < q_next q) post /\ Forall (fun w => w_id w < q_next q) (q_ios q) /\
  Forall (fun w => w_id w < q_next q) (q_sigs q) /\ Forall (fun w => w_id w < q_next q) (q_procs q).

(* during an iteration: [st] / [sd] = the timers / deferred callbacks of the snapshot that
   still wait for their turn; [ids] = the identities the identity formulation still has to
   walk; the deferred queue of the identity formulation is pre ++ sd ++ post where pre ++ post
   is what has been registered since the iteration began *)
Record Rel (N : Z) (ids : list Z) (st sd pre post : list watch) (q : qst) (s : sst) : Prop := mkRel {
  r_snap : q_snap q = st ++ sd;
  r_qdef : q_def q = pre ++ post;
  r_sdef : s_def s = pre ++ sd ++ post;
  r_in : forall w, In w (s_pq s) <-> In w st \/ In w (q_pq q);
  r_ssort : ksorted (s_pq s);
  r_qsort : ksorted (q_pq q);
  r_ios : s_ios s = q_ios q;
  r_sigs : s_sigs s = q_sigs q;
  r_procs : s_procs s = q_procs q;
  r_next : s_next s = q_next q;
  r_now : s_now s = q_now q;
  r_iter : s_iter s = q_iter q;
  r_log : s_log s = q_log q;
  r_uniq : forall id, (tcnt st sd pre post q id <= 1)%nat;
  r_below : BelowQ st sd pre post q;
  r_ids : ids_of (st ++ sd) = filter (fun i => memb i (ids_of (st ++ sd))) ids;
  r_old : Forall (fun i => i < N) ids;
  r_N : N <= q_next q;
  r_dj : forall i, In i ids -> cnt i (q_pq q) = O /\ cnt i pre = O /\ cnt i post = O }.

Lemma below_weaken : forall n m l, n <= m -> Forall (fun w => w_id w < n) l -> Forall (fun w : watch => w_id w < m) l.
Proof. intros n m l H HF. eapply Forall_impl; [|exact HF]. cbn. intros; lia. Qed.

Lemma fresh_cnt : forall st sd pre post q, BelowQ st sd pre post q ->
  cnt (q_next q) st = O /\ cnt (q_next q) sd = O /\ cnt (q_next q) (q_pq q) = O /\ cnt (q_next q) pre = O /\
  cnt (q_next q) post = O /\ cnt (q_next q) (q_ios q) = O /\ cnt (q_next q) (q_sigs q) = O /\ cnt (q_next q) (q_procs q) = O.
Proof.
  intros st sd pre post q [B1 [B2 [B3 [B4 [B5 [B6 [B7 B8]]]]]]].
  repeat split; eapply cnt_below; try eassumption; lia.
Qed.

Section SpecEq.
Variable env : Z -> list action.
Variable uenv : Z -> list action.

(* ---- registrations *)
Lemma rel_reg : forall N ids st sd pre post q s a, Rel N ids st sd pre post q s ->
  exists pre' post', Rel N ids st sd pre' post' (q_reg q a) (s_reg s a).
Proof.
  intros N ids st sd pre post q s a R. destruct R.
  pose proof (fresh_cnt _ _ _ _ _ r_below0) as [F1 [F2 [F3 [F4 [F5 [F6 [F7 F8]]]]]]].
  destruct r_below0 as [B1 [B2 [B3 [B4 [B5 [B6 [B7 B8]]]]]]].
  assert (Hup : forall l, Forall (fun w => w_id w < q_next q) l -> Forall (fun w : watch => w_id w < q_next q + 1) l)
    by (intros l; apply below_weaken; lia).
  destruct a as [d fl cb|fl cb|k x fl cb|id| |].
  - (* timer *)
    exists pre, post. cbn [q_reg s_reg]. rewrite r_next0, r_now0.
    set (w := mkW (q_next q) KTimer (f_unbind fl) (f_destroy fl) cb (q_now q + d)).
    constructor; cbn [q_snap q_def s_def q_pq s_pq q_ios q_sigs q_procs q_next q_now q_iter q_log
                      s_ios s_sigs s_procs s_next s_now s_iter s_log]; try assumption; try reflexivity.
    + intros v. rewrite !in_pq_insert, r_in0. tauto.
    + apply ksorted_pq_insert; [exact r_ssort0|]. intros v Hv. apply r_in0 in Hv. cbn [w w_id].
      rewrite Forall_forall in B1, B3. destruct Hv as [Hv|Hv]; [specialize (B1 v Hv)|specialize (B3 v Hv)]; lia.
    + apply ksorted_pq_insert; [exact r_qsort0|]. intros v Hv. cbn [w w_id]. rewrite Forall_forall in B3. specialize (B3 v Hv). lia.
    + intros i. specialize (r_uniq0 i). unfold tcnt in *. cbn [q_pq q_ios q_sigs q_procs].
      rewrite cnt_pq_insert. unfold hit. cbn [w w_id]. destruct (q_next q =? i) eqn:E; [|lia].
      apply Z.eqb_eq in E. subst i. lia.
    + unfold BelowQ. cbn [q_next q_pq q_ios q_sigs q_procs]. repeat split; auto.
      apply Forall_forall. intros v Hv. apply in_pq_insert in Hv. destruct Hv as [->|Hv]; [cbn; lia|].
      rewrite Forall_forall in B3. specialize (B3 v Hv). lia.
    + cbn [q_next]. lia.
    + intros i Hi. destruct (r_dj0 i Hi) as [D1 [D2 D3]]. cbn [q_pq]. rewrite cnt_pq_insert, D1.
      rewrite Forall_forall in r_old0. specialize (r_old0 i Hi). unfold hit. cbn [w w_id].
      destruct (q_next q =? i) eqn:E; [apply Z.eqb_eq in E; lia|]. auto.
  - (* later *)
    cbn [q_reg s_reg]. rewrite r_next0.
    set (w := mkW (q_next q) KLater (f_unbind fl) (f_destroy fl) cb 0).
    destruct (f_first fl) eqn:Ef.
    + exists (w :: pre), post.
      constructor; cbn [q_snap q_def s_def q_pq s_pq q_ios q_sigs q_procs q_next q_now q_iter q_log
                        s_ios s_sigs s_procs s_next s_now s_iter s_log]; try assumption; try reflexivity.
      * rewrite r_qdef0. unfold insert_watch. try rewrite Ef. reflexivity.
      * rewrite r_sdef0. unfold insert_watch. try rewrite Ef. reflexivity.
      * intros i. specialize (r_uniq0 i). unfold tcnt in *. cbn [q_pq q_ios q_sigs q_procs]. rewrite cnt_cons.
        unfold hit. cbn [w w_id]. destruct (q_next q =? i) eqn:E; [|lia]. apply Z.eqb_eq in E. subst i. lia.
      * unfold BelowQ. cbn [q_next q_pq q_ios q_sigs q_procs]. repeat split; auto. constructor; [cbn; lia|auto].
      * cbn [q_next]. lia.
      * intros i Hi. destruct (r_dj0 i Hi) as [D1 [D2 D3]]. cbn [q_pq]. rewrite cnt_cons, D2.
        rewrite Forall_forall in r_old0. specialize (r_old0 i Hi). unfold hit. cbn [w w_id].
        destruct (q_next q =? i) eqn:E; [apply Z.eqb_eq in E; lia|]. auto.
    + exists pre, (post ++ [w]).
      constructor; cbn [q_snap q_def s_def q_pq s_pq q_ios q_sigs q_procs q_next q_now q_iter q_log
                        s_ios s_sigs s_procs s_next s_now s_iter s_log]; try assumption; try reflexivity.
      * rewrite r_qdef0. unfold insert_watch. try rewrite Ef. rewrite app_assoc. reflexivity.
      * rewrite r_sdef0. unfold insert_watch. try rewrite Ef. rewrite <- !app_assoc. reflexivity.
      * intros i. specialize (r_uniq0 i). unfold tcnt in *. cbn [q_pq q_ios q_sigs q_procs]. rewrite cnt_app, cnt_cons.
        change (cnt i []) with O. unfold hit. cbn [w w_id]. destruct (q_next q =? i) eqn:E; [|lia]. apply Z.eqb_eq in E. subst i. lia.
      * unfold BelowQ. cbn [q_next q_pq q_ios q_sigs q_procs]. repeat split; auto.
        apply Forall_app. split; [auto|constructor; [cbn; lia|constructor]].
      * cbn [q_next]. lia.
      * intros i Hi. destruct (r_dj0 i Hi) as [D1 [D2 D3]]. cbn [q_pq]. rewrite cnt_app, cnt_cons, D3.
        change (cnt i []) with O.
        rewrite Forall_forall in r_old0. specialize (r_old0 i Hi). unfold hit. cbn [w w_id].
        destruct (q_next q =? i) eqn:E; [apply Z.eqb_eq in E; lia|]. auto.
  - (* io / signal / process *)
    exists pre, post. cbn [q_reg s_reg]. rewrite r_next0.
    destruct k; try (constructor; assumption);
      (constructor; cbn [q_snap q_def s_def q_pq s_pq q_ios q_sigs q_procs q_next q_now q_iter q_log
                         s_ios s_sigs s_procs s_next s_now s_iter s_log]; try assumption; try reflexivity; try congruence);
      match goal with
      | |- forall id : Z, (tcnt _ _ _ _ _ id <= 1)%nat =>
          intros i; specialize (r_uniq0 i); unfold tcnt in *; cbn [q_pq q_ios q_sigs q_procs]; rewrite cnt_insert_watch;
          unfold hit; cbn [w_id]; (destruct (q_next q =? i) eqn:E; [|lia]); apply Z.eqb_eq in E; subst i; lia
      | |- BelowQ _ _ _ _ _ =>
          unfold BelowQ; cbn [q_next q_pq q_ios q_sigs q_procs]; repeat split; auto;
          try (apply insert_watch_forall; [auto|cbn; lia])
      | |- _ <= _ => cbn [q_next]; lia
      end.
  - exists pre, post. constructor; try assumption. unfold BelowQ. repeat split; assumption.
  - exists pre, post. constructor; try assumption. unfold BelowQ. repeat split; assumption.
  - exists pre, post. constructor; try assumption. unfold BelowQ. repeat split; assumption.
Qed.

Lemma rel_emit : forall N ids st sd pre post q s w f, Rel N ids st sd pre post q s ->
  Rel N ids st sd pre post (q_emit q w f) (s_emit s w f).
Proof.
  intros N ids st sd pre post q s w f R. destruct R.
  constructor; cbn [q_emit s_emit q_snap q_def s_def q_pq s_pq q_ios q_sigs q_procs q_next q_now q_iter q_log
                    s_ios s_sigs s_procs s_next s_now s_iter s_log]; try assumption.
  rewrite r_iter0, r_now0, r_log0. reflexivity.
Qed.

Lemma rel_regs : forall l N ids st sd pre post q s, Rel N ids st sd pre post q s ->
  exists pre' post', Rel N ids st sd pre' post' (q_regs q l) (fold_left s_reg l s).
Proof.
  induction l as [|a l IH]; intros N ids st sd pre post q s R; [exists pre, post; exact R|].
  unfold q_regs in *. cbn [fold_left]. destruct (rel_reg _ _ _ _ _ _ _ _ a R) as [pre1 [post1 R1]].
  exact (IH _ _ _ _ _ _ _ _ R1).
Qed.

Lemma rel_notify : forall N ids st sd pre post q s w, Rel N ids st sd pre post q s ->
  exists pre' post', Rel N ids st sd pre' post' (q_notify uenv q w) (s_notify uenv s w).
Proof.
  intros N ids st sd pre post q s w R. unfold q_notify, s_notify. destruct (w_unbind w); [|exists pre, post; exact R].
  exact (rel_regs (uenv (w_cb w)) _ _ _ _ _ _ _ _ (rel_emit _ _ _ _ _ _ _ _ w EV_UNBIND R)).
Qed.

End SpecEq.

(* ---- lookups *)
Lemma cnt_zero_of_notin : forall id l, (forall v, In v l -> w_id v <> id) -> cnt id l = O.
Proof.
  induction l as [|h t IH]; intros H; [reflexivity|]. rewrite cnt_cons, IH by (intros v Hv; apply H; right; exact Hv).
  unfold hit. destruct (w_id h =? id) eqn:E; [apply Z.eqb_eq in E; exfalso; exact (H h (in_eq _ _) E)|reflexivity].
Qed.

Lemma find_remove_sorted_iff : forall id l w l', find_remove id l = Some (w, l') -> ksorted l ->
  (forall v, In v l -> w_id v = id -> v = w) ->
  forall v, In v l' <-> In v l /\ v <> w.
Proof.
  induction l as [|h t IH]; intros w l' H Hs Hu v; [discriminate|].
  cbn [find_remove] in H. destruct (w_id h =? id) eqn:E.
  - inversion H; subst. split.
    + intros Hv. split; [right; exact Hv|]. intros ->. exact (ksorted_head_notin _ _ Hs Hv).
    + intros [[->|Hv] Hne]; [contradiction|exact Hv].
  - destruct (find_remove id t) as [[w0 t']|] eqn:Ef; [|discriminate]. inversion H; subst.
    inversion Hs as [|? ? Hf Ht]; subst.
    assert (Hu' : forall v0, In v0 t -> w_id v0 = id -> v0 = w) by (intros v0 Hv0; apply Hu; right; exact Hv0).
    specialize (IH w t' eq_refl Ht Hu' v). cbn [In]. rewrite IH.
    destruct (find_remove_some _ _ _ _ Ef) as [Hid _]. apply Z.eqb_neq in E.
    split.
    + intros [->|[Hv Hne]]; [split; [left; reflexivity|intros ->; congruence]|split; [right; exact Hv|exact Hne]].
    + intros [[->|Hv] Hne]; [left; reflexivity|right; split; assumption].
Qed.

Lemma filter_noid : forall id l, cnt id l = O -> filter (fun i => negb (i =? id)) (ids_of l) = ids_of l.
Proof.
  induction l as [|a l IH]; intros Hz; [reflexivity|]. rewrite cnt_cons in Hz. unfold hit in Hz.
  cbn [ids_of map filter]. destruct (w_id a =? id) eqn:Ea; [lia|]. cbn [negb]. fold (ids_of l). rewrite IH by lia. reflexivity.
Qed.

Lemma ids_of_removed : forall id L w L', find_remove id L = Some (w, L') -> (cnt id L <= 1)%nat ->
  ids_of L' = filter (fun i => negb (i =? id)) (ids_of L).
Proof.
  induction L as [|h t IH]; intros w L' Hf Hu; [discriminate|].
  cbn [find_remove] in Hf. rewrite cnt_cons in Hu. unfold hit in Hu. destruct (w_id h =? id) eqn:E.
  - injection Hf as _ <-. cbn [ids_of map filter]. rewrite E. cbn [negb]. fold (ids_of t).
    symmetry. apply filter_noid. lia.
  - destruct (find_remove id t) as [[w0 t']|] eqn:Ef; [|discriminate]. injection Hf as _ <-.
    cbn [ids_of map filter]. rewrite E. cbn [negb]. fold (ids_of t') (ids_of t). f_equal.
    eapply IH; [reflexivity|lia].
Qed.

Lemma ids_remove : forall id L w L' ids, find_remove id L = Some (w, L') -> (forall i, (cnt i L <= 1)%nat) ->
  ids_of L = filter (fun i => memb i (ids_of L)) ids ->
  ids_of L' = filter (fun i => memb i (ids_of L')) ids.
Proof.
  intros id L w L' ids Hf Hu He.
  destruct (find_remove_some _ _ _ _ Hf) as [Hid _].
  assert (Hm : forall i, memb i (ids_of L') = memb i (ids_of L) && negb (i =? id)).
  { intros i. rewrite !memb_cnt. pose proof (find_remove_cnt _ _ _ _ Hf i) as C. pose proof (Hu i) as Hui. unfold hit in C. rewrite Hid in C.
    destruct (i =? id) eqn:E.
    - apply Z.eqb_eq in E. subst i. rewrite Z.eqb_refl in C. assert (Hz : cnt id L' = O) by lia. rewrite Hz. cbn. rewrite andb_false_r. reflexivity.
    - rewrite (Z.eqb_sym id i), E in C. cbn [Nat.add] in C. rewrite C, andb_true_r. reflexivity. }
  etransitivity; [exact (ids_of_removed _ _ _ _ Hf (Hu id))|]. rewrite He at 1.
  clear He. induction ids as [|i r IH]; [reflexivity|]. cbn [filter]. rewrite Hm.
  destruct (memb i (ids_of L)); cbn [andb filter]; [|exact IH].
  destruct (i =? id); cbn [negb]; [exact IH|f_equal; exact IH].
Qed.

Lemma watch_eq_dec : forall a b : watch, {a = b} + {a <> b}.
Proof. decide equality; try apply Z.eq_dec; try apply Bool.bool_dec. decide equality. Qed.

(* within st and q_pq an identity names one watch *)
Lemma uniq_elem : forall st pq a b (t : nat), (cnt (w_id a) st + cnt (w_id a) pq <= 1)%nat ->
  (In a st \/ In a pq) -> (In b st \/ In b pq) -> w_id a = w_id b -> a = b.
Proof.
  intros st pq a b _ Hc Ha Hb E. destruct (watch_eq_dec a b) as [|Hne]; [assumption|exfalso].
  destruct Ha as [Ha|Ha]; destruct Hb as [Hb|Hb].
  - pose proof (cnt_two st a b Ha Hb Hne E). lia.
  - pose proof (cnt_in_pos st a Ha). pose proof (cnt_in_pos pq b Hb). rewrite <- E in H0. lia.
  - pose proof (cnt_in_pos pq a Ha). pose proof (cnt_in_pos st b Hb). rewrite <- E in H0. lia.
  - pose proof (cnt_two pq a b Ha Hb Hne E). lia.
Qed.

Lemma spq_none : forall N ids st sd pre post q s id, Rel N ids st sd pre post q s ->
  cnt id st = O -> cnt id (q_pq q) = O -> find_remove id (s_pq s) = None.
Proof.
  intros N ids st sd pre post q s id R H1 H2. apply find_remove_none_cnt. apply cnt_zero_of_notin.
  intros v Hv. apply (r_in _ _ _ _ _ _ _ _ R) in Hv. destruct Hv as [Hv|Hv]; [exact (cnt_zero_notin _ _ _ H1 Hv)|exact (cnt_zero_notin _ _ _ H2 Hv)].
Qed.

Lemma spq_some : forall N ids st sd pre post q s w, Rel N ids st sd pre post q s ->
  (In w st \/ In w (q_pq q)) ->
  exists l', find_remove (w_id w) (s_pq s) = Some (w, l') /\ (forall v, In v l' <-> In v (s_pq s) /\ v <> w) /\ ksorted l'.
Proof.
  intros N ids st sd pre post q s w R Hw.
  assert (Hc : (cnt (w_id w) st + cnt (w_id w) (q_pq q) <= 1)%nat).
  { pose proof (r_uniq _ _ _ _ _ _ _ _ R (w_id w)) as U. unfold tcnt in U. lia. }
  assert (Hin : In w (s_pq s)) by (apply (r_in _ _ _ _ _ _ _ _ R); exact Hw).
  destruct (find_remove_found (w_id w) (s_pq s) w Hin eq_refl) as [w' [l' Hf]].
  destruct (find_remove_some _ _ _ _ Hf) as [Hid [Hin' _]].
  assert (E : w = w').
  { apply (uniq_elem st (q_pq q) w w' O Hc Hw); [apply (r_in _ _ _ _ _ _ _ _ R); exact Hin'|congruence]. }
  subst w'. exists l'. split; [exact Hf|]. split.
  - apply (find_remove_sorted_iff _ _ _ _ Hf (r_ssort _ _ _ _ _ _ _ _ R)).
    intros v Hv Ev. symmetry. apply (uniq_elem st (q_pq q) w v O Hc Hw); [apply (r_in _ _ _ _ _ _ _ _ R); exact Hv|congruence].
  - eapply ksorted_find_remove; [exact Hf|exact (r_ssort _ _ _ _ _ _ _ _ R)].
Qed.

Lemma forall_find_remove : forall (P : watch -> Prop) id l w l', find_remove id l = Some (w, l') -> Forall P l -> Forall P l'.
Proof. intros P id l w l' H HF. exact (proj2 (find_remove_forall P id l w l' H HF)). Qed.

Lemma cnt_find_remove_le : forall id l w l' i, find_remove id l = Some (w, l') -> (cnt i l' <= cnt i l)%nat.
Proof. intros id l w l' i H. rewrite (find_remove_cnt _ _ _ _ H i). lia. Qed.

Section SpecEq2.
Variable env : Z -> list action.
Variable uenv : Z -> list action.

Ltac rel_triv :=
  cbn [q_snap q_def s_def q_pq s_pq q_ios q_sigs q_procs q_next q_now q_iter q_log
       s_ios s_sigs s_procs s_next s_now s_iter s_log]; try assumption; try reflexivity.

(* tickit_watch_cancel in both formulations *)
Lemma rel_cancel : forall N ids st sd pre post q s id, Rel N ids st sd pre post q s ->
  exists st' sd' pre' post', Rel N ids st' sd' pre' post' (q_cancel uenv q id) (s_action uenv s (ACancel id)).
Proof.
  intros N ids st sd pre post q s id R.
  pose proof R as R0. destruct R.
  pose proof (r_uniq0 id) as U. unfold tcnt in U.
  destruct r_below0 as [B1 [B2 [B3 [B4 [B5 [B6 [B7 B8]]]]]]].
  cbn [s_action]. unfold q_cancel, s_take, s_take_runnable.
  (* 1: among the pending timers *)
  destruct (find_remove id (q_pq q)) as [[w l]|] eqn:E1.
  { pose proof (find_remove_some_cnt _ _ _ _ E1) as C. destruct (find_remove_some _ _ _ _ E1) as [Hid [Hin _]].
    destruct (spq_some _ _ _ _ _ _ _ _ w R0 (or_intror Hin)) as [l' [Hf [Hiff Hsl]]]. rewrite Hid in Hf. rewrite Hf.
    assert (Hl : forall v, In v l <-> In v (q_pq q) /\ v <> w) by (apply (find_remove_in_iff _ _ _ _ E1); lia).
    assert (R1 : Rel N ids st sd pre post
                   (mkQ l (q_def q) (q_snap q) (q_ios q) (q_sigs q) (q_procs q) (q_next q) (q_now q) (q_iter q) (q_log q))
                   (mkS l' (s_def s) (s_ios s) (s_sigs s) (s_procs s) (s_next s) (s_now s) (s_iter s) (s_log s))).
    { constructor; rel_triv.
      - intros v. rewrite Hiff, Hl, r_in0. split.
        + intros [[H|H] Hne]; [left; exact H|right; split; assumption].
        + intros [H|[H Hne]]; [split; [left; exact H|]|split; [right; exact H|exact Hne]].
          intros ->. pose proof (cnt_in_pos _ _ H). rewrite Hid in H0. lia.
      - eapply ksorted_find_remove; eassumption.
      - intros i. specialize (r_uniq0 i). unfold tcnt in *. cbn [q_pq q_ios q_sigs q_procs].
        pose proof (cnt_find_remove_le _ _ _ _ i E1). lia.
      - unfold BelowQ. cbn [q_next q_pq q_ios q_sigs q_procs]. repeat split; try assumption. eapply forall_find_remove; eassumption.
      - intros i Hi. destruct (r_dj0 i Hi) as [D1 [D2 D3]]. cbn [q_pq].
        pose proof (cnt_find_remove_le _ _ _ _ i E1). repeat split; try assumption. lia. }
    destruct (rel_notify env uenv _ _ _ _ _ _ _ _ w R1) as [pre' [post' R2]]. exists st, sd, pre', post'. exact R2. }
  assert (Z1 : cnt id (q_pq q) = O) by (apply find_remove_none_cnt; exact E1).
  (* 2: among the deferred callbacks registered since the iteration began *)
  rewrite r_qdef0, find_remove_app.
  destruct (find_remove id pre) as [[w pre1]|] eqn:E2.
  { pose proof (find_remove_some_cnt _ _ _ _ E2) as C.
    rewrite (spq_none _ _ _ _ _ _ _ _ id R0) by lia.
    rewrite r_sdef0, find_remove_app, E2.
    assert (R1 : Rel N ids st sd pre1 post
                   (mkQ (q_pq q) (pre1 ++ post) (q_snap q) (q_ios q) (q_sigs q) (q_procs q) (q_next q) (q_now q) (q_iter q) (q_log q))
                   (mkS (s_pq s) (pre1 ++ sd ++ post) (s_ios s) (s_sigs s) (s_procs s) (s_next s) (s_now s) (s_iter s) (s_log s))).
    { constructor; rel_triv.
      - intros i. specialize (r_uniq0 i). unfold tcnt in *. cbn [q_pq q_ios q_sigs q_procs].
        pose proof (cnt_find_remove_le _ _ _ _ i E2). lia.
      - unfold BelowQ. cbn [q_next q_pq q_ios q_sigs q_procs]. repeat split; try assumption. eapply forall_find_remove; eassumption.
      - intros i Hi. destruct (r_dj0 i Hi) as [D1 [D2 D3]]. cbn [q_pq].
        pose proof (cnt_find_remove_le _ _ _ _ i E2). repeat split; try assumption. lia. }
    destruct (rel_notify env uenv _ _ _ _ _ _ _ _ w R1) as [pre' [post' R2]]. exists st, sd, pre', post'. exact R2. }
  assert (Z2 : cnt id pre = O) by (apply find_remove_none_cnt; exact E2).
  destruct (find_remove id post) as [[w post1]|] eqn:E3.
  { pose proof (find_remove_some_cnt _ _ _ _ E3) as C.
    rewrite (spq_none _ _ _ _ _ _ _ _ id R0) by lia.
    rewrite r_sdef0, find_remove_app, E2, find_remove_app.
    assert (Zsd : find_remove id sd = None) by (apply find_remove_none_cnt; lia). rewrite Zsd, E3.
    assert (R1 : Rel N ids st sd pre post1
                   (mkQ (q_pq q) (pre ++ post1) (q_snap q) (q_ios q) (q_sigs q) (q_procs q) (q_next q) (q_now q) (q_iter q) (q_log q))
                   (mkS (s_pq s) (pre ++ sd ++ post1) (s_ios s) (s_sigs s) (s_procs s) (s_next s) (s_now s) (s_iter s) (s_log s))).
    { constructor; rel_triv.
      - intros i. specialize (r_uniq0 i). unfold tcnt in *. cbn [q_pq q_ios q_sigs q_procs].
        pose proof (cnt_find_remove_le _ _ _ _ i E3). lia.
      - unfold BelowQ. cbn [q_next q_pq q_ios q_sigs q_procs]. repeat split; try assumption. eapply forall_find_remove; eassumption.
      - intros i Hi. destruct (r_dj0 i Hi) as [D1 [D2 D3]]. cbn [q_pq].
        pose proof (cnt_find_remove_le _ _ _ _ i E3). repeat split; try assumption. lia. }
    destruct (rel_notify env uenv _ _ _ _ _ _ _ _ w R1) as [pre' [post' R2]]. exists st, sd, pre', post'. exact R2. }
  assert (Z3 : cnt id post = O) by (apply find_remove_none_cnt; exact E3).
  (* 3: in the snapshot *)
  rewrite r_snap0, find_remove_app.
  assert (Usnap : forall i, (cnt i (st ++ sd) <= 1)%nat).
  { intros i. specialize (r_uniq0 i). unfold tcnt in r_uniq0. rewrite cnt_app. lia. }
  destruct (find_remove id st) as [[w st1]|] eqn:E4.
  { pose proof (find_remove_some_cnt _ _ _ _ E4) as C. destruct (find_remove_some _ _ _ _ E4) as [Hid [Hin _]].
    destruct (spq_some _ _ _ _ _ _ _ _ w R0 (or_introl Hin)) as [l' [Hf [Hiff Hsl]]]. rewrite Hid in Hf. rewrite Hf.
    assert (Hl : forall v, In v st1 <-> In v st /\ v <> w) by (apply (find_remove_in_iff _ _ _ _ E4); lia).
    assert (R1 : Rel N ids st1 sd pre post
                   (mkQ (q_pq q) (pre ++ post) (st1 ++ sd) (q_ios q) (q_sigs q) (q_procs q) (q_next q) (q_now q) (q_iter q) (q_log q))
                   (mkS l' (s_def s) (s_ios s) (s_sigs s) (s_procs s) (s_next s) (s_now s) (s_iter s) (s_log s))).
    { constructor; rel_triv.
      - intros v. rewrite Hiff, Hl, r_in0. split.
        + intros [[H|H] Hne]; [left; split; assumption|right; exact H].
        + intros [[H Hne]|H]; [split; [left; exact H|exact Hne]|split; [right; exact H|]].
          intros ->. pose proof (cnt_in_pos _ _ H). rewrite Hid in H0. lia.
      - intros i. specialize (r_uniq0 i). unfold tcnt in *. cbn [q_pq q_ios q_sigs q_procs].
        pose proof (cnt_find_remove_le _ _ _ _ i E4). lia.
      - unfold BelowQ. cbn [q_next q_pq q_ios q_sigs q_procs]. repeat split; try assumption. eapply forall_find_remove; eassumption.
      - apply (ids_remove id (st ++ sd) w (st1 ++ sd) ids); [rewrite find_remove_app, E4; reflexivity|exact Usnap|exact r_ids0]. }
    destruct (rel_notify env uenv _ _ _ _ _ _ _ _ w R1) as [pre' [post' R2]]. exists st1, sd, pre', post'. exact R2. }
  assert (Z4 : cnt id st = O) by (apply find_remove_none_cnt; exact E4).
  rewrite (spq_none _ _ _ _ _ _ _ _ id R0 Z4 Z1).
  rewrite r_sdef0, find_remove_app, E2, find_remove_app.
  destruct (find_remove id sd) as [[w sd1]|] eqn:E5.
  { assert (R1 : Rel N ids st sd1 pre post
                   (mkQ (q_pq q) (pre ++ post) (st ++ sd1) (q_ios q) (q_sigs q) (q_procs q) (q_next q) (q_now q) (q_iter q) (q_log q))
                   (mkS (s_pq s) (pre ++ sd1 ++ post) (s_ios s) (s_sigs s) (s_procs s) (s_next s) (s_now s) (s_iter s) (s_log s))).
    { constructor; rel_triv.
      - intros i. specialize (r_uniq0 i). unfold tcnt in *. cbn [q_pq q_ios q_sigs q_procs].
        pose proof (cnt_find_remove_le _ _ _ _ i E5). lia.
      - unfold BelowQ. cbn [q_next q_pq q_ios q_sigs q_procs]. repeat split; try assumption. eapply forall_find_remove; eassumption.
      - apply (ids_remove id (st ++ sd) w (st ++ sd1) ids); [rewrite find_remove_app, E4, E5; reflexivity|exact Usnap|exact r_ids0]. }
    destruct (rel_notify env uenv _ _ _ _ _ _ _ _ w R1) as [pre' [post' R2]]. exists st, sd1, pre', post'. exact R2. }
  rewrite E3.
  (* 4-6: the other kinds of watches *)
  rewrite r_ios0, r_sigs0, r_procs0.
  destruct (find_remove id (q_ios q)) as [[w l]|] eqn:E6.
  { assert (R1 : Rel N ids st sd pre post
                   (mkQ (q_pq q) (pre ++ post) (st ++ sd) l (q_sigs q) (q_procs q) (q_next q) (q_now q) (q_iter q) (q_log q))
                   (mkS (s_pq s) (pre ++ sd ++ post) l (q_sigs q) (q_procs q) (s_next s) (s_now s) (s_iter s) (s_log s))).
    { constructor; rel_triv.
      - intros i. specialize (r_uniq0 i). unfold tcnt in *. cbn [q_pq q_ios q_sigs q_procs].
        pose proof (cnt_find_remove_le _ _ _ _ i E6). lia.
      - unfold BelowQ. cbn [q_next q_pq q_ios q_sigs q_procs]. repeat split; try assumption. eapply forall_find_remove; eassumption. }
    destruct (rel_notify env uenv _ _ _ _ _ _ _ _ w R1) as [pre' [post' R2]]. exists st, sd, pre', post'. exact R2. }
  destruct (find_remove id (q_sigs q)) as [[w l]|] eqn:E7.
  { assert (R1 : Rel N ids st sd pre post
                   (mkQ (q_pq q) (pre ++ post) (st ++ sd) (q_ios q) l (q_procs q) (q_next q) (q_now q) (q_iter q) (q_log q))
                   (mkS (s_pq s) (pre ++ sd ++ post) (q_ios q) l (q_procs q) (s_next s) (s_now s) (s_iter s) (s_log s))).
    { constructor; rel_triv.
      - intros i. specialize (r_uniq0 i). unfold tcnt in *. cbn [q_pq q_ios q_sigs q_procs].
        pose proof (cnt_find_remove_le _ _ _ _ i E7). lia.
      - unfold BelowQ. cbn [q_next q_pq q_ios q_sigs q_procs]. repeat split; try assumption. eapply forall_find_remove; eassumption. }
    destruct (rel_notify env uenv _ _ _ _ _ _ _ _ w R1) as [pre' [post' R2]]. exists st, sd, pre', post'. exact R2. }
  destruct (find_remove id (q_procs q)) as [[w l]|] eqn:E8.
  { assert (R1 : Rel N ids st sd pre post
                   (mkQ (q_pq q) (pre ++ post) (st ++ sd) (q_ios q) (q_sigs q) l (q_next q) (q_now q) (q_iter q) (q_log q))
                   (mkS (s_pq s) (pre ++ sd ++ post) (q_ios q) (q_sigs q) l (s_next s) (s_now s) (s_iter s) (s_log s))).
    { constructor; rel_triv.
      - intros i. specialize (r_uniq0 i). unfold tcnt in *. cbn [q_pq q_ios q_sigs q_procs].
        pose proof (cnt_find_remove_le _ _ _ _ i E8). lia.
      - unfold BelowQ. cbn [q_next q_pq q_ios q_sigs q_procs]. repeat split; try assumption. eapply forall_find_remove; eassumption. }
    destruct (rel_notify env uenv _ _ _ _ _ _ _ _ w R1) as [pre' [post' R2]]. exists st, sd, pre', post'. exact R2. }
  exists st, sd, pre, post. exact R0.
Qed.

End SpecEq2.

Section SpecEq3.
Variable env : Z -> list action.
Variable uenv : Z -> list action.

Lemma rel_action : forall N ids st sd pre post q s a, Rel N ids st sd pre post q s ->
  exists st' sd' pre' post', Rel N ids st' sd' pre' post' (q_action uenv q a) (s_action uenv s a).
Proof.
  intros N ids st sd pre post q s a R.
  destruct a as [d fl cb|fl cb|k x fl cb|id| |];
    try (match goal with |- context [q_action uenv q ?a] =>
           destruct (rel_reg env uenv N ids st sd pre post q s a R) as [pre' [post' R']]; exists st, sd, pre', post'; exact R' end).
  exact (rel_cancel env uenv N ids st sd pre post q s id R).
Qed.

Lemma rel_actions : forall l N ids st sd pre post q s, Rel N ids st sd pre post q s ->
  exists st' sd' pre' post', Rel N ids st' sd' pre' post' (q_actions uenv q l) (s_actions uenv s l).
Proof.
  induction l as [|a l IH]; intros N ids st sd pre post q s R; [exists st, sd, pre, post; exact R|].
  unfold q_actions, s_actions in *. cbn [fold_left].
  destruct (rel_action _ _ _ _ _ _ _ _ a R) as [st1 [sd1 [pre1 [post1 R1]]]].
  exact (IH _ _ _ _ _ _ _ _ R1).
Qed.

(* the snapshot never grows while actions are performed *)
Lemma q_reg_snap : forall q a, q_snap (q_reg q a) = q_snap q.
Proof. intros q a. destruct a as [d fl cb|fl cb|k x fl cb|id| |]; try reflexivity. destruct k; reflexivity. Qed.

Lemma q_regs_snap : forall l q, q_snap (q_regs q l) = q_snap q.
Proof. induction l as [|a l IH]; intros q; [reflexivity|]. unfold q_regs in *. cbn [fold_left]. rewrite IH. apply q_reg_snap. Qed.

Lemma q_notify_snap : forall q w, q_snap (q_notify uenv q w) = q_snap q.
Proof. intros q w. unfold q_notify. destruct (w_unbind w); [|reflexivity]. rewrite q_regs_snap. reflexivity. Qed.

Lemma q_cancel_snap_len : forall q id, (length (q_snap (q_cancel uenv q id)) <= length (q_snap q))%nat.
Proof.
  intros q id. unfold q_cancel.
  destruct (find_remove id (q_pq q)) as [[w l]|]; [rewrite q_notify_snap; cbn [q_snap]; lia|].
  destruct (find_remove id (q_def q)) as [[w l]|]; [rewrite q_notify_snap; cbn [q_snap]; lia|].
  destruct (find_remove id (q_snap q)) as [[w l]|] eqn:E.
  { rewrite q_notify_snap. cbn [q_snap]. apply find_remove_some in E. destruct E as [_ [_ [_ E]]]. lia. }
  destruct (find_remove id (q_ios q)) as [[w l]|]; [rewrite q_notify_snap; cbn [q_snap]; lia|].
  destruct (find_remove id (q_sigs q)) as [[w l]|]; [rewrite q_notify_snap; cbn [q_snap]; lia|].
  destruct (find_remove id (q_procs q)) as [[w l]|]; [rewrite q_notify_snap; cbn [q_snap]; lia|].
  lia.
Qed.

Lemma q_action_snap_len : forall q a, (length (q_snap (q_action uenv q a)) <= length (q_snap q))%nat.
Proof.
  intros q a. destruct a as [d fl cb|fl cb|k x fl cb|id| |]; try (cbn [q_action]; rewrite q_reg_snap; lia).
  apply q_cancel_snap_len.
Qed.

Lemma q_actions_snap_len : forall l q, (length (q_snap (q_actions uenv q l)) <= length (q_snap q))%nat.
Proof.
  induction l as [|a l IH]; intros q; [cbn; lia|]. unfold q_actions in *. cbn [fold_left].
  eapply Nat.le_trans; [apply IH|apply q_action_snap_len].
Qed.

Lemma q_loop_nil : forall n q, q_snap q = [] -> q_loop env uenv n q = q.
Proof. intros n q H. destruct n; cbn [q_loop]; [reflexivity|rewrite H; reflexivity]. Qed.

Lemma memb_false_cnt : forall i l, memb i (ids_of l) = false -> cnt i l = O.
Proof. intros i l H. rewrite memb_cnt in H. destruct (cnt i l); [reflexivity|discriminate]. Qed.

(* the iteration: popping the snapshot queue = walking the snapshot's identities *)
Lemma rel_loop : forall ids N n st sd pre post q s, Rel N ids st sd pre post q s ->
  (length (q_snap q) <= n)%nat ->
  exists pre' post', Rel N [] [] [] pre' post' (q_loop env uenv n q) (s_run_ids env uenv ids s).
Proof.
  induction ids as [|i r IH]; intros N n st sd pre post q s R Hn.
  - assert (E : st ++ sd = []).
    { pose proof (r_ids _ _ _ _ _ _ _ _ R) as H. cbn [filter] in H. unfold ids_of in H. destruct (st ++ sd); [reflexivity|discriminate]. }
    apply app_eq_nil in E. destruct E as [-> ->].
    rewrite q_loop_nil by (rewrite (r_snap _ _ _ _ _ _ _ _ R); reflexivity).
    exists pre, post. exact R.
  - pose proof R as R0. destruct R.
    destruct (memb i (ids_of (st ++ sd))) eqn:Em.
    + (* its turn has come and it is still pending *)
      cbn [filter] in r_ids0. rewrite Em in r_ids0.
      destruct (st ++ sd) as [|w L] eqn:EL; [discriminate|].
      cbn [ids_of map] in r_ids0. injection r_ids0 as Hid Hrest. fold (ids_of L) in Hrest.
      assert (Usnap : forall j, (cnt j (w :: L) <= 1)%nat).
      { intros j. specialize (r_uniq0 j). unfold tcnt in r_uniq0. rewrite <- EL, cnt_app. lia. }
      assert (Hr : ids_of L = filter (fun j => memb j (ids_of L)) r).
      { rewrite Hrest at 1. apply filter_ext_in'. intros x Hx. cbn [ids_of map memb existsb]. fold (ids_of L) (memb x (ids_of L)).
        destruct (x =? w_id w) eqn:Ex; [|reflexivity]. apply Z.eqb_eq in Ex. exfalso.
        assert (Hin : In x (ids_of L)).
        { rewrite Hrest. apply filter_In. split; [exact Hx|]. cbn [ids_of map memb existsb]. rewrite Ex, Z.eqb_refl. reflexivity. }
        unfold ids_of in Hin. apply in_map_iff in Hin. destruct Hin as [v [Hv Hvin]].
        specialize (Usnap x). rewrite cnt_cons in Usnap. unfold hit in Usnap. rewrite <- Ex, Z.eqb_refl in Usnap.
        pose proof (cnt_in_pos L v Hvin). rewrite Hv in H. lia. }
      inversion r_old0 as [|? ? Hi Hold]; subst.
      assert (Hdj : forall j, In j r -> cnt j (q_pq q) = O /\ cnt j pre = O /\ cnt j post = O) by (intros j Hj; apply r_dj0; right; exact Hj).
      destruct (r_dj0 (w_id w) (or_introl eq_refl)) as [D1 [D2 D3]].
      destruct r_below0 as [B1 [B2 [B3 [B4 [B5 [B6 [B7 B8]]]]]]].
      destruct n as [|n]; [rewrite r_snap0 in Hn; cbn in Hn; lia|].
      cbn [q_loop s_run_ids]. rewrite r_snap0. unfold s_take_runnable.
      destruct st as [|w0 st1].
      * (* a deferred callback *)
        cbn [app] in EL. subst sd.
        rewrite (spq_none _ _ _ _ _ _ _ _ (w_id w) R0) by (try reflexivity; assumption).
        rewrite r_sdef0, find_remove_app.
        assert (Zp : find_remove (w_id w) pre = None) by (apply find_remove_none_cnt; exact D2). rewrite Zp.
        cbn [app find_remove]. rewrite Z.eqb_refl.
        set (q1 := mkQ (q_pq q) (q_def q) L (q_ios q) (q_sigs q) (q_procs q) (q_next q) (q_now q) (q_iter q) (q_log q)).
        set (s1 := mkS (s_pq s) (pre ++ L ++ post) (s_ios s) (s_sigs s) (s_procs s) (s_next s) (s_now s) (s_iter s) (s_log s)).
        assert (R1 : Rel N r [] L pre post q1 s1).
        { constructor; unfold q1, s1; cbn [q_snap q_def s_def q_pq s_pq q_ios q_sigs q_procs q_next q_now q_iter q_log
                 s_ios s_sigs s_procs s_next s_now s_iter s_log app]; try assumption; try reflexivity.
          - intros j. specialize (r_uniq0 j). unfold tcnt in *. cbn [q_pq q_ios q_sigs q_procs]. rewrite cnt_cons in r_uniq0. lia.
          - unfold BelowQ. cbn [q_next q_pq q_ios q_sigs q_procs]. inversion B2; subst. repeat split; assumption. }
        destruct (rel_actions (env (w_cb w)) _ _ _ _ _ _ _ _ (rel_emit _ _ _ _ _ _ _ _ w (EV_FIRE + EV_UNBIND) R1))
          as [st2 [sd2 [pre2 [post2 R2]]]].
        eapply IH; [exact R2|].
        eapply Nat.le_trans; [apply q_actions_snap_len|]. cbn [q_snap q_emit q1]. rewrite r_snap0 in Hn. cbn in Hn. lia.
      * (* a due timer *)
        cbn [app] in EL. injection EL as -> EL2.
        destruct (spq_some _ _ _ _ _ _ _ _ w R0 (or_introl (or_introl eq_refl))) as [l' [Hf [Hiff Hsl]]]. rewrite Hf.
        assert (Hnotin : ~ In w st1).
        { intros Hin. pose proof (cnt_in_pos _ _ Hin). specialize (r_uniq0 (w_id w)). unfold tcnt in r_uniq0.
          rewrite cnt_cons in r_uniq0. unfold hit in r_uniq0. rewrite Z.eqb_refl in r_uniq0. lia. }
        set (q1 := mkQ (q_pq q) (q_def q) L (q_ios q) (q_sigs q) (q_procs q) (q_next q) (q_now q) (q_iter q) (q_log q)).
        set (s1 := mkS l' (s_def s) (s_ios s) (s_sigs s) (s_procs s) (s_next s) (s_now s) (s_iter s) (s_log s)).
        assert (R1 : Rel N r st1 sd pre post q1 s1).
        { constructor; unfold q1, s1; cbn [q_snap q_def s_def q_pq s_pq q_ios q_sigs q_procs q_next q_now q_iter q_log
                 s_ios s_sigs s_procs s_next s_now s_iter s_log]; try assumption; try reflexivity.
          - symmetry. exact EL2.
          - intros v. rewrite Hiff, r_in0. cbn [In]. split.
            + intros [[[E|H]|H] Hne]; [congruence|left; exact H|right; exact H].
            + intros [H|H]; (split; [tauto|]); intros ->; [contradiction|].
              pose proof (cnt_in_pos _ _ H). lia.
          - intros j. specialize (r_uniq0 j). unfold tcnt in *. cbn [q_pq q_ios q_sigs q_procs]. rewrite cnt_cons in r_uniq0. lia.
          - unfold BelowQ. cbn [q_next q_pq q_ios q_sigs q_procs]. inversion B1; subst. repeat split; assumption.
          - rewrite EL2. exact Hr. }
        destruct (rel_actions (env (w_cb w)) _ _ _ _ _ _ _ _ (rel_emit _ _ _ _ _ _ _ _ w (EV_FIRE + EV_UNBIND) R1))
          as [st2 [sd2 [pre2 [post2 R2]]]].
        eapply IH; [exact R2|].
        eapply Nat.le_trans; [apply q_actions_snap_len|]. cbn [q_snap q_emit q1]. rewrite r_snap0 in Hn. cbn in Hn. lia.
    + (* it has been cancelled in the meantime *)
      pose proof (memb_false_cnt _ _ Em) as Zc. rewrite cnt_app in Zc.
      destruct (r_dj0 i (or_introl eq_refl)) as [D1 [D2 D3]].
      cbn [s_run_ids]. unfold s_take_runnable.
      rewrite (spq_none _ _ _ _ _ _ _ _ i R0) by lia.
      rewrite r_sdef0.
      assert (Zd : find_remove i (pre ++ sd ++ post) = None).
      { apply find_remove_none_cnt. rewrite !cnt_app. lia. }
      rewrite Zd.
      eapply (IH N n st sd pre post q s); [|exact Hn].
      apply (mkRel N r st sd pre post q s); try assumption.
      * cbn [filter] in r_ids0. rewrite Em in r_ids0. exact r_ids0.
      * inversion r_old0; assumption.
      * intros j Hj. apply r_dj0. right. exact Hj.
Qed.

End SpecEq3.

(* ------------------------------------------------------------------ Part 3: whole scripts *)

(* between iterations the two formulations hold the same state *)
Definition Sync (q : qst) (s : sst) : Prop :=
  q_snap q = [] /\ exists N pre post, Rel N [] [] [] pre post q s.

Lemma sync_eq : forall N pre post q s, Rel N [] [] [] pre post q s -> s_pq s = q_pq q /\ s_def s = q_def q.
Proof.
  intros N pre post q s R. destruct R. split.
  - apply ksorted_unique; [assumption|assumption|]. intros w. rewrite r_in0. cbn [In]. tauto.
  - rewrite r_sdef0, r_qdef0. reflexivity.
Qed.

Lemma filter_all_memb : forall l, filter (fun i => memb i l) l = l.
Proof.
  intros l. assert (G : forall l0, (forall x, In x l0 -> In x l) -> filter (fun i => memb i l) l0 = l0).
  { induction l0 as [|h t IH]; intros H; [reflexivity|]. cbn [filter].
    rewrite (proj2 (memb_in h l) (H h (in_eq _ _))). f_equal. apply IH. intros x Hx. apply H. right. exact Hx. }
  apply G. auto.
Qed.

Section SpecEq4.
Variable env : Z -> list action.
Variable uenv : Z -> list action.

Lemma sync_action : forall q s a, Sync q s -> Sync (q_action uenv q a) (s_action uenv s a).
Proof.
  intros q s a [Hs [N [pre [post R]]]].
  destruct (rel_action env uenv _ _ _ _ _ _ _ _ a R) as [st' [sd' [pre' [post' R']]]].
  assert (E : st' ++ sd' = []).
  { pose proof (r_ids _ _ _ _ _ _ _ _ R') as H. cbn [filter] in H. unfold ids_of in H. destruct (st' ++ sd'); [reflexivity|discriminate]. }
  apply app_eq_nil in E. destruct E as [-> ->].
  split; [rewrite (r_snap _ _ _ _ _ _ _ _ R'); reflexivity|]. exists N, pre', post'. exact R'.
Qed.

Lemma sync_tick : forall sleep dt q s, Sync q s -> Sync (q_tick env uenv sleep dt q) (s_tick env uenv sleep dt s).
Proof.
  intros sleep dt q s [Hs [N [pre [post R]]]].
  destruct (sync_eq _ _ _ _ _ R) as [Epq Edef]. destruct R.
  destruct r_below0 as [_ [_ [B3 [B4 [B5 [B6 [B7 B8]]]]]]].
  unfold q_tick, s_tick.
  cbn [q_pq q_def q_snap q_ios q_sigs q_procs q_next q_now q_iter q_log s_pq s_def s_ios s_sigs s_procs s_next s_now s_iter s_log].
  assert (Em : s_msec (mkS (s_pq s) (s_def s) (s_ios s) (s_sigs s) (s_procs s) (s_next s) (s_now s + dt) (s_iter s + 1) (s_log s)) =
               q_msec (mkQ (q_pq q) (q_def q) (q_snap q) (q_ios q) (q_sigs q) (q_procs q) (q_next q) (q_now q + dt) (q_iter q + 1) (q_log q))).
  { unfold s_msec, q_msec. cbn [s_def s_pq s_now q_def q_pq q_now]. rewrite Epq, Edef, r_now0. reflexivity. }
  rewrite Em. set (msec := if sleep then q_msec _ else 0).
  rewrite r_now0. set (nw := if sleep && (0 <? msec) then q_now q + dt + msec * 1000 else q_now q + dt).
  rewrite Epq, Edef, Hs. cbn [app].
  set (due := filter (fun w => w_x w <=? nw) (q_pq q)).
  set (rest := filter (fun w => negb (w_x w <=? nw)) (q_pq q)).
  set (q2 := mkQ rest [] (due ++ q_def q) (q_ios q) (q_sigs q) (q_procs q) (q_next q) nw (q_iter q + 1) (OPoll msec :: q_log q)).
  set (s2 := mkS (q_pq q) (q_def q) (s_ios s) (s_sigs s) (s_procs s) (s_next s) nw (s_iter s + 1) (OPoll msec :: s_log s)).
  assert (Bdef : Forall (fun w => w_id w < q_next q) (q_def q)) by (rewrite r_qdef0; apply Forall_app; split; assumption).
  assert (Udef : forall i, cnt i (q_def q) = (cnt i pre + cnt i post)%nat) by (intros i; rewrite r_qdef0, cnt_app; reflexivity).
  assert (R2 : Rel (q_next q) (map w_id due ++ map w_id (q_def q)) due (q_def q) [] [] q2 s2).
  { constructor; unfold q2, s2;
      cbn [q_snap q_def s_def q_pq s_pq q_ios q_sigs q_procs q_next q_now q_iter q_log s_ios s_sigs s_procs s_next s_now s_iter s_log app];
      try assumption; try reflexivity; try congruence.
    - rewrite app_nil_r. reflexivity.
    - intros w. unfold due, rest. rewrite !filter_In. destruct (w_x w <=? nw); cbn [negb]; intuition congruence.
    - apply ksorted_filter. exact r_qsort0.
    - intros i. specialize (r_uniq0 i). unfold tcnt in *. cbn [q_pq q_ios q_sigs q_procs].
      pose proof (cnt_filter_split i (fun w => w_x w <=? nw) (q_pq q)) as Hsplit. unfold due, rest in *.
      change (cnt i []) with O in *. rewrite Udef. lia.
    - unfold BelowQ. cbn [q_next q_pq q_ios q_sigs q_procs].
      assert (Bf : forall f, Forall (fun w => w_id w < q_next q) (filter f (q_pq q))).
      { intros f. apply Forall_forall. intros v Hv. apply filter_In in Hv. rewrite Forall_forall in B3. apply B3. tauto. }
      repeat split; auto; try (apply Bf).
    - unfold ids_of. rewrite map_app. apply eq_sym. apply filter_all_memb.
    - apply Forall_app. split; apply Forall_forall; intros i Hi; apply in_map_iff in Hi; destruct Hi as [v [<- Hv]].
      + apply filter_In in Hv. rewrite Forall_forall in B3. apply B3. tauto.
      + rewrite Forall_forall in Bdef. auto.
    - intros i Hi. split; [|split; reflexivity].
      specialize (r_uniq0 i). unfold tcnt in r_uniq0.
      pose proof (cnt_filter_split i (fun w => w_x w <=? nw) (q_pq q)) as Hsplit. unfold due, rest in *.
      apply in_app_or in Hi. destruct Hi as [Hi|Hi]; apply in_map_iff in Hi; destruct Hi as [v [<- Hv]].
      + pose proof (cnt_in_pos _ _ Hv). lia.
      + pose proof (cnt_in_pos _ _ Hv). rewrite Udef in H. lia. }
  destruct (rel_loop env uenv _ _ (length (q_snap q2)) _ _ _ _ _ _ R2 (le_n _)) as [pre' [post' R3]].
  assert (G : Sync (q_loop env uenv (length (q_snap q2)) q2) (s_run_ids env uenv (map w_id due ++ map w_id (q_def q)) s2)).
  { split; [rewrite (r_snap _ _ _ _ _ _ _ _ R3); reflexivity|]. exists (q_next q), pre', post'. exact R3. }
  exact G.
Qed.

Lemma sync_op : forall q s o, Sync q s -> Sync (q_op env uenv q o) (s_op env uenv s o).
Proof.
  intros q s o H. destruct o as [a|dt|]; cbn [q_op s_op]; [apply sync_action|apply sync_tick|apply sync_tick]; exact H.
Qed.

Lemma sync0 : Sync qst0 sst0.
Proof.
  split; [reflexivity|]. exists 0, [], [].
  constructor; try reflexivity; try (constructor; fail);
    try (intros; cbn; tauto); try (intros; cbn; lia); try (unfold BelowQ; cbn; repeat split; constructor); try (intros i []).
Qed.

Lemma sync_fold : forall ops q s, Sync q s -> Sync (fold_left (q_op env uenv) ops q) (fold_left (s_op env uenv) ops s).
Proof. induction ops as [|o r IH]; intros q s H; [exact H|]. cbn [fold_left]. apply IH. apply sync_op. exact H. Qed.

Lemma destroy_fold_log : forall l q s, s_log s = q_log q -> s_iter s = q_iter q -> s_now s = q_now q ->
  s_log (fold_left (fun s w => if asked w then s_emit s w (EV_UNBIND + EV_DESTROY) else s) l s) =
  q_log (fold_left (fun q w => if asked w then q_emit q w (EV_UNBIND + EV_DESTROY) else q) l q).
Proof.
  induction l as [|w l IH]; intros q s Hl Hi Hn; [exact Hl|]. cbn [fold_left]. destruct (asked w); [|apply IH; assumption].
  apply IH; cbn [s_emit q_emit s_log q_log s_iter q_iter s_now q_now]; congruence.
Qed.

(* C17: the two formulations of the specification are one specification *)
Theorem spec_formulations_agree : forall ops, spec_run env uenv ops = qspec_run env uenv ops.
Proof.
  intros ops. unfold spec_run, qspec_run, q_run_ops. f_equal.
  destruct (sync_fold ops qst0 sst0 sync0) as [Hs [N [pre [post R]]]].
  set (q := fold_left (q_op env uenv) ops qst0) in *. set (s := fold_left (s_op env uenv) ops sst0) in *.
  destruct (sync_eq _ _ _ _ _ R) as [Epq Edef]. destruct R.
  unfold s_destroy, q_destroy. cbn [s_log q_log s_ios s_pq s_def s_sigs s_procs q_ios q_pq q_def q_sigs q_procs].
  rewrite Epq, Edef, r_ios0, r_sigs0, r_procs0.
  apply destroy_fold_log; cbn [s_log q_log s_iter q_iter s_now q_now]; [assumption|reflexivity|assumption].
Qed.

End SpecEq4.

(* C17_refines against the identity-snapshot specification *)
Theorem refines_spec : forall env uenv ops, run false env uenv ops = spec_run env uenv ops.
Proof. intros env uenv ops. rewrite (refines env uenv ops). symmetry. apply spec_formulations_agree. Qed.
