(* RBCopySpec.v -- what property C13 demands of copyrect / moverect / blit, cell by cell.

   Every destination cell that clip and mask allow takes the content the source cell at the
   same offset had BEFORE the call:
     Skip   -> Skip (copyrect, moverect) resp. unchanged (blit)
     Text / Erase / Char -> the same content, with the pen completed from the current pen
     Line   -> its segments merge into a line cell already there
   All other cells, the cursor, translation, clip, pen and the saved-state stack are
   unchanged.  moverect additionally leaves the cells of (source minus destination) skipped.
   Source cells are addressed in buffer coordinates (the C reads src->cells directly); the
   destination goes through translation, clip and mask like any drawing operation.  The
   property is stated for no translation in force. *)
From Coq Require Import ZArith List Bool.
From Tickit Require Import RectDefs RBDefs RBSpec.
Import ListNotations.
Local Open Scope Z_scope.

Definition acell_at (g : agrid) (y x : Z) : cellc := ac (nthz (nthz g y []) x (mkA ASkip (-1))).

(* tickit_renderbuffer_setpen(dst, cell->pen) right after savepen: the cell's attributes,
   completed from the pen that was current *)
Definition completed_pen (cur q : pen) : pen := pen_copy (pen_copy pen_empty q true) cur false.

Definition copy_cell (cur : pen) (copy_skip : bool) (srcc old : cellc) : cellc :=
  match srcc with
  | ASkip => if copy_skip then ASkip else old
  | AText q s col => AText (completed_pen cur q) s col
  | AErase q => AErase (completed_pen cur q)
  | AChar q cp => AChar (completed_pen cur q) cp
  | ALine q m =>
      let np := completed_pen cur q in
      match old with
      | ALine p0 m0 => ALine (if pen_equiv p0 np then p0 else np) (Z.lor m0 m)
      | _ => ALine np (Z.lor 0 m)
      end
  end.

(* [dst] with the cells of rectangle [sr] of grid [srcg] copied to (dtop, dleft) *)
Definition a_copy (dst : ast) (srcg : agrid) (dtop dleft : Z) (sr : rect) (copy_skip : bool) : ast :=
  let a := a_aux dst in
  let lineoffs := dtop - top sr in
  let coloffs := dleft - left sr in
  if (lines sr <=? 0) || (cols sr <=? 0) then dst else
  set_ag dst
    (mapi (fun y row =>
       mapi (fun x cell =>
         (* the source cell that lands on (y, x) *)
         let sy := y - xl a - lineoffs in
         let sx := x - xc a - coloffs in
         if cell_inb sr (sy, sx) && cell_inb (clip a) (y, x) && (am cell =? -1)
         then mkA (copy_cell (cur_pen a) copy_skip (acell_at srcg sy sx) (ac cell)) (am cell)
         else cell) row) (ag dst)).

(* copying a rectangle onto itself changes nothing (the C returns at once) *)
Definition a_copyrect (s : ast) (dr sr : rect) : ast :=
  if (top dr =? top sr) && (left dr =? left sr) then s
  else a_copy s (ag s) (top dr) (left dr) sr true.

(* the vacated cells: in the source rectangle but not in the destination-positioned one *)
Definition a_moverect (s : ast) (dr sr : rect) : ast :=
  let s1 := a_copyrect s dr sr in
  let hole := mkRect (top dr) (left dr) (lines sr) (cols sr) in
  let a := a_aux s1 in
  set_ag s1
    (mapi (fun y row =>
       mapi (fun x cell =>
         let py := y - xl a in let px := x - xc a in
         if cell_inb sr (py, px) && negb (cell_inb hole (py, px)) && cell_inb (clip a) (y, x) && (am cell =? -1)
         then mkA ASkip (am cell) else cell) row) (ag s1)).

Definition a_blit (dst src : ast) : ast :=
  a_copy dst (ag src) 0 0 (mkRect 0 0 (a_lines src) (a_cols src)) false.

(* ---------------------------------------------------------------------------------- *)
(* comparison of what cells DISPLAY: a text cell is the grapheme covering its column and
   which of the grapheme's columns it is.  (The pinned code copies text by making new strings
   from slices, the repaired code shares the string; the property is about content.) *)
Definition disp (c : cellc) : cellc :=
  match c with
  | AText p s col =>
      let a := slice_start s col in
      let b := count_on s a (sp_gr a + 1) (-1) in
      AText p (slice s a b) (col - sp_col a)
  | x => x
  end.

Definition disp_grid (g : agrid) : agrid := map (map (fun c => mkA (disp (ac c)) (am c))) g.

Definition ast_disp_eqb (a b : ast) : bool :=
  (a_lines a =? a_lines b) && (a_cols a =? a_cols b) &&
  agrid_eqb (disp_grid (ag a)) (disp_grid (ag b)) && aux_eqb (a_aux a) (a_aux b).

Definition dump_disp_checkb (want : ast) (impl : rb) (api : list (list apiview)) : bool :=
  wf_rbb impl &&
  ast_disp_eqb (abs_rb impl) want &&
  list_eqb (list_eqb api_eqb) api (map (map (fun c => api_of (ac c))) (ag want)).
