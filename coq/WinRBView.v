(* WinRBView.v -- the vocabulary that connects the window layer's ABSTRACT render buffer and
   terminal (WinDefs.v: [rbuf], [rb_draw], [term_flush_rb]) to the CONCRETE render buffer model
   (RBDefs.v, specified cell by cell in RBSpec.v, property C03), its flush (RBFlushDefs.v,
   property C04) and the terminal of C04.

   * [c_dop] / [c_prog]: the calls of the render-buffer API an expose handler's drawing program
     makes (as harness/win_harness.h makes them);
   * [expose_ops] / [flush_ops]: the calls _do_expose / tickit_window_flush make on the buffer
     (save, clip, translate, the children, restore, mask, the window's handler), as one program
     over [rbop];
   * [Rrb]: the simulation relation between an abstract buffer and a state of the cell-wise
     specification;  [TR]: between the abstract terminal grid and the grid of C04's terminal;
   * [cscreen] / [cwin_flush]: tickit_window_flush with the CONCRETE buffer and flush: run the
     program on RBDefs' span grid, flush it with RBFlushDefs' flush, let C04's terminal execute
     the emitted operations.

   Names that exist on both sides (rb_new, rb_lines, rb_cols, term, t_lines, t_cols, same_frame)
   mean the render-buffer group's here; the window layer's are written WinDefs.xxx. *)
From Coq Require Import ZArith List Bool Lia.
From Tickit Require Import RectDefs WinRectSet WinDefs WinSpec.
From Tickit Require Import RBDefs RBSpec RBAbsLemmas RBProps Gen_Linechars RBFlushDefs RBFlushSpec RBTermSim.
Import ListNotations.
Local Open Scope Z_scope.

(* ------------------------------------------------------------------------------------ *)
(* line segments: the window model keeps four bits (1 north, 2 east, 4 south, 8 west); the
   buffer keeps a style (1 = single) per direction at shifts 0, 2, 4, 6 *)
Definition m8 (b : Z) : Z :=
  Z.lor (Z.land b 1)
        (Z.lor (Z.shiftl (Z.land (Z.shiftr b 1) 1) EAST_SHIFT)
               (Z.lor (Z.shiftl (Z.land (Z.shiftr b 2) 1) SOUTH_SHIFT)
                      (Z.shiftl (Z.land (Z.shiftr b 3) 1) WEST_SHIFT))).

(* what the application may paint: characters of one column, outside the range the window
   model reserves for its line cells *)
Definition app_ok (app : Z -> Z -> Z -> Z) : Prop :=
  forall id y x, cpw (app id y x) = 1 /\ is_line (app id y x) = false.

(* ------------------------------------------------------------------------------------ *)
(* cells *)

(* the content part of an abstract cell (the window / position stamps are ghost state) *)
Definition cont (v : option (Z * Z * cell)) : option Z :=
  match v with Some (c, _, _) => Some c | None => None end.

(* specification cell [c] shows the window model's content [v] *)
Definition crep (c : cellc) (v : option Z) : Prop :=
  match c with
  | ASkip => v = None
  | AErase _ => v = Some BLANK
  | AChar _ cp => v = Some cp /\ cpw cp = 1 /\ is_line cp = false
  | AText _ s k => 0 <= k < zlen s /\ narrow s /\ v = Some (nth (Z.to_nat k) s 0) /\
                   is_line (nth (Z.to_nat k) s 0) = false
  | ALine _ m => exists b, 1 <= b <= 15 /\ m = m8 b /\ v = Some (LINEBASE + b)
  end.

Definition mask_z (m : option Z) : Z := match m with Some k => k | None => -1 end.

Definition clip_rep (k : option rect) (r : rect) : Prop :=
  forall q, cell_inb r q = match k with Some k' => cell_inb k' q | None => false end.

Definition frame_rep (f : Z * Z * option rect) (g : frame) : Prop :=
  let '(fl, fc, fk) := f in
  f_pen_only g = false /\ f_xl g = fl /\ f_xc g = fc /\ clip_rep fk (f_clip g).

(* the simulation relation *)
Record Rrb (b : WinDefs.rbuf) (A : ast) : Prop := mkRrb {
  R_lines : a_lines A = WinDefs.rb_lines b;
  R_cols : a_cols A = WinDefs.rb_cols b;
  R_nonneg : 0 <= a_lines A /\ 0 <= a_cols A;
  R_shape : ashape A;
  R_cells : forall y x, in_grid A y x ->
      crep (ac (gcell (ag A) y x)) (cont (rb_cells b (y, x))) /\
      am (gcell (ag A) y x) = mask_z (rb_mask b (y, x));
  R_outside : forall q, rb_inb b q = false -> rb_cells b q = None /\ rb_mask b q = None;
  R_mask_ge : forall q k, rb_mask b q = Some k -> 0 <= k;
  R_clip : clip_rep (rb_clip b) (clip (a_aux A));
  R_clip_in : forall q, cell_inb (clip (a_aux A)) q = true -> rb_inb b q = true;
  R_xl : xl (a_aux A) = rb_xl b;
  R_xc : xc (a_aux A) = rb_xc b;
  R_depth : depth (a_aux A) = rb_depth b;
  R_depth_ge : 0 <= rb_depth b;
  R_depth_stack : Z.of_nat (length (rb_stack b)) <= rb_depth b;
  R_stack : Forall2 frame_rep (rb_stack b) (stack (a_aux A));
  R_stack_in : Forall (fun g => forall q, cell_inb (f_clip g) q = true -> rb_inb b q = true) (stack (a_aux A))
}.

(* ------------------------------------------------------------------------------------ *)
(* the render-buffer calls of a drawing program (harness/win_harness.h, on_expose) *)

Definition row_chars (app : Z -> Z -> Z -> Z) (id l c n : Z) : list Z :=
  map (fun k => app id l (c + Z.of_nat k)) (seq 0 (Z.to_nat n)).

Definition c_dop (app : Z -> Z -> Z -> Z) (id : Z) (handed : rect) (o : dop) : list rbop :=
  match o with
  | DPaint =>
    (* odd lines character by character, even lines as one text *)
    flat_map (fun k =>
                let l := top handed + Z.of_nat k in
                if Z.odd l
                then map (fun j => OCharAt l (left handed + Z.of_nat j) (app id l (left handed + Z.of_nat j)))
                         (seq 0 (Z.to_nat (cols handed)))
                else [OTextAt l (left handed) (row_chars app id l (left handed) (cols handed))])
             (seq 0 (Z.to_nat (lines handed)))
  | DText l c n => [OTextAt l c (row_chars app id l c n)]
  | DErase l c n => [OEraseAt l c n]
  | DChar l c => [OCharAt l c (app id l c)]
  | DHline l c1 c2 => [OHLine l c1 c2 1 0]
  | DVline l1 l2 c => [OVLine l1 l2 c 1 0]
  | DEraseRect r => [OEraseRect r]
  | DSkip l c n => [OSkipAt l c n]
  | DClear => [OClear]
  end.

Definition c_prog (app : Z -> Z -> Z -> Z) (prog : list dop) (id : Z) (handed : rect) : list rbop :=
  flat_map (c_dop app id handed) prog.

(* a handler environment, concretely: the calls window [id]'s handler makes when handed [r] *)
Definition chandler := Z -> rect -> list rbop.
Definition c_hp (app : Z -> Z -> Z -> Z) (progs : Z -> list dop) : chandler :=
  fun id handed => c_prog app (progs id) id handed.

(* _do_expose, as the sequence of calls it makes on the render buffer (windows have no pen of
   their own) *)
Fixpoint expose_ops (hp : chandler) (t : wtree) (r : rect) : list rbop :=
  match t with
  | Node i ch =>
    (fix kids (l : list wtree) : list rbop :=
       match l with
       | [] => []
       | c :: rest =>
         let ci := t_info c in
         if negb (w_vis ci) then kids rest else
         (match r_intersect r (w_rect ci) with
          | Some ex =>
            [OSave; OClip ex; OTranslate (top (w_rect ci)) (left (w_rect ci))] ++
            expose_ops hp c (r_translate ex (- top (w_rect ci)) (- left (w_rect ci))) ++ [ORestore]
          | None => []
          end) ++ [OMask (w_rect ci)] ++ kids rest
       end) ch ++ hp (w_id i) r
  end.

(* the render loop of tickit_window_flush *)
Definition flush_ops (hp : chandler) (tree : wtree) (rects : list rect) : list rbop :=
  flat_map (fun r => [OSave; OClip r] ++ expose_ops hp tree r ++ [ORestore]) rects.

(* ------------------------------------------------------------------------------------ *)
(* terminals *)

(* what a terminal cell holds for the window model's content [c] *)
Definition enc (c : Z) : list Z :=
  if is_line c then [linechar (m8 (c - LINEBASE))] else [c].

Definition TR (tm : WinDefs.term) (t : term) : Prop :=
  term_ok t /\ t_lines t = WinDefs.t_lines tm /\ t_cols t = WinDefs.t_cols tm /\
  forall y x, 0 <= y < t_lines t -> 0 <= x < t_cols t ->
    t_text (tcellat t y x) = enc (WinDefs.t_grid tm (y, x)).

(* ------------------------------------------------------------------------------------ *)
(* tickit_window_flush over the concrete buffer and terminal *)

(* render the rectangles into a new concrete buffer of L x C, flush it, let the terminal
   execute what the flush emits *)
Definition cscreen (hp : chandler) (tree : wtree) (rects : list rect) (L C : Z) (t0 : term) : res term :=
  match run (rb_new L C) (flush_ops hp tree rects) with
  | Ok (s, _) =>
    match flush s with
    | Ok (ops, _) => t_run t0 ops
    | Fault => Fault
    | NoFuel => NoFuel
    end
  | Fault => Fault
  | NoFuel => NoFuel
  end.

(* [win_flush] with the drawing done concretely.  (The cursor calls -- hide before drawing,
   _do_restore afterwards -- do not touch the grid; C04's terminal has no visibility flag, so
   they are left out here; C15 is about them.) *)
Definition cwin_flush (cfg : defects) (hp : chandler) (st : root) (t0 : term)
  : res (root * term * list (Z * rect)) :=
  if negb (r_later st) then Ok (st, t0, []) else
  let st1 := set_flags st (r_nexp st) (r_nrest st) false in
  let st2 := fold_left (fun s e => match e with (k, p, w) => do_hchange s k p w end)
                       (r_queue st1) (set_queue st1 []) in
  let fin (st3 : root) (t3 : term) (lg : list (Z * rect)) :=
    if r_nrest st3 then Ok (set_flags st3 (r_nexp st3) false (r_later st3), t3, lg)
    else Ok (st3, t3, lg) in
  if r_nexp st2 then
    let rects := flush_rects cfg st2 in
    let rs := root_selfrect st2 in
    match cscreen hp (r_tree st2) rects (lines rs) (cols rs) t0 with
    | Ok t1 => fin (set_flags (set_damage st2 []) false true (r_later st2)) t1 (flush_log (r_tree st2) rects)
    | Fault => Fault
    | NoFuel => NoFuel
    end
  else fin st2 t0 [].
