From Coq Require Extraction.
From Coq Require Import ExtrOcamlBasic.
From Tickit Require Import Csi VT TermPenDefs TermPenSpec XtermDefs XtermModeSpec TermBufDefs TermBufSpec Gen_SgrOnOff.
Extraction "mC12.ml" render lex vt_init vt_run_bytes xt_start empty_pen pset has_attr
  xdrv_new xt_on_modereport xt_on_decscusr xt_on_sgrreport xt_setctl xt_clear setup_controls
  mode_step oracle_modes ms_of_vt sets_keypad_on set_md md_set_blink md_set_shape
  bstep bterm_new oracle_buf bo_init.
