From Coq Require Extraction.
From Coq Require Import ExtrOcamlBasic.
From Tickit Require Import Csi VT TermPenDefs TermPenSpec XtermDefs Gen_SgrOnOff.
Extraction "mC10.ml" render lex vt_init vt_run_bytes xt_start empty_pen pset has_attr
  do_setpen do_chpen term_setpen term_chpen chpen_params_capacity xterm_colors
  oracle_pens oracle_deltas.
