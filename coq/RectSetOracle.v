(* RectSetOracle.v -- C05, part 8: the boolean oracle of RectSetSpec.v is sound.  Whenever
   [history_checkb] accepts the observations of a case, every reported array really is
   non-empty / pairwise disjoint / sorted and covers exactly the cells of the reference
   region -- for ALL cells of the plane, not only the tested ones -- and every query answer
   really is "every cell of q is in the region" / "some cell of q is in the region".
   This is the coordinate-compression argument made formal: a region built by
   add/subtract/translate/clear depends on a cell only through the cell's membership in the
   (translated) input rectangles, and every cell has a representative among the cells whose
   coordinates are edge values (the greatest edge value not exceeding each coordinate) with
   the same memberships -- or lies outside all rectangles. *)
From Coq Require Import ZArith List Bool Lia ZifyBool.
From Tickit Require Import RectDefs RectSpec RectProofs RectSetDefs RectSetSpec RectSetProofs.
Import ListNotations.
Local Open Scope Z_scope.

(* ------------------------------------------------------------------ *)
(* greatest listed value not exceeding y                               *)

Fixpoint floor_in (E : list Z) (y : Z) : option Z :=
  match E with
  | [] => None
  | e :: rest =>
    match floor_in rest y with
    | Some m => if (e <=? y) && (m <? e) then Some e else Some m
    | None => if e <=? y then Some e else None
    end
  end.

Lemma floor_in_spec E y :
  match floor_in E y with
  | Some m => In m E /\ m <= y /\ forall e, In e E -> e <= y -> e <= m
  | None => forall e, In e E -> y < e
  end.
Proof.
  induction E as [|e rest IH]; cbn [floor_in]; [intros e []|].
  destruct (floor_in rest y) as [m|].
  - destruct IH as [Hin [Hle Hmax]].
    destruct ((e <=? y) && (m <? e)) eqn:E1.
    + split; [left; reflexivity|]. split; [lia|].
      intros e' [<-|He'] Hy; [lia|]. specialize (Hmax e' He' Hy). lia.
    + split; [right; exact Hin|]. split; [exact Hle|].
      intros e' [<-|He'] Hy; [lia|]. exact (Hmax e' He' Hy).
  - destruct (e <=? y) eqn:E1.
    + split; [left; reflexivity|]. split; [lia|].
      intros e' [<-|He'] Hy; [lia|]. specialize (IH e' He'). lia.
    + intros e' [<-|He']; [lia|]. exact (IH e' He').
Qed.

Lemma in_yedges l r : In r l -> In (top r) (yedges l) /\ In (bottom r) (yedges l).
Proof. intros H. unfold yedges. split; apply in_flat_map; exists r; simpl; auto. Qed.

Lemma in_xedges l r : In r l -> In (left r) (xedges l) /\ In (right r) (xedges l).
Proof. intros H. unfold xedges. split; apply in_flat_map; exists r; simpl; auto. Qed.

Lemma in_rep_cells l m n : In m (yedges l) -> In n (xedges l) -> In (m, n) (rep_cells_nd l).
Proof.
  intros Hm Hn. unfold rep_cells_nd. apply in_flat_map. exists m. split; [apply nodup_In; exact Hm|].
  apply in_map. apply nodup_In. exact Hn.
Qed.

(* every cell has a representative with the same memberships, or lies outside everything *)
Lemma rep_exists l p :
  (exists p', In p' (rep_cells_nd l) /\ forall r, In r l -> cell_inb r p = cell_inb r p') \/
  (forall r, In r l -> cell_inb r p = false).
Proof.
  destruct p as [y x].
  pose proof (floor_in_spec (yedges l) y) as Hy. pose proof (floor_in_spec (xedges l) x) as Hx.
  destruct (floor_in (yedges l) y) as [m|].
  2:{ right. intros r Hr. destruct (in_yedges l r Hr) as [Ht _]. specialize (Hy _ Ht).
      unfold cell_inb; cbn [fst snd]. lia. }
  destruct (floor_in (xedges l) x) as [n|].
  2:{ right. intros r Hr. destruct (in_xedges l r Hr) as [Hl _]. specialize (Hx _ Hl).
      unfold cell_inb; cbn [fst snd]. lia. }
  destruct Hy as [Hmin [Hmle Hmmax]]. destruct Hx as [Hnin [Hnle Hnmax]].
  left. exists (m, n). split; [apply in_rep_cells; assumption|].
  intros r Hr. destruct (in_yedges l r Hr) as [Ht Hb]. destruct (in_xedges l r Hr) as [Hl Hrt].
  pose proof (Hmmax _ Ht) as A1. pose proof (Hmmax _ Hb) as A2.
  pose proof (Hnmax _ Hl) as A3. pose proof (Hnmax _ Hrt) as A4.
  unfold cell_inb; cbn [fst snd].
  destruct (top r <=? y) eqn:B1; destruct (y <? bottom r) eqn:B2;
    destruct (left r <=? x) eqn:B3; destruct (x <? right r) eqn:B4;
    destruct (top r <=? m) eqn:C1; destruct (m <? bottom r) eqn:C2;
    destruct (left r <=? n) eqn:C3; destruct (n <? right r) eqn:C4; cbn [andb]; try reflexivity; lia.
Qed.

(* ------------------------------------------------------------------ *)
(* regions that depend on a cell only through the input rectangles     *)

Definition respects (inp : list rect) (R : cell -> bool) : Prop :=
  forall p q, (forall r, In r inp -> cell_inb r p = cell_inb r q) -> R p = R q.

Definition supported (inp : list rect) (R : cell -> bool) : Prop :=
  forall p, R p = true -> exists r, In r inp /\ cell_inb r p = true.

Definition tracked (inp : list rect) (R : cell -> bool) : Prop := respects inp R /\ supported inp R.

Lemma cell_inb_translate r d rw p :
  cell_inb (r_translate r d rw) p = cell_inb r (fst p - d, snd p - rw).
Proof.
  destruct p as [y x]. unfold cell_inb, r_translate, bottom, right; cbn [top left lines cols fst snd].
  destruct (top r + d <=? y) eqn:B1; destruct (y <? top r + d + lines r) eqn:B2;
    destruct (left r + rw <=? x) eqn:B3; destruct (x <? left r + rw + cols r) eqn:B4;
    destruct (top r <=? y - d) eqn:C1; destruct (y - d <? top r + lines r) eqn:C2;
    destruct (left r <=? x - rw) eqn:C3; destruct (x - rw <? left r + cols r) eqn:C4; cbn [andb]; try reflexivity; lia.
Qed.

Lemma tracked_nil : tracked [] (fun _ => false).
Proof. split; [intros p q _; reflexivity|intros p H; discriminate]. Qed.

Lemma tracked_step inp R o : tracked inp R -> tracked (inputs_step inp o) (regionb_step R o).
Proof.
  intros [Hres Hsup]. destruct o as [r|r|d rw|]; cbn [inputs_step regionb_step].
  - split.
    + intros p q H. rewrite (Hres p q), (H r (or_introl eq_refl)); [reflexivity|].
      intros r' Hr'. apply H. right. exact Hr'.
    + intros p H. apply orb_true_iff in H. destruct H as [H|H].
      * destruct (Hsup p H) as [r' [Hr' Hc]]. exists r'. split; [right; exact Hr'|exact Hc].
      * exists r. split; [left; reflexivity|exact H].
  - split.
    + intros p q H. rewrite (Hres p q), (H r (or_introl eq_refl)); [reflexivity|].
      intros r' Hr'. apply H. right. exact Hr'.
    + intros p H. apply andb_true_iff in H. destruct H as [H _].
      destruct (Hsup p H) as [r' [Hr' Hc]]. exists r'. split; [right; exact Hr'|exact Hc].
  - split.
    + intros p q H. apply Hres. intros r Hr.
      rewrite <- !cell_inb_translate. apply H. exact (in_map (fun x => r_translate x d rw) inp r Hr).
    + intros p H. destruct (Hsup _ H) as [r [Hr Hc]]. exists (r_translate r d rw).
      split; [exact (in_map (fun x => r_translate x d rw) inp r Hr)|]. rewrite cell_inb_translate. exact Hc.
  - split; [intros p q _; reflexivity|intros p H; discriminate].
Qed.

(* ------------------------------------------------------------------ *)
(* state_checkb                                                        *)

Lemma count_cover_ext s p q : (forall r, In r s -> cell_inb r p = cell_inb r q) ->
  count_cover s p = count_cover s q /\ coveredb s p = coveredb s q.
Proof.
  intros H. unfold count_cover, coveredb. split.
  - f_equal. apply filter_ext_in. exact H.
  - induction s as [|a rest IH]; cbn [existsb]; [reflexivity|].
    rewrite (H a (or_introl eq_refl)), IH; [reflexivity|]. intros r Hr. apply H. right. exact Hr.
Qed.

Lemma filter_false {A} (l : list A) : filter (fun _ => false) l = [].
Proof. induction l; auto. Qed.

Lemma count_cover_outside s p : (forall r, In r s -> cell_inb r p = false) ->
  count_cover s p = 0%nat /\ coveredb s p = false.
Proof.
  intros H. unfold count_cover, coveredb. split.
  - rewrite (filter_ext_in _ (fun _ => false) s H), filter_false. reflexivity.
  - induction s as [|a rest IH]; cbn [existsb]; [reflexivity|].
    rewrite (H a (or_introl eq_refl)), IH; [reflexivity|]. intros r Hr. apply H. right. exact Hr.
Qed.

Lemma count_cover_In s b p : In b s -> cell_inb b p = true -> (1 <= count_cover s p)%nat.
Proof.
  intros Hb Hc. unfold count_cover.
  assert (Hin : In b (filter (fun r => cell_inb r p) s)) by (apply filter_In; auto).
  destruct (filter (fun r => cell_inb r p) s); [contradiction|cbn [length]; lia].
Qed.

Lemma count_le1_disjoint s : (forall p, (count_cover s p <= 1)%nat) -> pairwise_disjoint s.
Proof.
  induction s as [|a rest IH]; intros H; cbn [pairwise_disjoint]; [exact I|]. split.
  - apply Forall_forall. intros b Hb p [Ha Hbp].
    apply cell_inb_iff in Ha. apply cell_inb_iff in Hbp.
    pose proof (H p) as Hp. unfold count_cover in Hp. cbn [filter] in Hp. rewrite Ha in Hp. cbn [length] in Hp.
    pose proof (count_cover_In rest b p Hb Hbp) as H1. unfold count_cover in H1. lia.
  - apply IH. intros p. pose proof (H p) as Hp. unfold count_cover in *. cbn [filter] in Hp.
    destruct (cell_inb a p); cbn [length] in Hp; lia.
Qed.

Definition state_ok (R : cell -> bool) (s : list rect) : Prop :=
  Forall nonempty s /\ pairwise_disjoint s /\ sorted s /\ forall p, covered s p <-> R p = true.

Theorem state_checkb_sound inp R s : tracked inp R -> state_checkb inp R s = true -> state_ok R s.
Proof.
  intros [Hres Hsup] H. unfold state_checkb in H.
  apply andb_true_iff in H. destruct H as [H Hcells]. apply andb_true_iff in H. destruct H as [Hne Hso].
  rewrite forallb_forall in Hne, Hcells.
  assert (Hall : forall p, (count_cover s p <= 1)%nat /\ coveredb s p = R p).
  { intros p. destruct (rep_exists (inp ++ s) p) as [[p' [Hp' Hsame]]|Hout].
    - specialize (Hcells p' Hp'). apply andb_true_iff in Hcells. destruct Hcells as [H1 H2].
      apply Nat.leb_le in H1. apply eqb_prop in H2.
      destruct (count_cover_ext s p p' ltac:(intros r Hr; apply Hsame, in_or_app; right; exact Hr)) as [E1 E2].
      rewrite E1, E2, H2. split; [exact H1|]. symmetry. apply Hres.
      intros r Hr. apply Hsame, in_or_app. left. exact Hr.
    - destruct (count_cover_outside s p ltac:(intros r Hr; apply Hout, in_or_app; right; exact Hr)) as [E1 E2].
      rewrite E1, E2. split; [lia|].
      destruct (R p) eqn:ER; [|reflexivity]. exfalso.
      destruct (Hsup p ER) as [r [Hr Hc]]. rewrite (Hout r) in Hc; [discriminate|apply in_or_app; left; exact Hr]. }
  split; [|split; [|split]].
  - apply Forall_forall. intros r Hr. apply nonemptyb_iff, Hne, Hr.
  - apply count_le1_disjoint. intros p. apply Hall.
  - apply sortedb_iff. exact Hso.
  - intros p. rewrite <- coveredb_iff. destruct (Hall p) as [_ E]. rewrite E. tauto.
Qed.

(* ------------------------------------------------------------------ *)
(* query_checkb                                                        *)

Definition query_ok (R : cell -> bool) (q : rect) (ans : bool * bool) : Prop :=
  (fst ans = true <-> forall p, cell_in q p -> R p = true) /\
  (snd ans = true <-> exists p, cell_in q p /\ R p = true).

Theorem query_checkb_sound inp R q ans : tracked inp R -> query_checkb inp R q ans = true -> query_ok R q ans.
Proof.
  intros [Hres Hsup] H. unfold query_checkb in H. cbv zeta in H.
  apply andb_true_iff in H. destruct H as [H1 H2]. apply eqb_prop in H1. apply eqb_prop in H2.
  (* a cell of q has a representative in q with the same region value *)
  assert (Hrep : forall p, cell_inb q p = true ->
            exists p', In p' (rep_cells_nd (q :: inp)) /\ cell_inb q p' = true /\ R p' = R p).
  { intros p Hp. destruct (rep_exists (q :: inp) p) as [[p' [Hp' Hsame]]|Hout].
    - exists p'. split; [exact Hp'|]. split.
      + rewrite <- (Hsame q (or_introl eq_refl)). exact Hp.
      + symmetry. apply Hres. intros r Hr. apply Hsame. right. exact Hr.
    - rewrite (Hout q (or_introl eq_refl)) in Hp. discriminate. }
  split.
  - rewrite H1, forallb_forall. split.
    + intros Hf p Hp. apply cell_inb_iff in Hp. destruct (Hrep p Hp) as [p' [Hp' [Hq' HR]]].
      specialize (Hf p' Hp'). rewrite Hq' in Hf. cbn [implb] in Hf. congruence.
    + intros Hall p' _. destruct (cell_inb q p') eqn:E; cbn [implb]; [|reflexivity].
      apply Hall, cell_inb_iff, E.
  - rewrite H2, existsb_exists. split.
    + intros [p' [_ Hp']]. apply andb_true_iff in Hp'. destruct Hp' as [Hq' HR].
      exists p'. split; [apply cell_inb_iff; exact Hq'|exact HR].
    + intros [p [Hp HR]]. apply cell_inb_iff in Hp. destruct (Hrep p Hp) as [p' [Hp' [Hq' HR']]].
      exists p'. split; [exact Hp'|]. rewrite Hq'. cbn [andb]. congruence.
Qed.

(* ------------------------------------------------------------------ *)
(* the whole case                                                      *)

Fixpoint Forall2p {A B} (P : A -> B -> Prop) (la : list A) (lb : list B) : Prop :=
  match la, lb with
  | [], [] => True
  | a :: ra, b :: rb => P a b /\ Forall2p P ra rb
  | _, _ => False
  end.

Lemma forallb2_sound {A B} (f : A -> B -> bool) (P : A -> B -> Prop) :
  (forall a b, f a b = true -> P a b) ->
  forall la lb, forallb2 f la lb = true -> Forall2p P la lb.
Proof.
  intros H. induction la as [|a ra IH]; destruct lb as [|b rb]; cbn [forallb2 Forall2p]; try discriminate; auto.
  intros Hf. apply andb_true_iff in Hf. destruct Hf as [H1 H2]. split; auto.
Qed.

(* what the property says about the observations of a case, in Prop, for all cells *)
Fixpoint history_okP (R : cell -> bool) (cs : list cmd) (os : list obs) : Prop :=
  match cs, os with
  | [], [] => True
  | COp o :: cs', ObsState s :: os' =>
      state_ok (regionb_step R o) s /\ history_okP (regionb_step R o) cs' os'
  | CQuery qs :: cs', ObsQuery ans :: os' =>
      Forall2p (query_ok R) qs ans /\ history_okP R cs' os'
  | CFan ops :: cs', ObsFan ss :: os' =>
      Forall2p (fun o so => match so with Some s => state_ok (regionb_step R o) s | None => False end) ops ss /\
      history_okP R cs' os'
  | _, _ => False
  end.

Theorem history_checkb_sound : forall cs os inp R,
  tracked inp R -> history_checkb inp R cs os = true -> history_okP R cs os.
Proof.
  induction cs as [|c cs IH]; intros os inp R Htr; destruct os as [|o os]; cbn [history_checkb history_okP];
    try discriminate; auto.
  - destruct c; discriminate.
  - destruct c as [op|qs|ops]; destruct o as [s|ans|ss|]; try discriminate.
    + intros H. apply andb_true_iff in H. destruct H as [H1 H2].
      pose proof (tracked_step inp R op Htr) as Htr'. split.
      * exact (state_checkb_sound _ _ _ Htr' H1).
      * exact (IH os _ _ Htr' H2).
    + intros H. apply andb_true_iff in H. destruct H as [H1 H2]. split.
      * revert H1. apply forallb2_sound. intros q a. apply query_checkb_sound. exact Htr.
      * exact (IH os _ _ Htr H2).
    + intros H. apply andb_true_iff in H. destruct H as [H1 H2]. split.
      * revert H1. apply forallb2_sound. intros op [s|]; [|discriminate].
        apply state_checkb_sound. apply tracked_step. exact Htr.
      * exact (IH os _ _ Htr H2).
Qed.

Theorem case_checkb_sound cs os : case_checkb cs os = true -> history_okP (fun _ => false) cs os.
Proof. unfold case_checkb. apply history_checkb_sound. exact tracked_nil. Qed.
