(* LifeBridge.v -- the two disciplines (LifeSpec.v: destruction predicted at the client's last unref; LifeSpecEv.v:
   destruction observed when the last reference of either kind goes) coincide on traces without frame references. *)
From Coq Require Import ZArith List Bool PArith Lia.
From Tickit Require Import LifeDefs LifeSpec LifeSpecEv.
Import ListNotations.
Local Open Scope Z_scope.

Definition erase1 (x : egwin) : gwin := mkG (e_cnt x) (e_par x) (e_closed x).
Definition erase (e : eghost) : ghost := map erase1 e.
Definition is_client (o : op) : bool := match o with OFrameRef _ | OFrameUnref _ => false | _ => true end.
Definition nofr (e : eghost) : Prop := forall x, In x e -> e_fr x = 0.

Lemma nth_erase : forall e i, nth_error (erase e) i = option_map erase1 (nth_error e i).
Proof. intros. unfold erase. apply nth_error_map. Qed.

Lemma eheld_erase : forall e i, gheld (erase e) i = eheld e i.
Proof. intros. unfold gheld, eheld, gget, eget. rewrite nth_erase. destruct (nth_error e i); reflexivity. Qed.

Lemma nofr_nth : forall e i x, nofr e -> nth_error e i = Some x -> e_fr x = 0.
Proof. intros e i x H Hn. apply H. eapply nth_error_In; eauto. Qed.

Lemma eintree_erase : forall fuel e i, nofr e -> gintree_n fuel (erase e) i = eintree_n fuel e i.
Proof.
  induction fuel as [|f IH]; intros e i Hn; [reflexivity|]. cbn. unfold gget, eget. rewrite nth_erase.
  destruct (nth_error e i) as [x|] eqn:E; [|reflexivity]. cbn. rewrite (nofr_nth e i x Hn E), Z.add_0_r.
  destruct i; [reflexivity|]. destruct (e_par x); [rewrite IH; auto|reflexivity].
Qed.
Lemma length_erase : forall e, length (erase e) = length e.
Proof. intros. unfold erase. apply map_length. Qed.
Lemma eusable_erase : forall e i, nofr e -> gusable (erase e) i = eusable e i.
Proof.
  intros e i Hn. unfold gusable, eusable, gintree, eintree. rewrite eheld_erase, length_erase, eintree_erase by exact Hn.
  unfold gget, eget. rewrite nth_erase. destruct (nth_error e i); reflexivity.
Qed.
Lemma etop_erase : forall fuel e i, gtop_n fuel (erase e) i = etop_n fuel e i.
Proof.
  induction fuel as [|f IH]; intros e i; [reflexivity|]. cbn. unfold gget, eget. rewrite nth_erase.
  destruct (nth_error e i) as [x|]; [|reflexivity]. cbn. destruct (e_par x); [apply IH|reflexivity].
Qed.
Lemma eset_erase : forall e i x, erase (eset e i x) = gset (erase e) i (erase1 x).
Proof. induction e as [|y e IH]; intros i x; cbn; [reflexivity|]. destruct i; cbn; [reflexivity|]. rewrite IH. reflexivity. Qed.
Lemma nofr_eset : forall e i x, nofr e -> e_fr x = 0 -> nofr (eset e i x).
Proof.
  induction e as [|y e IH]; intros i x Hn Hx z Hz; cbn in Hz; [destruct Hz|]. destruct i; cbn in Hz.
  - destruct Hz as [<-|Hz]; [exact Hx|]. apply Hn. right. exact Hz.
  - destruct Hz as [<-|Hz]; [apply Hn; left; reflexivity|]. apply (IH i x); auto. intros w Hw. apply Hn. right. exact Hw.
Qed.

Lemma pass_erase : forall e i w d, nofr e ->
  erase (edestroy_pass e i w d) = gdestroy_pass (erase e) i w d /\ nofr (edestroy_pass e i w d).
Proof.
  unfold erase. induction e as [|x e IH]; intros i w d Hn; [split; [reflexivity|intros z []]|].
  assert (Hx : e_fr x = 0) by (apply Hn; left; reflexivity).
  assert (Hn' : nofr e) by (intros z Hz; apply Hn; right; exact Hz).
  assert (Hcons : forall y e', e_fr y = 0 -> nofr e' -> nofr (y :: e')).
  { intros y e' Hy He z [<-|Hz]; auto. }
  cbn [edestroy_pass map gdestroy_pass]. cbn [erase1 g_par g_cnt g_closed].
  destruct (Nat.eqb i w).
  - destruct (IH (S i) w (i :: d) Hn') as [E N]. split; [cbn [map]; rewrite E; reflexivity|apply Hcons; auto].
  - destruct (e_par x) as [p|].
    + destruct (existsb (Nat.eqb p) d && (0 <? e_cnt x)).
      * rewrite Hx, Z.add_0_r. assert (Eq : (e_cnt x - 1 =? 0) = (e_cnt x =? 1)).
        { destruct (Z.eqb_spec (e_cnt x - 1) 0), (Z.eqb_spec (e_cnt x) 1); auto; lia. }
        rewrite Eq. destruct (e_cnt x =? 1).
        -- destruct (IH (S i) w (i :: d) Hn') as [E N]. split; [cbn [map]; rewrite E; reflexivity|apply Hcons; auto].
        -- destruct (IH (S i) w d Hn') as [E N]. split; [cbn [map]; rewrite E; reflexivity|apply Hcons; auto].
      * destruct (IH (S i) w d Hn') as [E N]. split; [cbn [map]; rewrite E; reflexivity|apply Hcons; auto].
    + destruct (IH (S i) w d Hn') as [E N]. split; [cbn [map]; rewrite E; reflexivity|apply Hcons; auto].
Qed.

(* one call: the two checkers decide alike and stay in step *)
Lemma step_erase : forall e o, nofr e -> is_client o = true ->
  match estep e o with
  | Some e' => gstep (erase e) o = Some (erase e') /\ nofr e'
  | None => gstep (erase e) o = None
  end.
Proof.
  intros e o Hn Ho. destruct o; cbn in Ho; try discriminate; cbn [estep gstep].
  - rewrite eusable_erase by exact Hn. destruct (eusable e (idx p)); [|reflexivity]. split.
    + assert (Et : gtop (erase e) (idx p) = etop e (idx p)) by (unfold gtop, etop; rewrite length_erase; apply etop_erase).
      rewrite Et. unfold erase. rewrite map_app. reflexivity.
    + intros z Hz. apply in_app_or in Hz. destruct Hz as [Hz|[<-|[]]]; [apply Hn; exact Hz|reflexivity].
  - rewrite eheld_erase. destruct (eheld e (idx w)); [|reflexivity]. unfold gupd, eupd, gget, eget. rewrite nth_erase.
    destruct (nth_error e (idx w)) as [x|] eqn:E; cbn; [|auto]. split; [rewrite eset_erase; reflexivity|].
    apply nofr_eset; [exact Hn|]. cbn. first [exact (nofr_nth e _ x Hn E)|reflexivity].
  - unfold gget, eget. rewrite nth_erase. destruct (nth_error e (idx w)) as [x|] eqn:E; cbn; [|reflexivity].
    destruct (0 <? e_cnt x); [|reflexivity]. rewrite (nofr_nth e _ x Hn E), Z.add_0_r. destruct (e_cnt x =? 1).
    + unfold gdestroy, edestroy. destruct (pass_erase e 0 (idx w) [] Hn) as [E1 N1]. rewrite E1. auto.
    + split; [rewrite eset_erase; reflexivity|]. apply nofr_eset; [exact Hn|]. cbn. first [exact (nofr_nth e _ x Hn E)|reflexivity].
  - unfold gget, eget. rewrite nth_erase. destruct (nth_error e (idx w)) as [x|] eqn:E; cbn; [|reflexivity].
    destruct ((0 <? e_cnt x) && _); [|reflexivity]. split; [rewrite eset_erase; reflexivity|].
    apply nofr_eset; [exact Hn|]. cbn. first [exact (nofr_nth e _ x Hn E)|reflexivity].
  - rewrite eusable_erase by exact Hn. destruct (is_restack c && eusable e (idx w)); auto.
  - rewrite eusable_erase by exact Hn. destruct (eusable e (idx w)); auto.
  - rewrite eusable_erase by exact Hn. destruct (eusable e (idx w)); auto.
  - rewrite eusable_erase by exact Hn. destruct (eusable e (idx w)); auto.
  - rewrite eusable_erase by exact Hn. destruct (eusable e (idx w)); auto.
  - rewrite eusable_erase by exact Hn. destruct (eusable e (idx w)); auto.
  - rewrite eusable_erase by exact Hn. destruct (eusable e (idx w)); auto.
  - rewrite eusable_erase by exact Hn. destruct (Nat.eqb (idx w) 0 && eusable e 0); auto.
  - auto.
  - auto.
  - rewrite eusable_erase by exact Hn. destruct (eusable e (idx w)); auto.
  - rewrite eusable_erase by exact Hn. destruct (eusable e (idx w)); auto.
  - rewrite eusable_erase by exact Hn. destruct (eusable e (idx w)); auto.
  - rewrite eusable_erase by exact Hn. destruct j as [a|]; [rewrite eusable_erase by exact Hn|];
      destruct (eusable e (idx w) && _); auto.
  - rewrite eusable_erase by exact Hn. destruct (eusable e (idx w)); auto.
  - rewrite eusable_erase by exact Hn. destruct (eusable e (idx w)); auto.
  - auto.
  - auto.
Qed.

Theorem check_erase : forall l e, nofr e -> forallb is_client l = true ->
  match echeck e l with
  | Some e' => gcheck (erase e) l = Some (erase e')
  | None => gcheck (erase e) l = None
  end.
Proof.
  induction l as [|o l IH]; intros e Hn Hl; cbn in *; [reflexivity|]. apply andb_prop in Hl. destruct Hl as [Ho Hl].
  pose proof (step_erase e o Hn Ho) as H. destruct (estep e o) as [e'|]; [|rewrite H; reflexivity].
  destruct H as [H N]. rewrite H. apply IH; assumption.
Qed.

(* on a trace without frame references the two disciplines accept the same clients *)
Theorem disciplines_agree : forall l, forallb is_client l = true ->
  (match echeck e0 l with Some _ => true | None => false end) = wf_client l.
Proof.
  intros l Hl. unfold wf_client.
  assert (Hn0 : nofr e0) by (intros x [<-|[]]; reflexivity).
  pose proof (check_erase l e0 Hn0 Hl) as H.
  change (erase e0) with g0 in H. destruct (echeck e0 l); rewrite H; reflexivity.
Qed.
