(* WinInputMutMouse.v -- property C14, one mutation (close, or close and destroy, of ANY
   non-root window of the tree) inside a mouse handler: _handle_mouse never reads a freed
   window, gives back its references, and the windows outside the closed subtree are offered
   the event exactly as in the unmutated order -- for the mouse even in the same order. *)
From Coq Require Import ZArith List Bool Lia ZifyBool Permutation.
From Tickit Require Import RectDefs WinDefs WinInput WinInputSpec WinInputProofs WinInputMutBase.
Import ListNotations.
Local Open Scope Z_scope.

Definition MLOG (ty btn : Z) (D : list (Z * Z * Z)) (L : list iev) : list iev :=
  rev (map (mk_ev ty btn) D) ++ L.

Lemma MLOG_app ty btn D1 D2 L : MLOG ty btn (D1 ++ D2) L = MLOG ty btn D2 (MLOG ty btn D1 L).
Proof. unfold MLOG. rewrite map_app, rev_app_distr, app_assoc. reflexivity. Qed.

Lemma mlog_MLOG claims ty btn l L : mlog claims ty btn l L = MLOG ty btn (fst (until_claim (mP claims ty) l)) L.
Proof. reflexivity. Qed.

Lemma mouse_loop_nil hm w line col s : mouse_loop hm w line col s [] = (s, None).
Proof. reflexivity. Qed.

Section MouseMut.
  Variable claims : Z -> Z.
  Variable R0 : root.
  Variables h cls act tgt : Z.
  Variable n0 : wtree.
  Variables ty btn : Z.
  Hypothesis Hu0 : ids_unique R0.
  Hypothesis Hf0 : t_find tgt (r_tree R0) = Some n0.
  Hypothesis Hnr0 : tgt <> t_id (r_tree R0).

  Local Notation ST := (St R0 h cls act tgt).
  Local Notation EM := (emode act tgt).
  Local Notation XM := (exit_mode tgt).
  Local Notation RM := (rootm R0 tgt).
  Local Notation CL := (Cl n0).
  Local Notation HM f := (fun s c cl cc => handle_mouse f no_defects claims s c ty btn cl cc).
  Local Notation ML := (MLOG ty btn).

  Definition noclaim_m : Prop := forall x, Z.testbit (claims x) ty = false.

  Lemma noclaim_m_ex l : noclaim_m -> existsb (mP claims ty) l = false.
  Proof.
    intros Hn. induction l as [|[[x a] b] r IH]; [reflexivity|]. cbn [existsb mP]. rewrite Hn, IH. reflexivity.
  Qed.

  (* what a piece of mouse routing did; when nobody claims: nobody claimed, and the deliveries
     outside the closed subtree are those of the route X, in its order *)
  Definition mres (m' : mode) (H : list Z) (L : list iev) (X : list (Z * Z * Z)) (res : istate * option Z) : Prop :=
    exists D r, res = (ST m' H (ML D L), r) /\
                (noclaim_m -> r = None /\ restm CL D = restm CL X).

  Lemma mres_nil m H L : mres m H L [] (ST m H L, None).
  Proof. exists [], None. split; [reflexivity|]. intros _. split; reflexivity. Qed.

  Lemma mres_eq m H L X X' res : restm CL X = restm CL X' -> mres m H L X res -> mres m H L X' res.
  Proof.
    intros Hp (D & r & He & Hn). exists D, r. split; [exact He|]. intros Hnc. destruct (Hn Hnc) as (Hr & Hd).
    split; [exact Hr|]. rewrite Hd. exact Hp.
  Qed.

  Lemma mres_seq m H L X1 X2 (e1 : istate * option Z) (e2 : istate -> istate * option Z) :
    mres m H L X1 e1 -> (forall L', mres m H L' X2 (e2 (ST m H L'))) ->
    mres m H L (X1 ++ X2) (let '(s', r) := e1 in match r with Some x => (s', Some x) | None => e2 s' end).
  Proof.
    intros (D1 & r1 & -> & Hn1) H2. destruct r1 as [x|].
    - exists D1, (Some x). split; [reflexivity|]. intros Hnc. destruct (Hn1 Hnc) as (Hr & _). discriminate Hr.
    - destruct (H2 (ML D1 L)) as (D2 & r2 & -> & Hn2). exists (D1 ++ D2), r2. rewrite MLOG_app.
      split; [reflexivity|]. intros Hnc. destruct (Hn1 Hnc) as (_ & Hp1). destruct (Hn2 Hnc) as (Hr2 & Hp2).
      split; [exact Hr2|]. rewrite !restm_app, Hp1, Hp2. reflexivity.
  Qed.

  Lemma mres_exact m H L l X :
    (noclaim_m -> restm CL l = restm CL X) ->
    mres m H L X (ST m H (mlog claims ty btn l L), mclaim claims ty l).
  Proof.
    intros Hp. exists (fst (until_claim (mP claims ty) l)), (mclaim claims ty l). split; [reflexivity|].
    intros Hnc. split; [apply mclaim_none, noclaim_m_ex; exact Hnc|].
    rewrite (uc_fst_noclaim _ _ (noclaim_m_ex l Hnc)). apply Hp. exact Hnc.
  Qed.

  (* the end of a frame: the window's own handlers, then the frame's reference goes *)
  Definition mtail (claims' : Z -> Z) (w line col : Z) (res : istate * option Z) : istate * option Z :=
    let '(s1, r1) := res in
    match r1 with
    | Some x => (release s1 w, Some x)
    | None =>
      let '(s2, r2) := run_handler no_defects claims' s1 w (IMouse w ty btn line col) in
      (release s2 w, if r2 then Some w else None)
    end.

  Lemma mouse_step_tail hm s w line col :
    mouse_step hm claims s w ty btn line col =
    match look s w with
    | None => (i_faulty s, None)
    | Some wn =>
      if negb (w_vis (t_info wn)) then (s, None) else
      mtail claims w line col
        (let s := hold s w in
         let snap := kid_ids s w in
         let '(s', r) := mouse_loop hm w line col s snap in (s', r))
    end.
  Proof. reflexivity. Qed.

  Lemma ML_one D w line col L : ML (D ++ [(w, line, col)]) L = IMouse w ty btn line col :: ML D L.
  Proof. rewrite MLOG_app. reflexivity. Qed.

  (* ---- a frame that goes on after the mutation ---- *)
  Section After.
    Variable f : nat.
    Variable m : mode.
    Variable i : winfo.
    Variable ch : list wtree.
    Local Notation P := (Node i ch).
    Hypothesis Hm : m <> M0.
    Hypothesis HP : subl P (forest R0).
    Hypothesis Hmd : m = Md -> t_id P <> tgt.
    Hypothesis Hh : (height P < S f)%nat.

    Lemma mafter_look H L : look (ST m H L) (t_id P) = Some (cut tgt P).
    Proof.
      rewrite look_St.
      assert (Hfr : mem (t_id P) (freedm tgt m) = false).
      { destruct m; try reflexivity. cbn [freedm mem existsb]. specialize (Hmd eq_refl).
        destruct (tgt =? t_id P) eqn:E; [lia|reflexivity]. }
      rewrite Hfr. rewrite <- (cut_id_eq tgt P). apply f_find_unique.
      - apply (after_unique R0 tgt n0 Hu0 Hf0 Hnr0 m Hm).
      - apply (after_image R0 tgt n0 Hu0 Hf0 Hnr0 m P Hm HP Hmd).
    Qed.

    Lemma mafter_kid_ids H L : kid_ids (ST m H L) (t_id P) = map t_id (kids_remove tgt ch).
    Proof.
      unfold kid_ids. rewrite mafter_look. rewrite cut_kids, map_map.
      apply map_ext. intros c. apply cut_id_eq.
    Qed.

    Lemma mafter_parent c : In c ch -> t_id c <> tgt -> f_parent (RM m) (t_id c) = Some (t_id P).
    Proof.
      intros Hc Hne. rewrite <- (cut_id_eq tgt c), <- (cut_id_eq tgt P). apply f_parent_unique.
      - apply (after_unique R0 tgt n0 Hu0 Hf0 Hnr0 m Hm).
      - apply (after_image R0 tgt n0 Hu0 Hf0 Hnr0 m P Hm HP Hmd).
      - apply cut_kid_in; assumption.
    Qed.

    Lemma mkid_image c : In c ch -> t_id c <> tgt -> subl (cut tgt c) (forest (RM m)).
    Proof.
      intros Hc Hne. eapply subl_kid; [apply (after_image R0 tgt n0 Hu0 Hf0 Hnr0 m P Hm HP Hmd)|].
      apply cut_kid_in; assumption.
    Qed.

    Lemma mafter_look_kid c H L : In c ch -> t_id c <> tgt -> look (ST m H L) (t_id c) = Some (cut tgt c).
    Proof.
      intros Hc Hne. rewrite look_St.
      assert (Hfr : mem (t_id c) (freedm tgt m) = false).
      { destruct m; try reflexivity. cbn [freedm mem existsb]. destruct (tgt =? t_id c) eqn:E; [lia|reflexivity]. }
      rewrite Hfr. rewrite <- (cut_id_eq tgt c). apply f_find_unique.
      - apply (after_unique R0 tgt n0 Hu0 Hf0 Hnr0 m Hm).
      - apply mkid_image; assumption.
    Qed.

    Lemma mvisit_after c H L l' c' :
      In c ch -> t_id c <> tgt ->
      handle_mouse f no_defects claims (ST m H L) (t_id c) ty btn l' c' =
      (ST m H (mlog claims ty btn (mouse_order (cut tgt c) l' c') L), mclaim claims ty (mouse_order (cut tgt c) l' c')).
    Proof.
      intros Hc Hne. rewrite !(St_Gs R0 h cls act tgt m _ _ Hm). rewrite <- (cut_id_eq tgt c).
      apply handle_mouse_Gs.
      - apply (after_unique R0 tgt n0 Hu0 Hf0 Hnr0 m Hm).
      - apply mkid_image; assumption.
      - pose proof (height_cut tgt c). pose proof (height_kid c P Hc). lia.
      - apply after_clean. exact Hne.
    Qed.

    Lemma mcut_rest c l' c' : In c ch -> restm CL (mouse_order (cut tgt c) l' c') = restm CL (mouse_order c l' c').
    Proof.
      intros Hc. apply mouse_cut. intros k Hk Hid.
      apply (closed_kid R0 tgt n0 Hu0 Hf0 c k (subl_kid _ _ _ HP Hc) Hk Hid).
    Qed.

    Lemma mclosed_child c line col : In c ch -> t_id c = tgt -> restm CL (G line col c) = [].
    Proof.
      intros Hc Hid. apply restm_nil. intros x a b Hx. unfold G in Hx.
      destruct (_ || _); [|destruct Hx]. apply mouse_order_ids in Hx.
      apply (closed_kid R0 tgt n0 Hu0 Hf0 c c (subl_kid _ _ _ HP Hc) (sub_refl c) Hid). exact Hx.
    Qed.

    Lemma mloop_after line col : forall cs, incl cs ch -> forall H L,
      mres m H L (flat_map (G line col) cs)
           (mouse_loop (HM f) (t_id P) line col (ST m H L) (map t_id cs)).
    Proof.
      induction cs as [|a cs IH]; intros Hincl H L.
      { cbn [map flat_map]. rewrite mouse_loop_nil. apply mres_nil. }
      assert (Ha : In a ch) by (apply Hincl; left; reflexivity).
      assert (Hincl' : incl cs ch) by (intros x Hx; apply Hincl; right; exact Hx).
      cbn [map flat_map]. rewrite mouse_loop_cons. change (i_root (ST m H L)) with (RM m).
      destruct (Z.eq_dec (t_id a) tgt) as [He|Hne].
      - rewrite He, (after_tgt_orphan R0 tgt n0 Hu0 Hf0 Hnr0 m Hm). cbn [opt_is negb].
        apply (mres_eq m H L (flat_map (G line col) cs)); [|apply IH; exact Hincl'].
        rewrite restm_app, (mclosed_child a line col Ha He). reflexivity.
      - rewrite (mafter_parent a Ha Hne). cbn [opt_is]. rewrite Z.eqb_refl. cbn [negb].
        rewrite (mafter_look_kid a H L Ha Hne). rewrite try_child_spec, cut_steal, cut_rect.
        unfold G at 1.
        destruct (w_steal (t_info a) || cell_inb (w_rect (t_info a)) (line, col)) eqn:E; cbn [app].
        + apply (mres_seq m H L _ (flat_map (G line col) cs)
                   (handle_mouse f no_defects claims (ST m H L) (t_id a) ty btn
                      (line - top (w_rect (t_info a))) (col - left (w_rect (t_info a))))
                   (fun s' => mouse_loop (HM f) (t_id P) line col s' (map t_id cs))).
          * rewrite (mvisit_after a H L _ _ Ha Hne). apply mres_exact. intros _. apply mcut_rest. exact Ha.
          * intros L'. apply IH. exact Hincl'.
        + apply IH. exact Hincl'.
    Qed.

    Lemma mfire_after w e H : fire_mode h cls act tgt m w e H = m.
    Proof. destruct m; [contradiction| | |]; reflexivity. Qed.

    Lemma mtail_after w line col H L X res :
      mres m (w :: H) L X res ->
      mres (XM m w H) H L (X ++ [(w, line, col)]) (mtail claims w line col res).
    Proof.
      intros (D & r1 & -> & Hn). unfold mtail. destruct r1 as [x|].
      - exists D, (Some x). rewrite release_St. split; [reflexivity|].
        intros Hnc. destruct (Hn Hnc) as (Hr & _). discriminate Hr.
      - rewrite (run_handler_St claims R0 h cls act tgt n0 Hf0 Hnr0), mfire_after. cbn [ev_bit].
        rewrite release_St. exists (D ++ [(w, line, col)]), (if Z.testbit (claims w) ty then Some w else None).
        rewrite ML_one. split; [reflexivity|]. intros Hnc. destruct (Hn Hnc) as (_ & Hp).
        rewrite (Hnc w). split; [reflexivity|]. rewrite !restm_app, Hp. reflexivity.
    Qed.
  End After.

  (* ---- before the mutation ---- *)
  Definition hit (e : Z * Z * Z) : bool := fst (fst e) =? h.
  Definition mfires (l : list (Z * Z * Z)) : bool :=
    (1 =? cls) && existsb hit (fst (until_claim (mP claims ty) l)).

  Lemma mfires_nil : mfires [] = false.
  Proof. unfold mfires. cbn [until_claim fst existsb]. apply andb_false_r. Qed.

  Lemma mfires_app_t l1 l2 : existsb (mP claims ty) l1 = true -> mfires (l1 ++ l2) = mfires l1.
  Proof. intros He. unfold mfires. rewrite uc_fst_app, He. reflexivity. Qed.

  Lemma mfires_app_f l1 l2 : existsb (mP claims ty) l1 = false -> mfires (l1 ++ l2) = mfires l1 || mfires l2.
  Proof.
    intros He. unfold mfires. rewrite uc_fst_app, He, (uc_fst_noclaim _ _ He), existsb_app.
    destruct (1 =? cls); reflexivity.
  Qed.

  Lemma mfires_prefix l1 l2 : mfires l1 = true -> mfires (l1 ++ l2) = true.
  Proof.
    intros Hf. destruct (existsb (mP claims ty) l1) eqn:E.
    - rewrite mfires_app_t by exact E. exact Hf.
    - rewrite mfires_app_f by exact E. rewrite Hf. reflexivity.
  Qed.

  Lemma mfires_one w line col : mfires [(w, line, col)] = (w =? h) && (1 =? cls).
  Proof.
    unfold mfires. cbn [until_claim mP]. destruct (Z.testbit (claims w) ty); cbn [fst existsb hit];
      rewrite orb_false_r; apply andb_comm.
  Qed.

  Lemma mres_shift m H L l X0 X res :
    (noclaim_m -> restm CL l = restm CL X0) ->
    mres m H (mlog claims ty btn l L) X res -> mres m H L (X0 ++ X) res.
  Proof.
    intros Hp (D & r & -> & Hn). exists (fst (until_claim (mP claims ty) l) ++ D), r.
    rewrite MLOG_app, <- mlog_MLOG. split; [reflexivity|].
    intros Hnc. destruct (Hn Hnc) as (Hr & Hd). split; [exact Hr|].
    rewrite (uc_fst_noclaim _ _ (noclaim_m_ex l Hnc)). rewrite !restm_app, (Hp Hnc), Hd. reflexivity.
  Qed.

  Definition mouse_res (f : nat) (n : wtree) : Prop :=
    forall line col H L,
      if mfires (mouse_order n line col)
      then mres (EM H) H L (mouse_order n line col)
                (handle_mouse f no_defects claims (ST M0 H L) (t_id n) ty btn line col)
      else handle_mouse f no_defects claims (ST M0 H L) (t_id n) ty btn line col =
           (ST M0 H (mlog claims ty btn (mouse_order n line col) L), mclaim claims ty (mouse_order n line col)).

  Lemma mloop_M0 f i ch w H line col :
    w = t_id (Node i ch) ->
    subl (Node i ch) (forest R0) -> (height (Node i ch) < S f)%nat ->
    (forall c, In c ch -> mouse_res f c) ->
    forall cs, incl cs ch -> forall L,
    if mfires (flat_map (G line col) cs)
    then mres (EM (w :: H)) (w :: H) L (flat_map (G line col) cs)
              (mouse_loop (HM f) w line col (ST M0 (w :: H) L) (map t_id cs))
    else mouse_loop (HM f) w line col (ST M0 (w :: H) L) (map t_id cs) =
         (ST M0 (w :: H) (mlog claims ty btn (flat_map (G line col) cs) L),
          mclaim claims ty (flat_map (G line col) cs)).
  Proof.
    intros Hw HP Hh Hok. subst w. set (w := t_id (Node i ch)) in *.
    assert (Hm1 : EM (w :: H) <> M0) by apply emode_not_M0.
    assert (Hmd : EM (w :: H) = Md -> t_id (Node i ch) <> tgt).
    { intros He Ht. subst w. rewrite Ht in He. exact (emode_Md_self act tgt H He). }
    induction cs as [|a cs IH]; intros Hincl L.
    { cbn [map flat_map]. rewrite mfires_nil, mouse_loop_nil. reflexivity. }
    assert (Ha : In a ch) by (apply Hincl; left; reflexivity).
    assert (Hincl' : incl cs ch) by (intros x Hx; apply Hincl; right; exact Hx).
    specialize (IH Hincl').
    cbn [map flat_map]. rewrite mouse_loop_cons. change (i_root (ST M0 (w :: H) L)) with R0.
    rewrite (f_parent_unique R0 (Node i ch) a Hu0 HP Ha). cbn [opt_is]. fold w. rewrite Z.eqb_refl. cbn [negb].
    rewrite look_St. cbn [freedm mem existsb rootm].
    rewrite (f_find_unique R0 a Hu0 (subl_kid _ _ _ HP Ha)).
    rewrite try_child_spec.
    assert (HG : G line col a = if w_steal (t_info a) || cell_inb (w_rect (t_info a)) (line, col)
                                then mouse_order a (line - top (w_rect (t_info a))) (col - left (w_rect (t_info a)))
                                else []) by reflexivity.
    rewrite HG. clear HG.
    destruct (w_steal (t_info a) || cell_inb (w_rect (t_info a)) (line, col)) eqn:E; cbn [app]; [|apply IH].
    set (ro := mouse_order a (line - top (w_rect (t_info a))) (col - left (w_rect (t_info a)))).
    specialize (Hok a Ha (line - top (w_rect (t_info a))) (col - left (w_rect (t_info a))) (w :: H) L).
    fold ro in Hok.
    destruct (mfires ro) eqn:Efa.
    - rewrite mfires_prefix by exact Efa.
      apply (mres_seq (EM (w :: H)) (w :: H) L ro (flat_map (G line col) cs)
               (handle_mouse f no_defects claims (ST M0 (w :: H) L) (t_id a) ty btn
                  (line - top (w_rect (t_info a))) (col - left (w_rect (t_info a))))
               (fun s' => mouse_loop (HM f) w line col s' (map t_id cs))); [exact Hok|].
      intros L'.
      apply (mloop_after f (EM (w :: H)) i ch Hm1 HP Hmd Hh line col cs Hincl' (t_id (Node i ch) :: H) L').
    - rewrite Hok. destruct (existsb (mP claims ty) ro) eqn:Ea.
      + rewrite mfires_app_t by exact Ea. rewrite Efa.
        destruct (mclaim_some _ _ _ Ea) as (x & lc & cc & Hx & _ & _). rewrite Hx.
        rewrite mclaim_app, Ea, Hx. rewrite mlog_app_t by exact Ea. reflexivity.
      + rewrite mfires_app_f by exact Ea. rewrite Efa. cbn [orb].
        rewrite (mclaim_none _ _ _ Ea).
        specialize (IH (mlog claims ty btn ro L)).
        destruct (mfires (flat_map (G line col) cs)).
        * apply (mres_shift _ _ L ro ro); [intros _; reflexivity|exact IH].
        * rewrite IH. rewrite mclaim_app, Ea. rewrite mlog_app_f by exact Ea. reflexivity.
  Qed.

  Theorem mut_mouse_gen : forall fuel n,
    subl n (forest R0) -> (height n < fuel)%nat -> mouse_res fuel n.
  Proof.
    induction fuel as [|f IHf]; intros n HP Hh line col H L; [lia|].
    assert (Hfind : f_find R0 (t_id n) = Some n) by (apply f_find_unique; assumption).
    assert (Hkids : forall c, In c (t_kids n) -> mouse_res f c).
    { intros c Hc. apply IHf.
      - eapply subl_kid; eassumption.
      - apply height_kid in Hc. lia. }
    destruct n as [i ch]. cbn [t_kids] in Hkids.
    set (w := t_id (Node i ch)) in *.
    assert (Hm1 : EM (w :: H) <> M0) by apply emode_not_M0.
    assert (Hmd : EM (w :: H) = Md -> t_id (Node i ch) <> tgt).
    { intros He Ht. fold w in Ht. rewrite Ht in He. exact (emode_Md_self act tgt H He). }
    assert (Hex : XM (EM (w :: H)) w H = EM H) by apply exit_emode.
    pose proof (mloop_M0 f i ch w H line col eq_refl HP Hh Hkids ch (incl_refl ch) L) as Hloop.
    rewrite handle_mouse_S, mouse_step_tail. rewrite look_St. cbn [freedm mem existsb rootm]. rewrite Hfind.
    cbn [t_info]. rewrite mouse_order_eq. change (w_id i) with w. fold (G line col).
    destruct (w_vis i) eqn:Ev; cbn [negb].
    2:{ rewrite mfires_nil. reflexivity. }
    rewrite hold_St. cbv zeta. unfold kid_ids. rewrite look_St. cbn [freedm mem existsb rootm]. rewrite Hfind.
    cbn [t_kids].
    set (K := flat_map (G line col) ch) in *.
    destruct (mfires K) eqn:EfK.
    - (* the mutation happened inside a child *)
      rewrite mfires_prefix by exact EfK. rewrite <- Hex.
      apply (mtail_after (EM (w :: H)) i ch Hm1 Hmd w line col H L K).
      destruct Hloop as (D & r & He & Hn). exists D, r. split; [|exact Hn].
      rewrite He. reflexivity.
    - rewrite Hloop. unfold mtail.
      destruct (existsb (mP claims ty) K) eqn:EK.
      + rewrite mfires_app_t by exact EK. rewrite EfK.
        destruct (mclaim_some _ _ _ EK) as (x & lc & cc & Hx & _ & _). rewrite Hx.
        rewrite release_St. rewrite mclaim_app, EK, Hx. rewrite mlog_app_t by exact EK. reflexivity.
      + rewrite (mclaim_none _ _ _ EK).
        rewrite (run_handler_St claims R0 h cls act tgt n0 Hf0 Hnr0). cbn [fire_mode ev_class ev_bit].
        rewrite mfires_app_f by exact EK. rewrite EfK, mfires_one. cbn [orb].
        rewrite release_St.
        destruct ((w =? h) && (1 =? cls)) eqn:Eown.
        * (* the window's own handler mutates *)
          rewrite Hex.
          exists (fst (until_claim (mP claims ty) K) ++ [(w, line, col)]), (if Z.testbit (claims w) ty then Some w else None).
          rewrite ML_one, <- mlog_MLOG. split; [reflexivity|].
          intros Hnc. rewrite (Hnc w). split; [reflexivity|].
          rewrite (uc_fst_noclaim _ _ EK). reflexivity.
        * cbn [exit_mode]. rewrite mclaim_app, EK. rewrite mlog_app_f by exact EK.
          rewrite mlog_one, mclaim_one. reflexivity.
  Qed.
End MouseMut.

(* ==================================================================================== *)
(* The theorem for one mouse routing                                                     *)

(* does the scripted mutation run while the event is routed from wn at (line, col)? *)
Definition mouse_fired (claims : Z -> Z) (h cls ty : Z) (wn : wtree) (line col : Z) : bool :=
  (1 =? cls) &&
  existsb (fun e => fst (fst e) =? h)
          (fst (until_claim (fun e => match e with (w, _, _) => Z.testbit (claims w) ty end)
                            (mouse_order wn line col))).

(* C14, mouse, one mutation of ANY non-root window tgt by the handler of ANY window h: routing
   a mouse event from any window w never reads a freed window, gives back every reference,
   leaves nothing pending, frees at most tgt; until the mutation runs the deliveries are
   exactly those of the order; and when nobody claims, the deliveries outside the closed
   subtree are those of the unmutated order, in that order. *)
Theorem C14_mutation_mouse fuel claims s w wn h cls act tgt n0 ty btn line col s' r :
  i_armed s = [(h, (cls, act, tgt))] -> i_freed s = [] -> i_pending s = [] -> i_fault s = false ->
  mem tgt (i_holds s) = false ->
  ids_unique (i_root s) ->
  t_find tgt (r_tree (i_root s)) = Some n0 -> tgt <> t_id (r_tree (i_root s)) ->
  look s w = Some wn -> (height wn < fuel)%nat ->
  handle_mouse fuel no_defects claims s w ty btn line col = (s', r) ->
  i_fault s' = false /\ i_pending s' = [] /\ i_holds s' = i_holds s /\
  (mouse_fired claims h cls ty wn line col = false ->
     i_root s' = i_root s /\ i_armed s' = i_armed s /\ i_freed s' = [] /\
     i_log s' = rev (fst (mouse_phase claims (mouse_order wn line col) ty btn)) ++ i_log s /\
     r = snd (mouse_phase claims (mouse_order wn line col) ty btn)) /\
  (mouse_fired claims h cls ty wn line col = true ->
     i_root s' = root_after (i_root s) act tgt /\ i_armed s' = [] /\
     i_freed s' = (if act =? 2 then [tgt] else [])) /\
  exists D, i_log s' = rev (map (mk_ev ty btn) D) ++ i_log s /\
    ((forall x, Z.testbit (claims x) ty = false) ->
       r = None /\
       restm (t_ids n0) D = restm (t_ids n0) (mouse_order wn line col) /\
       (i_log s = [] ->
        c14_rest_checkb (t_ids n0) (fst (mouse_phase claims (mouse_order wn line col) ty btn)) (rev (i_log s')) = true /\
        c14_rest_set_checkb (t_ids n0) (fst (mouse_phase claims (mouse_order wn line col) ty btn)) (rev (i_log s')) = true)).
Proof.
  intros Ha Hfr Hpe Hfa Hho Hu Hf Hnr Hl Hh Hrun.
  destruct s as [R0 fr H pe ar L fa]. cbn [i_armed i_freed i_pending i_fault i_root i_log i_holds] in *. subst fr pe fa ar.
  change (mkI R0 [] H [] [(h, (cls, act, tgt))] L false) with (St R0 h cls act tgt M0 H L) in Hrun, Hl.
  rewrite look_St in Hl. cbn [freedm mem existsb rootm] in Hl.
  apply f_find_sub in Hl. destruct Hl as (Hs & Hid). subst w.
  pose proof (mut_mouse_gen claims R0 h cls act tgt n0 ty btn Hu Hf Hnr fuel wn Hs Hh line col H L) as Hres.
  assert (Hkf : mouse_fired claims h cls ty wn line col = mfires claims h cls ty (mouse_order wn line col)) by reflexivity.
  rewrite Hkf.
  assert (Hem : emode act tgt H = if act =? 2 then Md else Mc).
  { unfold emode. rewrite Hho. reflexivity. }
  assert (Hchecks : forall D, restm (t_ids n0) D = restm (t_ids n0) (mouse_order wn line col) ->
            noclaim_m claims ty ->
            c14_rest_checkb (t_ids n0) (fst (mouse_phase claims (mouse_order wn line col) ty btn)) (map (mk_ev ty btn) D) = true /\
            c14_rest_set_checkb (t_ids n0) (fst (mouse_phase claims (mouse_order wn line col) ty btn)) (map (mk_ev ty btn) D) = true).
  { intros D HD Hnc. rewrite mouse_phase_eq. cbn [fst].
    rewrite (uc_fst_noclaim _ _ (noclaim_m_ex claims ty (mouse_order wn line col) Hnc)).
    split.
    - unfold c14_rest_checkb. rewrite !filter_map_mk_ev, HD. apply ievs_eqb_refl.
    - apply c14_set_of_perm. rewrite !filter_map_mk_ev, HD. apply Permutation_refl. }
  destruct (mfires claims h cls ty (mouse_order wn line col)) eqn:Ef.
  - destruct Hres as (D & r0 & He & Hn). rewrite Hrun in He. inversion He; subst s' r0. clear He.
    rewrite Hem.
    split; [destruct (act =? 2); reflexivity|]. split; [destruct (act =? 2); reflexivity|].
    split; [destruct (act =? 2); reflexivity|]. split; [intros Hx; discriminate Hx|].
    split.
    { intros _. unfold root_after. destruct (act =? 2); repeat split. }
    exists D. split; [destruct (act =? 2); reflexivity|].
    intros Hnc. destruct (Hn Hnc) as (Hr & Hp). split; [exact Hr|]. split; [exact Hp|].
    intros HL. subst L.
    assert (Hlog : rev (i_log (St R0 h cls act tgt (if act =? 2 then Md else Mc) H (MLOG ty btn D []))) = map (mk_ev ty btn) D).
    { destruct (act =? 2); cbn [St i_log]; unfold MLOG; rewrite app_nil_r; apply rev_involutive. }
    rewrite Hlog. apply Hchecks; assumption.
  - rewrite Hrun in Hres. inversion Hres; subst s' r. clear Hres.
    cbn [St i_fault i_pending i_holds i_root i_armed i_freed i_log rootm freedm pendm armm].
    split; [reflexivity|]. split; [reflexivity|]. split; [reflexivity|].
    split.
    { intros _. split; [reflexivity|]. split; [reflexivity|]. split; [reflexivity|].
      split; [apply mlog_spec|apply mclaim_spec]. }
    split; [intros Hx; discriminate Hx|].
    exists (fst (until_claim (mP claims ty) (mouse_order wn line col))). split; [reflexivity|].
    intros Hnc. split; [apply mclaim_none, noclaim_m_ex; exact Hnc|].
    rewrite (uc_fst_noclaim _ _ (noclaim_m_ex claims ty (mouse_order wn line col) Hnc)).
    split; [reflexivity|]. intros HL. subst L.
    unfold mlog. rewrite app_nil_r, rev_involutive.
    rewrite (uc_fst_noclaim _ _ (noclaim_m_ex claims ty (mouse_order wn line col) Hnc)).
    apply Hchecks; [reflexivity|exact Hnc].
Qed.
