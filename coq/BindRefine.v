(* BindRefine.v -- C16_refines: every completed run of the tombstone implementation
   (BindDefs.exec, fixed code) is matched, event for event, by a run of the tombstone-free
   immediate-removal machine of BindAbs.v; the lists agree up to the tombstones. *)
From Coq Require Import ZArith List Bool Lia Sorted.
From Tickit Require Import BindDefs BindSpec BindInv BindMon BindProofs BindAbs.
Import ListNotations.
Local Open Scope Z_scope.

Record R2 (w : world) (aw : aworld) : Prop := mkR2 {
  q_inv : SInv (wn w) (ws w);
  q_al : al aw = filter live (first (ws w));
  q_n : an aw = wn w;
  q_tr : atr aw = wt w;
  q_pos : 0 < wn w }.

(* the concrete cursor (a node) and the abstract cursor (a name) agree on who is still to
   be visited among the live bindings *)
Definition CurRel (cur lo : option Z) (l : list binding) : Prop :=
  forall b, In b l -> live b = true ->
    (match lo with None => True | Some x => x < b_data b end <-> exists d, cur = Some d /\ d <= b_data b).

Definition ok_act (w : world) (a : action) : Prop :=
  top_ok a /\ (a = ADestroy -> is_iter (ws w) = false).

(* ------------------------------------------------------------ list facts *)
Lemma rbind_ok : forall (A B : Type) (r : res A) (k : A -> res B) x,
  rbind r k = Ok x -> exists a, r = Ok a /\ k a = Ok x.
Proof. intros A B [a| |] k x H; cbn [rbind] in H; try discriminate. eauto. Qed.

Lemma find_all_false : forall (A : Type) (P : A -> bool) l, (forall x, In x l -> P x = false) -> find P l = None.
Proof.
  induction l as [|a l IH]; intros H; [reflexivity|]. cbn [find]. rewrite (H a) by (cbn; auto).
  apply IH; intros; apply H; cbn; auto.
Qed.

Lemma find_sorted_first : forall (P : binding -> bool) l b,
  In b l -> P b = true -> (forall x, In x l -> b_data x < b_data b -> P x = false) ->
  StronglySorted Z.lt (names l) -> find P l = Some b.
Proof.
  induction l as [|a l IH]; intros b Hin HP Hbefore Hs; [destruct Hin|].
  cbn [names map] in Hs. inversion Hs as [|? ? Hs' Hf]; subst. rewrite Forall_forall in Hf. cbn [find].
  destruct Hin as [->|Hin]; [rewrite HP; reflexivity|].
  assert (Hlt : b_data a < b_data b) by (apply Hf; apply in_map; exact Hin).
  rewrite (Hbefore a) by (cbn; auto). apply IH; auto. intros x Hx; apply Hbefore; cbn; auto.
Qed.

Lemma names_filter_sorted : forall l, StronglySorted Z.lt (names l) -> StronglySorted Z.lt (names (filter live l)).
Proof.
  induction l as [|b l IH]; cbn [filter names map]; intros H; [constructor|].
  inversion H as [|? ? Hs Hf]; subst. destruct (live b); [|apply IH; exact Hs].
  cbn [names map]. constructor; [apply IH; exact Hs|]. rewrite Forall_forall in *. intros x Hx.
  apply in_map_iff in Hx. destruct Hx as (y & <- & Hy). apply filter_In in Hy. destruct Hy. apply Hf. apply in_map; auto.
Qed.

Lemma anext_at_cursor : forall d lo l b,
  StronglySorted Z.lt (names l) -> CurRel (Some d) lo l -> find_node d l = Some b -> live b = true ->
  anext lo (filter live l) = Some b.
Proof.
  intros d lo l b Hs Hc Hf Lv. destruct (find_node_some _ _ _ Hf) as (Hin & Hd). unfold anext.
  apply find_sorted_first.
  - apply filter_In; auto.
  - destruct (Hc b Hin Lv) as (_ & H2). specialize (H2 (ex_intro _ d (conj eq_refl (Z.eq_le_incl _ _ (eq_sym Hd))))).
    destruct lo; [apply Z.ltb_lt; exact H2|reflexivity].
  - intros x Hx Hlt. apply filter_In in Hx. destruct Hx as (Hx & Lx).
    destruct (Hc x Hx Lx) as (H1 & _). destruct lo as [z|].
    + apply Z.ltb_ge. destruct (Z.lt_ge_cases z (b_data x)) as [Hz|Hz]; [|lia].
      destruct (H1 Hz) as (d' & Hd' & Hle). injection Hd' as <-. lia.
    + destruct (H1 I) as (d' & Hd' & Hle). injection Hd' as <-. lia.
  - apply names_filter_sorted; exact Hs.
Qed.

Lemma anext_none : forall lo l, CurRel None lo l -> anext lo (filter live l) = None.
Proof.
  intros lo l Hc. unfold anext. apply find_all_false. intros x Hx. apply filter_In in Hx. destruct Hx as (Hx & Lx).
  destruct (Hc x Hx Lx) as (H1 & _). destruct lo as [z|].
  - apply Z.ltb_ge. destruct (Z.lt_ge_cases z (b_data x)) as [Hz|Hz]; [|lia].
    destruct (H1 Hz) as (d' & Hd' & _). discriminate.
  - destruct (H1 I) as (d' & Hd' & _). discriminate.
Qed.

Lemma currel_next : forall d l nx, StronglySorted Z.lt (names l) -> next_of d l = Some nx ->
  CurRel nx (Some d) l.
Proof.
  intros d l nx Hs Hn b Hb Lv. destruct (next_of_sorted _ _ _ Hs Hn) as (_ & H).
  assert (Hbn : In (b_data b) (names l)) by (apply in_map; exact Hb).
  destruct nx as [e|].
  - destruct H as (_ & Hlt & Hmin). split.
    + intros Hd. exists e; split; [reflexivity|apply Hmin; auto].
    + intros (d' & Hd' & Hle). injection Hd' as <-. lia.
  - split.
    + intros Hd. specialize (H _ Hbn). lia.
    + intros (d' & Hd' & _). discriminate.
Qed.

(* stepping over a node that is not live, or that the abstract machine has just passed *)
Lemma currel_skip_dead : forall d lo l b nx, StronglySorted Z.lt (names l) ->
  CurRel (Some d) lo l -> find_node d l = Some b -> live b = false -> next_of d l = Some nx ->
  CurRel nx lo l.
Proof.
  intros d lo l b nx Hs Hc Hf Lv Hn x Hx Lx. destruct (find_node_some _ _ _ Hf) as (Hin & Hd).
  destruct (Hc x Hx Lx) as (H1 & H2). pose proof (currel_next _ _ _ Hs Hn) as Hcn.
  destruct (Hcn x Hx Lx) as (H3 & H4).
  assert (Hne : b_data x <> d).
  { intros He. assert (x = b) by (eapply names_unique; eauto; congruence). congruence. }
  split.
  - intros Hlo. destruct (H1 Hlo) as (d' & Hd' & Hle). injection Hd' as <-. apply H3. lia.
  - intros Hex. apply H2. exists d; split; [reflexivity|]. specialize (H4 Hex). lia.
Qed.

Lemma currel_head : forall l, StronglySorted Z.lt (names l) -> CurRel (head_name l) None l.
Proof.
  intros l Hs b Hb Lv. pose proof (head_name_sorted _ Hs) as H. split; [|auto]. intros _.
  destruct (head_name l) as [e|].
  - destruct H as (_ & Hmin). exists e; split; [reflexivity|]. apply Hmin. apply in_map; exact Hb.
  - subst l. destruct Hb.
Qed.

Lemma max_id_filter_aux : forall l m0, 0 <= m0 ->
  fold_left (fun m b => if b_id b >? m then b_id b else m) (filter live l) m0 =
  fold_left (fun m b => if b_id b >? m then b_id b else m) l m0.
Proof.
  induction l as [|b l IH]; intros m0 H0; [reflexivity|]. cbn [filter]. destruct (live b) eqn:Lv.
  - cbn [fold_left]. apply IH. destruct (b_id b >? m0) eqn:E; [apply Z.gtb_lt in E; lia|exact H0].
  - cbn [fold_left]. unfold live, TOMBSTONE_ID in Lv. apply negb_false_iff, Z.eqb_eq in Lv.
    rewrite Lv. assert (E : (-1 >? m0) = false) by (rewrite Z.gtb_ltb; apply Z.ltb_ge; lia).
    rewrite E. apply IH; exact H0.
Qed.

Lemma max_id_filter : forall l, max_id (filter live l) = max_id l.
Proof. intros; unfold max_id; apply max_id_filter_aux; lia. Qed.

Lemma aremove_absent : forall d l, (forall b, In b l -> b_data b <> d) -> aremove d l = l.
Proof.
  induction l as [|b l IH]; intros H; [reflexivity|]. unfold aremove; cbn [filter].
  destruct (b_data b =? d) eqn:E; [apply Z.eqb_eq in E; exfalso; apply (H b); cbn; auto|].
  cbn [negb]. f_equal. apply IH. intros; apply H; cbn; auto.
Qed.

Lemma find_id_filter : forall n id l, Forall (node_ok n) l ->
  match find (fun b => b_id b =? id) l with
  | None => find (fun b => b_id b =? id) (filter live l) = None
  | Some b => In b l /\ (if live b then find (fun b => b_id b =? id) (filter live l) = Some b
                         else find (fun b => b_id b =? id) (filter live l) = None)
  end.
Proof.
  intros n id; induction l as [|b l IH]; intros Hn; [reflexivity|].
  inversion Hn as [|? ? Hb Hl]; subst. specialize (IH Hl). cbn [find filter].
  destruct (b_id b =? id) eqn:E.
  - split; [cbn; auto|]. destruct (live b) eqn:Lv.
    + cbn [find]. rewrite E; reflexivity.
    + apply Z.eqb_eq in E. unfold live in Lv. apply negb_false_iff, Z.eqb_eq in Lv.
      apply find_all_false. intros x Hx. apply filter_In in Hx. destruct Hx as (Hx & Lx).
      rewrite Forall_forall in Hl. destruct (Hl _ Hx) as (_ & Hpos & _). specialize (Hpos Lx).
      apply Z.eqb_neq. unfold TOMBSTONE_ID in *. lia.
  - destruct (live b) eqn:Lv.
    + cbn [find]. rewrite E.
      destruct (find (fun b0 => b_id b0 =? id) l); [|exact IH]. destruct IH; split; [cbn; auto|auto].
    + destruct (find (fun b0 => b_id b0 =? id) l); [|exact IH]. destruct IH; split; [cbn; auto|auto].
Qed.

Lemma filter_live_end_iteration : forall was s,
  filter live (first (end_iteration was s)) = filter live (first s).
Proof.
  intros was s; unfold end_iteration; cbn [needs_del].
  destruct (negb was && needs_del s); [rewrite cleanup_first, filter_live_idem|]; reflexivity.
Qed.

Lemma all_live_filter : forall l, forallb live l = true -> filter live l = l.
Proof. intros l H. apply filter_all. apply forallb_forall. exact H. Qed.

(* popping the last node of a tombstone-free list keeps the invariant *)
Lemma SInv_pop : forall n s, SInv n s -> is_iter s = false ->
  SInv n (mkS (removelast (first s)) (is_iter s) (needs_del s)) /\ forallb live (first s) = true.
Proof.
  intros n s Hinv Hit. pose proof (si_del _ _ Hinv (si_iter _ _ Hinv Hit)) as Hall. split; [|exact Hall].
  destruct (first s) as [|b0 l0] eqn:El.
  - cbn [removelast]. constructor; cbn [first is_iter needs_del]; try constructor; auto. apply (si_iter _ _ Hinv).
  - assert (Hne : first s <> []) by (rewrite El; discriminate). rewrite <- El in *.
    set (b := last (first s) (mkB 0 0 0 None 0)). set (l' := removelast (first s)).
    assert (Hl : first s = l' ++ [b]) by (apply app_removelast_last; exact Hne).
    rewrite Hl, forallb_app in Hall. apply andb_true_iff in Hall. destruct Hall as (Hall' & Hlb).
    cbn [forallb] in Hlb. rewrite andb_true_r in Hlb.
    pose proof (si_nodes _ _ Hinv) as Hnodes. rewrite Hl in Hnodes. apply Forall_app in Hnodes. destruct Hnodes as (Hnodes' & _).
    pose proof (si_sorted _ _ Hinv) as Hsorted. rewrite Hl in Hsorted. unfold names in Hsorted.
    rewrite map_app in Hsorted. apply sorted_app_inv in Hsorted. destruct Hsorted as (Hsorted' & _ & _).
    constructor; cbn [first is_iter needs_del]; auto.
    + pose proof (si_ids _ _ Hinv) as Hids. rewrite Hl, filter_app, map_app in Hids.
      cbn [filter] in Hids. rewrite Hlb in Hids. cbn [map] in Hids.
      apply NoDup_remove_1 in Hids. rewrite app_nil_r in Hids. exact Hids.
    + apply (si_iter _ _ Hinv).
Qed.

Lemma filter_live_cons : forall b l, live b = true -> filter live (b :: l) = b :: filter live l.
Proof. intros b l H; cbn [filter]; rewrite H; reflexivity. Qed.

Lemma filter_live_snoc : forall b l, live b = true -> filter live (l ++ [b]) = filter live l ++ [b].
Proof. intros b l H; rewrite filter_app; cbn [filter]; rewrite H; reflexivity. Qed.

Section Refine.
Variable env : env_t.
Hypothesis Henv : env_ok env.

Definition TaskRel (t : task) (a : atask) (w : world) : Prop :=
  match t, a with
  | KCall fn n f, ACall fn' n' f' => fn = fn' /\ n = n' /\ f = f'
  | KActs x, AActs y => x = y
  | KAct x, AAct y => x = y
  | KLoop wf ev cur, ALoop wf' ev' lo => wf = wf' /\ ev = ev' /\ CurRel cur lo (first (ws w))
  | KDestroy, ADestroyLoop => True
  | _, _ => False
  end.

Definition PreR (t : task) (w : world) : Prop :=
  match t with
  | KCall _ _ _ => True
  | KActs acts => Forall (ok_act w) acts
  | KAct a => ok_act w a
  | KLoop _ _ _ => is_iter (ws w) = true
  | KDestroy => is_iter (ws w) = false
  end.

Definition Refines (fuel : nat) : Prop :=
  forall t w w' r, exec fixed env fuel t w = Ok (w', r) ->
  forall aw, R2 w aw -> PreR t w ->
  is_iter (ws w') = is_iter (ws w) /\
  forall a, TaskRel t a w -> exists aw', aeval env a aw aw' r /\ R2 w' aw'.

Lemma ok_act_iter : forall w w' a, is_iter (ws w') = is_iter (ws w) -> ok_act w a -> ok_act w' a.
Proof. intros w w' a Hi (H1 & H2); split; auto. intros E; rewrite Hi; auto. Qed.

Lemma ref_acts : forall f, Refines f -> forall acts w w' r,
  exec fixed env (S f) (KActs acts) w = Ok (w', r) ->
  forall aw, R2 w aw -> PreR (KActs acts) w ->
  is_iter (ws w') = is_iter (ws w) /\
  forall a, TaskRel (KActs acts) a w -> exists aw', aeval env a aw aw' r /\ R2 w' aw'.
Proof.
  intros f IH acts w w' r Hex aw HR Hpre. rewrite exec_S in Hex. destruct acts as [|a rest].
  - injection Hex as <- <-. split; [reflexivity|]. intros [ | | | | ] Ht; cbn [TaskRel] in Ht; try contradiction.
    subst. exists aw; split; [constructor|exact HR].
  - apply rbind_ok in Hex. destruct Hex as ((w1 & r1) & H1 & H2).
    cbn [PreR] in Hpre. inversion Hpre as [|? ? Ha Hrest]; subst.
    destruct (IH _ _ _ _ H1 aw HR Ha) as (Hi1 & Hsim1).
    destruct (Hsim1 (AAct a) eq_refl) as (aw1 & Hev1 & HR1).
    assert (Hrest1 : PreR (KActs rest) w1).
    { cbn [PreR]. eapply Forall_impl; [|exact Hrest]. intros x; apply ok_act_iter; exact Hi1. }
    destruct (IH _ _ _ _ H2 aw1 HR1 Hrest1) as (Hi2 & Hsim2).
    split; [congruence|]. intros [ | | | | ] Ht; cbn [TaskRel] in Ht; try contradiction. subst.
    destruct (Hsim2 (AActs rest) eq_refl) as (aw2 & Hev2 & HR2).
    exists aw2; split; [econstructor; eauto|exact HR2].
Qed.

Lemma ref_call : forall f, Refines f -> forall fn name flags w w' r,
  exec fixed env (S f) (KCall fn name flags) w = Ok (w', r) ->
  forall aw, R2 w aw -> PreR (KCall fn name flags) w ->
  is_iter (ws w') = is_iter (ws w) /\
  forall a, TaskRel (KCall fn name flags) a w -> exists aw', aeval env a aw aw' r /\ R2 w' aw'.
Proof.
  intros f IH fn name flags w w' r Hex aw HR _. rewrite exec_S in Hex.
  destruct fn as [hid|]; [|discriminate].
  pose proof (Henv (wt w) hid name flags) as Hacts.
  destruct (env (wt w) hid name flags) as [acts ret] eqn:Eenv; cbn [fst] in Hacts.
  apply rbind_ok in Hex. destruct Hex as ((w1 & r1) & H1 & H2). injection H2 as <- <-.
  assert (Hpre : PreR (KActs acts) w).
  { cbn [PreR]. eapply Forall_impl; [|exact Hacts]. intros a (Ht & Hd); split; auto. intros; contradiction. }
  destruct (IH _ _ _ _ H1 aw HR Hpre) as (Hi1 & Hsim1).
  split; [exact Hi1|]. intros [fn' n' f'| | | | ] Ht; cbn [TaskRel] in Ht; try contradiction.
  destruct Ht as (<- & <- & <-).
  destruct (Hsim1 (AActs acts) eq_refl) as (aw1 & Hev1 & HR1).
  exists (alog (TCallE ret) aw1). split.
  - econstructor; [|exact Hev1]. rewrite (q_tr _ _ HR). exact Eenv.
  - destruct HR1 as [A B C D E]. constructor; cbn [log alog ws wn wt al an atr]; auto. congruence.
Qed.

Lemma ref_bind : forall f ev flags hid w w' r,
  exec fixed env (S f) (KAct (ABind ev flags hid)) w = Ok (w', r) ->
  forall aw, R2 w aw ->
  is_iter (ws w') = is_iter (ws w) /\
  forall a, TaskRel (KAct (ABind ev flags hid)) a w -> exists aw', aeval env a aw aw' r /\ R2 w' aw'.
Proof.
  intros f ev flags hid w w' r Hex aw HR. cbn [exec] in Hex. unfold bind_event in Hex. injection Hex as <- <-.
  split; [reflexivity|]. intros [ | |a| | ] Ht; cbn [TaskRel] in Ht; try contradiction. subst a.
  destruct HR as [Hinv Hal Hn Htr Hpos].
  replace (max_id (first (ws w)) + 1) with (max_id (al aw) + 1) by (rewrite Hal, max_id_filter; reflexivity).
  eexists. split; [apply ae_bind|].
  pose proof (SInv_bind (wn w) (ws w) ev flags hid Hinv Hpos) as Hinv'. unfold bind_event in Hinv'. cbn [fst] in Hinv'.
  constructor; cbn [ws wn wt al an atr first].
  - rewrite Hal, max_id_filter. exact Hinv'.
  - rewrite Hal, max_id_filter, Hn.
    destruct (has flags BIND_FIRST).
    + symmetry. apply filter_live_cons. apply live_new.
    + symmetry. apply filter_live_snoc. apply live_new.
  - rewrite Hn; reflexivity.
  - rewrite Hal, max_id_filter, Hn, Htr. reflexivity.
  - lia.
Qed.

Lemma r2_log : forall w aw e, R2 w aw -> R2 (log e w) (alog e aw).
Proof. intros w aw e [A B C D E]; constructor; cbn [log alog ws wn wt al an atr]; auto; congruence. Qed.

Lemma r2_tomb : forall w aw d, R2 w aw ->
  R2 (set_state (mkS (update_node d tombstone (first (ws w))) true true) w) (aset (aremove d (al aw)) aw).
Proof.
  intros w aw d [A B C D E]; constructor; cbn [set_state aset ws wn wt al an atr first]; auto.
  - apply SInv_tombstone; exact A.
  - rewrite filter_live_update, B. reflexivity.
Qed.

Lemma r2_end : forall w aw was e, R2 w aw -> is_iter (ws w) = true ->
  R2 (log e (set_state (end_iteration was (ws w)) w)) (alog e aw).
Proof.
  intros w aw was e [A B C D E] Hit; constructor; cbn [log set_state alog ws wn wt al an atr]; auto.
  - apply SInv_end_iteration; auto.
  - rewrite filter_live_end_iteration. exact B.
  - congruence.
Qed.

Lemma r2_begin : forall w aw e, R2 w aw -> R2 (log e (set_state (begin_iteration (ws w)) w)) (alog e aw).
Proof.
  intros w aw e [A B C D E]; constructor; cbn [log set_state alog ws wn wt al an atr begin_iteration first]; auto.
  - apply SInv_begin; exact A.
  - congruence.
Qed.

Lemma ref_unbind : forall f, Refines f -> forall id w w' r,
  exec fixed env (S f) (KAct (AUnbind id)) w = Ok (w', r) ->
  forall aw, R2 w aw ->
  is_iter (ws w') = is_iter (ws w) /\
  forall a, TaskRel (KAct (AUnbind id)) a w -> exists aw', aeval env a aw aw' r /\ R2 w' aw'.
Proof.
  intros f IH id w w' r Hex aw HR. rewrite exec_unbind in Hex. cbv zeta in Hex.
  pose proof (find_id_filter (wn w) id (first (ws w)) (si_nodes _ _ (q_inv _ _ HR))) as Hfind.
  rewrite <- (q_al _ _ HR) in Hfind.
  destruct (find (fun b => b_id b =? id) (first (ws w))) as [b|].
  - destruct Hfind as (Hin & Hfind).
    apply rbind_ok in Hex. destruct Hex as ((w2 & r2) & Hmid & Hfin). injection Hfin as <- <-.
    set (d := b_data b) in *.
    set (w1 := set_state (mkS (update_node d tombstone (first (ws w))) true true) (log (TUnbindB id) w)) in *.
    assert (HR1 : R2 w1 (aset (aremove d (al aw)) (alog (TUnbindB id) aw))).
    { apply (r2_tomb (log (TUnbindB id) w) (alog (TUnbindB id) aw) d). apply r2_log; exact HR. }
    pose proof (si_nodes _ _ (q_inv _ _ HR)) as Hnodes. rewrite Forall_forall in Hnodes.
    destruct (has (b_flags b) BIND_UNBIND) eqn:En.
    + (* notified *)
      assert (Lv : live b = true).
      { destruct (live b) eqn:Lv; auto. exfalso. destruct (Hnodes _ Hin) as (_ & _ & Ht).
        rewrite (Ht Lv) in En. cbn [tombstone b_flags] in En. rewrite has_0 in En. discriminate. }
      rewrite Lv in Hfind.
      set (aw1 := alog (TCallB d EV_UNBIND) (aset (aremove d (al aw)) (alog (TUnbindB id) aw))).
      assert (HRc : R2 (log (TCallB d EV_UNBIND) w1) aw1) by (apply r2_log; exact HR1).
      destruct (IH _ _ _ _ Hmid aw1 HRc I) as (Hi2 & Hsim2).
      destruct (Hsim2 (ACall (b_fn b) d EV_UNBIND) (conj eq_refl (conj eq_refl eq_refl))) as (aw2 & Hev2 & HR2).
      assert (Hit2 : is_iter (ws w2) = true) by (rewrite Hi2; reflexivity).
      split; [cbn [log set_state ws]; apply is_iter_end_iteration|].
      intros [ | |a| | ] Ht; cbn [TaskRel] in Ht; try contradiction. subst a.
      exists (alog TUnbindE aw2). split.
      * eapply ae_unbind_notify; [exact Hfind|exact En|exact Hev2].
      * apply r2_end; auto.
    + injection Hmid as <- <-.
      assert (Hit1 : is_iter (ws w1) = true) by reflexivity.
      split; [cbn [log set_state ws]; apply is_iter_end_iteration|].
      intros [ | |a| | ] Ht; cbn [TaskRel] in Ht; try contradiction. subst a.
      destruct (live b) eqn:Lv.
      * exists (alog TUnbindE (aset (aremove d (al aw)) (alog (TUnbindB id) aw))). split.
        -- apply ae_unbind_quiet; auto.
        -- apply r2_end; auto.
      * (* the id is the tombstone marker and a tombstone was found: nothing happens *)
        exists (alog TUnbindE (alog (TUnbindB id) aw)). split.
        -- apply ae_unbind_none; exact Hfind.
        -- assert (Hsame : aremove d (al aw) = al aw).
           { apply aremove_absent. intros x Hx He. rewrite (q_al _ _ HR) in Hx. apply filter_In in Hx.
             destruct Hx as (Hx & Lx). assert (x = b) by (eapply names_unique; eauto; apply (si_sorted _ _ (q_inv _ _ HR))).
             congruence. }
           pose proof (r2_end w1 _ (is_iter (ws w)) TUnbindE HR1 Hit1) as HRe.
           destruct HRe as [A B C D E]. constructor; auto.
           cbn [alog aset al] in *. rewrite <- Hsame. exact B.
  - (* no such id *)
    injection Hex as <- <-. split; [reflexivity|].
    intros [ | |a| | ] Ht; cbn [TaskRel] in Ht; try contradiction. subst a.
    exists (alog TUnbindE (alog (TUnbindB id) aw)). split.
    + apply ae_unbind_none; exact Hfind.
    + apply r2_log, r2_log; exact HR.
Qed.

(* ------------------------------------------------------------ emit *)
Lemma ref_emit_core : forall f, Refines f -> forall wf ev w w2 r2,
  exec fixed env f (KLoop wf ev (head_name (first (ws w)))) (log (TEmitB wf ev) (set_state (begin_iteration (ws w)) w)) = Ok (w2, r2) ->
  forall aw, R2 w aw ->
  is_iter (ws w2) = true /\
  exists aw2, aeval env (ALoop wf ev None) (alog (TEmitB wf ev) aw) aw2 r2 /\ R2 w2 aw2.
Proof.
  intros f IH wf ev w w2 r2 Hex aw HR.
  assert (HR1 : R2 (log (TEmitB wf ev) (set_state (begin_iteration (ws w)) w)) (alog (TEmitB wf ev) aw))
    by (apply r2_begin; exact HR).
  destruct (IH _ _ _ _ Hex _ HR1 eq_refl) as (Hi & Hsim).
  split; [rewrite Hi; reflexivity|].
  apply (Hsim (ALoop wf ev None)). cbn [TaskRel]. split; [reflexivity|split; [reflexivity|]].
  cbn [log set_state ws begin_iteration first]. apply currel_head. apply (si_sorted _ _ (q_inv _ _ HR)).
Qed.

Lemma ref_emit : forall f, Refines f -> forall ev w w' r,
  exec fixed env (S f) (KAct (AEmit ev)) w = Ok (w', r) ->
  forall aw, R2 w aw ->
  is_iter (ws w') = is_iter (ws w) /\
  forall a, TaskRel (KAct (AEmit ev)) a w -> exists aw', aeval env a aw aw' r /\ R2 w' aw'.
Proof.
  intros f IH ev w w' r Hex aw HR.
  change (exec fixed env (S f) (KAct (AEmit ev)) w) with
    (rbind (exec fixed env f (KLoop false ev (head_name (first (ws w))))
                 (log (TEmitB false ev) (set_state (begin_iteration (ws w)) w)))
           (fun '(w2, _) => Ok (log (TEmitE 0) (set_state (end_iteration (is_iter (ws w)) (ws w2)) w2), 0))) in Hex.
  apply rbind_ok in Hex. destruct Hex as ((w2 & r2) & H1 & H2). injection H2 as <- <-.
  destruct (ref_emit_core f IH false ev w w2 r2 H1 aw HR) as (Hit2 & aw2 & Hev2 & HR2).
  split; [cbn [log set_state ws]; apply is_iter_end_iteration|].
  intros [ | |a| | ] Ht; cbn [TaskRel] in Ht; try contradiction. subst a.
  exists (alog (TEmitE 0) aw2). split; [eapply ae_emit; exact Hev2|apply r2_end; auto].
Qed.

Lemma ref_emitwf : forall f, Refines f -> forall ev w w' r,
  exec fixed env (S f) (KAct (AEmitWF ev)) w = Ok (w', r) ->
  forall aw, R2 w aw ->
  is_iter (ws w') = is_iter (ws w) /\
  forall a, TaskRel (KAct (AEmitWF ev)) a w -> exists aw', aeval env a aw aw' r /\ R2 w' aw'.
Proof.
  intros f IH ev w w' r Hex aw HR.
  change (exec fixed env (S f) (KAct (AEmitWF ev)) w) with
    (rbind (exec fixed env f (KLoop true ev (head_name (first (ws w))))
                 (log (TEmitB true ev) (set_state (begin_iteration (ws w)) w)))
           (fun '(w2, ret) => Ok (log (TEmitE ret) (set_state (end_iteration (is_iter (ws w)) (ws w2)) w2), ret))) in Hex.
  apply rbind_ok in Hex. destruct Hex as ((w2 & r2) & H1 & H2). injection H2 as <- <-.
  destruct (ref_emit_core f IH true ev w w2 r2 H1 aw HR) as (Hit2 & aw2 & Hev2 & HR2).
  split; [cbn [log set_state ws]; apply is_iter_end_iteration|].
  intros [ | |a| | ] Ht; cbn [TaskRel] in Ht; try contradiction. subst a.
  exists (alog (TEmitE r2) aw2). split; [eapply ae_emitwf; exact Hev2|apply r2_end; auto].
Qed.

(* ------------------------------------------------------------ the loop *)
Lemma exec_call_null : forall f name flags w x, exec fixed env f (KCall None name flags) w <> Ok x.
Proof. intros [|f] name flags w x; cbn [exec]; discriminate. Qed.

Lemma ref_loop : forall f, Refines f -> forall wf ev cur w w' r,
  exec fixed env (S f) (KLoop wf ev cur) w = Ok (w', r) ->
  forall aw, R2 w aw -> PreR (KLoop wf ev cur) w ->
  is_iter (ws w') = is_iter (ws w) /\
  forall a, TaskRel (KLoop wf ev cur) a w -> exists aw', aeval env a aw aw' r /\ R2 w' aw'.
Proof.
  intros f IH wf ev cur w w' r Hex aw HR Hit. cbn [PreR] in Hit. rewrite exec_loop in Hex.
  pose proof (q_inv _ _ HR) as Hinv. pose proof (si_sorted _ _ Hinv) as Hsorted.
  pose proof (si_nodes _ _ Hinv) as Hnodes. rewrite Forall_forall in Hnodes.
  destruct cur as [d|].
  2:{ injection Hex as <- <-. split; [reflexivity|].
      intros [ | | |wf' ev' lo| ] Ht; cbn [TaskRel] in Ht; try contradiction. destruct Ht as (<- & <- & Hc).
      exists aw. split; [|exact HR]. apply ae_loop_end. rewrite (q_al _ _ HR). apply anext_none; exact Hc. }
  destruct (find_node d (first (ws w))) as [b|] eqn:Hfb; [|discriminate].
  destruct (find_node_some _ _ _ Hfb) as (Hbin & Hbd).
  destruct (b_ev b =? ev) eqn:Eev.
  - (* invoked *)
    rewrite visit_fixed in Hex.
    assert (Lv : live b = true).
    { destruct (live b) eqn:Lv; auto. exfalso. destruct (Hnodes _ Hbin) as (_ & _ & Ht).
      rewrite (Ht Lv) in Hex. cbn [tombstone b_flags b_fn b_data] in Hex. rewrite has_0 in Hex.
      apply rbind_ok in Hex. destruct Hex as (x & Hx & _). exact (exec_call_null _ _ _ _ _ Hx). }
    set (oneshot := has (b_flags b) BIND_ONESHOT) in *.
    set (flags := if oneshot then EV_FIRE + EV_UNBIND else EV_FIRE).
    set (s1 := if oneshot then mkS (update_node d tombstone (first (ws w))) true true else ws w).
    assert (Hex' : rbind (exec fixed env f (KCall (b_fn b) d flags) (log (TCallB d flags) (set_state s1 w)))
                         (fun '(w1, ret) =>
                            if wf && negb (ret =? 0) then Ok (w1, ret)
                            else match next_of d (first (ws w1)) with
                                 | None => Fault
                                 | Some nx => exec fixed env f (KLoop wf ev nx) w1
                                 end) = Ok (w', r)).
    { unfold flags, s1. destruct oneshot; [rewrite Hit in Hex; rewrite Hbd in Hex|]; exact Hex. }
    clear Hex. apply rbind_ok in Hex'. destruct Hex' as ((w1 & r1) & Hcall & Hrest).
    set (aw1 := alog (TCallB d flags) (aset (if oneshot then aremove d (al aw) else al aw) aw)).
    assert (HR1 : R2 (log (TCallB d flags) (set_state s1 w)) aw1).
    { unfold aw1, s1. apply r2_log. destruct oneshot.
      - apply r2_tomb; exact HR.
      - destruct HR as [A B C D E]. constructor; auto. }
    assert (Hit1 : is_iter (ws (log (TCallB d flags) (set_state s1 w))) = true).
    { cbn [log set_state ws]. unfold s1. destruct oneshot; [reflexivity|exact Hit]. }
    destruct (IH _ _ _ _ Hcall aw1 HR1 I) as (Hi1 & Hsim1).
    destruct (Hsim1 (ACall (b_fn b) d flags) (conj eq_refl (conj eq_refl eq_refl))) as (aw2 & Hev2 & HR2).
    assert (Hitw1 : is_iter (ws w1) = true) by (rewrite Hi1; exact Hit1).
    destruct (wf && negb (r1 =? 0)) eqn:Ecl.
    + injection Hrest as <- <-. split; [rewrite Hitw1, Hit; reflexivity|].
      intros [ | | |wf' ev' lo| ] Ht; cbn [TaskRel] in Ht; try contradiction. destruct Ht as (<- & <- & Hc).
      exists aw2. split; [|exact HR2].
      eapply ae_loop_claim with (b := b).
      * rewrite (q_al _ _ HR). eapply anext_at_cursor; eauto.
      * exact Eev.
      * rewrite Hbd. exact Hev2.
      * exact Ecl.
    + destruct (next_of d (first (ws w1))) as [nx|] eqn:Hnx; [|discriminate].
      destruct (IH _ _ _ _ Hrest aw2 HR2 Hitw1) as (Hi2 & Hsim2).
      split; [rewrite Hi2, Hitw1, Hit; reflexivity|].
      intros [ | | |wf' ev' lo| ] Ht; cbn [TaskRel] in Ht; try contradiction. destruct Ht as (<- & <- & Hc).
      destruct (Hsim2 (ALoop wf ev (Some d))) as (aw3 & Hev3 & HR3).
      { cbn [TaskRel]. split; [reflexivity|split; [reflexivity|]].
        apply currel_next; [apply (si_sorted _ _ (q_inv _ _ HR2))|exact Hnx]. }
      exists aw3. split; [|exact HR3].
      eapply ae_loop_fire with (b := b).
      * rewrite (q_al _ _ HR). eapply anext_at_cursor; eauto.
      * exact Eev.
      * rewrite Hbd. exact Hev2.
      * exact Ecl.
      * rewrite Hbd. exact Hev3.
  - (* stepped over *)
    destruct (next_of d (first (ws w))) as [nx|] eqn:Hnx; [|discriminate].
    destruct (IH _ _ _ _ Hex aw HR Hit) as (Hi2 & Hsim2).
    split; [exact Hi2|].
    intros [ | | |wf' ev' lo| ] Ht; cbn [TaskRel] in Ht; try contradiction. destruct Ht as (<- & <- & Hc).
    destruct (live b) eqn:Lv.
    + (* live, other event: the abstract machine passes it too *)
      destruct (Hsim2 (ALoop wf ev (Some d))) as (aw3 & Hev3 & HR3).
      { cbn [TaskRel]. split; [reflexivity|split; [reflexivity|]]. apply currel_next; auto. }
      exists aw3. split; [|exact HR3].
      eapply ae_loop_skip with (b := b).
      * rewrite (q_al _ _ HR). eapply anext_at_cursor; eauto.
      * exact Eev.
      * rewrite Hbd. exact Hev3.
    + (* a tombstone: the abstract machine has nothing to step over *)
      apply (Hsim2 (ALoop wf ev lo)). cbn [TaskRel]. split; [reflexivity|split; [reflexivity|]].
      eapply currel_skip_dead; eauto.
Qed.

(* ------------------------------------------------------------ destruction *)
Lemma ref_kdestroy : forall f, Refines f -> forall w w' r,
  exec fixed env (S f) KDestroy w = Ok (w', r) ->
  forall aw, R2 w aw -> PreR KDestroy w ->
  is_iter (ws w') = is_iter (ws w) /\
  forall a, TaskRel KDestroy a w -> exists aw', aeval env a aw aw' r /\ R2 w' aw'.
Proof.
  intros f IH w w' r Hex aw HR Hit. cbn [PreR] in Hit. rewrite exec_kdestroy in Hex.
  destruct (SInv_pop _ _ (q_inv _ _ HR) Hit) as (Hinv0 & Hall).
  assert (Hal : al aw = first (ws w)) by (rewrite (q_al _ _ HR); apply all_live_filter; exact Hall).
  destruct (first (ws w)) as [|b0 l0] eqn:El.
  - injection Hex as <- <-. split; [reflexivity|].
    intros [ | | | | ] Ht; cbn [TaskRel] in Ht; try contradiction.
    exists aw. split; [apply ae_dloop_end; exact Hal|exact HR].
  - cbv zeta in Hex.
    assert (Hne : first (ws w) <> []) by (rewrite El; discriminate).
    rewrite <- El in *. clear El b0 l0.
    set (b := last (first (ws w)) (mkB 0 0 0 None 0)) in *.
    set (s0 := mkS (removelast (first (ws w))) (is_iter (ws w)) (needs_del (ws w))) in *.
    set (notify := (b_ev b =? 0) || has (b_flags b) (BIND_UNBIND + BIND_DESTROY)) in *.
    assert (Hl : first (ws w) = removelast (first (ws w)) ++ [b]) by (apply app_removelast_last; exact Hne).
    assert (Hall0 : forallb live (removelast (first (ws w))) = true).
    { rewrite Hl, forallb_app in Hall. apply andb_true_iff in Hall. tauto. }
    assert (HR0 : R2 (set_state s0 w) (aset (removelast (first (ws w))) aw)).
    { destruct HR as [A B C D E]. constructor; cbn [set_state aset ws wn wt al an atr s0 first]; auto.
      symmetry. apply all_live_filter. exact Hall0. }
    apply rbind_ok in Hex. destruct Hex as ((w1 & r1) & Hmid & Hrest).
    destruct notify eqn:En.
    + set (aw1 := alog (TCallB (b_data b) (EV_UNBIND + EV_DESTROY)) (aset (removelast (first (ws w))) aw)).
      assert (HR1 : R2 (log (TCallB (b_data b) (EV_UNBIND + EV_DESTROY)) (set_state s0 w)) aw1) by (apply r2_log; exact HR0).
      destruct (IH _ _ _ _ Hmid aw1 HR1 I) as (Hi1 & Hsim1).
      destruct (Hsim1 (ACall (b_fn b) (b_data b) (EV_UNBIND + EV_DESTROY)) (conj eq_refl (conj eq_refl eq_refl)))
        as (aw2 & Hev2 & HR2).
      assert (Hit1 : is_iter (ws w1) = false) by (rewrite Hi1; exact Hit).
      destruct (IH _ _ _ _ Hrest aw2 HR2 Hit1) as (Hi2 & Hsim2).
      split; [rewrite Hi2, Hit1, Hit; reflexivity|].
      intros [ | | | | ] Ht; cbn [TaskRel] in Ht; try contradiction.
      destruct (Hsim2 ADestroyLoop I) as (aw3 & Hev3 & HR3).
      exists aw3. split; [|exact HR3].
      eapply ae_dloop_notify.
      * rewrite Hal; exact Hne.
      * rewrite Hal. exact En.
      * rewrite Hal. exact Hev2.
      * exact Hev3.
    + injection Hmid as <- <-.
      assert (Hit1 : is_iter (ws (set_state s0 w)) = false) by exact Hit.
      destruct (IH _ _ _ _ Hrest _ HR0 Hit1) as (Hi2 & Hsim2).
      split; [rewrite Hi2; reflexivity|].
      intros [ | | | | ] Ht; cbn [TaskRel] in Ht; try contradiction.
      destruct (Hsim2 ADestroyLoop I) as (aw3 & Hev3 & HR3).
      exists aw3. split; [|exact HR3].
      eapply ae_dloop_quiet.
      * rewrite Hal; exact Hne.
      * rewrite Hal. exact En.
      * rewrite Hal. exact Hev3.
Qed.

Lemma ref_destroy : forall f, Refines f -> forall w w' r,
  exec fixed env (S f) (KAct ADestroy) w = Ok (w', r) ->
  forall aw, R2 w aw -> PreR (KAct ADestroy) w ->
  is_iter (ws w') = is_iter (ws w) /\
  forall a, TaskRel (KAct ADestroy) a w -> exists aw', aeval env a aw aw' r /\ R2 w' aw'.
Proof.
  intros f IH w w' r Hex aw HR (_ & Hit). specialize (Hit eq_refl).
  change (exec fixed env (S f) (KAct ADestroy) w) with
    (rbind (exec fixed env f KDestroy (log TDestroyB w)) (fun '(w1, _) => Ok (log TDestroyE w1, 0))) in Hex.
  apply rbind_ok in Hex. destruct Hex as ((w1 & r1) & H1 & H2). injection H2 as <- <-.
  destruct (IH _ _ _ _ H1 (alog TDestroyB aw) (r2_log _ _ _ HR) Hit) as (Hi1 & Hsim1).
  split; [exact Hi1|].
  intros [ | |a| | ] Ht; cbn [TaskRel] in Ht; try contradiction. subst a.
  destruct (Hsim1 ADestroyLoop I) as (aw1 & Hev1 & HR1).
  exists (alog TDestroyE aw1). split; [eapply ae_destroy; exact Hev1|apply r2_log; exact HR1].
Qed.

Lemma refines_all : forall fuel, Refines fuel.
Proof.
  induction fuel as [|f IH]; intros t w w' r Hex aw HR Hpre; [discriminate|].
  destruct t as [fn name flags|acts|a|wf ev cur|].
  - eapply ref_call; eauto.
  - eapply ref_acts; eauto.
  - destruct a as [ev flags hid|id|ev|ev|].
    + eapply ref_bind; eauto.
    + eapply ref_unbind; eauto.
    + eapply ref_emit; eauto.
    + eapply ref_emitwf; eauto.
    + eapply ref_destroy; eauto.
  - eapply ref_loop; eauto.
  - eapply ref_kdestroy; eauto.
Qed.

End Refine.

Lemma r2_init : R2 init_world ainit.
Proof.
  constructor; cbn; auto; try lia. constructor; cbn; auto; constructor.
Qed.

(* C16_refines *)
Theorem refines : forall env, env_ok env -> forall ops, Forall top_ok ops ->
  forall fuel w r, run fixed env fuel ops = Ok (w, r) ->
  exists aw, aeval env (AActs ops) ainit aw r /\
             atr aw = wt w /\ al aw = first (ws w) /\ an aw = wn w.
Proof.
  intros env Henv ops Hops fuel w r Hrun. unfold run in Hrun.
  assert (Hpre : PreR (KActs ops) init_world).
  { cbn [PreR]. eapply Forall_impl; [|exact Hops]. intros a Ha; split; auto. }
  destruct (refines_all env Henv fuel _ _ _ _ Hrun ainit r2_init Hpre) as (Hi & Hsim).
  destruct (Hsim (AActs ops) eq_refl) as (aw & Hev & HR).
  exists aw. split; [exact Hev|]. split; [apply (q_tr _ _ HR)|]. split; [|apply (q_n _ _ HR)].
  rewrite (q_al _ _ HR). apply all_live_filter.
  assert (Hit : is_iter (ws w) = false) by (rewrite Hi; reflexivity).
  apply (si_del _ _ (q_inv _ _ HR)). apply (si_iter _ _ (q_inv _ _ HR)). exact Hit.
Qed.
