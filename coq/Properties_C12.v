(* Property C12: every terminal mode switched on is switched off again by pause/teardown;
   resume re-establishes the logical modes and pen; getctl reads the last value set.
   Nothing but the property theorems, each closed by [exact <lemma>].

   (XtermModeProofs.v is developed against three interface statements about the pen path;
   XtermModeFinal.v instantiates them with their proofs from TermPenProofs.v.)

   Known finding (recorded, the model keeps it): KEYPAD_APP is written but never recorded in
   the driver's shadow, so the keypad mode is never switched off again and getctl reads 0.
   Hence two strengths: [hist_check false] (keypad left out) holds of every history,
   [hist_check true] only of histories that never switch the keypad on, and is refuted
   otherwise. *)
From Coq Require Import ZArith List Bool.
From Tickit Require Import Csi VT TermPenDefs TermPenSpec XtermDefs XtermModeSpec XtermModeProofs XtermModeFinal TermApiDefs TermApiMode TermBufDefs TermBufProofs TermBufBalance.
Import ListNotations.
Local Open Scope Z_scope.

Theorem C12_teardown_ends_with_sgr0 : forall d, exists ts, xt_teardown d = ts ++ [csi_0 109].
Proof. exact teardown_ends_with_sgr0. Qed.
Print Assumptions C12_teardown_ends_with_sgr0.

(* every history (settings in any order, repeated, redundant; pens; pause / resume cycles;
   teardown; destruction; setupterm) passes the specification's checker, keypad left out.
   No premise on the arguments: [hist_check] tests the ranges ([op_in_rangeb]) before the
   model runs and ends the walk with [MOutOfRange] on an out-of-range control value or pen *)
Theorem C12_history_nokp :
  forall colon rgb8 cshape ops t s,
    start_ok colon rgb8 cshape t s ->
    forall i w, hist_check false colon rgb8 cshape init_ms 0 t s ops <> MBadAt i w.
Proof. exact history_nokp_c. Qed.
Print Assumptions C12_history_nokp.

(* the same with the keypad compared, for histories that never switch it on *)
Theorem C12_history_full_partial :
  forall colon rgb8 cshape ops t s,
    start_ok colon rgb8 cshape t s -> sets_keypad_on ops = false ->
    forall i w, hist_check true colon rgb8 cshape init_ms 0 t s ops <> MBadAt i w.
Proof. exact history_full_partial_c. Qed.
Print Assumptions C12_history_full_partial.

(* well-sequenced in-range histories of calls ([wf_hist]: no replies of the terminal among them,
   see [wf_hist_r] below for those) are accepted to the end (no escape through "out of range"):
   the two theorems above are not vacuous *)
Theorem C12_history_accepted_nokp :
  forall colon rgb8 cshape ops t s,
    start_ok colon rgb8 cshape t s -> wf_hist false ops ->
    hist_check false colon rgb8 cshape init_ms 0 t s ops = MOk (length ops).
Proof. exact history_accepted_nokp_c. Qed.
Print Assumptions C12_history_accepted_nokp.

Theorem C12_history_accepted_full_partial :
  forall colon rgb8 cshape ops t s,
    start_ok colon rgb8 cshape t s -> wf_hist false ops -> sets_keypad_on ops = false ->
    hist_check true colon rgb8 cshape init_ms 0 t s ops = MOk (length ops).
Proof. exact history_accepted_full_partial_c. Qed.
Print Assumptions C12_history_accepted_full_partial.

(* the toplevel on a terminal that ANSWERS THE START-UP PROBES.  The replies are input, not calls:
   [OReport mode value] = a DECRPM reply is read (on_modereport), [ODecscusr value] = the DECRQSS
   reply for the cursor shape is read.  Report operations anywhere in a history model a terminal
   that answers any subset of the start-up queries after any delay (measured in reads): [pre] are
   replies read before setupterm, and [ops] is ANY list of operations -- application calls with
   further replies interleaved anywhere, also after the application has set the control the reply
   is about.  That is the situation of the fix "stale probe replies": setupterm hides the cursor,
   then the reply "cursor visible" is read; the shadow must stay 0, getctl must read 0, teardown
   must write CSI ?25h.  The checker judges a reply operation itself too: it must be silent
   (why = 8 otherwise); an untruthful reply (not the state at the time of the query, see
   [check_op_v]) is out of range *)
Theorem C12_toplevel_reports_nokp :
  forall colon rgb8 cshape alt pre ops t s,
    start_ok colon rgb8 cshape t s -> Forall (fun o => is_report o = true) pre ->
    forall i w, hist_check false colon rgb8 cshape init_ms 0 t s (pre ++ OSetup alt :: ops) <> MBadAt i w.
Proof. exact toplevel_reports_nokp_c. Qed.
Print Assumptions C12_toplevel_reports_nokp.

(* ... and such histories are accepted to the end when the replies are truthful: [wf_hist_r blink0
   shape0 bset sset stopped ops] = well-sequenced, in range, and every reply tells the state at the
   time of the query -- DECRPM 25 says "visible", DECRPM 12 / DECSCUSR say the terminal's blink state
   [blink0] / shape [shape0] at the start unless the application has set the control since ([bset] /
   [sset]; then the reply is stale and only has to be well-formed).  So the theorem above is not
   vacuous on histories with replies before AND after the controls are set *)
Theorem C12_history_reports_accepted_nokp :
  forall colon rgb8 cshape ops t s,
    start_ok colon rgb8 cshape t s ->
    wf_hist_r (md_blink (v_md (os_vt s))) (md_shape (v_md (os_vt s))) false false false ops ->
    hist_check false colon rgb8 cshape init_ms 0 t s ops = MOk (length ops).
Proof. exact history_reports_accepted_nokp_c. Qed.
Print Assumptions C12_history_reports_accepted_nokp.

Theorem C12_history_reports_accepted_full_partial :
  forall colon rgb8 cshape ops t s,
    start_ok colon rgb8 cshape t s ->
    wf_hist_r (md_blink (v_md (os_vt s))) (md_shape (v_md (os_vt s))) false false false ops ->
    sets_keypad_on ops = false ->
    hist_check true colon rgb8 cshape init_ms 0 t s ops = MOk (length ops).
Proof. exact history_reports_accepted_full_partial_c. Qed.
Print Assumptions C12_history_reports_accepted_full_partial.

(* token level: replies, setupterm, the application's calls with further replies among them,
   tickit_destroy: the terminal is left in its initial modes (keypad aside), default rendition *)
Theorem C12_toplevel_reports_balanced_nokp :
  forall colon rgb8 cshape alt pre app t s,
    start_ok colon rgb8 cshape t s ->
    wf_hist_r (md_blink (v_md (os_vt s))) (md_shape (v_md (os_vt s))) false false false
              (pre ++ toplevel_ops alt app) ->
    exists t' ts, mode_run t (pre ++ toplevel_ops alt app) = Some (t', ts) /\
      ms_eqb_nokp (ms_of_vt (vt_run ts (os_vt s))) init_ms = true /\
      v_sgr (vt_run ts (os_vt s)) = default_attrs.
Proof. exact toplevel_reports_balanced_nokp_c. Qed.
Print Assumptions C12_toplevel_reports_balanced_nokp.

(* the full property is false: teardown leaves the keypad in application mode ... *)
Theorem C12_history_refuted :
  exists ops t s, start_ok false false false t s /\
    exists i w, hist_check true false false false init_ms 0 t s ops = MBadAt i w.
Proof. exact history_refuted. Qed.
Print Assumptions C12_history_refuted.

(* ... and getctl reads 0 after the keypad was set to 1 *)
Theorem C12_getctl_refuted :
  exists ops t s, start_ok false false false t s /\
    exists i w, hist_check true false false false init_ms 0 t s ops = MBadAt i w.
Proof. exact getctl_refuted. Qed.
Print Assumptions C12_getctl_refuted.

(* token level: a well-sequenced in-range history that contains a teardown or a destruction
   leaves the terminal in its initial modes (keypad aside) with the default rendition *)
Theorem C12_balanced_nokp :
  forall colon rgb8 cshape ops t s,
    start_ok colon rgb8 cshape t s -> wf_hist false ops -> existsb is_stop ops = true ->
    exists t' ts, mode_run t ops = Some (t', ts) /\
      ms_eqb_nokp (ms_of_vt (vt_run ts (os_vt s))) init_ms = true /\
      v_sgr (vt_run ts (os_vt s)) = default_attrs.
Proof. exact balanced_nokp_c. Qed.
Print Assumptions C12_balanced_nokp.

(* the toplevel: setupterm, any in-range application history without teardown / destruction,
   then tickit_destroy *)
Theorem C12_toplevel_balanced_nokp :
  forall colon rgb8 cshape alt app t s,
    start_ok colon rgb8 cshape t s -> Forall app_op_ok app ->
    exists t' ts, mode_run t (toplevel_ops alt app) = Some (t', ts) /\
      ms_eqb_nokp (ms_of_vt (vt_run ts (os_vt s))) init_ms = true /\
      v_sgr (vt_run ts (os_vt s)) = default_attrs.
Proof. exact toplevel_balanced_nokp_c. Qed.
Print Assumptions C12_toplevel_balanced_nokp.

(* ---- at the level of the PUBLIC API of term.c (TermApiDefs.v): tickit_term_setctl_int / getctl_int /
   setpen / chpen / pause / resume / teardown / destroy are exactly the operations above ... *)
Theorem C12_api_step_is_op : forall t a o, mop_of_api a = Some o -> api_step t a = mode_step t o.
Proof. exact api_step_mop. Qed.
Print Assumptions C12_api_step_is_op.

(* ... so every history of such calls passes the checker (keypad left out) ... *)
Theorem C12_api_history_nokp : forall colon rgb8 cshape l t s,
  start_ok colon rgb8 cshape t s ->
  forall i w, api_hist_check false colon rgb8 cshape init_ms 0 t s l <> MBadAt i w.
Proof. exact api_history_nokp. Qed.
Print Assumptions C12_api_history_nokp.

(* ... and with the keypad compared when it is never switched on *)
Theorem C12_api_history_full_partial : forall colon rgb8 cshape l ops t s,
  start_ok colon rgb8 cshape t s -> mops_of l = Some ops -> api_sets_keypad_on l = false ->
  forall i w, api_hist_check true colon rgb8 cshape init_ms 0 t s l <> MBadAt i w.
Proof. exact api_history_full_partial. Qed.
Print Assumptions C12_api_history_full_partial.

(* the premises are satisfiable and the checker really walks a history to its end *)
Example C12_nonvacuous :
  start_ok false false false fresh_term fresh_ostate /\
  start_ok false false true probed_term probed_ostate /\
  hist_check false false false false init_ms 0 fresh_term fresh_ostate
    [OSetup true;
     OSetpen (fun a => match a with ABold => Some (VBool true) | AFg => Some (VCol 3 None) | _ => None end);
     OPause; OResume; OTeardown] = MOk 5.
Proof. split; [exact fresh_start_ok | split; [exact probed_start_ok | vm_compute; reflexivity]]. Qed.
Print Assumptions C12_nonvacuous.

(* the scenario of the fix is really judged and passes to the end: setupterm, then the late replies
   "cursor visible", "not blinking", DECSCUSR 0 (all truthful for a fresh terminal: power-on state),
   a read of the cursor visibility (must be 0), a pause / resume cycle, teardown; and the usual
   order (replies first) with the blink and shape controls set afterwards *)
Example C12_reports_nonvacuous :
  wf_hist_r false 0 false false false
    [OSetup true; OReport 25 1; OReport 12 2; ODecscusr 0; OGet CtlCursorvis; OPause; OResume; OTeardown] /\
  hist_check false false false false init_ms 0 fresh_term fresh_ostate
    [OSetup true; OReport 25 1; OReport 12 2; ODecscusr 0; OGet CtlCursorvis; OPause; OResume; OTeardown] = MOk 8 /\
  hist_check false false false false init_ms 0 fresh_term fresh_ostate
    [OReport 69 2; OReport 25 1; OReport 12 2; ODecscusr 0; OSetup true; OSet CtlCursorblink 1;
     OSet CtlCursorshape 2; OGet CtlCursorshape; OPause; OResume; OTeardown; ODestroy] = MOk 12.
Proof. split; [exact late_replies_wf | split; vm_compute; reflexivity]. Qed.
Print Assumptions C12_reports_nonvacuous.

(* ---- OUTPUT BUFFERS and construction orders (TermBufDefs.v: when the driver is started -- lazily, at the first
   attach of an output -- and which bytes have reached the output by the end of each call: write_str with the
   buffer flushed whenever it is full, tickit_term_flush, teardown = stop() THEN flush, destroy).
   [ustep] / [urun]: the same history without buffering (XtermModeSpec.mode_step, plus start() at the first attach).
   C12_buffer_conserves: once an output is attached, and as long as the buffer is not replaced, buffering changes
     nothing of the terminal object and  delivered ++ still-buffered = rendering of everything written.
   C12_buffer_delivered: a history that ends with tickit_term_flush, tickit_term_teardown or destruction has
     DELIVERED exactly the rendering of the unbuffered history's tokens; nothing is owed.
   C12_buffered_balanced_nokp: hence, for a started terminal with a buffer of any size, any well-sequenced history
     of settings / reads / pause / resume / flushes that ends in teardown or destruction leaves the screen -- fed
     with the bytes delivered by the end of that call -- in its initial modes (keypad aside: the recorded finding)
     with the default rendition.  (Pen requests are left out of this corollary only because the well-formedness of
     their tokens needs the range hypothesis; the two theorems above cover them.)
   The judgement of construction orders (settings into the buffer BEFORE the output is attached, delivered by
   start()'s flush, the shadow keeping them) is TermBufSpec.oracle_buf, run on the implementation's delivered
   bytes by the check; that start() leaves the shadow alone is part of the model (TermBufDefs.bstep, BAttach) and
   is tied to the source byte for byte. *)
Theorem C12_buffer_conserves : forall ops b b' D,
  brun b ops = Some (b', D) -> b_out b = true -> binv b -> forallb keeps_buffer ops = true ->
  exists ts, urun (b_t b) ops = Some (b_t b', ts) /\ D ++ b_pend b' = b_pend b ++ render ts /\
             b_out b' = true /\ binv b'.
Proof. exact brun_conserve. Qed.
Print Assumptions C12_buffer_conserves.

Theorem C12_buffer_delivered : forall ops last b b' D,
  brun b (ops ++ [last]) = Some (b', D) -> b_out b = true -> binv b -> b_pend b = [] ->
  forallb keeps_buffer (ops ++ [last]) = true -> is_sync last = true ->
  exists ts, urun (b_t b) (ops ++ [last]) = Some (b_t b', ts) /\ D = render ts /\ b_pend b' = [].
Proof. exact brun_delivered. Qed.
Print Assumptions C12_buffer_delivered.

Theorem C12_buffered_balanced_nokp : forall colon rgb8 cshape cap ops last t s,
  start_ok colon rgb8 cshape t s ->
  forallb call_or_flush (ops ++ [last]) = true -> is_sync last = true ->
  forallb plain (calls_of (ops ++ [last])) = true ->
  wf_hist false (calls_of (ops ++ [last])) -> existsb is_stop (calls_of (ops ++ [last])) = true ->
  0 <= cap ->
  exists b' D, brun (mkB t true cap []) (ops ++ [last]) = Some (b', D) /\ b_pend b' = [] /\
    ms_eqb_nokp (ms_of_vt (vt_run_bytes D (os_vt s))) init_ms = true /\
    v_sgr (vt_run_bytes D (os_vt s)) = default_attrs.
Proof. exact buffered_balanced_nokp. Qed.
Print Assumptions C12_buffered_balanced_nokp.

Example C12_buffered_nonvacuous :
  match brun (mkB fresh_term true 4096 []) (firstn 3 buf_example) with
  | Some (b, D) => D = [] /\ b_pend b <> []
  | None => False
  end /\
  forallb call_or_flush (buf_example ++ [BOp OTeardown]) = true /\
  forallb plain (calls_of (buf_example ++ [BOp OTeardown])) = true /\
  wf_hist false (calls_of (buf_example ++ [BOp OTeardown])) /\
  match brun (mkB fresh_term true 7 []) (buf_example ++ [BOp OTeardown]) with
  | Some (b', D) => b_pend b' = [] /\ negb (Nat.eqb (length D) 0) = true /\
                    ms_eqb_nokp (ms_of_vt (vt_run_bytes D (os_vt fresh_ostate))) init_ms = true
  | None => False
  end.
Proof. exact buffered_example. Qed.
