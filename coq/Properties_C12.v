(* Property C12: every terminal mode switched on is switched off again by pause/teardown;
   resume re-establishes the logical modes and pen; getctl reads the last value set.
   Nothing but the property theorems, each closed by [exact <lemma>].

   (XtermModeProofs.v is developed against three interface statements about the pen path;
   XtermModeFinal.v instantiates them with their proofs from TermPenProofs.v.)

   Known finding (recorded, the model keeps it): KEYPAD_APP is written but never recorded in
   the driver's shadow, so the keypad mode is never switched off again and getctl reads 0.
   Hence two strengths: [hist_check false] (keypad left out) holds of every history,
   [hist_check true] only of histories that never switch the keypad on, and is refuted
   otherwise. *)
From Coq Require Import ZArith List Bool.
From Tickit Require Import Csi VT TermPenDefs TermPenSpec XtermDefs XtermModeSpec XtermModeProofs XtermModeFinal TermApiDefs TermApiMode.
Import ListNotations.
Local Open Scope Z_scope.

Theorem C12_teardown_ends_with_sgr0 : forall d, exists ts, xt_teardown d = ts ++ [csi_0 109].
Proof. exact teardown_ends_with_sgr0. Qed.
Print Assumptions C12_teardown_ends_with_sgr0.

(* every history (settings in any order, repeated, redundant; pens; pause / resume cycles;
   teardown; destruction; setupterm) passes the specification's checker, keypad left out.
   No premise on the arguments: [hist_check] tests the ranges ([op_in_rangeb]) before the
   model runs and ends the walk with [MOutOfRange] on an out-of-range control value or pen *)
Theorem C12_history_nokp :
  forall colon rgb8 cshape ops t s,
    start_ok colon rgb8 cshape t s ->
    forall i w, hist_check false colon rgb8 cshape init_ms 0 t s ops <> MBadAt i w.
Proof. exact history_nokp_c. Qed.
Print Assumptions C12_history_nokp.

(* the same with the keypad compared, for histories that never switch it on *)
Theorem C12_history_full_partial :
  forall colon rgb8 cshape ops t s,
    start_ok colon rgb8 cshape t s -> sets_keypad_on ops = false ->
    forall i w, hist_check true colon rgb8 cshape init_ms 0 t s ops <> MBadAt i w.
Proof. exact history_full_partial_c. Qed.
Print Assumptions C12_history_full_partial.

(* well-sequenced in-range histories are accepted to the end (no escape through
   "out of range"): the two theorems above are not vacuous *)
Theorem C12_history_accepted_nokp :
  forall colon rgb8 cshape ops t s,
    start_ok colon rgb8 cshape t s -> wf_hist false ops ->
    hist_check false colon rgb8 cshape init_ms 0 t s ops = MOk (length ops).
Proof. exact history_accepted_nokp_c. Qed.
Print Assumptions C12_history_accepted_nokp.

Theorem C12_history_accepted_full_partial :
  forall colon rgb8 cshape ops t s,
    start_ok colon rgb8 cshape t s -> wf_hist false ops -> sets_keypad_on ops = false ->
    hist_check true colon rgb8 cshape init_ms 0 t s ops = MOk (length ops).
Proof. exact history_accepted_full_partial_c. Qed.
Print Assumptions C12_history_accepted_full_partial.

(* the full property is false: teardown leaves the keypad in application mode ... *)
Theorem C12_history_refuted :
  exists ops t s, start_ok false false false t s /\
    exists i w, hist_check true false false false init_ms 0 t s ops = MBadAt i w.
Proof. exact history_refuted. Qed.
Print Assumptions C12_history_refuted.

(* ... and getctl reads 0 after the keypad was set to 1 *)
Theorem C12_getctl_refuted :
  exists ops t s, start_ok false false false t s /\
    exists i w, hist_check true false false false init_ms 0 t s ops = MBadAt i w.
Proof. exact getctl_refuted. Qed.
Print Assumptions C12_getctl_refuted.

(* token level: a well-sequenced in-range history that contains a teardown or a destruction
   leaves the terminal in its initial modes (keypad aside) with the default rendition *)
Theorem C12_balanced_nokp :
  forall colon rgb8 cshape ops t s,
    start_ok colon rgb8 cshape t s -> wf_hist false ops -> existsb is_stop ops = true ->
    exists t' ts, mode_run t ops = Some (t', ts) /\
      ms_eqb_nokp (ms_of_vt (vt_run ts (os_vt s))) init_ms = true /\
      v_sgr (vt_run ts (os_vt s)) = default_attrs.
Proof. exact balanced_nokp_c. Qed.
Print Assumptions C12_balanced_nokp.

(* the toplevel: setupterm, any in-range application history without teardown / destruction,
   then tickit_destroy *)
Theorem C12_toplevel_balanced_nokp :
  forall colon rgb8 cshape alt app t s,
    start_ok colon rgb8 cshape t s -> Forall app_op_ok app ->
    exists t' ts, mode_run t (toplevel_ops alt app) = Some (t', ts) /\
      ms_eqb_nokp (ms_of_vt (vt_run ts (os_vt s))) init_ms = true /\
      v_sgr (vt_run ts (os_vt s)) = default_attrs.
Proof. exact toplevel_balanced_nokp_c. Qed.
Print Assumptions C12_toplevel_balanced_nokp.

(* ---- at the level of the PUBLIC API of term.c (TermApiDefs.v): tickit_term_setctl_int / getctl_int /
   setpen / chpen / pause / resume / teardown / destroy are exactly the operations above ... *)
Theorem C12_api_step_is_op : forall t a o, mop_of_api a = Some o -> api_step t a = mode_step t o.
Proof. exact api_step_mop. Qed.
Print Assumptions C12_api_step_is_op.

(* ... so every history of such calls passes the checker (keypad left out) ... *)
Theorem C12_api_history_nokp : forall colon rgb8 cshape l t s,
  start_ok colon rgb8 cshape t s ->
  forall i w, api_hist_check false colon rgb8 cshape init_ms 0 t s l <> MBadAt i w.
Proof. exact api_history_nokp. Qed.
Print Assumptions C12_api_history_nokp.

(* ... and with the keypad compared when it is never switched on *)
Theorem C12_api_history_full_partial : forall colon rgb8 cshape l ops t s,
  start_ok colon rgb8 cshape t s -> mops_of l = Some ops -> api_sets_keypad_on l = false ->
  forall i w, api_hist_check true colon rgb8 cshape init_ms 0 t s l <> MBadAt i w.
Proof. exact api_history_full_partial. Qed.
Print Assumptions C12_api_history_full_partial.

(* the premises are satisfiable and the checker really walks a history to its end *)
Example C12_nonvacuous :
  start_ok false false false fresh_term fresh_ostate /\
  start_ok false false true probed_term probed_ostate /\
  hist_check false false false false init_ms 0 fresh_term fresh_ostate
    [OSetup true;
     OSetpen (fun a => match a with ABold => Some (VBool true) | AFg => Some (VCol 3 None) | _ => None end);
     OPause; OResume; OTeardown] = MOk 5.
Proof. split; [exact fresh_start_ok | split; [exact probed_start_ok | vm_compute; reflexivity]]. Qed.
Print Assumptions C12_nonvacuous.
