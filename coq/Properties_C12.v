(* Property C12: every terminal mode switched on is switched off again by pause/teardown.
   Nothing but the property theorems, each closed by [exact <lemma>]. *)
From Coq Require Import ZArith List Bool.
From Tickit Require Import Csi VT TermPenDefs TermPenSpec XtermDefs XtermModeSpec XtermModeProofs.
Import ListNotations.
Local Open Scope Z_scope.

Theorem C12_teardown_ends_with_sgr0 : forall d, exists ts, xt_teardown d = ts ++ [csi_0 109].
Proof. exact teardown_ends_with_sgr0. Qed.
Print Assumptions C12_teardown_ends_with_sgr0.
