(* LoopSigDefs.v -- executable model of one iteration of evloop_run in
   /repo/src/evloop-default.c as a function of what ppoll does, together with the parts of
   /repo/src/tickit.c it calls (definitions only).

   Modelled (C18):
     the signal handler's pending set (EventLoopData.pending_signals), the kernel's set of
       blocked-pending signals, evloop_signal / evloop_cancel_signal (a signal is watched,
       hence blocked outside ppoll, iff some live signal watch names it);
     the poll-slot table pollfds / pollwatches: evloop_io (first free slot is reused, else
       the table grows), evloop_cancel_io (fd = -1), revents as left by the last ppoll;
     ppoll as the harness (and the kernel) behaves: revents written for every slot; ready
       descriptors win and leave signals pending; otherwise the pending signals and those
       arriving during the wait are delivered (handler records them) and ppoll fails with
       EINTR; otherwise time-out;
     evloop_run's order: ppoll, (latch errno,) tickit_evloop_invoke_timers -- here the
       deferred callbacks, which stand for everything that runs at that point -- then the
       test of pollret/errno, then IO dispatch in slot order or dispatch_signals in signal
       number order, tickit_evloop_invoke_sigwatches walking the live list;
     tickit_watch_io / _signal / _later / _cancel, destroy.
   [cfg] selects the pinned behaviour of two places:
     errno_late    = errno is read AFTER the callbacks ran            (defect #24)
     revents_stale = evloop_io does not reset revents of the slot     (defect #25;
                     a fresh slot then holds whatever malloc left: [garbage])
   The pinned walks that touched a freed watch when a callback cancelled its own watch
   (invoke_watch, invoke_sigwatches) are modelled in their repaired form
   (fixes/C18-*.patch): the walk keeps a cursor that cancel moves off a freed watch.
   Loops whose bound is not syntactically visible take fuel and return None when it
   runs out. *)
From Coq Require Import ZArith List Bool.
From Tickit Require Import LoopDefs.
Import ListNotations.
Local Open Scope Z_scope.

Record cfg := mkCfg { errno_late : bool; revents_stale : bool; stop_early : bool }.
Definition fixed_cfg : cfg := mkCfg false false false.
Definition pinned_cfg : cfg := mkCfg true true false.
(* the seeded variant that leaves the loop as soon as a timer / deferred callback has called
   tickit_stop, before the test of pollret/errno and dispatch_signals *)
Definition stop_early_cfg : cfg := mkCfg false false true.

Record iow := mkIo { i_id : Z; i_fd : Z; i_slot : nat; i_unbind : bool; i_cb : Z }.
Record sgw := mkSg { g_id : Z; g_sig : Z; g_unbind : bool; g_cb : Z }.
Record ltr := mkLt { l_id : Z; l_unbind : bool; l_cb : Z }.
Record slot := mkSlot { p_fd : Z; p_events : Z; p_revents : Z; p_watch : Z }.

Inductive saction :=
| SLater (unbind : bool) (cb : Z)
| SIo (fd : Z) (cond : Z) (unbind : bool) (cb : Z)
| SSig (sig : Z) (unbind : bool) (cb : Z)
| SCancel (id : Z)
| SErrno (e : Z)        (* the callback leaves errno = e *)
| SRaise (sig : Z)      (* raise(sig): blocked, stays pending in the kernel *)
| SNop
| SStop.                (* tickit_stop *)

Inductive sop :=
| SAct (a : saction)
| STick (sleep : bool)
| SReady (fd : Z) (revents : Z)   (* fd is ready with revents at the next ppoll *)
| SArrive (sig : Z)               (* sig arrives while the next ppoll waits *)
| SRunLoop (k : nat).             (* tickit_run; the harness calls tickit_stop in the k-th ppoll *)

Definition EINTR : Z := 4.
Definition GARBAGE : Z := 48830.   (* 0xbebe: AddressSanitizer's fill of fresh heap memory *)

Record sst := mkSst {
  iows : list iow; sgws : list sgw; dlaters : list ltr; drun : list ltr;
  slots : list slot;
  kpend : list Z;        (* kernel: raised while blocked *)
  pending : list Z;      (* loop: recorded by the handler, not yet dispatched *)
  errno : Z;
  ready : list (Z * Z); inwait : list Z;
  cursor : option Z;     (* Tickit.next_sigwatch *)
  snext : Z; siter : Z; slog : list obs;
  running : bool         (* EventLoopData.still_running *) }.

(* the instance as tickit_build leaves it with a terminal that has no input descriptor:
   slot 0 holds fd = -1 (free), see evloop_io *)
Definition sst0 : sst :=
  mkSst [] [] [] [] [mkSlot (-1) 1 0 (-1)] [] [] 0 [] [] None 0 0 [] false.

Definition up_iows (s : sst) v := mkSst v (sgws s) (dlaters s) (drun s) (slots s) (kpend s) (pending s) (errno s) (ready s) (inwait s) (cursor s) (snext s) (siter s) (slog s) (running s).
Definition up_sgws (s : sst) v := mkSst (iows s) v (dlaters s) (drun s) (slots s) (kpend s) (pending s) (errno s) (ready s) (inwait s) (cursor s) (snext s) (siter s) (slog s) (running s).
Definition up_dlaters (s : sst) v := mkSst (iows s) (sgws s) v (drun s) (slots s) (kpend s) (pending s) (errno s) (ready s) (inwait s) (cursor s) (snext s) (siter s) (slog s) (running s).
Definition up_drun (s : sst) v := mkSst (iows s) (sgws s) (dlaters s) v (slots s) (kpend s) (pending s) (errno s) (ready s) (inwait s) (cursor s) (snext s) (siter s) (slog s) (running s).
Definition up_slots (s : sst) v := mkSst (iows s) (sgws s) (dlaters s) (drun s) v (kpend s) (pending s) (errno s) (ready s) (inwait s) (cursor s) (snext s) (siter s) (slog s) (running s).
Definition up_kpend (s : sst) v := mkSst (iows s) (sgws s) (dlaters s) (drun s) (slots s) v (pending s) (errno s) (ready s) (inwait s) (cursor s) (snext s) (siter s) (slog s) (running s).
Definition up_pending (s : sst) v := mkSst (iows s) (sgws s) (dlaters s) (drun s) (slots s) (kpend s) v (errno s) (ready s) (inwait s) (cursor s) (snext s) (siter s) (slog s) (running s).
Definition up_errno (s : sst) v := mkSst (iows s) (sgws s) (dlaters s) (drun s) (slots s) (kpend s) (pending s) v (ready s) (inwait s) (cursor s) (snext s) (siter s) (slog s) (running s).
Definition up_ready (s : sst) v := mkSst (iows s) (sgws s) (dlaters s) (drun s) (slots s) (kpend s) (pending s) (errno s) v (inwait s) (cursor s) (snext s) (siter s) (slog s) (running s).
Definition up_inwait (s : sst) v := mkSst (iows s) (sgws s) (dlaters s) (drun s) (slots s) (kpend s) (pending s) (errno s) (ready s) v (cursor s) (snext s) (siter s) (slog s) (running s).
Definition up_cursor (s : sst) v := mkSst (iows s) (sgws s) (dlaters s) (drun s) (slots s) (kpend s) (pending s) (errno s) (ready s) (inwait s) v (snext s) (siter s) (slog s) (running s).
Definition up_snext (s : sst) v := mkSst (iows s) (sgws s) (dlaters s) (drun s) (slots s) (kpend s) (pending s) (errno s) (ready s) (inwait s) (cursor s) v (siter s) (slog s) (running s).
Definition up_siter (s : sst) v := mkSst (iows s) (sgws s) (dlaters s) (drun s) (slots s) (kpend s) (pending s) (errno s) (ready s) (inwait s) (cursor s) (snext s) v (slog s) (running s).
Definition up_slog (s : sst) v := mkSst (iows s) (sgws s) (dlaters s) (drun s) (slots s) (kpend s) (pending s) (errno s) (ready s) (inwait s) (cursor s) (snext s) (siter s) v (running s).

Definition up_running (s : sst) v := mkSst (iows s) (sgws s) (dlaters s) (drun s) (slots s) (kpend s) (pending s) (errno s) (ready s) (inwait s) (cursor s) (snext s) (siter s) (slog s) v.

Definition semit (s : sst) (id : Z) (k : kind) (flags x : Z) : sst :=
  up_slog s (OEv (mkE id k flags (siter s) 0 x) :: slog s).

Definition memz (x : Z) (l : list Z) : bool := existsb (Z.eqb x) l.
Definition addz (x : Z) (l : list Z) : list Z := if memz x l then l else l ++ [x].

(* sigismember(&evdata->watched_signals, sig) *)
Definition is_watched (s : sst) (sig : Z) : bool := existsb (fun w => g_sig w =? sig) (sgws s).

(* TICKIT_IO_IN/OUT/HUP -> POLLIN/POLLOUT/POLLHUP *)
Definition events_of_cond (c : Z) : Z :=
  (if Z.testbit c 0 then 1 else 0) + (if Z.testbit c 1 then 4 else 0) + (if Z.testbit c 2 then 16 else 0).
(* POLLIN/POLLOUT/POLLHUP/POLLERR/POLLNVAL -> TICKIT_IO_IN/OUT/HUP/ERR/INVAL *)
Definition cond_of_revents (r : Z) : Z :=
  (if Z.testbit r 0 then 1 else 0) + (if Z.testbit r 2 then 2 else 0) + (if Z.testbit r 4 then 4 else 0) +
  (if Z.testbit r 3 then 8 else 0) + (if Z.testbit r 5 then 16 else 0).

Fixpoint find_free (l : list slot) (i : nat) : option nat :=
  match l with
  | [] => None
  | h :: t => if p_fd h =? -1 then Some i else find_free t (S i)
  end.

Fixpoint set_nth {A} (l : list A) (i : nat) (v : A) : list A :=
  match l, i with
  | [], _ => []
  | _ :: t, O => v :: t
  | h :: t, S i' => h :: set_nth t i' v
  end.

Fixpoint find_iow (id : Z) (l : list iow) : option iow :=
  match l with [] => None | h :: t => if i_id h =? id then Some h else find_iow id t end.

Fixpoint remove_iow (id : Z) (l : list iow) : list iow :=
  match l with [] => [] | h :: t => if i_id h =? id then t else h :: remove_iow id t end.
Fixpoint find_sgw (id : Z) (l : list sgw) : option sgw :=
  match l with [] => None | h :: t => if g_id h =? id then Some h else find_sgw id t end.
Fixpoint remove_sgw (id : Z) (l : list sgw) : list sgw :=
  match l with [] => [] | h :: t => if g_id h =? id then t else h :: remove_sgw id t end.
Fixpoint find_ltr (id : Z) (l : list ltr) : option ltr :=
  match l with [] => None | h :: t => if l_id h =? id then Some h else find_ltr id t end.
Fixpoint remove_ltr (id : Z) (l : list ltr) : list ltr :=
  match l with [] => [] | h :: t => if l_id h =? id then t else h :: remove_ltr id t end.

(* this->next of the signal watch with identity id *)
Fixpoint sgw_after (id : Z) (l : list sgw) : option Z :=
  match l with
  | [] => None
  | h :: t => if g_id h =? id then match t with [] => None | n :: _ => Some (g_id n) end
              else sgw_after id t
  end.

Definition lookup_ready (r : list (Z * Z)) (fd : Z) : Z :=
  match find (fun p => fst p =? fd) r with Some p => snd p | None => 0 end.

Section WithEnv.
Variable c : cfg.
Variable env : Z -> list saction.

(* evloop_io *)
Definition evloop_io (s : sst) (fd cond wid : Z) : sst * nat :=
  let ev := events_of_cond cond in
  match find_free (slots s) 0 with
  | Some i =>
      let old := nth i (slots s) (mkSlot (-1) 0 0 (-1)) in
      (up_slots s (set_nth (slots s) i (mkSlot fd ev (if revents_stale c then p_revents old else 0) wid)), i)
  | None =>
      (up_slots s (slots s ++ [mkSlot fd ev (if revents_stale c then GARBAGE else 0) wid]), length (slots s))
  end.

(* evloop_cancel_io *)
Definition evloop_cancel_io (s : sst) (i : nat) : sst :=
  match nth_error (slots s) i with
  | Some sl => up_slots s (set_nth (slots s) i (mkSlot (-1) (p_events sl) (p_revents sl) (-1)))
  | None => s
  end.

(* tickit_watch_cancel; a signal watch is left alone while its signal is pending in the
   kernel (cancelling the last watcher would restore the default action and unblock the
   signal, which terminates the process: excluded, see the assumptions) *)
Definition scancel (s : sst) (id : Z) : sst :=
  match find_iow id (iows s) with
  | Some w =>
      let s1 := up_iows s (remove_iow id (iows s)) in
      let s2 := if i_unbind w then semit s1 id KIo EV_UNBIND 0 else s1 in
      evloop_cancel_io s2 (i_slot w)
  | None =>
  match find_sgw id (sgws s) with
  | Some w =>
      if memz (g_sig w) (kpend s) then s else
      let nxt := sgw_after id (sgws s) in
      let s1 := up_sgws s (remove_sgw id (sgws s)) in
      let s2 := match cursor s1 with
                | Some cu => if cu =? id then up_cursor s1 nxt else s1
                | None => s1
                end in
      if g_unbind w then semit s2 id KSig EV_UNBIND (g_sig w) else s2
  | None =>
  match find_ltr id (dlaters s) with
  | Some w =>
      let s1 := up_dlaters s (remove_ltr id (dlaters s)) in
      if l_unbind w then semit s1 id KLater EV_UNBIND 0 else s1
  | None =>
  match find_ltr id (drun s) with
  | Some w =>
      let s1 := up_drun s (remove_ltr id (drun s)) in
      if l_unbind w then semit s1 id KLater EV_UNBIND 0 else s1
  | None => s
  end end end end.

Definition sdo_action (s : sst) (a : saction) : sst :=
  match a with
  | SLater ub cb =>
      up_snext (up_dlaters s (dlaters s ++ [mkLt (snext s) ub cb])) (snext s + 1)
  | SIo fd cond ub cb =>
      let (s1, i) := evloop_io s fd cond (snext s) in
      up_snext (up_iows s1 (iows s1 ++ [mkIo (snext s) fd i ub cb])) (snext s + 1)
  | SSig sig ub cb =>
      up_snext (up_sgws s (sgws s ++ [mkSg (snext s) sig ub cb])) (snext s + 1)
  | SCancel id => scancel s id
  | SErrno e => up_errno s e
  | SRaise sig => if is_watched s sig then up_kpend s (addz sig (kpend s)) else s
  | SNop => s
  | SStop => up_running s false
  end.

Definition sdo_actions (s : sst) (l : list saction) : sst := fold_left sdo_action l s.

(* the deferred callbacks run by tickit_evloop_invoke_timers *)
Fixpoint drun_loop (n : nat) (s : sst) : sst :=
  match n with
  | O => s
  | S n' =>
      match drun s with
      | [] => s
      | w :: r =>
          let s1 := semit (up_drun s r) (l_id w) KLater (EV_FIRE + EV_UNBIND) 0 in
          drun_loop n' (sdo_actions s1 (env (l_cb w)))
      end
  end.

Definition invoke_laters (s : sst) : sst :=
  let s1 := up_dlaters (up_drun s (drun s ++ dlaters s)) [] in
  drun_loop (length (drun s1)) s1.

(* what ppoll leaves in a slot's revents *)
Definition poll_slot (r : list (Z * Z)) (sl : slot) : slot :=
  if p_fd sl <? 0 then mkSlot (p_fd sl) (p_events sl) 0 (p_watch sl)
  else mkSlot (p_fd sl) (p_events sl) (Z.land (lookup_ready r (p_fd sl)) (Z.lor (p_events sl) 56)) (p_watch sl).

(* ppoll: returns pollret *)
Definition ppoll (s : sst) : Z * sst :=
  let sl := map (poll_slot (ready s)) (slots s) in
  let count := Z.of_nat (length (filter (fun x => negb (p_revents x =? 0)) sl)) in
  let s1 := up_inwait (up_ready (up_slots s sl) []) [] in
  if 0 <? count then (count, s1) else
  let delivered := kpend s ++ filter (is_watched s) (inwait s) in
  match delivered with
  | [] => (0, s1)
  | _ => (-1, up_errno (up_pending (up_kpend s1 []) (fold_left (fun p x => addz x p) delivered (pending s1))) EINTR)
  end.

(* the for loop over the poll slots in evloop_run; idx is re-compared with nfds each round *)
Fixpoint io_dispatch (fuel : nat) (idx : nat) (s : sst) : option sst :=
  match fuel with
  | O => None
  | S f =>
      match nth_error (slots s) idx with
      | None => Some s
      | Some sl =>
          if p_fd sl =? -1 then io_dispatch f (S idx) s
          else if p_revents sl =? 0 then io_dispatch f (S idx) s
          else
            match find_iow (p_watch sl) (iows s) with
            | None => None     (* pollwatches[idx] names no live watch: cannot happen *)
            | Some w =>
                let s1 := semit s (i_id w) KIo EV_FIRE (cond_of_revents (p_revents sl)) in
                io_dispatch f (S idx) (sdo_actions s1 (env (i_cb w)))
            end
      end
  end.

(* the watch tickit_run keeps for its duration: tickit_watch_signal(t, SIGINT, 0, &on_sigint, NULL),
   on_sigint = tickit_stop.  It is not one of the harness's watches: its number is negative, its
   invocation is not logged, its callback is fixed *)
Definition INT_ID : Z := -1.
Definition SIGINT : Z := 2.
Definition int_watch : sgw := mkSg INT_ID SIGINT false (-1).
Definition cb_acts (w : sgw) : list saction := if g_id w <? 0 then [SStop] else env (g_cb w).
Definition sig_fire (s : sst) (w : sgw) (sig : Z) : sst := if g_id w <? 0 then s else semit s (g_id w) KSig EV_FIRE sig.

(* tickit_evloop_invoke_sigwatches (repaired form):
     seq = ++t->sigwalk_seq;
     for(this = t->signals; this; this = t->next_sigwatch) {
       t->next_sigwatch = this->next;
       if(this->signum == signum && this->born < seq) call }
   A watch registered while the walk is under way (born = seq) is passed over, wherever the
   running watch stands in the list (fixes/C18-sigwatch-walk-snapshot.patch).  Registration
   numbers grow with time, so "born before this walk" is "number below [bound]", the counter
   when the walk began. *)
Fixpoint sig_walk (fuel : nat) (bound : Z) (this : option Z) (sig : Z) (s : sst) : option sst :=
  match fuel with
  | O => None
  | S f =>
      match this with
      | None => Some s
      | Some id =>
          match find_sgw id (sgws s) with
          | None => None    (* the cursor names a freed watch: cannot happen *)
          | Some w =>
              let s1 := up_cursor s (sgw_after id (sgws s)) in
              let s2 := if (g_sig w =? sig) && (g_id w <? bound)
                        then sdo_actions (sig_fire s1 w sig) (cb_acts w)
                        else s1 in
              sig_walk f bound (cursor s2) sig s2
          end
      end
  end.

Fixpoint insert_sorted (x : Z) (l : list Z) : list Z :=
  match l with [] => [x] | h :: t => if x <=? h then x :: l else h :: insert_sorted x t end.
Definition sort_z (l : list Z) : list Z := fold_right insert_sorted [] l.

(* dispatch_signals: take and clear the pending set, then by ascending signal number *)
Fixpoint dispatch_sigs (fuel : nat) (sigs : list Z) (s : sst) : option sst :=
  match sigs with
  | [] => Some s
  | sg :: r =>
      if is_watched s sg
      then match sig_walk fuel (snext s) (match sgws s with [] => None | h :: _ => Some (g_id h) end) sg s with
           | None => None
           | Some s1 => dispatch_sigs fuel r s1
           end
      else dispatch_sigs fuel r s
  end.

Definition dispatch_signals (fuel : nat) (s : sst) : option sst :=
  let p := sort_z (pending s) in
  dispatch_sigs fuel p (up_pending s []).

(* one pass of the loop of evloop_run *)
Definition iteration (fuel : nat) (sleep : bool) (s : sst) : option sst :=
  let s0 := up_siter s (siter s + 1) in
  let msec := if sleep then match dlaters s0 with [] => -1 | _ => 0 end else 0 in
  let s1 := up_slog s0 (OPoll msec :: slog s0) in
  let (ret, s2) := ppoll s1 in
  let latched := errno s2 in
  let s3 := invoke_laters s2 in
  if stop_early c && negb (running s3) then Some s3
  else if 0 <? ret then io_dispatch fuel 0 s3
  else if (ret <? 0) && ((if errno_late c then errno s3 else latched) =? EINTR) then dispatch_signals fuel s3
  else Some s3.

(* tickit_tick: evloop_run with ONCE / NOHANG sets still_running, makes one pass and returns *)
Definition stick (fuel : nat) (sleep : bool) (s : sst) : option sst :=
  iteration fuel sleep (up_running s true).

(* tickit_run: evloop_run loops while(still_running); the harness calls tickit_stop from inside
   the k-th ppoll of the run, so the k-th pass is the last at the latest. *)
Fixpoint run_passes (fuel : nat) (k : nat) (s : sst) : option sst :=
  match k with
  | O => Some s
  | S k' =>
      if negb (running s) then Some s
      else match iteration fuel true (if Nat.eqb k' 0 then up_running s false else s) with
           | None => None
           | Some s2 => run_passes fuel k' s2
           end
  end.

(* destroy_watchlist over iowatches, laters, signals: UNBIND|DESTROY to those that asked *)
Definition sdestroy (s : sst) : sst :=
  let s0 := up_siter s (-1) in
  let s1 := fold_left (fun s w => if i_unbind w then semit s (i_id w) KIo (EV_UNBIND + EV_DESTROY) 0 else s) (iows s0) s0 in
  let s2 := fold_left (fun s w => if l_unbind w then semit s (l_id w) KLater (EV_UNBIND + EV_DESTROY) 0 else s) (dlaters s0) s1 in
  fold_left (fun s w => if g_unbind w then semit s (g_id w) KSig (EV_UNBIND + EV_DESTROY) (g_sig w) else s) (sgws s0) s2.

Definition sdo_op (fuel : nat) (os : option sst) (o : sop) : option sst :=
  match os with
  | None => None
  | Some s =>
      match o with
      | SAct a => Some (sdo_action s a)
      | STick sl => stick fuel sl s
      | SReady fd rv => Some (up_ready s ((fd, rv) :: ready s))
      | SArrive sg => Some (up_inwait s (inwait s ++ [sg]))
      | SRunLoop k =>
          (* the SIGINT watch is registered first and cancelled when the loop has returned (a stale
             one is dropped first: there never is one) *)
          let s1 := up_sgws (up_running s true) (remove_sgw INT_ID (sgws s) ++ [int_watch]) in
          match run_passes fuel k s1 with
          | Some s2 => Some (up_sgws s2 (remove_sgw INT_ID (sgws s2)))
          | None => None
          end
      end
  end.

Definition srun_ops (fuel : nat) (ops : list sop) : option sst := fold_left (sdo_op fuel) ops (Some sst0).

Definition srun (fuel : nat) (ops : list sop) : option (list obs) :=
  match srun_ops fuel ops with
  | Some s => Some (rev (slog (sdestroy s)))
  | None => None
  end.

End WithEnv.
