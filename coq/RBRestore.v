(* RBRestore.v -- save; <any balanced program>; restore brings translation, clip, pen,
   cursor, stack and masks back to what they were at the save and leaves the cells' contents
   as the inner program left them. *)
From Coq Require Import ZArith List Bool Lia.
From Tickit Require Import RectDefs RBDefs RBSpec RBLemmas RBAbsLemmas RBInv RBOpProofs RBProofs RBProps.
Import ListNotations.
Local Open Scope Z_scope.

(* a program that pops only what it pushed, ends with nothing of its own on the stack, and
   does not reset the buffer; [k] = frames it currently owns *)
Fixpoint balanced (k : nat) (ops : list rbop) : bool :=
  match ops with
  | [] => match k with O => true | S _ => false end
  | o :: rest =>
      match o with
      | OSave | OSavePen => balanced (S k) rest
      | ORestore => match k with O => false | S k' => balanced k' rest end
      | OReset => false
      | _ => balanced k rest
      end
  end.

(* masks never exceed the nesting depth, and the depth is the height of the stack *)
Definition ainv (s : ast) : Prop :=
  ashape s /\ depth (a_aux s) = zlen (stack (a_aux s)) /\
  forall y x, in_grid s y x -> -1 <= am (gcell (ag s) y x) <= depth (a_aux s).

Definition plain (o : rbop) : bool :=
  match o with OSave | OSavePen | ORestore | OReset | OMask _ => false | _ => true end.

(* plain operations leave masks, stack and depth alone *)
Lemma linecell_fold_am : forall (pos : Z * Z -> Z * Z) l s y x,
  ashape s -> in_grid s y x ->
  am (gcell (ag (fold_left (fun acc cb => a_linecell acc (fst (pos cb)) (snd (pos cb)) (snd cb)) l s)) y x) = am (gcell (ag s) y x).
Proof.
  intros pos l. induction l as [|cb l IH]; intros s y x H Hg; cbn [fold_left]; [reflexivity|].
  rewrite IH.
  - unfold a_linecell. destruct H as (H1 & H2). destruct Hg as (Hy & Hx).
    rewrite gcell_a_paint by (try rewrite H2 by assumption; lia). cbv zeta.
    destruct (_ && _); reflexivity.
  - unfold a_linecell. apply ashape_paint. assumption.
  - exact Hg.
Qed.

Lemma astep_plain : forall s o y x,
  ashape s -> in_grid s y x -> plain o = true ->
  am (gcell (ag (fst (astep s o))) y x) = am (gcell (ag s) y x) /\
  stack (a_aux (fst (astep s o))) = stack (a_aux s) /\ depth (a_aux (fst (astep s o))) = depth (a_aux s).
Proof.
  intros s o y x H Hg Hp.
  assert (P : forall r F, am (gcell (ag (a_paint s r F)) y x) = am (gcell (ag s) y x) /\
                          stack (a_aux (a_paint s r F)) = stack (a_aux s) /\ depth (a_aux (a_paint s r F)) = depth (a_aux s)).
  { intros r F. split; [|split; reflexivity]. destruct H as (H1 & H2). destruct Hg as (Hy & Hx).
    rewrite gcell_a_paint by (try rewrite H2 by assumption; lia). cbv zeta. destruct (_ && _); reflexivity. }
  destruct o; cbn [astep fst plain] in *; try discriminate; try (split; [reflexivity|split; reflexivity]); try apply P;
    try (destruct (vc_set (a_aux s)); cbn [negb fst]; [apply P|split; [reflexivity|split; reflexivity]]).
  - (* clip *) split; [reflexivity|]. unfold ax_clip. destruct (r_intersect _ _); split; reflexivity.
  - destruct (text_valid t); cbn [negb fst]; [apply P|split; [reflexivity|split; reflexivity]].
  - destruct (vc_set (a_aux s)); cbn [negb fst]; [|split; [reflexivity|split; reflexivity]].
    destruct (text_valid t); cbn [negb fst]; [apply P|split; [reflexivity|split; reflexivity]].
  - unfold a_char. destruct (text_valid [cp]); cbn [negb]; [|split; [reflexivity|split; reflexivity]].
    destruct (cpw cp =? 1); apply P.
  - destruct (vc_set (a_aux s)); cbn [negb fst]; [|split; [reflexivity|split; reflexivity]].
    destruct (text_valid [cp] && (0 <? cpw cp)) eqn:E; cbn [fst]; [|split; [reflexivity|split; reflexivity]].
    unfold a_char. apply andb_true_iff in E. destruct E as (E1 & _). rewrite E1. cbn [negb].
    destruct (cpw cp =? 1); apply P.
  - split; [apply (linecell_fold_am (fun cb => (l, fst cb))); assumption|].
    rewrite (a_linecell_fold_aux (fun cb => (l, fst cb))). split; reflexivity.
  - split; [apply (linecell_fold_am (fun lb => (fst lb, c))); assumption|].
    rewrite (a_linecell_fold_aux (fun lb => (fst lb, c))). split; reflexivity.
Qed.

(* ---------------------------------------------------------------------------------- *)
(* the invariant carried through the inner program *)

Section SaveRestore.
  Variable s0 : ast.                      (* the state at the save *)
  Hypothesis A0 : ainv s0.
  Let d := depth (a_aux s0).
  Let f := mkFrame (vc_set (a_aux s0)) (vc_line (a_aux s0)) (vc_col (a_aux s0)) (xl (a_aux s0)) (xc (a_aux s0))
                   (clip (a_aux s0)) (cur_pen (a_aux s0)) false.

  Definition inner (k : nat) (st : ast) : Prop :=
    ashape st /\ a_lines st = a_lines s0 /\ a_cols st = a_cols s0 /\
    (exists pre, stack (a_aux st) = pre ++ f :: stack (a_aux s0) /\ length pre = k) /\
    depth (a_aux st) = d + 1 + Z.of_nat k /\
    forall y x, in_grid s0 y x ->
      let m0 := am (gcell (ag s0) y x) in
      let m := am (gcell (ag st) y x) in
      if m0 =? -1 then m = -1 \/ d + 1 <= m else m = m0.

  Lemma inner_start : inner 0 (fst (astep s0 OSave)).
  Proof.
    destruct A0 as (Hs & Hd & Hm). cbn [astep fst]. unfold inner. cbn [set_a_aux ag a_aux a_lines a_cols].
    split; [exact Hs|]. split; [reflexivity|]. split; [reflexivity|].
    split; [exists []; split; reflexivity|]. split; [cbn; fold d; lia|].
    intros y x Hg. cbv zeta. destruct (Z.eqb_spec (am (gcell (ag s0) y x)) (-1)); [left; assumption|reflexivity].
  Qed.

  Lemma in_grid_same : forall st y x, a_lines st = a_lines s0 -> a_cols st = a_cols s0 -> in_grid s0 y x -> in_grid st y x.
  Proof. intros st y x H1 H2 (Hy & Hx). unfold in_grid. rewrite H1, H2. auto. Qed.

  Lemma inner_step : forall k st o rest,
    inner k st -> balanced k (o :: rest) = true ->
    exists k', inner k' (fst (astep st o)) /\ balanced k' rest = true.
  Proof.
    intros k st o rest (Hs & HL & HC & (pre & Hst & Hpre) & Hd & Hm) Hb.
    destruct (astep_shape st o Hs) as (Hs' & HL' & HC').
    destruct (plain o) eqn:Ep.
    - (* masks, stack, depth untouched *)
      exists k. split.
      + split; [assumption|]. split; [congruence|]. split; [congruence|].
        assert (G : forall y x, in_grid s0 y x -> _) by (intros y x Hg; exact (astep_plain st o y x Hs (in_grid_same st y x HL HC Hg) Ep)).
        assert (exists y x : Z, True) as _ by (exists 0, 0; exact Logic.I).
        split.
        * exists pre. split; [|assumption].
          (* stack: from astep_plain at any cell, or directly when the grid is empty *)
          destruct o; cbn [plain] in Ep; try discriminate; cbn [astep fst]; try exact Hst;
            try (destruct (vc_set (a_aux st)); cbn [negb fst]; exact Hst).
          -- unfold ax_clip. destruct (r_intersect _ _); exact Hst.
          -- destruct (text_valid t); exact Hst.
          -- destruct (vc_set (a_aux st)); cbn [negb fst]; [|exact Hst]. destruct (text_valid t); exact Hst.
          -- unfold a_char. destruct (text_valid [cp]); cbn [negb]; [|exact Hst]. destruct (cpw cp =? 1); exact Hst.
          -- destruct (vc_set (a_aux st)); cbn [negb fst]; [|exact Hst].
             destruct (text_valid [cp] && (0 <? cpw cp)); cbn [fst]; [|exact Hst].
             unfold a_char. destruct (text_valid [cp]); cbn [negb]; [|exact Hst]. destruct (cpw cp =? 1); exact Hst.
          -- rewrite (a_linecell_fold_aux (fun cb => (l, fst cb))). exact Hst.
          -- rewrite (a_linecell_fold_aux (fun lb => (fst lb, c))). exact Hst.
        * split.
          -- destruct o; cbn [plain] in Ep; try discriminate; cbn [astep fst]; try exact Hd;
               try (destruct (vc_set (a_aux st)); cbn [negb fst]; exact Hd).
             ++ unfold ax_clip. destruct (r_intersect _ _); exact Hd.
             ++ destruct (text_valid t); exact Hd.
             ++ destruct (vc_set (a_aux st)); cbn [negb fst]; [|exact Hd]. destruct (text_valid t); exact Hd.
             ++ unfold a_char. destruct (text_valid [cp]); cbn [negb]; [|exact Hd]. destruct (cpw cp =? 1); exact Hd.
             ++ destruct (vc_set (a_aux st)); cbn [negb fst]; [|exact Hd].
                destruct (text_valid [cp] && (0 <? cpw cp)); cbn [fst]; [|exact Hd].
                unfold a_char. destruct (text_valid [cp]); cbn [negb]; [|exact Hd]. destruct (cpw cp =? 1); exact Hd.
             ++ rewrite (a_linecell_fold_aux (fun cb => (l, fst cb))). exact Hd.
             ++ rewrite (a_linecell_fold_aux (fun lb => (fst lb, c))). exact Hd.
          -- intros y x Hg. cbv zeta. destruct (G y x Hg) as (G1 & _). rewrite G1. exact (Hm y x Hg).
      + destruct o; cbn [plain] in Ep; try discriminate; cbn [balanced] in Hb; exact Hb.
    - destruct o; cbn [plain] in Ep; try discriminate; cbn [balanced] in Hb.
      + (* mask *)
        exists k. split; [|exact Hb].
        split; [assumption|]. split; [congruence|]. split; [congruence|].
        cbn [astep fst a_mask set_ag a_aux]. split; [exists pre; auto|]. split; [exact Hd|].
        intros y x Hg. cbv zeta. destruct Hs as (H1 & H2).
        destruct (in_grid_same st y x HL HC Hg) as (Hy & Hx).
        unfold a_mask. cbn [ag set_ag].
        rewrite gcell_mapi2 by (try rewrite H2 by assumption; lia).
        specialize (Hm y x Hg). cbv zeta in Hm.
        destruct (Z.eqb_spec (am (gcell (ag s0) y x)) (-1)).
        * destruct (cell_inb _ _ && (am (gcell (ag st) y x) =? -1)) eqn:E; cbn [am]; [right; lia|exact Hm].
        * destruct (cell_inb _ _ && (am (gcell (ag st) y x) =? -1)) eqn:E; cbn [am]; [|exact Hm].
          apply andb_true_iff in E. destruct E as (_ & E). apply Z.eqb_eq in E. lia.
      + (* save *)
        exists (S k). split; [|exact Hb].
        split; [assumption|]. split; [congruence|]. split; [congruence|].
        cbn [astep fst set_a_aux a_aux ax_save ax_set_stack stack depth ag].
        split; [eexists (_ :: pre); split; [rewrite Hst; reflexivity|cbn [length]; lia]|].
        split; [rewrite Hd; lia|exact Hm].
      + (* savepen *)
        exists (S k). split; [|exact Hb].
        split; [assumption|]. split; [congruence|]. split; [congruence|].
        cbn [astep fst set_a_aux a_aux ax_savepen ax_set_stack stack depth ag].
        split; [eexists (_ :: pre); split; [rewrite Hst; reflexivity|cbn [length]; lia]|].
        split; [rewrite Hd; lia|exact Hm].
      + (* restore: only of an own frame *)
        destruct k as [|k']; [discriminate|].
        exists k'. split; [|exact Hb].
        destruct pre as [|f' pre']; [discriminate|]. cbn [length] in Hpre.
        split; [assumption|]. split; [congruence|]. split; [congruence|].
        cbn [astep fst]. unfold a_restore. rewrite Hst. cbn [app].
        cbn [a_aux ag]. unfold ax_restore. rewrite Hst. cbn [app].
        cbn [ax_set_stack ax_set_pen stack depth].
        split; [exists pre'; split; [reflexivity|lia]|].
        split; [rewrite Hd; lia|].
        intros y x Hg. cbv zeta. destruct Hs as (H1 & H2).
        destruct (in_grid_same st y x HL HC Hg) as (Hy & Hx).
        rewrite gcell_map2 by (try rewrite H2 by assumption; lia).
        specialize (Hm y x Hg). cbv zeta in Hm.
        destruct A0 as (_ & _ & Hm0). specialize (Hm0 y x Hg). fold d in Hm0.
        destruct (Z.eqb_spec (am (gcell (ag s0) y x)) (-1)).
        * destruct (Z.gtb_spec (am (gcell (ag st) y x)) (depth (a_aux st) - 1)); cbn [am]; [left; reflexivity|exact Hm].
        * destruct (Z.gtb_spec (am (gcell (ag st) y x)) (depth (a_aux st) - 1)); cbn [am]; [lia|exact Hm].
  Qed.

  Lemma inner_run : forall ops k st,
    inner k st -> balanced k ops = true -> inner 0 (fst (arun st ops)).
  Proof.
    induction ops as [|o ops IH]; intros k st Hi Hb.
    - cbn [arun fst]. destruct k; [exact Hi|discriminate].
    - destruct (inner_step k st o ops Hi Hb) as (k' & Hi' & Hb').
      cbn [arun]. destruct (astep st o) as [s1 v1]. cbn [fst] in Hi'.
      specialize (IH k' s1 Hi' Hb'). destruct (arun s1 ops) as [s2 v2]. exact IH.
  Qed.

  (* the statement *)
  Theorem save_restore : forall ops,
    balanced 0 ops = true ->
    let s1 := fst (astep s0 OSave) in
    let s2 := fst (arun s1 ops) in
    let s3 := fst (astep s2 ORestore) in
    a_aux s3 = a_aux s0 /\
    forall y x, in_grid s0 y x ->
      ac (gcell (ag s3) y x) = ac (gcell (ag s2) y x) /\
      am (gcell (ag s3) y x) = am (gcell (ag s0) y x).
  Proof.
    intros ops Hb s1 s2 s3.
    assert (Hi : inner 0 s2) by (apply (inner_run ops 0 s1); [apply inner_start|exact Hb]).
    destruct Hi as (Hs & HL & HC & (pre & Hst & Hpre) & Hd & Hm).
    destruct pre; [|discriminate]. cbn [app] in Hst.
    unfold s3. cbn [astep fst]. unfold a_restore. rewrite Hst.
    cbn [a_aux ag]. unfold ax_restore. rewrite Hst. cbn [f f_pen_only f_vc_set f_vc_line f_vc_col f_xl f_xc f_clip f_pen].
    split.
    - unfold ax_set_stack, ax_set_pen, ax_set_clip, ax_set_xlate, ax_set_vc.
      cbn [vc_set vc_line vc_col xl xc clip cur_pen depth stack].
      assert (Hd' : depth (a_aux s2) - 1 = depth (a_aux s0)) by (unfold d in Hd; cbn [Z.of_nat] in Hd; lia).
      rewrite Hd'. destruct (a_aux s0); reflexivity.
    - intros y x Hg. destruct Hs as (H1 & H2).
      destruct (in_grid_same s2 y x HL HC Hg) as (Hy & Hx).
      rewrite gcell_map2 by (try rewrite H2 by assumption; lia).
      specialize (Hm y x Hg). cbv zeta in Hm.
      destruct A0 as (_ & _ & Hm0). specialize (Hm0 y x Hg). fold d in Hm0.
      cbn [ax_set_stack ax_set_pen depth]. rewrite Hd. cbn [Z.of_nat].
      destruct (Z.gtb_spec (am (gcell (ag s2) y x)) (d + 1 + 0 - 1)); cbn [ac am].
      + split; [reflexivity|]. destruct (Z.eqb_spec (am (gcell (ag s0) y x)) (-1)); lia.
      + split; [reflexivity|]. destruct (Z.eqb_spec (am (gcell (ag s0) y x)) (-1)); lia.
  Qed.
End SaveRestore.

(* ---------------------------------------------------------------------------------- *)
(* ainv holds in every state a program reaches from a new buffer *)

Theorem astep_ainv : forall s o, ainv s -> ainv (fst (astep s o)).
Proof.
  intros s o (Hs & Hd & Hm).
  destruct (astep_shape s o Hs) as (Hs' & HL' & HC').
  destruct (plain o) eqn:Ep.
  - split; [assumption|].
    assert (G : forall y x, in_grid s y x -> _) by (intros y x Hg; exact (astep_plain s o y x Hs Hg Ep)).
    (* stack and depth do not depend on a cell; take them from the definition *)
    assert (K : stack (a_aux (fst (astep s o))) = stack (a_aux s) /\ depth (a_aux (fst (astep s o))) = depth (a_aux s)).
    { destruct o; cbn [plain] in Ep; try discriminate; cbn [astep fst]; try (split; reflexivity);
        try (destruct (vc_set (a_aux s)); cbn [negb fst]; split; reflexivity).
      - unfold ax_clip. destruct (r_intersect _ _); split; reflexivity.
      - destruct (text_valid t); split; reflexivity.
      - destruct (vc_set (a_aux s)); cbn [negb fst]; [|split; reflexivity]. destruct (text_valid t); split; reflexivity.
      - unfold a_char. destruct (text_valid [cp]); cbn [negb]; [|split; reflexivity]. destruct (cpw cp =? 1); split; reflexivity.
      - destruct (vc_set (a_aux s)); cbn [negb fst]; [|split; reflexivity].
        destruct (text_valid [cp] && (0 <? cpw cp)); cbn [fst]; [|split; reflexivity].
        unfold a_char. destruct (text_valid [cp]); cbn [negb]; [|split; reflexivity]. destruct (cpw cp =? 1); split; reflexivity.
      - rewrite (a_linecell_fold_aux (fun cb => (l, fst cb))). split; reflexivity.
      - rewrite (a_linecell_fold_aux (fun lb => (fst lb, c))). split; reflexivity. }
    destruct K as (K1 & K2). split; [rewrite K1, K2; assumption|].
    intros y x Hg. assert (Hg' : in_grid s y x) by (destruct Hg; split; congruence).
    destruct (G y x Hg') as (G1 & _). rewrite G1, K2. apply Hm; assumption.
  - destruct o; cbn [plain] in Ep; try discriminate.
    + (* mask *)
      split; [assumption|]. cbn [astep fst]. unfold a_mask. cbn [set_ag a_aux ag]. split; [assumption|].
      intros y x Hg. assert (Hg' : in_grid s y x) by (destruct Hg; split; assumption).
      destruct Hs as (H1 & H2). destruct Hg' as (Hy & Hx).
      rewrite gcell_mapi2 by (try rewrite H2 by assumption; lia).
      specialize (Hm y x (conj Hy Hx)). pose proof (zlen_nonneg (stack (a_aux s))).
      destruct (_ && _); cbn [am]; lia.
    + (* save *)
      split; [assumption|]. cbn [astep fst set_a_aux a_aux ag ax_save ax_set_stack stack depth].
      split; [unfold zlen in *; cbn [length]; lia|].
      intros y x Hg. specialize (Hm y x Hg). lia.
    + (* savepen *)
      split; [assumption|]. cbn [astep fst set_a_aux a_aux ag ax_savepen ax_set_stack stack depth].
      split; [unfold zlen in *; cbn [length]; lia|].
      intros y x Hg. specialize (Hm y x Hg). lia.
    + (* restore *)
      split; [assumption|]. cbn [astep fst]. unfold a_restore.
      destruct (stack (a_aux s)) as [|f rest] eqn:Es; [rewrite Es; split; assumption|].
      cbn [a_aux ag]. unfold ax_restore. rewrite Es. cbn [ax_set_stack ax_set_pen stack depth].
      split; [unfold zlen in *; cbn [length] in Hd; lia|].
      intros y x Hg. destruct Hs as (H1 & H2). destruct Hg as (Hy & Hx). cbn [a_lines a_cols] in Hy, Hx.
      rewrite gcell_map2 by (try rewrite H2 by assumption; lia).
      specialize (Hm y x (conj Hy Hx)). unfold zlen in Hd. cbn [length] in Hd.
      destruct (Z.gtb_spec (am (gcell (ag s) y x)) (depth (a_aux s) - 1)); cbn [am]; lia.
    + (* reset *)
      split; [assumption|]. cbn [astep fst]. unfold a_reset. cbn [a_aux ag ax_reset stack depth].
      split; [reflexivity|].
      intros y x (Hy & Hx). cbn [a_lines a_cols] in Hy, Hx. unfold gcell.
      rewrite zn_repeat by lia. rewrite zn_repeat by lia. cbn. lia.
Qed.

Theorem ainv_new : forall L C, 0 <= L -> 0 <= C -> ainv (a_new L C).
Proof.
  intros L C HL HC. split; [apply ashape_new; assumption|]. split; [reflexivity|].
  intros y x (Hy & Hx). cbn [a_new a_lines a_cols ag a_aux aux_new depth] in *. unfold gcell.
  rewrite zn_repeat by lia. rewrite zn_repeat by lia. cbn. lia.
Qed.

Theorem arun_ainv : forall ops s, ainv s -> ainv (fst (arun s ops)).
Proof.
  induction ops as [|o ops IH]; intros s H; cbn [arun]; [exact H|].
  pose proof (astep_ainv s o H) as H1. destruct (astep s o) as [s1 v1]. cbn [fst] in H1.
  specialize (IH s1 H1). destruct (arun s1 ops) as [s2 v2]. exact IH.
Qed.
