(* WinLocality.v -- part D of the locality argument for property C01 and the two lemmas
   every operation is assembled from.
   D. two child lists that agree after removing the children with id w have the same first
      owner at every position outside the visible rectangles of those children
      (first_owner_same_rest); the z-order edits, kids_remove and the info update of one
      child all leave [kids_remove w] unchanged.
   preserve_engine: if the tree changes by replacing the child list of one window, the
      local first owners differ only at positions flagged by E, and every screen cell whose
      descent arrives at a flagged position is covered by the new damage, ScreenInv survives.
   expose_covers_gen: win_expose covers every cell whose descent arrives in the exposed
      rectangle.
   (Parts A, B: WinLocA.v; part C: WinLocTree.v.) *)
From Coq Require Import ZArith List Bool Lia ZifyBool Permutation.
From Tickit Require Import RectDefs RectProofs WinRectSet WinRectSetProofs WinDefs WinSpec
  WinExposeProofs WinFlushProofs WinLogDisjoint WinScreenInv.
From Tickit Require Export WinLocA WinLocTree.
Import ListNotations.
Local Open Scope Z_scope.
Local Strategy 1000 [rsfuel].

(* ------------------------------------------------------------------------------------ *)
(* D. first owners and kids_remove                                                       *)

Definition hidden_at (w : Z) (ch : list wtree) (p : cell) : Prop :=
  forall c, In c ch -> t_id c = w -> w_vis (t_info c) && cell_inb (w_rect (t_info c)) p = false.

Lemma first_owner_remove w ch p :
  hidden_at w ch p -> first_owner (kids_remove w ch) p = first_owner ch p.
Proof.
  unfold hidden_at, kids_remove. induction ch as [|c r IH]; intros H; [reflexivity|].
  cbn [filter first_owner]. destruct (t_id c =? w) eqn:E; cbn [negb].
  - rewrite (H c (or_introl eq_refl)) by lia. apply IH. intros x Hx. apply H. right; exact Hx.
  - cbn [first_owner]. rewrite IH; [reflexivity|]. intros x Hx. apply H. right; exact Hx.
Qed.

Theorem first_owner_same_rest w ch ch' p :
  kids_remove w ch' = kids_remove w ch -> hidden_at w ch p -> hidden_at w ch' p ->
  first_owner ch' p = first_owner ch p.
Proof.
  intros E H H'. rewrite <- (first_owner_remove w ch p H), <- (first_owner_remove w ch' p H'), E.
  reflexivity.
Qed.

Lemma kids_remove_cons w c l :
  kids_remove w (c :: l) = if t_id c =? w then kids_remove w l else c :: kids_remove w l.
Proof. unfold kids_remove. cbn [filter]. destruct (t_id c =? w); reflexivity. Qed.

Lemma kids_remove_app w a b : kids_remove w (a ++ b) = kids_remove w a ++ kids_remove w b.
Proof. unfold kids_remove. apply filter_app. Qed.

Lemma kids_remove_idem w l : kids_remove w (kids_remove w l) = kids_remove w l.
Proof.
  induction l as [|c r IH]; [reflexivity|]. rewrite kids_remove_cons.
  destruct (t_id c =? w) eqn:E; [exact IH|]. rewrite kids_remove_cons, E, IH. reflexivity.
Qed.

Lemma kids_remove_in w l c : In c (kids_remove w l) -> In c l /\ t_id c <> w.
Proof. unfold kids_remove. rewrite filter_In. intros [H1 H2]. split; [exact H1|lia]. Qed.

Lemma kids_remove_none w l : (forall c, In c l -> t_id c <> w) -> kids_remove w l = l.
Proof.
  induction l as [|c r IH]; intros H; [reflexivity|]. rewrite kids_remove_cons.
  pose proof (H c (or_introl eq_refl)) as Hc. replace (t_id c =? w) with false by lia.
  rewrite IH; [reflexivity|]. intros x Hx. apply H. right; exact Hx.
Qed.

Lemma kids_find_some w l c : kids_find w l = Some c -> In c l /\ t_id c = w.
Proof.
  unfold kids_find. intros H. apply find_some in H. destruct H as [H1 H2]. split; [exact H1|lia].
Qed.

(* the z-order edits *)
Lemma raise_go_remove w : forall l prev, t_id prev <> w ->
  kids_remove w (kids_raise_go w prev l) = kids_remove w (prev :: l).
Proof.
  induction l as [|x r IH]; intros prev Hp; [reflexivity|]. cbn [kids_raise_go].
  destruct (t_id x =? w) eqn:E.
  - rewrite (kids_remove_cons w x), E, (kids_remove_cons w prev (x :: r)), (kids_remove_cons w x r), E.
    rewrite kids_remove_cons. reflexivity.
  - rewrite (kids_remove_cons w prev (kids_raise_go w x r)), IH by lia.
    rewrite (kids_remove_cons w prev (x :: r)). reflexivity.
Qed.

Lemma raise_go_perm w : forall l prev, Permutation (kids_raise_go w prev l) (prev :: l).
Proof.
  induction l as [|x r IH]; intros prev; [apply Permutation_refl|]. cbn [kids_raise_go].
  destruct (t_id x =? w).
  - apply perm_swap.
  - apply perm_skip. apply IH.
Qed.

Lemma kids_raise_remove w l : kids_remove w (kids_raise w l) = kids_remove w l.
Proof.
  destruct l as [|a rest]; [reflexivity|]. cbn [kids_raise].
  destruct (t_id a =? w) eqn:E; [reflexivity|]. apply raise_go_remove. lia.
Qed.

Lemma kids_raise_perm w l : Permutation (kids_raise w l) l.
Proof.
  destruct l as [|a rest]; [apply Permutation_refl|]. cbn [kids_raise].
  destruct (t_id a =? w); [apply Permutation_refl|apply raise_go_perm].
Qed.

Lemma kids_lower_remove w l : kids_remove w (kids_lower w l) = kids_remove w l.
Proof.
  induction l as [|a rest IH]; [reflexivity|]. cbn [kids_lower].
  destruct (t_id a =? w) eqn:E.
  - destruct rest as [|b r]; [reflexivity|].
    rewrite (kids_remove_cons w b), (kids_remove_cons w a r), E.
    rewrite (kids_remove_cons w a (b :: r)), E, (kids_remove_cons w b r). reflexivity.
  - rewrite !kids_remove_cons, E, IH. reflexivity.
Qed.

Lemma kids_lower_perm w l : Permutation (kids_lower w l) l.
Proof.
  induction l as [|a rest IH]; [apply Permutation_refl|]. cbn [kids_lower].
  destruct (t_id a =? w).
  - destruct rest as [|b r]; [apply Permutation_refl|apply perm_swap].
  - apply perm_skip. exact IH.
Qed.

Lemma kids_front_perm w : forall l w0, NoDup (flat_map t_ids l) -> kids_find w l = Some w0 ->
  Permutation (w0 :: kids_remove w l) l.
Proof.
  induction l as [|a r IH]; intros w0 Hnd Hf; [discriminate|].
  unfold kids_find in Hf. cbn [find] in Hf. rewrite kids_remove_cons.
  destruct (t_id a =? w) eqn:E.
  - injection Hf as <-. rewrite kids_remove_none; [apply Permutation_refl|].
    intros c Hc Hid.
    assert (Hac : a = c).
    { apply (kids_same_id (a :: r) a c Hnd); [left; reflexivity|right; exact Hc|lia]. }
    subst c. cbn [flat_map] in Hnd. apply nodup_app_inv in Hnd. destruct Hnd as (_ & _ & Hx).
    apply (Hx (t_id a)); [apply t_id_in|]. eapply in_kid_ids; [exact Hc|apply t_id_in].
  - cbn [flat_map] in Hnd. apply nodup_app_inv in Hnd. destruct Hnd as (_ & Hr & _).
    eapply Permutation_trans; [apply perm_swap|]. apply perm_skip. apply IH; assumption.
Qed.

Theorem hchange_remove k w l : kids_remove w (apply_hchange k w l) = kids_remove w l.
Proof.
  destruct k; cbn [apply_hchange].
  - apply kids_raise_remove.
  - destruct (kids_find w l) as [w0|] eqn:E; [|reflexivity].
    apply kids_find_some in E. destruct E as [_ E].
    rewrite kids_remove_cons. replace (t_id w0 =? w) with true by lia. apply kids_remove_idem.
  - apply kids_lower_remove.
  - destruct (kids_find w l) as [w0|] eqn:E; [|reflexivity].
    apply kids_find_some in E. destruct E as [_ E].
    rewrite kids_remove_app, kids_remove_idem, kids_remove_cons.
    replace (t_id w0 =? w) with true by lia. cbn [kids_remove filter]. apply app_nil_r.
Qed.

Theorem hchange_perm k w l : NoDup (flat_map t_ids l) -> Permutation (apply_hchange k w l) l.
Proof.
  intros Hnd. destruct k; cbn [apply_hchange].
  - apply kids_raise_perm.
  - destruct (kids_find w l) as [w0|] eqn:E; [|apply Permutation_refl].
    apply kids_front_perm; assumption.
  - apply kids_lower_perm.
  - destruct (kids_find w l) as [w0|] eqn:E; [|apply Permutation_refl].
    eapply Permutation_trans; [|apply (kids_front_perm w l w0 Hnd E)].
    apply Permutation_sym. apply Permutation_cons_append.
Qed.

Lemma perm_ids (l l' : list wtree) :
  Permutation l' l -> Permutation (flat_map t_ids l') (flat_map t_ids l).
Proof.
  induction 1 as [|x a b _ IH|x y a|a b c _ IH1 _ IH2]; cbn [flat_map].
  - apply Permutation_refl.
  - apply Permutation_app_head. exact IH.
  - rewrite !app_assoc. apply Permutation_app_tail. apply Permutation_app_comm.
  - eapply Permutation_trans; eassumption.
Qed.

Lemma remove_ids w l :
  NoDup (flat_map t_ids l) ->
  NoDup (flat_map t_ids (kids_remove w l)) /\
  forall x, In x (flat_map t_ids (kids_remove w l)) -> In x (flat_map t_ids l).
Proof.
  induction l as [|c r IH]; intros Hnd; [split; [constructor|intros x []]|].
  cbn [flat_map] in Hnd. apply nodup_app_inv in Hnd. destruct Hnd as (Hc & Hr & Hx).
  destruct (IH Hr) as [N I]. rewrite kids_remove_cons. destruct (t_id c =? w).
  - split; [exact N|]. intros x H. cbn [flat_map]. apply in_or_app. right. apply I. exact H.
  - cbn [flat_map]. split.
    + apply nodup_app_intro; [exact Hc|exact N|]. intros x H1 H2. exact (Hx x H1 (I x H2)).
    + intros x H. apply in_app_or in H. apply in_or_app. destruct H as [H|H]; [left; exact H|right; apply I; exact H].
Qed.

(* the info update of one child *)
Lemma upd_child_remove f id l : keeps_id f ->
  kids_remove id (map (upd_child f id) l) = kids_remove id l.
Proof.
  intros Hf. induction l as [|c r IH]; [reflexivity|]. cbn [map]. rewrite !kids_remove_cons, IH.
  unfold upd_child. destruct (t_id c =? id) eqn:E.
  - unfold t_id at 1. cbn [t_info]. rewrite Hf. fold (t_id c). rewrite E. reflexivity.
  - rewrite E. reflexivity.
Qed.

(* ------------------------------------------------------------------------------------ *)
(* states that differ in the tree and in nothing the invariant looks at                  *)

Definition retree (st st1 : root) : Prop :=
  r_damage st1 = r_damage st /\ r_fault st1 = r_fault st /\ r_nexp st1 = r_nexp st /\
  (r_later st = true -> r_later st1 = true) /\ (r_queue st1 <> [] -> r_queue st <> []).

Lemma retree_set_tree st t : retree st (set_tree st t).
Proof. unfold retree, set_tree; cbn. tauto. Qed.

Lemma retree_restore st st1 : retree st st1 -> retree st (request_restore st1).
Proof. unfold retree, request_restore, set_flags; cbn. tauto. Qed.

Lemma retree_cond (b : bool) st st1 :
  retree st st1 -> retree st (if b then request_restore st1 else st1).
Proof. intros H. destruct b; [apply retree_restore|]; exact H. Qed.

Lemma geo_inj i j : geo i = geo j -> w_rect i = w_rect j /\ w_vis i = w_vis j.
Proof. unfold geo. intros H. injection H as H1 H2. tauto. Qed.

Lemma shows_owner app t t' q : owner_rel t' q = owner_rel t q -> shows app t' q = shows app t q.
Proof. unfold shows. intros ->. reflexivity. Qed.

(* the root's rectangle and visibility are unchanged *)
Definition same_root (t t' : wtree) : Prop := geo (t_info t') = geo (t_info t).

Lemma preserve_cells app st tm st' :
  ScreenInv app st tm ->
  same_root (r_tree st) (r_tree st') ->
  all_nonempty (r_damage st') ->
  (forall q, cell_inb (root_selfrect st) q = true ->
     owner_rel (r_tree st') q = owner_rel (r_tree st) q \/ covered (r_damage st') q) ->
  (forall q, covered (r_damage st) q -> covered (r_damage st') q) ->
  (r_damage st' <> [] -> r_nexp st' = true /\ r_later st' = true) ->
  (r_queue st' <> [] -> r_later st' = true) ->
  ScreenInv app st' tm.
Proof.
  intros [Ho Hrv Hs Hne Hc [Hf1 Hf2]] Hroot Hne' Hown Hcov Hfl1 Hfl2.
  apply geo_inj in Hroot. destruct Hroot as [Hr Hv].
  assert (Hsr : root_selfrect st' = root_selfrect st).
  { unfold root_selfrect, selfrect. rewrite Hr. reflexivity. }
  constructor.
  - rewrite Hr. exact Ho.
  - rewrite Hv. exact Hrv.
  - rewrite Hr. exact Hs.
  - exact Hne'.
  - intros q Hq. rewrite Hsr in Hq. destruct (Hc q Hq) as [H|H].
    + destruct (Hown q Hq) as [Ho'|Hcv]; [|right; exact Hcv].
      left. rewrite H. symmetry. apply shows_owner. exact Ho'.
    + right. apply Hcov. exact H.
  - split; assumption.
Qed.

Theorem preserve_engine app st tm st1 st' pid ch ch' t1 D (E : cell -> bool) :
  ScreenInv app st tm ->
  kids_changed pid ch ch' (r_tree st) t1 D ->
  geq_tree t1 (r_tree st1) ->
  retree st st1 ->
  dmg_ext st1 st' ->
  (forall p, E p = false -> first_owner ch' p = first_owner ch p) ->
  (forall q p, cell_inb (root_selfrect st) q = true -> reach (map geo D) q = Some p ->
               E p = true -> covered (r_damage st') q) ->
  ScreenInv app st' tm.
Proof.
  intros SI Hkc Hgeq (R1 & R2 & R3 & R4 & R5) [T Q O N C F G L] Hloc Hcov.
  pose proof SI as [Ho Hrv Hs Hne Hc [Hf1 Hf2]].
  apply (preserve_cells app st tm st' SI).
  - unfold same_root. rewrite T, (gq_root _ _ Hgeq), (kc_info _ _ _ _ _ _ Hkc). reflexivity.
  - exact N.
  - intros q Hq. rewrite T, (gq_owner _ _ Hgeq).
    destruct (reach (map geo D) q) as [p|] eqn:Er.
    + destruct (E p) eqn:Ep.
      * right. exact (Hcov q p Hq Er Ep).
      * left. apply (kc_local _ _ _ _ _ _ Hkc). intros p' Hp'. rewrite Er in Hp'.
        injection Hp' as <-. apply Hloc. exact Ep.
    + left. apply (kc_local _ _ _ _ _ _ Hkc). intros p' Hp'. rewrite Er in Hp'. discriminate.
  - intros q Hq. apply C. rewrite R1. exact Hq.
  - apply G. rewrite R1, R3. intros Hd. destruct (Hf1 Hd) as [H1 H2]. split; [exact H1|apply R4; exact H2].
  - rewrite Q. intros Hq. apply L. apply R4. apply Hf2. apply R5. exact Hq.
Qed.

(* the same when the tree does not change the composition at all *)
Theorem preserve_geq app st tm st1 st' :
  ScreenInv app st tm ->
  geq_tree (r_tree st) (r_tree st1) ->
  retree st st1 ->
  dmg_ext st1 st' ->
  ScreenInv app st' tm.
Proof.
  intros SI Hgeq (R1 & R2 & R3 & R4 & R5) [T Q O N C F G L].
  pose proof SI as [Ho Hrv Hs Hne Hc [Hf1 Hf2]].
  apply (preserve_cells app st tm st' SI).
  - unfold same_root. rewrite T. apply (gq_root _ _ Hgeq).
  - exact N.
  - intros q Hq. left. rewrite T. apply (gq_owner _ _ Hgeq).
  - intros q Hq. apply C. rewrite R1. exact Hq.
  - apply G. rewrite R1, R3. intros Hd. destruct (Hf1 Hd) as [H1 H2]. split; [exact H1|apply R4; exact H2].
  - rewrite Q. intros Hq. apply L. apply R4. apply Hf2. apply R5. exact Hq.
Qed.

(* ------------------------------------------------------------------------------------ *)
(* what a win_expose covers                                                              *)

Theorem expose_covers_gen st1 y ex t1 pth :
  t_path y t1 = Some (t1 :: pth) -> geq_tree t1 (r_tree st1) -> w_vis (t_info t1) = true ->
  (ex = None -> pth <> []) ->
  all_nonempty (r_damage st1) -> r_fault (win_expose st1 y ex) = false ->
  dmg_ext st1 (win_expose st1 y ex) /\
  forall q p, cell_in (selfrect (t_info t1)) q ->
              reach (map (fun w => geo (t_info w)) pth) q = Some p -> ex_has ex p ->
              covered (r_damage (win_expose st1 y ex)) q.
Proof.
  intros Hp Hgeq Hv Hnone Hne Hf.
  pose proof (gq_chain _ _ Hgeq y) as Hcg. unfold chain_geo at 2 in Hcg. unfold t_chain in Hcg.
  rewrite Hp in Hcg. cbn [option_map] in Hcg. unfold chain_geo in Hcg.
  destruct (t_chain y (r_tree st1)) as [chain|] eqn:Ech; [|discriminate].
  cbn [option_map] in Hcg. injection Hcg as Hcg.
  rewrite map_app, map_rev in Hcg. cbn [map] in Hcg.
  change (rev (map (fun w => geo (t_info w)) pth) ++ [geo (t_info t1)])
    with (rev (geo (t_info t1) :: map (fun w => geo (t_info w)) pth)) in Hcg.
  destruct (win_expose_spec st1 y ex Hne) as [Hde Hcov]; [|exact Hf|].
  { intros He w Hw. exfalso. apply (Hnone He). rewrite Ech in Hw. injection Hw as ->.
    apply (f_equal (@length ginfo)) in Hcg. rewrite rev_length in Hcg. cbn [map length] in Hcg.
    rewrite map_length in Hcg. destruct pth; [|discriminate]. reflexivity. }
  split; [exact Hde|]. intros q p Hq Hr He.
  destruct (expose_reach (map (fun w => geo (t_info w)) pth) (geo (t_info t1)) q p ex) as (R & HR & HRq).
  - unfold geo; cbn [snd]. exact Hv.
  - unfold g_self, geo; cbn [fst]. exact Hq.
  - exact Hr.
  - exact He.
  - apply (Hcov chain R Ech); [|exact HRq]. rewrite expose_up_geo, Hcg. exact HR.
Qed.

(* ... for the expose at the window whose child list changed *)
Corollary expose_covers_kc st1 pid r ch ch' t t1 D :
  kids_changed pid ch ch' t t1 D -> geq_tree t1 (r_tree st1) -> w_vis (t_info t1) = true ->
  all_nonempty (r_damage st1) -> r_fault (win_expose st1 pid (Some r)) = false ->
  dmg_ext st1 (win_expose st1 pid (Some r)) /\
  forall q p, cell_in (selfrect (t_info t1)) q -> reach (map geo D) q = Some p -> cell_in r p ->
              covered (r_damage (win_expose st1 pid (Some r))) q.
Proof.
  intros Hkc Hgeq Hv Hne Hf. destruct (kc_path _ _ _ _ _ _ Hkc) as (pth & Hp & Hm).
  destruct (expose_covers_gen st1 pid (Some r) t1 pth Hp Hgeq Hv) as [Hde Hcov]; try assumption.
  { intros H; discriminate. }
  split; [exact Hde|]. intros q p Hq Hr Hc. apply (Hcov q p Hq); [|exact Hc].
  rewrite <- Hm, map_map in Hr. exact Hr.
Qed.
