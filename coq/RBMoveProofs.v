(* RBMoveProofs.v -- moverect: the vacated area.  The part of src/rectset.c that moverect uses
   (one add into an empty set, one subtract of a rectangle) returns, and the rectangles it
   returns cover exactly source minus destination; hence moverect refines a_moverect. *)
From Coq Require Import ZArith List Bool Lia ZifyBool.
From Tickit Require Import RectDefs RectProofs RBDefs RBSpec RBLemmas RBAbsLemmas RBInv RBOpProofs RBProofs RBProps RBRestore
                           RBTheorems RBCopyDefs RBCopySpec RBCopyProofs RBCopyRefine RBCopyLoop.
Import ListNotations.
Local Open Scope Z_scope.

Lemma init_bounded_id : forall p, init_bounded (top p) (left p) (bottom p) (right p) = p.
Proof. intros [t l h w]. unfold init_bounded, bottom, right. cbn [top left lines cols]. f_equal; lia. Qed.

(* ---------------------------------------------------------------------------------- *)
(* adding a rectangle that no member of the set reacts to: it is simply inserted *)

Definition quiet (x p : rect) : Prop :=
  bottom p < top x \/
  (top p > bottom x \/ left p > right x \/ right p < left x) \/
  (r_contains x p = false /\
   ((top p =? top x) && (bottom p =? bottom x) || (left p =? left x) && (right p =? right x)) = false /\
   (top p = bottom x \/ bottom p = top x)).

Lemma rs_add_quiet : forall fuel trs p i,
  Forall (fun x => quiet x p) trs -> (length trs - i < fuel)%nat ->
  rs_add fuel trs p (top p) (left p) (bottom p) (right p) i = Ok (insert_rect trs p).
Proof.
  induction fuel as [|f IH]; intros trs p i Hq Hf; [lia|].
  cbn [rs_add].
  destruct (nth_error trs i) as [x|] eqn:En.
  - assert (Hx : quiet x p).
    { rewrite Forall_forall in Hq. apply Hq. eapply nth_error_In; eauto. }
    assert (Hi : (i < length trs)%nat) by (apply nth_error_Some; congruence).
    destruct (Z.ltb_spec (bottom p) (top x)) as [Hb|Hb]; [now rewrite init_bounded_id|].
    destruct ((top p >? bottom x) || (left p >? right x) || (right p <? left x)) eqn:Eap.
    + apply IH; [assumption|lia].
    + destruct Hx as [Hx|[Hx|(H1 & H2 & H3)]]; [lia|lia|].
      rewrite init_bounded_id, H1, H2.
      assert (Et : (top p =? bottom x) || (bottom p =? top x) = true) by lia.
      rewrite Et. apply IH; [assumption|lia].
  - now rewrite init_bounded_id.
Qed.

Lemma insert_rect_in : forall l r x, In x (insert_rect l r) <-> x = r \/ In x l.
Proof.
  induction l as [|y l IH]; intros r x; cbn [insert_rect].
  - cbn. intuition congruence.
  - destruct (cmprect y r >? 0); cbn [In]; [intuition congruence|]. rewrite IH. intuition congruence.
Qed.

Lemma insert_rect_length : forall l r, length (insert_rect l r) = S (length l).
Proof. induction l as [|y l IH]; intros r; cbn [insert_rect length]; [reflexivity|]. destruct (cmprect y r >? 0); cbn [length]; [reflexivity|now rewrite IH]. Qed.

(* a list of rectangles added one after the other, each quiet with respect to what is there *)
Fixpoint all_quiet (acc ps : list rect) : Prop :=
  match ps with
  | [] => True
  | p :: rest => Forall (fun x => quiet x p) acc /\ all_quiet (p :: acc) rest
  end.

Lemma all_quiet_perm : forall ps acc acc', (forall x, In x acc' <-> In x acc) -> all_quiet acc ps -> all_quiet acc' ps.
Proof.
  induction ps as [|p ps IH]; intros acc acc' Hs H; cbn [all_quiet] in *; [exact Logic.I|].
  destruct H as (H1 & H2). split.
  - rewrite Forall_forall in *. intros x Hx. apply H1. apply Hs. exact Hx.
  - apply (IH (p :: acc)); [|exact H2]. intros x. cbn [In]. rewrite Hs. tauto.
Qed.

Lemma fold_add_quiet : forall ps acc f,
  all_quiet acc ps -> (length acc + length ps < f)%nat ->
  exists res, fold_res (fun a p => rs_add_rect f a p) ps acc = Ok res /\
    (forall x, In x res <-> In x acc \/ In x ps) /\ length res = (length acc + length ps)%nat.
Proof.
  induction ps as [|p ps IH]; intros acc f Hq Hf; cbn [fold_res].
  - exists acc. split; [reflexivity|]. split; [cbn; tauto|cbn; lia].
  - cbn [all_quiet] in Hq. destruct Hq as (Hq1 & Hq2).
    unfold rs_add_rect at 1. rewrite (rs_add_quiet f acc p 0 Hq1) by (cbn [length] in Hf; lia). cbn [bind].
    destruct (IH (insert_rect acc p) f) as (res & E & Hin & Hlen).
    + apply (all_quiet_perm ps (p :: acc)); [|exact Hq2]. intros x. rewrite insert_rect_in. cbn [In]. intuition congruence.
    + rewrite insert_rect_length. cbn [length] in Hf. lia.
    + exists res. split; [exact E|]. split.
      * intros x. rewrite Hin, insert_rect_in. cbn [In]. intuition congruence.
      * rewrite Hlen, insert_rect_length. cbn [length]. lia.
Qed.

(* subtracting from a set none of whose members meets the hole changes nothing *)
Lemma rs_subtract_none : forall fuel trs hole i,
  Forall (fun x => r_intersects x hole = false) trs -> (length trs - i < fuel)%nat ->
  rs_subtract fuel trs hole i = Ok trs.
Proof.
  induction fuel as [|f IH]; intros trs hole i Hn Hf; [lia|].
  cbn [rs_subtract]. destruct (nth_error trs i) as [x|] eqn:En; [|reflexivity].
  assert (Hx : r_intersects x hole = false) by (rewrite Forall_forall in Hn; apply Hn; eapply nth_error_In; eauto).
  assert (Hi : (i < length trs)%nat) by (apply nth_error_Some; congruence).
  rewrite Hx. cbn [negb]. apply IH; [assumption|lia].
Qed.

(* ---------------------------------------------------------------------------------- *)
(* the pieces of r_subtract never react to one another *)

Lemma quiet_apart_below : forall x p, top p > bottom x -> quiet x p.
Proof. intros x p H. right. left. left. exact H. Qed.

Lemma quiet_apart_right : forall x p, left p > right x -> quiet x p.
Proof. intros x p H. right. left. right. left. exact H. Qed.

Lemma quiet_touch_below : forall x p,
  top p = bottom x -> 0 < lines p -> 0 < lines x -> (left p <> left x \/ right p <> right x) -> quiet x p.
Proof.
  intros [tx lx hx wx] [tp lp hp wp]. unfold quiet, r_contains, bottom, right. cbn [top left lines cols].
  intros H1 H2 H3 H4. right. right. split; [lia|]. split; [lia|]. left. exact H1.
Qed.

Lemma subtract_pieces_quiet : forall o h,
  nonempty o -> nonempty h -> r_intersects h o = true -> r_contains h o = false ->
  all_quiet [] (r_subtract o h).
Proof.
  intros [to lo ho wo] [th lh hh wh] (No1 & No2) (Nh1 & Nh2) Hi Hc.
  unfold r_subtract. rewrite Hc, Hi. cbn [negb].
  unfold r_intersects, r_contains, bottom, right in Hi, Hc. cbn [top left lines cols] in *.
  assert (I1 : th < to + ho /\ to < th + hh /\ lh < lo + wo /\ lo < lh + wh) by lia.
  clear Hi Hc.
  unfold init_bounded, bottom, right. cbn [top left lines cols].
  destruct (Z.ltb_spec to th); destruct (Z.ltb_spec lo lh); destruct (Z.gtb_spec (lo + wo) (lh + wh));
    destruct (Z.gtb_spec (to + ho) (th + hh)); cbn [app all_quiet];
    repeat split; try exact Logic.I;
    repeat (apply Forall_cons || apply Forall_nil);
    first [ apply quiet_apart_below; unfold bottom; cbn [top left lines cols]; lia
          | apply quiet_apart_right; unfold right; cbn [top left lines cols]; lia
          | apply quiet_touch_below; unfold bottom, right; cbn [top left lines cols]; lia ].
Qed.

(* ---------------------------------------------------------------------------------- *)
(* the rectangle set moverect computes *)

Definition covers (rs : list rect) (py px : Z) : bool := existsb (fun r => cell_inb r (py, px)) rs.

Lemma covers_in_iff : forall rs rs', (forall x, In x rs <-> In x rs') -> forall py px, covers rs py px = covers rs' py px.
Proof.
  intros rs rs' H py px. apply bool_eq_iff. unfold covers. rewrite !existsb_exists.
  split; intros (r & Hr & Hc); exists r; (split; [apply H; exact Hr|exact Hc]).
Qed.

Lemma rs_subtract_S : forall f trs hole i,
  rs_subtract (S f) trs hole i =
  match nth_error trs i with
  | None => Ok trs
  | Some x =>
      if negb (r_intersects x hole) then rs_subtract f trs hole (S i)
      else do trs' <- fold_res (fun acc p => rs_add_rect f acc p) (r_subtract x hole) (delete_nth trs i);
           rs_subtract f trs' hole i
  end.
Proof. reflexivity. Qed.

Theorem move_set : forall sr hole,
  nonempty sr -> nonempty hole ->
  exists set2,
    (do set1 <- rs_add_rect 64 [] sr; rs_subtract 64 set1 hole 0) = Ok set2 /\
    forall py px, covers set2 py px = cell_inb sr (py, px) && negb (cell_inb hole (py, px)).
Proof.
  intros sr hole Ns Nh.
  assert (E1 : rs_add_rect 64 [] sr = Ok [sr]).
  { unfold rs_add_rect. rewrite (rs_add_quiet 64 [] sr 0); [reflexivity|constructor|cbn; lia]. }
  rewrite E1. cbn [bind].
  change 64%nat with (S 63). rewrite rs_subtract_S. cbn [nth_error].
  destruct (r_intersects sr hole) eqn:Ei; cbn [negb].
  - (* the pieces *)
    assert (Hsub := subtract_ok sr hole Ns Nh). destruct Hsub as (Hlen & Hne & Hdis & Hcov).
    assert (Ei' : r_intersects hole sr = true).
    { unfold r_intersects in *. lia. }
    destruct (r_contains hole sr) eqn:Ec.
    + (* the destination covers the whole source: nothing is vacated *)
      assert (Es : r_subtract sr hole = []) by (unfold r_subtract; now rewrite Ec).
      rewrite Es. cbn [fold_res delete_nth bind].
      rewrite (rs_subtract_none 63 [] hole 0) by (try constructor; cbn; lia).
      exists []. split; [reflexivity|]. intros py px. cbn [covers existsb].
      destruct (contains_iff hole sr Ns) as (Hci & _). specialize (Hci Ec).
      destruct (cell_inb sr (py, px)) eqn:E; cbn [andb]; [|reflexivity].
      apply RectProofs.cell_inb_iff in E. apply Hci in E. apply RectProofs.cell_inb_iff in E. now rewrite E.
    + destruct (fold_add_quiet (r_subtract sr hole) [] 63 (subtract_pieces_quiet sr hole Ns Nh Ei' Ec)) as (res & E & Hin & Hl).
      { cbn [length]. lia. }
      cbn [delete_nth]. rewrite E. cbn [bind].
      assert (Hnone : Forall (fun x => r_intersects x hole = false) res).
      { rewrite Forall_forall. intros x Hx. apply Hin in Hx. destruct Hx as [[]|Hx].
        destruct (r_intersects x hole) eqn:Ex; [|reflexivity]. exfalso.
        assert (Nx : nonempty x) by (unfold all_nonempty in Hne; rewrite Forall_forall in Hne; apply Hne; exact Hx).
        apply (intersects_iff x hole Nx Nh) in Ex. destruct Ex as (p & Hp1 & Hp2).
        assert (Hc : covered (r_subtract sr hole) p) by (exists x; auto).
        apply Hcov in Hc. tauto. }
      cbn [length] in Hl. rewrite (rs_subtract_none 63 res hole 0 Hnone) by lia.
      exists res. split; [reflexivity|].
      intros py px. rewrite (covers_in_iff res (r_subtract sr hole)) by (intros x; rewrite Hin; cbn; tauto).
      apply bool_eq_iff. unfold covers. change (existsb (fun r => cell_inb r (py, px)) (r_subtract sr hole)) with (coveredb (r_subtract sr hole) (py, px)).
      rewrite coveredb_iff, Hcov, andb_true_iff, negb_true_iff, RectProofs.cell_inb_iff.
      destruct (cell_inb hole (py, px)) eqn:Eh.
      * apply RectProofs.cell_inb_iff in Eh. split; [tauto|intros (_ & K); discriminate].
      * split; [tauto|]. intros (K & _). split; [exact K|]. intros Hh. apply RectProofs.cell_inb_iff in Hh. congruence.
  - (* apart: the whole source is vacated *)
    rewrite (rs_subtract_none 63 [sr] hole 1) by (try (constructor; [exact Ei|constructor]); cbn; lia).
    exists [sr]. split; [reflexivity|]. intros py px. cbn [covers existsb]. rewrite orb_false_r.
    destruct (cell_inb sr (py, px)) eqn:E; cbn [andb]; [|reflexivity].
    destruct (cell_inb hole (py, px)) eqn:Eh; [|reflexivity]. exfalso.
    assert (K : r_intersects sr hole = true).
    { apply (intersects_iff sr hole Ns Nh). exists (py, px). split; apply RectProofs.cell_inb_iff; assumption. }
    congruence.
Qed.

(* ---------------------------------------------------------------------------------- *)
(* skipping a set of cells, and a sequence of skiprects as one such skip *)

Definition skip_set (A : ast) (cov : Z -> Z -> bool) : ast :=
  let a := a_aux A in
  set_ag A
    (mapi (fun y row =>
       mapi (fun x cell =>
         if cov (y - xl a) (x - xc a) && cell_inb (clip a) (y, x) && (am cell =? -1)
         then mkA ASkip (am cell) else cell) row) (ag A)).

Lemma skip_set_shape : forall A cov,
  zlen (ag (skip_set A cov)) = zlen (ag A) /\
  (forall y, 0 <= y < zlen (ag A) -> zlen (zn (ag (skip_set A cov)) y []) = zlen (zn (ag A) y [])) /\
  a_aux (skip_set A cov) = a_aux A /\ a_lines (skip_set A cov) = a_lines A /\ a_cols (skip_set A cov) = a_cols A.
Proof.
  intros. unfold skip_set. cbn [ag set_ag a_aux a_lines a_cols]. split; [now rewrite zlen_mapi|].
  split; [|auto]. intros y Hy. rewrite (zn_mapi _ (ag A) y [] []) by assumption. now rewrite zlen_mapi.
Qed.

Lemma gcell_skip_set : forall A cov y x,
  0 <= y < zlen (ag A) -> 0 <= x < zlen (zn (ag A) y []) ->
  gcell (ag (skip_set A cov)) y x =
  (let a := a_aux A in let cell := gcell (ag A) y x in
   if cov (y - xl a) (x - xc a) && cell_inb (clip a) (y, x) && (am cell =? -1) then mkA ASkip (am cell) else cell).
Proof.
  intros A cov y x Hy Hx. unfold skip_set, gcell. cbn [ag set_ag].
  rewrite (zn_mapi _ (ag A) y [] []) by assumption.
  rewrite (zn_mapi _ _ x dacell dacell) by assumption. reflexivity.
Qed.

Lemma skip_set_ext : forall A c1 c2, (forall py px, c1 py px = c2 py px) -> skip_set A c1 = skip_set A c2.
Proof.
  intros A c1 c2 H.
  destruct (skip_set_shape A c1) as (S1 & S2 & S3 & S4 & S5).
  destruct (skip_set_shape A c2) as (T1 & T2 & T3 & T4 & T5).
  apply ast_ext; try congruence.
  - intros y Hy. rewrite S1 in Hy. rewrite S2, T2 by assumption. reflexivity.
  - intros y x Hy Hx. rewrite S1 in Hy. rewrite S2 in Hx by assumption.
    rewrite !gcell_skip_set by assumption. cbv zeta. now rewrite H.
Qed.

Lemma skip_set_none : forall A, skip_set A (fun _ _ => false) = A.
Proof.
  intros A. destruct (skip_set_shape A (fun _ _ => false)) as (S1 & S2 & S3 & S4 & S5).
  apply ast_ext; [assumption|assumption|assumption|assumption| |].
  - intros y Hy. rewrite S1 in Hy. now rewrite S2.
  - intros y x Hy Hx. rewrite S1 in Hy. rewrite S2 in Hx by assumption.
    rewrite gcell_skip_set by assumption. reflexivity.
Qed.

Lemma skip_set_compose : forall A c1 c2,
  skip_set (skip_set A c1) c2 = skip_set A (fun py px => c1 py px || c2 py px).
Proof.
  intros A c1 c2.
  destruct (skip_set_shape A c1) as (S1 & S2 & S3 & S4 & S5).
  destruct (skip_set_shape (skip_set A c1) c2) as (T1 & T2 & T3 & T4 & T5).
  destruct (skip_set_shape A (fun py px => c1 py px || c2 py px)) as (U1 & U2 & U3 & U4 & U5).
  apply ast_ext; try congruence.
  - intros y Hy. rewrite T1, S1 in Hy. rewrite T2, S2, U2 by (try rewrite S1; assumption). reflexivity.
  - intros y x Hy Hx. rewrite T1, S1 in Hy. rewrite T2, S2 in Hx by (try rewrite S1; assumption).
    rewrite gcell_skip_set by (try rewrite S1; try rewrite S2 by assumption; assumption).
    rewrite S3. rewrite !gcell_skip_set by assumption. cbv zeta.
    set (cell := gcell (ag A) y x).
    destruct (c1 _ _); destruct (c2 _ _); destruct (cell_inb _ _); destruct (am cell =? -1) eqn:Em;
      cbn [andb orb am]; try rewrite Em; reflexivity.
Qed.

Lemma a_skip_as_set : forall A r, a_skip A r = skip_set A (fun py px => cell_inb r (py, px)).
Proof.
  intros A r. unfold a_skip.
  destruct (a_paint_shape A r (fun _ _ _ => ASkip)) as (S1 & S2 & S3 & S4 & S5).
  destruct (skip_set_shape A (fun py px => cell_inb r (py, px))) as (T1 & T2 & T3 & T4 & T5).
  apply ast_ext; try congruence.
  - intros y Hy. rewrite S1 in Hy. rewrite S2, T2 by assumption. reflexivity.
  - intros y x Hy Hx. rewrite S1 in Hy. rewrite S2 in Hx by assumption.
    rewrite gcell_a_paint, gcell_skip_set by assumption. cbv zeta.
    assert (T : target (a_aux A) r y x = cell_inb r (y - xl (a_aux A), x - xc (a_aux A)) && cell_inb (clip (a_aux A)) (y, x)).
    { unfold target. f_equal. apply bool_eq_iff. rewrite !RBInv.cell_inb_iff. unfold r_translate. cbn [top left lines cols]. lia. }
    rewrite T. reflexivity.
Qed.

Lemma fold_skip_set : forall rs A, fold_left a_skip rs A = skip_set A (covers rs).
Proof.
  induction rs as [|r rs IH]; intros A; cbn [fold_left].
  - rewrite (skip_set_ext A (covers []) (fun _ _ => false)) by reflexivity. symmetry. apply skip_set_none.
  - rewrite IH, a_skip_as_set, skip_set_compose. apply skip_set_ext. intros py px. reflexivity.
Qed.

Lemma fold_skiprect_refines : forall rs s, Inv s ->
  exists s', fold_res skiprect rs s = Ok s' /\ keeps s s' /\ abs_rb s' = fold_left a_skip rs (abs_rb s).
Proof.
  induction rs as [|r rs IH]; intros s I; cbn [fold_res fold_left].
  - exists s. split; [reflexivity|]. split; [apply keeps_refl; assumption|reflexivity].
  - destruct (skiprect_ok s r I) as (s1 & E1 & I1 & A1 & L1 & C1 & Ab1). rewrite E1. cbn [bind].
    destruct (IH s1 I1) as (s2 & E2 & K2 & Ab2). exists s2. split; [exact E2|].
    split; [apply keeps_trans with s1; [unfold keeps; conj_auto|exact K2]|]. rewrite Ab2, Ab1. reflexivity.
Qed.

(* ---------------------------------------------------------------------------------- *)
Lemma bind_ok_l : forall {A B} (a : res A) (x : A) (f : A -> res B), a = Ok x -> bind a f = f x.
Proof. intros A B a x f ->. reflexivity. Qed.

Lemma bind_assoc_ok : forall {A B C} (a : res A) (f : A -> res B) (g : B -> res C) (b : B),
  (do x <- a; f x) = Ok b -> (do x <- a; do y <- f x; g y) = g b.
Proof.
  intros A B C a f g b H. destruct a as [x| |]; cbn [bind] in *; [|discriminate|discriminate].
  now rewrite H.
Qed.

Theorem moverect_refines : forall s dr sr,
  Inv s -> ainv (abs_rb s) -> achar_ok (abs_rb s) -> xl (aux s) = 0 -> xc (aux s) = 0 -> rect_in s sr ->
  0 < lines sr -> 0 < cols sr ->
  exists s', moverect_op s dr sr = Ok s' /\ Inv s' /\ aux s' = aux s /\ abs_rb s' = a_moverect (abs_rb s) dr sr.
Proof.
  intros s dr sr I A Hch Hxl Hxc Hin HL HC.
  destruct (copyrect_refines s dr sr I A Hch Hxl Hxc Hin) as (s1 & E1 & I1 & Ab1).
  destruct (copyrect_op_ok s dr sr I Hin) as (s1' & E1' & K1). rewrite E1 in E1'. inversion E1'; subst s1'.
  set (hole := mkRect (top dr) (left dr) (lines sr) (cols sr)).
  destruct (move_set sr hole) as (set2 & E2 & Hcov); [split; assumption|split; assumption|].
  destruct (fold_skiprect_refines set2 s1 I1) as (s' & E3 & K3 & Ab3).
  exists s'. split.
  - unfold moverect_op. unfold copyrect_op in E1. rewrite E1. fold hole.
    rewrite (bind_ok_l (Ok s1) s1) by reflexivity.
    rewrite (bind_assoc_ok _ _ _ _ E2). exact E3.
  - split; [apply K3|]. split.
    + destruct K3 as (_ & A3 & _). destruct K1 as (_ & A1 & _). congruence.
    + rewrite Ab3, fold_skip_set, Ab1. unfold a_moverect. fold hole.
      set (A1 := a_copyrect (abs_rb s) dr sr).
      rewrite (skip_set_ext A1 (covers set2) (fun py px => cell_inb sr (py, px) && negb (cell_inb hole (py, px)))) by exact Hcov.
      reflexivity.
Qed.

Theorem moverect_reachable : forall L C pre s v dr sr,
  0 <= L -> 0 <= C -> run (rb_new L C) pre = Ok (s, v) ->
  xl (aux s) = 0 -> xc (aux s) = 0 -> rect_in s sr -> 0 < lines sr -> 0 < cols sr ->
  exists s', moverect_op s dr sr = Ok s' /\ Inv s' /\ aux s' = aux s /\ abs_rb s' = a_moverect (abs_rb s) dr sr.
Proof.
  intros L C pre s v dr sr HL HC E Hxl Hxc Hin Hl Hc.
  destruct (program_refines L C pre HL HC) as (t & w & F & I & Ab & _). rewrite E in F. inversion F; subst t w.
  destruct (reach_ok L C pre HL HC) as (A1 & A2). rewrite <- Ab in A1, A2.
  apply moverect_refines; assumption.
Qed.
