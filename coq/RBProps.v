(* RBProps.v -- further statements of property C03, proved about the per-cell specification
   (and hence, through RBProofs.run_refines, about the model of the C): confinement to clip
   and mask, save/restore, clip monotonicity, cursor advance. *)
From Coq Require Import ZArith List Bool Lia.
From Tickit Require Import RectDefs RBDefs RBSpec RBLemmas RBAbsLemmas RBInv RBOpProofs RBProofs.
Import ListNotations.
Local Open Scope Z_scope.

(* shape of the abstract grid: as many rows and columns as the buffer says *)
Definition ashape (s : ast) : Prop :=
  zlen (ag s) = a_lines s /\ forall y, 0 <= y < a_lines s -> zlen (zn (ag s) y []) = a_cols s.

Definition in_grid (s : ast) (y x : Z) : Prop := 0 <= y < a_lines s /\ 0 <= x < a_cols s.

(* ---------------------------------------------------------------------------------- *)
(* pointwise description of the non-paint grid operations *)

Lemma gcell_mapi2 : forall (f : Z -> Z -> acell -> acell) g y x,
  0 <= y < zlen g -> 0 <= x < zlen (zn g y []) ->
  gcell (mapi (fun y row => mapi (fun x cell => f y x cell) row) g) y x = f y x (gcell g y x).
Proof.
  intros f g y x Hy Hx. unfold gcell.
  rewrite (zn_mapi _ g y [] []) by assumption. rewrite (zn_mapi _ _ x dacell dacell) by assumption. reflexivity.
Qed.

Lemma gcell_map2 : forall (f : acell -> acell) g y x,
  0 <= y < zlen g -> 0 <= x < zlen (zn g y []) ->
  gcell (map (map f) g) y x = f (gcell g y x).
Proof.
  intros f g y x Hy Hx. unfold gcell.
  rewrite (zn_map _ g y [] []) by assumption. rewrite (zn_map _ _ x dacell dacell) by assumption. reflexivity.
Qed.

Lemma ashape_mapi2 : forall s (f : Z -> Z -> acell -> acell) a,
  ashape s -> ashape (mkAst (a_lines s) (a_cols s) (mapi (fun y row => mapi (fun x cell => f y x cell) row) (ag s)) a).
Proof.
  intros s f a (H1 & H2). split; cbn [ag a_lines a_cols].
  - now rewrite zlen_mapi.
  - intros y Hy. rewrite (zn_mapi _ (ag s) y [] []) by lia. rewrite zlen_mapi. apply H2; assumption.
Qed.

Lemma ashape_map2 : forall s (f : acell -> acell) a,
  ashape s -> ashape (mkAst (a_lines s) (a_cols s) (map (map f) (ag s)) a).
Proof.
  intros s f a (H1 & H2). split; cbn [ag a_lines a_cols].
  - now rewrite zlen_map.
  - intros y Hy. rewrite (zn_map _ (ag s) y [] []) by lia. rewrite zlen_map. apply H2; assumption.
Qed.

Lemma ashape_paint : forall s r F, ashape s -> ashape (a_paint s r F).
Proof. intros s r F H. unfold a_paint, set_ag. apply (ashape_mapi2 s _ (a_aux s) H). Qed.

Lemma ashape_new : forall L C, 0 <= L -> 0 <= C -> ashape (a_new L C).
Proof.
  intros L C HL HC. split; cbn [a_new ag a_lines a_cols].
  - rewrite zlen_repeat. lia.
  - intros y Hy. rewrite zn_repeat by lia. rewrite zlen_repeat. lia.
Qed.

Lemma ashape_set_aux : forall s a, ashape s -> ashape (set_a_aux s a).
Proof. intros s a H. exact H. Qed.

Lemma a_linecell_fold_shape : forall (pos : Z * Z -> Z * Z) l s,
  ashape s ->
  let s' := fold_left (fun acc cb => a_linecell acc (fst (pos cb)) (snd (pos cb)) (snd cb)) l s in
  ashape s' /\ a_aux s' = a_aux s /\ a_lines s' = a_lines s /\ a_cols s' = a_cols s.
Proof.
  intros pos l. induction l as [|cb l IH]; intros s H; cbn [fold_left].
  - auto.
  - destruct (IH (a_linecell s (fst (pos cb)) (snd (pos cb)) (snd cb))) as (K1 & K2 & K3 & K4).
    { unfold a_linecell. apply ashape_paint. assumption. }
    split; [assumption|]. split; [rewrite K2; reflexivity|]. split; [rewrite K3|rewrite K4]; reflexivity.
Qed.

Theorem astep_shape : forall s o, ashape s ->
  ashape (fst (astep s o)) /\ a_lines (fst (astep s o)) = a_lines s /\ a_cols (fst (astep s o)) = a_cols s.
Proof.
  intros s o H.
  assert (P : forall r F, ashape (a_paint s r F) /\ a_lines (a_paint s r F) = a_lines s /\ a_cols (a_paint s r F) = a_cols s)
    by (intros; split; [apply ashape_paint; assumption|split; reflexivity]).
  destruct o; cbn [astep fst];
    try (split; [exact H|split; reflexivity]);
    try apply P;
    try (destruct (vc_set (a_aux s)); cbn [negb fst]; [apply P|split; [exact H|split; reflexivity]]).
  - (* mask *) unfold a_mask, set_ag. split; [apply (ashape_mapi2 s _ (a_aux s) H)|split; reflexivity].
  - (* restore *) unfold a_restore. destruct (stack (a_aux s)); [split; [exact H|split; reflexivity]|].
    split; [apply (ashape_map2 s _ _ H)|split; reflexivity].
  - (* reset *) unfold a_reset. split; [|split; reflexivity]. split; cbn [ag a_lines a_cols].
    + destruct H as (H1 & _). rewrite zlen_repeat. pose proof (zlen_nonneg (ag s)). lia.
    + intros y Hy. rewrite zn_repeat by lia. rewrite zlen_repeat.
      destruct H as (H1 & H2). specialize (H2 y Hy). pose proof (zlen_nonneg (zn (ag s) y [])). lia.
  - (* text_at *) destruct (text_valid t); cbn [negb fst]; [apply P|split; [exact H|split; reflexivity]].
  - (* text *)
    destruct (vc_set (a_aux s)); cbn [negb fst]; [|split; [exact H|split; reflexivity]].
    destruct (text_valid t); cbn [negb fst]; [apply P|split; [exact H|split; reflexivity]].
  - (* char_at *) unfold a_char. destruct (text_valid [cp]); cbn [negb]; [|split; [exact H|split; reflexivity]].
    destruct (cpw cp =? 1); apply P.
  - (* char *)
    destruct (vc_set (a_aux s)); cbn [negb fst]; [|split; [exact H|split; reflexivity]].
    destruct (text_valid [cp] && (0 <? cpw cp)) eqn:E; cbn [fst]; [|split; [exact H|split; reflexivity]].
    unfold a_char. apply andb_true_iff in E. destruct E as (E1 & _). rewrite E1. cbn [negb].
    destruct (cpw cp =? 1); apply P.
  - (* hline *)
    destruct (a_linecell_fold_shape (fun cb => (l, fst cb)) (hline_bits c1 c2 style caps) s H) as (K1 & K2 & K3 & K4).
    cbn [fst snd] in *. auto.
  - (* vline *)
    destruct (a_linecell_fold_shape (fun lb => (fst lb, c)) (vline_bits l1 l2 style caps) s H) as (K1 & K2 & K3 & K4).
    cbn [fst snd] in *. auto.
Qed.

(* ---------------------------------------------------------------------------------- *)
(* confinement: a cell outside the clipping rectangle, or under a mask, keeps its content
   whatever is drawn (only reset empties the buffer) *)

Lemma paint_confined : forall s r F y x,
  ashape s -> in_grid s y x ->
  cell_inb (clip (a_aux s)) (y, x) = false \/ am (gcell (ag s) y x) <> -1 ->
  gcell (ag (a_paint s r F)) y x = gcell (ag s) y x.
Proof.
  intros s r F y x (H1 & H2) (Hy & Hx) Hc.
  rewrite gcell_a_paint by (try rewrite H2 by assumption; lia). cbv zeta.
  destruct Hc as [Hc|Hm].
  - unfold target. rewrite Hc. rewrite andb_false_r. reflexivity.
  - destruct (Z.eqb_spec (am (gcell (ag s) y x)) (-1)); [contradiction|]. now rewrite andb_false_r.
Qed.

Lemma linecell_fold_confined : forall (pos : Z * Z -> Z * Z) l s y x,
  ashape s -> in_grid s y x ->
  cell_inb (clip (a_aux s)) (y, x) = false \/ am (gcell (ag s) y x) <> -1 ->
  gcell (ag (fold_left (fun acc cb => a_linecell acc (fst (pos cb)) (snd (pos cb)) (snd cb)) l s)) y x = gcell (ag s) y x.
Proof.
  intros pos l. induction l as [|cb l IH]; intros s y x H Hg Hc; cbn [fold_left]; [reflexivity|].
  set (s1 := a_linecell s (fst (pos cb)) (snd (pos cb)) (snd cb)).
  assert (E1 : gcell (ag s1) y x = gcell (ag s) y x) by (unfold s1, a_linecell; apply paint_confined; assumption).
  rewrite IH.
  - exact E1.
  - unfold s1, a_linecell. apply ashape_paint. assumption.
  - exact Hg.
  - rewrite E1. exact Hc.
Qed.

Definition is_reset (o : rbop) : bool := match o with OReset => true | _ => false end.

Theorem astep_confined : forall s o y x,
  ashape s -> in_grid s y x -> is_reset o = false ->
  cell_inb (clip (a_aux s)) (y, x) = false \/ am (gcell (ag s) y x) <> -1 ->
  ac (gcell (ag (fst (astep s o))) y x) = ac (gcell (ag s) y x).
Proof.
  intros s o y x H Hg Hr Hc.
  assert (P : forall r F, ac (gcell (ag (a_paint s r F)) y x) = ac (gcell (ag s) y x))
    by (intros; f_equal; apply paint_confined; assumption).
  destruct H as (H1 & H2). destruct Hg as (Hy & Hx).
  destruct o; cbn [astep fst is_reset] in *; try discriminate; try reflexivity; try apply P;
    try (destruct (vc_set (a_aux s)); cbn [negb fst]; [apply P|reflexivity]).
  - (* mask *) unfold a_mask. cbn [ag set_ag].
    rewrite gcell_mapi2 by (try rewrite H2 by assumption; lia).
    destruct (cell_inb _ _ && _); reflexivity.
  - (* restore *) unfold a_restore. destruct (stack (a_aux s)); [reflexivity|]. cbn [ag].
    rewrite gcell_map2 by (try rewrite H2 by assumption; lia).
    destruct (_ >? _); reflexivity.
  - destruct (text_valid t); cbn [negb fst]; [apply P|reflexivity].
  - destruct (vc_set (a_aux s)); cbn [negb fst]; [|reflexivity].
    destruct (text_valid t); cbn [negb fst]; [apply P|reflexivity].
  - unfold a_char. destruct (text_valid [cp]); cbn [negb]; [|reflexivity]. destruct (cpw cp =? 1); apply P.
  - destruct (vc_set (a_aux s)); cbn [negb fst]; [|reflexivity].
    destruct (text_valid [cp] && (0 <? cpw cp)) eqn:E; cbn [fst]; [|reflexivity].
    unfold a_char. apply andb_true_iff in E. destruct E as (E1 & _). rewrite E1. cbn [negb].
    destruct (cpw cp =? 1); apply P.
  - f_equal. apply (linecell_fold_confined (fun cb => (l, fst cb))); [split; assumption|split; assumption|assumption].
  - f_equal. apply (linecell_fold_confined (fun lb => (fst lb, c))); [split; assumption|split; assumption|assumption].
Qed.

(* ---------------------------------------------------------------------------------- *)
(* clipping only shrinks *)

Theorem clip_shrinks : forall a r p, cell_inb (clip (ax_clip a r)) p = true -> cell_inb (clip a) p = true.
Proof.
  intros a r [y x] H. unfold ax_clip in H.
  destruct (r_intersect (clip a) _) as [c|] eqn:E; cbn [clip ax_set_clip] in H.
  - apply cell_inb_iff in H. apply cell_inb_iff.
    unfold r_intersect, bottom, right, init_bounded in E. cbn [top left lines cols] in E.
    destruct (Z.geb_spec (Z.max (top (clip a)) (top r + xl a)) (Z.min (top (clip a) + lines (clip a)) (top r + xl a + lines r)));
      [discriminate|].
    destruct (Z.geb_spec (Z.max (left (clip a)) (left r + xc a)) (Z.min (left (clip a) + cols (clip a)) (left r + xc a + cols r)));
      [discriminate|].
    inversion E; subst; cbn [top left lines cols] in H. lia.
  - apply cell_inb_iff in H. cbn [top left lines cols] in H. lia.
Qed.

(* no operation other than restore and reset can make the clip larger *)
Definition widens (o : rbop) : bool := match o with ORestore | OReset => true | _ => false end.

Lemma a_linecell_fold_aux : forall (pos : Z * Z -> Z * Z) l s,
  a_aux (fold_left (fun acc cb => a_linecell acc (fst (pos cb)) (snd (pos cb)) (snd cb)) l s) = a_aux s.
Proof. intros pos l. induction l as [|cb l IH]; intros s; cbn [fold_left]; [reflexivity|]. now rewrite IH. Qed.

Theorem astep_clip_shrinks : forall s o p,
  widens o = false ->
  cell_inb (clip (a_aux (fst (astep s o)))) p = true -> cell_inb (clip (a_aux s)) p = true.
Proof.
  intros s o p Hw H.
  destruct o; cbn [astep fst widens] in *; try discriminate; try exact H;
    try (destruct (vc_set (a_aux s)); cbn [negb fst] in H; exact H).
  - eapply clip_shrinks; exact H.
  - destruct (text_valid t); exact H.
  - destruct (vc_set (a_aux s)); cbn [negb fst] in H; [|exact H]. destruct (text_valid t); exact H.
  - unfold a_char in H. destruct (text_valid [cp]); cbn [negb] in H; [|exact H]. destruct (cpw cp =? 1); exact H.
  - destruct (vc_set (a_aux s)); cbn [negb fst] in H; [|exact H].
    destruct (text_valid [cp] && (0 <? cpw cp)); cbn [fst] in H; [|exact H].
    unfold a_char in H. destruct (text_valid [cp]); cbn [negb] in H; [|exact H]. destruct (cpw cp =? 1); exact H.
  - rewrite (a_linecell_fold_aux (fun cb => (l, fst cb))) in H. exact H.
  - rewrite (a_linecell_fold_aux (fun lb => (fst lb, c))) in H. exact H.
Qed.

Theorem arun_clip_shrinks : forall ops s p,
  forallb (fun o => negb (widens o)) ops = true ->
  cell_inb (clip (a_aux (fst (arun s ops)))) p = true -> cell_inb (clip (a_aux s)) p = true.
Proof.
  induction ops as [|o ops IH]; intros s p Hw H; cbn [arun forallb] in *; [exact H|].
  apply andb_true_iff in Hw. destruct Hw as (Hw1 & Hw2). apply negb_true_iff in Hw1.
  destruct (astep s o) as [s1 v1] eqn:E1. destruct (arun s1 ops) as [s2 v2] eqn:E2. cbn [fst] in H.
  apply (astep_clip_shrinks s o p Hw1). rewrite E1. cbn [fst].
  apply (IH s1 p Hw2). rewrite E2. exact H.
Qed.

(* ---------------------------------------------------------------------------------- *)
(* cursor-relative operations advance the cursor by the columns requested, whatever is
   visible; invalid text and a missing cursor change nothing and report -1 *)

Theorem cursor_advances : forall s o,
  let a := a_aux s in
  let a' := a_aux (fst (astep s o)) in
  let v := snd (astep s o) in
  match o with
  | OSkip n | OErase n => vc_set a = true -> vc_set a' = true /\ vc_line a' = vc_line a /\ vc_col a' = vc_col a + n
  | OSkipTo c | OEraseTo c => vc_set a = true -> vc_set a' = true /\ vc_line a' = vc_line a /\ vc_col a' = c
  | OText t =>
      (vc_set a = true -> text_valid t = true ->
         v = [text_width t] /\ vc_set a' = true /\ vc_line a' = vc_line a /\ vc_col a' = vc_col a + text_width t) /\
      (vc_set a = false \/ text_valid t = false -> v = [-1] /\ fst (astep s o) = s)
  | OChar cp =>
      (vc_set a = true -> text_valid [cp] = true -> vc_set a' = true /\ vc_line a' = vc_line a /\ vc_col a' = vc_col a + cpw cp)
  | OTextAt _ _ t => (text_valid t = true -> v = [text_width t] /\ a' = a) /\ (text_valid t = false -> v = [-1] /\ fst (astep s o) = s)
  | _ => True
  end.
Proof.
  intros s o. destruct o; cbv zeta; cbn [astep]; try exact Logic.I.
  - intros H. rewrite H. cbn [negb fst]. auto.
  - intros H. rewrite H. cbn [negb fst]. auto.
  - split.
    + intros H. rewrite H. cbn [negb fst snd]. auto.
    + intros H. rewrite H. cbn [negb fst snd]. auto.
  - split.
    + intros H1 H2. rewrite H1, H2. cbn [negb fst snd]. auto.
    + intros [H|H].
      * rewrite H. cbn [negb fst snd]. auto.
      * destruct (vc_set (a_aux s)); cbn [negb fst snd]; [rewrite H|]; cbn [negb fst snd]; auto.
  - intros H. rewrite H. cbn [negb fst]. auto.
  - intros H. rewrite H. cbn [negb fst]. auto.
  - intros H1 H2. rewrite H1, H2. cbn [negb fst andb].
    destruct (Z.ltb_spec 0 (cpw cp)) as [Hp|Hz]; cbn [fst].
    + unfold a_char. rewrite H2. cbn [negb]. destruct (cpw cp =? 1); cbn; auto.
    + (* a zero-width character: nothing is requested *)
      assert (cpw cp = 0).
      { unfold text_valid in H2. cbn [forallb] in H2. apply andb_true_iff in H2. destruct H2 as (K & _). apply Z.leb_le in K. lia. }
      rewrite H. rewrite Z.add_0_r. auto.
Qed.
