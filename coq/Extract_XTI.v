From Coq Require Extraction.
From Coq Require Import ExtrOcamlBasic.
From Tickit Require Import Csi TermPenDefs XtermDefs TiDefs.
Extraction "mXTI.ml" empty_pen pset has_attr ti_step ti_render timode_new.
