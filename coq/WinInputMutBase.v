(* WinInputMutBase.v -- property C14, mutation inside a handler: the ground work.
   - routing on states that carry freed / pending windows but no armed mutation ([Gs]):
     [handle_key_Gs], [handle_mouse_Gs] (the theorems of WinInputProofs.v for quiet states,
     generalised: nothing is read from a freed window as long as the routed subtree is clean);
   - the set of windows a key can reach, [vis_ids], and [key_order] as a permutation of it;
   - more facts about [cut] (the tree after a close, node by node);
   - the multiset check of the property from a permutation. *)
From Coq Require Import ZArith List Bool Lia ZifyBool Permutation.
From Tickit Require Import RectDefs WinDefs WinInput WinInputSpec WinInputProofs.
Import ListNotations.
Local Open Scope Z_scope.

(* ==================================================================================== *)
(* 1. States without an armed mutation                                                   *)

Definition Gs (R : root) (F Pn H : list Z) (L : list iev) : istate := mkI R F H Pn [] L false.

(* no window of the subtree is freed or waiting to be freed *)
Definition clean (F Pn : list Z) (n : wtree) : Prop :=
  forall x, In x (t_ids n) -> mem x F = false /\ mem x Pn = false.

Lemma clean_kid F Pn n c : clean F Pn n -> In c (t_kids n) -> clean F Pn c.
Proof.
  intros Hc Hk x Hx. apply Hc. rewrite t_ids_eq. right. eapply kid_ids_in; eassumption.
Qed.

Lemma clean_self F Pn n : clean F Pn n -> mem (t_id n) F = false /\ mem (t_id n) Pn = false.
Proof. intros Hc. apply Hc. apply t_id_in. Qed.

Lemma look_Gs R F Pn H L w : mem w F = false -> look (Gs R F Pn H L) w = f_find R w.
Proof. intros Hm. unfold look, Gs. cbn [i_freed i_root]. rewrite Hm. reflexivity. Qed.

Lemma hold_Gs R F Pn H L w : hold (Gs R F Pn H L) w = Gs R F Pn (w :: H) L.
Proof. reflexivity. Qed.

Lemma release_Gs R F Pn H L w :
  mem w Pn = false -> release (Gs R F Pn H L) w = Gs R F Pn (remove_one w H) L.
Proof. intros Hm. unfold release, Gs. cbn [i_pending i_holds]. rewrite Hm. reflexivity. Qed.

Lemma run_handler_Gs cfg claims R F Pn H L w e :
  run_handler cfg claims (Gs R F Pn H L) w e = (Gs R F Pn H (e :: L), Z.testbit (claims w) (ev_bit e)).
Proof. reflexivity. Qed.

Lemma fchild_of_Gs R F Pn H L w :
  mem w F = false ->
  fchild_of (Gs R F Pn H L) w = match f_find R w with Some n => w_fchild (t_info n) | None => None end.
Proof. intros Hm. unfold fchild_of. rewrite look_Gs by exact Hm. reflexivity. Qed.

Lemma kid_ids_Gs R F Pn H L w :
  mem w F = false ->
  kid_ids (Gs R F Pn H L) w = match f_find R w with Some n => map t_id (t_kids n) | None => [] end.
Proof. intros Hm. unfold kid_ids. rewrite look_Gs by exact Hm. reflexivity. Qed.

(* ---- keys ---- *)
Definition key_okG (f : nat) (claims : Z -> Z) (R : root) (F Pn : list Z) (c : wtree) : Prop :=
  forall H L, handle_key f no_defects claims (Gs R F Pn H L) (t_id c) =
              (Gs R F Pn H (klog claims (key_order c) L), existsb (kP claims) (key_order c)).

Lemma key_loop_Gs f claims R F Pn wn stolen :
  ids_unique R -> subl wn (forest R) -> mem (t_id wn) F = false ->
  (forall c, In c (t_kids wn) -> key_okG f claims R F Pn c) ->
  forall cs, incl cs (t_kids wn) -> forall H L,
  key_loop (handle_key f no_defects claims) (t_id wn) stolen (Gs R F Pn H L) (map t_id cs) =
  (Gs R F Pn H (klog claims (flat_map (F3 (w_fchild (t_info wn)) stolen) cs) L),
   existsb (kP claims) (flat_map (F3 (w_fchild (t_info wn)) stolen) cs)).
Proof.
  intros Hu Hs HmF Hok. induction cs as [|a cs IH]; intros Hincl H L; [reflexivity|].
  assert (Ha : In a (t_kids wn)) by (apply Hincl; left; reflexivity).
  assert (Hincl' : incl cs (t_kids wn)) by (intros x Hx; apply Hincl; right; exact Hx).
  cbn [map]. rewrite key_loop_cons.
  change (i_root (Gs R F Pn H L)) with R.
  rewrite (f_parent_unique R wn a Hu Hs Ha). cbn [opt_is]. rewrite Z.eqb_refl. cbn [negb].
  unfold key_skip. rewrite fchild_of_Gs by exact HmF. rewrite (f_find_unique R wn Hu Hs). rewrite !opt_is_eqb.
  cbn [flat_map]. unfold F3 at 1 3. rewrite <- negb_orb.
  destruct (opt_eqb (w_fchild (t_info wn)) (t_id a) || opt_eqb stolen (t_id a)) eqn:E; cbn [negb app].
  - apply IH. exact Hincl'.
  - rewrite (Hok a Ha). destruct (existsb (kP claims) (key_order a)) eqn:Ea.
    + rewrite klog_app_t by exact Ea. rewrite existsb_app, Ea. reflexivity.
    + rewrite (IH Hincl'). rewrite klog_app_f by exact Ea. rewrite existsb_app, Ea. reflexivity.
Qed.

Theorem handle_key_Gs claims R F Pn :
  ids_unique R -> forall fuel wn,
  subl wn (forest R) -> focus_okb wn = true -> (height wn < fuel)%nat -> clean F Pn wn ->
  key_okG fuel claims R F Pn wn.
Proof.
  intros Hu. induction fuel as [|f IHf]; intros wn Hs Hfo Hh Hcl H L; [lia|].
  destruct (clean_self _ _ _ Hcl) as (HmF & HmP).
  assert (Hfind : f_find R (t_id wn) = Some wn) by (apply f_find_unique; assumption).
  assert (Hkids : forall c, In c (t_kids wn) -> key_okG f claims R F Pn c).
  { intros c Hc. apply IHf.
    - eapply subl_kid; eassumption.
    - eapply focus_ok_kid; eassumption.
    - apply height_kid in Hc. lia.
    - eapply clean_kid; eassumption. }
  assert (Hndk : NoDup (map t_id (t_kids wn))).
  { apply NoDup_kid_ids. apply (NoDup_kids wn). eapply subl_nodup; eassumption. }
  pose proof (key_loop_Gs f claims R F Pn wn) as Hloop. specialize (fun st => Hloop st Hu Hs HmF Hkids).
  rewrite handle_key_S. unfold key_step. rewrite look_Gs by exact HmF. rewrite Hfind.
  destruct wn as [i ch]. cbn [t_info t_kids] in *. rewrite key_order_eq.
  change (w_id i) with (t_id (Node i ch)).
  set (w := t_id (Node i ch)) in *.
  destruct (w_vis i) eqn:Ev; cbn [negb]; [|reflexivity].
  rewrite hold_Gs. cbv zeta.
  set (stolen := match ch with c :: _ => if w_steal (t_info c) then Some (t_id c) else None | [] => None end).
  set (A := flat_map (fun c => if opt_eqb stolen (t_id c) then key_order c else []) ch).
  set (B := flat_map (fun c => if opt_eqb (w_fchild i) (t_id c) && negb (opt_eqb stolen (t_id c)) then key_order c else []) ch).
  fold (F3 (w_fchild i) stolen).
  set (C := flat_map (F3 (w_fchild i) stolen) ch).
  assert (H1 : match ch with
    | [] => (Gs R F Pn (w :: H) L, false, None)
    | c :: _ =>
        if w_steal (t_info c)
        then let '(s', r) := handle_key f no_defects claims (Gs R F Pn (w :: H) L) (t_id c) in (s', r, Some (t_id c))
        else (Gs R F Pn (w :: H) L, false, None)
    end = (Gs R F Pn (w :: H) (klog claims A L), existsb (kP claims) A, stolen)).
  { subst A stolen. destruct ch as [|c0 r]; [reflexivity|].
    destruct (w_steal (t_info c0)) eqn:Est.
    - rewrite (Hkids c0 (or_introl eq_refl)). cbn [flat_map opt_eqb]. rewrite Z.eqb_refl.
      rewrite flat_map_nil; [rewrite app_nil_r; reflexivity|].
      intros c Hc. cbn [map] in Hndk. inversion Hndk as [|? ? Hn Hd]; subst.
      destruct (t_id c0 =? t_id c) eqn:E; [|reflexivity].
      exfalso. apply Hn. replace (t_id c0) with (t_id c) by (clear - E; lia). apply in_map. exact Hc.
    - rewrite flat_map_nil; [reflexivity|]. intros c _. reflexivity. }
  rewrite H1. clear H1.
  assert (Hrel : forall L', release (Gs R F Pn (w :: H) L') w = Gs R F Pn H L').
  { intros L'. rewrite release_Gs by exact HmP. cbn [remove_one]. rewrite Z.eqb_refl. reflexivity. }
  destruct (existsb (kP claims) A) eqn:EA.
  { rewrite Hrel. rewrite klog_app_t by exact EA. rewrite existsb_app, EA. reflexivity. }
  rewrite fchild_of_Gs by exact HmF. rewrite Hfind. cbn [t_info].
  assert (H2 : match w_fchild i with
    | Some k => if opt_is stolen (Some k) then (Gs R F Pn (w :: H) (klog claims A L), false)
                else handle_key f no_defects claims (Gs R F Pn (w :: H) (klog claims A L)) k
    | None => (Gs R F Pn (w :: H) (klog claims A L), false)
    end = (Gs R F Pn (w :: H) (klog claims B (klog claims A L)), existsb (kP claims) B)).
  { subst B. destruct (w_fchild i) as [k|] eqn:Efc.
    - cbn [focus_okb] in Hfo. rewrite Efc in Hfo. apply andb_true_iff in Hfo. destruct Hfo as (Hex & _).
      apply existsb_exists in Hex. destruct Hex as (ck & Hck & Hid).
      assert (k = t_id ck) by (clear - Hid; lia). subst k. clear Hid.
      rewrite (flat_map_single _ ch ck Hndk Hck).
      + rewrite opt_is_eqb. cbn [opt_eqb]. rewrite Z.eqb_refl. cbn [andb].
        destruct (opt_eqb stolen (t_id ck)); cbn [negb]; [reflexivity|].
        apply (Hkids ck Hck).
      + intros c _ Hne. cbn [opt_eqb]. destruct (t_id ck =? t_id c) eqn:E; [clear - E Hne; lia|reflexivity].
    - rewrite flat_map_nil; [reflexivity|]. intros c _. reflexivity. }
  rewrite H2. clear H2.
  destruct (existsb (kP claims) B) eqn:EB.
  { rewrite Hrel. rewrite klog_app_f by exact EA. rewrite klog_app_t by exact EB.
    rewrite !existsb_app, EA, EB. reflexivity. }
  rewrite run_handler_Gs. cbn [ev_bit]. change (Z.testbit (claims w) 0) with (kP claims w).
  assert (Hw : klog claims [w] (klog claims B (klog claims A L)) = IKey w :: klog claims B (klog claims A L)).
  { unfold klog at 1. cbn [until_claim]. destruct (kP claims w); reflexivity. }
  destruct (kP claims w) eqn:Ew.
  { rewrite Hrel. rewrite klog_app_f by exact EA. rewrite klog_app_f by exact EB.
    rewrite klog_app_t by (cbn [existsb]; rewrite Ew; reflexivity). rewrite Hw.
    rewrite !existsb_app, EA, EB. cbn [existsb]. rewrite Ew. reflexivity. }
  rewrite kid_ids_Gs by exact HmF. rewrite Hfind. cbn [t_kids].
  rewrite (Hloop stolen ch (incl_refl ch)). fold C.
  rewrite Hrel.
  rewrite klog_app_f by exact EA. rewrite klog_app_f by exact EB.
  rewrite klog_app_f by (cbn [existsb]; rewrite Ew; reflexivity). rewrite Hw.
  rewrite !existsb_app, EA, EB. cbn [existsb]. rewrite Ew. reflexivity.
Qed.

(* ---- mouse ---- *)
Definition mouse_okG (f : nat) (claims : Z -> Z) (R : root) (F Pn : list Z) (ty btn : Z) (c : wtree) : Prop :=
  forall line col H L,
    handle_mouse f no_defects claims (Gs R F Pn H L) (t_id c) ty btn line col =
    (Gs R F Pn H (mlog claims ty btn (mouse_order c line col) L),
     mclaim claims ty (mouse_order c line col)).

Lemma mouse_loop_Gs f claims R F Pn ty btn wn line col :
  ids_unique R -> subl wn (forest R) -> clean F Pn wn ->
  (forall c, In c (t_kids wn) -> mouse_okG f claims R F Pn ty btn c) ->
  forall cs, incl cs (t_kids wn) -> forall H L,
  mouse_loop (fun s c cl cc => handle_mouse f no_defects claims s c ty btn cl cc) (t_id wn) line col
             (Gs R F Pn H L) (map t_id cs) =
  (Gs R F Pn H (mlog claims ty btn (flat_map (G line col) cs) L),
   mclaim claims ty (flat_map (G line col) cs)).
Proof.
  intros Hu Hs Hcl Hok. induction cs as [|a cs IH]; intros Hincl H L; [reflexivity|].
  assert (Ha : In a (t_kids wn)) by (apply Hincl; left; reflexivity).
  assert (Hincl' : incl cs (t_kids wn)) by (intros x Hx; apply Hincl; right; exact Hx).
  destruct (clean_self _ _ _ (clean_kid _ _ _ _ Hcl Ha)) as (HaF & _).
  cbn [map]. rewrite mouse_loop_cons.
  change (i_root (Gs R F Pn H L)) with R.
  rewrite (f_parent_unique R wn a Hu Hs Ha). cbn [opt_is]. rewrite Z.eqb_refl. cbn [negb].
  rewrite look_Gs by exact HaF. rewrite (f_find_unique R a Hu (subl_kid _ _ _ Hs Ha)).
  rewrite try_child_spec. cbn [flat_map]. unfold G at 1 3.
  destruct (w_steal (t_info a) || cell_inb (w_rect (t_info a)) (line, col)) eqn:E; cbn [app].
  - rewrite (Hok a Ha).
    set (ro := mouse_order a (line - top (w_rect (t_info a))) (col - left (w_rect (t_info a)))).
    destruct (existsb (mP claims ty) ro) eqn:Ea.
    + destruct (mclaim_some _ _ _ Ea) as (x & lc & cc & Hx & _ & _).
      rewrite mclaim_app, Ea, Hx. rewrite mlog_app_t by exact Ea. reflexivity.
    + rewrite (mclaim_none _ _ _ Ea). rewrite (IH Hincl').
      rewrite mclaim_app, Ea. rewrite mlog_app_f by exact Ea. reflexivity.
  - apply IH. exact Hincl'.
Qed.

Theorem handle_mouse_Gs claims R F Pn ty btn :
  ids_unique R -> forall fuel wn,
  subl wn (forest R) -> (height wn < fuel)%nat -> clean F Pn wn ->
  mouse_okG fuel claims R F Pn ty btn wn.
Proof.
  intros Hu. induction fuel as [|f IHf]; intros wn Hs Hh Hcl line col H L; [lia|].
  destruct (clean_self _ _ _ Hcl) as (HmF & HmP).
  assert (Hfind : f_find R (t_id wn) = Some wn) by (apply f_find_unique; assumption).
  assert (Hkids : forall c, In c (t_kids wn) -> mouse_okG f claims R F Pn ty btn c).
  { intros c Hc. apply IHf.
    - eapply subl_kid; eassumption.
    - apply height_kid in Hc. lia.
    - eapply clean_kid; eassumption. }
  pose proof (mouse_loop_Gs f claims R F Pn ty btn wn line col Hu Hs Hcl Hkids) as Hloop.
  rewrite handle_mouse_S. unfold mouse_step. rewrite look_Gs by exact HmF. rewrite Hfind.
  destruct wn as [i ch]. cbn [t_info t_kids] in *. rewrite mouse_order_eq.
  change (w_id i) with (t_id (Node i ch)).
  set (w := t_id (Node i ch)) in *.
  destruct (w_vis i) eqn:Ev; cbn [negb]; [|reflexivity].
  rewrite hold_Gs. cbv zeta. rewrite kid_ids_Gs by exact HmF. rewrite Hfind. cbn [t_kids].
  rewrite (Hloop ch (incl_refl ch)). fold (G line col).
  set (K := flat_map (G line col) ch).
  destruct (existsb (mP claims ty) K) eqn:EK.
  - destruct (mclaim_some _ _ _ EK) as (x & lc & cc & Hx & _ & _).
    rewrite Hx. rewrite release_Gs by exact HmP.
    rewrite mclaim_app, EK, Hx. rewrite mlog_app_t by exact EK.
    cbn [remove_one]. rewrite Z.eqb_refl. reflexivity.
  - rewrite (mclaim_none _ _ _ EK).
    rewrite run_handler_Gs. cbn [ev_bit].
    rewrite mclaim_app, EK. rewrite mlog_app_f by exact EK.
    rewrite mlog_one, mclaim_one. rewrite release_Gs by exact HmP. cbn [remove_one]. rewrite Z.eqb_refl. reflexivity.
Qed.

(* ==================================================================================== *)
(* 2. The windows an event can reach, as sets                                            *)

(* the windows that are visible together with all their ancestors, preorder *)
Fixpoint vis_ids (t : wtree) : list Z :=
  match t with Node i ch => if w_vis i then w_id i :: flat_map vis_ids ch else [] end.

Lemma vis_ids_eq i ch : vis_ids (Node i ch) = if w_vis i then w_id i :: flat_map vis_ids ch else [].
Proof. reflexivity. Qed.

Lemma vis_ids_incl t : incl (vis_ids t) (t_ids t).
Proof.
  induction t as [i ch IH] using wtree_ind'. rewrite vis_ids_eq. destruct (w_vis i); [|intros x []].
  intros x [Hx|Hx]; [left; exact Hx|right]. apply in_flat_map in Hx. destruct Hx as (c & Hc & Hx).
  apply in_flat_map. exists c. split; [exact Hc|]. rewrite Forall_forall in IH. apply (IH c Hc). exact Hx.
Qed.

Lemma perm_flat_map {A B} (f g : A -> list B) l :
  (forall c, In c l -> Permutation (f c) (g c)) -> Permutation (flat_map f l) (flat_map g l).
Proof.
  induction l as [|a r IH]; intros Hp; [constructor|]. cbn [flat_map].
  apply Permutation_app; [apply Hp; left; reflexivity|]. apply IH. intros c Hc. apply Hp. right. exact Hc.
Qed.

Lemma flat_map_3 {A B} (f g k : A -> list B) l :
  Permutation (flat_map f l ++ flat_map g l ++ flat_map k l) (flat_map (fun c => f c ++ g c ++ k c) l).
Proof.
  induction l as [|a r IH]; [constructor|]. cbn [flat_map].
  rewrite <- !app_assoc. apply Permutation_app_head.
  eapply Permutation_trans; [apply Permutation_app_swap_app|]. apply Permutation_app_head.
  rewrite (app_assoc (flat_map f r)).
  eapply Permutation_trans; [apply Permutation_app_swap_app|]. apply Permutation_app_head.
  rewrite <- app_assoc. exact IH.
Qed.

(* children split three ways by two tests, each child in exactly one class *)
Lemma three_way {B} (X : wtree -> list B) (c1 c2 : wtree -> bool) l :
  Permutation
    (flat_map (fun c => if c1 c then X c else []) l ++
     flat_map (fun c => if c2 c && negb (c1 c) then X c else []) l ++
     flat_map (fun c => if negb (c2 c) && negb (c1 c) then X c else []) l)
    (flat_map X l).
Proof.
  eapply Permutation_trans; [apply flat_map_3|].
  apply perm_flat_map. intros c _. destruct (c1 c), (c2 c); cbn [andb negb app]; rewrite ?app_nil_r; apply Permutation_refl.
Qed.

Lemma key_order_perm t : Permutation (key_order t) (vis_ids t).
Proof.
  induction t as [i ch IH] using wtree_ind'. rewrite key_order_eq, vis_ids_eq.
  destruct (w_vis i); cbn [negb]; [|constructor]. cbv zeta.
  set (stolen := match ch with c :: _ => if w_steal (t_info c) then Some (t_id c) else None | [] => None end).
  rewrite app_assoc. eapply Permutation_trans; [apply Permutation_sym, Permutation_middle|].
  apply perm_skip. rewrite <- app_assoc.
  eapply Permutation_trans.
  { apply (three_way key_order (fun c => opt_eqb stolen (t_id c)) (fun c => opt_eqb (w_fchild i) (t_id c)) ch). }
  apply perm_flat_map. intros c Hc. rewrite Forall_forall in IH. apply IH. exact Hc.
Qed.

(* what is left of a list of windows outside the closed set *)
Definition rest (C : list Z) (l : list Z) : list Z := filter (fun x => negb (mem x C)) l.

Lemma rest_app C l1 l2 : rest C (l1 ++ l2) = rest C l1 ++ rest C l2.
Proof. apply filter_app. Qed.

Lemma rest_flat_map {A} C (f : A -> list Z) l : rest C (flat_map f l) = flat_map (fun c => rest C (f c)) l.
Proof. induction l as [|a r IH]; [reflexivity|]. cbn [flat_map]. rewrite rest_app, IH. reflexivity. Qed.

Lemma mem_true_in x l : In x l -> mem x l = true.
Proof. intros Hi. unfold mem. apply existsb_exists. exists x. split; [exact Hi|apply Z.eqb_refl]. Qed.

Lemma mem_false_notin x l : ~ In x l -> mem x l = false.
Proof.
  intros Hn. destruct (mem x l) eqn:E; [|reflexivity]. exfalso. apply Hn. unfold mem in E.
  apply existsb_exists in E. destruct E as (y & Hy & He). replace x with y by lia. exact Hy.
Qed.

Lemma mem_in x l : mem x l = true -> In x l.
Proof.
  unfold mem. intros E. apply existsb_exists in E. destruct E as (y & Hy & He). replace x with y by lia. exact Hy.
Qed.

Lemma rest_nil C l : incl l C -> rest C l = [].
Proof.
  induction l as [|a r IH]; intros Hi; [reflexivity|]. unfold rest. cbn [filter].
  rewrite (mem_true_in a C (Hi a (or_introl eq_refl))). cbn [negb]. apply IH. intros x Hx. apply Hi. right. exact Hx.
Qed.

Lemma perm_filter {A} (f : A -> bool) l l' : Permutation l l' -> Permutation (filter f l) (filter f l').
Proof.
  induction 1 as [|x l l' Hp IH|x y l|l l' l'' H1 IH1 H2 IH2]; cbn [filter].
  - constructor.
  - destruct (f x); [apply perm_skip|]; exact IH.
  - destruct (f x), (f y); try apply Permutation_refl. apply perm_swap.
  - eapply Permutation_trans; eassumption.
Qed.

Lemma perm_rest C l l' : Permutation l l' -> Permutation (rest C l) (rest C l').
Proof. apply perm_filter. Qed.

(* ==================================================================================== *)
(* 3. More about [cut]                                                                   *)

Lemma cut_rect w0 n : w_rect (t_info (cut w0 n)) = w_rect (t_info n).
Proof. destruct n as [i ch]. cbn [cut t_info]. destruct (_ && _); reflexivity. Qed.

Lemma cut_steal w0 n : w_steal (t_info (cut w0 n)) = w_steal (t_info n).
Proof. destruct n as [i ch]. cbn [cut t_info]. destruct (_ && _); reflexivity. Qed.

Lemma cut_kids' w0 n : t_kids (cut w0 n) = map (cut w0) (kids_remove w0 (t_kids n)).
Proof. destruct n as [i ch]. apply cut_kids. Qed.

Lemma cut_no_tgt w0 n : t_id n <> w0 -> ~ In w0 (t_ids (cut w0 n)).
Proof.
  induction n as [i ch IH] using wtree_ind'. intros Hne Hin.
  rewrite t_ids_eq, cut_id_eq, cut_kids' in Hin. cbn [t_kids] in Hin. destruct Hin as [Hin|Hin]; [contradiction|].
  apply in_flat_map in Hin. destruct Hin as (c' & Hc' & Hin). apply in_map_iff in Hc'.
  destruct Hc' as (c & <- & Hc). unfold kids_remove in Hc. apply filter_In in Hc. destruct Hc as (Hc & Hf).
  rewrite Forall_forall in IH. apply (IH c Hc); [|exact Hin]. intro He. rewrite He, Z.eqb_refl in Hf. discriminate Hf.
Qed.

Lemma focus_ok_cut w0 n : focus_okb n = true -> focus_okb (cut w0 n) = true.
Proof.
  induction n as [i ch IH] using wtree_ind'. intros Hf.
  cbn [focus_okb] in Hf. apply andb_true_iff in Hf. destruct Hf as (Hfc & Hk).
  rewrite forallb_forall in Hk.
  assert (Hkids : forallb focus_okb (kids_remove w0 (map (cut w0) ch)) = true).
  { apply forallb_forall. intros c' Hc'. unfold kids_remove in Hc'. apply filter_In in Hc'. destruct Hc' as (Hc' & _).
    apply in_map_iff in Hc'. destruct Hc' as (c & <- & Hc). rewrite Forall_forall in IH. apply IH; [exact Hc|]. apply Hk. exact Hc. }
  cbn [cut focus_okb].
  destruct (existsb (fun c => t_id c =? w0) ch && opt_eqb (w_fchild i) w0) eqn:Ec.
  - cbn [set_fchild w_fchild]. exact Hkids.
  - rewrite Hkids, andb_true_r. destruct (w_fchild i) as [k|]; [|reflexivity].
    apply existsb_exists in Hfc. destruct Hfc as (ck & Hck & Hid).
    cbn [opt_eqb] in Ec.
    assert (Hne : t_id ck <> w0).
    { intro He. assert (Hx : existsb (fun c => t_id c =? w0) ch = true).
      { apply existsb_exists. exists ck. split; [exact Hck|lia]. }
      rewrite Hx in Ec. cbn [andb] in Ec. lia. }
    apply existsb_exists. exists (cut w0 ck). split.
    + unfold kids_remove. apply filter_In. split; [apply in_map; exact Hck|]. rewrite cut_id_eq.
      destruct (t_id ck =? w0) eqn:E; [lia|reflexivity].
    + rewrite cut_id_eq. exact Hid.
Qed.

Lemma fold_max_le (f : wtree -> nat) l m :
  (forall c, In c l -> (f c <= m)%nat) -> (fold_right (fun c a => Nat.max (f c) a) O l <= m)%nat.
Proof.
  induction l as [|a r IH]; intros Hf; cbn [fold_right]; [lia|].
  specialize (IH (fun c Hc => Hf c (or_intror Hc))). specialize (Hf a (or_introl eq_refl)). lia.
Qed.

Lemma height_cut w0 n : (height (cut w0 n) <= height n)%nat.
Proof.
  induction n as [i ch IH] using wtree_ind'. cbn [cut height]. apply le_n_S.
  apply fold_max_le. intros c' Hc'. unfold kids_remove in Hc'. apply filter_In in Hc'. destruct Hc' as (Hc' & _).
  apply in_map_iff in Hc'. destruct Hc' as (c & <- & Hc). rewrite Forall_forall in IH. specialize (IH c Hc).
  pose proof (height_kid c (Node i ch) Hc) as Hk. cbn [height] in Hk. lia.
Qed.

(* outside the closed subtree the reachable windows are the same before and after *)
Lemma vis_cut w0 C n :
  (forall k, sub k n -> t_id k = w0 -> incl (t_ids k) C) ->
  rest C (vis_ids (cut w0 n)) = rest C (vis_ids n).
Proof.
  induction n as [i ch IH] using wtree_ind'. intros Hk.
  assert (Hv : vis_ids (cut w0 (Node i ch)) =
               if w_vis i then w_id i :: flat_map vis_ids (kids_remove w0 (map (cut w0) ch)) else []).
  { cbn [cut]. rewrite vis_ids_eq. destruct (_ && _); reflexivity. }
  rewrite Hv, vis_ids_eq. destruct (w_vis i); [|reflexivity].
  change (w_id i :: ?x) with ([w_id i] ++ x). rewrite !(rest_app C [w_id i]). f_equal.
  assert (Hk' : forall c, In c ch -> forall k, sub k c -> t_id k = w0 -> incl (t_ids k) C).
  { intros c Hc k Hs. apply Hk. eapply sub_trans; [exact Hs|apply sub_kid1; exact Hc]. }
  clear Hk Hv. induction ch as [|a r IHr]; [reflexivity|].
  pose proof (Forall_inv IH) as IHa. pose proof (Forall_inv_tail IH) as IHrest.
  specialize (IHr IHrest (fun c Hc => Hk' c (or_intror Hc))).
  cbn [map]. unfold kids_remove. cbn [filter]. fold (kids_remove w0 (map (cut w0) r)). rewrite cut_id_eq.
  cbn [flat_map]. rewrite (rest_app C (vis_ids a)).
  destruct (t_id a =? w0) eqn:E; cbn [negb].
  - rewrite IHr. rewrite (rest_nil C (vis_ids a)); [reflexivity|].
    intros x Hx. apply (Hk' a (or_introl eq_refl) a (sub_refl a)); [lia|]. apply vis_ids_incl. exact Hx.
  - cbn [flat_map]. rewrite rest_app, IHr. f_equal. apply IHa. apply (Hk' a (or_introl eq_refl)).
Qed.

(* the same for the mouse route, which even keeps its order *)
Definition restm (C : list Z) (l : list (Z * Z * Z)) : list (Z * Z * Z) :=
  filter (fun e => negb (mem (fst (fst e)) C)) l.

Lemma restm_app C l1 l2 : restm C (l1 ++ l2) = restm C l1 ++ restm C l2.
Proof. apply filter_app. Qed.

Lemma restm_nil C l : (forall w a b, In (w, a, b) l -> In w C) -> restm C l = [].
Proof.
  induction l as [|[[w a] b] r IH]; intros Hi; [reflexivity|]. unfold restm. cbn [filter fst].
  rewrite (mem_true_in w C (Hi w a b (or_introl eq_refl))). cbn [negb]. apply IH.
  intros w' a' b' Hx. eapply Hi. right. exact Hx.
Qed.

Lemma mouse_cut w0 C n : forall line col,
  (forall k, sub k n -> t_id k = w0 -> incl (t_ids k) C) ->
  restm C (mouse_order (cut w0 n) line col) = restm C (mouse_order n line col).
Proof.
  induction n as [i ch IH] using wtree_ind'. intros line col Hk.
  assert (Hv : mouse_order (cut w0 (Node i ch)) line col =
               if negb (w_vis i) then [] else
               flat_map (G line col) (kids_remove w0 (map (cut w0) ch)) ++ [(w_id i, line, col)]).
  { cbn [cut]. rewrite mouse_order_eq. destruct (_ && _); reflexivity. }
  rewrite Hv, mouse_order_eq. fold (G line col). destruct (negb (w_vis i)); [reflexivity|].
  rewrite !restm_app. f_equal.
  assert (Hk' : forall c, In c ch -> forall k, sub k c -> t_id k = w0 -> incl (t_ids k) C).
  { intros c Hc k Hs. apply Hk. eapply sub_trans; [exact Hs|apply sub_kid1; exact Hc]. }
  clear Hk Hv. induction ch as [|a r IHr]; [reflexivity|].
  pose proof (Forall_inv IH) as IHa. pose proof (Forall_inv_tail IH) as IHrest.
  specialize (IHr IHrest (fun c Hc => Hk' c (or_intror Hc))).
  cbn [map]. unfold kids_remove. cbn [filter]. fold (kids_remove w0 (map (cut w0) r)). rewrite cut_id_eq.
  cbn [flat_map]. rewrite (restm_app C (G line col a)).
  destruct (t_id a =? w0) eqn:E; cbn [negb].
  - rewrite IHr. rewrite (restm_nil C (G line col a)); [reflexivity|].
    intros w x y Hx. apply (Hk' a (or_introl eq_refl) a (sub_refl a)); [lia|].
    unfold G in Hx. destruct (_ || _); [|destruct Hx]. eapply mouse_order_ids. exact Hx.
  - cbn [flat_map]. rewrite restm_app, IHr. f_equal.
    unfold G. rewrite cut_steal, cut_rect.
    destruct (w_steal (t_info a) || cell_inb (w_rect (t_info a)) (line, col)); [|reflexivity].
    apply IHa. apply (Hk' a (or_introl eq_refl)).
Qed.

(* ==================================================================================== *)
(* 4. The checks of the property                                                         *)

Lemma c14_set_of_perm closed ex ob :
  Permutation (filter (fun e => negb (mem (iev_win e) closed)) ex)
              (filter (fun e => negb (mem (iev_win e) closed)) ob) ->
  c14_rest_set_checkb closed ex ob = true.
Proof.
  intros Hp. unfold c14_rest_set_checkb. cbv zeta. apply forallb_forall. intros e _.
  unfold iev_count. rewrite (Permutation_length (perm_filter (iev_eqb e) _ _ Hp)). apply Nat.eqb_refl.
Qed.

Lemma filter_map_IKey C l :
  filter (fun e => negb (mem (iev_win e) C)) (map IKey l) = map IKey (rest C l).
Proof.
  induction l as [|a r IH]; [reflexivity|]. unfold rest. cbn [map filter iev_win].
  destruct (negb (mem a C)); cbn [map]; rewrite IH; reflexivity.
Qed.

Lemma no_claim_existsb claims l : (forall x, kP claims x = false) -> existsb (kP claims) l = false.
Proof. intros Hn. induction l as [|a r IH]; [reflexivity|]. cbn [existsb]. rewrite Hn, IH. reflexivity. Qed.

Lemma key_spec_noclaim claims t : (forall x, kP claims x = false) -> key_spec claims t = map IKey (key_order t).
Proof. intros Hn. unfold key_spec. fold (kP claims). rewrite uc_fst_noclaim; [reflexivity|]. apply no_claim_existsb. exact Hn. Qed.

(* ==================================================================================== *)
(* 5. One armed mutation: the states the routing goes through                            *)

Lemma t_parent_some_in id t p : t_parent_node id t = Some p -> In id (flat_map t_ids (t_kids t)).
Proof.
  revert p. induction t as [i ch IH] using wtree_ind'. intros p Hp. rewrite t_parent_node_eq in Hp.
  cbn [t_kids]. destruct (existsb (fun c => t_id c =? id) ch) eqn:E.
  - apply existsb_exists in E. destruct E as (c & Hc & Hid). apply in_flat_map. exists c. split; [exact Hc|].
    replace id with (t_id c) by lia. apply t_id_in.
  - apply first_some_some in Hp. destruct Hp as (c & Hc & Hpc). rewrite Forall_forall in IH.
    apply in_flat_map. exists c. split; [exact Hc|]. rewrite t_ids_eq. right. eapply IH; eassumption.
Qed.

(* a root of the forest has no parent *)
Lemma f_parent_root_none R n : ids_unique R -> In n (forest R) -> f_parent R (t_id n) = None.
Proof.
  intros Hu Hn. unfold f_parent.
  destruct (first_some (t_parent_node (t_id n)) (forest R)) as [p|] eqn:E; [|reflexivity]. exfalso.
  apply first_some_some in E. destruct E as (t & Ht & Hp). apply t_parent_some_in in Hp.
  assert (Hin : In (t_id n) (t_ids t)) by (rewrite t_ids_eq; right; exact Hp).
  assert (Htn : t = n) by (apply (NoDup_flat_sep (forest R) t n (t_id n) Hu Ht Hn Hin (t_id_in n))).
  subst t. assert (Hnd : NoDup (t_ids n)) by (eapply NoDup_flat_in; eassumption).
  apply NoDup_kids in Hnd. destruct Hnd as (_ & Hx). apply Hx. exact Hp.
Qed.

Lemma f_parent_absent R id : ~ In id (forest_ids R) -> f_parent R id = None.
Proof.
  intros Hn. unfold f_parent. rewrite first_some_none; [reflexivity|].
  intros t Ht. apply t_parent_none. intro Hi. apply Hn. apply in_flat_map. exists t. split; assumption.
Qed.

Section Modes.
  Variable claims : Z -> Z.
  Variable R0 : root.
  Variables h cls act tgt : Z.
  Variable n0 : wtree.
  Hypothesis Hu0 : ids_unique R0.
  Hypothesis Hf0 : t_find tgt (r_tree R0) = Some n0.
  Hypothesis Hnr0 : tgt <> t_id (r_tree R0).

  (* after the close; after the close and the destruction *)
  Definition R1 : root := win_close no_defects R0 tgt.
  Definition R2 : root :=
    set_orphans R1 (flat_map (fun t => if t_id t =? tgt then t_kids t else [t]) (r_orphans R1)).
  Definition A0 : list (Z * (Z * Z * Z)) := [(h, (cls, act, tgt))].

  (* armed / closed / closed, destruction pending (a frame of tgt is active) / destroyed *)
  Inductive mode := M0 | Mc | Mp | Md.
  Definition rootm (m : mode) : root := match m with M0 => R0 | Mc | Mp => R1 | Md => R2 end.
  Definition freedm (m : mode) : list Z := match m with Md => [tgt] | _ => [] end.
  Definition pendm (m : mode) : list Z := match m with Mp => [tgt] | _ => [] end.
  Definition armm (m : mode) : list (Z * (Z * Z * Z)) := match m with M0 => A0 | _ => [] end.
  Definition St (m : mode) (H : list Z) (L : list iev) : istate :=
    mkI (rootm m) (freedm m) H (pendm m) (armm m) L false.

  (* the mode the handler of h leaves, by the references held at that moment; and the mode a
     frame leaves on exit *)
  Definition emode (H : list Z) : mode :=
    if act =? 2 then (if mem tgt H then Mp else Md) else Mc.
  Definition exit_mode (m : mode) (w : Z) (H : list Z) : mode :=
    match m with Mp => if (w =? tgt) && negb (mem tgt H) then Md else Mp | _ => m end.
  Definition fire_mode (m : mode) (w : Z) (e : iev) (H : list Z) : mode :=
    match m with M0 => if (w =? h) && (ev_class e =? cls) then emode H else M0 | _ => m end.

  Lemma St_Gs m H L : m <> M0 -> St m H L = Gs (rootm m) (freedm m) (pendm m) H L.
  Proof. destruct m; [contradiction| | |]; reflexivity. Qed.

  Lemma exit_emode w H : exit_mode (emode (w :: H)) w H = emode H.
  Proof.
    unfold emode, exit_mode. destruct (act =? 2); [|reflexivity].
    change (mem tgt (w :: H)) with ((w =? tgt) || mem tgt H).
    destruct (w =? tgt), (mem tgt H); reflexivity.
  Qed.

  Lemma exit_mode_M0 w H : exit_mode M0 w H = M0.
  Proof. reflexivity. Qed.

  Lemma emode_not_M0 H : emode H <> M0.
  Proof. unfold emode. destruct (act =? 2); [destruct (mem tgt H)|]; discriminate. Qed.

  Lemma emode_Md_self H : emode (tgt :: H) <> Md.
  Proof. unfold emode. destruct (act =? 2); [|discriminate].
    change (mem tgt (tgt :: H)) with ((tgt =? tgt) || mem tgt H). rewrite Z.eqb_refl. discriminate. Qed.

  Lemma look_St m H L x : look (St m H L) x = if mem x (freedm m) then None else f_find (rootm m) x.
  Proof. reflexivity. Qed.

  Lemma hold_St m H L w : hold (St m H L) w = St m (w :: H) L.
  Proof. reflexivity. Qed.

  Lemma release_St m w H L : release (St m (w :: H) L) w = St (exit_mode m w H) H L.
  Proof.
    unfold release, St. cbn [i_holds i_pending i_root i_freed i_armed i_log i_fault remove_one]. rewrite Z.eqb_refl.
    destruct m; cbn [pendm mem existsb andb exit_mode]; try reflexivity.
    rewrite (Z.eqb_sym tgt w). destruct (w =? tgt) eqn:E; cbn [orb andb]; [|reflexivity].
    destruct (mem tgt H) eqn:Em.
    - replace w with tgt by lia. rewrite Em. reflexivity.
    - replace w with tgt by lia. rewrite Em. cbn [negb].
      unfold destroy_now. cbn [i_root i_freed i_holds i_pending i_armed i_log i_fault remove_one].
      rewrite Z.eqb_refl. reflexivity.
  Qed.

  Lemma run_handler_St m H L w e :
    run_handler no_defects claims (St m H L) w e =
    (St (fire_mode m w e H) H (e :: L), Z.testbit (claims w) (ev_bit e)).
  Proof.
    destruct m; try reflexivity.
    unfold run_handler, St, armm, A0, fire_mode.
    cbn [i_root i_freed i_holds i_pending i_armed i_log i_fault armed_take rootm freedm pendm].
    rewrite (Z.eqb_sym h w), (Z.eqb_sym cls (ev_class e)).
    destruct ((w =? h) && (ev_class e =? cls)) eqn:E; [|reflexivity].
    rewrite Hf0. destruct (tgt =? t_id (r_tree R0)) eqn:En; [lia|].
    unfold emode, i_set_root. cbn [i_root i_freed i_holds i_pending i_armed i_log i_fault].
    destruct (act =? 2); [|reflexivity].
    destruct (mem tgt H); reflexivity.
  Qed.

  (* ---- the forest in the three later modes ---- *)
  Lemma R1_forest : r_tree R1 = cut tgt (r_tree R0) /\ r_orphans R1 = n0 :: r_orphans R0.
  Proof. apply win_close_forest; assumption. Qed.

  Lemma tgt_in_tree : In tgt (t_ids (r_tree R0)).
  Proof. destruct (t_find_sub _ _ _ Hf0) as (Hs & Hid). rewrite <- Hid. apply (sub_incl _ _ Hs), t_id_in. Qed.

  Lemma n0_id : t_id n0 = tgt.
  Proof. apply (t_find_sub _ _ _ Hf0). Qed.

  Lemma orphans_not_tgt o : In o (r_orphans R0) -> ~ In tgt (t_ids o).
  Proof.
    intros Ho Hi. unfold ids_unique, forest_ids, forest in Hu0. cbn [flat_map] in Hu0.
    apply NoDup_app_inv in Hu0. destruct Hu0 as (_ & _ & Hsep). apply (Hsep tgt tgt_in_tree).
    apply in_flat_map. exists o. split; assumption.
  Qed.

  Lemma R2_orphans : r_orphans R2 = t_kids n0 ++ r_orphans R0.
  Proof.
    unfold R2. cbn [set_orphans r_orphans]. destruct R1_forest as (_ & ->). cbn [flat_map].
    rewrite n0_id, Z.eqb_refl. f_equal.
    assert (Hx : forall l, (forall o, In o l -> ~ In tgt (t_ids o)) ->
                 flat_map (fun t => if t_id t =? tgt then t_kids t else [t]) l = l).
    { induction l as [|a r IH]; intros Hn; [reflexivity|]. cbn [flat_map].
      destruct (t_id a =? tgt) eqn:E.
      - exfalso. apply (Hn a (or_introl eq_refl)). replace tgt with (t_id a) by lia. apply t_id_in.
      - cbn [app]. f_equal. apply IH. intros o Ho. apply Hn. right. exact Ho. }
    apply Hx. apply orphans_not_tgt.
  Qed.

  Lemma R2_tree : r_tree R2 = r_tree R1.
  Proof. reflexivity. Qed.

  Lemma R1_unique : ids_unique R1.
  Proof. apply (close_props no_defects R0 tgt n0 Hu0 Hf0 Hnr0). Qed.

  Lemma R1_image n : subl n (forest R0) -> subl (cut tgt n) (forest R1).
  Proof. apply (close_props no_defects R0 tgt n0 Hu0 Hf0 Hnr0). Qed.

  Lemma R2_forest_ids :
    forest_ids R1 = t_ids (r_tree R1) ++ tgt :: (flat_map t_ids (t_kids n0) ++ flat_map t_ids (r_orphans R0)) /\
    forest_ids R2 = t_ids (r_tree R1) ++ (flat_map t_ids (t_kids n0) ++ flat_map t_ids (r_orphans R0)).
  Proof.
    unfold forest_ids, forest. rewrite R2_orphans, R2_tree. destruct R1_forest as (_ & ->).
    cbn [flat_map]. rewrite (t_ids_eq n0), n0_id, flat_map_app. split; reflexivity.
  Qed.

  Lemma R2_unique : ids_unique R2.
  Proof.
    pose proof R1_unique as Hu1. unfold ids_unique in *. destruct R2_forest_ids as (E1 & E2).
    rewrite E1 in Hu1. rewrite E2. eapply NoDup_remove_1. exact Hu1.
  Qed.

  Lemma R2_no_tgt : ~ In tgt (forest_ids R2).
  Proof.
    pose proof R1_unique as Hu1. unfold ids_unique in *. destruct R2_forest_ids as (E1 & E2).
    rewrite E1 in Hu1. rewrite E2. eapply NoDup_remove_2. exact Hu1.
  Qed.

  Lemma R2_image n : subl n (forest R0) -> t_id n <> tgt -> subl (cut tgt n) (forest R2).
  Proof.
    intros Hs Hne. destruct (R1_image n Hs) as (t & Ht & Hsub).
    unfold forest in *. rewrite R2_orphans, R2_tree. destruct R1_forest as (_ & Ho). rewrite Ho in Ht.
    destruct Ht as [Ht|[Ht|Ht]].
    - exists t. split; [left; exact Ht|exact Hsub].
    - subst t. apply sub_inv in Hsub. destruct Hsub as [He|(k & Hk & Hsk)].
      + exfalso. apply Hne. rewrite <- (cut_id_eq tgt n), He. apply n0_id.
      + exists k. split; [right; apply in_or_app; left; exact Hk|exact Hsk].
    - exists t. split; [right; apply in_or_app; right; exact Ht|exact Hsub].
  Qed.

  Lemma after_unique m : m <> M0 -> ids_unique (rootm m).
  Proof. destruct m; intros Hm; [contradiction|apply R1_unique|apply R1_unique|apply R2_unique]. Qed.

  Lemma after_image m n :
    m <> M0 -> subl n (forest R0) -> (m = Md -> t_id n <> tgt) -> subl (cut tgt n) (forest (rootm m)).
  Proof.
    destruct m; intros Hm Hs Hd; [contradiction|apply R1_image; exact Hs|apply R1_image; exact Hs|].
    apply R2_image; [exact Hs|apply Hd; reflexivity].
  Qed.

  Lemma after_clean m c : t_id c <> tgt -> clean (freedm m) (pendm m) (cut tgt c).
  Proof.
    intros Hne x Hx.
    assert (Hxt : x <> tgt) by (intro He; subst x; exact (cut_no_tgt tgt c Hne Hx)).
    assert (Hm : mem x [tgt] = false) by (cbn [mem existsb]; destruct (tgt =? x) eqn:E; [lia|reflexivity]).
    destruct m; cbn [freedm pendm]; split; try reflexivity; exact Hm.
  Qed.

  Lemma after_tgt_orphan m : m <> M0 -> f_parent (rootm m) tgt = None.
  Proof.
    destruct m; intros Hm; [contradiction| | |].
    - rewrite <- n0_id. apply f_parent_root_none; [apply R1_unique|]. unfold forest. cbn [rootm].
      destruct R1_forest as (_ & ->). right. left. reflexivity.
    - rewrite <- n0_id. apply f_parent_root_none; [apply R1_unique|]. unfold forest. cbn [rootm].
      destruct R1_forest as (_ & ->). right. left. reflexivity.
    - apply f_parent_absent. apply R2_no_tgt.
  Qed.

  (* the closed set *)
  Definition Cl : list Z := t_ids n0.

  Lemma closed_kid n k : subl n (forest R0) -> sub k n -> t_id k = tgt -> incl (t_ids k) Cl.
  Proof.
    intros (t & Ht & Hs) Hk Hid.
    assert (Hkt : sub k t) by (eapply sub_trans; eassumption).
    assert (Hin : In tgt (t_ids t)) by (rewrite <- Hid; apply (sub_incl _ _ Hkt), t_id_in).
    assert (Htt : t = r_tree R0).
    { apply (NoDup_flat_sep (forest R0) t (r_tree R0) tgt Hu0 Ht (or_introl eq_refl) Hin tgt_in_tree). }
    subst t. assert (Hnd : NoDup (t_ids (r_tree R0))) by (eapply NoDup_flat_in; [exact Hu0|left; reflexivity]).
    pose proof (t_find_unique _ _ Hnd Hkt) as Hx. rewrite Hid, Hf0 in Hx. inversion Hx as [Heq]. unfold Cl. rewrite Heq. apply incl_refl.
  Qed.
End Modes.

(* the root after the mutation *)
Definition root_after (R : root) (act tgt : Z) : root :=
  if act =? 2 then R2 R tgt else R1 R tgt.

Lemma filter_map_mk_ev C ty btn l :
  filter (fun e => negb (mem (iev_win e) C)) (map (mk_ev ty btn) l) = map (mk_ev ty btn) (restm C l).
Proof.
  induction l as [|[[w a] b] r IH]; [reflexivity|]. unfold restm. cbn [map filter iev_win mk_ev fst].
  destruct (negb (mem w C)); cbn [map]; rewrite IH; reflexivity.
Qed.
