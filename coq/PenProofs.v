(* PenProofs.v -- the pen as a partial map: getters/setters/clear/copy/clone/equiv (C19). *)
From Coq Require Import ZArith List Bool Lia ZifyBool.
From Tickit Require Import Gen_Colours PenDefs PenSpec.
Import ListNotations.
Local Open Scope Z_scope.
Ltac Zify.zify_post_hook ::= Z.div_mod_to_equations.
Arguments wrap_field : simpl never.

(* ---------------- bit-fields: what the widths in pen.c mean ---------------- *)
(* These four facts are re-checked against the struct declaration on every run (the
   widths come from Gen_Colours.v); they fail if a field becomes too narrow for its
   documented range. *)

Lemma wrap_under_id z : 0 <= z <= 3 -> wrap_field field_under z = z.
Proof. intros H. unfold wrap_field, field_under, wrap_signed, wrap_unsigned; cbn. lia. Qed.

Lemma wrap_altfont_id z : -1 <= z <= 15 -> wrap_field field_altfont z = z.
Proof. intros H. unfold wrap_field, field_altfont, wrap_signed, wrap_unsigned; cbn. lia. Qed.

Lemma wrap_sizepos_id z : 0 <= z <= 3 -> wrap_field field_sizepos z = z.
Proof. intros H. unfold wrap_field, field_sizepos, wrap_signed, wrap_unsigned; cbn. lia. Qed.

Lemma wrap_fg_id z : -1 <= z <= 255 -> wrap_field field_fgindex z = z.
Proof. intros H. unfold wrap_field, field_fgindex, wrap_signed, wrap_unsigned; cbn. lia. Qed.

Lemma wrap_bg_id z : -1 <= z <= 255 -> wrap_field field_bgindex z = z.
Proof. intros H. unfold wrap_field, field_bgindex, wrap_signed, wrap_unsigned; cbn. lia. Qed.

(* a stored value is a fixed point of its field's wrap *)
Lemma wrap_signed_idem b v : 0 < b -> wrap_signed b (wrap_signed b v) = wrap_signed b v.
Proof.
  intros Hb. unfold wrap_signed.
  assert (H2 : 2 ^ b = 2 * 2 ^ (b - 1)).
  { replace b with (Z.succ (b - 1)) at 1 by lia. apply Z.pow_succ_r. lia. }
  assert (Hp : 0 < 2 ^ (b - 1)) by (apply Z.pow_pos_nonneg; lia).
  rewrite H2. set (h := 2 ^ (b - 1)) in *.
  replace ((v + h) mod (2 * h) - h + h) with ((v + h) mod (2 * h)) by lia.
  rewrite Z.mod_mod by lia. reflexivity.
Qed.

Lemma wrap_unsigned_idem b v : 0 <= b -> wrap_unsigned b (wrap_unsigned b v) = wrap_unsigned b v.
Proof.
  intros Hb. unfold wrap_unsigned. apply Z.mod_mod.
  assert (0 < 2 ^ b) by (apply Z.pow_pos_nonneg; lia). lia.
Qed.

Definition field_ok (f : bool * Z) : Prop := 0 < snd f.

Lemma wrap_field_idem f v : field_ok f -> wrap_field f (wrap_field f v) = wrap_field f v.
Proof.
  unfold field_ok, wrap_field. intros H. destruct (fst f).
  - apply wrap_signed_idem; exact H.
  - apply wrap_unsigned_idem; lia.
Qed.

Lemma fields_ok : field_ok field_fgindex /\ field_ok field_bgindex /\ field_ok field_under /\
                  field_ok field_altfont /\ field_ok field_sizepos.
Proof. unfold field_ok; cbn; lia. Qed.

(* the default colour -1 is storable in a signed field *)
Lemma wrap_fg_default : wrap_field field_fgindex (-1) = -1.
Proof. apply wrap_fg_id; lia. Qed.
Lemma wrap_bg_default : wrap_field field_bgindex (-1) = -1.
Proof. apply wrap_bg_id; lia. Qed.

(* well-formed pen: every value field holds a value of its width (true of any memory
   content, a bit-field cannot hold anything else) *)
Definition wf (p : pen) : Prop :=
  wrap_field field_fgindex (idx (fg p)) = idx (fg p) /\
  wrap_field field_bgindex (idx (bg p)) = idx (bg p) /\
  wrap_field field_under (ival (under p)) = ival (under p) /\
  wrap_field field_altfont (ival (altfont p)) = ival (altfont p) /\
  wrap_field field_sizepos (ival (sizepos p)) = ival (sizepos p).

(* ---------------- equality on values ---------------- *)

Lemma rgb_eqb_eq x y : rgb_eqb x y = true <-> x = y.
Proof.
  destruct x as [a b c], y as [d e f]; unfold rgb_eqb; cbn [cr cg cb]. split.
  - intros H. assert (a = d /\ b = e /\ c = f) as (-> & -> & ->) by lia. reflexivity.
  - intros [= -> -> ->]. lia.
Qed.

Lemma rgb_eqb_refl x : rgb_eqb x x = true.
Proof. apply rgb_eqb_eq; reflexivity. Qed.

Lemma orgb_eqb_eq x y : orgb_eqb x y = true <-> x = y.
Proof.
  destruct x as [a|], y as [b|]; cbn [orgb_eqb]; try (split; [discriminate|discriminate]); try tauto.
  rewrite rgb_eqb_eq. split; [intros ->; reflexivity|intros [= ->]; reflexivity].
Qed.

Lemma value_eqb_eq x y : value_eqb x y = true <-> x = y.
Proof.
  destruct x as [a|a|i c], y as [b|b|j d]; cbn [value_eqb]; try (split; discriminate).
  - rewrite Bool.eqb_true_iff. split; [intros ->; reflexivity|intros [= ->]; reflexivity].
  - rewrite Z.eqb_eq. split; [intros ->; reflexivity|intros [= ->]; reflexivity].
  - rewrite andb_true_iff, Z.eqb_eq, orgb_eqb_eq.
    split; [intros [-> ->]; reflexivity|intros [= -> ->]; auto].
Qed.

Lemma value_eqb_refl x : value_eqb x x = true.
Proof. apply value_eqb_eq; reflexivity. Qed.

(* ---------------- getters and the partial map ---------------- *)

Definition real (a : attr) : Prop := a <> AOther.

Lemma lookup_other p : lookup p AOther = None.
Proof. reflexivity. Qed.

(* what the typed getters return is the defaulted partial map *)
Lemma reads_typed p a : reads p a = typed_read p a.
Proof.
  unfold reads, lookup. destruct (has_attr p a) eqn:Eh; [reflexivity|].
  unfold typed_read, default_of, get_bool, get_int, get_colour, has_rgb.
  rewrite Eh; cbn [negb].
  destruct a; cbn [attr_type]; try reflexivity; cbn [has_attr] in Eh; rewrite Eh; reflexivity.
Qed.

(* C19_defaults *)
Theorem defaults p a : has_attr p a = false ->
  lookup p a = None /\ reads p a = default_of a /\
  get_bool p a = false /\ get_int p a = 0 /\ get_colour p a = -1 /\
  has_rgb p a = false /\ get_rgb p a = rgb_zero /\ nondefault_attr p a = false.
Proof.
  intros Eh. unfold reads, lookup, get_bool, get_int, get_colour, get_rgb, nondefault_attr.
  rewrite Eh; cbn [negb].
  assert (Hr : has_rgb p a = false).
  { unfold has_rgb. destruct a; try reflexivity; cbn [has_attr] in Eh; rewrite Eh; reflexivity. }
  rewrite Hr. repeat split; reflexivity.
Qed.

Theorem rgb_needs_index p a : has_rgb p a = true -> has_attr p a = true.
Proof.
  unfold has_rgb, has_attr. destruct a; try discriminate; intros H; apply andb_prop in H; tauto.
Qed.

Theorem rgb_dropped_on_set p a v : has_rgb (set_colour p a v) a = false.
Proof. destruct a; reflexivity. Qed.

(* ---------------- frames: an operation on attribute a leaves the others alone --------- *)

Ltac frame_tac :=
  match goal with
  | |- forall a a' : attr, _ => intros a a'; destruct a, a'; intros Hne; try congruence; reflexivity
  end.

Lemma set_bool_frame p b : forall a a', a <> a' -> lookup (set_bool p a b) a' = lookup p a'.
Proof. frame_tac. Qed.
Lemma set_int_frame p z : forall a a', a <> a' -> lookup (set_int p a z) a' = lookup p a'.
Proof. frame_tac. Qed.
Lemma set_colour_frame p z : forall a a', a <> a' -> lookup (set_colour p a z) a' = lookup p a'.
Proof. frame_tac. Qed.
Lemma clear_attr_frame p : forall a a', a <> a' -> lookup (clear_attr p a) a' = lookup p a'.
Proof. frame_tac. Qed.

Lemma set_rgb_frame p c : forall a a', a <> a' -> lookup (set_rgb p a c) a' = lookup p a'.
Proof.
  intros a a' Hne. unfold set_rgb. destruct (has_attr p a); cbn [negb]; [|reflexivity].
  destruct a, a'; try congruence; reflexivity.
Qed.

(* ---------------- set then get ---------------- *)

Definition set_value (p : pen) (a : attr) (v : value) : pen :=
  match v with
  | VBool b => set_bool p a b
  | VInt z => set_int p a z
  | VCol i None => set_colour p a i
  | VCol i (Some c) => set_rgb (set_colour p a i) a c
  end.

(* C19_set_then_get: after setting an attribute to a representable value it is present
   and reads back that value *)
Theorem set_then_get p a v : representable a v = true ->
  lookup (set_value p a v) a = Some v /\ has_attr (set_value p a v) a = true /\
  reads (set_value p a v) a = v.
Proof.
  intros Hr.
  assert (H : lookup (set_value p a v) a = Some v).
  { destruct a, v as [b|z|i [c|]]; cbn [representable] in Hr; try discriminate; cbn [set_value];
      unfold lookup, typed_read, set_bool, set_int, set_colour, set_rgb, get_bool, get_int, get_colour, get_rgb, has_rgb;
      cbn; try reflexivity;
      try (rewrite wrap_under_id by lia; reflexivity);
      try (rewrite wrap_altfont_id by lia; reflexivity);
      try (rewrite wrap_sizepos_id by lia; reflexivity);
      try (rewrite wrap_fg_id by lia; reflexivity);
      try (rewrite wrap_bg_id by lia; reflexivity). }
  split; [exact H|]. split.
  - unfold lookup in H. destruct (has_attr (set_value p a v) a); [reflexivity|discriminate].
  - unfold reads. rewrite H. reflexivity.
Qed.

Theorem set_value_frame p a v a' : a <> a' -> lookup (set_value p a v) a' = lookup p a'.
Proof.
  intros Hne. destruct v as [b|z|i [c|]]; cbn [set_value].
  - apply set_bool_frame; exact Hne.
  - apply set_int_frame; exact Hne.
  - rewrite set_rgb_frame by exact Hne. apply set_colour_frame; exact Hne.
  - apply set_colour_frame; exact Hne.
Qed.

(* the back-compat boolean view of the underline attribute *)
Theorem set_bool_under p b :
  lookup (set_bool p UNDER b) UNDER = Some (VInt (if b then 1 else 0)) /\
  get_bool (set_bool p UNDER b) UNDER = b.
Proof.
  unfold lookup, typed_read, set_bool, get_int, get_bool; cbn.
  destruct b; rewrite wrap_under_id by lia; split; reflexivity.
Qed.

(* an RGB8 secondary can be added only to a present index colour *)
Theorem set_rgb_absent p a c : has_attr p a = false -> set_rgb p a c = p.
Proof. intros H. unfold set_rgb. rewrite H. reflexivity. Qed.

Theorem set_rgb_present p a c i o : attr_type a = TColour -> lookup p a = Some (VCol i o) ->
  lookup (set_rgb p a c) a = Some (VCol i (Some c)).
Proof.
  intros Ht Hl. unfold lookup in *. destruct (has_attr p a) eqn:Eh; [|discriminate].
  injection Hl as Hl. unfold set_rgb. rewrite Eh; cbn [negb].
  destruct a; try discriminate; unfold typed_read, get_colour, has_rgb, get_rgb in *;
    cbn in *; rewrite Eh in *; cbn in *; injection Hl as <- _; reflexivity.
Qed.

(* ---------------- clear ---------------- *)

Theorem clear_attr_at p a : lookup (clear_attr p a) a = None.
Proof. destruct a; reflexivity. Qed.

Theorem clear_all p a : lookup (clear p) a = None.
Proof. destruct a; reflexivity. Qed.

Theorem new_empty g a : lookup (pen_new g) a = None.
Proof. apply clear_all. Qed.

(* ---------------- equivalence ---------------- *)

Lemma equiv_attr_reads x y a : real a ->
  equiv_attr x y a = value_eqb (reads x a) (reads y a).
Proof.
  intros Hr. rewrite !reads_typed. unfold equiv_attr, typed_read.
  destruct (attr_type a) eqn:Et.
  - reflexivity.
  - reflexivity.
  - cbn [value_eqb]. destruct (get_colour x a =? get_colour y a); cbn [negb andb]; [|reflexivity].
    destruct (has_rgb x a), (has_rgb y a); cbn [negb andb orb orgb_eqb]; reflexivity.
  - destruct a; try discriminate. contradiction Hr; reflexivity.
Qed.

Lemma all_attrs_real a : In a all_attrs <-> real a.
Proof.
  unfold real, all_attrs. split.
  - intros H Ha; subst a. cbn in H. intuition discriminate.
  - intros H. destruct a; cbn; try tauto; contradiction H; reflexivity.
Qed.

(* C19_equiv_iff *)
Theorem equiv_iff x y : equiv x y = true <-> forall a, real a -> reads x a = reads y a.
Proof.
  unfold equiv. rewrite forallb_forall. split.
  - intros H a Hr. apply value_eqb_eq. rewrite <- equiv_attr_reads by exact Hr.
    apply H. apply all_attrs_real; exact Hr.
  - intros H a Hin. apply all_attrs_real in Hin. rewrite equiv_attr_reads by exact Hin.
    apply value_eqb_eq. apply H; exact Hin.
Qed.

Theorem equiv_refl x : equiv x x = true.
Proof. apply equiv_iff. reflexivity. Qed.

Theorem equiv_sym x y : equiv x y = equiv y x.
Proof.
  destruct (equiv x y) eqn:E1, (equiv y x) eqn:E2; try reflexivity.
  - rewrite equiv_iff in E1. assert (equiv y x = true) by (apply equiv_iff; intros; symmetry; auto). congruence.
  - rewrite equiv_iff in E2. assert (equiv x y = true) by (apply equiv_iff; intros; symmetry; auto). congruence.
Qed.

Theorem equiv_trans x y z : equiv x y = true -> equiv y z = true -> equiv x z = true.
Proof.
  rewrite !equiv_iff. intros H1 H2 a Hr. rewrite H1 by exact Hr. apply H2; exact Hr.
Qed.

(* ---------------- copy ---------------- *)

(* what tickit_pen_copy must do to one attribute, as a function on partial-map entries *)
Definition copy_entry (d s : option value) (ow : bool) : option value :=
  match s with
  | None => d
  | Some v => match d with
              | None => Some v
              | Some w => if ow then Some v else Some w
              end
  end.

Lemma copy_attr_frame dst src : forall a a', a <> a' -> lookup (copy_attr dst src a) a' = lookup dst a'.
Proof.
  intros a a' Hne. unfold copy_attr. destruct (attr_type a).
  - apply set_bool_frame; exact Hne.
  - apply set_int_frame; exact Hne.
  - destruct (has_rgb src a).
    + rewrite set_rgb_frame by exact Hne. apply set_colour_frame; exact Hne.
    + apply set_colour_frame; exact Hne.
  - reflexivity.
Qed.

(* copying one attribute that the source has makes the destination read what the source reads *)
Lemma copy_attr_at dst src a : wf src -> has_attr src a = true ->
  lookup (copy_attr dst src a) a = lookup src a.
Proof.
  intros (Hfg & Hbg & Hu & Ha & Hs) Hh.
  destruct a; cbn [has_attr] in Hh; try discriminate;
    unfold copy_attr, lookup, typed_read, set_bool, set_int, set_colour, set_rgb, get_bool, get_int,
           get_colour, get_rgb, has_rgb; cbn; rewrite ?Hh; cbn;
    try reflexivity;
    try (rewrite Hu; reflexivity); try (rewrite Ha; reflexivity); try (rewrite Hs; reflexivity).
  - destruct (v_rgb (fg src)); cbn; rewrite ?Hh; cbn; rewrite Hfg; reflexivity.
  - destruct (v_rgb (bg src)); cbn; rewrite ?Hh; cbn; rewrite Hbg; reflexivity.
Qed.

Lemma copy_step_frame src ow d a a' : a <> a' -> lookup (copy_step src ow d a) a' = lookup d a'.
Proof.
  intros Hne. unfold copy_step. destruct (negb (has_attr src a)); [reflexivity|].
  destruct (has_attr d a && (negb ow || equiv_attr src d a)); [reflexivity|].
  apply copy_attr_frame; exact Hne.
Qed.

Lemma lookup_has p a : has_attr p a = true -> lookup p a = Some (reads p a).
Proof. intros H. unfold reads, lookup. rewrite H. reflexivity. Qed.

Lemma copy_step_at src ow d a : wf src -> real a ->
  lookup (copy_step src ow d a) a = copy_entry (lookup d a) (lookup src a) ow.
Proof.
  intros Hwf Hr. unfold copy_step.
  destruct (has_attr src a) eqn:Es; cbn [negb].
  - rewrite (lookup_has src a Es). cbn [copy_entry].
    destruct (has_attr d a) eqn:Ed; cbn [andb].
    + rewrite (lookup_has d a Ed). destruct ow; cbn [negb orb].
      * rewrite equiv_attr_reads by exact Hr.
        destruct (value_eqb (reads src a) (reads d a)) eqn:Ev.
        -- apply value_eqb_eq in Ev. rewrite (lookup_has d a Ed), Ev. reflexivity.
        -- rewrite copy_attr_at by assumption. apply lookup_has; exact Es.
      * apply lookup_has; exact Ed.
    + assert (Hl : lookup d a = None) by (unfold lookup; rewrite Ed; reflexivity).
      rewrite Hl. rewrite copy_attr_at by assumption. apply lookup_has; exact Es.
  - assert (Hl : lookup src a = None) by (unfold lookup; rewrite Es; reflexivity).
    rewrite Hl. reflexivity.
Qed.

Lemma attr_eq_dec (a b : attr) : {a = b} + {a <> b}.
Proof. decide equality. Qed.

Lemma copy_fold src ow : wf src -> forall l d a, NoDup l -> (forall x, In x l -> real x) ->
  lookup (fold_left (copy_step src ow) l d) a =
    if in_dec attr_eq_dec a l then copy_entry (lookup d a) (lookup src a) ow else lookup d a.
Proof.
  intros Hwf. induction l as [|x l IH]; intros d a Hnd Hreal.
  - reflexivity.
  - cbn [fold_left]. inversion Hnd as [|? ? Hnin Hnd']; subst.
    rewrite IH by (auto; intros; apply Hreal; right; assumption).
    destruct (in_dec attr_eq_dec a (x :: l)) as [Hin|Hnin'].
    + destruct (in_dec attr_eq_dec a l) as [Hin'|Hnin''].
      * assert (x <> a) by (intros ->; contradiction).
        rewrite copy_step_frame by assumption. reflexivity.
      * destruct Hin as [->|Hin]; [|contradiction].
        apply copy_step_at; [exact Hwf|apply Hreal; left; reflexivity].
    + destruct (in_dec attr_eq_dec a l) as [Hin'|_].
      * exfalso; apply Hnin'; right; exact Hin'.
      * apply copy_step_frame. intros ->. apply Hnin'; left; reflexivity.
Qed.

Lemma all_attrs_nodup : NoDup all_attrs.
Proof. unfold all_attrs. repeat constructor; cbn; intuition discriminate. Qed.

(* C19_copy: attribute-wise characterisation, RGB8 secondary included (it is part of the
   colour entry): without overwrite only absent attributes are filled; with overwrite every
   attribute present in the source becomes equal; everything else is untouched *)
Theorem copy_spec dst src ow a : wf src ->
  lookup (copy dst src ow) a = copy_entry (lookup dst a) (lookup src a) ow.
Proof.
  intros Hwf. unfold copy.
  rewrite (copy_fold src ow Hwf all_attrs dst a all_attrs_nodup) by (intros x Hx; apply all_attrs_real; exact Hx).
  destruct (in_dec attr_eq_dec a all_attrs) as [_|Hn]; [reflexivity|].
  assert (a = AOther) as ->.
  { destruct a; try reflexivity; exfalso; apply Hn; cbn; tauto. }
  reflexivity.
Qed.

Theorem copy_self p ow : wf p -> forall a, lookup (copy p p ow) a = lookup p a.
Proof.
  intros Hwf a. rewrite copy_spec by exact Hwf.
  destruct (lookup p a); cbn [copy_entry]; [destruct ow|]; reflexivity.
Qed.

(* C19_clone_equiv *)
Theorem clone_lookup orig g a : wf orig -> lookup (clone orig g) a = lookup orig a.
Proof.
  intros Hwf. unfold clone. rewrite copy_spec by exact Hwf. rewrite new_empty.
  destruct (lookup orig a); reflexivity.
Qed.

Theorem clone_equiv orig g : wf orig -> equiv (clone orig g) orig = true.
Proof.
  intros Hwf. apply equiv_iff. intros a _. unfold reads. rewrite clone_lookup by exact Hwf. reflexivity.
Qed.

(* ---------------- well-formedness is kept by every operation ---------------- *)

Ltac wf_tac := unfold wf; cbn; intuition (try assumption; try (apply wrap_field_idem; apply fields_ok)).

Lemma wf_set_bool p a b : wf p -> wf (set_bool p a b).
Proof. intros H. destruct a; try exact H; destruct H as (H1 & H2 & H3 & H4 & H5); wf_tac. Qed.
Lemma wf_set_int p a z : wf p -> wf (set_int p a z).
Proof. intros H. destruct a; try exact H; destruct H as (H1 & H2 & H3 & H4 & H5); wf_tac. Qed.
Lemma wf_set_colour p a z : wf p -> wf (set_colour p a z).
Proof. intros H. destruct a; try exact H; destruct H as (H1 & H2 & H3 & H4 & H5); wf_tac. Qed.
Lemma wf_set_rgb p a c : wf p -> wf (set_rgb p a c).
Proof.
  intros H. unfold set_rgb. destruct (negb (has_attr p a)); [exact H|].
  destruct a; try exact H; destruct H as (H1 & H2 & H3 & H4 & H5); wf_tac.
Qed.
Lemma wf_clear_attr p a : wf p -> wf (clear_attr p a).
Proof. intros H. destruct a; try exact H; destruct H as (H1 & H2 & H3 & H4 & H5); wf_tac. Qed.

Lemma wf_fold {A} (f : pen -> A -> pen) : (forall p x, wf p -> wf (f p x)) ->
  forall l p, wf p -> wf (fold_left f l p).
Proof. intros Hf. induction l as [|x l IH]; intros p H; [exact H|]. cbn. apply IH, Hf, H. Qed.

Lemma wf_clear p : wf p -> wf (clear p).
Proof. apply wf_fold. intros; apply wf_clear_attr; assumption. Qed.

Lemma wf_copy_attr d s a : wf d -> wf (copy_attr d s a).
Proof.
  intros H. unfold copy_attr. destruct (attr_type a).
  - apply wf_set_bool; exact H.
  - apply wf_set_int; exact H.
  - destruct (has_rgb s a); [apply wf_set_rgb|]; apply wf_set_colour; exact H.
  - exact H.
Qed.

Lemma wf_copy_attr_self p a : wf p -> wf (copy_attr_self p a).
Proof.
  intros H. unfold copy_attr_self. destruct (attr_type a).
  - apply wf_set_bool; exact H.
  - apply wf_set_int; exact H.
  - destruct (has_rgb _ a); [apply wf_set_rgb|]; apply wf_set_colour; exact H.
  - exact H.
Qed.

Lemma wf_copy d s ow : wf d -> wf (copy d s ow).
Proof.
  apply wf_fold. intros p x H. unfold copy_step.
  destruct (negb (has_attr s x)); [exact H|].
  destruct (has_attr p x && _); [exact H|]. apply wf_copy_attr; exact H.
Qed.

Lemma wf_set_desc p a s : wf p -> wf (snd (set_desc p a s)).
Proof.
  intros H. unfold set_desc, set_desc_gen. destruct (parse_desc_gen true s) as [[v [c|]]|]; cbn [snd].
  - apply wf_set_rgb, wf_set_colour; exact H.
  - apply wf_set_colour; exact H.
  - exact H.
Qed.

(* ---------------- combined statements used by Properties_C19.v ---------------- *)

Theorem clear_attr_spec p a : lookup (clear_attr p a) a = None /\
  forall a', a <> a' -> lookup (clear_attr p a) a' = lookup p a'.
Proof. split; [exact (clear_attr_at p a)|exact (clear_attr_frame p a)]. Qed.

Theorem clear_spec p g a : lookup (clear p) a = None /\ lookup (pen_new g) a = None.
Proof. split; [exact (clear_all p a)|exact (new_empty g a)]. Qed.

Theorem clone_spec orig g : wf orig ->
  equiv (clone orig g) orig = true /\ forall a, lookup (clone orig g) a = lookup orig a.
Proof. intros H. split; [exact (clone_equiv orig g H)|intros a; exact (clone_lookup orig g a H)]. Qed.

Theorem equiv_equivalence : (forall x, equiv x x = true) /\ (forall x y, equiv x y = equiv y x) /\
  (forall x y z, equiv x y = true -> equiv y z = true -> equiv x z = true).
Proof. split; [exact equiv_refl|split; [exact equiv_sym|exact equiv_trans]]. Qed.
