From Coq Require Extraction.
From Coq Require Import ExtrOcamlBasic.
From Tickit Require Import InputDefs InputSpec.
Extraction "mC20.ml" push_chunks push_bytes push_bytes_pinned ist0 tst0 tpush tpoll twait wait_left wait_tv_msec spec_keys input_checkb.
