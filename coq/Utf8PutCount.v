(* Utf8PutCount.v -- encoding a code point with tickit_utf8_put and counting the result
   round-trips, for EVERY code point below 0x200000 (symbolic proof by encoding length; the
   shift / mask operations are turned into div / mod by Utf8Bits and discharged by lia). *)
From Coq Require Import ZArith List Bool Lia.
From Tickit Require Import Gen_Width Utf8Defs Utf8Spec Utf8Tables Utf8Bits Utf8Walk Utf8Units Utf8Proofs.
Import ListNotations.
Local Open Scope Z_scope.

Ltac Zify.zify_post_hook ::= Z.div_mod_to_equations.

(* ------------------------------------------------------------------ decoding one sequence *)

Ltac cmp_false := symmetry; apply Z.ltb_ge; lia.
Ltac cmp_true := symmetry; apply Z.ltb_lt; lia.

Lemma decode_1 : forall b0, 0 <= b0 < 0x80 -> decode [b0] = mk_item b0 1 ([], false).
Proof.
  intros b0 H. cbn [decode].
  replace (b0 <? 0x80) with true by cmp_true. reflexivity.
Qed.

Lemma decode_2 : forall b0 b1, 0xc0 <= b0 < 0xe0 ->
  decode [b0; b1] = mk_item ((b0 mod 32) * 64 + cont b1) 2 ([], false).
Proof.
  intros b0 b1 H. cbn [decode].
  replace (b0 <? 0x80) with false by cmp_false.
  replace (b0 <? 0xc0) with false by cmp_false.
  replace (b0 <? 0xe0) with true by cmp_true. reflexivity.
Qed.

Lemma decode_3 : forall b0 b1 b2, 0xe0 <= b0 < 0xf0 ->
  decode [b0; b1; b2] = mk_item (((b0 mod 16) * 64 + cont b1) * 64 + cont b2) 3 ([], false).
Proof.
  intros b0 b1 b2 H. cbn [decode].
  replace (b0 <? 0x80) with false by cmp_false.
  replace (b0 <? 0xc0) with false by cmp_false.
  replace (b0 <? 0xe0) with false by cmp_false.
  replace (b0 <? 0xf0) with true by cmp_true. reflexivity.
Qed.

Lemma decode_4 : forall b0 b1 b2 b3, 0xf0 <= b0 < 0xf8 ->
  decode [b0; b1; b2; b3] =
  mk_item ((((b0 mod 8) * 64 + cont b1) * 64 + cont b2) * 64 + cont b3) 4 ([], false).
Proof.
  intros b0 b1 b2 b3 H. cbn [decode].
  replace (b0 <? 0x80) with false by cmp_false.
  replace (b0 <? 0xc0) with false by cmp_false.
  replace (b0 <? 0xe0) with false by cmp_false.
  replace (b0 <? 0xf0) with false by cmp_false.
  replace (b0 <? 0xf8) with true by cmp_true. reflexivity.
Qed.

(* ------------------------------------------------------------------ the bytes put stores *)

Lemma seqlen_1 : forall cp, cp < 0x80 -> u8_seqlen cp = 1.
Proof. intros cp H. unfold u8_seqlen. replace (cp <? 0x80) with true by cmp_true. reflexivity. Qed.
Lemma seqlen_2 : forall cp, 0x80 <= cp < 0x800 -> u8_seqlen cp = 2.
Proof.
  intros cp H. unfold u8_seqlen. replace (cp <? 0x80) with false by cmp_false.
  replace (cp <? 0x800) with true by cmp_true. reflexivity.
Qed.
Lemma seqlen_3 : forall cp, 0x800 <= cp < 0x10000 -> u8_seqlen cp = 3.
Proof.
  intros cp H. unfold u8_seqlen. replace (cp <? 0x80) with false by cmp_false.
  replace (cp <? 0x800) with false by cmp_false.
  replace (cp <? 0x10000) with true by cmp_true. reflexivity.
Qed.
Lemma seqlen_4 : forall cp, 0x10000 <= cp < 0x200000 -> u8_seqlen cp = 4.
Proof.
  intros cp H. unfold u8_seqlen. replace (cp <? 0x80) with false by cmp_false.
  replace (cp <? 0x800) with false by cmp_false.
  replace (cp <? 0x10000) with false by cmp_false.
  replace (cp <? 0x200000) with true by cmp_true. reflexivity.
Qed.

Lemma put_bytes_1 : forall cp, 0 <= cp < 0x80 -> put_bytes cp = [cp].
Proof.
  intros cp H. unfold put_bytes. rewrite (seqlen_1 cp) by lia.
  cbn [Z.sub Z.to_nat put_tail]. change (Z.to_nat (1 - 1)) with 0%nat. cbn [put_tail].
  unfold put_lead. change (1 =? 1) with true. cbv iota.
  rewrite land_7f. f_equal. apply Z.mod_small. lia.
Qed.

Lemma put_bytes_2 : forall cp, 0x80 <= cp < 0x800 ->
  put_bytes cp = [192 + cp / 64; 128 + cp mod 64].
Proof.
  intros cp H. unfold put_bytes. rewrite (seqlen_2 cp) by lia.
  change (Z.to_nat (2 - 1)) with 1%nat. cbn [put_tail].
  unfold put_lead. change (2 =? 1) with false. change (2 =? 2) with true. cbv iota.
  rewrite put_cont_byte, shiftr_6, put_lead2.
  f_equal. f_equal. apply Z.mod_small. lia.
Qed.

Lemma put_bytes_3 : forall cp, 0x800 <= cp < 0x10000 ->
  put_bytes cp = [224 + cp / 4096; 128 + (cp / 64) mod 64; 128 + cp mod 64].
Proof.
  intros cp H. unfold put_bytes. rewrite (seqlen_3 cp) by lia.
  change (Z.to_nat (3 - 1)) with 2%nat. cbn [put_tail].
  unfold put_lead. change (3 =? 1) with false. change (3 =? 2) with false.
  change (3 =? 3) with true. cbv iota.
  rewrite !put_cont_byte, !shiftr_6, put_lead3.
  f_equal. lia.
Qed.

Lemma put_bytes_4 : forall cp, 0x10000 <= cp < 0x200000 ->
  put_bytes cp = [240 + cp / 262144; 128 + (cp / 4096) mod 64; 128 + (cp / 64) mod 64; 128 + cp mod 64].
Proof.
  intros cp H. unfold put_bytes. rewrite (seqlen_4 cp) by lia.
  change (Z.to_nat (4 - 1)) with 3%nat. cbn [put_tail].
  unfold put_lead. change (4 =? 1) with false. change (4 =? 2) with false.
  change (4 =? 3) with false. change (4 =? 4) with true. cbv iota.
  rewrite !put_cont_byte, !shiftr_6, put_lead4.
  f_equal; [lia|]. f_equal. lia.
Qed.

(* ------------------------------------------------------------------ decode (put cp) *)

Lemma put_decode : forall cp, 0 < cp < 0x200000 ->
  nonul (put_bytes cp) /\
  Z.of_nat (length (put_bytes cp)) = u8_seqlen cp /\
  decode (put_bytes cp) = mk_item cp (u8_seqlen cp) ([], false).
Proof.
  intros cp H.
  destruct (Z_lt_le_dec cp 0x80) as [H1|H1].
  { rewrite put_bytes_1, seqlen_1 by lia. split; [|split].
    - constructor; [lia|constructor].
    - reflexivity.
    - apply decode_1. lia. }
  destruct (Z_lt_le_dec cp 0x800) as [H2|H2].
  { rewrite put_bytes_2, seqlen_2 by lia. split; [|split].
    - repeat constructor; lia.
    - reflexivity.
    - rewrite decode_2 by lia. f_equal. unfold cont. lia. }
  destruct (Z_lt_le_dec cp 0x10000) as [H3|H3].
  { rewrite put_bytes_3, seqlen_3 by lia. split; [|split].
    - repeat constructor; lia.
    - reflexivity.
    - rewrite decode_3 by lia. f_equal. unfold cont. lia. }
  rewrite put_bytes_4, seqlen_4 by lia. split; [|split].
  - repeat constructor; lia.
  - reflexivity.
  - rewrite decode_4 by lia. f_equal. unfold cont. lia.
Qed.

(* ------------------------------------------------------------------ the round trip *)

Lemma model_abs_single : forall s cp nb,
  decode s = mk_item cp nb ([], false) ->
  cres_meets (model_abs s pos_zero None)
    (if bad_cp cp then SErr
     else let w := spec_width cp in SOk nb (mkPos nb 1 (if 0 <? w then 1 else 0) w)).
Proof.
  intros s cp nb Hd. unfold model_abs. rewrite Hd. unfold mk_item.
  destruct (bad_cp cp).
  - cbn. reflexivity.
  - cbn [fst snd walk within wfin cres_meets]. cbv zeta.
    unfold pos_add_item, spacing, pos_zero. cbn [p_bytes p_cps p_graphs p_cols it_nb it_w].
    split; [lia|]. f_equal.
Qed.

Theorem put_count : forall cp junk, 0 <= cp < 0x200000 ->
  Z.of_nat (length (put_bytes cp)) = u8_seqlen cp /\
  u8_put false (u8_seqlen cp) cp = (u8_seqlen cp, Some (put_bytes cp)) /\
  cres_meets (u8_count (put_bytes cp ++ 0 :: junk) None) (roundtrip_expect cp) /\
  cres_meets (u8_ncount (put_bytes cp ++ junk) (u8_seqlen cp) None) (roundtrip_expect cp).
Proof.
  intros cp junk H.
  assert (Hput : u8_put false (u8_seqlen cp) cp = (u8_seqlen cp, Some (put_bytes cp))).
  { unfold u8_put. rewrite Z.ltb_irrefl. reflexivity. }
  destruct (Z.eq_dec cp 0) as [->|Hnz].
  - (* U+0000 encodes as the terminator itself *)
    split; [reflexivity|]. split; [exact Hput|].
    change (put_bytes 0) with [0]. unfold roundtrip_expect. change (0 =? 0) with true. cbv iota.
    unfold u8_count, u8_ncount. split.
    + pose proof (ncountmore_walk [] [] (0 :: 0 :: junk) None pos_zero None) as E.
      cbn [app] in E |- *. rewrite E; [| reflexivity | constructor | cbn; eauto].
      cbn. auto.
    + change (u8_seqlen 0) with 1.
      pose proof (ncountmore_walk [] [] (0 :: junk) (Some 1) pos_zero None) as E.
      cbn [app] in E |- *. rewrite E; [| reflexivity | constructor | cbn; right; split; [lia|eauto]].
      cbn. auto.
  - destruct (put_decode cp) as [Hnn [Hlen Hd]]; [lia|].
    split; [exact Hlen|]. split; [exact Hput|].
    unfold roundtrip_expect. replace (cp =? 0) with false by (symmetry; apply Z.eqb_neq; exact Hnz).
    unfold u8_count, u8_ncount. split.
    + pose proof (ncountmore_walk [] (put_bytes cp) (0 :: junk) None pos_zero None) as E.
      cbn [app] in E. rewrite E; [| reflexivity | exact Hnn | cbn; eauto].
      apply model_abs_single. exact Hd.
    + pose proof (ncountmore_walk [] (put_bytes cp) junk (Some (u8_seqlen cp)) pos_zero None) as E.
      cbn [app] in E. rewrite E; [| reflexivity | exact Hnn | cbn; left; lia].
      apply model_abs_single. exact Hd.
Qed.
