(* LifeClose.v -- tickit_window_close: the purge of queued requests about the subtree, then
   the removal from the parent. *)
From Coq Require Import ZArith List Bool PArith FMapPositive Lia.
From Tickit Require Import LifeDefs LifeLemmas LifeChains LifeInv LifePure LifeWalks LifeRelink LifeRemove.
Import ListNotations.
Local Open Scope Z_scope.

(* ---- how heaps evolve ------------------------------------------------------------------------ *)
(* nothing is added: cells disappear, parent pointers are cleared, requests disappear *)
Record shrinks (h h' : heap) : Prop := mk_shrinks {
  sh_wins : forall a c', findw h' a = Some c' ->
    exists c, findw h a = Some c /\ (w_parent c' = w_parent c \/ w_parent c' = None);
  sh_reqs : forall q cq, findq h' q = Some cq -> exists cq0, findq h q = Some cq0 /\ q_win cq = q_win cq0;
  sh_nextw : nextw h' = nextw h
}.

Lemma shrinks_refl : forall h, shrinks h h.
Proof. intro h. constructor; eauto. Qed.

Lemma shrinks_trans : forall h1 h2 h3, shrinks h1 h2 -> shrinks h2 h3 -> shrinks h1 h3.
Proof.
  intros h1 h2 h3 [W1 Q1 N1] [W2 Q2 N2]. constructor; [| |congruence].
  - intros a c3 H3. destruct (W2 a c3 H3) as [c2 [H2 Hp2]]. destruct (W1 a c2 H2) as [c1 [H1 Hp1]].
    exists c1. split; auto. destruct Hp2 as [E|E]; [rewrite E; auto | auto].
  - intros q c3 H3. destruct (Q2 q c3 H3) as [c2 [H2 E2]]. destruct (Q1 q c2 H2) as [c1 [H1 E1]].
    exists c1. split; auto. congruence.
Qed.

Lemma shrinks_anc : forall h h' x b, shrinks h h' -> anc h' x b -> anc h x b.
Proof.
  intros h h' x b S Ha. induction Ha as [a c Hf | a c p b Hf Hp Ha IH].
  - destruct (sh_wins h h' S a c Hf) as [c0 [H0 _]]. eapply anc_refl; eauto.
  - destruct (sh_wins h h' S a c Hf) as [c0 [H0 [E|E]]]; [|congruence].
    eapply anc_step; eauto. congruence.
Qed.

(* nothing is freed, parents are kept or cleared, counts and the queue are untouched *)
Record keeps (h h' : heap) : Prop := mk_keeps {
  kp_wins : forall a c, findw h a = Some c ->
    exists c', findw h' a = Some c' /\ (w_parent c' = w_parent c \/ w_parent c' = None) /\
               w_ref c' = w_ref c /\ w_isroot c' = w_isroot c;
  kp_dom : forall a, findw h a = None -> findw h' a = None;
  kp_reqs : forall q, findq h' q = findq h q;
  kp_queue : r_queue (rx h') = r_queue (rx h);
  kp_nextw : nextw h' = nextw h
}.

Lemma keeps_refl : forall h, keeps h h.
Proof. intro h. constructor; eauto 10. Qed.

Lemma keeps_trans : forall h1 h2 h3, keeps h1 h2 -> keeps h2 h3 -> keeps h1 h3.
Proof.
  intros h1 h2 h3 [W1 D1 Q1 U1 N1] [W2 D2 Q2 U2 N2]. constructor; auto; try congruence.
  - intros a c1 H1. destruct (W1 a c1 H1) as [c2 [H2 [Hp2 [Hr2 Hi2]]]].
    destruct (W2 a c2 H2) as [c3 [H3 [Hp3 [Hr3 Hi3]]]]. exists c3. split; auto. split; [|split; congruence].
    destruct Hp3 as [E|E]; [rewrite E; auto | auto].
Qed.

Lemma keeps_shrinks : forall h h', keeps h h' -> shrinks h h'.
Proof.
  intros h h' [W Dm Q U N]. constructor; [| |exact N].
  - intros a c' Hf'. destruct (findw h a) as [c|] eqn:Hf.
    + destruct (W a c Hf) as [c1 [H1 [Hp _]]]. rewrite Hf' in H1. inversion H1; subst c1. eauto.
    + rewrite (Dm a Hf) in Hf'. discriminate.
  - intros q cq Hq. rewrite Q in Hq. eauto.
Qed.

Lemma rx_only_keeps : forall h h', rx_only h h' -> keeps h h'.
Proof.
  intros h h' R. destruct R as [Hw [Hq [H1 [_ [Hnw _]]]]].
  constructor; auto.
  - intros a c Hf. exists c. unfold findw in *. rewrite Hw. auto.
  - intros a Hf. unfold findw in *. rewrite Hw. exact Hf.
  - intro q. unfold findq. rewrite Hq. reflexivity.
Qed.

Lemma cells_by_keeps : forall h h' F, cells_by h h' F ->
  (forall a c, findw h a = Some c ->
     (w_parent (F a c) = w_parent c \/ w_parent (F a c) = None) /\ w_ref (F a c) = w_ref c /\ w_isroot (F a c) = w_isroot c) ->
  keeps h h'.
Proof.
  intros h h' F CB HF. constructor.
  - intros a c Hf. exists (F a c). split; [eapply cells_by_some; eauto|]. destruct (HF a c Hf) as [H1 [H2 H3]]. auto.
  - intros a Hf. apply (cells_by_none h h' F a CB). exact Hf.
  - apply (cb_reqs h h' F CB).
  - apply (cb_queue h h' F CB).
  - apply (cb_nextw h h' F CB).
Qed.

Lemma keeps_detached : forall h h' D, keeps h h' -> detached h D -> detached h' D.
Proof.
  intros h h' D K Hd a Ha. destruct (Hd a Ha) as [c [Hf Hp]].
  destruct (kp_wins h h' K a c Hf) as [c' [Hf' [[E|E] _]]]; exists c'; split; auto; congruence.
Qed.

(* ---- the ancestors of a window form a line ------------------------------------------------------ *)
Lemma anc_linear : forall h x a, anc h x a -> forall b, anc h x b -> anc h a b \/ anc h b a.
Proof.
  intros h x a Ha; induction Ha as [x c Hf | x c p a Hf Hp Ha IH]; intros b Hb.
  - left. exact Hb.
  - inversion Hb as [x' c' Hf' Ex Eb | x' c' p' b' Hf' Hp' Hb' Ex Eb].
    + subst x' b. right. exact (anc_step h x c p a Hf Hp Ha).
    + subst x' b'. rewrite Hf in Hf'. inversion Hf'; subst c'. rewrite Hp in Hp'. inversion Hp'; subst p'. apply IH. exact Hb'.
Qed.

Lemma anc_top : forall h a b c, anc h a b -> findw h a = Some c -> w_parent c = None -> b = a.
Proof.
  intros h a b c Ha Hf Hp. inversion Ha as [a' c' Hf' | a' c' p b' Hf' Hp' Hb']; subst; auto.
  rewrite Hf in Hf'. inversion Hf'; subst c'. congruence.
Qed.

(* no queued request is about [w] or a window below it *)
Definition unqueued (h : heap) (w : positive) : Prop :=
  forall q cq x, findq h q = Some cq -> q_win cq = Some x -> ~ anc h x w.
(* the drag source is not the window or anything below it *)
Definition undragged (D : list positive) (h : heap) (w : positive) : Prop :=
  forall d, r_drag (rx h) = Some (Some d) -> ~ In root D -> findw h root <> None -> ~ anc h d w.

(* a window whose top is not the root has no requests: requests are about the root's tree *)
Lemma unqueued_off_tree : forall D h w t ct, hinv D h -> anc h w t -> findw h t = Some ct -> w_parent ct = None ->
  t <> root -> unqueued h w.
Proof.
  intros D h w t ct HI Hwt Hft Hpt Hne q cq x Hfq Hx Hxw.
  destruct (hi_queue D h HI) as [ql [_ [_ Hq3]]].
  destruct (Hq3 q cq Hfq) as [x' [p [cx [H1 [H2 [H3 [H4 H5]]]]]]].
  rewrite Hx in H1. inversion H1; subst x'.
  assert (Hxt : anc h x t) by exact (anc_trans h x w Hxw t Hwt).
  destruct (anc_linear h x t Hxt root H5) as [H|H].
  - apply Hne. symmetry. exact (anc_top h t root ct H Hft Hpt).
  - pose proof (anc_live_l h root t H) as Hl. destruct (findw h root) as [cr|] eqn:Hfr; [|congruence].
    apply Hne. exact (anc_top h root t cr H Hfr (hi_root_parent D h HI cr Hfr)).
Qed.

Lemma undragged_off_tree : forall D h w t ct, hinv D h -> anc h w t -> findw h t = Some ct -> w_parent ct = None ->
  t <> root -> undragged D h w.
Proof.
  intros D h w t ct HI Hwt Hft Hpt Hne d Hd Hn Hl Hdw.
  destruct (hi_drag D h HI) as [od [E Ha]]. rewrite E in Hd. inversion Hd; subst od.
  pose proof (Ha d eq_refl Hn Hl) as H5.
  assert (Hxt : anc h d t) by exact (anc_trans h d w Hdw t Hwt).
  destruct (anc_linear h d t Hxt root H5) as [H|H].
  - apply Hne. symmetry. exact (anc_top h t root ct H Hft Hpt).
  - pose proof (anc_live_l h root t H) as Hl'. destruct (findw h root) as [cr|] eqn:Hfr; [|congruence].
    apply Hne. exact (anc_top h root t cr H Hfr (hi_root_parent D h HI cr Hfr)).
Qed.

Lemma unqueued_shrinks : forall h h' w, shrinks h h' -> unqueued h w -> unqueued h' w.
Proof.
  intros h h' w S U q cq x Hfq Hx Ha. destruct (sh_reqs h h' S q cq Hfq) as [cq0 [H0 E0]].
  apply (U q cq0 x); auto.
  - congruence.
  - eapply shrinks_anc; eauto.
Qed.

Lemma unqueued_below : forall D h w k ck, hinv D h -> unqueued h w -> findw h k = Some ck -> w_parent ck = Some w ->
  unqueued h k.
Proof.
  intros D h w k ck HI U Hf Hp q cq x Hfq Hx Ha. apply (U q cq x Hfq Hx).
  eapply anc_trans; eauto. eapply anc_step; eauto.
  destruct (hinv_parent_live D h k ck w HI Hf Hp) as [cw Hw]. eapply anc_refl; eauto.
Qed.

(* ---- running the primitive commands --------------------------------------------------------------- *)
Lemma upd_run : forall h a f c, findw h a = Some c -> upd a f h = Ok tt (upd_cell h a f).
Proof.
  intros h a f c Hf. unfold upd, bind, getw, setw, upd_cell. unfold findw in *. rewrite Hf. rewrite Hf. reflexivity.
Qed.

Lemma setw_run : forall h a c0 c, findw h a = Some c0 -> setw a c h = Ok tt (upd_cell h a (fun _ => c)).
Proof.
  intros h a c0 c Hf. unfold setw, upd_cell. unfold findw in *. rewrite Hf. reflexivity.
Qed.

Definition slot_owner (s : slot) : positive := match s with SFirst p => p | SNext a => a end.
Definition slot_upd (h : heap) (s : slot) (v : ptr) : heap :=
  match s with
  | SFirst p => upd_cell h p (fun c => set_first c v)
  | SNext a => upd_cell h a (fun c => set_next c v)
  end.

Lemma read_slot_run : forall h s v, slot_val h s = Some v -> read_slot s h = Ok v h.
Proof.
  intros h s v Hv. destruct s as [p|a]; cbn in *; unfold bind, getw; unfold findw in Hv.
  - destruct (PM.find p (wins h)); cbn in Hv; inversion Hv; reflexivity.
  - destruct (PM.find a (wins h)); cbn in Hv; inversion Hv; reflexivity.
Qed.

Lemma write_slot_run : forall h s v v0, slot_val h s = Some v0 -> write_slot s v h = Ok tt (slot_upd h s v).
Proof.
  intros h s v v0 Hv. destruct s as [p|a]; cbn in *.
  - destruct (findw h p) as [c|] eqn:Hf; [|discriminate]. eapply upd_run; eauto.
  - destruct (findw h a) as [c|] eqn:Hf; [|discriminate]. eapply upd_run; eauto.
Qed.

Lemma cells_by_slot_upd : forall h s v, cells_by h (slot_upd h s v) (slot_F s v).
Proof. intros h s v. destruct s; cbn; apply cells_by_upd_cell. Qed.

Lemma cells_by_on : forall h a f, cells_by h (upd_cell h a f) (on a f).
Proof. intros. apply cells_by_upd_cell. Qed.

(* ---- _do_hierarchy_change(REMOVE) ------------------------------------------------------------------ *)
Lemma do_remove_spec : forall D fuel p w cw h0,
  hinv D h0 -> findw h0 w = Some cw -> w_parent cw = Some p -> unqueued h0 w -> undragged D h0 w ->
  hoare (fun h => h = h0) (do_change fuel ChRemove p w)
        (fun _ h' => hinv D h' /\ keeps h0 h' /\
                     (exists cw', findw h' w = Some cw' /\ w_parent cw' = None /\ w_next cw' = None /\
                                 w_first cw' = w_first cw /\ w_closed cw' = w_closed cw /\ w_focus cw' = w_focus cw) /\
                     (forall a c, a <> w -> findw h0 a = Some c ->
                        exists c', findw h' a = Some c' /\ w_parent c' = w_parent c /\ w_ref c' = w_ref c)).
Proof.
  intros D fuel p w cw h0 HI Hw Hwp Hunq Hund h E. subst h.
  destruct (hinv_in_parent_chain D h0 w cw p HI Hw Hwp) as [cp [l [Hp [Hch [Hin Hl]]]]].
  assert (Hlt : (p < w)%positive) by exact (hi_parent_lt D h0 HI w cw p Hw Hwp).
  assert (Hpw : p <> w) by lia.
  unfold do_change. unfold bind at 1. unfold bind at 1. unfold hremove. unfold bind at 1.
  (* the search *)
  pose proof (find_child_from_spec fuel p cp w [] l (SFirst p) h0) as Hfc.
  assert (Hpre : findw h0 p = Some cp /\ chain h0 (w_first cp) ([] ++ l) /\ slot_at p [] (SFirst p) /\ ~ In w []).
  { repeat split; auto. left. auto. }
  specialize (Hfc Hpre). unfold find_child.
  destruct (find_child_from fuel (SFirst p) w h0) as [s h1| |]; [|contradiction|exact I].
  destruct Hfc as [Eh [l1 [l2 [Heq [Hs [Hn1 Hl2]]]]]]. subst h1. cbn in Heq. subst l.
  destruct Hl2 as [E2|[l3 E2]].
  { subst l2. rewrite app_nil_r in Hin. contradiction. }
  subst l2.
  destruct (slot_at_val h0 p cp l1 (w :: l3) s Hp Hch Hs) as [v [Hv Hcv]].
  inversion Hcv as [|w' cw' l' Hfw Hcw]; subst. rewrite Hw in Hfw. inversion Hfw; subst cw'.
  unfold bind at 1. rewrite (read_slot_run h0 s (Some w) Hv).
  unfold bind at 1. cbn [deref ret]. unfold bind at 1. rewrite (getw_run h0 w cw Hw).
  unfold bind at 1. rewrite (write_slot_run h0 s (w_next cw) (Some w) Hv).
  set (h1 := slot_upd h0 s (w_next cw)).
  assert (CB1 : cells_by h0 h1 (slot_F s (w_next cw))) by apply cells_by_slot_upd.
  (* w is not the owner of the slot *)
  assert (Hsw : slot_F s (w_next cw) w cw = cw).
  { destruct Hs as [[E1 E2]|[l0 [z [E1 E2]]]]; subst s; cbn.
    - apply on_other. exact Hpw.
    - apply on_other. intro Ez. subst z. apply Hn1. subst l1. apply in_or_app. right. left. reflexivity. }
  assert (Hw1 : findw h1 w = Some cw) by (rewrite (cells_by_some h0 h1 _ w cw CB1 Hw); rewrite Hsw; reflexivity).
  rewrite (upd_run h1 w _ cw Hw1).
  set (h2 := upd_cell h1 w (fun c => set_next c None)).
  assert (Hw2 : findw h2 w = Some (set_next cw None)) by (unfold h2; rewrite findw_upd_cell_same; rewrite Hw1; reflexivity).
  unfold bind at 1. rewrite (upd_run h2 w _ _ Hw2).
  set (h3 := upd_cell h2 w (fun c => set_parent c None)).
  assert (CB3 : cells_by h0 h3 (fun a c => on w (fun c => set_parent c None) a (on w (fun c => set_next c None) a (slot_F s (w_next cw) a c)))).
  { eapply cells_by_trans with (h2 := h2); [|apply cells_by_on].
    eapply cells_by_trans with (h2 := h1); [exact CB1|apply cells_by_on]. }
  (* the parent's focus *)
  assert (Hp3 : exists cp3, findw h3 p = Some cp3).
  { eexists. eapply cells_by_some; eauto. }
  destruct Hp3 as [cp3 Hp3].
  unfold bind at 1. rewrite (getw_run h3 p cp3 Hp3).
  assert (Hstep4 : exists h4, (if ptr_eqb (w_focus cp3) (Some w) then setw p (set_focus cp3 None) else ret tt) h3 = Ok tt h4 /\
                              cells_by h3 h4 (on p (clear_focus w))).
  { destruct (ptr_eqb (w_focus cp3) (Some w)) eqn:Ef.
    - exists (upd_cell h3 p (fun _ => set_focus cp3 None)). split; [eapply setw_run; eauto|].
      eapply cells_by_ext; [apply cells_by_on|]. intros a c Hfa. unfold on.
      destruct (Pos.eqb p a) eqn:Epa; auto. apply Pos.eqb_eq in Epa. subst a.
      rewrite Hp3 in Hfa. inversion Hfa; subst c. unfold clear_focus. rewrite Ef. reflexivity.
    - exists h3. split; [reflexivity|]. eapply cells_by_ext; [apply cells_by_refl|].
      intros a c Hfa. unfold on. destruct (Pos.eqb p a) eqn:Epa; auto. apply Pos.eqb_eq in Epa. subst a.
      rewrite Hp3 in Hfa. inversion Hfa; subst c. unfold clear_focus. rewrite Ef. reflexivity. }
  destruct Hstep4 as [h4 [Hrun4 CB4]].
  assert (CB : cells_by h0 h4 (remove_F p w s (w_next cw))).
  { unfold remove_F, remove_Fg. eapply cells_by_trans with (h2 := h3); eauto. }
  assert (HI4 : hinv D h4)
    by exact (hinv_remove D h0 h4 p w cw cp l1 l3 s (clear_focus w) (clear_focus_keeps w) (or_intror (clear_focus_focus w))
                          HI Hw Hwp Hp Hch Hs Hunq Hund CB).
  assert (HFw : remove_F p w s (w_next cw) w cw = set_parent (set_next cw None) None)
    by exact (rm_F_w D h0 h4 p w cw cp l1 l3 s (clear_focus w) HI Hw Hwp Hp Hch Hs CB).
  assert (Hw4 : findw h4 w = Some (set_parent (set_next cw None) None)).
  { rewrite (cells_by_some h0 h4 _ w cw CB Hw). rewrite HFw. reflexivity. }
  assert (K4 : keeps h0 h4).
  { eapply cells_by_keeps; eauto. intros a c Hfa.
    destruct (rm_F_flags h0 h4 p w cw l1 s (clear_focus w) (clear_focus_keeps w) Hs CB a c) as [Hr1 [_ Hr3]]. split; [|auto].
    destruct (Pos.eq_dec a w) as [Ea|Ea].
    - subst a. rewrite Hw in Hfa. inversion Hfa; subst c. rewrite HFw. right. reflexivity.
    - left. exact (rm_F_parent h0 h4 p w cw l1 s (clear_focus w) (clear_focus_keeps w) Hs CB a c Ea). }
  (* the final expose of the parent *)
  assert (Hexact : forall a c, a <> w -> findw h0 a = Some c ->
            exists c', findw h4 a = Some c' /\ w_parent c' = w_parent c /\ w_ref c' = w_ref c).
  { intros a c Ha Hfa. exists (remove_F p w s (w_next cw) a c). split; [eapply cells_by_some; eauto|].
    split; [exact (rm_F_parent h0 h4 p w cw l1 s (clear_focus w) (clear_focus_keeps w) Hs CB a c Ha)|].
    destruct (rm_F_flags h0 h4 p w cw l1 s (clear_focus w) (clear_focus_keeps w) Hs CB a c) as [_ [_ Hr3]]. exact Hr3. }
  assert (Hfin : forall h', rx_only h4 h' ->
            hinv D h' /\ keeps h0 h' /\
            (exists cw', findw h' w = Some cw' /\ w_parent cw' = None /\ w_next cw' = None /\
                        w_first cw' = w_first cw /\ w_closed cw' = w_closed cw /\ w_focus cw' = w_focus cw) /\
            (forall a c, a <> w -> findw h0 a = Some c ->
               exists c', findw h' a = Some c' /\ w_parent c' = w_parent c /\ w_ref c' = w_ref c)).
  { intros h' R. split; [eapply hinv_rx_only; eauto|]. split; [|split].
    - eapply keeps_trans; eauto. apply rx_only_keeps. exact R.
    - exists (set_parent (set_next cw None) None). rewrite (rx_only_findw h4 h' w R). repeat split; auto.
    - intros a c Ha Hfa. rewrite (rx_only_findw h4 h' a R). apply Hexact; auto. }
  assert (Hlp : findw h4 p <> None).
  { destruct (kp_wins h0 h4 K4 p cp Hp) as [cp4 [Hcp4 _]]. congruence. }
  (* the restore request at the root, when the parent's focus pointer was cleared *)
  assert (Hrun5 : match (if ptr_eqb (w_focus cp3) (Some w)
                         then setw p (set_focus cp3 None) ;;; focus_chain_changed fuel (Some p) else ret tt) h3 with
                  | Ok _ h5 => rx_only h4 h5 | Fault _ _ => False | NoFuel => True end).
  { destruct (ptr_eqb (w_focus cp3) (Some w)).
    - unfold bind. rewrite Hrun4.
      apply (focus_chain_changed_spec D fuel (Some p) h4 h4). split; [reflexivity|]. split; [exact HI4|].
      intros a Ea. inversion Ea; subst a. exact Hlp.
    - cbn in Hrun4 |- *. inversion Hrun4. apply rx_only_refl. }
  destruct ((if ptr_eqb (w_focus cp3) (Some w)
             then setw p (set_focus cp3 None) ;;; focus_chain_changed fuel (Some p) else ret tt) h3) as [u5 h5| |];
    [|contradiction|exact I].
  unfold bind at 1. rewrite (getw_run h5 w (set_parent (set_next cw None) None)) by (rewrite (rx_only_findw h4 h5 w Hrun5); exact Hw4).
  cbn [w_visible set_parent set_next].
  destruct (w_visible cw).
  - assert (Hlp5 : findw h5 p <> None) by (rewrite (rx_only_findw h4 h5 p Hrun5); exact Hlp).
    pose proof (expose_spec D fuel p h5 h5 (conj eq_refl (conj (hinv_rx_only D h4 h5 HI4 Hrun5) Hlp5))) as He.
    destruct (expose fuel p h5) as [u h6| |]; [|contradiction|exact I]. apply Hfin. eapply rx_only_trans; eauto.
  - cbn. apply Hfin. exact Hrun5.
Qed.
