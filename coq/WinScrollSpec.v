(* WinScrollSpec.v -- what win_scroll (the C _scroll, repaired code) does to the screen, for
   ANY scroll oracle of the terminal (win_scroll_spec): with V the set of screen cells at
   which the descent of owner_rel arrives in the scrolled window inside the scrolled
   rectangle (and, when the children are masked, outside every visible child),
   every screen cell afterwards
     - lies in the pending damage, or
     - is outside V and still shows the old composition, or
     - is in V together with its source cell q + (down, right) and shows what the old
       composition had at the source cell. *)
From Coq Require Import ZArith List Bool Lia ZifyBool.
From Tickit Require Import RectDefs RectProofs WinRectSet WinRectSetProofs WinDefs WinSpec
  WinExposeProofs WinFlushProofs WinLogDisjoint WinScreenInv WinLocality WinPreserve WinScrollDesc
  WinScrollRegion WinScrollFold.
Import ListNotations.
Local Open Scope Z_scope.
Local Strategy 1000 [rsfuel].

Definition scrollV (T : wtree) (id : Z) (orig : option rect) (mask : bool) (q : cell) : Prop :=
  exists n p, t_find id T = Some n /\ desc id T q = Some p /\
              cell_in (selfrect (t_info n)) p /\ ex_has orig p /\
              (mask = true -> vis_cover (t_kids n) p = false).

Lemma chain_head id t w rest :
  NoDup (t_ids t) -> t_chain id t = Some (w :: rest) ->
  t_find id t = Some w /\ exists pth, t_path id t = Some (t :: pth) /\ w :: rest = rev (t :: pth).
Proof.
  intros Hnd H. unfold t_chain in H. destruct (t_path id t) as [path|] eqn:Ep; [|discriminate].
  injection H as H. destruct (path_head _ _ _ Ep) as [pth ->].
  destruct (path_spec id t _ Ep) as (_ & Hs & Hlast).
  assert (E : t :: pth = rev rest ++ [w]).
  { rewrite <- (rev_involutive (t :: pth)), H. reflexivity. }
  destruct (Hlast _ _ E) as [Hid _]. split.
  - rewrite <- Hid. apply t_find_subtree; [|exact Hnd]. rewrite Forall_forall in Hs. apply Hs.
    rewrite E. apply in_or_app. right. left. reflexivity.
  - exists pth. split; [reflexivity|]. symmetry. exact H.
Qed.

Theorem win_scroll_spec app st tm id orig d r mask st' tm' ret :
  ScreenInv app st tm -> NoDup (t_ids (r_tree st)) -> vis_nonempty (r_tree st) ->
  win_scroll no_defects st tm id orig d r mask = (st', tm', ret) -> r_fault st' = false ->
  r_tree st' = r_tree st /\ all_nonempty (r_damage st') /\
  t_lines tm' = t_lines tm /\ t_cols tm' = t_cols tm /\
  (r_damage st' <> [] -> r_nexp st' = true /\ r_later st' = true) /\
  (r_queue st' <> [] -> r_later st' = true) /\
  forall q, cell_inb (root_selfrect st) q = true ->
    covered (r_damage st') q \/
    (~ scrollV (r_tree st) id orig mask q /\ t_grid tm' q = shows app (r_tree st) q) \/
    (scrollV (r_tree st) id orig mask q /\
     scrollV (r_tree st) id orig mask (fst q + d, snd q + r) /\
     t_grid tm' q = shows app (r_tree st) (fst q + d, snd q + r)).
Proof.
  intros SI Hu Hvn H Hf.
  pose proof SI as [[Ho1 Ho2] Hrv [Hs1 Hs2] Hne Hc [Hf1 Hf2]].
  set (T := r_tree st) in *.
  assert (Hnoop : (forall q, ~ scrollV T id orig mask q) ->
    r_tree st = T /\ all_nonempty (r_damage st) /\ t_lines tm = t_lines tm /\ t_cols tm = t_cols tm /\
    (r_damage st <> [] -> r_nexp st = true /\ r_later st = true) /\
    (r_queue st <> [] -> r_later st = true) /\
    forall q, cell_inb (root_selfrect st) q = true ->
      covered (r_damage st) q \/
      (~ scrollV T id orig mask q /\ t_grid tm q = shows app T q) \/
      (scrollV T id orig mask q /\ scrollV T id orig mask (fst q + d, snd q + r) /\
       t_grid tm q = shows app T (fst q + d, snd q + r))).
  { intros Hno. repeat (split; [first [reflexivity|assumption]|]).
    intros q Hq. destruct (Hc q Hq) as [Hg|Hd]; [right; left|left; exact Hd].
    split; [apply Hno|exact Hg]. }
  unfold win_scroll in H. fold T in H.
  destruct (t_chain id T) as [[|w rest]|] eqn:Ech.
  - exfalso. exact (chain_nonempty _ _ Ech).
  - destruct (chain_head id T w rest Hu Ech) as (Hfw & pth & Hpath & Hchain).
    destruct (t_find_sub _ _ _ Hfw) as [Hsw Hidw].
    set (self := selfrect (t_info w)) in *.
    destruct (match orig with Some o => r_intersect self o | None => r_intersect self self end)
      as [rc|] eqn:Erc.
    2:{ injection H as <- <- <-. apply Hnoop. intros q (n & p & Hn & _ & Hself & Hex & _).
        rewrite Hfw in Hn. injection Hn as <-. fold self in Hself.
        destruct orig as [o|]; cbn [ex_has] in Hex.
        - apply (intersect_none _ _ Erc p). tauto.
        - apply (intersect_none _ _ Erc p). tauto. }
    assert (Hrc : nonempty rc /\ forall p, cell_in rc p <-> cell_in self p /\ ex_has orig p).
    { destruct orig as [o|]; apply intersect_some in Erc; destruct Erc as [Hn Hi]; (split; [exact Hn|]);
        intros p; rewrite Hi; cbn [ex_has]; tauto. }
    destruct Hrc as [Hrcne Hrcin].
    destruct (rs_add (r_fuel st) [] rc) as [v0|] eqn:Ev0.
    2:{ injection H as <- _ _. cbn [r_fault set_fault] in Hf. discriminate. }
    destruct (rs_add_inv _ _ _ _ inv_nil Hrcne Ev0) as [Hinv0 Hcov0].
    destruct (if mask then rs_sub_vis (r_fuel st) (Some v0) (t_kids w) else Some v0) as [v1|] eqn:Ev1.
    2:{ injection H as <- _ _. cbn [r_fault set_fault] in Hf. discriminate. }
    assert (Hv1 : Inv v1 /\ forall p, covered v1 p <->
                    cell_in rc p /\ (mask = true -> vis_cover (t_kids w) p = false)).
    { destruct mask.
      - destruct (rs_sub_vis_exact (rfuel:=(r_fuel st)) (t_kids w) v0 v1 Hinv0) as [Hi Hcv]; [|exact Ev1|].
        + apply Forall_forall. intros c Hc0. apply Hvn.
          eapply subtree_trans; [apply subtree_kid; exact Hc0|exact Hsw].
        + split; [exact Hi|]. intros p. rewrite Hcv, Hcov0, covered_nil, <- vis_cover_false_iff. tauto.
      - injection Ev1 as <-. split; [exact Hinv0|]. intros p. rewrite Hcov0, covered_nil.
        split; [intros [[]|Hp]; split; [exact Hp|discriminate]|tauto]. }
    destruct Hv1 as [Hinv1 Hcov1].
    destruct (kc_refl id T w Hu Hfw) as [D Hkc].
    assert (Hvself : forall i, subtree (Node i (t_kids w)) T -> w_id i = id ->
                     forall p, covered v1 p -> cell_in (selfrect i) p).
    { intros i Hs Hi p Hp. pose proof (t_find_subtree _ _ Hs Hu) as Hfi.
      unfold t_id in Hfi; cbn [t_info] in Hfi. rewrite Hi, Hfw in Hfi. injection Hfi as Hw.
      apply Hcov1 in Hp. destruct Hp as [Hp _]. apply Hrcin in Hp. destruct Hp as [Hp _].
      unfold self in Hp. rewrite Hw in Hp. exact Hp. }
    pose proof (scroll_region_spec (rfuel:=(r_fuel st)) id _ _ T T D Hkc Hu Hvn pth v1 Hpath Hinv1 Hvself) as Hreg.
    rewrite Hchain in H.
    (* the characterisation of scrollV *)
    assert (HVdesc : forall q, scrollV T id orig mask q <->
                       exists p, desc id T q = Some p /\ covered v1 p).
    { intros q. split.
      - intros (n & p & Hn & Hd & Hself & Hex & Hm). rewrite Hfw in Hn. injection Hn as <-.
        exists p. split; [exact Hd|]. apply Hcov1. split; [|exact Hm]. apply Hrcin. tauto.
      - intros (p & Hd & Hp). apply Hcov1 in Hp. destruct Hp as [Hp Hm]. apply Hrcin in Hp.
        exists w, p. tauto. }
    destruct (scroll_region no_defects (r_fuel st) (rev (T :: pth)) v1 0 0) as [| |V a b].
    + injection H as <- _ _. cbn [r_fault set_fault] in Hf. discriminate.
    + injection H as <- <- <-. apply Hnoop. intros q HV. apply HVdesc in HV.
      destruct HV as (p & Hd & _). destruct Hreg as [Hv|Hnone]; [congruence|].
      rewrite Hnone in Hd. discriminate.
    + destruct Hreg as (_ & HinvV & Ha & Hb & HcovV).
      destruct (fold_left (scroll_one id a b d r) V (st, tm, true, false)) as [[[s1 tm1] ret1] dp1] eqn:Efold.
      injection H as <- <- <-.
      assert (Hf1' : r_fault s1 = false) by (destruct dp1; exact Hf).
      set (L := lines (w_rect (t_info T))). set (C := cols (w_rect (t_info T))).
      assert (Hexp : forall s S,
        r_tree s = T -> all_nonempty (r_damage s) -> r_fault (win_expose s id (Some S)) = false ->
        dmg_ext s (win_expose s id (Some S)) /\
        forall q, inV T id a b L C q -> cell_in S (fst q - a, snd q - b) ->
                  covered (r_damage (win_expose s id (Some S))) q).
      { intros s S Ht Hnes Hfs.
        destruct (expose_covers_kc s id S _ _ T T D Hkc) as [Hde Hcov]; try assumption.
        { rewrite Ht. apply geq_refl. }
        split; [exact Hde|]. intros q [Hq Hd] HS.
        apply (Hcov q (fst q - a, snd q - b)); [exact Hq| |exact HS].
        apply (kc_desc_reach _ _ _ _ _ _ Hkc). exact Hd. }
      destruct (inv_disjoint V HinvV) as [Hpd HneV].
      assert (HVin : forall q, covered V q -> inV T id a b L C q).
      { intros q Hq. apply HcovV in Hq. destruct Hq as [Hq (p & Hd & _)]. split; [exact Hq|].
        rewrite Hd. f_equal. rewrite (kc_desc_offset _ _ _ _ _ _ Hkc q p Hd), Ha, Hb. reflexivity. }
      destruct (scroll_fold_spec T id a b d r L C Hexp V (t_grid tm) (shows app T) (r_damage st))
        with (rest := V) (P := @nil rect) (s := st) (tm := tm) (ret := true) (dp := false)
             (s' := s1) (tm' := tm1) (ret' := ret1) (dp' := dp1)
        as (Hg1 & Hq1 & Hl1 & Hci).
      * intros x Hx. apply Hc. apply cell_inb_iff. exact Hx.
      * unfold good. split; [reflexivity|]. split; [exact Hne|]. split; [exact Hs1|]. split; [exact Hs2|exact Hf1].
      * exact HneV.
      * intros rc0 Hin. split; [exact Hin|]. intros q Hq. apply HVin. exists rc0. split; assumption.
      * intros rc0 q _ _ Hcv. apply covered_nil in Hcv. exact Hcv.
      * exact Hpd.
      * exact Efold.
      * exact Hf1'.
      * intros q Hq. split; [intros Hcv; apply covered_nil in Hcv; contradiction|].
        intros _. split; [reflexivity|tauto].
      * cbn [List.app] in Hci. destruct Hg1 as (Gt & Gne & Gl & Gc & Gf).
        assert (HVq : forall q, cell_in (mkRect 0 0 L C) q ->
                        (covered V q <-> scrollV T id orig mask q)).
        { intros q Hq. rewrite HVdesc, HcovV. tauto. }
        split; [destruct dp1; exact Gt|]. split; [destruct dp1; exact Gne|].
        split; [rewrite Gl; symmetry; exact Hs1|]. split; [rewrite Gc; symmetry; exact Hs2|].
        split; [destruct dp1; [|exact Gf]; cbn [request_restore r_damage r_nexp r_later set_flags];
                intros Hd; destruct (Gf Hd) as [G1 _]; split; [exact G1|reflexivity]|].
        split.
        { intros Hqn. assert (Hl : r_later s1 = true).
          { apply Hl1. apply Hf2. rewrite <- Hq1. destruct dp1; exact Hqn. }
          destruct dp1; [reflexivity|exact Hl]. }
        intros q Hq. apply cell_inb_iff in Hq.
        assert (Hdmg : r_damage (if dp1 then request_restore s1 else s1) = r_damage s1)
          by (destruct dp1; reflexivity).
        rewrite Hdmg. destruct (Hci q Hq) as [Hdone Hun].
        destruct (coveredb V q) eqn:EV.
        -- apply coveredb_iff in EV. destruct (Hdone EV) as [Hd|(H1 & H2 & H3)]; [left; exact Hd|].
           right; right. split; [apply (HVq q Hq); exact H1|]. split; [|exact H3].
           apply HVq; [|exact H2]. apply (HVin _ H2).
        -- assert (HnV : ~ covered V q).
           { intros Hcv. apply coveredb_iff in Hcv. congruence. }
           destruct (Hun HnV) as [Hg0 Hd0].
           assert (Hq' : cell_inb (root_selfrect st) q = true) by (apply cell_inb_iff; exact Hq).
           destruct (Hc q Hq') as [Hg|Hd]; [|left; apply Hd0; exact Hd].
           right; left. split; [|congruence]. intros HsV. apply HnV. apply (HVq q Hq). exact HsV.
  - injection H as <- <- <-. apply Hnoop. intros q (n & p & Hn & _).
    rewrite (t_find_notin id T (chain_none_notin _ _ Ech)) in Hn. discriminate.
Qed.
