(* LifeChains.v -- writes into child chains: what a single field update does to a chain, the
   slots (pointer-to-pointer) of the C loops, and the specifications of the search loops. *)
From Coq Require Import ZArith List Bool PArith FMapPositive Lia.
From Tickit Require Import LifeDefs LifeLemmas.
Import ListNotations.
Local Open Scope Z_scope.

Definition set_cell (h : heap) (a : positive) (c : wcell) : heap := with_wins h (PM.add a c (wins h)).

Lemma findw_set_same : forall h a c, findw (set_cell h a c) a = Some c.
Proof. intros. apply findw_with_wins_add_same. Qed.
Lemma findw_set_other : forall h a b c, a <> b -> findw (set_cell h a c) b = findw h b.
Proof. intros. apply findw_with_wins_add_other. assumption. Qed.
Lemma findw_set_cases : forall h a b c, findw (set_cell h a c) b = if Pos.eqb a b then Some c else findw h b.
Proof.
  intros. destruct (Pos.eqb a b) eqn:E.
  - apply Pos.eqb_eq in E. subst. apply findw_set_same.
  - apply Pos.eqb_neq in E. apply findw_set_other. assumption.
Qed.
Lemma findq_set_cell : forall h a c q, findq (set_cell h a c) q = findq h q.
Proof. reflexivity. Qed.
Lemma rx_set_cell : forall h a c, rx (set_cell h a c) = rx h.
Proof. reflexivity. Qed.

Lemma chain_set_keep_next : forall h v l a c c', chain h v l -> findw h a = Some c -> w_next c' = w_next c ->
  chain (set_cell h a c') v l.
Proof.
  intros h v l a c c' Hc Hf Hn. eapply chain_ext; eauto.
  intros x Hx. destruct (Pos.eq_dec a x) as [E|E].
  - subst x. exists c, c'. rewrite findw_set_same. auto.
  - pose proof (chain_live h v l Hc x Hx) as Hl. destruct (findw h x) as [cx|] eqn:Hfx; [|congruence].
    exists cx, cx. rewrite findw_set_other; auto.
Qed.

Lemma chain_set_notin : forall h v l a c', chain h v l -> ~ In a l -> chain (set_cell h a c') v l.
Proof.
  intros h v l a c' Hc Hn. eapply chain_ext; eauto.
  intros x Hx. assert (a <> x) by (intro; subst; contradiction).
  pose proof (chain_live h v l Hc x Hx) as Hl. destruct (findw h x) as [cx|] eqn:Hfx; [|congruence].
  exists cx, cx. rewrite findw_set_other; auto.
Qed.

(* redirecting the [next] field of one element of a chain *)
Lemma chain_set_next : forall h l1 v z l2 cz' l3,
  chain h v (l1 ++ z :: l2) -> ~ In z l1 -> ~ In z l3 -> chain h (w_next cz') l3 ->
  chain (set_cell h z cz') v (l1 ++ z :: l3).
Proof.
  intros h l1; induction l1 as [|x l1 IH]; intros v z l2 cz' l3 Hc Hn1 Hn3 Hc3; cbn in *.
  - inversion Hc; subst. econstructor.
    + apply findw_set_same.
    + apply chain_set_notin; assumption.
  - inversion Hc as [|x' cx l' Hfx Hcx]; subst.
    assert (z <> x) by (intro; subst; apply Hn1; left; reflexivity).
    econstructor.
    + rewrite findw_set_other; eauto.
    + eapply IH; eauto.
Qed.

Lemma chain_prefix_notin : forall h v l1 z l2, chain h v (l1 ++ z :: l2) -> ~ In z l1 /\ ~ In z l2.
Proof.
  intros h v l1 z l2 Hc. pose proof (chain_NoDup h v _ Hc) as Hnd.
  apply NoDup_remove_2 in Hnd. split; intro Hin; apply Hnd; apply in_or_app; auto.
Qed.

(* ---- slots ---------------------------------------------------------------------------------- *)
Definition slot_val (h : heap) (s : slot) : option ptr :=
  match s with
  | SFirst p => option_map w_first (findw h p)
  | SNext a => option_map w_next (findw h a)
  end.

Lemma read_slot_spec : forall s (P : heap -> Prop) (Q : ptr -> heap -> Prop),
  (forall h, P h -> exists v, slot_val h s = Some v /\ Q v h) -> hoare P (read_slot s) Q.
Proof.
  intros s P Q H. destruct s as [p|a]; cbn.
  - eapply hoare_bind; [|intro c; apply hoare_ret; intros h Hh; exact Hh].
    apply getw_spec. intros h Hp. destruct (H h Hp) as [v [Hv Hq]]. cbn in Hv.
    destruct (findw h p) as [c|] eqn:Hf; [|discriminate]. inversion Hv; subst. eauto.
  - eapply hoare_bind; [|intro c; apply hoare_ret; intros h Hh; exact Hh].
    apply getw_spec. intros h Hp. destruct (H h Hp) as [v [Hv Hq]]. cbn in Hv.
    destruct (findw h a) as [c|] eqn:Hf; [|discriminate]. inversion Hv; subst. eauto.
Qed.

Definition slot_write (h : heap) (s : slot) (v : ptr) : option heap :=
  match s with
  | SFirst p => option_map (fun c => set_cell h p (set_first c v)) (findw h p)
  | SNext a => option_map (fun c => set_cell h a (set_next c v)) (findw h a)
  end.

Lemma write_slot_spec : forall s v (P : heap -> Prop) (Q : unit -> heap -> Prop),
  (forall h, P h -> exists h', slot_write h s v = Some h' /\ Q tt h') -> hoare P (write_slot s v) Q.
Proof.
  intros s v P Q H. destruct s as [p|a]; cbn.
  - apply upd_spec. intros h Hp. destruct (H h Hp) as [h' [Hw Hq]]. cbn in Hw.
    destruct (findw h p) as [c|] eqn:Hf; [|discriminate]. inversion Hw; subst. exists c. auto.
  - apply upd_spec. intros h Hp. destruct (H h Hp) as [h' [Hw Hq]]. cbn in Hw.
    destruct (findw h a) as [c|] eqn:Hf; [|discriminate]. inversion Hw; subst. exists c. auto.
Qed.

(* where a slot sits in the chain of parent [p]: after the elements [l1] *)
Definition slot_at (p : positive) (l1 : list positive) (s : slot) : Prop :=
  (l1 = [] /\ s = SFirst p) \/ (exists l0 z, l1 = l0 ++ [z] /\ s = SNext z).

Lemma slot_at_val : forall h p cp l1 l2 s, findw h p = Some cp -> chain h (w_first cp) (l1 ++ l2) ->
  slot_at p l1 s -> exists v, slot_val h s = Some v /\ chain h v l2.
Proof.
  intros h p cp l1 l2 s Hf Hc [[E1 E2]|[l0 [z [E1 E2]]]]; subst; cbn in *.
  - rewrite Hf. cbn. eauto.
  - rewrite <- app_assoc in Hc. cbn in Hc.
    destruct (chain_app h _ l0 z l2 Hc) as [cz [Hfz Hcz]]. rewrite Hfz. cbn. eauto.
Qed.

(* a read-only command: it does not change the heap *)
Definition hoare_ro {A} (P : heap -> Prop) (m : M A) (Q : heap -> A -> Prop) : Prop :=
  forall h, P h -> match m h with Ok a h' => h' = h /\ Q h a | Fault _ _ => False | NoFuel => True end.

Lemma hoare_ro_hoare : forall A (m : M A) P Q (R : A -> heap -> Prop),
  hoare_ro P m Q -> (forall h a, P h -> Q h a -> R a h) -> hoare P m R.
Proof.
  intros A m P Q R Hro HR h Hp. specialize (Hro h Hp). destruct (m h); auto.
  destruct Hro as [E Hq]. subst. auto.
Qed.

(* _find_child: the slot that holds [w], or the final NULL slot *)
Lemma find_child_from_spec : forall fuel p cp w l1 l2 s,
  hoare_ro (fun h => findw h p = Some cp /\ chain h (w_first cp) (l1 ++ l2) /\ slot_at p l1 s /\ ~ In w l1)
           (find_child_from fuel s w)
           (fun h s' => exists l1' l2', l1 ++ l2 = l1' ++ l2' /\ slot_at p l1' s' /\ ~ In w l1' /\
                                         (l2' = [] \/ exists l3, l2' = w :: l3)).
Proof.
  induction fuel as [|f IH]; intros p cp w l1 l2 s h [Hf [Hc [Hs Hn]]]; cbn; [exact I|].
  destruct (slot_at_val h p cp l1 l2 s Hf Hc Hs) as [v [Hv Hcv]].
  unfold bind. assert (Hr : read_slot s h = Ok v h).
  { destruct s as [q|a]; cbn in *; unfold bind, getw.
    - unfold findw in Hv. destruct (PM.find q (wins h)); cbn in Hv; inversion Hv; reflexivity.
    - unfold findw in Hv. destruct (PM.find a (wins h)); cbn in Hv; inversion Hv; reflexivity. }
  rewrite Hr. destruct v as [a|].
  - inversion Hcv as [|a' ca l' Hfa Hca]; subst.
    destruct (Pos.eqb a w) eqn:E.
    + apply Pos.eqb_eq in E. subst a. cbn. split; auto. exists l1, (w :: l'). repeat split; auto. right. eauto.
    + apply Pos.eqb_neq in E.
      specialize (IH p cp w (l1 ++ [a]) l' (SNext a) h).
      assert (Hpre : findw h p = Some cp /\ chain h (w_first cp) ((l1 ++ [a]) ++ l') /\
                     slot_at p (l1 ++ [a]) (SNext a) /\ ~ In w (l1 ++ [a])).
      { repeat split; auto.
        - rewrite <- app_assoc. exact Hc.
        - right. exists l1, a. auto.
        - intro Hin. apply in_app_or in Hin. destruct Hin as [Hin|[Hin|[]]]; auto. }
      specialize (IH Hpre). destruct (find_child_from f (SNext a) w h); auto.
      destruct IH as [Eh [l1' [l2' [Heq Hrest]]]]. split; auto. exists l1', l2'. split; auto.
      rewrite <- Heq. rewrite <- app_assoc. reflexivity.
  - inversion Hcv; subst. cbn. split; auto. exists l1, []. repeat split; auto.
Qed.

(* the final slot of a chain *)
Lemma last_slot_spec : forall fuel p cp l1 l2 s,
  hoare_ro (fun h => findw h p = Some cp /\ chain h (w_first cp) (l1 ++ l2) /\ slot_at p l1 s)
           (last_slot fuel s)
           (fun h s' => slot_at p (l1 ++ l2) s').
Proof.
  induction fuel as [|f IH]; intros p cp l1 l2 s h [Hf [Hc Hs]]; cbn; [exact I|].
  destruct (slot_at_val h p cp l1 l2 s Hf Hc Hs) as [v [Hv Hcv]].
  unfold bind. assert (Hr : read_slot s h = Ok v h).
  { destruct s as [q|a]; cbn in *; unfold bind, getw.
    - unfold findw in Hv. destruct (PM.find q (wins h)); cbn in Hv; inversion Hv; reflexivity.
    - unfold findw in Hv. destruct (PM.find a (wins h)); cbn in Hv; inversion Hv; reflexivity. }
  rewrite Hr. destruct v as [a|].
  - inversion Hcv as [|a' ca l' Hfa Hca]; subst.
    specialize (IH p cp (l1 ++ [a]) l' (SNext a) h).
    assert (Hpre : findw h p = Some cp /\ chain h (w_first cp) ((l1 ++ [a]) ++ l') /\ slot_at p (l1 ++ [a]) (SNext a)).
    { repeat split; auto.
      - rewrite <- app_assoc. exact Hc.
      - right. exists l1, a. auto. }
    specialize (IH Hpre). destruct (last_slot f (SNext a) h); auto.
    destruct IH as [Eh Hs']. split; auto. rewrite <- app_assoc in Hs'. exact Hs'.
  - inversion Hcv; subst. cbn. split; auto. rewrite app_nil_r. exact Hs.
Qed.
