(* WinReExample.v -- re-entering expose handlers, part 4: concrete runs (closed by computation).

   re_nonvacuous: a 4x6 root, window 1 (visible, 2x3 at (0,0)) and window 2 (HIDDEN, 2x3 at
   (2,3)).  Window 1's expose handler calls tickit_window_show(window 2).  The first flush skips
   window 2 (hidden when the traversal looks at it), runs window 1's handler -- which shows
   window 2 -- and then lets the root paint window 2's area: the flush ends with that area as
   pending damage and needs_expose set.  The second flush renders it (window 1 is not exposed
   again): no damage left, the screen is the composition, window 2 included.

   re_nonvacuous_overlap: the same with window 2 IN FRONT of window 1 and overlapping it: after
   the first flush two cells of window 2 still show what window 1 painted there, and they lie in
   the pending damage.  (tickit_window_show exposes the window even when it is visible already,
   so a handler that shows window 2 on EVERY expose of window 1 leaves that damage after every
   flush -- re_repeats; in re_nonvacuous_overlap the second flush runs handlers that make no
   calls.)

   re_close_nonvacuous: window 1 (2x2 at (1,1)) in front of window 2 (2x2 at (0,0), created
   lowest); window 1's expose handler CLOSES window 1.  The first flush exposes window 1, which
   leaves the child list while the list is being walked; window 2, the next entry, is still
   exposed, and since window 1 is no longer a child its rectangle is not masked: window 2 and
   the root repaint what window 1 drew.  The closed window's area is pending damage; the second
   flush renders it. *)
From Coq Require Import ZArith List Bool.
From Tickit Require Import RectDefs WinRectSet WinDefs WinSpec WinHist WinC01Extra WinReDefs.
Import ListNotations.
Local Open Scope Z_scope.

Definition nv_racts : Z -> list ract := fun id => if id =? 1 then [RShow 2] else [].
Definition no_racts : Z -> list ract := fun _ => [].

Definition pending_ok (m : mstate) : bool :=
  c01_pending_checkb (m_app m) (r_tree (m_root m)) (t_lines (m_term m)) (t_cols (m_term m))
                     (t_grid (m_term m)) (r_damage (m_root m)) (r_nexp (m_root m)) (r_later (m_root m)).

Definition nv_m0 : mstate :=
  run no_defects paint_progs
      [ONew 1 0 (mkRect 0 0 2 3) false false false false;
       ONew 2 0 (mkRect 2 3 2 3) true false false false]
      (m_init 4 6 pol_accept).
Definition nv_m1 : mstate := step_re no_defects paint_progs nv_racts OFlush nv_m0.
Definition nv_m2 : mstate := step_re no_defects paint_progs nv_racts OFlush nv_m1.

Lemma re_nonvacuous :
  (* after the first flush: damage pending (exactly window 2's area), the flags raised, every
     cell outside the damage shows the composition -- but the screen as a whole does not: window
     2's cells show what the ROOT painted there *)
  r_damage (m_root nv_m1) = [mkRect 2 3 2 3] /\
  r_nexp (m_root nv_m1) = true /\ r_later (m_root nv_m1) = true /\ r_fault (m_root nv_m1) = false /\
  pending_ok nv_m1 = true /\ screen_ok nv_m1 = false /\
  t_grid (m_term nv_m1) (2, 3) = m_app nv_m1 0 2 3 /\
  (* window 1 was exposed, window 2 was not *)
  map fst (m_xlog nv_m1) = [1; 0] /\
  (* after the second flush: no damage, the screen is the composition, and window 2's cells show
     window 2's content *)
  r_damage (m_root nv_m2) = [] /\ r_nexp (m_root nv_m2) = false /\ r_fault (m_root nv_m2) = false /\
  screen_ok nv_m2 = true /\ pending_ok nv_m2 = true /\
  t_grid (m_term nv_m2) (2, 3) = m_app nv_m2 2 0 0 /\
  t_grid (m_term nv_m2) (3, 5) = m_app nv_m2 2 1 2 /\
  t_grid (m_term nv_m2) (2, 3) <> t_grid (m_term nv_m1) (2, 3) /\
  map fst (m_xlog nv_m2) = [2; 0].
Proof. vm_compute. repeat split; try reflexivity. discriminate. Qed.

(* window 2 in front of window 1, overlapping it in the cells (1,1) and (1,2) *)
Definition ov_m0 : mstate :=
  run no_defects paint_progs
      [ONew 1 0 (mkRect 0 0 2 3) false false false false;
       ONew 2 0 (mkRect 1 1 2 3) true false false false]
      (m_init 4 6 pol_accept).
Definition ov_m1 : mstate := step_re no_defects paint_progs nv_racts OFlush ov_m0.
Definition ov_m2 : mstate := step_re no_defects paint_progs no_racts OFlush ov_m1.
Definition ov_m2' : mstate := step_re no_defects paint_progs nv_racts OFlush ov_m1.

Lemma re_nonvacuous_overlap :
  r_damage (m_root ov_m1) = [mkRect 1 1 2 3] /\
  r_nexp (m_root ov_m1) = true /\ r_later (m_root ov_m1) = true /\ r_fault (m_root ov_m1) = false /\
  pending_ok ov_m1 = true /\ screen_ok ov_m1 = false /\
  (* (1,1) belongs to window 2 now, and still shows what window 1 painted there *)
  t_grid (m_term ov_m1) (1, 1) = m_app ov_m1 1 1 1 /\
  map fst (m_xlog ov_m1) = [1; 0] /\
  r_damage (m_root ov_m2) = [] /\ r_nexp (m_root ov_m2) = false /\ r_fault (m_root ov_m2) = false /\
  screen_ok ov_m2 = true /\ pending_ok ov_m2 = true /\
  t_grid (m_term ov_m2) (1, 1) = m_app ov_m2 2 0 0 /\
  t_grid (m_term ov_m2) (1, 1) <> t_grid (m_term ov_m1) (1, 1) /\
  map fst (m_xlog ov_m2) = [2; 1; 0].
Proof. vm_compute. repeat split; try reflexivity. discriminate. Qed.

(* the handler that shows window 2 on every expose: the screen is right after the second flush,
   and the same damage is pending again (with the flags raised) *)
Lemma re_repeats :
  screen_ok ov_m2' = true /\ pending_ok ov_m2' = true /\
  r_damage (m_root ov_m2') = [mkRect 1 1 2 3] /\ r_nexp (m_root ov_m2') = true /\
  r_later (m_root ov_m2') = true.
Proof. vm_compute. repeat split; reflexivity. Qed.

(* case  W G 4 6 A RA 1 1 xc 1  N 1 0 1 1 2 2 0  N 2 0 0 0 2 2 2  F F  of the generated corpus *)
Definition cl_racts : Z -> list ract := fun id => if id =? 1 then [RClose 1] else [].
Definition cl_m0 : mstate :=
  run no_defects paint_progs
      [ONew 1 0 (mkRect 1 1 2 2) false false false false;
       ONew 2 0 (mkRect 0 0 2 2) false true false false]
      (m_init 4 6 pol_accept).
Definition cl_m1 : mstate := step_re no_defects paint_progs cl_racts OFlush cl_m0.
Definition cl_m2 : mstate := step_re no_defects paint_progs cl_racts OFlush cl_m1.

Lemma re_close_nonvacuous :
  (* before: window 1 in front of window 2 *)
  map t_id (t_kids (r_tree (m_root cl_m0))) = [1; 2] /\
  (* the first flush: window 2 IS exposed although window 1 left the child list mid-walk *)
  map fst (m_xlog cl_m1) = [1; 2; 0] /\
  map t_id (t_kids (r_tree (m_root cl_m1))) = [2] /\ map t_id (r_orphans (m_root cl_m1)) = [1] /\
  r_damage (m_root cl_m1) = [mkRect 1 1 2 2] /\
  r_nexp (m_root cl_m1) = true /\ r_later (m_root cl_m1) = true /\ r_fault (m_root cl_m1) = false /\
  pending_ok cl_m1 = true /\
  (* window 1 was not masked: window 2 and the root painted over what it drew *)
  t_grid (m_term cl_m1) (1, 1) = m_app cl_m1 2 1 1 /\ t_grid (m_term cl_m1) (2, 2) = m_app cl_m1 0 2 2 /\
  (* the second flush renders the closed window's area *)
  map fst (m_xlog cl_m2) = [2; 0] /\
  r_damage (m_root cl_m2) = [] /\ r_nexp (m_root cl_m2) = false /\ r_fault (m_root cl_m2) = false /\
  pending_ok cl_m2 = true /\ screen_ok cl_m2 = true.
Proof. vm_compute. repeat split; reflexivity. Qed.
