(* XtermDefs.v -- executable model of src/termdriver-xterm.c (drawing requests, mode
   shadow, controls, teardown / pause / resume) and of the thin layer of src/term.c above
   it (tickit_term_teardown / destroy / pause / resume with the UNSTARTED state), and of
   the toplevel's fixed setup in src/tickit.c (setupterm, tickit_destroy).
   Definitions only; function by function after the C, same branch order. *)
From Coq Require Import ZArith List Bool Lia.
From Tickit Require Import Csi TermPenDefs Gen_SgrOnOff.
Import ListNotations.
Local Open Scope Z_scope.

(* ---- tokens the driver writes *)
Definition csi (ps : list (list (option Z))) (fin : Z) : token := TCsi None ps [] fin.
Definition csi_n (n : Z) (fin : Z) : token := TCsi None [[Some n]] [] fin.
Definition csi_0 (fin : Z) : token := TCsi None [] [] fin.
Definition dec_mode (n : Z) (on : bool) : token := TCsi (Some 63) [[Some n]] [] (if on then 104 else 108).
Definition chars (bs : list Z) : list token := map TChar bs.

(* ---- start (lines 503-527): enable DECLRMM, the probes, clear the line *)
Definition xt_start : list token :=
  [ dec_mode 69 true;
    TCsi (Some 63) [[Some 69]] [36] 112;
    TCsi (Some 63) [[Some 25]] [36] 112; TCsi (Some 63) [[Some 12]] [36] 112; TStr 80 [36; 113; 32; 113];
    csi [[Some 38]; [Some 5]; [Some 255]] 109; csi [[Some 38; Some 2; Some 0; Some 1; Some 2]] 109;
    TStr 80 [36; 113; 109]; csi_0 109;
    csi_0 71; csi_0 75 ].

(* ---- print *)
Definition xt_print (bs : list Z) : list token := chars bs.

(* ---- goto_abs (lines 56-70) *)
Definition xt_goto_abs (line col : Z) : list token :=
  if negb (line =? -1) && (0 <? col) then [csi [[Some (line + 1)]; [Some (col + 1)]] 72]
  else if negb (line =? -1) && (col =? 0) then [csi_n (line + 1) 72]
  else if negb (line =? -1) then [csi_n (line + 1) 100]
  else if 0 <? col then [csi_n (col + 1) 71]
  else if negb (col =? -1) then [csi_0 71]
  else [].

(* ---- move_rel (lines 72-93) *)
Definition xt_move_rel (downward rightward : Z) : list token :=
  (if 1 <? downward then [csi_n downward 66]
   else if downward =? 1 then [csi_0 66]
   else if downward =? -1 then [csi_0 65]
   else if downward <? -1 then [csi_n (- downward) 65]
   else []) ++
  (if 1 <? rightward then [csi_n rightward 67]
   else if rightward =? 1 then [csi_0 67]
   else if rightward =? -1 then [csi_0 68]
   else if rightward <? -1 then [csi_n (- rightward) 68]
   else []).

(* ---- scrollrect (lines 95-169) *)
Record rect := mkRect { r_top : Z; r_left : Z; r_lines : Z; r_cols : Z }.
Definition r_bottom (r : rect) := r_top r + r_lines r.
Definition r_right (r : rect) := r_left r + r_cols r.

Definition insdel_chars (rightward : Z) : list token :=
  if 1 <? rightward then [csi_n rightward 80]          (* DCH *)
  else if rightward =? 1 then [csi_0 80]
  else if rightward =? -1 then [csi_0 64]              (* ICH *)
  else if rightward <? -1 then [csi_n (- rightward) 64]
  else [].
Fixpoint scroll_lines (n : nat) (line left rightward : Z) : list token :=
  match n with
  | O => []
  | S k => xt_goto_abs line left ++ insdel_chars rightward ++ scroll_lines k (line + 1) left rightward
  end.
Definition csi_q (n : option Z) (i fin : Z) : token :=
  TCsi None (match n with Some k => [[Some k]] | None => [] end) [i] fin.

(* single-column rectangles cannot be given DECSLRM margins (left < right is required) *)
Definition xt_scrollrect (slrm : bool) (term_cols : Z) (r : rect) (downward rightward : Z)
  : bool * list token :=
  if (downward =? 0) && (rightward =? 0) then (true, [])
  else
    let right := r_right r in
    if ((slrm && (r_lines r =? 1)) || (right =? term_cols)) && (downward =? 0) then
      (true,
       (if right <? term_cols then [csi [[None]; [Some right]] 115] else []) ++
       scroll_lines (Z.to_nat (r_lines r)) (r_top r) (r_left r) rightward ++
       (if right <? term_cols then [csi_0 115] else []))
    else if slrm || ((r_left r =? 0) && (r_cols r =? term_cols) && (rightward =? 0)) then
      let lr := (0 <? r_left r) || (right <? term_cols) in
      if lr && (r_cols r <? 2) then (false, [])
      else
      (true,
       [csi [[Some (r_top r + 1)]; [Some (r_bottom r)]] 114] ++
       (if lr then [csi [[Some (r_left r + 1)]; [Some right]] 115] else []) ++
       xt_goto_abs (r_top r) (r_left r) ++
       (if 1 <? downward then [csi_n downward 77]        (* DL *)
        else if downward =? 1 then [csi_0 77]
        else if downward =? -1 then [csi_0 76]            (* IL *)
        else if downward <? -1 then [csi_n (- downward) 76]
        else []) ++
       (if 1 <? rightward then [csi_q (Some rightward) 39 126]    (* DECDC *)
        else if rightward =? 1 then [csi_q None 39 126]
        else if rightward =? -1 then [csi_q None 39 125]          (* DECIC *)
        else []) ++
       (if rightward <? -1 then [csi_q (Some (- rightward)) 39 125] else []) ++
       [csi_0 114] ++
       (if lr then [csi_0 115] else []))
    else (false, []).

(* ---- erasech (lines 171-204); [rv] = the cached pen's reverse attribute *)
Inductive maybe := MNo | MYes | MMaybe.
Fixpoint spaces_chunks (fuel : nat) (count : Z) : list token :=
  (* while(count > 64) write 64; then write count *)
  match fuel with
  | O => []
  | S f => if 64 <? count then chars (repeat 32 64) ++ spaces_chunks f (count - 64)
           else chars (repeat 32 (Z.to_nat count))
  end.
Definition xt_erasech (rv : bool) (count : Z) (moveend : maybe) : list token :=
  if count <? 1 then []
  else if negb rv then
    (if count =? 1 then [csi_0 88] else [csi_n count 88]) ++
    (match moveend with MYes => xt_move_rel 0 count | _ => [] end)
  else
    spaces_chunks (S (Z.to_nat (count / 64))) count ++
    (match moveend with MNo => xt_move_rel 0 (- count) | _ => [] end).

(* ---- clear *)
Definition xt_clear : list token := [csi_n 2 74].

(* ---- the driver's state *)
Record xcaps := mkCaps { cap_cursorshape : bool; cap_slrm : bool; cap_colon : bool; cap_rgb8 : bool }.
Record xmode := mkMode {
  m_altscreen : bool; m_cursorvis : bool; m_cursorblink : bool; m_cursorshape : Z;
  m_mouse : Z; m_keypad : bool
}.
Record xinit := mkInit { i_cursorvis : bool; i_cursorblink : bool; i_cursorshape : bool; i_slrm : bool }.
Record xdrv := mkDrv { x_caps : xcaps; x_mode : xmode; x_init : xinit }.

(* new(): everything zero except mode.cursorvis = 1 *)
Definition xdrv_new : xdrv :=
  mkDrv (mkCaps false false false false) (mkMode false true false 0 0 false) (mkInit false false false false).

Definition with_mode (d : xdrv) (m : xmode) : xdrv := mkDrv (x_caps d) m (x_init d).
Definition with_caps (d : xdrv) (c : xcaps) : xdrv := mkDrv c (x_mode d) (x_init d).
Definition with_init (d : xdrv) (i : xinit) : xdrv := mkDrv (x_caps d) (x_mode d) i.

(* on_modereport(initial = '?', mode, value): a report is taken only while the control has not been
   set (or reported) yet -- afterwards it is stale *)
Definition xt_on_modereport (d : xdrv) (mode value : Z) : xdrv :=
  let m := x_mode d in let i := x_init d in let c := x_caps d in
  if mode =? 12 then
    with_init (with_mode d (mkMode (m_altscreen m) (m_cursorvis m)
                                   (if (value =? 1) && negb (i_cursorblink i) then true else m_cursorblink m)
                                   (m_cursorshape m) (m_mouse m) (m_keypad m)))
              (mkInit (i_cursorvis i) true (i_cursorshape i) (i_slrm i))
  else if mode =? 25 then
    with_init (with_mode d (mkMode (m_altscreen m) (if (value =? 1) && negb (i_cursorvis i) then true else m_cursorvis m)
                                   (m_cursorblink m) (m_cursorshape m) (m_mouse m) (m_keypad m)))
              (mkInit true (i_cursorblink i) (i_cursorshape i) (i_slrm i))
  else if mode =? 69 then
    with_init (with_caps d (mkCaps (cap_cursorshape c)
                                   (if (value =? 1) || (value =? 2) then true else cap_slrm c)
                                   (cap_colon c) (cap_rgb8 c)))
              (mkInit (i_cursorvis i) (i_cursorblink i) (i_cursorshape i) true)
  else d.
(* on_decrqss for " q" with a number: shape = (value+1)/2, cap.cursorshape = 1 *)
Definition xt_on_decscusr (d : xdrv) (value : Z) : xdrv :=
  let m := x_mode d in let i := x_init d in let c := x_caps d in
  with_init (with_caps (with_mode d (mkMode (m_altscreen m) (m_cursorvis m) (m_cursorblink m)
                                            (if i_cursorshape i then m_cursorshape m else ((value + 1) / 2) mod 4)
                                            (m_mouse m) (m_keypad m)))
                       (mkCaps true (cap_slrm c) (cap_colon c) (cap_rgb8 c)))
            (mkInit (i_cursorvis i) (i_cursorblink i) true (i_slrm i)).
(* on_decrqss for "...m": separator and RGB support *)
Definition xt_on_sgrreport (d : xdrv) (colon rgb8 : bool) : xdrv :=
  let c := x_caps d in
  with_caps d (mkCaps (cap_cursorshape c) (cap_slrm c) (colon || cap_colon c) (rgb8 || cap_rgb8 c)).

(* controls *)
Inductive ctl := CtlAltscreen | CtlCursorvis | CtlMouse | CtlCursorblink | CtlCursorshape
               | CtlKeypadApp | CtlColors | CtlCapRgb8.

Definition mode_for_mouse (m : Z) : Z :=
  if m =? 1 then 1000 else if m =? 2 then 1002 else if m =? 3 then 1003 else 0.
Definition mouse_tokens (m : Z) (on : bool) : list token := [dec_mode (mode_for_mouse m) on; dec_mode 1006 on].
Definition nz (v : Z) : bool := negb (v =? 0).

(* getctl_int *)
Definition xt_getctl (d : xdrv) (c : ctl) : option Z :=
  let m := x_mode d in
  match c with
  | CtlCapRgb8 => Some (if cap_rgb8 (x_caps d) then 1 else 0)
  | CtlAltscreen => Some (if m_altscreen m then 1 else 0)
  | CtlCursorvis => Some (if m_cursorvis m then 1 else 0)
  | CtlCursorblink => Some (if m_cursorblink m then 1 else 0)
  | CtlMouse => Some (m_mouse m)
  | CtlCursorshape => Some (m_cursorshape m)
  | CtlKeypadApp => Some (if m_keypad m then 1 else 0)
  | CtlColors => Some (if cap_rgb8 (x_caps d) then 16777216 else 256)
  end.

(* setctl_int (lines 414-485): new state, tokens written, return value.
   KEYPAD_APP writes the sequence but never records it in the shadow (as the code is). *)
Definition xt_setctl (d : xdrv) (c : ctl) (value : Z) : xdrv * list token * bool :=
  let m := x_mode d in
  match c with
  | CtlCapRgb8 =>
      let cc := x_caps d in
      (with_caps d (mkCaps (cap_cursorshape cc) (cap_slrm cc) (cap_colon cc) (nz value)), [], true)
  | CtlAltscreen =>
      if Bool.eqb (negb (m_altscreen m)) (negb (nz value)) then (d, [], true)
      else (with_mode d (mkMode (nz value) (m_cursorvis m) (m_cursorblink m) (m_cursorshape m) (m_mouse m) (m_keypad m)),
            [dec_mode 1049 (nz value)], true)
  | CtlCursorvis =>
      let i := x_init d in
      let d1 := with_init d (mkInit true (i_cursorblink i) (i_cursorshape i) (i_slrm i)) in
      if Bool.eqb (negb (m_cursorvis m)) (negb (nz value)) then (d1, [], true)
      else (with_mode d1 (mkMode (m_altscreen m) (nz value) (m_cursorblink m) (m_cursorshape m) (m_mouse m) (m_keypad m)),
            [dec_mode 25 (nz value)], true)
  | CtlCursorblink =>
      if i_cursorblink (x_init d) && Bool.eqb (negb (m_cursorblink m)) (negb (nz value)) then (d, [], true)
      else (with_init (with_mode d (mkMode (m_altscreen m) (m_cursorvis m) (nz value) (m_cursorshape m) (m_mouse m) (m_keypad m)))
                      (mkInit (i_cursorvis (x_init d)) true (i_cursorshape (x_init d)) (i_slrm (x_init d))),
            [dec_mode 12 (nz value)], true)
  | CtlMouse =>
      if m_mouse m =? value then (d, [], true)
      else (with_mode d (mkMode (m_altscreen m) (m_cursorvis m) (m_cursorblink m) (m_cursorshape m) (value mod 4) (m_keypad m)),
            (if value =? 0 then mouse_tokens (m_mouse m) false else mouse_tokens value true), true)
  | CtlCursorshape =>
      if i_cursorshape (x_init d) && (m_cursorshape m =? value) then (d, [], true)
      else (with_init (with_mode d (mkMode (m_altscreen m) (m_cursorvis m) (m_cursorblink m) (value mod 4) (m_mouse m) (m_keypad m)))
                      (mkInit (i_cursorvis (x_init d)) (i_cursorblink (x_init d)) true (i_slrm (x_init d))),
            (if cap_cursorshape (x_caps d)
             then [TCsi None [[Some (value * 2 + (if m_cursorblink m then -1 else 0))]] [32] 113]
             else []), true)
  | CtlKeypadApp =>
      if Bool.eqb (negb (m_keypad m)) (negb (nz value)) then (d, [], true)
      else (d, [TEsc [] (if nz value then 61 else 62)], true)
  | CtlColors => (d, [], false)
  end.

(* teardown (lines 601-616) = stop = pause *)
Definition xt_teardown (d : xdrv) : list token :=
  let m := x_mode d in
  (if nz (m_mouse m) then mouse_tokens (m_mouse m) false else []) ++
  (if negb (m_cursorvis m) then [dec_mode 25 true] else []) ++
  (if m_altscreen m then [dec_mode 1049 false] else []) ++
  (if m_keypad m then [TEsc [] 62] else []) ++
  [csi_0 109].
(* resume (lines 618-630) *)
Definition xt_resume (d : xdrv) : list token :=
  let m := x_mode d in
  (if m_keypad m then [TEsc [] 61] else []) ++
  (if m_altscreen m then [dec_mode 1049 true] else []) ++
  (if negb (m_cursorvis m) then [dec_mode 25 false] else []) ++
  (if nz (m_mouse m) then mouse_tokens (m_mouse m) true else []).

(* ---- term.c above the driver *)
Record term := mkTerm {
  t_drv : xdrv;
  t_started : bool;          (* state != UNSTARTED *)
  t_pen : pen;               (* tt->pen, the cached pen *)
  t_lines : Z; t_cols : Z
}.
Definition term_with_drv (t : term) (d : xdrv) : term := mkTerm d (t_started t) (t_pen t) (t_lines t) (t_cols t).
Definition term_with_pen (t : term) (p : pen) : term := mkTerm (t_drv t) (t_started t) p (t_lines t) (t_cols t).

(* tickit_term_teardown: stop only if not UNSTARTED; then UNSTARTED *)
Definition term_teardown (t : term) : term * list token :=
  if t_started t then (mkTerm (t_drv t) false (t_pen t) (t_lines t) (t_cols t), xt_teardown (t_drv t))
  else (t, []).
(* tickit_term_destroy: teardown, then the driver is destroyed *)
Definition term_destroy (t : term) : list token := snd (term_teardown t).
Definition term_pause (t : term) : list token := xt_teardown (t_drv t).

(* tt->colors is read once, in tickit_term_build, before any capability is probed: the
   xterm driver answers 256 then, so no colour index (<= 255) is ever down-converted *)
Definition xterm_colors : Z := 256.

(* tickit_term_resume: the driver's resume, then the cached pen is sent again because
   pause reset the terminal's rendition *)
Definition term_resume (t : term) : option (list token) :=
  if is_nondefault (t_pen t) then
    match xterm_chpen chpen_params_capacity (cap_colon (x_caps (t_drv t))) (cap_rgb8 (x_caps (t_drv t)))
                      (t_pen t) (t_pen t) with
    | None => None
    | Some ts => Some (xt_resume (t_drv t) ++ ts)
    end
  else Some (xt_resume (t_drv t)).

(* tickit.c setupterm (155-171) after the driver has started *)
Definition setup_controls (use_altscreen : bool) : list (ctl * Z) :=
  (if use_altscreen then [(CtlAltscreen, 1)] else []) ++
  [(CtlCursorvis, 0); (CtlMouse, 2); (CtlKeypadApp, 1)].
