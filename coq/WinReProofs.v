(* WinReProofs.v -- expose handlers that re-enter the window layer during a flush (WinReDefs.v),
   part 1:
   * the loops of do_expose_re / expose_log_re as top-level functions, and two generic
     principles: a predicate on root states kept by every handler call is kept by the whole
     traversal (do_expose_re_fst_inv, flush_rb_re_fst_inv);
   * when the scripted calls leave the visibility flags the traversal reads alone, the
     traversal IS do_expose and the state is threaded through the handlers in the order of
     the expose log (do_expose_re_static, flush_rb_re_static);
   * with no scripted calls the new flush is the old one (flush_re_pure, flush_log_re_pure,
     step_re_noacts). *)
From Coq Require Import ZArith List Bool Lia ZifyBool Permutation.
From Tickit Require Import RectDefs RectProofs WinRectSet WinRectSetProofs WinDefs WinHist WinSpec
  WinExposeProofs WinFlushProofs WinLogDisjoint WinScreenInv WinLocality WinPreserve WinInput WinReDefs.
From Tickit Require WinInputProofs.
Import ListNotations.
Local Open Scope Z_scope.
Local Strategy 1000 [rsfuel].

(* ------------------------------------------------------------------------------------ *)
(* the loops as top-level functions                                                      *)

Fixpoint expose_kids_re (rh : rhandler) (pid : Z) (r : rect) (l : list wtree) (sb : root * rbuf) : root * rbuf :=
  match l with
  | [] => sb
  | c :: rest =>
    let ci := t_info c in
    if negb (child_now (fst sb) pid (w_id ci)) then expose_kids_re rh pid r rest sb else
    if negb (vis_now (fst sb) (w_id ci)) then expose_kids_re rh pid r rest sb else
    let sb' :=
      match r_intersect r (w_rect ci) with
      | Some ex =>
        let b1 := rb_translate (rb_clip_to (rb_save (snd sb)) ex) (top (w_rect ci)) (left (w_rect ci)) in
        let sb2 := do_expose_re rh c (r_translate ex (- top (w_rect ci)) (- left (w_rect ci))) (fst sb, b1) in
        (fst sb2, rb_restore (snd sb2))
      | None => sb
      end in
    expose_kids_re rh pid r rest (fst sb', if child_now (fst sb') pid (w_id ci)
                                            then rb_mask_rect (snd sb') (w_rect ci) else snd sb')
  end.

Lemma do_expose_re_unfold rh i ch r sb :
  do_expose_re rh (Node i ch) r sb = rh (w_id i) r (expose_kids_re rh (w_id i) r ch sb).
Proof.
  cbn [do_expose_re]. f_equal. revert sb.
  induction ch as [|c rest IH]; intros sb; [reflexivity|].
  cbn [expose_kids_re]. destruct (negb (child_now (fst sb) (w_id i) (w_id (t_info c)))); [apply IH|].
  destruct (negb (vis_now (fst sb) (w_id (t_info c)))); [apply IH|]. apply IH.
Qed.

Fixpoint log_kids_re (rh : rhandler) (pid : Z) (r : rect) (l : list wtree) (sb : root * rbuf) : list (Z * rect) :=
  match l with
  | [] => []
  | c :: rest =>
    let ci := t_info c in
    if negb (child_now (fst sb) pid (w_id ci)) then log_kids_re rh pid r rest sb else
    if negb (vis_now (fst sb) (w_id ci)) then log_kids_re rh pid r rest sb else
    match r_intersect r (w_rect ci) with
    | Some ex =>
      let b1 := rb_translate (rb_clip_to (rb_save (snd sb)) ex) (top (w_rect ci)) (left (w_rect ci)) in
      let r' := r_translate ex (- top (w_rect ci)) (- left (w_rect ci)) in
      let sb2 := do_expose_re rh c r' (fst sb, b1) in
      let b3 := rb_restore (snd sb2) in
      expose_log_re rh c r' (fst sb, b1) ++
      log_kids_re rh pid r rest (fst sb2, if child_now (fst sb2) pid (w_id ci) then rb_mask_rect b3 (w_rect ci) else b3)
    | None => log_kids_re rh pid r rest (fst sb, rb_mask_rect (snd sb) (w_rect ci))
    end
  end.

Lemma expose_log_re_unfold rh i ch r sb :
  expose_log_re rh (Node i ch) r sb = log_kids_re rh (w_id i) r ch sb ++ [(w_id i, r)].
Proof.
  cbn [expose_log_re]. f_equal. revert sb.
  induction ch as [|c rest IH]; intros sb; [reflexivity|]. cbn [log_kids_re].
  destruct (negb (child_now (fst sb) (w_id i) (w_id (t_info c)))); [apply IH|].
  destruct (negb (vis_now (fst sb) (w_id (t_info c)))); [apply IH|].
  destruct (r_intersect r (w_rect (t_info c))); [rewrite IH; reflexivity|apply IH].
Qed.

(* ------------------------------------------------------------------------------------ *)
(* a predicate on root states that every handler call keeps                              *)

Definition rh_keeps (P : root -> Prop) (rh : rhandler) : Prop :=
  forall id r sb, P (fst sb) -> P (fst (rh id r sb)).

Lemma do_expose_re_fst_inv (P : root -> Prop) rh :
  rh_keeps P rh -> forall t r sb, P (fst sb) -> P (fst (do_expose_re rh t r sb)).
Proof.
  intros Hk.
  apply (wtree_ind2 (fun t => forall r sb, P (fst sb) -> P (fst (do_expose_re rh t r sb)))).
  intros i ch IH r sb HP. rewrite do_expose_re_unfold. apply Hk.
  revert sb HP. induction IH as [|c rest Hc _ IHr]; intros sb HP; [exact HP|].
  cbn [expose_kids_re].
  destruct (negb (child_now (fst sb) (w_id i) (w_id (t_info c)))); [apply IHr; exact HP|].
  destruct (negb (vis_now (fst sb) (w_id (t_info c)))); [apply IHr; exact HP|].
  apply IHr. cbn [fst].
  destruct (r_intersect r (w_rect (t_info c))) as [ex|]; [|exact HP].
  cbn [fst]. apply Hc. exact HP.
Qed.

Lemma flush_rb_re_fst_inv (P : root -> Prop) rh :
  rh_keeps P rh -> forall rects sb, P (fst sb) -> P (fst (flush_rb_re rh rects sb)).
Proof.
  intros Hk. unfold flush_rb_re. induction rects as [|R rest IH]; intros sb HP; [exact HP|].
  cbn [fold_left]. apply IH. cbn [fst]. apply (do_expose_re_fst_inv P rh Hk). exact HP.
Qed.

Lemma re_handler_keeps (P : root -> Prop) cfg hnd racts :
  (forall s id, P s -> P (run_acts cfg (racts id) s)) -> rh_keeps P (re_handler cfg hnd racts).
Proof. intros H id r sb HP. unfold re_handler. cbn [fst]. apply H. exact HP. Qed.

Lemma run_acts_keeps (P : root -> Prop) cfg acts :
  (forall s a, In a acts -> P s -> P (run_act cfg s a)) -> forall s, P s -> P (run_acts cfg acts s).
Proof.
  unfold run_acts. induction acts as [|a rest IH]; intros H s HP; [exact HP|].
  cbn [fold_left]. apply IH.
  - intros s' a' Hin. apply H. right; exact Hin.
  - apply H; [left; reflexivity|exact HP].
Qed.

(* ------------------------------------------------------------------------------------ *)
(* scripted calls that leave the flags the traversal reads alone                         *)

(* the root state after the handlers named in a log have made their calls, in order *)
Definition acts_along (cfg : defects) (racts : Z -> list ract) (lg : list (Z * rect)) (s : root) : root :=
  fold_left (fun s e => run_acts cfg (racts (fst e)) s) lg s.

Lemma acts_along_app cfg racts l1 l2 s :
  acts_along cfg racts (l1 ++ l2) s = acts_along cfg racts l2 (acts_along cfg racts l1 s).
Proof. unfold acts_along. apply fold_left_app. Qed.

Lemma acts_along_keeps (P : root -> Prop) cfg racts :
  (forall s id, P s -> P (run_acts cfg (racts id) s)) ->
  forall lg s, P s -> P (acts_along cfg racts lg s).
Proof.
  intros H. unfold acts_along. induction lg as [|e lg IH]; intros s HP; [exact HP|].
  cbn [fold_left]. apply IH. apply H. exact HP.
Qed.

Lemma acts_along_none cfg lg s : acts_along cfg (fun _ => []) lg s = s.
Proof. unfold acts_along. induction lg as [|e lg IH]; [reflexivity|]. cbn [fold_left run_acts]. exact IH. Qed.

(* in every state P allows, every window of t has the visibility flag t says, and every entry
   of a child list of t is a child of that window *)
Definition vis_fixed (P : root -> Prop) (t : wtree) : Prop :=
  forall s, P s ->
    (forall c, subtree c t -> vis_now s (t_id c) = w_vis (t_info c)) /\
    (forall n c, subtree n t -> In c (t_kids n) -> child_now s (t_id n) (t_id c) = true).

Lemma vis_fixed_kid P i ch c : vis_fixed P (Node i ch) -> In c ch -> vis_fixed P c.
Proof.
  intros H Hc s Hs. destruct (H s Hs) as [H1 H2]. split.
  - intros c' Hc'. apply H1. eapply sub_kid; eassumption.
  - intros n c' Hn Hc'. apply H2; [|exact Hc']. eapply sub_kid; eassumption.
Qed.

Section static.
  Variables (cfg : defects) (hnd : handler) (racts : Z -> list ract) (P : root -> Prop).
  Hypothesis HP : forall s id, P s -> P (run_acts cfg (racts id) s).
  Let rh := re_handler cfg hnd racts.

  Definition static_at (t : wtree) : Prop :=
    vis_fixed P t -> forall r s b, P s ->
      do_expose_re rh t r (s, b) = (acts_along cfg racts (expose_log t r) s, do_expose hnd t r b) /\
      expose_log_re rh t r (s, b) = expose_log t r.

  Lemma kids_static pid r l :
    Forall static_at l ->
    (forall c, In c l -> vis_fixed P c) ->
    (forall s c, P s -> In c l -> child_now s pid (t_id c) = true) ->
    forall s b, P s ->
      expose_kids_re rh pid r l (s, b) = (acts_along cfg racts (log_kids r l) s, expose_kids hnd r l b) /\
      log_kids_re rh pid r l (s, b) = log_kids r l.
  Proof.
    induction 1 as [|c rest Hc _ IH]; intros Hvis Hkid s b Hs.
    - cbn [expose_kids_re log_kids_re log_kids expose_kids]. split; reflexivity.
    - assert (Hvis' : forall c0, In c0 rest -> vis_fixed P c0).
      { intros c0 Hin. apply Hvis. right; exact Hin. }
      assert (Hkid' : forall s0 c0, P s0 -> In c0 rest -> child_now s0 pid (t_id c0) = true).
      { intros s0 c0 H0 Hin. apply Hkid; [exact H0|right; exact Hin]. }
      assert (Hvc : vis_fixed P c) by (apply Hvis; left; reflexivity).
      cbn [expose_kids_re log_kids_re log_kids expose_kids fst snd].
      assert (Ek : child_now s pid (w_id (t_info c)) = true).
      { apply (Hkid s c Hs). left; reflexivity. }
      assert (Ev : vis_now s (w_id (t_info c)) = w_vis (t_info c)).
      { destruct (Hvc s Hs) as [H1 _]. apply (H1 c). constructor. }
      rewrite Ek, Ev. cbn [negb].
      destruct (negb (w_vis (t_info c))) eqn:Hv; [apply IH; assumption|].
      destruct (r_intersect r (w_rect (t_info c))) as [ex|] eqn:Hex.
      + destruct (Hc Hvc (r_translate ex (- top (w_rect (t_info c))) (- left (w_rect (t_info c)))) s
                     (rb_translate (rb_clip_to (rb_save b) ex) (top (w_rect (t_info c))) (left (w_rect (t_info c)))) Hs)
          as [E1 E2].
        rewrite E1, E2. cbn [fst snd].
        assert (Hs1 : P (acts_along cfg racts
                           (expose_log c (r_translate ex (- top (w_rect (t_info c))) (- left (w_rect (t_info c))))) s)).
        { apply (acts_along_keeps P cfg racts HP). exact Hs. }
        assert (Ek1 : child_now (acts_along cfg racts
                           (expose_log c (r_translate ex (- top (w_rect (t_info c))) (- left (w_rect (t_info c))))) s)
                                pid (w_id (t_info c)) = true).
        { apply (Hkid _ c Hs1). left; reflexivity. }
        rewrite Ek1.
        destruct (IH Hvis' Hkid' _ (rb_mask_rect (rb_restore (do_expose hnd c (r_translate ex (- top (w_rect (t_info c))) (- left (w_rect (t_info c))))
                       (rb_translate (rb_clip_to (rb_save b) ex) (top (w_rect (t_info c))) (left (w_rect (t_info c))))))
                       (w_rect (t_info c))) Hs1) as [E3 E4].
        rewrite E3, E4, acts_along_app. split; reflexivity.
      + cbn [fst snd]. rewrite Ek. apply IH; assumption.
  Qed.

  Lemma do_expose_re_static : forall t, static_at t.
  Proof.
    apply (wtree_ind2 static_at). intros i ch IH Hvis r s b Hs.
    rewrite do_expose_re_unfold, expose_log_re_unfold, do_expose_unfold, expose_log_unfold.
    destruct (kids_static (w_id i) r ch IH) with (s := s) (b := b) as [E1 E2].
    - intros c Hin. apply (vis_fixed_kid P i ch c Hvis Hin).
    - intros s0 c H0 Hin. destruct (Hvis s0 H0) as [_ H2].
      apply (H2 (Node i ch) c); [constructor|exact Hin].
    - exact Hs.
    - rewrite E1, E2. split; [|reflexivity].
      unfold rh, re_handler. cbn [fst snd]. rewrite acts_along_app. reflexivity.
  Qed.
End static.

(* the subtree relation and the id list of WinInputProofs.v are those of this development *)
Lemma subtree_sub n t : subtree n t -> WinInputProofs.sub n t.
Proof.
  induction 1 as [|i ch c Hin Hs IH]; [apply WinInputProofs.sub_refl|].
  apply (WinInputProofs.sub_kid n c (Node i ch)); [exact Hin|exact IH].
Qed.

Lemma sub_subtree n t : WinInputProofs.sub n t -> subtree n t.
Proof.
  induction 1 as [t|x k t Hk Hs IH]; [constructor|].
  destruct t as [i ch]. cbn [t_kids] in Hk. eapply sub_kid; eassumption.
Qed.

Lemma t_ids_conv t : WinInputProofs.t_ids t = t_ids t.
Proof. reflexivity. Qed.

(* a window of the tree is found in the tree, whatever the orphans *)
Lemma f_find_tree st c :
  NoDup (t_ids (r_tree st)) -> subtree c (r_tree st) -> f_find st (t_id c) = Some c.
Proof.
  intros Hnd Hc. unfold f_find, forest. cbn [first_some].
  rewrite (t_find_subtree c (r_tree st) Hc Hnd). reflexivity.
Qed.

Lemma f_parent_tree st n c :
  NoDup (t_ids (r_tree st)) -> subtree n (r_tree st) -> In c (t_kids n) ->
  f_parent st (t_id c) = Some (t_id n).
Proof.
  intros Hnd Hn Hc. unfold f_parent, forest. cbn [first_some].
  rewrite (WinInputProofs.t_parent_unique (r_tree st) n c Hnd (subtree_sub _ _ Hn) Hc). reflexivity.
Qed.

Lemma opt_is_refl x : opt_is (Some x) (Some x) = true.
Proof. cbn [opt_is]. apply Z.eqb_refl. Qed.

(* the tree of every allowed state is T0, whose ids are unique: flags and child lists are read
   off T0 *)
Lemma vis_fixed_sub T0 t :
  NoDup (t_ids T0) -> subtree t T0 -> vis_fixed (fun s => r_tree s = T0) t.
Proof.
  intros Hnd Ht s Hs. subst T0. split.
  - intros c Hc. unfold vis_now, node_now.
    rewrite (f_find_tree s c Hnd (subtree_trans _ _ _ Hc Ht)). reflexivity.
  - intros n c Hn Hc. unfold child_now.
    rewrite (f_parent_tree s n c Hnd (subtree_trans _ _ _ Hn Ht) Hc). apply opt_is_refl.
Qed.

Lemma vis_fixed_tree T0 : NoDup (t_ids T0) -> vis_fixed (fun s => r_tree s = T0) T0.
Proof. intros Hnd. apply vis_fixed_sub; [exact Hnd|constructor]. Qed.

Lemma flush_rb_re_static cfg hnd racts T0 :
  NoDup (t_ids T0) ->
  (forall s id, r_tree s = T0 -> r_tree (run_acts cfg (racts id) s) = T0) ->
  forall rects s b, r_tree s = T0 ->
    flush_rb_re (re_handler cfg hnd racts) rects (s, b) =
      (acts_along cfg racts (flush_log T0 rects) s, flush_rb hnd T0 rects b) /\
    flush_log_re (re_handler cfg hnd racts) rects (s, b) = flush_log T0 rects.
Proof.
  intros Hnd HP. unfold flush_rb_re, flush_rb, flush_log.
  induction rects as [|R rest IH]; intros s b Hs; [split; reflexivity|].
  cbn [fold_left flush_log_re flat_map fst snd].
  destruct (do_expose_re_static cfg hnd racts (fun s => r_tree s = T0) HP T0 (vis_fixed_tree T0 Hnd)
              R s (rb_clip_to (rb_save b) R) Hs) as [E1 E2].
  rewrite Hs, E1, E2. cbn [fst snd].
  assert (Hs1 : r_tree (acts_along cfg racts (expose_log T0 R) s) = T0).
  { apply (acts_along_keeps (fun s => r_tree s = T0) cfg racts HP). exact Hs. }
  destruct (IH _ (rb_restore (do_expose hnd T0 R (rb_clip_to (rb_save b) R))) Hs1) as [E3 E4].
  rewrite E3, E4, acts_along_app. split; reflexivity.
Qed.

(* ------------------------------------------------------------------------------------ *)
(* what the operations do to the tree                                                    *)

Lemma root_damage_tree st d : r_tree (root_damage st d) = r_tree st.
Proof.
  unfold root_damage. destruct (rs_contains (r_fuel st) (r_damage st) d) as [[|]|]; [reflexivity| |reflexivity].
  destruct (rs_add (r_fuel st) (r_damage st) d); reflexivity.
Qed.

Lemma win_expose_tree st id ex : r_tree (win_expose st id ex) = r_tree st.
Proof.
  unfold win_expose. destruct (t_chain id (r_tree st)) as [chain|]; [|reflexivity].
  destruct (expose_up chain ex); [apply root_damage_tree|reflexivity].
Qed.

Lemma win_restack_tree st k id : r_tree (win_restack st k id) = r_tree st.
Proof.
  unfold win_restack. destruct (t_parent_id id (r_tree st)); [|reflexivity].
  destruct (r_queue st); reflexivity.
Qed.

Lemma do_hchange_tree st k pid wid :
  r_tree (do_hchange st k pid wid) =
  match t_find wid (r_tree st) with
  | Some _ => t_upd_kids (apply_hchange k wid) pid (r_tree st)
  | None => r_tree st
  end.
Proof.
  unfold do_hchange. destruct (t_find wid (r_tree st)) as [w|]; [|reflexivity].
  destruct (w_vis (t_info w)); [rewrite win_expose_tree|]; reflexivity.
Qed.

Lemma do_hchange_ids st k pid wid :
  NoDup (t_ids (r_tree st)) -> NoDup (t_ids (r_tree (do_hchange st k pid wid))).
Proof.
  intros Hu. rewrite do_hchange_tree. destruct (t_find wid (r_tree st)) as [w|]; [|exact Hu].
  destruct (in_dec Z.eq_dec pid (t_ids (r_tree st))) as [Hin|Hnin].
  2:{ rewrite (upd_kids_notin _ _ _ Hnin). exact Hu. }
  destruct (t_find_some pid _ Hu Hin) as [n Hn].
  destruct (upd_kids_kc (apply_hchange k wid) pid _ n Hu Hn) as [D Hkc].
  destruct (kc_kids_nodup _ _ _ _ _ _ Hkc Hu) as [Hndk _].
  pose proof (hchange_perm k wid (t_kids n) Hndk) as Hperm.
  apply (kc_ids_incl _ _ _ _ _ _ Hkc Hu).
  - apply (Permutation_NoDup (l := flat_map t_ids (t_kids n))); [|exact Hndk].
    apply Permutation_sym. apply perm_ids. exact Hperm.
  - intros x Hx. apply (Permutation_in _ (perm_ids _ _ Hperm)). exact Hx.
Qed.

Lemma queue_fold_ids : forall q s, NoDup (t_ids (r_tree s)) -> NoDup (t_ids (r_tree (fold_left qstep q s))).
Proof.
  induction q as [|e q IH]; intros s Hu; [exact Hu|]. cbn [fold_left]. apply IH.
  destruct e as [[k p] w]. apply do_hchange_ids. exact Hu.
Qed.

Lemma after_queue_ids st : ids_unique (r_tree st) -> ids_unique (r_tree (after_queue st)).
Proof. intros Hu. rewrite after_queue_eq. apply queue_fold_ids. exact Hu. Qed.

(* ------------------------------------------------------------------------------------ *)
(* win_flush_re in terms of after_queue                                                  *)

(* the state the render loop starts from: the damage taken over, needs_expose lowered *)
Definition loop_start (st2 : root) : root :=
  set_flags (set_damage st2 []) false (r_nrest st2) (r_later st2).

Definition loop_result (cfg : defects) (rh : rhandler) (st2 : root) : root * rbuf :=
  flush_rb_re rh (flush_rects cfg st2)
              (loop_start st2, rb_new (lines (root_selfrect st2)) (cols (root_selfrect st2))).

Lemma win_flush_re_unfold cfg rh st tm :
  r_later st = true ->
  let st2 := after_queue st in
  win_flush_re cfg rh st tm =
  if r_nexp st2 then
    let sb := loop_result cfg rh st2 in
    (set_flags (set_flags (fst sb) (r_nexp (fst sb)) true (r_later (fst sb)))
               (r_nexp (fst sb)) false (r_later (fst sb)),
     do_restore (r_tree (fst sb)) (term_flush_rb (term_set_cvis tm false) (snd sb)),
     flush_log_re rh (flush_rects cfg st2)
                  (loop_start st2, rb_new (lines (root_selfrect st2)) (cols (root_selfrect st2))))
  else if r_nrest st2 then
    (set_flags st2 (r_nexp st2) false (r_later st2), do_restore (r_tree st2) tm, [])
  else (st2, tm, []).
Proof.
  intros Hl. unfold win_flush_re. rewrite Hl. cbn [negb]. fold (after_queue st). cbn zeta.
  destruct (r_nexp (after_queue st)) eqn:E; [reflexivity|].
  destruct (r_nrest (after_queue st)) eqn:E2; rewrite ?E; reflexivity.
Qed.

(* ------------------------------------------------------------------------------------ *)
(* Target 1: no scripted calls                                                           *)

Lemma do_expose_re_pure cfg hnd st t r b :
  ids_unique (r_tree st) -> subtree t (r_tree st) ->
  do_expose_re (re_handler cfg hnd (fun _ => [])) t r (st, b) = (st, do_expose hnd t r b).
Proof.
  intros Hu Hsub.
  destruct (do_expose_re_static cfg hnd (fun _ => []) (fun s => r_tree s = r_tree st)
              (fun s id H => H) t) with (r := r) (s := st) (b := b) as [E _].
  - apply vis_fixed_sub; assumption.
  - reflexivity.
  - rewrite E, acts_along_none. reflexivity.
Qed.

Lemma flush_rb_re_pure cfg hnd st rects b :
  ids_unique (r_tree st) ->
  flush_rb_re (re_handler cfg hnd (fun _ => [])) rects (st, b) = (st, flush_rb hnd (r_tree st) rects b) /\
  flush_log_re (re_handler cfg hnd (fun _ => [])) rects (st, b) = flush_log (r_tree st) rects.
Proof.
  intros Hu.
  destruct (flush_rb_re_static cfg hnd (fun _ => []) (r_tree st) Hu (fun s id H => H) rects st b eq_refl)
    as [E1 E2].
  rewrite E1, E2, acts_along_none. split; reflexivity.
Qed.

Theorem flush_re_pure cfg hnd st tm :
  ids_unique (r_tree st) ->
  win_flush_re cfg (re_handler cfg hnd (fun _ => [])) st tm = win_flush cfg hnd st tm.
Proof.
  intros Hu. destruct (r_later st) eqn:Hl.
  2:{ unfold win_flush_re, win_flush. rewrite Hl. reflexivity. }
  rewrite (win_flush_re_unfold cfg _ st tm Hl), (win_flush_unfold cfg hnd st tm Hl). cbn zeta.
  destruct (r_nexp (after_queue st)) eqn:En; [|reflexivity].
  unfold loop_result.
  assert (Hu2 : ids_unique (r_tree (loop_start (after_queue st)))) by (apply after_queue_ids; exact Hu).
  destruct (flush_rb_re_pure cfg hnd (loop_start (after_queue st)) (flush_rects cfg (after_queue st))
              (rb_new (lines (root_selfrect (after_queue st))) (cols (root_selfrect (after_queue st)))) Hu2)
    as [E1 E2].
  rewrite E1, E2. cbn [fst snd]. reflexivity.
Qed.

(* the expose log is the old one too (it is the third component of the result) *)
Corollary flush_log_re_pure cfg hnd st rects b :
  ids_unique (r_tree st) ->
  flush_log_re (re_handler cfg hnd (fun _ => [])) rects (st, b) = flush_log (r_tree st) rects.
Proof. intros Hu. apply (flush_rb_re_pure cfg hnd st rects b Hu). Qed.

Theorem step_re_noacts cfg progs o m :
  ids_unique (r_tree (m_root m)) -> step_re cfg progs (fun _ => []) o m = step cfg progs o m.
Proof.
  intros Hu. destruct o; try reflexivity.
  cbn [step_re step]. rewrite flush_re_pure by exact Hu. reflexivity.
Qed.
