(* LoopChain.v -- the walks of /repo/src/tickit.c that run callbacks while they follow a chain of
   watches, at heap level and as snapshot specification (definitions only):

     tickit_evloop_invoke_sigwatches   over t->signals    (mode = signal chain)
     on_sigchld, process_notify        over t->processes  (mode = process chain), with
     tickit_watch_process (the child may have exited already: waitpid at registration),
     invoke_watch's removal of a process watch after its callback, tickit_watch_cancel on the
     chain (it moves the walk's cursor off the watch it frees), destroy_watchlist.

   HEAP LEVEL (hst): nodes at addresses (= registration numbers; never reused), Live / Freed
   cells; every access the C makes to a node is a checked read (None = Fault); the chain is the
   sequence of addresses reachable from the list head; the cursor (t->next_sigwatch /
   t->next_procwatch) is an address; the harness's table of live watches is part of the state.
   LIST LEVEL (lst): the specification -- no addresses, no cursor: a walk takes the SNAPSHOT of
   the identities in the chain and visits each one that is still in the chain at its turn.
   waitpid is an oracle: [exits] is the table of children that have exited and not been reaped
   (filled by the script, KExit); a successful waitpid reaps.
   The callbacks are environments: what callback cb does when invoked (registrations and
   cancellations on the chain).  LoopChainProofs.v: the heap level never faults, frees everything
   and logs what the specification logs; a process watch fires at most once, with the status
   the oracle reported. *)
From Coq Require Import ZArith List Bool.
From Tickit Require Import LoopDefs LoopSpec.
Import ListNotations.
Local Open Scope Z_scope.

(* a watch of the chain: c_key = signal number / child; c_ex, c_st = "the child had exited when the
   watch was registered" and its wait status (process watches only) *)
Record cw := mkCw { c_id : Z; c_key : Z; c_ex : bool; c_st : Z; c_unbind : bool; c_destroy : bool; c_cb : Z }.

Inductive cact :=
| CReg (first : bool) (key : Z) (ub ds : bool) (cb : Z)    (* tickit_watch_signal(key) / tickit_watch_process (of the child
                                                              that carries the watch's own number) *)
| CCancel (id : Z)                                         (* tickit_watch_cancel, if the harness believes it live *)
| CNop.

Inductive cop :=
| KAct (a : cact)
| KWalk (arg : Z)            (* signal chain: dispatch of signal arg; process chain: on_sigchld *)
| KExit (key st : Z)         (* the child exits with wait status st *)
| KTick.                     (* one iteration: the deferred process_notify callbacks run *)

(* the oracle: waitpid(pid, &st, WNOHANG) *)
Fixpoint reap (key : Z) (l : list (Z * Z)) : option (Z * list (Z * Z)) :=
  match l with
  | [] => None
  | (k, v) :: t => if k =? key then Some (v, t)
                   else match reap key t with Some (st, t') => Some (st, (k, v) :: t') | None => None end
  end.

Fixpoint cfind (id : Z) (l : list cw) : option cw :=
  match l with [] => None | h :: t => if c_id h =? id then Some h else cfind id t end.
Fixpoint cremove (id : Z) (l : list cw) : list cw :=
  match l with [] => [] | h :: t => if c_id h =? id then t else h :: cremove id t end.

Definition ckind (proc : bool) : kind := if proc then KProc else KSig.

(* ------------------------------------------------------------------ the specification *)

Record lst := mkL {
  l_chain : list cw; l_exits : list (Z * Z); l_sched : nat (* process_notify callbacks scheduled *);
  l_next : Z; l_iter : Z; l_log : list obs }.
Definition lst0 : lst := mkL [] [] O 0 0 [].

Definition lemit (proc : bool) (s : lst) (w : cw) (flags x : Z) : lst :=
  mkL (l_chain s) (l_exits s) (l_sched s) (l_next s) (l_iter s)
      (OEv (mkE (c_id w) (ckind proc) flags (l_iter s) 0 x) :: l_log s).

(* what the harness prints as x outside FIRE: the signal number for signal watches, 0 for process watches *)
Definition idle_x (proc : bool) (w : cw) : Z := if proc then 0 else c_key w.

Section WithEnv.
Variable proc : bool.                 (* false: the signal chain; true: the process chain *)
Variable env : Z -> list cact.

Definition l_action (s : lst) (a : cact) : lst :=
  match a with
  | CReg first key ub ds cb =>
      let '(ex, st, exits, sched) :=
        (if proc then match reap (l_next s) (l_exits s) with
                      | Some (st, e') => (true, st, e', S (l_sched s))
                      | None => (false, 0, l_exits s, l_sched s)
                      end
         else (false, 0, l_exits s, l_sched s)) in
      let w := mkCw (l_next s) (if proc then l_next s else key) ex st ub ds cb in
      mkL (if first then w :: l_chain s else l_chain s ++ [w]) exits sched (l_next s + 1) (l_iter s) (l_log s)
  | CCancel id =>
      match cfind id (l_chain s) with
      | Some w =>
          let s1 := mkL (cremove id (l_chain s)) (l_exits s) (l_sched s) (l_next s) (l_iter s) (l_log s) in
          if c_unbind w then lemit proc s1 w EV_UNBIND (idle_x proc w) else s1
      | None => s
      end
  | CNop => s
  end.
Definition l_actions (s : lst) (l : list cact) : lst := fold_left l_action l s.

(* which walk: the dispatch of a signal, on_sigchld (waitpid), process_notify (the watches
   registered after their child's exit); a walk passes over the watches registered while it is
   under way (born during it: number not below bound, the counter when the walk began) *)
Inductive wkind := WSig (sig : Z) (bound : Z) | WChild (bound : Z) | WNotify (bound : Z).

(* does the walk invoke w, with which x; the oracle's table afterwards *)
Definition ltest (k : wkind) (exits : list (Z * Z)) (w : cw) : option (Z * list (Z * Z)) :=
  match k with
  | WSig sig bound => if (c_key w =? sig) && (c_id w <? bound) then Some (sig, exits) else None
  | WChild bound => if c_ex w || negb (c_id w <? bound) then None else reap (c_key w) exits
  | WNotify bound => if c_ex w && (c_id w <? bound) then Some (c_st w, exits) else None
  end.

Fixpoint l_walk (k : wkind) (ids : list Z) (s : lst) : lst :=
  match ids with
  | [] => s
  | i :: r =>
      match cfind i (l_chain s) with
      | None => l_walk k r s                      (* cancelled before its turn *)
      | Some w =>
          match ltest k (l_exits s) w with
          | None => l_walk k r s
          | Some (x, ex') =>
              let s1 := lemit proc (mkL (l_chain s) ex' (l_sched s) (l_next s) (l_iter s) (l_log s)) w EV_FIRE x in
              let s2 := l_actions s1 (env (c_cb w)) in
              (* a process watch is gone once its callback has returned *)
              let s3 := if proc then mkL (cremove i (l_chain s2)) (l_exits s2) (l_sched s2) (l_next s2) (l_iter s2) (l_log s2) else s2 in
              l_walk k r s3
          end
      end
  end.

Definition l_dispatch (k : wkind) (s : lst) : lst := l_walk k (map c_id (l_chain s)) s.

Fixpoint l_notifies (n : nat) (s : lst) : lst :=
  match n with O => s | S n' => l_notifies n' (l_dispatch (WNotify (l_next s)) s) end.

Definition l_op (s : lst) (o : cop) : lst :=
  match o with
  | KAct a => l_action s a
  | KWalk arg => if proc then l_dispatch (WChild (l_next s)) s else l_dispatch (WSig arg (l_next s)) s
  | KExit key st => mkL (l_chain s) (l_exits s ++ [(key, st)]) (l_sched s) (l_next s) (l_iter s) (l_log s)
  | KTick =>
      let s1 := mkL (l_chain s) (l_exits s) O (l_next s) (l_iter s + 1) (OPoll 0 :: l_log s) in
      l_notifies (l_sched s) s1
  end.

Definition l_destroy (s : lst) : lst :=
  let s0 := mkL (l_chain s) (l_exits s) (l_sched s) (l_next s) (-1) (l_log s) in
  fold_left (fun s w => if c_unbind w || c_destroy w then lemit proc s w (EV_UNBIND + EV_DESTROY) (idle_x proc w) else s) (l_chain s0) s0.

Definition l_run (ops : list cop) : list obs := rev (l_log (l_destroy (fold_left l_op ops lst0))).

(* the oracle for these cases: log equality, the destruction part as a bag *)
Definition l_checkb (ops : list cop) (o : list obs) : bool :=
  let sp := l_run ops in
  list_eqb obs_eqb (filter (fun x => negb (in_destroy x)) sp) (filter (fun x => negb (in_destroy x)) o) &&
  list_eqb (fun a b => Bool.eqb (in_destroy a) (in_destroy b)) sp o &&
  bag_eqb (filter in_destroy sp) (filter in_destroy o).

(* ------------------------------------------------------------------ the heap level *)

Inductive ccell := CLive (w : cw) | CFreed.

Record hcs := mkHc {
  c_hp : list ccell; c_chain : list Z; c_cursor : option Z; c_live : list Z;
  c_exits : list (Z * Z); c_sched : nat; c_iter : Z; c_log : list obs }.
Definition hcs0 : hcs := mkHc [] [] None [] [] O 0 [].

Definition crd (h : hcs) (a : Z) : option cw :=
  if a <? 0 then None else match nth_error (c_hp h) (Z.to_nat a) with Some (CLive w) => Some w | _ => None end.

Fixpoint cupd {A} (l : list A) (i : nat) (v : A) : list A :=
  match l, i with [], _ => [] | _ :: t, O => v :: t | x :: t, S i' => x :: cupd t i' v end.

Definition cfree (h : hcs) (a : Z) : option hcs :=
  match crd h a with
  | Some _ => Some (mkHc (cupd (c_hp h) (Z.to_nat a) CFreed) (c_chain h) (c_cursor h) (c_live h) (c_exits h) (c_sched h) (c_iter h) (c_log h))
  | None => None
  end.

Definition zin (x : Z) (l : list Z) : bool := existsb (Z.eqb x) l.
Definition zrem (x : Z) (l : list Z) : list Z := filter (fun y => negb (y =? x)) l.

Definition hcemit (h : hcs) (w : cw) (flags x : Z) : hcs :=
  let lv := if Z.testbit flags 1 || Z.testbit flags 2 then zrem (c_id w) (c_live h) else c_live h in
  mkHc (c_hp h) (c_chain h) (c_cursor h) lv (c_exits h) (c_sched h) (c_iter h)
       (OEv (mkE (c_id w) (ckind proc) flags (c_iter h) 0 x) :: c_log h).

Definition call_live (h : hcs) (q : list Z) : bool :=
  forallb (fun a => match crd h a with Some _ => true | None => false end) q.

(* the successor of a in the chain: a->next *)
Fixpoint succ_of (a : Z) (q : list Z) : option Z :=
  match q with
  | [] => None
  | b :: t => if b =? a then match t with [] => None | n :: _ => Some n end else succ_of a t
  end.

(* cancel_watch_in / invoke_watch's search: every node up to and including the one sought is read *)
Fixpoint c_unlink (h : hcs) (a : Z) (q : list Z) : option (option (list Z)) :=
  match q with
  | [] => Some None
  | b :: t =>
      match crd h b with
      | None => None
      | Some _ =>
          if b =? a then Some (Some t)
          else match c_unlink h a t with
               | Some (Some t') => Some (Some (b :: t'))
               | Some None => Some None
               | None => None
               end
      end
  end.

Definition h_reg (h : hcs) (first : bool) (key : Z) (ub ds : bool) (cb : Z) : option hcs :=
  let a := Z.of_nat (length (c_hp h)) in
  let '(ex, st, exits, sched) :=
    (if proc then match reap a (c_exits h) with
                  | Some (st, e') => (true, st, e', S (c_sched h))
                  | None => (false, 0, c_exits h, c_sched h)
                  end
     else (false, 0, c_exits h, c_sched h)) in
  let w := mkCw a (if proc then a else key) ex st ub ds cb in
  (* insert_watch: at the front, or after walking to the end *)
  if first then Some (mkHc (c_hp h ++ [CLive w]) (a :: c_chain h) (c_cursor h) (a :: c_live h) exits sched (c_iter h) (c_log h))
  else if call_live h (c_chain h)
       then Some (mkHc (c_hp h ++ [CLive w]) (c_chain h ++ [a]) (c_cursor h) (a :: c_live h) exits sched (c_iter h) (c_log h))
       else None.

(* tickit_watch_cancel: watch->type; cancel_watch_in: unlink, move the cursor, this->flags, the
   UNBIND notification, this->type, free *)
Definition h_ccancel (h : hcs) (a : Z) : option hcs :=
  match crd h a with
  | None => None
  | Some w =>
      match c_unlink h a (c_chain h) with
      | None => None
      | Some None => Some h
      | Some (Some q) =>
          let cur := match c_cursor h with Some cu => if cu =? a then succ_of a (c_chain h) else c_cursor h | None => None end in
          let h1 := mkHc (c_hp h) q cur (c_live h) (c_exits h) (c_sched h) (c_iter h) (c_log h) in
          let h2 := if c_unbind w then hcemit h1 w EV_UNBIND (idle_x proc w) else h1 in
          match crd h2 a with None => None | Some _ => cfree h2 a end
      end
  end.

Definition h_caction (h : hcs) (a : cact) : option hcs :=
  match a with
  | CReg first key ub ds cb => h_reg h first key ub ds cb
  | CCancel id =>
      if zin id (c_live h)
      then h_ccancel (mkHc (c_hp h) (c_chain h) (c_cursor h) (zrem id (c_live h)) (c_exits h) (c_sched h) (c_iter h) (c_log h)) id
      else Some h
  | CNop => Some h
  end.
Definition h_cactions (h : hcs) (l : list cact) : option hcs :=
  fold_left (fun oh a => match oh with Some h => h_caction h a | None => None end) l (Some h).

(* for(this = head; this; this = t->cursor) { t->cursor = this->next; if(test) { call; [remove] } } *)
Fixpoint h_walk (fuel : nat) (k : wkind) (this : option Z) (h : hcs) : option hcs :=
  match fuel with
  | O => None
  | S f =>
      match this with
      | None => Some h
      | Some a =>
          match crd h a with
          | None => None                      (* this->next, this->signum ... of a freed watch *)
          | Some w =>
              let h1 := mkHc (c_hp h) (c_chain h) (succ_of a (c_chain h)) (c_live h) (c_exits h) (c_sched h) (c_iter h) (c_log h) in
              match ltest k (c_exits h1) w with
              | None => h_walk f k (c_cursor h1) h1
              | Some (x, ex') =>
                  let h2 := hcemit (mkHc (c_hp h1) (c_chain h1) (c_cursor h1) (c_live h1) ex' (c_sched h1) (c_iter h1) (c_log h1)) w EV_FIRE x in
                  match h_cactions h2 (env (c_cb w)) with
                  | None => None
                  | Some h3 =>
                      if proc then
                        (* invoke_watch: look for the watch in t->processes; unlink and free it if it is still there;
                           the harness forgets it *)
                        let h3' := mkHc (c_hp h3) (c_chain h3) (c_cursor h3) (zrem a (c_live h3)) (c_exits h3) (c_sched h3) (c_iter h3) (c_log h3) in
                        match c_unlink h3' a (c_chain h3') with
                        | None => None
                        | Some None => h_walk f k (c_cursor h3') h3'
                        | Some (Some q) =>
                            match cfree (mkHc (c_hp h3') q (c_cursor h3') (c_live h3') (c_exits h3') (c_sched h3') (c_iter h3') (c_log h3')) a with
                            | None => None
                            | Some h4 => h_walk f k (c_cursor h4) h4
                            end
                        end
                      else h_walk f k (c_cursor h3) h3
                  end
              end
          end
      end
  end.

Definition chead (q : list Z) : option Z := match q with [] => None | a :: _ => Some a end.
Definition h_dispatch (fuel : nat) (k : wkind) (h : hcs) : option hcs := h_walk fuel k (chead (c_chain h)) h.

Fixpoint h_notifies (fuel : nat) (n : nat) (h : hcs) : option hcs :=
  match n with
  | O => Some h
  | S n' => match h_dispatch fuel (WNotify (Z.of_nat (length (c_hp h)))) h with Some h' => h_notifies fuel n' h' | None => None end
  end.

Definition h_cop (fuel : nat) (oh : option hcs) (o : cop) : option hcs :=
  match oh with
  | None => None
  | Some h =>
      match o with
      | KAct a => h_caction h a
      | KWalk arg => if proc then h_dispatch fuel (WChild (Z.of_nat (length (c_hp h)))) h
                     else h_dispatch fuel (WSig arg (Z.of_nat (length (c_hp h)))) h
      | KExit key st => Some (mkHc (c_hp h) (c_chain h) (c_cursor h) (c_live h) (c_exits h ++ [(key, st)]) (c_sched h) (c_iter h) (c_log h))
      | KTick =>
          h_notifies fuel (c_sched h)
            (mkHc (c_hp h) (c_chain h) (c_cursor h) (c_live h) (c_exits h) O (c_iter h + 1) (OPoll 0 :: c_log h))
      end
  end.

(* destroy_watchlist *)
Definition h_cdestroy (h : hcs) : option hcs :=
  let h0 := mkHc (c_hp h) (c_chain h) (c_cursor h) (c_live h) (c_exits h) (c_sched h) (-1) (c_log h) in
  match fold_left (fun oh a =>
          match oh with
          | None => None
          | Some h =>
              match crd h a with
              | None => None
              | Some w => cfree (if c_unbind w || c_destroy w then hcemit h w (EV_UNBIND + EV_DESTROY) (idle_x proc w) else h) a
              end
          end) (c_chain h0) (Some h0) with
  | Some h' => Some (mkHc (c_hp h') [] (c_cursor h') (c_live h') (c_exits h') (c_sched h') (c_iter h') (c_log h'))
  | None => None
  end.

Definition c_no_live (h : hcs) : bool := forallb (fun c => match c with CFreed => true | CLive _ => false end) (c_hp h).

Definition h_crun (fuel : nat) (ops : list cop) : option (list obs * bool) :=
  match fold_left (h_cop fuel) ops (Some hcs0) with
  | None => None
  | Some h => match h_cdestroy h with
              | None => None
              | Some h' => Some (rev (c_log h'), c_no_live h')
              end
  end.

End WithEnv.
