(* WinLogDisjoint.v -- the expose events of one flush never hand the same window two
   overlapping rectangles: if the window ids of the tree are unique and the damage
   rectangles the flush works through are pairwise disjoint, then any two entries of the
   flush log (at different positions) that name the same window carry disjoint rectangles
   (flush_log_disjoint). *)
From Coq Require Import ZArith List Bool Lia ZifyBool.
From Tickit Require Import RectDefs RectProofs WinRectSet WinDefs WinExposeProofs WinFlushProofs.
Import ListNotations.
Local Open Scope Z_scope.

Fixpoint t_ids (t : wtree) : list Z := match t with Node i ch => w_id i :: flat_map t_ids ch end.
Definition ids_unique (t : wtree) : Prop := NoDup (t_ids t).

(* ------------------------------------------------------------------------------------ *)
(* lists                                                                                 *)

Lemma nodup_app_intro {A} (l1 l2 : list A) :
  NoDup l1 -> NoDup l2 -> (forall x, In x l1 -> In x l2 -> False) -> NoDup (l1 ++ l2).
Proof.
  induction l1 as [|a l1 IH]; intros H1 H2 Hx; cbn [app]; [exact H2|].
  inversion H1 as [|? ? Hna Hnd]; subst. constructor.
  - intros Hin. apply in_app_or in Hin. destruct Hin as [Hin|Hin]; [exact (Hna Hin)|].
    apply (Hx a); [left; reflexivity|exact Hin].
  - apply IH; [exact Hnd|exact H2|]. intros x Hx1 Hx2. apply (Hx x); [right; exact Hx1|exact Hx2].
Qed.

Lemma nodup_app_inv {A} (l1 l2 : list A) :
  NoDup (l1 ++ l2) -> NoDup l1 /\ NoDup l2 /\ forall x, In x l1 -> In x l2 -> False.
Proof.
  induction l1 as [|a l1 IH]; cbn [app]; intros H.
  - split; [constructor|]. split; [exact H|]. intros x [].
  - inversion H as [|? ? Hna Hnd]; subst. destruct (IH Hnd) as (H1 & H2 & Hx).
    split; [|split; [exact H2|]].
    + constructor; [|exact H1]. intros Hin. apply Hna. apply in_or_app. left; exact Hin.
    + intros x [<-|Hin] Hin2.
      * apply Hna. apply in_or_app. right; exact Hin2.
      * exact (Hx x Hin Hin2).
Qed.

Lemma fop_app {A} (R : A -> A -> Prop) (l1 l2 : list A) :
  ForallOrdPairs R l1 -> ForallOrdPairs R l2 ->
  (forall a b, In a l1 -> In b l2 -> R a b) -> ForallOrdPairs R (l1 ++ l2).
Proof.
  induction 1 as [|a l1 Ha _ IH]; intros H2 Hx; cbn [app]; [exact H2|].
  constructor.
  - apply Forall_app. split; [exact Ha|]. apply Forall_forall. intros b Hb.
    apply Hx; [left; reflexivity|exact Hb].
  - apply IH; [exact H2|]. intros x y Hx1 Hy. apply Hx; [right; exact Hx1|exact Hy].
Qed.

Lemma fop_nth_lt {A} (R : A -> A -> Prop) (l : list A) :
  ForallOrdPairs R l -> forall i j a b, (i < j)%nat ->
  nth_error l i = Some a -> nth_error l j = Some b -> R a b.
Proof.
  induction 1 as [|x l Hx _ IH]; intros i j a b Hlt Hi Hj.
  - destruct i; discriminate.
  - destruct j as [|j]; [lia|]. cbn [nth_error] in Hj. destruct i as [|i]; cbn [nth_error] in Hi.
    + injection Hi as <-. rewrite Forall_forall in Hx. apply Hx. eapply nth_error_In; exact Hj.
    + apply (IH i j); [lia|exact Hi|exact Hj].
Qed.

(* a symmetric relation that holds for all ordered pairs holds for all pairs of entries at
   different positions *)
Lemma fop_nth_neq {A} (R : A -> A -> Prop) (l : list A) :
  (forall a b, R a b -> R b a) -> ForallOrdPairs R l ->
  forall i j a b, i <> j -> nth_error l i = Some a -> nth_error l j = Some b -> R a b.
Proof.
  intros Hsym Hfop i j a b Hne Hi Hj.
  destruct (Nat.lt_ge_cases i j) as [Hlt|Hge].
  - exact (fop_nth_lt R l Hfop i j a b Hlt Hi Hj).
  - apply Hsym. apply (fop_nth_lt R l Hfop j i b a); [lia|exact Hj|exact Hi].
Qed.

(* the pairs of a flat_map: inside one block, and across the blocks of two positions *)
Lemma fop_flat_map {A B} (R : B -> B -> Prop) (Q : A -> A -> Prop) (f : A -> list B) (l : list A) :
  (forall x, In x l -> ForallOrdPairs R (f x)) ->
  (forall x y a b, Q x y -> In a (f x) -> In b (f y) -> R a b) ->
  ForallOrdPairs Q l -> ForallOrdPairs R (flat_map f l).
Proof.
  intros Hblk Hx Hfop. induction Hfop as [|x l Hxl _ IH]; cbn [flat_map]; [constructor|].
  apply fop_app.
  - apply Hblk. left; reflexivity.
  - apply IH. intros y Hy. apply Hblk. right; exact Hy.
  - intros a b Ha Hb. apply in_flat_map in Hb. destruct Hb as (y & Hy & Hb).
    rewrite Forall_forall in Hxl. exact (Hx x y a b (Hxl y Hy) Ha Hb).
Qed.

Lemma pairwise_disjoint_fop (s : list rect) : pairwise_disjoint s -> ForallOrdPairs disjoint2 s.
Proof.
  induction s as [|r rest IH]; cbn [pairwise_disjoint]; intros H; [constructor|].
  destruct H as [Hr Hrest]. constructor; [exact Hr|exact (IH Hrest)].
Qed.

(* ------------------------------------------------------------------------------------ *)
(* rectangles                                                                            *)

Lemma disjoint2_sym a b : disjoint2 a b -> disjoint2 b a.
Proof. intros H p [Hb Ha]. exact (H p (conj Ha Hb)). Qed.

(* the parts of two disjoint rectangles inside the same child, in the child's coordinates *)
Lemma child_parts_disjoint R1 R2 k ex1 ex2 dt dl :
  disjoint2 R1 R2 -> r_intersect R1 k = Some ex1 -> r_intersect R2 k = Some ex2 ->
  disjoint2 (r_translate ex1 dt dl) (r_translate ex2 dt dl).
Proof.
  intros Hd H1 H2 p [Hp1 Hp2].
  apply intersect_some in H1. destruct H1 as [_ H1].
  apply intersect_some in H2. destruct H2 as [_ H2].
  assert (Hq1 : cell_in ex1 (fst p - dt, snd p - dl)).
  { unfold cell_in, r_translate, bottom, right in *; cbn [top left lines cols fst snd] in *. lia. }
  assert (Hq2 : cell_in ex2 (fst p - dt, snd p - dl)).
  { unfold cell_in, r_translate, bottom, right in *; cbn [top left lines cols fst snd] in *. lia. }
  apply H1 in Hq1. apply H2 in Hq2. destruct Hq1 as [Hq1 _]. destruct Hq2 as [Hq2 _].
  exact (Hd _ (conj Hq1 Hq2)).
Qed.

(* ------------------------------------------------------------------------------------ *)
(* the ids named in a log are ids of the tree                                            *)

(* an entry of the kids' part either comes from the first child or from the later ones *)
Lemma log_kids_cons_inv R c rest e :
  In e (log_kids R (c :: rest)) ->
  (exists ex, r_intersect R (w_rect (t_info c)) = Some ex /\
              In e (expose_log c (r_translate ex (- top (w_rect (t_info c))) (- left (w_rect (t_info c)))))) \/
  In e (log_kids R rest).
Proof.
  cbn [log_kids]. intros Hin.
  destruct (negb (w_vis (t_info c))) eqn:Hv; [right; exact Hin|].
  destruct (r_intersect R (w_rect (t_info c))) as [ex|] eqn:Hex; [|right; exact Hin].
  apply in_app_or in Hin. destruct Hin as [Hin|Hin]; [left|right; exact Hin].
  exists ex. split; [reflexivity|exact Hin].
Qed.

Lemma log_kids_ids_aux l :
  Forall (fun c => forall R id r, In (id, r) (expose_log c R) -> In id (t_ids c)) l ->
  forall R id r, In (id, r) (log_kids R l) -> In id (flat_map t_ids l).
Proof.
  induction 1 as [|c rest Hc _ IH]; intros R id r Hin.
  - cbn [log_kids] in Hin. contradiction.
  - cbn [flat_map]. apply in_or_app. apply log_kids_cons_inv in Hin.
    destruct Hin as [(ex & _ & Hin)|Hin].
    + left. eapply Hc; exact Hin.
    + right. eapply IH; exact Hin.
Qed.

Lemma log_ids : forall t R id r, In (id, r) (expose_log t R) -> In id (t_ids t).
Proof.
  apply (wtree_ind2 (fun t => forall R id r, In (id, r) (expose_log t R) -> In id (t_ids t))).
  intros i ch Hch R id r Hin. rewrite expose_log_unfold in Hin. cbn [t_ids].
  apply in_app_or in Hin. destruct Hin as [Hin|Hin].
  - right. eapply log_kids_ids_aux; [exact Hch|exact Hin].
  - destruct Hin as [Heq|[]]. injection Heq as Hid _. left; exact Hid.
Qed.

Lemma log_kids_ids l R id r : In (id, r) (log_kids R l) -> In id (flat_map t_ids l).
Proof.
  apply log_kids_ids_aux. apply Forall_forall. intros c _. apply log_ids.
Qed.

(* ------------------------------------------------------------------------------------ *)
(* one exposed rectangle: every window is named at most once                             *)

Lemma log_kids_nodup l :
  Forall (fun c => ids_unique c -> forall R, NoDup (map fst (expose_log c R))) l ->
  NoDup (flat_map t_ids l) -> forall R, NoDup (map fst (log_kids R l)).
Proof.
  induction 1 as [|c rest Hc _ IH]; intros Hnd R; cbn [log_kids]; [constructor|].
  cbn [flat_map] in Hnd. apply nodup_app_inv in Hnd. destruct Hnd as (Hndc & Hndr & Hx).
  destruct (negb (w_vis (t_info c))) eqn:Hv; [exact (IH Hndr R)|].
  destruct (r_intersect R (w_rect (t_info c))) as [ex|] eqn:Hex; [|exact (IH Hndr R)].
  rewrite map_app. apply nodup_app_intro; [exact (Hc Hndc _)|exact (IH Hndr R)|].
  intros id H1 H2. apply in_map_iff in H1. destruct H1 as ([id1 r1] & E1 & H1).
  apply in_map_iff in H2. destruct H2 as ([id2 r2] & E2 & H2).
  cbn [fst] in E1, E2. subst id1 id2.
  apply (Hx id); [exact (log_ids _ _ _ _ H1)|exact (log_kids_ids _ _ _ _ H2)].
Qed.

Lemma expose_log_nodup : forall t, ids_unique t -> forall R, NoDup (map fst (expose_log t R)).
Proof.
  apply (wtree_ind2 (fun t => ids_unique t -> forall R, NoDup (map fst (expose_log t R)))).
  intros i ch Hch Hu R. unfold ids_unique in Hu. cbn [t_ids] in Hu.
  inversion Hu as [|? ? Hni Hnd]; subst.
  rewrite expose_log_unfold, map_app. apply nodup_app_intro.
  - exact (log_kids_nodup ch Hch Hnd R).
  - cbn [map fst]. constructor; [intros []|constructor].
  - intros id H1 H2. cbn [map fst] in H2. destruct H2 as [<-|[]].
    apply in_map_iff in H1. destruct H1 as ([id1 r1] & E1 & H1). cbn [fst] in E1. subst id1.
    apply Hni. exact (log_kids_ids _ _ _ _ H1).
Qed.

(* ------------------------------------------------------------------------------------ *)
(* two disjoint exposed rectangles: what one window gets from each is disjoint            *)

Definition log_sep (t : wtree) : Prop :=
  ids_unique t -> forall R1 R2 id r1 r2, disjoint2 R1 R2 ->
    In (id, r1) (expose_log t R1) -> In (id, r2) (expose_log t R2) -> disjoint2 r1 r2.

Lemma log_kids_sep l :
  Forall log_sep l -> NoDup (flat_map t_ids l) ->
  forall R1 R2 id r1 r2, disjoint2 R1 R2 ->
    In (id, r1) (log_kids R1 l) -> In (id, r2) (log_kids R2 l) -> disjoint2 r1 r2.
Proof.
  induction 1 as [|c rest Hc _ IH]; intros Hnd R1 R2 id r1 r2 Hd H1 H2.
  - cbn [log_kids] in H1. contradiction.
  - cbn [flat_map] in Hnd. apply nodup_app_inv in Hnd. destruct Hnd as (Hndc & Hndr & Hx).
    apply log_kids_cons_inv in H1. apply log_kids_cons_inv in H2.
    destruct H1 as [(ex1 & Hex1 & H1)|H1]; destruct H2 as [(ex2 & Hex2 & H2)|H2].
    + apply (Hc Hndc _ _ id r1 r2 (child_parts_disjoint R1 R2 _ ex1 ex2 _ _ Hd Hex1 Hex2) H1 H2).
    + exfalso. apply (Hx id); [exact (log_ids _ _ _ _ H1)|exact (log_kids_ids _ _ _ _ H2)].
    + exfalso. apply (Hx id); [exact (log_ids _ _ _ _ H2)|exact (log_kids_ids _ _ _ _ H1)].
    + exact (IH Hndr R1 R2 id r1 r2 Hd H1 H2).
Qed.

Lemma expose_log_sep : forall t, log_sep t.
Proof.
  apply (wtree_ind2 log_sep).
  intros i ch Hch Hu R1 R2 id r1 r2 Hd H1 H2. unfold ids_unique in Hu. cbn [t_ids] in Hu.
  inversion Hu as [|? ? Hni Hnd]; subst.
  rewrite expose_log_unfold in H1, H2.
  apply in_app_or in H1. apply in_app_or in H2.
  destruct H1 as [H1|[E1|[]]]; destruct H2 as [H2|[E2|[]]].
  - exact (log_kids_sep ch Hch Hnd R1 R2 id r1 r2 Hd H1 H2).
  - exfalso. injection E2 as Hid _. subst id. apply Hni. exact (log_kids_ids _ _ _ _ H1).
  - exfalso. injection E1 as Hid _. subst id. apply Hni. exact (log_kids_ids _ _ _ _ H2).
  - injection E1 as _ Hr1. injection E2 as _ Hr2. subst r1 r2. exact Hd.
Qed.

(* ------------------------------------------------------------------------------------ *)
(* the flush                                                                             *)

Definition entry_sep (e1 e2 : Z * rect) : Prop := fst e1 = fst e2 -> disjoint2 (snd e1) (snd e2).

Lemma entry_sep_sym e1 e2 : entry_sep e1 e2 -> entry_sep e2 e1.
Proof. intros H E. apply disjoint2_sym. apply H. symmetry; exact E. Qed.

Lemma nodup_fst_fop (l : list (Z * rect)) : NoDup (map fst l) -> ForallOrdPairs entry_sep l.
Proof.
  induction l as [|a l IH]; cbn [map]; intros Hnd; [constructor|].
  inversion Hnd as [|? ? Hna Hnd']; subst. constructor; [|exact (IH Hnd')].
  apply Forall_forall. intros b Hb E. exfalso. apply Hna. rewrite E. apply in_map. exact Hb.
Qed.

Lemma flush_log_fop tree rects :
  ids_unique tree -> pairwise_disjoint rects -> ForallOrdPairs entry_sep (flush_log tree rects).
Proof.
  intros Hu Hpd. unfold flush_log.
  apply (fop_flat_map entry_sep disjoint2 (expose_log tree) rects).
  - intros R _. apply nodup_fst_fop. exact (expose_log_nodup tree Hu R).
  - intros R1 R2 [id1 r1] [id2 r2] Hd H1 H2 E. cbn [fst snd] in *. subst id2.
    exact (expose_log_sep tree Hu R1 R2 id1 r1 r2 Hd H1 H2).
  - exact (pairwise_disjoint_fop rects Hpd).
Qed.

Theorem flush_log_disjoint : forall tree rects,
  ids_unique tree -> pairwise_disjoint rects ->
  forall i j id r1 r2, i <> j ->
    nth_error (flush_log tree rects) i = Some (id, r1) ->
    nth_error (flush_log tree rects) j = Some (id, r2) ->
    disjoint2 r1 r2.
Proof.
  intros tree rects Hu Hpd i j id r1 r2 Hne Hi Hj.
  exact (fop_nth_neq entry_sep _ entry_sep_sym (flush_log_fop tree rects Hu Hpd)
                     i j (id, r1) (id, r2) Hne Hi Hj eq_refl).
Qed.
