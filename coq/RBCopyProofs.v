(* RBCopyProofs.v -- copyrect / blit on well-formed buffers: never a fault, the invariant is
   kept, and the saved-state stack, cursor, clip, translation and pen are exactly what they
   were (every per-span savepen / setpen / restore bracket is balanced). *)
From Coq Require Import ZArith List Bool Lia.
From Tickit Require Import RectDefs RBDefs RBSpec RBLemmas RBSpanProofs RBAbsLemmas RBInv RBOpProofs RBProofs RBCopyDefs.
Import ListNotations.
Local Open Scope Z_scope.

(* what every operation used inside the copy loop guarantees *)
Definition keeps (s s' : rb) : Prop :=
  Inv s' /\ aux s' = aux s /\ rb_lines s' = rb_lines s /\ rb_cols s' = rb_cols s.

Lemma keeps_refl : forall s, Inv s -> keeps s s.
Proof. intros s I. unfold keeps. conj_auto. Qed.

Lemma keeps_trans : forall a b c, keeps a b -> keeps b c -> keeps a c.
Proof. intros a b c (I1 & A1 & L1 & C1) (I2 & A2 & L2 & C2). split; [assumption|]. split; [congruence|]. split; congruence. Qed.

(* savepen; setpen(p); <an operation that keeps aux>; restore  is back where it started *)
Lemma pen_bracket : forall s p (op : rb -> res rb),
  Inv s ->
  (forall d, Inv d -> exists d', op d = Ok d' /\ keeps d d') ->
  exists s', (do d2 <- op (set_aux s (ax_setpen (ax_savepen (aux s)) (Some p))); Ok (restore d2)) = Ok s' /\ keeps s s'.
Proof.
  intros s p op I Hop.
  set (d1 := set_aux s (ax_setpen (ax_savepen (aux s)) (Some p))).
  assert (I1 : Inv d1).
  { unfold d1. apply set_aux_inv; auto; cbn [ax_setpen ax_savepen ax_set_pen ax_set_stack clip stack depth].
    - apply (inv_clip s I).
    - constructor; [left; reflexivity|apply (inv_stack s I)].
    - rewrite (inv_depth s I). unfold zlen. cbn [length]. lia. }
  destruct (Hop d1 I1) as (d2 & E2 & I2 & A2 & L2 & C2). rewrite E2. cbn [bind].
  exists (restore d2). split; [reflexivity|].
  destruct (restore_ok d2 I2) as (I3 & _).
  split; [assumption|].
  unfold restore. rewrite A2. unfold d1. cbn [set_aux aux ax_setpen ax_savepen ax_set_pen ax_set_stack stack].
  cbn [rb_lines rb_cols aux]. split; [|split; [rewrite L2|rewrite C2]; reflexivity].
  unfold ax_restore. cbn [stack f_pen_only f_pen depth ax_set_stack ax_set_pen].
  destruct (aux s). unfold ax_set_stack, ax_set_pen, ax_setpen, ax_savepen, ax_set_stack, ax_set_pen. cbn. f_equal. lia.
Qed.

Lemma skip_keeps : forall s l c n, Inv s -> exists s', skip s l c n = Ok s' /\ keeps s s'.
Proof. intros s l c n I. destruct (skip_ok s l c n I) as (s' & E & I' & A & L & C & _). exists s'. unfold keeps. conj_auto. Qed.
Lemma erase_keeps : forall s l c n, Inv s -> exists s', erase s l c n = Ok s' /\ keeps s s'.
Proof. intros s l c n I. destruct (erase_ok s l c n I) as (s' & E & I' & A & L & C & _). exists s'. unfold keeps. conj_auto. Qed.
Lemma put_substr_keeps : forall s l c t o n, Inv s -> exists s', put_substr s l c t o n = Ok s' /\ keeps s s'.
Proof. intros s l c t o n I. destruct (put_substr_ok s l c t o n I) as (s' & E & I' & A & L & C & _). exists s'. unfold keeps. conj_auto. Qed.
Lemma linecell_keeps : forall s l c b, Inv s -> exists s', linecell s l c b = Ok s' /\ keeps s s'.
Proof. intros s l c b I. destruct (linecell_ok s l c b I) as (s' & E & I' & A & L & C & _). exists s'. unfold keeps. conj_auto. Qed.
Lemma put_char_keeps : forall s l c cp, Inv s -> exists s', (do2 (d, _) <- put_char s l c cp; Ok d) = Ok s' /\ keeps s s'.
Proof.
  intros s l c cp I. destruct (put_char_ok s l c cp I) as (s' & v & E & I' & A & L & C & _).
  rewrite E. cbn [bind]. exists s'. unfold keeps. conj_auto.
Qed.

(* one step of the column loop *)
Lemma copy_span_ok : forall (samerb : bool) (src dst : rb) line col sr lineoffs coloffs (leftwards copy_skip : bool),
  Inv dst -> Inv src ->
  let srcb := if samerb then dst else src in
  0 <= line < rb_lines srcb -> 0 <= left sr -> left sr <= col < right sr -> right sr <= rb_cols srcb ->
  exists dst' col', copy_span samerb src dst line col sr lineoffs coloffs leftwards copy_skip = Ok (dst', col') /\
    keeps dst dst' /\
    (if leftwards then left sr - 1 <= col' < col else col < col').
Proof.
  intros samerb src dst line col sr lineoffs coloffs leftwards copy_skip Id Is srcb Hl Hleft Hc Hr.
  assert (Ib : Inv srcb) by (unfold srcb; destruct samerb; assumption).
  unfold copy_span. fold srcb. unfold row_of.
  rewrite <- (inv_lines srcb Ib) in Hl. unfold zlen in Hl.
  destruct (Z.leb_spec 0 line); [|lia]. destruct (Z.ltb_spec line (Z.of_nat (length (cells srcb)))); [|lia].
  cbn [andb bind].
  assert (Hy : 0 <= line < rb_lines srcb) by (rewrite <- (inv_lines srcb Ib); unfold zlen; lia).
  destruct (inv_rows srcb Ib line Hy) as (RL & RW & RM).
  change (nth (Z.to_nat line) (cells srcb) []) with (zn (cells srcb) line []).
  set (srow := zn (cells srcb) line []) in *.
  unfold right in *.
  rewrite getr_ok by lia. cbn [bind].
  (* find the span and the column the copy continues from *)
  assert (G : exists c n sc col1, 0 <= sc <= col1 /\ col1 <= col /\ left sr <= col1 /\ ck (get srow sc) = Start c n /\ col1 < sc + n /\
            (if leftwards then True else col1 = col) /\
            (match ck (get srow col) with
             | Cont sc0 => do c0 <- getr srow sc0;
                           Ok (c0, (if leftwards then (if sc0 <? left sr then left sr else sc0) else col,
                                    (if leftwards then (if sc0 <? left sr then left sr else sc0) else col) - sc0))
             | Start _ _ => Ok (get srow col, (col, 0))
             end) = Ok (get srow sc, (col1, col1 - sc))).
  { destruct (ck (get srow col)) as [c n|sc] eqn:Ec.
    - exists c, n, col, col. assert (W := RW col ltac:(lia)). unfold wf_cellf in W. rewrite Ec in W.
      rewrite Z.sub_diag. repeat split; try lia; auto. destruct leftwards; auto.
    - assert (W := RW col ltac:(lia)). unfold wf_cellf in W. rewrite Ec in W. destruct W as (K1 & c & n & Hs & K2).
      rewrite getr_ok by lia. cbn [bind].
      destruct leftwards.
      + destruct (Z.ltb_spec sc (left sr)).
        * exists c, n, sc, (left sr). repeat split; try lia; auto.
        * exists c, n, sc, sc. repeat split; try lia; auto.
      + exists c, n, sc, col. repeat split; try lia; auto. }
  destruct G as (c & n & sc & col1 & G1 & G2 & G3 & Es & G4 & G5 & E). rewrite E. cbn [bind fst snd]. rewrite Es.
  set (spancols := n - (col1 - sc)).
  set (cols0 := if col1 + spancols >? left sr + cols sr then left sr + cols sr - col1 else spancols).
  assert (Hop : exists dst',
     match c with
     | CSkip => if copy_skip then skip dst (line + lineoffs) (col1 + coloffs) cols0 else Ok dst
     | _ => do d2 <- match c with
                     | CSkip => Ok (set_aux dst (ax_setpen (ax_savepen (aux dst)) (Some (content_pen c))))
                     | CText _ t offs => put_substr (set_aux dst (ax_setpen (ax_savepen (aux dst)) (Some (content_pen c))))
                                           (line + lineoffs) (col1 + coloffs) t (offs + (col1 - sc)) cols0
                     | CErase _ => erase (set_aux dst (ax_setpen (ax_savepen (aux dst)) (Some (content_pen c))))
                                           (line + lineoffs) (col1 + coloffs) cols0
                     | CLine _ m => linecell (set_aux dst (ax_setpen (ax_savepen (aux dst)) (Some (content_pen c))))
                                           (line + lineoffs) (col1 + coloffs) m
                     | CChar _ cp => do2 (d, _) <- put_char (set_aux dst (ax_setpen (ax_savepen (aux dst)) (Some (content_pen c))))
                                           (line + lineoffs) (col1 + coloffs) cp; Ok d
                     end; Ok (restore d2)
     end = Ok dst' /\ keeps dst dst').
  { destruct c.
    - destruct copy_skip; [apply skip_keeps; assumption|exists dst; split; [reflexivity|apply keeps_refl; assumption]].
    - apply (pen_bracket dst _ (fun d => put_substr d _ _ _ _ _) Id). intros d Hd. apply put_substr_keeps; assumption.
    - apply (pen_bracket dst _ (fun d => erase d _ _ _) Id). intros d Hd. apply erase_keeps; assumption.
    - apply (pen_bracket dst _ (fun d => linecell d _ _ _) Id). intros d Hd. apply linecell_keeps; assumption.
    - apply (pen_bracket dst _ (fun d => do2 (d0, _) <- put_char d _ _ _; Ok d0) Id). intros d Hd. apply put_char_keeps; assumption. }
  destruct Hop as (dst' & Eop & K).
  assert (Wsc := RW sc ltac:(lia)). unfold wf_cellf in Wsc. rewrite Es in Wsc. destruct Wsc as (N1 & _).
  exists dst', (if leftwards then col1 - 1 else col1 + spancols).
  split.
  - fold spancols. fold cols0. destruct c; rewrite Eop; reflexivity.
  - split; [assumption|]. destruct leftwards; [clear - G2 G3; lia|]. unfold spancols. clear - G4 G5. lia.
Qed.

Lemma copy_cols_ok : forall fuel (samerb : bool) (src dst : rb) line col sr lineoffs coloffs (leftwards copy_skip : bool),
  Inv dst -> Inv src ->
  (samerb = true -> 0 <= line < rb_lines dst /\ right sr <= rb_cols dst) ->
  (samerb = false -> 0 <= line < rb_lines src /\ right sr <= rb_cols src) ->
  0 <= left sr -> (if leftwards then left sr - 1 <= col else left sr <= col) -> (leftwards = true -> col < right sr) ->
  (if leftwards then col - left sr + 1 else right sr - col) <= Z.of_nat fuel ->
  exists dst', copy_cols fuel samerb src dst line col sr lineoffs coloffs leftwards copy_skip = Ok dst' /\ keeps dst dst'.
Proof.
  induction fuel as [|f IH]; intros samerb src dst line col sr lineoffs coloffs leftwards copy_skip Id Is H1 H2 Hleft Hc Hlw Hf.
  - cbn [copy_cols]. exists dst.
    destruct leftwards.
    + destruct (Z.ltb_spec col (left sr)); [|lia]. split; [reflexivity|apply keeps_refl; assumption].
    + destruct (Z.geb_spec col (right sr)); [|lia]. split; [reflexivity|apply keeps_refl; assumption].
  - cbn [copy_cols].
    assert (D : (if leftwards then col <? left sr else col >=? right sr) = true \/
                ((if leftwards then col <? left sr else col >=? right sr) = false /\ left sr <= col < right sr)).
    { destruct leftwards.
      - destruct (Z.ltb_spec col (left sr)); [left; reflexivity|right; split; [reflexivity|]].
        specialize (Hlw eq_refl). lia.
      - destruct (Z.geb_spec col (right sr)); [left; reflexivity|right; split; [reflexivity|lia]]. }
    destruct D as [D|(D & Hin)]; rewrite D.
    + exists dst. split; [reflexivity|apply keeps_refl; assumption].
    + destruct (copy_span_ok samerb src dst line col sr lineoffs coloffs leftwards copy_skip Id Is) as (d1 & c1 & E1 & K1 & P1); auto.
      { destruct samerb; [apply H1|apply H2]; reflexivity. }
      { destruct samerb; [apply H1|apply H2]; reflexivity. }
      rewrite E1. cbn [bind].
      destruct K1 as (I1 & A1 & L1 & C1).
      destruct (IH samerb src d1 line c1 sr lineoffs coloffs leftwards copy_skip I1 Is) as (d2 & E2 & K2); auto.
      * intros Hs. rewrite L1, C1. apply H1; assumption.
      * destruct leftwards; lia.
      * intros ->. lia.
      * destruct leftwards; lia.
      * exists d2. split; [assumption|]. apply keeps_trans with d1; [unfold keeps; conj_auto|assumption].
Qed.

Lemma copy_lines_in : forall sr upwards l, In l (copy_lines sr upwards) -> top sr <= l < top sr + lines sr.
Proof.
  intros sr upwards l H. unfold copy_lines in H.
  assert (G : In l (map (fun k => top sr + Z.of_nat k) (seq 0 (Z.to_nat (lines sr))))).
  { destruct upwards; [apply in_rev in H|]; exact H. }
  apply in_map_iff in G. destruct G as (k & <- & Hk). apply in_seq in Hk. lia.
Qed.

(* the rectangle [sr] lies inside a buffer *)
Definition rect_in (s : rb) (sr : rect) : Prop :=
  0 <= top sr /\ top sr + lines sr <= rb_lines s /\ 0 <= left sr /\ left sr + cols sr <= rb_cols s /\ 0 <= cols sr.

Theorem copyrect_ok : forall (samerb : bool) (src dst : rb) dr sr (copy_skip : bool),
  Inv dst -> Inv src -> (samerb = true -> rect_in dst sr) -> (samerb = false -> rect_in src sr) ->
  exists dst', copyrect samerb src dst dr sr copy_skip = Ok dst' /\ keeps dst dst'.
Proof.
  intros samerb src dst dr sr copy_skip Id Is H1 H2. unfold copyrect.
  destruct ((lines sr =? 0) || (cols sr =? 0)); [exists dst; split; [reflexivity|apply keeps_refl; assumption]|].
  set (lineoffs := top dr - top sr). set (coloffs := left dr - left sr).
  destruct (samerb && (lineoffs =? 0) && (coloffs =? 0)); [exists dst; split; [reflexivity|apply keeps_refl; assumption]|].
  set (leftwards := samerb && (lineoffs =? 0) && (coloffs >? 0)).
  generalize (copy_lines_in sr (samerb && (lineoffs >? 0))).
  generalize (copy_lines sr (samerb && (lineoffs >? 0))). intros ls Hls.
  revert dst Id H1. induction ls as [|l ls IH]; intros dst Id H1; cbn [fold_res].
  - exists dst. split; [reflexivity|apply keeps_refl; assumption].
  - assert (Hl := Hls l (or_introl eq_refl)).
    destruct (copy_cols_ok (S (Z.to_nat (cols sr))) samerb src dst l (if leftwards then right sr - 1 else left sr)
                sr lineoffs coloffs leftwards copy_skip Id Is) as (d1 & E1 & K1).
    + intros Hs. destruct (H1 Hs) as (R1 & R2 & R3 & R4 & R5). unfold right. split; lia.
    + intros Hs. destruct (H2 Hs) as (R1 & R2 & R3 & R4 & R5). unfold right. split; lia.
    + destruct samerb; [destruct (H1 eq_refl) as (_ & _ & R3 & _)|destruct (H2 eq_refl) as (_ & _ & R3 & _)]; exact R3.
    + assert (0 <= cols sr) by (destruct samerb; [destruct (H1 eq_refl) as (_ & _ & _ & _ & R5)|destruct (H2 eq_refl) as (_ & _ & _ & _ & R5)]; exact R5).
      unfold right. destruct leftwards; lia.
    + intros Hlw. rewrite Hlw. unfold right. lia.
    + unfold right. destruct leftwards; lia.
    + rewrite E1. cbn [bind].
      destruct K1 as (I1 & A1 & L1 & C1).
      destruct (IH (fun l' Hl' => Hls l' (or_intror Hl')) d1 I1) as (d2 & E2 & K2).
      { intros Hs. unfold rect_in. rewrite L1, C1. apply H1; assumption. }
      exists d2. split; [assumption|]. apply keeps_trans with d1; [unfold keeps; conj_auto|assumption].
Qed.

(* ---------------------------------------------------------------------------------- *)
(* the public operations *)

Theorem copyrect_op_ok : forall s dr sr,
  Inv s -> rect_in s sr -> exists s', copyrect_op s dr sr = Ok s' /\ keeps s s'.
Proof. intros s dr sr I H. unfold copyrect_op. apply copyrect_ok; auto; intros; discriminate. Qed.

Theorem blit_ok : forall dst src,
  Inv dst -> Inv src -> exists dst', blit dst src = Ok dst' /\ keeps dst dst'.
Proof.
  intros dst src Id Is. unfold blit. apply copyrect_ok; auto; [intros; discriminate|].
  intros _. unfold rect_in. cbn [top left lines cols].
  pose proof (inv_cols src Is). pose proof (inv_lines src Is). pose proof (zlen_nonneg (cells src)). lia.
Qed.

Lemma fold_skiprect_keeps : forall rs s s', Inv s -> fold_res skiprect rs s = Ok s' -> keeps s s'.
Proof.
  induction rs as [|r rs IH]; intros s s' I H; cbn [fold_res] in H.
  - inversion H; subst. apply keeps_refl; assumption.
  - destruct (skiprect_ok s r I) as (s1 & E1 & I1 & A1 & L1 & C1 & _). rewrite E1 in H. cbn [bind] in H.
    apply keeps_trans with s1; [unfold keeps; conj_auto|apply IH; assumption].
Qed.

Lemma bind3_ok : forall {A B C D} (a : res A) (b : res B) (f : B -> res C) (g : C -> A -> res D) (d : D),
  (do x <- a; do y <- b; do z <- f y; g z x) = Ok d ->
  exists x z, a = Ok x /\ g z x = Ok d.
Proof.
  intros A B C D a b f g d H.
  destruct a as [x| |]; cbn [bind] in H; [|discriminate|discriminate].
  destruct b as [y| |]; cbn [bind] in H; [|discriminate|discriminate].
  destruct (f y) as [z| |]; cbn [bind] in H; [|discriminate|discriminate].
  eauto.
Qed.

(* moverect: whenever it returns (the model of rectset.c is fuelled; its termination is
   property C05's subject), the auxiliary state is untouched *)
Theorem moverect_op_keeps : forall s dr sr s',
  Inv s -> rect_in s sr -> moverect_op s dr sr = Ok s' -> keeps s s'.
Proof.
  intros s dr sr s' I H E. unfold moverect_op in E.
  apply bind3_ok in E. destruct E as (s1 & set2 & E1 & E2).
  destruct (copyrect_ok true s s dr sr true I I (fun _ => H) ltac:(intros; discriminate)) as (s1' & E1' & K1).
  rewrite E1 in E1'. inversion E1'; subst s1'.
  apply keeps_trans with s1; [assumption|]. destruct K1 as (I1 & _). apply (fold_skiprect_keeps set2 s1 s' I1 E2).
Qed.

Example nonvacuous :
  exists s v, run (rb_new 2 6) [OTextAt 0 0 [65; 66; 67; 68; 69; 70]; OCharAt 0 2 120; OSave] = Ok (s, v) /\
    Inv s /\ rect_in s (mkRect 0 1 1 4) /\ depth (aux s) = 1.
Proof.
  destruct (run_refines [OTextAt 0 0 [65; 66; 67; 68; 69; 70]; OCharAt 0 2 120; OSave] (rb_new 2 6)) as (s & v & E & I & _).
  { apply new_ok; lia. }
  exists s, v. split; [exact E|]. split; [exact I|].
  revert E. vm_compute. intros E. inversion E; subst. cbn. repeat split; try lia; discriminate.
Qed.
