(* RBFlushProofs.v -- about the model of tickit_renderbuffer_flush_to_term: it never faults or
   runs out of fuel on a well-formed buffer, and it leaves the buffer empty with all auxiliary
   state reset.  (The simulation theorem relating the emitted operations to the terminal grid
   is stated in Properties_C04.v; see there for what is proved of it.) *)
From Coq Require Import ZArith List Bool Lia.
From Tickit Require Import RectDefs RBDefs RBSpec RBLemmas RBSpanProofs RBAbsLemmas RBInv RBOpProofs RBProofs
                           Gen_Linechars RBFlushDefs.
Import ListNotations.
Local Open Scope Z_scope.

Definition at_boundary (r : row) (col : Z) : Prop :=
  col = len r \/ (0 <= col < len r /\ exists c n, ck (get r col) = Start c n).

(* the cell after a span is the start of the next span (or the end of the row) *)
Lemma next_boundary : forall r i c n,
  WF r -> 0 <= i < len r -> ck (get r i) = Start c n -> at_boundary r (i + n).
Proof.
  intros r i c n W Hi Ei.
  assert (Wi := W i Hi). unfold wf_cellf in Wi. rewrite Ei in Wi. destruct Wi as (K1 & K2 & K3 & K4).
  destruct (Z.eq_dec (i + n) (len r)) as [->|Hne]; [left; reflexivity|].
  right. split; [lia|].
  destruct (ck (get r (i + n))) as [c' n'|sc] eqn:Ee; [eauto|]. exfalso.
  assert (We := W (i + n) ltac:(lia)). unfold wf_cellf in We. rewrite Ee in We.
  destruct We as (S1 & c0 & k0 & Hs & S2).
  destruct (Z_lt_le_dec sc i).
  - (* i lies strictly inside the span of sc *)
    assert (Ws := W sc ltac:(lia)). unfold wf_cellf in Ws. rewrite Hs in Ws. destruct Ws as (_ & _ & _ & HC).
    rewrite (HC i ltac:(lia)) in Ei. discriminate.
  - destruct (Z.eq_dec sc i) as [->|]; [rewrite Ei in Hs; inversion Hs; subst; lia|].
    rewrite (K4 sc ltac:(lia)) in Hs. discriminate.
Qed.

Lemma line_run_spec : forall fuel r col p,
  WF r -> at_boundary r col ->
  let '(g, c') := line_run fuel r col p in col <= c' /\ at_boundary r c'.
Proof.
  induction fuel as [|f IH]; intros r col p W Hb; cbn [line_run]; [split; [lia|assumption]|].
  destruct (Z.ltb_spec col (len r)) as [Hlt|Hge]; [|split; [lia|assumption]].
  destruct Hb as [Hb|(Hc & c & n & Ec)]; [lia|]. rewrite Ec.
  destruct c; try (split; [lia|right; split; [assumption|eauto]]).
  destruct (pen_equiv p0 p); [|split; [lia|right; split; [assumption|eauto]]].
  assert (n = 1).
  { assert (Wc := W col Hc). unfold wf_cellf in Wc. rewrite Ec in Wc. destruct Wc as (_ & _ & K3 & _). now apply K3. }
  subst n.
  assert (Hn := next_boundary r col _ _ W Hc Ec).
  specialize (IH r (col + 1) p W Hn). destruct (line_run f r (col + 1) p) as [g c']. destruct IH. split; [lia|assumption].
Qed.

Theorem flush_line_total : forall fuel r line col phycol,
  WF r -> at_boundary r col -> len r - col <= Z.of_nat fuel ->
  exists ops, flush_line fuel r line col phycol = Ok ops.
Proof.
  induction fuel as [|f IH]; intros r line col phycol W Hb Hf.
  - cbn [flush_line]. destruct Hb as [->|(Hc & _)]; [|lia].
    destruct (Z.leb_spec (len r) (len r)); [eauto|lia].
  - cbn [flush_line]. destruct (Z.leb_spec (len r) col) as [Hge|Hlt]; [eauto|].
    destruct Hb as [Hb|(Hc & c & n & Ec)]; [lia|].
    rewrite getr_ok by assumption. cbn [bind]. rewrite Ec.
    assert (Wc := W col Hc). unfold wf_cellf in Wc. rewrite Ec in Wc. destruct Wc as (K1 & K2 & K3 & K4).
    assert (Hn := next_boundary r col c n W Hc Ec).
    destruct c.
    + (* skip *) apply IH; auto. lia.
    + destruct (IH r line (col + n) (col + n) W Hn ltac:(lia)) as (rest & E). rewrite E. cbn [bind]. eauto.
    + (* erase: looks at the next cell *)
      assert (G : exists nx, (if col + n <? len r then getr r (col + n) else Ok dcell) = Ok nx).
      { destruct (Z.ltb_spec (col + n) (len r)); [rewrite getr_ok by lia|]; eauto. }
      destruct G as (nx & G). rewrite G. cbn [bind].
      match goal with |- context [flush_line f r line (col + n) ?ph] =>
        destruct (IH r line (col + n) ph W Hn ltac:(lia)) as (rest & E) end.
      rewrite E. cbn [bind]. eauto.
    + (* line run *)
      specialize (K3 eq_refl). subst n.
      assert (R := line_run_spec (S (Z.to_nat (len r))) r (col + 1) p W Hn).
      destruct (line_run (S (Z.to_nat (len r))) r (col + 1) p) as [gl c']. destruct R as (R1 & R2).
      match goal with |- context [flush_line f r line c' ?ph] =>
        destruct (IH r line c' ph W R2 ltac:(lia)) as (rest & E) end.
      rewrite E. cbn [bind]. eauto.
    + destruct (IH r line (col + n) (col + n) W Hn ltac:(lia)) as (rest & E). rewrite E. cbn [bind]. eauto.
Qed.

Lemma row_start_boundary : forall r, WF r -> at_boundary r 0.
Proof.
  intros r W. destruct (Z.eq_dec (len r) 0) as [E|E]; [left; lia|].
  right. pose proof (len_nonneg r). split; [lia|].
  assert (W0 := W 0 ltac:(lia)). unfold wf_cellf in W0.
  destruct (ck (get r 0)) as [c n|sc]; [eauto|]. destruct W0 as (K & _). lia.
Qed.

Lemma flush_rows_total : forall rows line,
  (forall r, In r rows -> WF r) -> exists ops, flush_rows rows line = Ok ops.
Proof.
  induction rows as [|r rows IH]; intros line H; cbn [flush_rows]; [eauto|].
  destruct (flush_line_total (S (length r)) r line 0 (-1) (H r (or_introl eq_refl)) (row_start_boundary r (H r (or_introl eq_refl))))
    as (a & Ea).
  { unfold len. lia. }
  rewrite Ea. cbn [bind].
  destruct (IH (line + 1) (fun r' Hr' => H r' (or_intror Hr'))) as (b & Eb). rewrite Eb. cbn [bind]. eauto.
Qed.

(* flushing any well-formed buffer succeeds, and afterwards the buffer is empty: every cell
   Skip and unmasked, no cursor, no translation, full clip, empty pen, empty stack *)
Theorem flush_total_and_resets : forall s,
  Inv s -> exists ops, flush s = Ok (ops, reset s) /\ Inv (reset s) /\ abs_rb (reset s) = a_reset (abs_rb s).
Proof.
  intros s I. unfold flush.
  destruct (flush_rows_total (cells s) 0) as (ops & E).
  { intros r Hr. apply In_nth with (d := []) in Hr. destruct Hr as (k & Hk & <-).
    assert (Hy : 0 <= Z.of_nat k < rb_lines s) by (rewrite <- (inv_lines s I); unfold zlen; lia).
    destruct (inv_rows s I (Z.of_nat k) Hy) as (_ & W & _). unfold zn in W. now rewrite Nat2Z.id in W. }
  rewrite E. cbn [bind]. exists ops. split; [reflexivity|]. apply reset_ok. assumption.
Qed.

Theorem flush_result_is_reset : forall s ops s', flush s = Ok (ops, s') -> s' = reset s.
Proof.
  intros s ops s' H. unfold flush in H. destruct (flush_rows (cells s) 0); cbn [bind] in H; inversion H. reflexivity.
Qed.

Example nonvacuous :
  exists s v ops, run (rb_new 1 6) [OTextAt 0 0 [0xff21; 98; 99]; OCharAt 0 0 120; OHLine 0 4 5 2 3] = Ok (s, v) /\
    Inv s /\ flush s = Ok (ops, reset s) /\
    ops = [TGoto 0 0; TSetPen pen_empty; TPrint [120]; TSetPen pen_empty; TPrint [32]; TPrint [98; 99];
           TSetPen pen_empty; TPrint [0x2550; 0x2550]].
Proof.
  destruct (run_refines [OTextAt 0 0 [0xff21; 98; 99]; OCharAt 0 0 120; OHLine 0 4 5 2 3] (rb_new 1 6)) as (s & v & E & I & _).
  { apply new_ok; lia. }
  destruct (flush_total_and_resets s I) as (ops & F & _).
  exists s, v, ops. split; [exact E|]. split; [exact I|]. split; [exact F|].
  revert E. vm_compute. intros E. inversion E; subst. clear E.
  revert F. vm_compute. intros F. inversion F. reflexivity.
Qed.
