From Coq Require Extraction.
From Coq Require Import ExtrOcamlBasic.
From Tickit Require Import LoopDefs LoopSpec LoopAsIs LoopHeap.
Extraction "mC17.ml" run spec_run spec_checkb a_run h_run.
