From Coq Require Extraction.
From Coq Require Import ExtrOcamlBasic.
From Tickit Require Import LoopDefs LoopSpec LoopAsIs LoopHeap LoopChain LoopIo LoopNest.
Extraction "mC17.ml" run runx run_opsx st0 spec_run spec_checkb a_run h_run h_runx h_crun l_run l_checkb hi_run j_run j_checkb n_run n_checkb.
