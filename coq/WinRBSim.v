(* WinRBSim.v -- every operation the window layer performs on its ABSTRACT render buffer
   (WinDefs.rbuf) is simulated, through the relation [Rrb] of WinRBView.v, by the corresponding
   step(s) of the cell-wise specification of the concrete buffer (RBSpec.astep / arun). *)
From Coq Require Import ZArith List Bool Lia.
From Tickit Require Import RectDefs WinRectSet WinDefs WinSpec.
From Tickit Require Import RBDefs RBSpec RBAbsLemmas RBProps Gen_Linechars RBFlushDefs RBFlushSpec RBTermSim.
From Tickit Require Import RBInv RBProofs RBFlushCols RBFlushReach RBFlushGrid WinRBView.
Import ListNotations.
Local Open Scope Z_scope.

(* ------------------------------------------------------------------------------------ *)
(* small facts *)

Lemma arun_app : forall A p q, fst (arun A (p ++ q)) = fst (arun (fst (arun A p)) q).
Proof.
  intros A p. revert A. induction p as [|o p IH]; intros A q; cbn [app arun fst]; [reflexivity|].
  destruct (astep A o) as [s1 v1] eqn:E1.
  specialize (IH s1 q).
  destruct (arun s1 (p ++ q)) as [s2 v2]. destruct (arun s1 p) as [s3 v3]. cbn [fst] in *. exact IH.
Qed.

Lemma arun_cons : forall A o p, fst (arun A (o :: p)) = fst (arun (fst (astep A o)) p).
Proof.
  intros A o p. cbn [arun]. destruct (astep A o) as [s1 v1]. cbn [fst]. destruct (arun s1 p) as [s2 v2]. reflexivity.
Qed.

Lemma arun_one : forall A o, fst (arun A [o]) = fst (astep A o).
Proof. intros. rewrite arun_cons. reflexivity. Qed.

Lemma cont_none : forall v, cont v = None -> v = None.
Proof. intros [[[c w] p]|] H; [discriminate|reflexivity]. Qed.

(* the cells of an intersection *)
Lemma cell_inb_intersect : forall a b q,
  match r_intersect a b with Some c => cell_inb c q | None => false end = cell_inb a q && cell_inb b q.
Proof.
  intros a b [y x]. apply bool_eq_iff. rewrite andb_true_iff, !cell_inb_iff.
  unfold r_intersect, bottom, right, init_bounded.
  destruct (Z.max (top a) (top b) >=? Z.min (top a + lines a) (top b + lines b)) eqn:E1.
  { apply Z.geb_le in E1. split; [discriminate|lia]. }
  destruct (Z.max (left a) (left b) >=? Z.min (left a + cols a) (left b + cols b)) eqn:E2.
  { apply Z.geb_le in E2. split; [discriminate|lia]. }
  rewrite cell_inb_iff. cbn [top left lines cols]. lia.
Qed.

Lemma cell_inb_nolines : forall t l c q, cell_inb (mkRect t l 0 c) q = false.
Proof.
  intros t l c [y x]. destruct (cell_inb (mkRect t l 0 c) (y, x)) eqn:E; [|reflexivity].
  apply cell_inb_iff in E. cbn [top left lines cols] in E. lia.
Qed.

(* inside the buffer the hole of the concrete mask is the translated rectangle *)
Lemma mask_hole_cells : forall a m y x, 0 <= y -> 0 <= x ->
  cell_inb (mask_hole a m) (y, x) = cell_inb (r_translate m (xl a) (xc a)) (y, x).
Proof.
  intros a m y x Hy Hx. apply bool_eq_iff. rewrite !cell_inb_iff. unfold mask_hole, r_translate.
  destruct (top m + xl a <? 0) eqn:E1; destruct (left m + xc a <? 0) eqn:E2;
    cbn [top left lines cols];
    try apply Z.ltb_lt in E1; try apply Z.ltb_ge in E1; try apply Z.ltb_lt in E2; try apply Z.ltb_ge in E2; lia.
Qed.

(* ------------------------------------------------------------------------------------ *)
(* buffers that differ only in the ghost stamps of their cells *)

Definition same_ctl (b b' : rbuf) : Prop :=
  WinDefs.rb_lines b' = WinDefs.rb_lines b /\ WinDefs.rb_cols b' = WinDefs.rb_cols b /\
  (forall q, rb_mask b' q = rb_mask b q) /\ rb_clip b' = rb_clip b /\
  rb_xl b' = rb_xl b /\ rb_xc b' = rb_xc b /\ rb_depth b' = rb_depth b /\ rb_stack b' = rb_stack b.

Definition beq (b b' : rbuf) : Prop :=
  same_ctl b b' /\ forall q, cont (rb_cells b' q) = cont (rb_cells b q).

Lemma same_ctl_refl : forall b, same_ctl b b.
Proof. intros b. repeat split; reflexivity. Qed.

Lemma same_ctl_trans : forall a b c, same_ctl a b -> same_ctl b c -> same_ctl a c.
Proof.
  intros a b c (A1 & A2 & A3 & A4 & A5 & A6 & A7 & A8) (B1 & B2 & B3 & B4 & B5 & B6 & B7 & B8).
  repeat split; try congruence.
Qed.

Lemma same_ctl_sym : forall a b, same_ctl a b -> same_ctl b a.
Proof.
  intros a b (A1 & A2 & A3 & A4 & A5 & A6 & A7 & A8). repeat split; try congruence.
Qed.

Lemma beq_refl : forall b, beq b b.
Proof. intros b. split; [apply same_ctl_refl|reflexivity]. Qed.

Lemma beq_sym : forall a b, beq a b -> beq b a.
Proof. intros a b (H1 & H2). split; [apply same_ctl_sym; exact H1|]. intros q. symmetry. apply H2. Qed.

Lemma beq_trans : forall a b c, beq a b -> beq b c -> beq a c.
Proof.
  intros a b c (H1 & H2) (K1 & K2). split; [eapply same_ctl_trans; eassumption|].
  intros q. rewrite K2. apply H2.
Qed.

Lemma same_ctl_inb : forall b b' q, same_ctl b b' -> rb_inb b' q = rb_inb b q.
Proof. intros b b' q (A1 & A2 & _). unfold rb_inb. rewrite A1, A2. reflexivity. Qed.

Lemma same_ctl_drawable : forall b b' q, same_ctl b b' -> rb_drawable b' q = rb_drawable b q.
Proof. intros b b' q (_ & _ & A3 & A4 & _). unfold rb_drawable. rewrite A3, A4. reflexivity. Qed.

(* [Rrb] sees only the contents *)
Lemma Rrb_ext : forall b b' A, Rrb b A -> beq b b' -> Rrb b' A.
Proof.
  intros b b' A R (S & C). pose proof S as (A1 & A2 & A3 & A4 & A5 & A6 & A7 & A8).
  destruct R. constructor; try congruence.
  - intros y x G. rewrite C, A3. apply R_cells. exact G.
  - intros q Hq. rewrite (same_ctl_inb b b' q S) in Hq. destruct (R_outside q Hq) as (O1 & O2).
    split; [apply cont_none; rewrite C, O1; reflexivity|rewrite A3; exact O2].
  - intros q k Hq. rewrite A3 in Hq. eapply R_mask_ge. exact Hq.
  - rewrite A4. exact R_clip.
  - intros q Hq. rewrite (same_ctl_inb b b' q S). apply R_clip_in. exact Hq.
  - eapply Forall_impl; [|exact R_stack_in]. intros g Hg q Hq. rewrite (same_ctl_inb b b' q S). apply Hg. exact Hq.
Qed.

(* ------------------------------------------------------------------------------------ *)
(* the structural operations *)

(* the window model keeps depth and stack height in step ([R_depth_stack]) *)
Definition depth_ok (b : rbuf) : Prop := Z.of_nat (length (rb_stack b)) <= rb_depth b.

Lemma Rrb_new : forall L C, 0 <= L -> 0 <= C -> Rrb (WinDefs.rb_new L C) (a_new L C).
Proof.
  intros L C HL HC.
  assert (K : forall q, cell_inb (mkRect 0 0 L C) q = true -> rb_inb (WinDefs.rb_new L C) q = true).
  { intros [y x] Hq. apply cell_inb_iff in Hq. cbn [top left lines cols] in Hq.
    unfold rb_inb. cbn [WinDefs.rb_new WinDefs.rb_lines WinDefs.rb_cols fst snd].
    rewrite !andb_true_iff, !Z.leb_le, !Z.ltb_lt. lia. }
  constructor; cbn [a_new a_lines a_cols a_aux ag aux_new clip xl xc depth stack WinDefs.rb_new WinDefs.rb_lines
                    WinDefs.rb_cols rb_cells rb_mask rb_clip rb_xl rb_xc rb_depth rb_stack];
    try reflexivity; try lia; try (constructor; fail).
  - apply (ashape_new L C HL HC).
  - intros y x (Hy & Hx). cbn [a_new a_lines a_cols] in Hy, Hx. unfold gcell.
    rewrite zn_repeat by lia. rewrite zn_repeat by lia. cbn [ac am crep cont mask_z]. split; reflexivity.
  - intros q _. split; reflexivity.
  - intros q k Hk. discriminate.
  - intros q. destruct ((0 <? L) && (0 <? C)) eqn:E; [reflexivity|].
    destruct (cell_inb (mkRect 0 0 L C) q) eqn:Eq; [|reflexivity]. destruct q as [y x].
    apply cell_inb_iff in Eq. cbn [top left lines cols] in Eq.
    apply andb_false_iff in E. rewrite !Z.ltb_ge in E. lia.
  - exact K.
Qed.

Lemma depth_ok_new : forall L C, depth_ok (WinDefs.rb_new L C).
Proof. intros. unfold depth_ok. cbn. lia. Qed.

Lemma Rrb_save : forall b A, Rrb b A -> Rrb (rb_save b) (fst (astep A OSave)).
Proof.
  intros b A R. destruct R.
  constructor; cbn [astep fst set_a_aux a_lines a_cols a_aux ag ax_save ax_set_stack clip xl xc depth stack
                    rb_save WinDefs.rb_lines WinDefs.rb_cols rb_cells rb_mask rb_clip rb_xl rb_xc rb_depth rb_stack];
    try assumption; try lia.
  - cbn [length]. lia.
  - constructor; [|exact R_stack]. cbn [frame_rep f_pen_only f_xl f_xc f_clip]. repeat split; assumption.
  - constructor; [|exact R_stack_in]. cbn [f_clip]. exact R_clip_in.
Qed.

Lemma depth_ok_save : forall b, depth_ok b -> depth_ok (rb_save b).
Proof. intros b. unfold depth_ok. cbn [rb_save rb_stack rb_depth length]. lia. Qed.

Lemma Rrb_translate : forall b A dl dc, Rrb b A -> Rrb (rb_translate b dl dc) (fst (astep A (OTranslate dl dc))).
Proof.
  intros b A dl dc R. destruct R.
  constructor; cbn [astep fst set_a_aux a_lines a_cols a_aux ag ax_translate ax_set_xlate clip xl xc depth stack
                    rb_translate WinDefs.rb_lines WinDefs.rb_cols rb_cells rb_mask rb_clip rb_xl rb_xc rb_depth rb_stack];
    try assumption; try lia.
Qed.

Lemma depth_ok_translate : forall b dl dc, depth_ok b -> depth_ok (rb_translate b dl dc).
Proof. intros b dl dc H. exact H. Qed.

Lemma Rrb_clip : forall b A r, Rrb b A -> Rrb (rb_clip_to b r) (fst (astep A (OClip r))).
Proof.
  intros b A r R.
  assert (Sh := clip_shrinks (a_aux A) r).
  assert (Cl : clip_rep (rb_clip (rb_clip_to b r)) (clip (ax_clip (a_aux A) r))).
  { intros q. cbn [rb_clip_to rb_clip]. unfold ax_clip.
    change (mkRect (top r + xl (a_aux A)) (left r + xc (a_aux A)) (lines r) (cols r))
      with (r_translate r (xl (a_aux A)) (xc (a_aux A))).
    pose proof (cell_inb_intersect (clip (a_aux A)) (r_translate r (xl (a_aux A)) (xc (a_aux A))) q) as I.
    assert (L : cell_inb (clip match r_intersect (clip (a_aux A)) (r_translate r (xl (a_aux A)) (xc (a_aux A))) with
                               | Some c => ax_set_clip (a_aux A) c
                               | None => ax_set_clip (a_aux A) (mkRect (top (clip (a_aux A))) (left (clip (a_aux A))) 0 (cols (clip (a_aux A))))
                               end) q
                = cell_inb (clip (a_aux A)) q && cell_inb (r_translate r (xl (a_aux A)) (xc (a_aux A))) q).
    { rewrite <- I. destruct (r_intersect _ _); cbn [ax_set_clip clip]; [reflexivity|apply cell_inb_nolines]. }
    rewrite L. pose proof (R_clip b A R q) as Rc. rewrite Rc. rewrite (R_xl b A R), (R_xc b A R).
    destruct (rb_clip b) as [k|]; [|reflexivity].
    symmetry. apply cell_inb_intersect. }
  destruct R.
  constructor; cbn [astep fst set_a_aux a_lines a_cols a_aux ag];
    try assumption; try lia.
  - intros q Hq. apply R_clip_in. apply (Sh q Hq).
  - unfold ax_clip. destruct (r_intersect _ _); cbn [ax_set_clip xl]; exact R_xl.
  - unfold ax_clip. destruct (r_intersect _ _); cbn [ax_set_clip xc]; exact R_xc.
  - unfold ax_clip. destruct (r_intersect _ _); cbn [ax_set_clip depth]; exact R_depth.
  - unfold ax_clip. destruct (r_intersect _ _); cbn [ax_set_clip stack]; exact R_stack.
  - unfold ax_clip. destruct (r_intersect _ _); cbn [ax_set_clip stack]; exact R_stack_in.
Qed.

Lemma depth_ok_clip : forall b r, depth_ok b -> depth_ok (rb_clip_to b r).
Proof. intros b r H. exact H. Qed.

Lemma in_grid_inb : forall b A y x, Rrb b A -> in_grid A y x -> rb_inb b (y, x) = true.
Proof.
  intros b A y x R (Hy & Hx). rewrite (R_lines b A R) in Hy. rewrite (R_cols b A R) in Hx.
  unfold rb_inb. cbn [fst snd]. rewrite !andb_true_iff, !Z.leb_le, !Z.ltb_lt. lia.
Qed.

Lemma in_grid_len : forall A y x, ashape A -> in_grid A y x ->
  0 <= y < zlen (ag A) /\ 0 <= x < zlen (zn (ag A) y []).
Proof. intros A y x (H1 & H2) (Hy & Hx). rewrite H1, H2 by assumption. split; assumption. Qed.

Lemma Rrb_mask : forall b A r, Rrb b A -> Rrb (rb_mask_rect b r) (fst (astep A (OMask r))).
Proof.
  intros b A r R. pose proof R as R0. destruct R.
  constructor; cbn [astep fst a_mask set_ag a_lines a_cols a_aux ag
                    rb_mask_rect WinDefs.rb_lines WinDefs.rb_cols rb_cells rb_mask rb_clip rb_xl rb_xc rb_depth rb_stack];
    try assumption.
  - apply (ashape_mapi2 A _ (a_aux A) R_shape).
  - intros y x G. change (in_grid A y x) in G. destruct (in_grid_len A y x R_shape G) as (Ly & Lx).
    rewrite gcell_mapi2 by assumption. destruct (R_cells y x G) as (C1 & C2).
    pose proof (in_grid_inb b A y x R0 G) as Ib. destruct G as (Gy & Gx).
    rewrite mask_hole_cells by lia. rewrite R_xl, R_xc, Ib, andb_true_r. rewrite C2.
    destruct (rb_mask b (y, x)) as [k|] eqn:Em; cbn [mask_z].
    + pose proof (R_mask_ge _ _ Em). destruct (Z.eqb_spec k (-1)); [lia|]. rewrite andb_false_r.
      split; [exact C1|exact C2].
    + cbn [Z.eqb]. rewrite andb_true_r. destruct (cell_inb _ _); cbn [ac am mask_z]; [|split; assumption].
      split; [exact C1|exact R_depth].
  - intros q Hq. change (rb_inb b q = false) in Hq. destruct (R_outside q Hq) as (O1 & O2). split; [exact O1|].
    rewrite O2, Hq, andb_false_r. reflexivity.
  - intros q k. destruct (rb_mask b q) as [k'|] eqn:Em.
    + intros E. injection E as <-. eapply R_mask_ge. exact Em.
    + destruct (_ && _); [|discriminate]. intros E. injection E as <-. exact R_depth_ge.
Qed.

Lemma depth_ok_mask : forall b r, depth_ok b -> depth_ok (rb_mask_rect b r).
Proof. intros b r H. exact H. Qed.

(* restore needs [R_depth_stack]: a frame on the stack means depth >= 1 *)
Lemma Rrb_depth_ok : forall b A, Rrb b A -> depth_ok b.
Proof. intros b A R. exact (R_depth_stack b A R). Qed.

Lemma Rrb_restore : forall b A, Rrb b A -> Rrb (rb_restore b) (fst (astep A ORestore)).
Proof.
  intros b A R. pose proof (Rrb_depth_ok b A R) as D. pose proof R as R0. destruct R. cbn [astep fst]. unfold a_restore, rb_restore.
  unfold depth_ok in D.
  destruct (rb_stack b) as [|[[fl fc] fk] st] eqn:Es; inversion R_stack as [|f0 g st0 rest Fr Rst E1 E2]; subst.
  - exact R0.
  - rewrite <- E2 in R_stack_in. inversion R_stack_in as [|g0 rest0 Gin Rin]; subst.
    cbn [frame_rep] in Fr. destruct Fr as (F1 & F2 & F3 & F4).
    cbn [length] in D.
    assert (Ea : ax_restore (a_aux A) =
                 mkAux (f_vc_set g) (f_vc_line g) (f_vc_col g) (f_xl g) (f_xc g) (f_clip g) (f_pen g) (depth (a_aux A) - 1) rest).
    { unfold ax_restore. rewrite <- E2, F1. reflexivity. }
    rewrite Ea.
    constructor; cbn [a_lines a_cols a_aux ag clip xl xc depth stack
                      WinDefs.rb_lines WinDefs.rb_cols rb_cells rb_mask rb_clip rb_xl rb_xc rb_depth rb_stack];
      try assumption; try lia.
    + apply (ashape_map2 A _ _ R_shape).
    + intros y x G. change (in_grid A y x) in G. destruct (in_grid_len A y x R_shape G) as (Ly & Lx).
      rewrite gcell_map2 by assumption. destruct (R_cells y x G) as (C1 & C2).
      rewrite C2, R_depth.
      destruct (rb_mask b (y, x)) as [k|] eqn:Em; cbn [mask_z].
      * destruct (k >? rb_depth b - 1); cbn [ac am mask_z]; [split; [exact C1|reflexivity]|].
        split; [exact C1|exact C2].
      * destruct (Z.gtb_spec (-1) (rb_depth b - 1)); [lia|]. split; [exact C1|exact C2].
    + intros q Hq. change (rb_inb b q = false) in Hq. destruct (R_outside q Hq) as (O1 & O2). split; [exact O1|].
      rewrite O2. reflexivity.
    + intros q k. destruct (rb_mask b q) as [k'|] eqn:Em; [|discriminate].
      destruct (k' >? rb_depth b - 1); [discriminate|]. intros E. injection E as <-. eapply R_mask_ge. exact Em.
Qed.

Lemma depth_ok_restore : forall b, depth_ok b -> depth_ok (rb_restore b).
Proof.
  intros b. unfold depth_ok, rb_restore. destruct (rb_stack b) as [|[[fl fc] fk] st] eqn:Es.
  - rewrite Es. trivial.
  - cbn [rb_stack rb_depth length]. lia.
Qed.

(* ------------------------------------------------------------------------------------ *)
(* drawing: one [rb_draw] against one [a_paint] *)

(* the content a paint request leaves in a cell *)
Definition pcont (pt : WinDefs.paint) (old : option (Z * Z * cell)) : option Z :=
  match pt with
  | PSet c => Some c
  | PSkip => None
  | PLine bits => Some (LINEBASE + Z.lor (line_bits old) bits)
  end.

Lemma cont_draw : forall b id f q,
  cont (rb_cells (rb_draw b id f) q) =
  if rb_drawable b q
  then match f (fst q - rb_xl b, snd q - rb_xc b) with
       | Some pt => pcont pt (rb_cells b q)
       | None => cont (rb_cells b q)
       end
  else cont (rb_cells b q).
Proof.
  intros b id f q. cbn [rb_draw rb_cells]. destruct (rb_drawable b q); [|reflexivity].
  destruct (f _) as [[c| |bits]|]; reflexivity.
Qed.

Lemma same_ctl_draw : forall b id f, same_ctl b (rb_draw b id f).
Proof. intros. repeat split. Qed.

Lemma depth_ok_draw : forall b id f, depth_ok b -> depth_ok (rb_draw b id f).
Proof. intros b id f H. exact H. Qed.

Lemma depth_ok_prog : forall app prog id handed b, depth_ok b -> depth_ok (run_prog app prog id handed b).
Proof.
  intros app prog id handed. unfold run_prog. induction prog as [|o prog IH]; intros b H; cbn [fold_left]; [exact H|].
  apply IH. apply depth_ok_draw. exact H.
Qed.

Lemma drawable_spec : forall b A y x, Rrb b A -> in_grid A y x ->
  rb_drawable b (y, x) = cell_inb (clip (a_aux A)) (y, x) && (am (gcell (ag A) y x) =? -1).
Proof.
  intros b A y x R G. destruct (R_cells b A R y x G) as (_ & C2). rewrite C2, (R_clip b A R (y, x)).
  unfold rb_drawable. destruct (rb_clip b) as [k|]; [|reflexivity]. f_equal.
  destruct (rb_mask b (y, x)) as [m|] eqn:Em; cbn [mask_z]; [|reflexivity].
  pose proof (R_mask_ge b A R _ _ Em). destruct (Z.eqb_spec m (-1)); [lia|reflexivity].
Qed.

Lemma drawable_clip : forall b A q, Rrb b A -> rb_drawable b q = true -> cell_inb (clip (a_aux A)) q = true.
Proof.
  intros b A q R H. rewrite (R_clip b A R q). unfold rb_drawable in H. destruct (rb_clip b); [|discriminate].
  apply andb_true_iff in H. apply H.
Qed.

Lemma drawable_inb : forall b A q, Rrb b A -> rb_drawable b q = true -> rb_inb b q = true.
Proof. intros b A q R H. apply (R_clip_in b A R). eapply drawable_clip; eassumption. Qed.

Lemma inb_in_grid : forall b A y x, Rrb b A -> rb_inb b (y, x) = true -> in_grid A y x.
Proof.
  intros b A y x R H. unfold rb_inb in H. cbn [fst snd] in H. rewrite !andb_true_iff, !Z.leb_le, !Z.ltb_lt in H.
  unfold in_grid. rewrite (R_lines b A R), (R_cols b A R). lia.
Qed.

(* any buffer [b'] that differs from [b] in drawable cells only, as [a_paint] prescribes *)
Lemma Rrb_paint : forall b b' A r F, Rrb b A -> same_ctl b b' ->
  (forall q, rb_drawable b q = false -> cont (rb_cells b' q) = cont (rb_cells b q)) ->
  (forall y x, in_grid A y x -> rb_drawable b (y, x) = true ->
     crep (ac (gcell (ag A) y x)) (cont (rb_cells b (y, x))) ->
     if cell_inb (r_translate r (rb_xl b) (rb_xc b)) (y, x)
     then crep (F y x (ac (gcell (ag A) y x))) (cont (rb_cells b' (y, x)))
     else cont (rb_cells b' (y, x)) = cont (rb_cells b (y, x))) ->
  Rrb b' (a_paint A r F).
Proof.
  intros b b' A r F R S Hn Hd. pose proof S as (A1 & A2 & A3 & A4 & A5 & A6 & A7 & A8).
  pose proof R as R0. destruct R.
  constructor; cbn [a_paint set_ag a_lines a_cols a_aux ag]; try congruence.
  - apply (ashape_mapi2 A _ (a_aux A) R_shape).
  - intros y x G. change (in_grid A y x) in G. destruct (in_grid_len A y x R_shape G) as (Ly & Lx).
    rewrite gcell_mapi2 by assumption. destruct (R_cells y x G) as (C1 & C2). rewrite A3.
    pose proof (drawable_spec b A y x R0 G) as Ds. unfold target. rewrite R_xl, R_xc.
    destruct (rb_drawable b (y, x)) eqn:Ed.
    + symmetry in Ds. apply andb_true_iff in Ds. destruct Ds as (D1 & D2). rewrite D1, D2, !andb_true_r.
      specialize (Hd y x G Ed C1). destruct (cell_inb (r_translate r (rb_xl b) (rb_xc b)) (y, x)); cbn [ac am].
      * split; [exact Hd|exact C2].
      * rewrite Hd. split; [exact C1|exact C2].
    + rewrite (Hn _ Ed).
      replace (cell_inb (r_translate r (rb_xl b) (rb_xc b)) (y, x) && cell_inb (clip (a_aux A)) (y, x) &&
               (am (gcell (ag A) y x) =? -1)) with false; [split; assumption|].
      rewrite <- andb_assoc, <- Ds, andb_false_r. reflexivity.
  - intros q Hq. rewrite (same_ctl_inb b b' q S) in Hq. destruct (R_outside q Hq) as (O1 & O2).
    split; [|rewrite A3; exact O2]. apply cont_none. rewrite Hn; [rewrite O1; reflexivity|].
    destruct (rb_drawable b q) eqn:Ed; [|reflexivity]. rewrite (drawable_inb b A q R0 Ed) in Hq. discriminate.
  - intros q k Hq. rewrite A3 in Hq. eapply R_mask_ge. exact Hq.
  - rewrite A4. exact R_clip.
  - intros q Hq. rewrite (same_ctl_inb b b' q S). apply R_clip_in. exact Hq.
  - eapply Forall_impl; [|exact R_stack_in]. intros g Hg q Hq. rewrite (same_ctl_inb b b' q S). apply Hg. exact Hq.
Qed.

Lemma Rrb_draw : forall b A r F id f, Rrb b A ->
  (forall y x, in_grid A y x -> rb_drawable b (y, x) = true ->
     crep (ac (gcell (ag A) y x)) (cont (rb_cells b (y, x))) ->
     match f (y - rb_xl b, x - rb_xc b) with
     | Some pt => cell_inb (r_translate r (rb_xl b) (rb_xc b)) (y, x) = true /\
                  crep (F y x (ac (gcell (ag A) y x))) (pcont pt (rb_cells b (y, x)))
     | None => cell_inb (r_translate r (rb_xl b) (rb_xc b)) (y, x) = false
     end) ->
  Rrb (rb_draw b id f) (a_paint A r F).
Proof.
  intros b A r F id f R H. apply (Rrb_paint b _ A r F R (same_ctl_draw b id f)).
  - intros q Hq. rewrite cont_draw, Hq. reflexivity.
  - intros y x G Ed C1. specialize (H y x G Ed C1). rewrite cont_draw, Ed. cbn [fst snd].
    destruct (f (y - rb_xl b, x - rb_xc b)) as [pt|].
    + destruct H as (H1 & H2). rewrite H1. exact H2.
    + rewrite H. reflexivity.
Qed.

(* the cells of a row, seen from the relative position *)
Lemma row_rect_rel : forall l c n dl dc y x,
  cell_inb (r_translate (row_rect l c n) dl dc) (y, x) = (y - dl =? l) && (c <=? x - dc) && (x - dc <? c + n).
Proof.
  intros. apply bool_eq_iff. rewrite cell_inb_iff, !andb_true_iff, Z.eqb_eq, Z.leb_le, Z.ltb_lt.
  unfold r_translate, row_rect. cbn [top left lines cols]. lia.
Qed.

Lemma rect_rel : forall r dl dc y x,
  cell_inb (r_translate r dl dc) (y, x) = cell_inb r (y - dl, x - dc).
Proof.
  intros. apply bool_eq_iff. rewrite !cell_inb_iff. unfold r_translate. cbn [top left lines cols]. lia.
Qed.

(* ------------------------------------------------------------------------------------ *)
(* the texts an application row gives *)

Lemma row_chars_length : forall app id l c n, length (row_chars app id l c n) = Z.to_nat n.
Proof. intros. unfold row_chars. rewrite map_length, seq_length. reflexivity. Qed.

Lemma row_chars_in : forall app id l c n v, In v (row_chars app id l c n) -> exists k, v = app id l (c + Z.of_nat k).
Proof. intros app id l c n v H. unfold row_chars in H. apply in_map_iff in H. destruct H as (k & <- & _). exists k. reflexivity. Qed.

Lemma row_chars_narrow : forall app id l c n, app_ok app -> narrow (row_chars app id l c n).
Proof. intros app id l c n Ha v H. destruct (row_chars_in _ _ _ _ _ _ H) as (k & ->). apply Ha. Qed.

Lemma narrow_valid : forall t, narrow t -> text_valid t = true.
Proof.
  intros t H. unfold text_valid. apply forallb_forall. intros v Hv. rewrite (H v Hv). reflexivity.
Qed.

Lemma narrow_width : forall t, narrow t -> text_width t = zlen t.
Proof.
  intros t H. unfold text_width, zlen.
  assert (G : forall a, fold_left (fun a c => a + cpw c) t a = a + Z.of_nat (length t)).
  { induction t as [|v t IH]; intros a; cbn [fold_left length]; [lia|].
    rewrite IH by (intros w Hw; apply H; right; exact Hw). rewrite (H v) by (left; reflexivity). lia. }
  rewrite G. lia.
Qed.

Lemma row_chars_nth : forall app id l c n k, 0 <= k < n ->
  nth (Z.to_nat k) (row_chars app id l c n) 0 = app id l (c + k).
Proof.
  intros app id l c n k Hk. unfold row_chars.
  set (f := fun j : nat => app id l (c + Z.of_nat j)).
  transitivity (nth (Z.to_nat k) (map f (seq 0 (Z.to_nat n))) (f 0%nat)).
  { apply nth_indep. rewrite map_length, seq_length. lia. }
  rewrite map_nth. rewrite seq_nth by lia. unfold f. cbn [Nat.add]. rewrite Z2Nat.id by lia. reflexivity.
Qed.

(* ------------------------------------------------------------------------------------ *)
(* the drawing operations, one by one *)

Section Dops.
Variable app : Z -> Z -> Z -> Z.
Variables (id : Z) (handed : rect).
Hypothesis Happ : app_ok app.

Notation dcells b o := (dop_cells app id handed (WinDefs.rb_lines b) (WinDefs.rb_cols b) o).

Lemma Rrb_derase : forall b A l c n, Rrb b A ->
  Rrb (rb_draw b id (dcells b (DErase l c n))) (fst (astep A (OEraseAt l c n))).
Proof.
  intros b A l c n R. cbn [astep fst]. unfold a_erase. apply Rrb_draw; [exact R|].
  intros y x G Ed C1. cbn [dop_cells]. rewrite row_rect_rel.
  destruct (_ && _); [split; reflexivity|reflexivity].
Qed.

Lemma Rrb_dskip : forall b A l c n, Rrb b A ->
  Rrb (rb_draw b id (dcells b (DSkip l c n))) (fst (astep A (OSkipAt l c n))).
Proof.
  intros b A l c n R. cbn [astep fst]. unfold a_skip. apply Rrb_draw; [exact R|].
  intros y x G Ed C1. cbn [dop_cells]. rewrite row_rect_rel.
  destruct (_ && _); [split; reflexivity|reflexivity].
Qed.

Lemma Rrb_deraserect : forall b A r, Rrb b A ->
  Rrb (rb_draw b id (dcells b (DEraseRect r))) (fst (astep A (OEraseRect r))).
Proof.
  intros b A r R. cbn [astep fst]. unfold a_erase. apply Rrb_draw; [exact R|].
  intros y x G Ed C1. cbn [dop_cells]. rewrite rect_rel.
  destruct (cell_inb _ _); [split; reflexivity|reflexivity].
Qed.

Lemma Rrb_dclear : forall b A, Rrb b A ->
  Rrb (rb_draw b id (dcells b DClear)) (fst (astep A OClear)).
Proof.
  intros b A R. cbn [astep fst]. unfold a_erase. apply Rrb_draw; [exact R|].
  intros y x G Ed C1. cbn [dop_cells]. rewrite rect_rel. rewrite (R_lines b A R), (R_cols b A R).
  replace (cell_inb (mkRect 0 0 (WinDefs.rb_lines b) (WinDefs.rb_cols b)) (y - rb_xl b, x - rb_xc b))
    with ((0 <=? y - rb_xl b) && (y - rb_xl b <? WinDefs.rb_lines b) && (0 <=? x - rb_xc b) && (x - rb_xc b <? WinDefs.rb_cols b)).
  - destruct (_ && _); [split; reflexivity|reflexivity].
  - unfold cell_inb, bottom, right. cbn [top left lines cols fst snd]. reflexivity.
Qed.

Lemma Rrb_dchar : forall b A l c, Rrb b A ->
  Rrb (rb_draw b id (dcells b (DChar l c))) (fst (astep A (OCharAt l c (app id l c)))).
Proof.
  intros b A l c R. cbn [astep fst]. unfold a_char.
  destruct (Happ id l c) as (W & NL).
  replace (text_valid [app id l c]) with true by (unfold text_valid; cbn [forallb]; rewrite W; reflexivity).
  rewrite W. cbn [negb Z.eqb Pos.eqb]. apply Rrb_draw; [exact R|].
  intros y x G Ed C1. cbn [dop_cells]. rewrite row_rect_rel.
  destruct (Z.eqb_spec (y - rb_xl b) l) as [Ey|Ey]; cbn [andb]; [|destruct (x - rb_xc b =? c); reflexivity].
  destruct (Z.eqb_spec (x - rb_xc b) c) as [Ex|Ex].
  - replace ((c <=? x - rb_xc b) && (x - rb_xc b <? c + 1)) with true
      by (symmetry; rewrite andb_true_iff, Z.leb_le, Z.ltb_lt; lia).
    split; [reflexivity|]. cbn [crep pcont]. rewrite Ey, Ex. repeat split; assumption.
  - destruct ((c <=? x - rb_xc b) && (x - rb_xc b <? c + 1)) eqn:E; [|reflexivity].
    rewrite andb_true_iff, Z.leb_le, Z.ltb_lt in E. lia.
Qed.

Lemma Rrb_dtext : forall b A l c n, Rrb b A ->
  Rrb (rb_draw b id (dcells b (DText l c n))) (fst (astep A (OTextAt l c (row_chars app id l c n)))).
Proof.
  intros b A l c n R. cbn [astep].
  pose proof (row_chars_narrow app id l c n Happ) as Nw.
  rewrite (narrow_valid _ Nw). cbn [negb fst]. unfold a_text. rewrite (narrow_width _ Nw).
  unfold zlen. rewrite row_chars_length.
  apply Rrb_draw; [exact R|].
  intros y x G Ed C1. cbn [dop_cells]. rewrite row_rect_rel.
  destruct (Z.eqb_spec (y - rb_xl b) l) as [Ey|Ey]; cbn [andb]; [|reflexivity].
  destruct (Z.leb_spec c (x - rb_xc b)) as [E1|E1]; cbn [andb]; [|reflexivity].
  destruct (Z.ltb_spec (x - rb_xc b) (c + n)) as [E2|E2].
  - replace (x - rb_xc b <? c + Z.of_nat (Z.to_nat n)) with true by (symmetry; apply Z.ltb_lt; lia).
    split; [reflexivity|]. cbn [crep pcont]. rewrite (R_xc b A R).
    assert (Ek : 0 <= x - (c + rb_xc b) < n) by lia.
    rewrite row_chars_nth by exact Ek.
    unfold zlen. rewrite row_chars_length.
    replace (c + (x - (c + rb_xc b))) with (x - rb_xc b) by lia. rewrite Ey.
    split; [lia|]. split; [exact Nw|]. split; [reflexivity|]. apply Happ.
  - destruct (Z.ltb_spec (x - rb_xc b) (c + Z.of_nat (Z.to_nat n))); [lia|reflexivity].
Qed.

End Dops.

(* ------------------------------------------------------------------------------------ *)
(* [beq] is a congruence for drawing *)

Lemma line_bits_cont : forall v v', cont v = cont v' -> line_bits v = line_bits v'.
Proof.
  intros [[[c w] p]|] [[[c' w'] p']|] H; cbn [cont] in H; try discriminate; [|reflexivity].
  injection H as <-. reflexivity.
Qed.

Lemma beq_draw : forall b1 b2 id id' f f', beq b1 b2 -> (forall p, f p = f' p) ->
  beq (rb_draw b1 id f) (rb_draw b2 id' f').
Proof.
  intros b1 b2 id id' f f' (S & C) Hf. pose proof S as (A1 & A2 & A3 & A4 & A5 & A6 & A7 & A8). split.
  - repeat split; cbn [rb_draw WinDefs.rb_lines WinDefs.rb_cols rb_mask rb_clip rb_xl rb_xc rb_depth rb_stack]; assumption.
  - intros q. rewrite !cont_draw. rewrite (same_ctl_drawable b1 b2 q S), A5, A6, Hf.
    destruct (rb_drawable b1 q); [|apply C].
    destruct (f' _) as [[c| |bits]|]; cbn [pcont]; try reflexivity; [|apply C].
    rewrite (line_bits_cont _ _ (C q)). reflexivity.
Qed.

Lemma beq_run_prog : forall app prog id handed b1 b2, beq b1 b2 ->
  beq (run_prog app prog id handed b1) (run_prog app prog id handed b2).
Proof.
  intros app prog id handed. unfold run_prog.
  induction prog as [|o prog IH]; intros b1 b2 H; cbn [fold_left]; [exact H|].
  apply IH. pose proof H as ((A1 & A2 & _) & _). rewrite A1, A2. apply beq_draw; [exact H|reflexivity].
Qed.

Lemma beq_draw_none : forall b id f, (forall p, f p = None) -> beq b (rb_draw b id f).
Proof.
  intros b id f H. split; [apply same_ctl_draw|]. intros q. rewrite cont_draw, H.
  destruct (rb_drawable b q); reflexivity.
Qed.

(* ------------------------------------------------------------------------------------ *)
(* DPaint: the rows one after the other *)

Section Paint.
Variable app : Z -> Z -> Z -> Z.
Variables (id : Z) (handed : rect).
Hypothesis Happ : app_ok app.

Notation dcells b o := (dop_cells app id handed (WinDefs.rb_lines b) (WinDefs.rb_cols b) o).

Definition setf (g : cell -> bool) : cell -> option WinDefs.paint :=
  fun p => if g p then Some (PSet (app id (fst p) (snd p))) else None.

Lemma setf_merge : forall b g1 g2,
  beq (rb_draw (rb_draw b id (setf g1)) id (setf g2)) (rb_draw b id (setf (fun p => g1 p || g2 p))).
Proof.
  intros b g1 g2. split.
  - repeat split.
  - intros q. rewrite !cont_draw. rewrite (same_ctl_drawable _ _ q (same_ctl_draw b id (setf g1))).
    cbn [rb_draw rb_xl rb_xc]. destruct (rb_drawable b q); [|reflexivity].
    unfold setf. destruct (g1 _), (g2 _); reflexivity.
Qed.

(* character and text operations *)
Definition simple (o : dop) : Prop := match o with DChar _ _ | DText _ _ _ => True | _ => False end.
Definition region (o : dop) (p : cell) : bool :=
  match o with
  | DChar l c => (fst p =? l) && (snd p =? c)
  | DText l c n => (fst p =? l) && (c <=? snd p) && (snd p <? c + n)
  | _ => false
  end.

Lemma simple_cells : forall o nl nc p, simple o -> dop_cells app id handed nl nc o p = setf (region o) p.
Proof. intros o nl nc [y x] H. destruct o; try contradiction; reflexivity. Qed.

Lemma simple_prog_merge : forall prog b g0, Forall simple prog ->
  beq (run_prog app prog id handed (rb_draw b id (setf g0)))
      (rb_draw b id (setf (fun p => g0 p || existsb (fun o => region o p) prog))).
Proof.
  induction prog as [|o prog IH]; intros b g0 H.
  - cbn [run_prog fold_left existsb]. apply beq_draw; [apply beq_refl|]. intros p. unfold setf. rewrite orb_false_r. reflexivity.
  - inversion H as [|o' prog' Ho Hp]; subst. unfold run_prog. cbn [fold_left]. fold (run_prog app prog id handed).
    eapply beq_trans.
    + apply beq_run_prog. eapply beq_trans; [|apply (setf_merge b g0 (region o))].
      apply beq_draw; [apply beq_refl|]. intros p. apply simple_cells. exact Ho.
    + eapply beq_trans; [apply IH; exact Hp|]. apply beq_draw; [apply beq_refl|].
      intros p. unfold setf. cbn [existsb]. rewrite orb_assoc. reflexivity.
Qed.

Definition paint_prog : list dop :=
  flat_map (fun k =>
              let l := top handed + Z.of_nat k in
              if Z.odd l
              then map (fun j => DChar l (left handed + Z.of_nat j)) (seq 0 (Z.to_nat (cols handed)))
              else [DText l (left handed) (cols handed)])
           (seq 0 (Z.to_nat (lines handed))).

Lemma paint_prog_simple : Forall simple paint_prog.
Proof.
  apply Forall_forall. intros o H. unfold paint_prog in H. apply in_flat_map in H. destruct H as (k & _ & H).
  cbv zeta in H. destruct (Z.odd _).
  - apply in_map_iff in H. destruct H as (j & <- & _). exact I.
  - destruct H as [<-|[]]. exact I.
Qed.

Lemma paint_prog_region : forall p, existsb (fun o => region o p) paint_prog = cell_inb handed p.
Proof.
  intros [y x]. apply bool_eq_iff. rewrite existsb_exists, cell_inb_iff. split.
  - intros (o & Ho & Hr). unfold paint_prog in Ho. apply in_flat_map in Ho. destruct Ho as (k & Hk & Ho).
    apply in_seq in Hk. cbv zeta in Ho. destruct (Z.odd _).
    + apply in_map_iff in Ho. destruct Ho as (j & <- & Hj). apply in_seq in Hj. cbn [region fst snd] in Hr.
      rewrite andb_true_iff, !Z.eqb_eq in Hr. lia.
    + destruct Ho as [<-|[]]. cbn [region fst snd] in Hr.
      rewrite !andb_true_iff, Z.eqb_eq, Z.leb_le, Z.ltb_lt in Hr. lia.
  - intros (Hy & Hx).
    destruct (Z.odd y) eqn:Eo.
    + exists (DChar y x). split.
      * unfold paint_prog. apply in_flat_map. exists (Z.to_nat (y - top handed)). split; [apply in_seq; lia|].
        cbv zeta. replace (top handed + Z.of_nat (Z.to_nat (y - top handed))) with y by lia. rewrite Eo.
        apply in_map_iff. exists (Z.to_nat (x - left handed)). split; [f_equal; lia|apply in_seq; lia].
      * cbn [region fst snd]. rewrite !Z.eqb_refl. reflexivity.
    + exists (DText y (left handed) (cols handed)). split.
      * unfold paint_prog. apply in_flat_map. exists (Z.to_nat (y - top handed)). split; [apply in_seq; lia|].
        cbv zeta. replace (top handed + Z.of_nat (Z.to_nat (y - top handed))) with y by lia. rewrite Eo.
        left. reflexivity.
      * cbn [region fst snd]. rewrite !andb_true_iff, Z.eqb_eq, Z.leb_le, Z.ltb_lt. lia.
Qed.

Lemma paint_prog_draw : forall b,
  beq (run_prog app paint_prog id handed b) (rb_draw b id (dcells b DPaint)).
Proof.
  intros b. eapply beq_trans.
  - apply beq_run_prog. apply (beq_draw_none b id (setf (fun _ => false))). reflexivity.
  - eapply beq_trans; [apply simple_prog_merge; apply paint_prog_simple|].
    apply beq_draw; [apply beq_refl|]. intros [y x]. unfold setf. cbn [orb dop_cells fst snd].
    rewrite paint_prog_region. reflexivity.
Qed.

Lemma flat_map_flat_map : forall {X Y W} (f : Y -> list W) (g : X -> list Y) l,
  flat_map f (flat_map g l) = flat_map (fun x => flat_map f (g x)) l.
Proof.
  intros X Y W f g l. induction l as [|a l IH]; cbn [flat_map]; [reflexivity|].
  rewrite flat_map_app, IH. reflexivity.
Qed.

Lemma flat_map_single : forall {X Y} (f : X -> Y) l, flat_map (fun x => [f x]) l = map f l.
Proof. intros X Y f l. induction l as [|a l IH]; cbn [flat_map map Datatypes.app]; [reflexivity|]. rewrite IH. reflexivity. Qed.

Lemma paint_prog_ops : c_dop app id handed DPaint = c_prog app paint_prog id handed.
Proof.
  unfold c_prog, paint_prog. rewrite flat_map_flat_map. cbn [c_dop]. apply flat_map_ext. intros k. cbv zeta.
  destruct (Z.odd _).
  - induction (seq 0 (Z.to_nat (cols handed))) as [|j l IH]; cbn [map flat_map Datatypes.app c_dop]; [reflexivity|].
    rewrite <- IH. reflexivity.
  - cbn [flat_map c_dop Datatypes.app]. reflexivity.
Qed.

End Paint.

(* ------------------------------------------------------------------------------------ *)
(* line segments *)

Lemma bits16 : forall a b, 0 <= a <= 15 -> 0 <= b <= 15 ->
  0 <= Z.lor a b <= 15 /\ (1 <= b -> 1 <= Z.lor a b) /\ m8 (Z.lor a b) = Z.lor (m8 a) (m8 b).
Proof.
  assert (G : forallb (fun a => forallb (fun b =>
                (0 <=? Z.lor a b) && (Z.lor a b <=? 15) && ((b <? 1) || (1 <=? Z.lor a b)) &&
                (m8 (Z.lor a b) =? Z.lor (m8 a) (m8 b))) (zseq 0 16)) (zseq 0 16) = true) by (vm_compute; reflexivity).
  intros a b Ha Hb. rewrite forallb_forall in G. specialize (G a). rewrite forallb_forall in G.
  assert (Ia : In a (zseq 0 16)) by (apply in_zseq; lia). assert (Ib : In b (zseq 0 16)) by (apply in_zseq; lia).
  specialize (G Ia b Ib). rewrite !andb_true_iff, orb_true_iff, !Z.leb_le, Z.ltb_lt, Z.eqb_eq in G. lia.
Qed.

(* the segment bits of a content *)
Definition lbc (v : option Z) : Z :=
  match v with Some c => if is_line c then c - LINEBASE else 0 | None => 0 end.

Lemma line_bits_lbc : forall v, line_bits v = lbc (cont v).
Proof. intros [[[c w] p]|]; reflexivity. Qed.

Lemma lbc_range : forall v, 0 <= lbc v <= 15.
Proof.
  intros [c|]; cbn [lbc]; [|lia]. unfold is_line, LINEBASE.
  destruct (Z.ltb_spec 200 c); destruct (Z.leb_spec c (200 + 15)); cbn [andb]; lia.
Qed.

Lemma lbc_line : forall k, 1 <= k <= 15 -> lbc (Some (LINEBASE + k)) = k.
Proof.
  intros k Hk. cbn [lbc]. unfold is_line, LINEBASE.
  destruct (Z.ltb_spec 200 (200 + k)); [|lia]. destruct (Z.leb_spec (200 + k) (200 + 15)); [|lia]. cbn [andb]. lia.
Qed.

Definition ceq (q p : cell) : bool := (fst q =? fst p) && (snd q =? snd p).

Section Lines.
Variable id : Z.

Definition linef (p : cell) (bits : Z) : cell -> option WinDefs.paint :=
  fun q => if ceq q p then Some (PLine bits) else None.
Definition linesf (g : cell -> Z) : cell -> option WinDefs.paint :=
  fun q => if g q =? 0 then None else Some (PLine (g q)).

(* one linecell call *)
Lemma Rrb_linehit : forall b A l c bits, Rrb b A -> 1 <= bits <= 15 ->
  Rrb (rb_draw b id (linef (l, c) bits)) (a_linecell A l c (m8 bits)).
Proof.
  intros b A l c bits R Hb. unfold a_linecell. apply Rrb_draw; [exact R|].
  intros y x G Ed C1. unfold linef, ceq. cbn [fst snd]. rewrite row_rect_rel.
  destruct (Z.eqb_spec (y - rb_xl b) l) as [Ey|Ey]; cbn [andb]; [|reflexivity].
  destruct (Z.eqb_spec (x - rb_xc b) c) as [Ex|Ex].
  - replace ((c <=? x - rb_xc b) && (x - rb_xc b <? c + 1)) with true
      by (symmetry; rewrite andb_true_iff, Z.leb_le, Z.ltb_lt; lia).
    split; [reflexivity|]. cbn [pcont]. rewrite line_bits_lbc.
    destruct (ac (gcell (ag A) y x)) as [|p s k|p|p m|p cp]; cbn [crep] in C1.
    + rewrite C1. cbn [lbc]. rewrite !Z.lor_0_l. exists bits. repeat split; try lia.
    + destruct C1 as (_ & _ & C1 & C2). rewrite C1. cbn [lbc]. rewrite C2, !Z.lor_0_l. exists bits. repeat split; try lia.
    + rewrite C1. cbn [lbc]. replace (is_line BLANK) with false by reflexivity. rewrite !Z.lor_0_l. exists bits. repeat split; try lia.
    + destruct C1 as (b0 & Hb0 & -> & C1). rewrite C1, lbc_line by exact Hb0.
      destruct (bits16 b0 bits) as (K1 & K2 & K3); try lia.
      exists (Z.lor b0 bits). split; [lia|]. split; [symmetry; exact K3|reflexivity].
    + destruct C1 as (C1 & _ & C2). rewrite C1. cbn [lbc]. rewrite C2, !Z.lor_0_l. exists bits. repeat split; try lia.
  - destruct ((c <=? x - rb_xc b) && (x - rb_xc b <? c + 1)) eqn:E; [|reflexivity].
    rewrite andb_true_iff, Z.leb_le, Z.ltb_lt in E. lia.
Qed.

Definition hit_draws (hs : list (cell * Z)) (b : rbuf) : rbuf :=
  fold_left (fun b h => rb_draw b id (linef (fst h) (snd h))) hs b.

Lemma Rrb_hits : forall hs b A, Rrb b A -> Forall (fun h => 1 <= snd h <= 15) hs ->
  Rrb (hit_draws hs b)
      (fold_left (fun acc h => a_linecell acc (fst (fst h)) (snd (fst h)) (m8 (snd h))) hs A).
Proof.
  unfold hit_draws. induction hs as [|[[l c] bits] hs IH]; intros b A R H; cbn [fold_left]; [exact R|].
  inversion H as [|h0 hs0 H1 H2]; subst. apply IH; [|exact H2]. cbn [fst snd] in *. apply Rrb_linehit; assumption.
Qed.

Lemma beq_hit_draws : forall hs b1 b2, beq b1 b2 -> beq (hit_draws hs b1) (hit_draws hs b2).
Proof.
  unfold hit_draws. induction hs as [|h hs IH]; intros b1 b2 H; cbn [fold_left]; [exact H|].
  apply IH. apply beq_draw; [exact H|reflexivity].
Qed.

Lemma linesf_merge : forall b g p bits, (forall q, 0 <= g q <= 15) -> 1 <= bits <= 15 ->
  beq (rb_draw (rb_draw b id (linesf g)) id (linef p bits))
      (rb_draw b id (linesf (fun q => if ceq q p then Z.lor (g q) bits else g q))).
Proof.
  intros b g p bits Hg Hb. split; [repeat split|].
  intros q. rewrite !cont_draw. rewrite (same_ctl_drawable _ _ q (same_ctl_draw b id (linesf g))).
  cbn [rb_draw rb_xl rb_xc]. destruct (rb_drawable b q) eqn:Ed; [|reflexivity].
  set (rel := (fst q - rb_xl b, snd q - rb_xc b)).
  unfold linef at 1. unfold linesf at 1. destruct (ceq rel p).
  - destruct (bits16 (g rel) bits (Hg rel) ltac:(lia)) as (K1 & K2 & _).
    destruct (Z.eqb_spec (Z.lor (g rel) bits) 0) as [E|_]; [lia|].
    cbn [pcont]. rewrite !line_bits_lbc.
    change (rb_cells (WinDefs.mkRB (WinDefs.rb_lines b) (WinDefs.rb_cols b) _ (rb_mask b) (rb_clip b) (rb_xl b) (rb_xc b) (rb_depth b) (rb_stack b)) q)
      with (rb_cells (rb_draw b id (linesf g)) q).
    rewrite cont_draw, Ed. fold rel. unfold linesf.
    destruct (Z.eqb_spec (g rel) 0) as [E|E].
    + rewrite E, Z.lor_0_l. reflexivity.
    + cbn [pcont]. rewrite line_bits_lbc.
      destruct (bits16 (lbc (cont (rb_cells b q))) (g rel)) as (L1 & L2 & _); [apply lbc_range|apply Hg|].
      specialize (Hg rel). rewrite lbc_line by lia. rewrite Z.lor_assoc. reflexivity.
  - reflexivity.
Qed.

Definition hitbits (hs : list (cell * Z)) (q : cell) (a : Z) : Z :=
  fold_left (fun m h => if ceq q (fst h) then Z.lor m (snd h) else m) hs a.

Lemma hits_merge : forall hs b g, (forall q, 0 <= g q <= 15) -> Forall (fun h => 1 <= snd h <= 15) hs ->
  beq (hit_draws hs (rb_draw b id (linesf g))) (rb_draw b id (linesf (fun q => hitbits hs q (g q)))).
Proof.
  induction hs as [|[p bits] hs IH]; intros b g Hg H.
  - apply beq_refl.
  - inversion H as [|h0 hs0 H1 H2]; subst. cbn [snd] in H1.
    change (hit_draws ((p, bits) :: hs) (rb_draw b id (linesf g)))
      with (hit_draws hs (rb_draw (rb_draw b id (linesf g)) id (linef p bits))).
    eapply beq_trans; [apply beq_hit_draws; apply linesf_merge; assumption|].
    eapply beq_trans; [apply IH; [|exact H2]|apply beq_refl].
    intros q. cbv beta. destruct (ceq q p); [|apply Hg]. apply bits16; [apply Hg|lia].
Qed.

(* the hits of a line from a to b along [pos] *)
Definition zhits (a b fwd back : Z) : list (Z * Z) :=
  (a, fwd) :: map (fun k => (a + 1 + Z.of_nat k, Z.lor fwd back)) (seq 0 (Z.to_nat (b - 1 - a))) ++ [(b, back)].

Definition lhits (pos : Z -> cell) (a b fwd back : Z) : list (cell * Z) :=
  map (fun h => (pos (fst h), snd h)) (zhits a b fwd back).

Lemma lhits_range : forall pos a b fwd back, 1 <= fwd <= 15 -> 1 <= back <= 15 ->
  Forall (fun h => 1 <= snd h <= 15) (lhits pos a b fwd back).
Proof.
  intros pos a b fwd back Hf Hb. apply Forall_forall. intros h Hh. unfold lhits in Hh.
  apply in_map_iff in Hh. destruct Hh as ([t v] & <- & Hh). cbn [fst snd]. unfold zhits in Hh.
  destruct Hh as [Hh|Hh]; [injection Hh as <- <-; exact Hf|].
  apply in_app_or in Hh. destruct Hh as [Hh|[Hh|[]]]; [|injection Hh as <- <-; exact Hb].
  apply in_map_iff in Hh. destruct Hh as (k & Hh & _). injection Hh as <- <-.
  destruct (bits16 fwd back) as (K1 & K2 & _); lia.
Qed.

Lemma hitbits_app : forall h1 h2 q a, hitbits (h1 ++ h2) q a = hitbits h2 q (hitbits h1 q a).
Proof. intros. unfold hitbits. apply fold_left_app. Qed.

Lemma hitbits_cons : forall h hs q a,
  hitbits (h :: hs) q a = hitbits hs q (if ceq q (fst h) then Z.lor a (snd h) else a).
Proof. reflexivity. Qed.

Lemma hitbits_same : forall (ks : list nat) (pos : nat -> cell) bits q a,
  hitbits (map (fun k => (pos k, bits)) ks) q a =
  if existsb (fun k => ceq q (pos k)) ks then Z.lor a bits else a.
Proof.
  induction ks as [|k ks IH]; intros pos bits q a; cbn [map existsb]; [reflexivity|].
  rewrite hitbits_cons. cbn [fst snd].
  destruct (ceq q (pos k)); cbn [orb]; rewrite IH; [|reflexivity].
  destruct (existsb _ ks); [|reflexivity]. rewrite <- Z.lor_assoc, Z.lor_diag. reflexivity.
Qed.

Lemma hitbits_lhits : forall pos a b fwd back q on x,
  (forall t, ceq q (pos t) = on && (x =? t)) ->
  hitbits (lhits pos a b fwd back) q 0 = if on then seg_bits x a b fwd back else 0.
Proof.
  intros pos a b fwd back q on x Hp. unfold lhits, zhits. cbn [map]. rewrite map_app, map_map. cbn [map fst snd].
  change ((pos a, fwd) :: ?l) with ([(pos a, fwd)] ++ l).
  rewrite !hitbits_app.
  rewrite (hitbits_same _ (fun k => pos (a + 1 + Z.of_nat k))).
  unfold hitbits. cbn [fold_left fst snd]. rewrite !Hp.
  assert (Em : existsb (fun k => ceq q (pos (a + 1 + Z.of_nat k))) (seq 0 (Z.to_nat (b - 1 - a))) = on && ((a <? x) && (x <? b))).
  { apply bool_eq_iff. rewrite existsb_exists, !andb_true_iff, !Z.ltb_lt. split.
    - intros (k & Hk & Hc). apply in_seq in Hk. rewrite Hp, andb_true_iff, Z.eqb_eq in Hc. destruct Hc as (-> & ->). lia.
    - intros (-> & Hx). exists (Z.to_nat (x - a - 1)). split; [apply in_seq; lia|].
      rewrite Hp. cbn [andb]. apply Z.eqb_eq. lia. }
  rewrite Em. unfold seg_bits. destruct on; cbn [andb]; [|reflexivity].
  destruct (Z.eqb_spec x a) as [E1|E1]; destruct (Z.eqb_spec x b) as [E2|E2];
    destruct (Z.ltb_spec a x) as [E3|E3]; destruct (Z.ltb_spec x b) as [E4|E4]; cbn [andb]; try lia;
    rewrite ?Z.lor_0_l, ?Z.lor_0_r; reflexivity.
Qed.

Lemma fold_linecell_hits : forall (pos : Z -> cell) zs A,
  fold_left (fun acc cb => a_linecell acc (fst (pos (fst cb))) (snd (pos (fst cb))) (snd cb))
            (map (fun h => (fst h, m8 (snd h))) zs) A =
  fold_left (fun acc h => a_linecell acc (fst (fst h)) (snd (fst h)) (m8 (snd h)))
            (map (fun h => (pos (fst h), snd h)) zs) A.
Proof.
  intros pos zs. induction zs as [|z zs IH]; intros A; cbn [map fold_left fst snd]; [reflexivity|]. apply IH.
Qed.

(* a whole line: the sequence of linecell calls against the single drawing request *)
Lemma Rrb_line : forall b A pos a c fwd back f, Rrb b A -> 1 <= fwd <= 15 -> 1 <= back <= 15 ->
  (forall q, f q = linesf (fun q => hitbits (lhits pos a c fwd back) q 0) q) ->
  Rrb (rb_draw b id f)
      (fold_left (fun acc h => a_linecell acc (fst (fst h)) (snd (fst h)) (m8 (snd h))) (lhits pos a c fwd back) A).
Proof.
  intros b A pos a c fwd back f R Hf Hb Hq.
  pose proof (lhits_range pos a c fwd back Hf Hb) as Hr.
  apply (Rrb_ext (hit_draws (lhits pos a c fwd back) b)); [apply Rrb_hits; assumption|].
  eapply beq_trans.
  - apply beq_hit_draws. apply (beq_draw_none b id (linesf (fun _ => 0))). reflexivity.
  - eapply beq_trans; [apply hits_merge; [intros; lia|exact Hr]|].
    apply beq_draw; [apply beq_refl|]. intros q. symmetry. apply Hq.
Qed.

End Lines.

(* ------------------------------------------------------------------------------------ *)
(* hline_at / vline_at *)

Lemma hline_bits_zhits : forall c1 c2, hline_bits c1 c2 1 0 = map (fun h => (fst h, m8 (snd h))) (zhits c1 c2 2 8).
Proof.
  intros c1 c2. unfold hline_bits, zhits. cbn [map]. rewrite map_app, map_map. cbn [map fst snd]. reflexivity.
Qed.

Lemma vline_bits_zhits : forall l1 l2, vline_bits l1 l2 1 0 = map (fun h => (fst h, m8 (snd h))) (zhits l1 l2 4 1).
Proof.
  intros l1 l2. unfold vline_bits, zhits. cbn [map]. rewrite map_app, map_map. cbn [map fst snd]. reflexivity.
Qed.

Section Dlines.
Variable app : Z -> Z -> Z -> Z.
Variables (id : Z) (handed : rect).

Notation dcells b o := (dop_cells app id handed (WinDefs.rb_lines b) (WinDefs.rb_cols b) o).

Lemma Rrb_dhline : forall b A l c1 c2, Rrb b A ->
  Rrb (rb_draw b id (dcells b (DHline l c1 c2))) (fst (astep A (OHLine l c1 c2 1 0))).
Proof.
  intros b A l c1 c2 R. cbn [astep fst]. rewrite hline_bits_zhits.
  change (fold_left (fun acc cb => a_linecell acc l (fst cb) (snd cb)) (map (fun h => (fst h, m8 (snd h))) (zhits c1 c2 2 8)) A)
    with (fold_left (fun acc cb => a_linecell acc (fst ((fun t => (l, t)) (fst cb))) (snd ((fun t => (l, t)) (fst cb))) (snd cb))
                    (map (fun h => (fst h, m8 (snd h))) (zhits c1 c2 2 8)) A).
  rewrite (fold_linecell_hits (fun t => (l, t))). fold (lhits (fun t => (l, t)) c1 c2 2 8).
  apply Rrb_line; [exact R|lia|lia|].
  intros [y x]. unfold linesf.
  rewrite (hitbits_lhits (fun t => (l, t)) c1 c2 2 8 (y, x) (y =? l) x) by (intros t; reflexivity).
  cbn [dop_cells]. destruct (y =? l); cbn [andb]; [|reflexivity]. unfold seg_bits.
  destruct (x =? c1), (x =? c2), ((c1 <? x) && (x <? c2)); reflexivity.
Qed.

Lemma Rrb_dvline : forall b A l1 l2 c, Rrb b A ->
  Rrb (rb_draw b id (dcells b (DVline l1 l2 c))) (fst (astep A (OVLine l1 l2 c 1 0))).
Proof.
  intros b A l1 l2 c R. cbn [astep fst]. rewrite vline_bits_zhits.
  change (fold_left (fun acc lb => a_linecell acc (fst lb) c (snd lb)) (map (fun h => (fst h, m8 (snd h))) (zhits l1 l2 4 1)) A)
    with (fold_left (fun acc cb => a_linecell acc (fst ((fun t => (t, c)) (fst cb))) (snd ((fun t => (t, c)) (fst cb))) (snd cb))
                    (map (fun h => (fst h, m8 (snd h))) (zhits l1 l2 4 1)) A).
  rewrite (fold_linecell_hits (fun t => (t, c))). fold (lhits (fun t => (t, c)) l1 l2 4 1).
  apply Rrb_line; [exact R|lia|lia|].
  intros [y x]. unfold linesf.
  rewrite (hitbits_lhits (fun t => (t, c)) l1 l2 4 1 (y, x) (x =? c) y)
    by (intros t; unfold ceq; cbn [fst snd]; apply andb_comm).
  cbn [dop_cells]. destruct (x =? c); cbn [andb]; [|reflexivity]. unfold seg_bits.
  destruct (y =? l1), (y =? l2), ((l1 <? y) && (y <? l2)); reflexivity.
Qed.

End Dlines.

(* ------------------------------------------------------------------------------------ *)
(* one drawing operation, a whole program *)

Lemma Rrb_prog_simple : forall app id handed prog b A, app_ok app -> Forall (simple) prog -> Rrb b A ->
  Rrb (run_prog app prog id handed b) (fst (arun A (c_prog app prog id handed))).
Proof.
  intros app id handed prog. unfold run_prog, c_prog.
  induction prog as [|o prog IH]; intros b A Ha Hs R; cbn [fold_left flat_map]; [exact R|].
  inversion Hs as [|o' p' H1 H2]; subst. rewrite arun_app. apply IH; [exact Ha|exact H2|].
  destruct o; try contradiction; cbn [c_dop]; rewrite arun_one.
  - apply Rrb_dtext; assumption.
  - apply Rrb_dchar; assumption.
Qed.

Lemma Rrb_dop : forall app id handed o b A, app_ok app -> Rrb b A ->
  Rrb (rb_draw b id (dop_cells app id handed (WinDefs.rb_lines b) (WinDefs.rb_cols b) o))
      (fst (arun A (c_dop app id handed o))).
Proof.
  intros app id handed o b A Ha R. destruct o; cbn [c_dop]; try rewrite arun_one.
  - (* DPaint *)
    change (flat_map _ (seq 0 (Z.to_nat (lines handed)))) with (c_dop app id handed DPaint).
    rewrite paint_prog_ops.
    apply (Rrb_ext (run_prog app (paint_prog handed) id handed b)).
    + apply Rrb_prog_simple; [exact Ha|apply paint_prog_simple|exact R].
    + apply paint_prog_draw.
  - apply Rrb_dtext; assumption.
  - apply Rrb_derase; assumption.
  - apply Rrb_dchar; assumption.
  - apply Rrb_dhline; assumption.
  - apply Rrb_dvline; assumption.
  - apply Rrb_deraserect; assumption.
  - apply Rrb_dskip; assumption.
  - apply Rrb_dclear; assumption.
Qed.

Lemma Rrb_prog : forall app prog id handed b A, app_ok app -> Rrb b A ->
  Rrb (run_prog app prog id handed b) (fst (arun A (c_prog app prog id handed))).
Proof.
  intros app prog id handed. unfold run_prog, c_prog.
  induction prog as [|o prog IH]; intros b A Ha R; cbn [fold_left flat_map]; [exact R|].
  rewrite arun_app. apply IH; [exact Ha|]. apply Rrb_dop; assumption.
Qed.

(* ------------------------------------------------------------------------------------ *)
(* the side conditions of the C04 theorems *)

Lemma c_dop_op_ok : forall app id handed o, Forall op_ok (c_dop app id handed o).
Proof.
  intros app id handed o. apply Forall_forall. intros x Hx.
  destruct o; cbn [c_dop] in Hx;
    try (destruct Hx as [<-|[]]; cbn [op_ok]; try exact I; lia).
  apply in_flat_map in Hx. destruct Hx as (k & _ & Hx). cbv zeta in Hx. destruct (Z.odd _).
  - apply in_map_iff in Hx. destruct Hx as (j & <- & _). exact I.
  - destruct Hx as [<-|[]]. exact I.
Qed.

Lemma c_prog_op_ok : forall app prog id handed, Forall op_ok (c_prog app prog id handed).
Proof.
  intros app prog id handed. apply Forall_forall. intros x Hx. unfold c_prog in Hx.
  apply in_flat_map in Hx. destruct Hx as (o & _ & Hx).
  pose proof (c_dop_op_ok app id handed o) as F. rewrite Forall_forall in F. apply F. exact Hx.
Qed.

Lemma c_dop_op_narrow : forall app id handed o, app_ok app -> Forall op_narrow (c_dop app id handed o).
Proof.
  intros app id handed o Ha. apply Forall_forall. intros x Hx.
  destruct o; cbn [c_dop] in Hx;
    try (destruct Hx as [<-|[]]; cbn [op_narrow]; try exact I).
  - apply in_flat_map in Hx. destruct Hx as (k & _ & Hx). cbv zeta in Hx. destruct (Z.odd _).
    + apply in_map_iff in Hx. destruct Hx as (j & <- & _). cbn [op_narrow]. left. apply Ha.
    + destruct Hx as [<-|[]]. cbn [op_narrow]. apply row_chars_narrow. exact Ha.
  - apply row_chars_narrow. exact Ha.
  - left. apply Ha.
Qed.

Lemma c_prog_op_narrow : forall app prog id handed, app_ok app -> Forall op_narrow (c_prog app prog id handed).
Proof.
  intros app prog id handed Ha. apply Forall_forall. intros x Hx. unfold c_prog in Hx.
  apply in_flat_map in Hx. destruct Hx as (o & _ & Hx).
  pose proof (c_dop_op_narrow app id handed o Ha) as F. rewrite Forall_forall in F. apply F. exact Hx.
Qed.
