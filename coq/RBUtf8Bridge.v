(* RBUtf8Bridge.v -- the render-buffer model measures and slices texts as lists of code points
   (RBDefs.countmore, text_valid, text_width, cpw).  This file composes it with property C07:
   on the UTF-8 encoding of such a list, the model of tickit_utf8_ncountmore (Utf8Defs, proved
   against its specification in C07) returns exactly what RBDefs computes -- same code-point,
   grapheme and column counters, the error value exactly for the strings RBDefs calls invalid.
   Interface used: Utf8Walk.ncountmore_walk (the first half of C07_count_is_spec: the byte loop
   is the item-level walk over the decoding of the effective string), Utf8PutCount's
   description of the bytes tickit_utf8_put stores, C07_wcwidth_is_membership. *)
From Coq Require Import ZArith List Bool Lia.
From Tickit Require Import Gen_Width Utf8Defs Utf8Spec Utf8Tables Utf8Bits Utf8Walk Utf8Units Utf8Proofs Utf8PutCount.
From Tickit Require Import RectDefs RBDefs RBWidth.
Import ListNotations.
Local Open Scope Z_scope.

Ltac Zify.zify_post_hook ::= Z.div_mod_to_equations.

(* the UTF-8 encoding of a list of code points, as tickit_utf8_put produces it *)
Definition enc (s : list Z) : list Z := flat_map put_bytes s.

Definition cp_ok (c : Z) : Prop := 0 < c < 0x200000.
Definition cps_ok (s : list Z) : Prop := Forall cp_ok s.

Definition item_of (c : Z) : item := mkItem c (u8_seqlen c) (spec_width c).

(* forgetting the byte counter *)
Definition forget (p : Utf8Defs.spos) : RBDefs.spos := RBDefs.mkPos (p_cps p) (p_graphs p) (p_cols p).

(* ---------------------------------------------------------------------------------- *)
(* decoding an encoding *)

Ltac cmpf := symmetry; apply Z.ltb_ge; lia.
Ltac cmpt := symmetry; apply Z.ltb_lt; lia.

Lemma decode_put_app : forall c rest, cp_ok c ->
  decode (put_bytes c ++ rest) = mk_item c (u8_seqlen c) (decode rest).
Proof.
  intros c rest H. unfold cp_ok in H.
  destruct (Z_lt_le_dec c 0x80) as [H1|H1].
  { rewrite put_bytes_1, seqlen_1 by lia. cbn [app decode].
    replace (c <? 0x80) with true by cmpt. reflexivity. }
  destruct (Z_lt_le_dec c 0x800) as [H2|H2].
  { rewrite put_bytes_2, seqlen_2 by lia. cbn [app decode].
    replace (192 + c / 64 <? 0x80) with false by cmpf.
    replace (192 + c / 64 <? 0xc0) with false by cmpf.
    replace (192 + c / 64 <? 0xe0) with true by cmpt.
    f_equal. unfold cont. lia. }
  destruct (Z_lt_le_dec c 0x10000) as [H3|H3].
  { rewrite put_bytes_3, seqlen_3 by lia. cbn [app decode].
    replace (224 + c / 4096 <? 0x80) with false by cmpf.
    replace (224 + c / 4096 <? 0xc0) with false by cmpf.
    replace (224 + c / 4096 <? 0xe0) with false by cmpf.
    replace (224 + c / 4096 <? 0xf0) with true by cmpt.
    f_equal. unfold cont. lia. }
  rewrite put_bytes_4, seqlen_4 by lia. cbn [app decode].
  replace (240 + c / 262144 <? 0x80) with false by cmpf.
  replace (240 + c / 262144 <? 0xc0) with false by cmpf.
  replace (240 + c / 262144 <? 0xe0) with false by cmpf.
  replace (240 + c / 262144 <? 0xf0) with false by cmpf.
  replace (240 + c / 262144 <? 0xf8) with true by cmpt.
  f_equal. unfold cont. lia.
Qed.

Lemma cpw_ok_spec : forall c, 0 <= cpw c -> cp_ok c /\ bad_cp c = false /\ cpw c = spec_width c.
Proof.
  intros c H. unfold cpw in *.
  destruct (Z.leb_spec c 0); cbn [orb] in *; [lia|].
  destruct (Z.leb_spec 0x200000 c); cbn [orb] in *; [lia|].
  destruct (bad_cp c); [lia|]. unfold cp_ok. split; [lia|]. split; reflexivity.
Qed.

Lemma cpw_bad : forall c, cp_ok c -> cpw c < 0 -> bad_cp c = true.
Proof.
  intros c H Hn. unfold cpw, cp_ok in *.
  destruct (Z.leb_spec c 0); cbn [orb] in *; [lia|].
  destruct (Z.leb_spec 0x200000 c); cbn [orb] in *; [lia|].
  destruct (bad_cp c); [reflexivity|]. pose proof (spec_width_range c). lia.
Qed.

Lemma enc_nonul : forall s, cps_ok s -> nonul (enc s).
Proof.
  induction s as [|c s IH]; intros H; [constructor|]. inversion H; subst.
  unfold enc. cbn [flat_map]. unfold nonul in *. apply Forall_app. split; [|apply IH; assumption].
  destruct (put_decode c H2) as (N & _). exact N.
Qed.

(* the decoding of the encoding of a valid list is the list, item by item *)
Lemma decode_enc : forall s, valid s -> decode (enc s) = (map item_of s, false).
Proof.
  induction s as [|c s IH]; intros V; [reflexivity|].
  assert (Vc : 0 <= cpw c) by (apply V; left; reflexivity).
  destruct (cpw_ok_spec c Vc) as (Hc & Hb & _).
  unfold enc in *. cbn [flat_map map]. rewrite decode_put_app by exact Hc.
  rewrite IH by (intros x Hx; apply V; right; exact Hx). unfold mk_item. rewrite Hb. reflexivity.
Qed.

(* ... and of a list with an invalid code point ends at a bad place *)
Lemma decode_enc_bad : forall s, cps_ok s -> text_valid s = false -> snd (decode (enc s)) = true.
Proof.
  induction s as [|c s IH]; intros H E; [discriminate|]. inversion H; subst.
  unfold enc in *. cbn [flat_map]. rewrite decode_put_app by assumption. unfold mk_item.
  destruct (bad_cp c) eqn:Eb; [reflexivity|]. cbn [snd]. apply IH; [assumption|].
  unfold text_valid in *. cbn [forallb] in E. apply andb_false_iff in E. destruct E as [E|E]; [|exact E].
  exfalso. apply Z.leb_gt in E. pose proof (cpw_bad c H2 E). congruence.
Qed.

(* ---------------------------------------------------------------------------------- *)
(* RBDefs.countmore is the item-level walk of C07 *)

Definition rb_limit (lg lc : Z) : option Utf8Defs.spos := Some (Utf8Defs.mkPos (-1) (-1) lg lc).

Lemma within_rb : forall p lg lc,
  within p (rb_limit lg lc) =
  negb (negb (lg =? -1) && (p_graphs p >? lg)) && negb (negb (lc =? -1) && (p_cols p >? lc)).
Proof.
  intros p lg lc. unfold within, rb_limit, fld_ok. cbn [p_bytes p_cps p_graphs p_cols].
  change (-1 =? -1) with true. cbn [orb andb].
  destruct (lg =? -1), (lc =? -1); cbn [negb andb orb];
    destruct (Z.leb_spec (p_graphs p) lg); destruct (Z.gtb_spec (p_graphs p) lg);
    destruct (Z.leb_spec (p_cols p) lc); destruct (Z.gtb_spec (p_cols p) lc); try lia; reflexivity.
Qed.

Lemma walk_countmore : forall rest pos here lg lc, valid rest ->
  exists p, walk (map item_of rest) false (rb_limit lg lc) pos here = WOk p /\
            forget p = countmore rest (forget pos) (forget here) lg lc.
Proof.
  induction rest as [|c rest IH]; intros pos here lg lc V; cbn [map walk countmore].
  - exists here. split; reflexivity.
  - assert (Vc : 0 <= cpw c) by (apply V; left; reflexivity).
    destruct (cpw_ok_spec c Vc) as (Hc & Hb & Ew).
    assert (Vr : valid rest) by (intros x Hx; apply V; right; exact Hx).
    rewrite within_rb. unfold pos_add_item, item_of, spacing. cbn [it_w it_nb it_cp p_graphs p_cols p_cps p_bytes].
    rewrite <- Ew. unfold forget in *. cbn [sp_gr sp_col sp_cp].
    destruct (negb (lg =? -1) && (p_graphs here + (if 0 <? cpw c then 1 else 0) >? lg)) eqn:E1; cbn [negb andb].
    + eexists. split; [reflexivity|]. destruct (0 <? cpw c); reflexivity.
    + destruct (negb (lc =? -1) && (p_cols here + cpw c >? lc)) eqn:E2; cbn [negb].
      * eexists. split; [reflexivity|]. destruct (0 <? cpw c); reflexivity.
      * destruct (IH (if 0 <? cpw c then here else pos)
                     (Utf8Defs.mkPos (p_bytes here + u8_seqlen c) (p_cps here + 1)
                        (p_graphs here + (if 0 <? cpw c then 1 else 0)) (p_cols here + cpw c)) lg lc Vr) as (p & Hp & Hf).
        exists p. split; [exact Hp|]. rewrite Hf. cbn [p_cps p_graphs p_cols].
        destruct (0 <? cpw c); reflexivity.
Qed.

(* ---------------------------------------------------------------------------------- *)
(* the theorems *)

(* tickit_utf8_countmore(text, &pos, &limit) with a grapheme and/or column limit, started at a
   code-point boundary of a valid string: the model of the C function (on the encoded bytes,
   NUL-terminated, anything behind the NUL) returns normally, and its code-point, grapheme
   and column counters are RBDefs.count_on's. *)
Theorem rb_count_on_is_utf8 : forall a b junk g col lg lc,
  valid b -> cps_ok a ->
  let pos := Utf8Defs.mkPos (Z.of_nat (length (enc a))) (Z.of_nat (length a)) g col in
  exists r p, u8_ncountmore (enc a ++ enc b ++ 0 :: junk) None pos (rb_limit lg lc) = CRet r p /\ r <> -1 /\
              forget p = count_on (a ++ b) (forget pos) lg lc.
Proof.
  intros a b junk g col lg lc V Ha pos.
  assert (Hb : cps_ok b).
  { apply Forall_forall. intros c Hc. apply (cpw_ok_spec c (V c Hc)). }
  rewrite (ncountmore_walk (enc a) (enc b) (0 :: junk) None pos (rb_limit lg lc)); [|reflexivity|apply enc_nonul; exact Hb|cbn; eauto].
  unfold model_abs. rewrite (decode_enc b V). cbn [fst snd].
  destruct (walk_countmore b pos pos lg lc V) as (p & Hp & Hf). rewrite Hp. cbn [wfin].
  eexists. eexists. split; [reflexivity|]. split.
  - (* the byte count is not negative *)
    assert (G : forall its bad lim po he q, walk its bad lim po he = WOk q -> items_nonneg its ->
                p_bytes po <= p_bytes he -> p_bytes po <= p_bytes q).
    { induction its as [|i its IHi]; intros bad lim po he q Hw Hn Hle; cbn [walk] in Hw.
      - destruct bad; inversion Hw; subst. exact Hle.
      - inversion Hn as [|? ? Hi Hn']; subst. destruct Hi as (Hi1 & Hi2).
        destruct (within (pos_add_item he i) lim).
        + destruct (spacing i).
          * apply (IHi _ _ _ _ _ Hw Hn') in Hle as _ || idtac.
            assert (p_bytes he <= p_bytes q).
            { apply (IHi bad lim he (pos_add_item he i) q Hw Hn'). unfold pos_add_item. cbn [p_bytes]. lia. }
            lia.
          * apply (IHi bad lim po (pos_add_item he i) q Hw Hn'). unfold pos_add_item. cbn [p_bytes]. lia.
        + destruct (spacing i); inversion Hw; subst; lia. }
    assert (Hn : items_nonneg (map item_of b)).
    { apply Forall_forall. intros i Hi. apply in_map_iff in Hi. destruct Hi as (c & <- & Hc). unfold item_nonneg, item_of. cbn [it_nb it_w].
      pose proof (spec_width_range c). unfold u8_seqlen. repeat destruct (_ <? _); lia. }
    pose proof (G _ _ _ _ _ _ Hp Hn ltac:(lia)). lia.
  - rewrite Hf. unfold count_on, skipz, forget, pos. cbn [p_cps p_graphs p_cols sp_cp].
    rewrite Nat2Z.id, skipn_app, skipn_all, Nat.sub_diag. reflexivity.
Qed.

(* tickit_utf8_ncount(str, len, &pos, NULL) on any encoded list of code points: the error
   value exactly when RBDefs calls the string invalid; otherwise the whole string is counted,
   and its column count is RBDefs.text_width. *)
Theorem rb_valid_is_utf8 : forall s junk, cps_ok s ->
  let len := Z.of_nat (length (enc s)) in
  if text_valid s
  then exists g, u8_ncount (enc s ++ junk) len None =
                 CRet len (Utf8Defs.mkPos len (Z.of_nat (length s)) g (text_width s))
  else exists p, u8_ncount (enc s ++ junk) len None = CRet (-1) p.
Proof.
  intros s junk H len. unfold u8_ncount.
  assert (Ew : u8_ncountmore (enc s ++ junk) (Some len) pos_zero None = model_abs (enc s) pos_zero None).
  { apply (ncountmore_walk [] (enc s) junk (Some len) pos_zero None); [reflexivity|apply enc_nonul; exact H|].
    cbn. left. unfold len. lia. }
  rewrite Ew. unfold model_abs.
  destruct (text_valid s) eqn:Ev.
  - assert (V := text_valid_valid s Ev). rewrite (decode_enc s V). cbn [fst snd].
    (* without a limit the walk consumes everything *)
    assert (G : forall rest po he, valid rest ->
              walk (map item_of rest) false None po he =
              WOk (Utf8Defs.mkPos (p_bytes he + Z.of_nat (length (enc rest))) (p_cps he + Z.of_nat (length rest))
                     (p_graphs he + graphs_of (map item_of rest)) (p_cols he + tw rest))).
    { induction rest as [|c rest IH]; intros po he Vr; cbn [map walk within].
      - cbn [length enc flat_map tw graphs_of fold_right Z.of_nat]. rewrite !Z.add_0_r. destruct he; reflexivity.
      - assert (Vc : 0 <= cpw c) by (apply Vr; left; reflexivity).
        destruct (cpw_ok_spec c Vc) as (Hc & Hb & Ew').
        rewrite IH by (intros x Hx; apply Vr; right; exact Hx).
        unfold pos_add_item, item_of. cbn [it_nb it_w p_bytes p_cps p_graphs p_cols].
        destruct (put_decode c Hc) as (_ & Hl & _).
        unfold enc. cbn [flat_map length tw graphs_of fold_right]. fold (enc rest). rewrite app_length, Nat2Z.inj_add, Hl.
        rewrite Nat2Z.inj_succ. rewrite Ew'. f_equal.
        destruct (spacing _); f_equal; try lia; unfold graphs_of; lia. }
    rewrite (G s pos_zero pos_zero V). cbn [wfin pos_zero p_bytes p_cps p_graphs p_cols].
    rewrite !Z.add_0_l, Z.sub_0_r, <- text_width_tw. fold len. eauto.
  - pose proof (decode_enc_bad s H Ev) as Hb. rewrite Hb.
    (* no limit: the walk reaches the bad place *)
    assert (G : forall its po he, exists q, walk its true None po he = WErr q).
    { induction its as [|i its IH]; intros po he; cbn [walk within]; [eauto|]. apply IH. }
    destruct (G (fst (decode (enc s))) pos_zero pos_zero) as (q & ->). cbn [wfin]. eauto.
Qed.
