(* RBCopyDefs.v -- executable model of copyrect / tickit_renderbuffer_copyrect / _moverect /
   _blit (src/renderbuffer.c), with the part of src/rectset.c that moverect uses.
   Definitions only.

   The copyrect modelled here is the REPAIRED one (fixes/C13-copyrect-spans.patch): state and
   remaining length of the source span are taken before anything is written, the remaining
   length is cols - offset, and a text span is copied by referring to the same string at the
   same column offset (put_substr) instead of re-slicing its bytes. *)
From Coq Require Import ZArith List Bool.
From Tickit Require Import RectDefs RBDefs.
Import ListNotations.
Local Open Scope Z_scope.

Definition row_of (s : rb) (line : Z) : res row :=
  if (0 <=? line) && (line <? Z.of_nat (length (cells s))) then Ok (nth (Z.to_nat line) (cells s) []) else Fault.

Definition content_pen (c : content) : pen :=
  match c with
  | CSkip => pen_empty
  | CText p _ _ | CErase p | CLine p _ | CChar p _ => p
  end.

(* the body of the column loop for the span portion starting at [col]: returns the new
   destination and the next value of col *)
Definition copy_span (samerb : bool) (src dst : rb) (line col : Z) (sr : rect) (lineoffs coloffs : Z)
           (leftwards copy_skip : bool) : res (rb * Z) :=
  let srcb := if samerb then dst else src in
  do srow <- row_of srcb line;
  do cell0 <- getr srow col;
  do2 (cell, colo) <-
    (match ck cell0 with
     | Cont sc =>
         do c <- getr srow sc;
         let col' := if leftwards then (if sc <? left sr then left sr else sc) else col in
         Ok (c, (col', col' - sc))
     | Start _ _ => Ok (cell0, (col, 0))
     end);
  let col := fst colo in
  let offset := snd colo in
  match ck cell with
  | Cont _ => Fault                                  (* abort() *)
  | Start c n =>
      let spancols := n - offset in
      let cols := if col + spancols >? right sr then right sr - col else spancols in
      do dst' <-
        (match c with
         | CSkip => if copy_skip then skip dst (line + lineoffs) (col + coloffs) cols else Ok dst
         | _ =>
             (* savepen; setpen(cell->pen); ...; restore *)
             let d1 := set_aux dst (ax_setpen (ax_savepen (aux dst)) (Some (content_pen c))) in
             do d2 <-
               (match c with
                | CText _ t offs => put_substr d1 (line + lineoffs) (col + coloffs) t (offs + offset) cols
                | CErase _ => erase d1 (line + lineoffs) (col + coloffs) cols
                | CLine _ m => linecell d1 (line + lineoffs) (col + coloffs) m
                | CChar _ cp => do2 (d, _) <- put_char d1 (line + lineoffs) (col + coloffs) cp; Ok d
                | CSkip => Ok d1
                end);
             Ok (restore d2)
         end);
      Ok (dst', if leftwards then col - 1 else col + spancols)
  end.

Fixpoint copy_cols (fuel : nat) (samerb : bool) (src dst : rb) (line col : Z) (sr : rect)
         (lineoffs coloffs : Z) (leftwards copy_skip : bool) : res rb :=
  let done := if leftwards then col <? left sr else col >=? right sr in
  match fuel with
  | O => if done then Ok dst else NoFuel
  | S f =>
      if done then Ok dst else
      do2 (dst', col') <- copy_span samerb src dst line col sr lineoffs coloffs leftwards copy_skip;
      copy_cols f samerb src dst' line col' sr lineoffs coloffs leftwards copy_skip
  end.

(* the lines in the order the outer loop visits them *)
Definition copy_lines (sr : rect) (upwards : bool) : list Z :=
  let ls := map (fun k => top sr + Z.of_nat k) (seq 0 (Z.to_nat (lines sr))) in
  if upwards then rev ls else ls.

(* copyrect(dst, src, dstrect, srcrect, copy_skip); [samerb] = (dst == src) *)
Definition copyrect (samerb : bool) (src dst : rb) (dr sr : rect) (copy_skip : bool) : res rb :=
  if (lines sr =? 0) || (cols sr =? 0) then Ok dst else
  let lineoffs := top dr - top sr in
  let coloffs := left dr - left sr in
  if samerb && (lineoffs =? 0) && (coloffs =? 0) then Ok dst else
  let upwards := samerb && (lineoffs >? 0) in
  let leftwards := samerb && (lineoffs =? 0) && (coloffs >? 0) in
  fold_res (fun d line =>
              copy_cols (S (Z.to_nat (cols sr))) samerb src d line
                        (if leftwards then right sr - 1 else left sr) sr lineoffs coloffs leftwards copy_skip)
           (copy_lines sr upwards) dst.

(* tickit_renderbuffer_blit *)
Definition blit (dst src : rb) : res rb :=
  let r := mkRect 0 0 (rb_lines src) (rb_cols src) in
  copyrect false src dst r r false.

(* tickit_renderbuffer_copyrect *)
Definition copyrect_op (s : rb) (dr sr : rect) : res rb := copyrect true s s dr sr true.

(* ---------------------------------------------------------------------------------- *)
(* src/rectset.c as far as moverect uses it: the sorted array as a list *)

Definition cmprect (a b : rect) : Z := if top a =? top b then left a - left b else top a - top b.

Fixpoint insert_rect (l : list rect) (r : rect) : list rect :=
  match l with
  | [] => [r]
  | x :: t => if cmprect x r >? 0 then r :: l else x :: insert_rect t r
  end.

Fixpoint delete_nth {A} (l : list A) (n : nat) : list A :=
  match l, n with
  | [], _ => []
  | _ :: t, O => t
  | x :: t, S k => x :: delete_nth t k
  end.

(* tickit_rectset_add.  [t l b r] are the local top/left/bottom/right, which a merge widens
   before `goto restart`; contains() and tickit_rect_add() work on the rectangle `cur` built
   from them (since the fix "rectset add: use the current (stretched) bounds"; [orig], the
   caller's rectangle, is no longer read).  [i] is the loop index. *)
Fixpoint rs_add (fuel : nat) (trs : list rect) (orig : rect) (t l b r : Z) (i : nat) : res (list rect) :=
  match fuel with
  | O => NoFuel
  | S f =>
      match nth_error trs i with
      | None => Ok (insert_rect trs (init_bounded t l b r))
      | Some x =>
          let xb := bottom x in
          let xr := right x in
          if b <? top x then Ok (insert_rect trs (init_bounded t l b r))        (* break *)
          else if (t >? xb) || (l >? xr) || (r <? left x) then rs_add f trs orig t l b r (S i)
          else if r_contains x (init_bounded t l b r) then Ok trs
          else
            let top_eq := t =? top x in
            let bottom_eq := b =? xb in
            let left_eq := l =? left x in
            let right_eq := r =? xr in
            if (top_eq && bottom_eq) || (left_eq && right_eq) then
              rs_add f (delete_nth trs i) orig (Z.min t (top x)) (Z.min l (left x)) (Z.max b xb) (Z.max r xr) O
            else if (t =? xb) || (b =? top x) then rs_add f trs orig t l b r (S i)
            else
              let to_add := r_add x (init_bounded t l b r) in
              fold_res (fun acc p => rs_add f acc p (top p) (left p) (bottom p) (right p) O)
                       to_add (delete_nth trs i)
      end
  end.

Definition rs_add_rect (fuel : nat) (trs : list rect) (orig : rect) : res (list rect) :=
  rs_add fuel trs orig (top orig) (left orig) (bottom orig) (right orig) O.

(* tickit_rectset_subtract: for(i = 0; i < count; i++) ... delete, i--, add the remains *)
Fixpoint rs_subtract (fuel : nat) (trs : list rect) (hole : rect) (i : nat) : res (list rect) :=
  match fuel with
  | O => NoFuel
  | S f =>
      match nth_error trs i with
      | None => Ok trs
      | Some x =>
          if negb (r_intersects x hole) then rs_subtract f trs hole (S i)
          else
            do trs' <- fold_res (fun acc p => rs_add_rect f acc p) (r_subtract x hole) (delete_nth trs i);
            rs_subtract f trs' hole i
      end
  end.

(* tickit_renderbuffer_moverect *)
Definition moverect_op (s : rb) (dr sr : rect) : res rb :=
  do s1 <- copyrect true s s dr sr true;
  do set1 <- rs_add_rect 64 [] sr;
  do set2 <- rs_subtract 64 set1 (mkRect (top dr) (left dr) (lines sr) (cols sr)) O;
  fold_res skiprect set2 s1.
