(* Utf8Bits.v -- the bit operations used by utf8.c, as arithmetic. *)
From Coq Require Import ZArith Lia.
Local Open Scope Z_scope.

Lemma land_high_low_0 : forall a b n, 0 <= n -> 0 <= b < 2 ^ n -> Z.land (Z.shiftl a n) b = 0.
Proof.
  intros a b n Hn Hb. apply Z.bits_inj'. intros i Hi.
  rewrite Z.land_spec, Z.bits_0.
  destruct (Z.lt_ge_cases i n) as [Hlt|Hge].
  - rewrite Z.shiftl_spec_low by assumption. reflexivity.
  - rewrite <- (Z.mod_small b (2 ^ n)) by lia.
    rewrite Z.mod_pow2_bits_high by lia. apply Bool.andb_false_r.
Qed.

Lemma lor_high_low : forall a b n, 0 <= n -> 0 <= b < 2 ^ n ->
  Z.lor (a * 2 ^ n) b = a * 2 ^ n + b.
Proof.
  intros a b n Hn Hb.
  rewrite <- Z.shiftl_mul_pow2 by assumption.
  pose proof (land_high_low_0 a b n Hn Hb) as L.
  rewrite <- Z.lxor_lor by assumption.
  symmetry. apply Z.add_nocarry_lxor. assumption.
Qed.

Lemma land_3f : forall b, Z.land b 0x3f = b mod 64.
Proof. intro b. change 0x3f with (Z.ones 6). rewrite Z.land_ones by lia. reflexivity. Qed.
Lemma land_1f : forall b, Z.land b 0x1f = b mod 32.
Proof. intro b. change 0x1f with (Z.ones 5). rewrite Z.land_ones by lia. reflexivity. Qed.
Lemma land_0f : forall b, Z.land b 0x0f = b mod 16.
Proof. intro b. change 0x0f with (Z.ones 4). rewrite Z.land_ones by lia. reflexivity. Qed.
Lemma land_07 : forall b, Z.land b 0x07 = b mod 8.
Proof. intro b. change 0x07 with (Z.ones 3). rewrite Z.land_ones by lia. reflexivity. Qed.
Lemma land_7f : forall b, Z.land b 0x7f = b mod 128.
Proof. intro b. change 0x7f with (Z.ones 7). rewrite Z.land_ones by lia. reflexivity. Qed.

(* *cp <<= 6; *cp |= b & 0x3f *)
Lemma cont_step : forall cp b, Z.lor (Z.shiftl cp 6) (Z.land b 0x3f) = cp * 64 + b mod 64.
Proof.
  intros cp b. rewrite land_3f. rewrite Z.shiftl_mul_pow2 by lia.
  apply (lor_high_low cp (b mod 64) 6); [lia|]. apply Z.mod_pos_bound. lia.
Qed.

Lemma shiftr_6 : forall cp, Z.shiftr cp 6 = cp / 64.
Proof. intro cp. rewrite Z.shiftr_div_pow2 by lia. reflexivity. Qed.

(* 0x80 | (cp & 0x3f) *)
Lemma put_cont_byte : forall cp, Z.lor 0x80 (Z.land cp 0x3f) = 128 + cp mod 64.
Proof.
  intro cp. rewrite land_3f.
  apply (lor_high_low 2 (cp mod 64) 6); [lia|]. apply Z.mod_pos_bound. lia.
Qed.
Lemma put_lead2 : forall cp, Z.lor 0xc0 (Z.land cp 0x1f) = 192 + cp mod 32.
Proof.
  intro cp. rewrite land_1f.
  apply (lor_high_low 6 (cp mod 32) 5); [lia|]. apply Z.mod_pos_bound. lia.
Qed.
Lemma put_lead3 : forall cp, Z.lor 0xe0 (Z.land cp 0x0f) = 224 + cp mod 16.
Proof.
  intro cp. rewrite land_0f.
  apply (lor_high_low 14 (cp mod 16) 4); [lia|]. apply Z.mod_pos_bound. lia.
Qed.
Lemma put_lead4 : forall cp, Z.lor 0xf0 (Z.land cp 0x07) = 240 + cp mod 8.
Proof.
  intro cp. rewrite land_07.
  apply (lor_high_low 30 (cp mod 8) 3); [lia|]. apply Z.mod_pos_bound. lia.
Qed.
