(* LifeQueue.v -- the restack queue: unlinking and freeing a request, freeing the whole queue,
   appending a request; _purge_hierarchy_changes leaves no request about the subtree. *)
From Coq Require Import ZArith List Bool PArith FMapPositive Lia.
From Tickit Require Import LifeDefs LifeLemmas LifeChains LifeInv LifePure LifeWalks LifeRelink LifeRemove LifeClose.
Import ListNotations.
Local Open Scope Z_scope.

(* heaps with the same windows *)
Lemma chain_same_wins : forall h h' p l, wins h' = wins h -> chain h p l -> chain h' p l.
Proof.
  intros h h' p l Hw Hc. induction Hc; econstructor; eauto. unfold findw in *. rewrite Hw. eassumption.
Qed.
Lemma anc_same_wins : forall h h' a b, wins h' = wins h -> anc h a b -> anc h' a b.
Proof.
  intros h h' a b Hw Ha. induction Ha.
  - eapply anc_refl. unfold findw in *. rewrite Hw. eassumption.
  - eapply anc_step; eauto. unfold findw in *. rewrite Hw. eassumption.
Qed.

(* a new state of the queue over the same windows *)
Lemma hinv_set_queue : forall D h h',
  hinv D h -> wins h' = wins h -> nextw h' = nextw h -> r_drag (rx h') = r_drag (rx h) ->
  (forall q, findq h' q <> None -> (q < nextq h')%positive) ->
  (forall q cq, findq h' q = Some cq -> is_restack (q_change cq) = true) ->
  (exists ql, qchain h' (r_queue (rx h')) ql /\
     (forall q, In q ql <-> findq h' q <> None) /\
     (forall q cq, findq h' q = Some cq ->
        exists x p cx, q_win cq = Some x /\ q_parent cq = Some p /\
                       findw h x = Some cx /\ w_parent cx = Some p /\ anc h x root)) ->
  hinv D h'.
Proof.
  intros D h h' HI Hw Hnw Hd Hnq Hqk Hq.
  assert (Fw : forall a, findw h' a = findw h a) by (intro; unfold findw; rewrite Hw; reflexivity).
  destruct HI as [K P PL O F R C I RP Q QK Dg NW NWR NQ].
  constructor.
  - intros a c Hf. rewrite Fw in Hf. destruct (K a c Hf) as [l [Hc Hl]]. exists l. split.
    + eapply chain_same_wins; eauto.
    + intro k. rewrite (Hl k). split; intros [ck [H1 H2]]; exists ck; split; auto; [rewrite Fw|rewrite <- Fw]; auto.
  - intros k ck p Hf Hp. rewrite Fw in *. eauto.
  - intros k ck p Hf Hp. rewrite Fw in *. eauto.
  - intros a c Hf. rewrite Fw in Hf. eauto.
  - intros a c f Hf Hd' Hfo. rewrite Fw in Hf. destruct (F a c f Hf Hd' Hfo) as [cf [H1 H2]]. exists cf. rewrite Fw. auto.
  - intros a c Hf. rewrite Fw in Hf. eauto.
  - intros a c Hf. rewrite Fw in Hf. eauto.
  - intros a c Hf. rewrite Fw in Hf. eauto.
  - intros c Hf. rewrite Fw in Hf. eauto.
  - destruct Hq as [ql [Hq1 [Hq2 Hq3]]]. exists ql. split; auto. split; auto.
    intros q cq Hfq. destruct (Hq3 q cq Hfq) as [x [p [cx [H1 [H2 [H3 [H4 H5]]]]]]].
    exists x, p, cx. rewrite Fw. repeat split; auto. eapply anc_same_wins; eauto.
  - exact Hqk.
  - rewrite Hd. destruct Dg as [od [E Hdg]]. exists od. split; [exact E|]. intros d Ed Hn Hl.
    eapply anc_same_wins; eauto. apply Hdg; auto. rewrite <- Fw. exact Hl.
  - intros a Ha. rewrite Fw in Ha. rewrite Hnw. auto.
  - rewrite Hnw. exact NWR.
  - exact Hnq.
Qed.

Lemma qchain_live : forall h p l, qchain h p l -> forall a, In a l -> findq h a <> None.
Proof.
  intros h p l H; induction H as [|a c l Hf Hc IH]; intros x Hin; inversion Hin; subst.
  - congruence.
  - auto.
Qed.

Lemma qchain_same : forall h h' p l, qchain h p l -> (forall a, In a l -> findq h' a = findq h a) -> qchain h' p l.
Proof.
  intros h h' p l Hc Hs. eapply qchain_ext; eauto. intros a Ha.
  pose proof (qchain_live h p l Hc a Ha) as Hl. destruct (findq h a) as [c|] eqn:Hf; [|congruence].
  exists c, c. rewrite (Hs a Ha). auto.
Qed.

Lemma qchain_redirect : forall h h' l0 v z l2 l3 nxt cz',
  qchain h v (l0 ++ z :: l2) -> qchain h nxt l3 ->
  findq h' z = Some cz' -> q_next cz' = nxt ->
  (forall a, In a l0 \/ In a l3 -> findq h' a = findq h a) ->
  qchain h' v (l0 ++ z :: l3).
Proof.
  intros h h' l0; induction l0 as [|x l0 IH]; intros v z l2 l3 nxt cz' Hc Hc3 Hz Hn Hkeep; cbn in *.
  - inversion Hc as [|z' cz l' Hfz Hcz]; subst. econstructor; eauto.
    eapply qchain_same; eauto.
  - inversion Hc as [|x' cx l' Hfx Hcx]; subst. econstructor.
    + rewrite (Hkeep x (or_introl (or_introl eq_refl))). exact Hfx.
    + eapply IH; eauto. intros a [Ha|Ha]; apply Hkeep; auto.
Qed.

Lemma qchain_prefix_notin : forall h v l1 z l2, qchain h v (l1 ++ z :: l2) -> ~ In z l1 /\ ~ In z l2.
Proof.
  intros h v l1 z l2 Hc. pose proof (qchain_NoDup h v _ Hc) as Hnd.
  apply NoDup_remove_2 in Hnd. split; intro Hin; apply Hnd; apply in_or_app; auto.
Qed.

(* where the purge loop's pointer-to-pointer sits: after the requests [kept] *)
Definition qslot_at (kept : list positive) (sl : option positive) : Prop :=
  (kept = [] /\ sl = None) \/ (exists k0 z, kept = k0 ++ [z] /\ sl = Some z).

(* the state of the heap after request [q] (which follows the requests [kept]) has been unlinked and freed *)
Definition qunlink (h : heap) (sl : option positive) (q : positive) (nxt : ptr) : heap :=
  match sl with
  | None => with_reqs (with_rx h (set_rqueue (rx h) nxt)) (PM.remove q (reqs h))
  | Some z =>
    match findq h z with
    | Some cz => with_reqs h (PM.remove q (PM.add z (mkQ (q_change cz) (q_parent cz) (q_win cz) nxt) (reqs h)))
    | None => h
    end
  end.

Lemma qunlink_drag : forall h sl q nxt, r_drag (rx (qunlink h sl q nxt)) = r_drag (rx h).
Proof. intros h sl q nxt. unfold qunlink. destruct sl as [z|]; [destruct (findq h z)|]; reflexivity. Qed.

Lemma hinv_qunlink : forall D h kept q rest c sl,
  hinv D h -> qchain h (r_queue (rx h)) (kept ++ q :: rest) -> findq h q = Some c -> qslot_at kept sl ->
  hinv D (qunlink h sl q (q_next c)) /\
  qchain (qunlink h sl q (q_next c)) (r_queue (rx (qunlink h sl q (q_next c)))) (kept ++ rest) /\
  (wins (qunlink h sl q (q_next c)) = wins h /\ nextw (qunlink h sl q (q_next c)) = nextw h) /\
  (forall a ca, findq (qunlink h sl q (q_next c)) a = Some ca ->
     exists ca0, findq h a = Some ca0 /\ q_win ca = q_win ca0 /\ q_parent ca = q_parent ca0 /\ q_change ca = q_change ca0) /\
  (forall a, In a kept -> exists ca ca0, findq (qunlink h sl q (q_next c)) a = Some ca /\ findq h a = Some ca0 /\ q_win ca = q_win ca0).
Proof.
  intros D h kept q rest c sl HI Hc Hfq Hsl.
  destruct (qchain_prefix_notin h _ kept q rest Hc) as [Hnk Hnr].
  destruct (qchain_split h _ _ Hc kept q rest eq_refl) as [c' [Hfq' Hcrest]].
  rewrite Hfq in Hfq'. inversion Hfq'; subst c'.
  destruct (hi_queue D h HI) as [ql [Hq1 [Hq2 Hq3]]].
  assert (ql = kept ++ q :: rest) by (eapply qchain_fun; eauto). subst ql.
  set (h' := qunlink h sl q (q_next c)).
  (* cell-wise description of the new request map *)
  assert (Hdesc : wins h' = wins h /\ nextw h' = nextw h /\ nextq h' = nextq h /\ r_drag (rx h') = r_drag (rx h) /\
                  findq h' q = None /\
                  (forall a, a <> q -> (forall z, sl = Some z -> a <> z) -> findq h' a = findq h a) /\
                  (forall z, sl = Some z -> exists cz, findq h z = Some cz /\
                       findq h' z = Some (mkQ (q_change cz) (q_parent cz) (q_win cz) (q_next c))) /\
                  r_queue (rx h') = match sl with None => q_next c | Some _ => r_queue (rx h) end).
  { unfold h', qunlink. destruct Hsl as [[E1 E2]|[k0 [z [E1 E2]]]]; subst sl.
    - cbn. split; [reflexivity|]. split; [reflexivity|]. split; [reflexivity|]. split; [reflexivity|].
      split; [unfold findq; cbn; apply PM.grs|].
      split; [intros a Ha _; unfold findq; cbn; apply PM.gro; congruence|].
      split; [intros z Ez; discriminate|reflexivity].
    - assert (Hinz : In z (kept ++ q :: rest)) by (subst kept; apply in_or_app; left; apply in_or_app; right; left; reflexivity).
      pose proof (qchain_live h _ _ Hc z Hinz) as Hlz. destruct (findq h z) as [cz|] eqn:Hfz; [|congruence].
      assert (Hzq : z <> q).
      { intro E. subst z. apply Hnk. subst kept. apply in_or_app. right. left. reflexivity. }
      cbn. split; [reflexivity|]. split; [reflexivity|]. split; [reflexivity|]. split; [reflexivity|].
      split; [unfold findq; cbn; apply PM.grs|].
      split.
      { intros a Ha Hz. unfold findq. cbn. rewrite PM.gro by congruence. rewrite PM.gso; auto. }
      split; [|reflexivity].
      intros z' Ez. inversion Ez; subst z'. exists cz. split; auto.
      unfold findq. cbn. rewrite PM.gro by congruence. apply PM.gss. }
  destruct Hdesc as [Hw [Hnw [Hnq [Hdg [Hq_none [Hq_other [Hq_z Hq_head]]]]]]].
  (* the new chain *)
  assert (Hnewchain : qchain h' (r_queue (rx h')) (kept ++ rest)).
  { rewrite Hq_head. destruct Hsl as [[E1 E2]|[k0 [z [E1 E2]]]]; subst sl.
    - subst kept. cbn in *. eapply qchain_same; eauto. intros a Ha. apply Hq_other.
      + intro E. subst a. contradiction.
      + intros z Ez. discriminate.
    - destruct (Hq_z z eq_refl) as [cz [Hfz Hfz']].
      subst kept. rewrite <- app_assoc in *. cbn in *.
      assert (Hnd : NoDup (k0 ++ z :: q :: rest)) by (eapply qchain_NoDup; eauto).
      eapply qchain_redirect with (l2 := q :: rest); eauto.
      intros a Ha. apply Hq_other.
      + intro E. subst a. destruct Ha as [Ha|Ha]; [|contradiction]. apply Hnk. apply in_or_app. left. exact Ha.
      + intros z' Ez. inversion Ez; subst z'. intro E. subst a.
        apply NoDup_remove_2 in Hnd. apply Hnd. destruct Ha as [Ha|Ha]; apply in_or_app; [left|right; right]; auto. }
  (* every request that is left was there before, with the same window and parent *)
  assert (Hold : forall a ca, findq h' a = Some ca ->
                   exists ca0, findq h a = Some ca0 /\ q_win ca = q_win ca0 /\ q_parent ca = q_parent ca0 /\ q_change ca = q_change ca0).
  { intros a ca Hfa. destruct (Pos.eq_dec a q) as [E|E]; [subst a; congruence|].
    destruct sl as [z|].
    - destruct (Pos.eq_dec a z) as [Ez|Ez].
      + subst a. destruct (Hq_z z eq_refl) as [cz [Hfz Hfz']]. rewrite Hfz' in Hfa. inversion Hfa; subst ca.
        exists cz. auto 10.
      + rewrite Hq_other in Hfa; auto; [eauto 10|]. intros z' Ez'. inversion Ez'; subst z'. exact Ez.
    - rewrite Hq_other in Hfa; auto; [eauto 10|]. intros z' Ez'. discriminate. }
  split; [|split; [exact Hnewchain|split; [split; [exact Hw|exact Hnw]|split; [exact Hold|]]]].
  - eapply hinv_set_queue; eauto.
    + intros a Ha. rewrite Hnq. apply (hi_nextq D h HI). destruct (findq h' a) as [ca|] eqn:Hfa; [|congruence].
      destruct (Hold a ca Hfa) as [ca0 [H0 _]]. congruence.
    + intros a ca Hfa. destruct (Hold a ca Hfa) as [ca0 [H0 [_ [_ Ech]]]]. rewrite Ech. exact (hi_qkind D h HI a ca0 H0).
    + exists (kept ++ rest). split; [exact Hnewchain|]. split.
      * intro a. split.
        -- intro Hin. apply (qchain_live h' _ _ Hnewchain a Hin).
        -- intro Hl. destruct (findq h' a) as [ca|] eqn:Hfa; [|congruence].
           destruct (Hold a ca Hfa) as [ca0 [H0 _]].
           assert (Hin : In a (kept ++ q :: rest)) by (apply Hq2; congruence).
           apply in_app_or in Hin. apply in_or_app. destruct Hin as [Hin|[Hin|Hin]]; auto. subst a. congruence.
      * intros a ca Hfa. destruct (Hold a ca Hfa) as [ca0 [H0 [H1 [H2 _]]]].
        destruct (Hq3 a ca0 H0) as [x [p [cx [G1 [G2 G3]]]]]. exists x, p, cx. rewrite H1, H2. auto.
  - intros a Ha. assert (Haq : a <> q) by (intro E; subst a; contradiction).
    pose proof (qchain_live h _ _ Hc a (in_or_app _ _ a (or_introl Ha))) as Hl.
    destruct (findq h a) as [ca0|] eqn:Hfa0; [|congruence].
    destruct sl as [z|].
    + destruct (Pos.eq_dec a z) as [Ez|Ez].
      * subst a. destruct (Hq_z z eq_refl) as [cz [Hfz Hfz']]. rewrite Hfa0 in Hfz. inversion Hfz; subst cz.
        eexists. exists ca0. split; [exact Hfz'|]. auto.
      * exists ca0, ca0. rewrite Hq_other; auto. intros z' Ez'. inversion Ez'; subst z'. exact Ez.
    + exists ca0, ca0. rewrite Hq_other; auto. intros z' Ez'. discriminate.
Qed.

(* ---- _purge_hierarchy_changes ------------------------------------------------------------------------ *)
Lemma getq_run : forall h a c, findq h a = Some c -> getq a h = Ok c h.
Proof. intros h a c H. unfold getq. unfold findq in H. rewrite H. reflexivity. Qed.

Lemma getr_run : forall h a c, findw h a = Some c -> w_isroot c = true -> getr a h = Ok (rx h) h.
Proof. intros h a c Hf Hr. unfold getr, bind. rewrite (getw_run h a c Hf). rewrite Hr. reflexivity. Qed.

Lemma read_qslot_run : forall D h kept rest sl cr,
  hinv D h -> findw h root = Some cr -> qchain h (r_queue (rx h)) (kept ++ rest) -> qslot_at kept sl ->
  read_qslot root sl h = Ok (match rest with [] => None | q :: _ => Some q end) h.
Proof.
  intros D h kept rest sl cr HI Hr Hc Hsl.
  assert (Hir : w_isroot cr = true) by (rewrite (hi_isroot D h HI root cr Hr); apply Pos.eqb_refl).
  destruct Hsl as [[E1 E2]|[k0 [z [E1 E2]]]]; subst sl kept; cbn.
  - unfold bind. rewrite (getr_run h root cr Hr Hir). cbn in Hc.
    inversion Hc; subst; reflexivity.
  - rewrite <- app_assoc in Hc. cbn in Hc.
    destruct (qchain_split h _ _ Hc k0 z rest eq_refl) as [cz [Hfz Hcz]].
    unfold bind. rewrite (getq_run h z cz Hfz). inversion Hcz; subst; reflexivity.
Qed.

Lemma write_qslot_free_run : forall D h kept q rest sl cr c,
  hinv D h -> findw h root = Some cr -> qchain h (r_queue (rx h)) (kept ++ q :: rest) -> qslot_at kept sl ->
  findq h q = Some c ->
  (write_qslot root sl (q_next c) ;;; freeq q) h = Ok tt (qunlink h sl q (q_next c)).
Proof.
  intros D h kept q rest sl cr c HI Hr Hc Hsl Hfq.
  assert (Hir : w_isroot cr = true) by (rewrite (hi_isroot D h HI root cr Hr); apply Pos.eqb_refl).
  destruct (qchain_prefix_notin h _ kept q rest Hc) as [Hnk Hnr].
  destruct Hsl as [[E1 E2]|[k0 [z [E1 E2]]]]; subst sl; cbn.
  - unfold bind, updr, bind. rewrite (getr_run h root cr Hr Hir).
    unfold setr, bind. rewrite (getw_run h root cr Hr). rewrite Hir.
    unfold freeq. cbn. unfold findq in Hfq. rewrite Hfq. reflexivity.
  - assert (Hinz : In z (kept ++ q :: rest)) by (subst kept; apply in_or_app; left; apply in_or_app; right; left; reflexivity).
    pose proof (qchain_live h _ _ Hc z Hinz) as Hlz. destruct (findq h z) as [cz|] eqn:Hfz; [|congruence].
    assert (Hzq : z <> q).
    { intro E. subst z. apply Hnk. subst kept. apply in_or_app. right. left. reflexivity. }
    unfold bind. rewrite (getq_run h z cz Hfz). unfold setq. unfold findq in Hfz. rewrite Hfz.
    unfold freeq. cbn. rewrite PM.gso by congruence. unfold findq in Hfq. rewrite Hfq.
    unfold qunlink, findq. try rewrite Hfz. reflexivity.
Qed.

Lemma purge_loop_spec : forall D w fuel h kept rest sl cr,
  hinv D h -> findw h root = Some cr -> findw h w <> None ->
  qchain h (r_queue (rx h)) (kept ++ rest) -> qslot_at kept sl ->
  (forall a ca x, In a kept -> findq h a = Some ca -> q_win ca = Some x -> ~ anc h x w) ->
  hoare (fun h1 => h1 = h) (purge_loop fixed fuel root sl w)
        (fun _ h' => hinv D h' /\ (wins h' = wins h /\ nextw h' = nextw h) /\ unqueued h' w /\
                     (forall q cq, findq h' q = Some cq -> exists cq0, findq h q = Some cq0 /\ q_win cq = q_win cq0) /\
                     r_drag (rx h') = r_drag (rx h)).
Proof.
  intros D w. induction fuel as [|f IH]; intros h kept rest sl cr HI Hr Hlw Hc Hsl Hkept h1 E; subst h1; [cbn; exact I|].
  cbn [purge_loop].
  unfold bind at 1. rewrite (read_qslot_run D h kept rest sl cr HI Hr Hc Hsl).
  destruct (hi_queue D h HI) as [ql [Hq1 [Hq2 Hq3]]].
  assert (ql = kept ++ rest) by (eapply qchain_fun; eauto). subst ql.
  destruct rest as [|q rest].
  - (* the end of the queue *)
    cbn. split; [exact HI|]. split; [split; reflexivity|]. split; [|split; [eauto|reflexivity]].
    intros a ca x Hfa Hx. rewrite app_nil_r in Hq2. apply (Hkept a ca x); auto. apply Hq2. congruence.
  - assert (Hinq : In q (kept ++ q :: rest)) by (apply in_or_app; right; left; reflexivity).
    pose proof (qchain_live h _ _ Hc q Hinq) as Hlq. destruct (findq h q) as [c|] eqn:Hfq; [|congruence].
    unfold bind at 1. rewrite (getq_run h q c Hfq).
    destruct (Hq3 q c Hfq) as [x [p [cx [G1 [G2 [G3 [G4 G5]]]]]]].
    cbn [v_close_nopurge fixed]. unfold bind at 1.
    pose proof (is_within_spec D (S f) (q_win c) w h) as Hiw.
    assert (Hpre : hinv D h /\ (forall a, q_win c = Some a -> findw h a <> None)).
    { split; auto. intros a Ea. rewrite G1 in Ea. inversion Ea; subst a. congruence. }
    specialize (Hiw Hpre).
    destruct (is_within (S f) (q_win c) w h) as [b h1| |]; [|contradiction|exact I].
    destruct Hiw as [Eh Hb]. subst h1. rewrite G1 in Hb.
    destruct b.
    + (* the request is about the subtree: unlink and free it *)
      assert (Hrun := write_qslot_free_run D h kept q rest sl cr c HI Hr Hc Hsl Hfq).
      unfold bind in Hrun. unfold bind at 1. unfold bind at 1.
      destruct (write_qslot root sl (q_next c) h) as [u h1| |] eqn:Hws; try discriminate.
      rewrite Hrun.
      destruct (hinv_qunlink D h kept q rest c sl HI Hc Hfq Hsl) as [HI' [Hc' [[Hw' Hnw'] [Hold' Hkept']]]].
      set (h' := qunlink h sl q (q_next c)) in *.
      assert (Fw : forall a, findw h' a = findw h a) by (intro; unfold findw; rewrite Hw'; reflexivity).
      assert (Hr' : findw h' root = Some cr) by (rewrite Fw; exact Hr).
      assert (Hlw' : findw h' w <> None) by (rewrite Fw; exact Hlw).
      assert (Hk' : forall a ca x0, In a kept -> findq h' a = Some ca -> q_win ca = Some x0 -> ~ anc h' x0 w).
      { intros a ca x0 Ha Hfa Hx0 Hanc. destruct (Hkept' a Ha) as [ca1 [ca0 [H1 [H0 Ew]]]].
        rewrite Hfa in H1. inversion H1; subst ca1.
        apply (Hkept a ca0 x0 Ha H0); [congruence|]. eapply anc_same_wins; [|exact Hanc]. symmetry. exact Hw'. }
      specialize (IH h' kept rest sl cr HI' Hr' Hlw' Hc' Hsl Hk' h' eq_refl).
      destruct (purge_loop fixed f root sl w h') as [u2 h2| |]; [|contradiction|exact I].
      destruct IH as [HI2 [[Hw2 Hnw2] [Hu2 [Hold2 Hdr2]]]]. split; [exact HI2|]. split; [split; congruence|]. split; [exact Hu2|].
      split; [|rewrite Hdr2; apply qunlink_drag].
      intros a ca Hfa. destruct (Hold2 a ca Hfa) as [ca1 [H1 E1]].
      destruct (Hold' a ca1 H1) as [ca0 [H0 [E0 _]]]. exists ca0. split; auto. congruence.
    + (* keep it *)
      assert (Hc2 : qchain h (r_queue (rx h)) ((kept ++ [q]) ++ rest)) by (rewrite <- app_assoc; exact Hc).
      assert (Hsl2 : qslot_at (kept ++ [q]) (Some q)) by (right; exists kept, q; auto).
      assert (Hk2 : forall a ca x0, In a (kept ++ [q]) -> findq h a = Some ca -> q_win ca = Some x0 -> ~ anc h x0 w).
      { intros a ca x0 Ha Hfa Hx0. apply in_app_or in Ha. destruct Ha as [Ha|[Ha|[]]].
        - eapply Hkept; eauto.
        - subst a. rewrite Hfq in Hfa. inversion Hfa; subst ca. rewrite G1 in Hx0. inversion Hx0; subst x0.
          intro Hanc. apply Hb in Hanc. discriminate. }
      exact (IH h (kept ++ [q]) rest (Some q) cr HI Hr Hlw Hc2 Hsl2 Hk2 h eq_refl).
Qed.

(* the drag source is forgotten: everything else stays *)
Lemma hinv_drag_none : forall D h, hinv D h -> hinv D (with_rx h (set_rdrag (rx h) (Some None))).
Proof.
  intros D h HI. set (h' := with_rx h (set_rdrag (rx h) (Some None))).
  assert (Hw : wins h' = wins h) by reflexivity.
  destruct HI as [K P PL O F R C I RP Q QK Dg NW NWR NQ].
  constructor.
  - intros a c Hf. destruct (K a c Hf) as [l [Hc Hl]]. exists l. split; [eapply chain_same_wins; eauto|exact Hl].
  - exact P.
  - exact PL.
  - exact O.
  - exact F.
  - exact R.
  - exact C.
  - exact I.
  - exact RP.
  - destruct Q as [ql [Hq1 [Hq2 Hq3]]]. exists ql. split; [|split].
    + change (r_queue (rx h')) with (r_queue (rx h)). eapply qchain_same; [exact Hq1|]. intros; reflexivity.
    + exact Hq2.
    + intros q cq Hfq. destruct (Hq3 q cq Hfq) as [x [p [cx [H1 [H2 [H3 [H4 H5]]]]]]].
      exists x, p, cx. repeat split; auto. eapply anc_same_wins; eauto.
  - exact QK.
  - exists None. split; [reflexivity|]. intros d Ed. discriminate.
  - exact NW.
  - exact NWR.
  - exact NQ.
Qed.

(* the repaired purge: the subtree of [w] has no queued request afterwards and does not hold the drag source;
   windows are untouched *)
Lemma purge_spec : forall D fuel w h,
  hinv D h -> findw h w <> None -> ~ In root D ->
  hoare (fun h1 => h1 = h) (purge fixed fuel w)
        (fun _ h' => hinv D h' /\ (wins h' = wins h /\ nextw h' = nextw h) /\ unqueued h' w /\
                     (forall q cq, findq h' q = Some cq -> exists cq0, findq h q = Some cq0 /\ q_win cq = q_win cq0) /\
                     undragged D h' w).
Proof.
  intros D fuel w h HI Hlw Hnr h1 E. subst h1. unfold purge. cbn [v_close_nopurge fixed].
  unfold bind at 1.
  pose proof (top_walk_spec D fuel w h (conj HI Hlw)) as Htw.
  destruct (top_walk fuel w h) as [t h1| |]; [|contradiction|exact I].
  destruct Htw as [Eh [ct [Hft [Hpt Hwt]]]]. subst h1.
  unfold bind at 1. rewrite (getw_run h t ct Hft).
  rewrite (hi_isroot D h HI t ct Hft).
  destruct (Pos.eqb t root) eqn:Et; cbn [negb].
  - apply Pos.eqb_eq in Et. subst t.
    assert (Hir : w_isroot ct = true) by (rewrite (hi_isroot D h HI root ct Hft); apply Pos.eqb_refl).
    unfold bind at 1. rewrite (getr_run h root ct Hft Hir).
    destruct (hi_drag D h HI) as [od [Ed Hda]]. rewrite Ed.
    (* the loop over the queue, from a heap whose windows are those of [h] *)
    assert (Hloop : forall h2, hinv D h2 -> wins h2 = wins h -> nextw h2 = nextw h -> reqs h2 = reqs h ->
              (r_drag (rx h2) = Some None \/ (r_drag (rx h2) = r_drag (rx h) /\ forall d, od = Some d -> ~ anc h d w)) ->
              match purge_loop fixed fuel root None w h2 with
              | Ok _ h' => hinv D h' /\ (wins h' = wins h /\ nextw h' = nextw h) /\ unqueued h' w /\
                           (forall q cq, findq h' q = Some cq -> exists cq0, findq h q = Some cq0 /\ q_win cq = q_win cq0) /\
                           undragged D h' w
              | Fault _ _ => False
              | NoFuel => True
              end).
    { intros h2 HI2 Hw2 Hnw2 Hq2 Hdr2.
      assert (Fw2 : forall a, findw h2 a = findw h a) by (intro a; unfold findw; rewrite Hw2; reflexivity).
      destruct (hi_queue D h2 HI2) as [ql [Hq1 _]].
      assert (Hft2 : findw h2 root = Some ct) by (rewrite Fw2; exact Hft).
      assert (Hlw2 : findw h2 w <> None) by (rewrite Fw2; exact Hlw).
      pose proof (purge_loop_spec D w fuel h2 [] ql None ct HI2 Hft2 Hlw2 Hq1 (or_introl (conj eq_refl eq_refl))
                    (fun a ca x (Hin : In a []) => match Hin with end) h2 eq_refl) as Hpl.
      destruct (purge_loop fixed fuel root None w h2) as [u h3| |]; [|contradiction|exact I].
      destruct Hpl as [HI3 [[Hw3 Hnw3] [Hu3 [Hold3 Hdr3]]]].
      split; [exact HI3|]. split; [split; congruence|]. split; [exact Hu3|]. split.
      - intros q cq Hfq. destruct (Hold3 q cq Hfq) as [cq0 [H0 E0]]. exists cq0. split; [|exact E0].
        unfold findq in *. rewrite <- Hq2. exact H0.
      - intros d Hd Hn Hl Hanc. rewrite Hdr3 in Hd. destruct Hdr2 as [Enone|[Esame Hnot]]; [congruence|].
        rewrite Esame, Ed in Hd. inversion Hd; subst od. apply (Hnot d eq_refl).
        eapply anc_same_wins; [|exact Hanc]. congruence. }
    destruct od as [d|].
    + (* there is a drag source: is it the window or below it? *)
      assert (Hl : findw h root <> None) by congruence.
      pose proof (Hda d eq_refl Hnr Hl) as Hdroot.
      pose proof (is_within_spec D fuel (Some d) w h) as Hiw.
      assert (Hpre : hinv D h /\ (forall a, Some d = Some a -> findw h a <> None)).
      { split; auto. intros a Ea. inversion Ea; subst a. eapply anc_live_l; eauto. }
      specialize (Hiw Hpre). unfold bind at 1. unfold bind at 1.
      destruct (is_within fuel (Some d) w h) as [b h1| |]; [|contradiction|exact I].
      destruct Hiw as [Eh Hb]. subst h1. destruct b.
      * unfold setr. unfold bind at 1. rewrite (getw_run h root ct Hft). rewrite Hir.
        apply Hloop; try reflexivity; [apply hinv_drag_none; exact HI|left; reflexivity].
      * cbn [ret]. apply Hloop; try reflexivity; [exact HI|]. right. split; [reflexivity|].
        intros d0 Ed0 Hanc. inversion Ed0; subst d0. apply Hb in Hanc. discriminate.
    + unfold bind at 1. cbn [ret]. apply Hloop; try reflexivity; [exact HI|]. left. exact Ed.
  - apply Pos.eqb_neq in Et. cbn. split; [exact HI|]. split; [split; reflexivity|]. split; [eapply unqueued_off_tree; eauto|].
    split; [eauto|]. eapply undragged_off_tree; eauto.
Qed.

