(* LifeRemove.v -- _do_hierarchy_change(TICKIT_HIERARCHY_REMOVE, parent, win): the window is
   spliced out of its parent's chain, loses its parent and its sibling pointer, and the
   parent forgets it as focused child.  The invariant is preserved provided no queued
   request names the window or anything below it. *)
From Coq Require Import ZArith List Bool PArith FMapPositive Lia.
From Tickit Require Import LifeDefs LifeLemmas LifeChains LifeInv LifePure LifeWalks LifeRelink.
Import ListNotations.
Local Open Scope Z_scope.

Definition on (a : positive) (f : wcell -> wcell) : positive -> wcell -> wcell :=
  fun b c => if Pos.eqb a b then f c else c.

Lemma on_same : forall a f c, on a f a c = f c.
Proof. intros. unfold on. rewrite Pos.eqb_refl. reflexivity. Qed.
Lemma on_other : forall a f b c, a <> b -> on a f b c = c.
Proof. intros. unfold on. apply Pos.eqb_neq in H. rewrite H. reflexivity. Qed.

Definition slot_F (s : slot) (v : ptr) : positive -> wcell -> wcell :=
  match s with
  | SFirst q => on q (fun c => set_first c v)
  | SNext z => on z (fun c => set_next c v)
  end.

Definition clear_focus (w : positive) (c : wcell) : wcell :=
  if ptr_eqb (w_focus c) (Some w) then set_focus c None else c.

(* [fo] is what happens to the parent besides the splice: REMOVE clears its focus pointer if it
   names the window; the pop of tickit_window_destroy's loop leaves the (dying) parent alone *)
Definition remove_Fg (fo : wcell -> wcell) (p w : positive) (s : slot) (nxt : ptr) : positive -> wcell -> wcell :=
  fun a c => on p fo a
             (on w (fun c => set_parent c None) a
              (on w (fun c => set_next c None) a
               (slot_F s nxt a c))).
Definition remove_F (p w : positive) (s : slot) (nxt : ptr) := remove_Fg (clear_focus w) p w s nxt.

Definition keeps_but_focus (fo : wcell -> wcell) : Prop :=
  forall c, w_parent (fo c) = w_parent c /\ w_first (fo c) = w_first c /\ w_next (fo c) = w_next c /\
            w_closed (fo c) = w_closed c /\ w_isroot (fo c) = w_isroot c /\ w_ref (fo c) = w_ref c.

Lemma clear_focus_keeps : forall w, keeps_but_focus (clear_focus w).
Proof. intros w c. unfold clear_focus. destruct (ptr_eqb _ _); cbn; auto 10. Qed.
Lemma clear_focus_focus : forall w c f, w_focus (clear_focus w c) = Some f -> w_focus c = Some f /\ f <> w.
Proof.
  intros w c f. unfold clear_focus. destruct (ptr_eqb (w_focus c) (Some w)) eqn:E; cbn.
  - discriminate.
  - intro H. split; auto. intro Ef. subst f. apply ptr_eqb_neq in E. contradiction.
Qed.

(* redirecting one [next] pointer inside a chain, in the cell-by-cell style *)
Lemma cells_by_chain_redirect : forall h h' F l0 v z l2 l3 nxt,
  cells_by h h' F -> chain h v (l0 ++ z :: l2) -> chain h nxt l3 ->
  (forall cz, findw h z = Some cz -> w_next (F z cz) = nxt) ->
  (forall a c, In a l0 \/ In a l3 -> findw h a = Some c -> w_next (F a c) = w_next c) ->
  chain h' v (l0 ++ z :: l3).
Proof.
  intros h h' F l0; induction l0 as [|x l0 IH]; intros v z l2 l3 nxt CB Hc Hc3 Hz Hkeep; cbn in *.
  - inversion Hc as [|z' cz l' Hfz Hcz]; subst. econstructor.
    + eapply cells_by_some; eauto.
    + rewrite (Hz cz Hfz). eapply cells_by_chain; eauto.
  - inversion Hc as [|x' cx l' Hfx Hcx]; subst. econstructor.
    + eapply cells_by_some; eauto.
    + rewrite (Hkeep x cx (or_introl (or_introl eq_refl)) Hfx).
      eapply IH; eauto. intros a c [Ha|Ha] Hf; apply Hkeep; auto.
Qed.

Section Remove.
Variables (D : list positive) (h h' : heap) (p w : positive) (cw cp : wcell) (l1 l3 : list positive) (s : slot).
Variable fo : wcell -> wcell.
Hypothesis Hfo : keeps_but_focus fo.
Hypothesis Hfo_focus : In p D \/ forall c f, w_focus (fo c) = Some f -> w_focus c = Some f /\ f <> w.
Hypothesis HI : hinv D h.
Hypothesis Hw : findw h w = Some cw.
Hypothesis Hwp : w_parent cw = Some p.
Hypothesis Hp : findw h p = Some cp.
Hypothesis Hch : chain h (w_first cp) (l1 ++ w :: l3).
Hypothesis Hs : slot_at p l1 s.
Hypothesis Hpurged : forall q cq x, findq h q = Some cq -> q_win cq = Some x -> ~ anc h x w.
Hypothesis Hundragged : forall d, r_drag (rx h) = Some (Some d) -> ~ In root D -> findw h root <> None -> ~ anc h d w.
Hypothesis CB : cells_by h h' (remove_Fg fo p w s (w_next cw)).

Let F := remove_Fg fo p w s (w_next cw).

Lemma rm_p_lt_w : (p < w)%positive.
Proof. exact (hi_parent_lt D h HI w cw p Hw Hwp). Qed.

Lemma rm_kids_p : forall k, In k (l1 ++ w :: l3) <-> (exists ck, findw h k = Some ck /\ w_parent ck = Some p).
Proof.
  destruct (hi_kids D h HI p cp Hp) as [l [Hc Hl]].
  assert (l = l1 ++ w :: l3) by (eapply chain_fun; eauto). subst l. exact Hl.
Qed.

Lemma rm_notin : ~ In w l1 /\ ~ In w l3.
Proof. eapply chain_prefix_notin; eauto. Qed.

(* the owner of the slot: the parent itself, or the child in front of w *)
Lemma rm_slot_cases :
  (l1 = [] /\ s = SFirst p) \/
  (exists l0 z cz, l1 = l0 ++ [z] /\ s = SNext z /\ findw h z = Some cz /\ w_parent cz = Some p /\ z <> w /\ z <> p).
Proof.
  destruct Hs as [[E1 E2]|[l0 [z [E1 E2]]]]; [left; auto|right].
  assert (Hin : In z (l1 ++ w :: l3)) by (subst l1; apply in_or_app; left; apply in_or_app; right; left; reflexivity).
  apply rm_kids_p in Hin. destruct Hin as [cz [Hfz Hpz]].
  exists l0, z, cz. repeat split; auto.
  - intro E. subst z. destruct rm_notin as [Hn _]. apply Hn. subst l1. apply in_or_app. right. left. reflexivity.
  - intro E. subst z. pose proof (hi_parent_lt D h HI p cz p Hfz Hpz). lia.
Qed.

(* what F does, cell by cell *)
Lemma rm_F_w : F w cw = set_parent (set_next cw None) None.
Proof.
  unfold F, remove_Fg. pose proof rm_p_lt_w as Hlt.
  assert (Hpw : p <> w) by lia.
  rewrite (on_other p _ w _ Hpw). rewrite on_same. rewrite on_same.
  destruct rm_slot_cases as [[E1 E2]|[l0 [z [cz [E1 [E2 [Hfz [Hpz [Hzw Hzp]]]]]]]]]; subst s; cbn.
  - rewrite (on_other p _ w _ Hpw). reflexivity.
  - rewrite (on_other z _ w _ Hzw). reflexivity.
Qed.

Lemma rm_F_other : forall a c, a <> w -> a <> p -> (forall z, s = SNext z -> a <> z) -> F a c = c.
Proof.
  intros a c H1 H2 H3. unfold F, remove_Fg.
  rewrite (on_other p _ a); auto. rewrite (on_other w _ a); auto. rewrite (on_other w _ a); auto.
  destruct s as [q|z]; cbn.
  - destruct Hs as [[_ E]|[l0 [z [_ E]]]]; inversion E; subst. apply on_other; auto.
  - apply on_other. intro E. apply (H3 z eq_refl). auto.
Qed.

(* the inner three updates, which do not involve [fo] *)
Let inner (a : positive) (c : wcell) : wcell :=
  on w (fun c => set_parent c None) a (on w (fun c => set_next c None) a (slot_F s (w_next cw) a c)).

Lemma rm_F_unfold : forall a c, F a c = on p fo a (inner a c).
Proof. reflexivity. Qed.

Lemma rm_inner_other : forall a c, a <> w -> inner a c = slot_F s (w_next cw) a c.
Proof. intros a c H. unfold inner. rewrite (on_other w _ a); auto. rewrite (on_other w _ a); auto. Qed.

Lemma rm_F_parent : forall a c, a <> w -> w_parent (F a c) = w_parent c.
Proof.
  intros a c H1. rewrite rm_F_unfold.
  assert (G : w_parent (inner a c) = w_parent c).
  { rewrite rm_inner_other; auto. destruct s as [q|z]; cbn; unfold on; destruct (Pos.eqb _ a); reflexivity. }
  unfold on at 1. destruct (Pos.eqb p a); [|exact G].
  destruct (Hfo (inner a c)) as [H _]. rewrite H. exact G.
Qed.

Lemma rm_F_flags : forall a c, w_isroot (F a c) = w_isroot c /\ w_closed (F a c) = w_closed c /\ w_ref (F a c) = w_ref c.
Proof.
  intros a c. rewrite rm_F_unfold.
  assert (G : w_isroot (inner a c) = w_isroot c /\ w_closed (inner a c) = w_closed c /\ w_ref (inner a c) = w_ref c).
  { unfold inner, on. destruct s as [q|z]; cbn; unfold on;
    repeat match goal with |- context [if ?b then _ else _] => destruct b end; cbn; auto. }
  revert G. generalize (inner a c). intros X G. unfold on. destruct (Pos.eqb p a); [|exact G].
  destruct (Hfo X) as [_ [_ [_ [H4 [H5 H6]]]]]. rewrite H4, H5, H6. exact G.
Qed.

Lemma rm_F_next : forall a c, a <> w -> (forall z, s = SNext z -> a <> z) -> w_next (F a c) = w_next c.
Proof.
  intros a c H1 H3. rewrite rm_F_unfold.
  assert (G : w_next (inner a c) = w_next c).
  { rewrite rm_inner_other; auto. destruct s as [q|z]; cbn; unfold on.
    - destruct (Pos.eqb q a); reflexivity.
    - destruct (Pos.eqb z a) eqn:E; [|reflexivity]. apply Pos.eqb_eq in E. exfalso. apply (H3 z eq_refl). auto. }
  unfold on at 1. destruct (Pos.eqb p a); [|exact G].
  destruct (Hfo (inner a c)) as [_ [_ [H _]]]. rewrite H. exact G.
Qed.

Lemma rm_F_first : forall a c, a <> p -> w_first (F a c) = w_first c.
Proof.
  intros a c H1. rewrite rm_F_unfold. rewrite (on_other p _ a); auto.
  unfold inner.
  assert (G : forall c0, w_first (slot_F s (w_next cw) a c0) = w_first c0).
  { intro c0. destruct s as [q|z]; cbn; unfold on.
    - destruct (Pos.eqb q a) eqn:E; [|reflexivity]. apply Pos.eqb_eq in E. subst q.
      destruct Hs as [[_ E]|[l0 [z [_ E]]]]; inversion E; subst. contradiction.
    - destruct (Pos.eqb z a); reflexivity. }
  unfold on. destruct (Pos.eqb w a); cbn; apply G.
Qed.

Lemma rm_F_focus : forall a c f, (a = p -> ~ In p D) -> w_focus (F a c) = Some f ->
  w_focus c = Some f /\ (a = p -> f <> w).
Proof.
  intros a c f Hd. rewrite rm_F_unfold.
  assert (G : w_focus (inner a c) = w_focus c).
  { unfold inner, on. destruct s as [q|z]; cbn; unfold on;
    repeat match goal with |- context [if ?b then _ else _] => destruct b end; cbn; auto. }
  unfold on at 1. destruct (Pos.eqb p a) eqn:E.
  - apply Pos.eqb_eq in E. subst a. intro Hf.
    destruct Hfo_focus as [Hin|Hff]; [exfalso; exact (Hd eq_refl Hin)|].
    destruct (Hff (inner p c) f Hf) as [H1 H2]. rewrite G in H1. auto.
  - rewrite G. intro Hf. split; auto. intro Ea. subst a. rewrite Pos.eqb_refl in E. discriminate.
Qed.

Theorem hinv_remove : hinv D h'.
Proof.
  pose proof rm_p_lt_w as Hlt. assert (Hpw : p <> w) by lia.
  destruct rm_notin as [Hn1 Hn3].
  apply (hinv_cells_by D h h' F HI CB).
  - (* flags *)
    intros a c Hf. destruct (rm_F_flags a c) as [H1 [H2 H3]]. rewrite H1, H2, H3.
    destruct (Pos.eq_dec a w) as [E|E].
    + subst a. rewrite Hw in Hf. inversion Hf; subst c. rewrite rm_F_w. cbn. repeat split; auto.
      intro Hd. exact (hi_ref D h HI w cw Hw Hd).
    + rewrite (rm_F_parent a c E). repeat split; auto.
      * exact (hi_closed D h HI a c Hf).
      * intro Hd. exact (hi_ref D h HI a c Hf Hd).
  - (* children *)
    intros a c Hf. destruct (Pos.eq_dec a p) as [E|E].
    + subst a. rewrite Hp in Hf. inversion Hf; subst c.
      exists (l1 ++ l3). split.
      * destruct rm_slot_cases as [[E1 E2]|[l0 [z [cz [E1 [E2 [Hfz [Hpz [Hzw Hzp]]]]]]]]].
        -- (* w was the first child *)
           assert (Hch' := Hch). rewrite E1 in Hch'. cbn in Hch'. rewrite E1. cbn.
           assert (Efi : w_first (F p cp) = w_next cw).
           { rewrite rm_F_unfold. rewrite on_same. destruct (Hfo (inner p cp)) as [_ [H _]]. rewrite H.
             rewrite rm_inner_other; auto. subst s. cbn. rewrite on_same. reflexivity. }
           rewrite Efi. inversion Hch' as [|w' cw' l' Hfw Hcw]; subst w' l'. rewrite Hw in Hfw. inversion Hfw; subst cw'.
           eapply cells_by_chain; eauto. intros a c Ha Hfa. apply rm_F_next.
           ++ intro Ea. subst a. contradiction.
           ++ intros z Ez. subst s. discriminate.
        -- (* w follows z *)
           assert (Efi : w_first (F p cp) = w_first cp).
           { rewrite rm_F_unfold. rewrite on_same. destruct (Hfo (inner p cp)) as [_ [H _]]. rewrite H.
             rewrite rm_inner_other; auto. subst s. cbn. rewrite (on_other z _ p); auto. }
           rewrite Efi. assert (Hch' := Hch). rewrite E1 in Hch'.
           destruct (chain_app h _ (l0 ++ [z]) w l3 Hch') as [cw' [Hfw Hcw]].
           rewrite Hw in Hfw. inversion Hfw; subst cw'.
           rewrite <- app_assoc in Hch'. cbn in Hch'.
           assert (Hnd : NoDup (l0 ++ z :: w :: l3)) by (eapply chain_NoDup; eauto).
           rewrite E1. rewrite <- app_assoc. cbn.
           eapply cells_by_chain_redirect with (l2 := w :: l3); eauto.
           ++ intros cz' Hfz'. rewrite Hfz in Hfz'. inversion Hfz'; subst cz'.
              unfold F, remove_Fg. rewrite (on_other p _ z); auto. rewrite (on_other w _ z); auto. rewrite (on_other w _ z); auto.
              subst s. cbn. rewrite on_same. reflexivity.
           ++ intros a c Ha Hfa. apply rm_F_next.
              ** intro Ea. subst a. destruct Ha as [Ha|Ha]; [|contradiction].
                 apply Hn1. rewrite E1. apply in_or_app. left. exact Ha.
              ** intros z' Ez. subst s. inversion Ez; subst z'. intro Ea. subst a.
                 apply NoDup_remove_2 in Hnd. apply Hnd. destruct Ha as [Ha|Ha]; apply in_or_app; [left|right; right]; auto.
      * intro k. split.
        -- intro Hin. assert (Hin' : In k (l1 ++ w :: l3)).
           { apply in_app_or in Hin. apply in_or_app. destruct Hin; [left|right; right]; auto. }
           apply rm_kids_p in Hin'. destruct Hin' as [ck [H1 H2]]. exists ck. split; auto.
           rewrite rm_F_parent; auto. intro Ek. subst k. apply in_app_or in Hin. destruct Hin; contradiction.
        -- intros [ck [H1 H2]]. destruct (Pos.eq_dec k w) as [Ek|Ek].
           ++ subst k. rewrite Hw in H1. inversion H1; subst ck. rewrite rm_F_w in H2. cbn in H2. discriminate.
           ++ rewrite rm_F_parent in H2; auto.
              assert (Hin' : In k (l1 ++ w :: l3)) by (apply rm_kids_p; eauto).
              apply in_app_or in Hin'. apply in_or_app. destruct Hin' as [Hin'|[Hin'|Hin']]; auto. congruence.
    + (* any other window keeps its children *)
      apply (kids_preserved D h h' F a c HI CB Hf).
      * apply rm_F_first. exact E.
      * intros k ck Hfk Hpk.
        assert (Hkw : k <> w) by (intro Ek; subst k; rewrite Hw in Hfk; inversion Hfk; subst ck; congruence).
        split; [|rewrite rm_F_parent; auto].
        apply rm_F_next; auto. intros z Ez Ekz. subst k.
        destruct rm_slot_cases as [[_ E2]|[l0 [z' [cz [_ [E2 [Hfz [Hpz _]]]]]]]]; [congruence|].
        rewrite E2 in Ez. inversion Ez; subst z'. rewrite Hfz in Hfk. inversion Hfk; subst ck. congruence.
      * intros k ck Hfk Hpk. destruct (Pos.eq_dec k w) as [Ek|Ek].
        -- subst k. rewrite Hw in Hfk. inversion Hfk; subst ck. rewrite rm_F_w in Hpk. cbn in Hpk. discriminate.
        -- rewrite rm_F_parent in Hpk; auto.
  - (* windows outside every chain *)
    intros a c Hf Hpar. destruct (Pos.eq_dec a w) as [E|E].
    + subst a. rewrite Hw in Hf. inversion Hf; subst c. rewrite rm_F_w. reflexivity.
    + rewrite rm_F_parent in Hpar; auto. rewrite rm_F_next; auto.
      * exact (hi_orphan_next D h HI a c Hf Hpar).
      * intros z Ez Eaz. subst a.
        destruct rm_slot_cases as [[_ E2]|[l0 [z' [cz [_ [E2 [Hfz [Hpz _]]]]]]]]; [congruence|].
        rewrite E2 in Ez. inversion Ez; subst z'. rewrite Hfz in Hf. inversion Hf; subst c. congruence.
  - (* focus *)
    intros a c f Hf Hd Hfo'0.
    assert (Hdp : a = p -> ~ In p D) by (intro Ea; subst a; exact Hd).
    destruct (rm_F_focus a c f Hdp Hfo'0) as [Hfo' Hne].
    destruct (hi_focus D h HI a c f Hf Hd Hfo') as [cf [H1 H2]]. exists cf. split; auto.
    rewrite rm_F_parent; auto. intro Ef. subst f.
    rewrite Hw in H1. inversion H1; subst cf. rewrite Hwp in H2. inversion H2; subst a. apply (Hne eq_refl). reflexivity.
  - (* queue *)
    intros q cq Hfq. destruct (hi_queue D h HI) as [ql [_ [_ Hq3]]].
    destruct (Hq3 q cq Hfq) as [x [px [cx [H1 [H2 [H3 [H4 H5]]]]]]].
    pose proof (Hpurged q cq x Hfq H1) as Hnw.
    exists x, px, cx. repeat split; auto.
    + rewrite rm_F_parent; auto. intro Ex. subst x. apply Hnw. eapply anc_refl; eauto.
    + eapply cells_by_anc; eauto. intros a c Ha Hfa _. apply rm_F_parent. intro Ea. subst a. contradiction.
  - (* the drag source *)
    intros d Hd Hn Hl. pose proof (Hundragged d Hd Hn Hl) as Hnw.
    eapply (drag_kept_path D h h' F HI CB d Hd Hn Hl).
    intros a c Ha Hfa _. apply rm_F_parent. intro Ea. subst a. contradiction.
Qed.

End Remove.
